/- who waits for whom: emitter threads, joins, the dispatcher inside a callback, the stop sentinel (for C06's global
   statements) -/
import WD.Proofs.Observer.OStep
set_option linter.unusedSimpArgs false
set_option linter.unusedVariables false
namespace WD.ProofsObs
open WD WD.Obs

/-- program counters of an emitter thread -/
def epc : Pc → Bool
  | .begin | .eEmit | .eWait | .done => true
  | _ => false

/-- where a thread that runs a callback (the dispatcher, holding the lock) can be between two of its steps -/
def cbPc : Pc → Bool
  | .schedStarted .. | .unschedJoin .. | .uallJoin .. | .startEm _ | .startD => true
  | _ => false

def isDpc : Pc → Bool
  | .dWait | .dLock .. => true
  | _ => false

/-- where the dispatcher can be when no callback is running -/
def djPc : Pc → Bool
  | .begin | .dWait | .dLock .. | .done => true
  | _ => false

/-- two different dispatcher threads exist (`observer.start()` took effect twice: impossible with real threads) -/
def TwoD (s : State) : Prop :=
  ∃ i j : Nat, i ≠ j ∧ (kinds s)[i]? = some Kind.dispatcher ∧ (kinds s)[j]? = some Kind.dispatcher

/-- some dispatcher thread exists -/
def HasD (s : State) : Prop := ∃ i : Nat, (kinds s)[i]? = some Kind.dispatcher

theorem kinds_prefix_get {s s' : State} (hk : KP s s') {i : Nat} {k : Kind} (h : (kinds s)[i]? = some k) :
    (kinds s')[i]? = some k := by
  obtain ⟨r, hr⟩ := hk
  rw [← hr]
  have := (List.getElem?_eq_some_iff.mp h).1
  rw [List.getElem?_append_left this]; exact h

theorem TwoD.mono {s s' : State} (hk : KP s s') (h : TwoD s) : TwoD s' := by
  obtain ⟨i, j, hij, hi, hj⟩ := h
  exact ⟨i, j, hij, kinds_prefix_get hk hi, kinds_prefix_get hk hj⟩

theorem HasD.mono {s s' : State} (hk : KP s s') (h : HasD s) : HasD s' := by
  obtain ⟨i, hi⟩ := h
  exact ⟨i, kinds_prefix_get hk hi⟩

theorem not_twoD_of_oneD {s : State} (h : oneD s) : ¬ TwoD s := by
  rintro ⟨i, j, hij, hi, hj⟩
  exact hij (h i j hi hj)

/-- the stop sentinel has been put (queued, or dropped as a repetition of the one still queued) -/
def Sent (hist : List Obs) : Prop := Obs.enqStop ∈ hist ∨ Obs.dropStop ∈ hist

def sentObs : Obs → Bool
  | .enqStop | .dropStop => true
  | _ => false

theorem Sent_snoc (hist : List Obs) (o : Obs) : Sent (hist ++ [o]) ↔ Sent hist ∨ sentObs o = true := by
  unfold Sent
  simp only [List.mem_append, List.mem_singleton]
  cases o <;> simp [sentObs]

theorem Sent.mono {hist : List Obs} (h : Sent hist) (l : List Obs) : Sent (hist ++ l) := by
  rcases h with h | h
  · exact Or.inl (List.mem_append_left _ h)
  · exact Or.inr (List.mem_append_left _ h)

/-- a `stop()` that returns "ok" has put the sentinel -/
def GoodAtS (p : List Obs) : Obs → Prop
  | .did .stop res => res = "ok" → Sent p
  | _ => True

/-- the emitter object exists and its stop flag is set -/
def Stopped (s : State) (e : Eid) : Prop := ∃ o, s.em? e = some o ∧ o.stopped = true

/-- the emitter object exists and is stopped or still registered -/
def AliveOk (s : State) (e : Eid) : Prop := ∃ o, s.em? e = some o ∧ (o.stopped = true ∨ e ∈ s.regEm)

/-- some thread is between `Thread.start` of emitter `e` and its registration (inside `schedule`, holding the lock) -/
def Pending (s : State) (e : Eid) : Prop :=
  ∃ (j : Nat) (t : Thread) (h : Hid) (w : Wid), s.threads[j]? = some t ∧ t.pc = Pc.schedStarted h w e

/-- per-thread facts -/
structure TG (s : State) (t : Thread) : Prop where
  disp : (t.iter.isSome = true ∨ isDpc t.pc = true) → t.kind = .dispatcher
  cb : t.iter.isSome = true → cbPc t.pc = true ∨ (t.pc = .joinD ∧ TwoD s)
  epcE : ∀ e, t.kind = .emitter e → epc t.pc = true
  epcO : (t.pc = .eEmit ∨ t.pc = .eWait) → ∃ e, t.kind = .emitter e
  dj : t.kind = .dispatcher → t.iter = none → djPc t.pc = true
  joinU : ∀ w e, t.pc = .unschedJoin w e → Stopped s e
  joinA : ∀ es fs, t.pc = .uallJoin es fs → ∀ e ∈ es, Stopped s e
  sched : ∀ h w e, t.pc = .schedStarted h w e → ∃ o, s.em? e = some o
  emObj : ∀ e, t.kind = .emitter e → ∃ o, s.em? e = some o ∧ o.tidx.isSome = true
  startEs : ∀ es, t.pc = .startEm es → ∀ e ∈ es, AliveOk s e
  regS : ∀ es fs, t.pc = .uallJoin es fs → ∀ e ∈ s.regEm, Stopped s e
  q1 : t.pc = .dWait → t.notified = false → s.queue = [] ∨ TwoD s
  sq : t.kind = .dispatcher → t.pc ≠ .done → Sent s.hist → QItem.stop ∈ s.queue ∨ TwoD s
  stopA : t.pc = .acq .stop → s.stoppedD = true
  stopJ : ∀ es, t.pc = .uallJoin es true → s.stoppedD = true

/-- facts about the tables -/
structure SG (s : State) (X : Eid → Prop) : Prop where
  em : ∀ e o ei, s.em? e = some o → o.tidx = some ei → ∃ t, s.threads[ei]? = some t ∧ t.kind = .emitter e
  didx : ∀ d, s.dIdx = some d → ∃ t, s.threads[d]? = some t ∧ t.kind = .dispatcher
  reg : ∀ e ∈ s.regEm, ∃ o, s.em? e = some o
  alive : ∀ e o, s.em? e = some o → o.tidx.isSome = true → o.stopped = true ∨ e ∈ s.regEm ∨ Pending s e ∨ X e
  l1 : s.last = some .stop → QItem.stop ∈ s.queue
  l2 : QItem.stop ∈ s.queue → s.stoppedD = true
  goodS : Good GoodAtS s.hist
  sq0 : Sent s.hist → QItem.stop ∈ s.queue ∨ HasD s
  dset : HasD s → ∃ d, s.dIdx = some d

/-- while thread `ti` is in the middle of a step -/
structure GX (s : State) (ti : Nat) (X : Eid → Prop) : Prop where
  sg : SG s X
  others : ∀ (j : Nat) (t : Thread), j ≠ ti → s.threads[j]? = some t → TG s t

/-- between steps -/
structure GQ (s : State) : Prop where
  sg : SG s (fun _ => False)
  thr : ∀ (j : Nat) (t : Thread), s.threads[j]? = some t → TG s t

/-- the emitter objects only grow; a stop flag once set stays; an emitter that has a thread keeps having one -/
def EmMono (s s' : State) : Prop :=
  ∀ e o, s.em? e = some o → ∃ o', s'.em? e = some o' ∧ (o.stopped = true → o'.stopped = true) ∧
    (o.tidx.isSome = true → o'.tidx.isSome = true)

theorem EmMono.refl (s : State) : EmMono s s := fun e o h => ⟨o, h, id, id⟩
theorem EmMono.of_eq {s s' : State} (h : s'.emObjs = s.emObjs) : EmMono s s' := by
  intro e o he; exact ⟨o, by simpa [State.em?, h] using he, id, id⟩
theorem EmMono.trans {a b c : State} (h1 : EmMono a b) (h2 : EmMono b c) : EmMono a c := by
  intro e o he
  obtain ⟨o1, ho1, hs1, ht1⟩ := h1 e o he
  obtain ⟨o2, ho2, hs2, ht2⟩ := h2 e o1 ho1
  exact ⟨o2, ho2, fun h => hs2 (hs1 h), fun h => ht2 (ht1 h)⟩

theorem Stopped.mono {s s' : State} {e : Eid} (hm : EmMono s s') (h : Stopped s e) : Stopped s' e := by
  obtain ⟨o, ho, hs⟩ := h
  obtain ⟨o', ho', hs', _⟩ := hm e o ho
  exact ⟨o', ho', hs' hs⟩

/-- what a part of a step may do, as far as the facts about the *other* threads are concerned -/
structure Rel (s s' : State) : Prop where
  em : EmMono s s'
  kp : KP s s'
  am : ∀ e, AliveOk s e → AliveOk s' e
  rs : (∀ e ∈ s.regEm, Stopped s e) → ∀ e ∈ s'.regEm, Stopped s' e
  qe : s'.queue = s.queue
  hs : Sent s'.hist → Sent s.hist
  st : s.stoppedD = true → s'.stoppedD = true

theorem Rel.of_frame {s s' : State} (ht : s'.threads = s.threads) (he : s'.emObjs = s.emObjs) (hr : s'.regEm = s.regEm)
    (hq : s'.queue = s.queue) (hh : s'.hist = s.hist) (hst : s.stoppedD = true → s'.stoppedD = true) : Rel s s' := by
  have hem : ∀ e, s'.em? e = s.em? e := fun e => by simp [State.em?, he]
  refine ⟨EmMono.of_eq he, KP.of_eq ht, ?_, ?_, hq, by rw [hh]; exact id, hst⟩
  · rintro e ⟨o, ho, h⟩; exact ⟨o, by rw [hem]; exact ho, by rw [hr]; exact h⟩
  · intro h e he'; rw [hr] at he'
    obtain ⟨o, ho, hst⟩ := h e he'
    exact ⟨o, by rw [hem]; exact ho, hst⟩

theorem TG.mono {s s' : State} {t : Thread} (h : TG s t) (r : Rel s s') : TG s' t where
  disp := h.disp
  cb := fun hi => (h.cb hi).imp id (fun x => ⟨x.1, x.2.mono r.kp⟩)
  epcE := h.epcE
  epcO := h.epcO
  dj := h.dj
  joinU := fun w e hp => (h.joinU w e hp).mono r.em
  joinA := fun es fs hp e he => (h.joinA es fs hp e he).mono r.em
  sched := fun h0 w e hp => by
    obtain ⟨o, ho⟩ := h.sched h0 w e hp
    obtain ⟨o', ho', _⟩ := r.em e o ho
    exact ⟨o', ho'⟩
  emObj := fun e hk => by
    obtain ⟨o, ho, ht⟩ := h.emObj e hk
    obtain ⟨o', ho', _, ht'⟩ := r.em e o ho
    exact ⟨o', ho', ht' ht⟩
  startEs := fun es hp e he => r.am e (h.startEs es hp e he)
  regS := fun es fs hp => r.rs (h.regS es fs hp)
  q1 := fun hp hn => by
    rw [r.qe]
    exact (h.q1 hp hn).imp id (fun x => x.mono r.kp)
  sq := fun hk hp hS => by
    rw [r.qe]
    exact (h.sq hk hp (r.hs hS)).imp id (fun x => x.mono r.kp)
  stopA := fun hp => r.st (h.stopA hp)
  stopJ := fun es hp => r.st (h.stopJ es hp)

/-- `TG` of a thread record with the same pc, iter, kind and an unchanged (or raised) notified flag -/
theorem TG.of_same {s : State} {t t' : Thread} (h : TG s t) (hpc : t'.pc = t.pc) (hit : t'.iter = t.iter) (hk : t'.kind = t.kind)
    (hn : t'.notified = t.notified ∨ t'.notified = true) : TG s t' where
  disp := by rw [hpc, hit, hk]; exact h.disp
  cb := by rw [hpc, hit]; exact h.cb
  epcE := by rw [hpc, hk]; exact h.epcE
  epcO := by rw [hpc, hk]; exact h.epcO
  dj := by rw [hpc, hit, hk]; exact h.dj
  joinU := by rw [hpc]; exact h.joinU
  joinA := by rw [hpc]; exact h.joinA
  sched := by rw [hpc]; exact h.sched
  emObj := by rw [hk]; exact h.emObj
  startEs := by rw [hpc]; exact h.startEs
  regS := by rw [hpc]; exact h.regS
  q1 := by
    rw [hpc]
    intro hp hn'
    rcases hn with hn | hn
    · rw [hn] at hn'; exact h.q1 hp hn'
    · rw [hn] at hn'; cases hn'
  sq := by rw [hpc, hk]; exact h.sq
  stopA := by rw [hpc]; exact h.stopA
  stopJ := by rw [hpc]; exact h.stopJ

/- ---------------- the state changes a step is made of ---------------- -/

theorem Pending.of_threads {s s' : State} {e : Eid} (h : Pending s e)
    (ht : ∀ (j : Nat) (t : Thread), s.threads[j]? = some t → ∃ t' : Thread, s'.threads[j]? = some t' ∧ t'.pc = t.pc) : Pending s' e := by
  obtain ⟨j, t, h0, w, hj, hp⟩ := h
  obtain ⟨t', hj', hp'⟩ := ht j t hj
  exact ⟨j, t', h0, w, hj', hp'.trans hp⟩

theorem kinds_eq_of_threads {s s' : State} (h : s'.threads = s.threads) : kinds s' = kinds s := by
  unfold kinds; rw [h]

/-- the tables after a change that keeps every thread's pc and kind (threads may be appended) -/
theorem SG.step {s s' : State} {X : Eid → Prop} (hS : SG s X)
    (ht : ∀ (j : Nat) (t : Thread), s.threads[j]? = some t → ∃ t' : Thread, s'.threads[j]? = some t' ∧ t'.pc = t.pc ∧ t'.kind = t.kind)
    (hkp : KP s s') (hem : ∀ (e : Eid) (o' : EmObj), s'.em? e = some o' → ∃ o : EmObj, s.em? e = some o ∧ o'.tidx = o.tidx ∧ (o.stopped = true → o'.stopped = true))
    (hex : EmMono s s') (hd : s'.dIdx = s.dIdx) (hr : s'.regEm = s.regEm)
    (hq : s'.queue = s.queue) (hl : s'.last = s.last) (hst : s.stoppedD = true → s'.stoppedD = true)
    (hh : s'.hist = s.hist) (hD : HasD s' → HasD s) : SG s' X where
  em := by
    intro e o' ei h1 h2
    obtain ⟨o, ho, htx, _⟩ := hem e o' h1
    obtain ⟨x, hx, hxk⟩ := hS.em e o ei ho (htx ▸ h2)
    obtain ⟨x', hx', _, hk'⟩ := ht ei x hx
    exact ⟨x', hx', hk'.trans hxk⟩
  didx := by
    intro d h; rw [hd] at h
    obtain ⟨x, hx, hxk⟩ := hS.didx d h
    obtain ⟨x', hx', _, hk'⟩ := ht d x hx
    exact ⟨x', hx', hk'.trans hxk⟩
  reg := by
    intro e h; rw [hr] at h
    obtain ⟨o, ho⟩ := hS.reg e h
    obtain ⟨o', ho', _⟩ := hex e o ho
    exact ⟨o', ho'⟩
  alive := by
    intro e o' h1 h2
    obtain ⟨o, ho, htx, hsx⟩ := hem e o' h1
    rcases hS.alive e o ho (htx ▸ h2) with h | h | h | h
    · exact Or.inl (hsx h)
    · exact Or.inr (Or.inl (hr ▸ h))
    · exact Or.inr (Or.inr (Or.inl (h.of_threads (fun j t hj => by obtain ⟨t', a, b, _⟩ := ht j t hj; exact ⟨t', a, b⟩))))
    · exact Or.inr (Or.inr (Or.inr h))
  l1 := by rw [hl, hq]; exact hS.l1
  l2 := by rw [hq]; exact fun h => hst (hS.l2 h)
  goodS := by rw [hh]; exact hS.goodS
  sq0 := by rw [hh, hq]; exact fun h => (hS.sq0 h).imp id (fun x => x.mono hkp)
  dset := by
    intro h; rw [hd]; exact hS.dset (hD h)

/-- the same threads (as records: pcs and kinds) -/
theorem same_threads {s s' : State} (h : s'.threads = s.threads) :
    ∀ (j : Nat) (t : Thread), s.threads[j]? = some t → ∃ t' : Thread, s'.threads[j]? = some t' ∧ t'.pc = t.pc ∧ t'.kind = t.kind :=
  fun j t hj => ⟨t, by rw [h]; exact hj, rfl, rfl⟩

theorem same_em {s s' : State} (h : s'.emObjs = s.emObjs) :
    ∀ (e : Eid) (o' : EmObj), s'.em? e = some o' → ∃ o : EmObj, s.em? e = some o ∧ o'.tidx = o.tidx ∧ (o.stopped = true → o'.stopped = true) :=
  fun e o' he => ⟨o', by simpa [State.em?, h] using he, rfl, id⟩

/-- nothing the invariant looks at changes (the lock, the handler table, counters ... may) -/
theorem GX.frame {s s' : State} {ti : Nat} {X : Eid → Prop} (hG : GX s ti X) (ht : s'.threads = s.threads) (he : s'.emObjs = s.emObjs)
    (hd : s'.dIdx = s.dIdx) (hr : s'.regEm = s.regEm) (hq : s'.queue = s.queue) (hl : s'.last = s.last)
    (hst : s'.stoppedD = s.stoppedD) (hh : s'.hist = s.hist) : GX s' ti X := by
  refine ⟨hG.sg.step (same_threads ht) (KP.of_eq ht) (same_em he) (EmMono.of_eq he) hd hr hq hl (by rw [hst]; exact id) hh
    (by unfold HasD; rw [kinds_eq_of_threads ht]; exact id), ?_⟩
  intro j t hj hjt
  rw [ht] at hjt
  exact (hG.others j t hj hjt).mono (Rel.of_frame ht he hr hq hh (by rw [hst]; exact id))

/-- one more observation that is neither a sentinel put nor a returning `stop()` -/
theorem GX.log {s : State} {ti : Nat} {X : Eid → Prop} (hG : GX s ti X) (o : Obs) (ho : sentObs o = false) (hg : GoodAtS s.hist o) :
    GX (s.log o) ti X := by
  have hS : ∀ h : Sent (s.hist ++ [o]), Sent s.hist := by
    intro h; rcases (Sent_snoc _ _).mp h with h | h
    · exact h
    · rw [ho] at h; cases h
  constructor
  · exact { em := hG.sg.em, didx := hG.sg.didx, reg := hG.sg.reg, alive := hG.sg.alive, l1 := hG.sg.l1, l2 := hG.sg.l2,
            goodS := hG.sg.goodS.snoc hg, sq0 := fun h => hG.sg.sq0 (hS h), dset := hG.sg.dset }
  · intro j t hj hjt
    refine (hG.others j t hj hjt).mono ⟨EmMono.refl _, KP.refl _, fun e h => h, fun h => h, rfl, hS, id⟩

/-- the handler table (say) changes and one neutral observation is logged -/
theorem GX.frameLog {s s' : State} {ti : Nat} {X : Eid → Prop} (hG : GX s ti X) (ht : s'.threads = s.threads) (he : s'.emObjs = s.emObjs)
    (hd : s'.dIdx = s.dIdx) (hr : s'.regEm = s.regEm) (hq : s'.queue = s.queue) (hl : s'.last = s.last)
    (hst : s'.stoppedD = s.stoppedD) (o : Obs) (hh : s'.hist = s.hist ++ [o]) (ho : sentObs o = false) (hg : GoodAtS s.hist o) :
    GX s' ti X := by
  have h1 : GX ({ s' with hist := s.hist } : State) ti X := hG.frame ht he hd hr hq hl hst rfl
  have h2 := h1.log o ho hg
  have : (({ s' with hist := s.hist } : State).log o) = s' := by
    cases s'
    simp only [State.log]
    have hh' : _ = s.hist ++ [o] := hh
    simp only at hh'
    rw [← hh']
  rw [this] at h2; exact h2

theorem GX.release {s : State} {ti : Nat} {X : Eid → Prop} (hG : GX s ti X) : GX s.release ti X := by
  apply hG.frame <;> (unfold State.release; split) <;> rfl

/-- `ti`'s own record changes, keeping its pc and kind -/
theorem GX.setThreadMine {s : State} {ti : Nat} {X : Eid → Prop} {t : Thread} (hG : GX s ti X) (ht : s.thread? ti = some t) (t' : Thread)
    (hk : t'.kind = t.kind) (hp : t'.pc = t.pc) : GX (s.setThread ti t') ti X := by
  have ht' : s.threads[ti]? = some t := ht
  have hlt := (List.getElem?_eq_some_iff.mp ht').1
  have hthr : ∀ (j : Nat) (x : Thread), s.threads[j]? = some x → ∃ x' : Thread, (s.setThread ti t').threads[j]? = some x' ∧ x'.pc = x.pc ∧ x'.kind = x.kind := by
    intro j x hj
    simp only [setThread_threads, List.getElem?_set]
    split
    · rename_i e1; subst e1
      rw [ht'] at hj; cases hj
      exact ⟨t', by simp [hlt], hp, hk⟩
    · exact ⟨x, hj, rfl, rfl⟩
  have hkp := KP.setThread ht' t' hk
  refine ⟨hG.sg.step hthr hkp (same_em rfl) (EmMono.refl _) rfl rfl rfl rfl id rfl ?_, ?_⟩
  · unfold HasD; rw [kinds_setThread ht' t' hk]; exact id
  · intro j tj hj hjt
    simp only [setThread_threads, getElem?_set_ne' _ _ _ _ hj] at hjt
    exact (hG.others j tj hj hjt).mono ⟨EmMono.refl _, hkp, fun e h => h, fun h => h, rfl, id, id⟩

/-- an update of some thread (possibly `ti`) that keeps pc, iter and kind and does not clear the notified flag -/
theorem GX.updThread_same {s : State} {ti : Nat} {X : Eid → Prop} (hG : GX s ti X) (k : Nat) (f : Thread → Thread)
    (hf : ∀ t, (f t).pc = t.pc ∧ (f t).iter = t.iter ∧ (f t).kind = t.kind ∧ ((f t).notified = t.notified ∨ (f t).notified = true)) :
    GX (s.updThread k f) ti X := by
  rw [updThread_eq]
  split
  · rename_i tk htk
    have hlt := (List.getElem?_eq_some_iff.mp htk).1
    have hthr : ∀ (j : Nat) (x : Thread), s.threads[j]? = some x → ∃ x' : Thread, (s.setThread k (f tk)).threads[j]? = some x' ∧ x'.pc = x.pc ∧ x'.kind = x.kind := by
      intro j x hj
      simp only [setThread_threads, List.getElem?_set]
      split
      · rename_i e1; subst e1
        rw [htk] at hj; cases hj
        exact ⟨f tk, by simp [hlt], (hf tk).1, (hf tk).2.2.1⟩
      · exact ⟨x, hj, rfl, rfl⟩
    have hkp := KP.setThread htk (f tk) (hf tk).2.2.1
    have hrel : Rel s (s.setThread k (f tk)) := ⟨EmMono.refl _, hkp, fun e h => h, fun h => h, rfl, id, id⟩
    refine ⟨hG.sg.step hthr hkp (same_em rfl) (EmMono.refl _) rfl rfl rfl rfl id rfl ?_, ?_⟩
    · unfold HasD; rw [kinds_setThread htk (f tk) (hf tk).2.2.1]; exact id
    · intro j t hj hjt
      simp only [setThread_threads, List.getElem?_set] at hjt
      split at hjt
      · rename_i hkj
        subst hkj
        have hjt' : f tk = t := by
          first
            | exact Option.some.inj hjt
            | (split at hjt
               · exact Option.some.inj hjt
               · cases hjt)
        subst hjt'
        exact ((hG.others k tk hj htk).of_same (hf tk).1 (hf tk).2.1 (hf tk).2.2.1 (hf tk).2.2.2).mono hrel
      · exact (hG.others j t hj hjt).mono hrel
  · exact hG

theorem em?_updEm (s : State) (e e' : Eid) (f : EmObj → EmObj) :
    (s.updEm e f).em? e' = if e' = e then (s.em? e).map f else s.em? e' := by
  rw [updEm_eq]
  cases h : s.emObjs[e]? with
  | none =>
    simp only [State.em?]
    split
    · rename_i e1; subst e1; simp [h]
    · rfl
  | some o =>
    simp only [State.em?, List.getElem?_set]
    have hlt := (List.getElem?_eq_some_iff.mp h).1
    by_cases e1 : e' = e
    · subst e1
      have : s.emObjs[e'] = o := by
        have := List.getElem?_eq_getElem hlt; rw [h] at this; exact (Option.some.inj this).symm
      simp [h, hlt, this]
    · simp [e1, Ne.symm e1]

theorem updEm_regEm (s : State) (e : Eid) (f : EmObj → EmObj) : (s.updEm e f).regEm = s.regEm := by
  rw [updEm_eq]; split <;> rfl
theorem updEm_dIdx (s : State) (e : Eid) (f : EmObj → EmObj) : (s.updEm e f).dIdx = s.dIdx := by
  rw [updEm_eq]; split <;> rfl
theorem updEm_last (s : State) (e : Eid) (f : EmObj → EmObj) : (s.updEm e f).last = s.last := by
  rw [updEm_eq]; split <;> rfl
theorem updEm_stoppedD (s : State) (e : Eid) (f : EmObj → EmObj) : (s.updEm e f).stoppedD = s.stoppedD := by
  rw [updEm_eq]; split <;> rfl

theorem EmMono.updEm (s : State) (e : Eid) (f : EmObj → EmObj) (hf : ∀ o, o.stopped = true → (f o).stopped = true)
    (ht : ∀ o, o.tidx.isSome = true → (f o).tidx.isSome = true) : EmMono s (s.updEm e f) := by
  intro e' o ho
  rw [em?_updEm]
  by_cases e1 : e' = e
  · subst e1; simp only [if_true, ho, Option.map_some]; exact ⟨f o, rfl, hf o, ht o⟩
  · simp only [e1, if_false]; exact ⟨o, ho, id, id⟩

/-- an update of an emitter object that keeps its thread link and never clears its stop flag -/
theorem GX.updEm {s : State} {ti : Nat} {X : Eid → Prop} (hG : GX s ti X) (e : Eid) (f : EmObj → EmObj)
    (hs : ∀ o, o.stopped = true → (f o).stopped = true) (ht : ∀ o, (f o).tidx = o.tidx) : GX (s.updEm e f) ti X := by
  have hm := EmMono.updEm s e f hs (fun o h => by rw [ht]; exact h)
  have hem : ∀ (e' : Eid) (o' : EmObj), (s.updEm e f).em? e' = some o' →
      ∃ o : EmObj, s.em? e' = some o ∧ o'.tidx = o.tidx ∧ (o.stopped = true → o'.stopped = true) := by
    intro e' o' h1
    rw [em?_updEm] at h1
    by_cases e1 : e' = e
    · subst e1
      simp only [if_true] at h1
      cases h0 : s.em? e' with
      | none => simp [h0] at h1
      | some o0 =>
        simp only [h0, Option.map_some, Option.some.injEq] at h1
        subst h1
        exact ⟨o0, rfl, ht o0, hs o0⟩
    · simp only [e1, if_false] at h1
      exact ⟨o', h1, rfl, id⟩
  have hrel : Rel s (s.updEm e f) := by
    refine ⟨hm, KP.of_eq (updEm_threads s e f), ?_, ?_, updEm_queue s e f, by rw [updEm_hist]; exact id, by rw [updEm_stoppedD]; exact id⟩
    · rintro x ⟨o, ho, h⟩
      obtain ⟨o', ho', hs', _⟩ := hm x o ho
      exact ⟨o', ho', h.imp hs' (fun y => by rw [updEm_regEm]; exact y)⟩
    · intro h x hx; rw [updEm_regEm] at hx; exact (h x hx).mono hm
  refine ⟨hG.sg.step (same_threads (updEm_threads s e f)) hrel.kp hem hm (updEm_dIdx s e f) (updEm_regEm s e f)
    (updEm_queue s e f) (updEm_last s e f) (by rw [updEm_stoppedD]; exact id) (updEm_hist s e f)
    (by unfold HasD; rw [kinds_eq_of_threads (updEm_threads s e f)]; exact id), ?_⟩
  intro j t hj hjt
  rw [updEm_threads] at hjt
  exact (hG.others j t hj hjt).mono hrel

theorem GX.foldUpdEm {s : State} {ti : Nat} {X : Eid → Prop} (hG : GX s ti X) (l : List Eid) (f : EmObj → EmObj)
    (hs : ∀ o, o.stopped = true → (f o).stopped = true) (ht : ∀ o, (f o).tidx = o.tidx) :
    GX (l.foldl (fun acc e => acc.updEm e f) s) ti X := by
  induction l generalizing s with
  | nil => exact hG
  | cons e l ih => exact ih (hG.updEm e f hs ht)

theorem foldStop_mono (s0 : State) (l0 : List Eid) :
    EmMono s0 (l0.foldl (fun acc e => acc.updEm e (fun o => { o with stopped := true })) s0) := by
  induction l0 generalizing s0 with
  | nil => exact EmMono.refl _
  | cons y l0 ih0 =>
    simp only [List.foldl_cons]
    exact (EmMono.updEm s0 y (fun o => { o with stopped := true }) (fun o h => rfl) (fun o h => h)).trans (ih0 _)

/-- `unschedule_all` sets the stop flag of every registered emitter -/
theorem foldStop_stopped (s : State) (l : List Eid) (e : Eid) (he : e ∈ l) (hex : ∃ o, s.em? e = some o) :
    Stopped (l.foldl (fun acc e => acc.updEm e (fun o => { o with stopped := true })) s) e := by
  induction l generalizing s with
  | nil => cases he
  | cons x l ih =>
    simp only [List.foldl_cons]
    rcases List.mem_cons.mp he with h | h
    · subst h
      obtain ⟨o, ho⟩ := hex
      have h1 : Stopped (s.updEm e (fun o => { o with stopped := true })) e :=
        ⟨{ o with stopped := true }, by rw [em?_updEm]; simp [ho], rfl⟩
      exact h1.mono (foldStop_mono _ _)
    · apply ih _ h
      obtain ⟨o, ho⟩ := hex
      obtain ⟨o', ho', _⟩ := EmMono.updEm s x (fun o => { o with stopped := true }) (fun o h => rfl) (fun o h => h) e o ho
      exact ⟨o', ho'⟩

theorem foldUpdEm_regEm (s : State) (l : List Eid) (f : EmObj → EmObj) :
    (l.foldl (fun acc e => acc.updEm e f) s).regEm = s.regEm := by
  induction l generalizing s with
  | nil => rfl
  | cons e l ih => simp only [List.foldl_cons]; rw [ih, updEm_regEm]

theorem emitterOf_exists {s : State} {w : Wid} {e : Eid} (h : s.emitterOf w = some e) : ∃ o, s.em? e = some o := by
  unfold State.emitterOf at h
  have := List.find?_some h
  cases he : s.em? e with
  | none => simp [he] at this
  | some o => exact ⟨o, rfl⟩

/-- a new emitter object (no thread yet) -/
theorem GX.appendEm {s : State} {ti : Nat} {X : Eid → Prop} (hG : GX s ti X) (o : EmObj) (ho : o.tidx = none) :
    GX ({ s with emObjs := s.emObjs ++ [o] } : State) ti X := by
  have hmono : EmMono s ({ s with emObjs := s.emObjs ++ [o] } : State) := by
    intro e x hx
    refine ⟨x, ?_, id, id⟩
    have hx' : s.emObjs[e]? = some x := hx
    have := (List.getElem?_eq_some_iff.mp hx').1
    show (s.emObjs ++ [o])[e]? = some x
    rw [List.getElem?_append_left this]; exact hx'
  have hrel : Rel s ({ s with emObjs := s.emObjs ++ [o] } : State) := by
    refine ⟨hmono, KP.of_eq rfl, ?_, ?_, rfl, id, id⟩
    · rintro x ⟨y, hy, h⟩
      obtain ⟨y', hy', hs', _⟩ := hmono x y hy
      exact ⟨y', hy', h.imp hs' id⟩
    · intro h x hx; exact (h x hx).mono hmono
  have hS := hG.sg
  refine ⟨?_, fun j t hj hjt => (hG.others j t hj hjt).mono hrel⟩
  have hnew : ∀ (e : Eid) (x : EmObj), (s.emObjs ++ [o])[e]? = some x → s.emObjs[e]? = some x ∨ (x = o) := by
    intro e x h1
    rw [List.getElem?_append] at h1
    split at h1
    · exact Or.inl h1
    · rw [List.getElem?_singleton] at h1
      split at h1
      · cases h1; exact Or.inr rfl
      · cases h1
  exact {
    em := by
      intro e x ei h1 h2
      rcases hnew e x h1 with h | h
      · exact hS.em e x ei h h2
      · subst h; rw [ho] at h2; cases h2
    didx := hS.didx
    reg := by
      intro e h
      obtain ⟨x, hx⟩ := hS.reg e h
      obtain ⟨x', hx', _⟩ := hmono e x hx
      exact ⟨x', hx'⟩
    alive := by
      intro e x h1 h2
      rcases hnew e x h1 with h | h
      · exact hS.alive e x h h2
      · subst h; rw [ho] at h2; cases h2
    l1 := hS.l1, l2 := hS.l2, goodS := hS.goodS, sq0 := hS.sq0, dset := hS.dset }

theorem spawn_em? (s : State) (b : String) (k : Kind) (e : Eid) : (s.spawn b k).1.em? e = s.em? e := rfl

theorem hasD_append_nondisp {s s' : State} {t : Thread} (h : s'.threads = s.threads ++ [t]) (hk : t.kind ≠ .dispatcher) :
    HasD s' → HasD s := by
  rintro ⟨i, hi⟩
  refine ⟨i, ?_⟩
  unfold kinds at hi ⊢
  rw [h, List.map_append, List.getElem?_append] at hi
  split at hi
  · exact hi
  · simp only [List.map_cons, List.map_nil] at hi
    rw [List.getElem?_singleton] at hi
    split at hi
    · exact absurd (Option.some.inj hi) hk
    · cases hi

/-- `Thread.start` of emitter `e` (which is registered, or stopped already): a new thread, remembered in the object -/
theorem GX.linkEm {s : State} {ti : Nat} {X : Eid → Prop} {t : Thread} (hG : GX s ti X) (hti : s.thread? ti = some t) (b : String) (e : Eid)
    (ha : (∃ o, s.em? e = some o ∧ (o.stopped = true ∨ e ∈ s.regEm ∨ X e))) :
    GX ((s.spawn b (.emitter e)).1.updEm e (fun o => { o with started := true, tidx := some (s.spawn b (.emitter e)).2 })) ti X := by
  obtain ⟨nm, hnm⟩ := spawn_threads s b (.emitter e)
  obtain ⟨o0, ho0, hal0⟩ := ha
  have hlink : ∀ o : EmObj, o.stopped = true → ({ o with started := true, tidx := some (s.spawn b (.emitter e)).2 } : EmObj).stopped = true := fun o h => h
  have hm1 : EmMono s (s.spawn b (.emitter e)).1 := fun x y h => ⟨y, h, id, id⟩
  have hm := hm1.trans (EmMono.updEm (s.spawn b (.emitter e)).1 e _ hlink (fun o _ => rfl))
  have hthreads : ((s.spawn b (.emitter e)).1.updEm e (fun o => { o with started := true, tidx := some (s.spawn b (.emitter e)).2 })).threads =
      s.threads ++ [{ name := nm, kind := .emitter e, pc := .begin }] := by rw [updEm_threads, hnm]
  have hkp : KP s ((s.spawn b (.emitter e)).1.updEm e (fun o => { o with started := true, tidx := some (s.spawn b (.emitter e)).2 })) :=
    KP.trans (KP.spawn s b _) (KP.of_eq (updEm_threads _ _ _))
  have hreg : ((s.spawn b (.emitter e)).1.updEm e (fun o => { o with started := true, tidx := some (s.spawn b (.emitter e)).2 })).regEm = s.regEm := by
    rw [updEm_regEm]; rfl
  have hthr : ∀ (j : Nat) (x : Thread), s.threads[j]? = some x → ∃ x' : Thread,
      ((s.spawn b (.emitter e)).1.updEm e (fun o => { o with started := true, tidx := some (s.spawn b (.emitter e)).2 })).threads[j]? = some x' ∧ x'.pc = x.pc ∧ x'.kind = x.kind := by
    intro j x hj
    refine ⟨x, ?_, rfl, rfl⟩
    have := (List.getElem?_eq_some_iff.mp hj).1
    rw [hthreads, List.getElem?_append_left this]; exact hj
  have hrel : Rel s ((s.spawn b (.emitter e)).1.updEm e (fun o => { o with started := true, tidx := some (s.spawn b (.emitter e)).2 })) := by
    refine ⟨hm, hkp, ?_, ?_, by rw [updEm_queue]; rfl, by rw [updEm_hist]; exact id, by rw [updEm_stoppedD]; exact id⟩
    · rintro x ⟨y, hy, h⟩
      obtain ⟨y', hy', hs', _⟩ := hm x y hy
      exact ⟨y', hy', h.imp hs' (fun z => by rw [hreg]; exact z)⟩
    · intro h x hx; rw [hreg] at hx; exact (h x hx).mono hm
  have hnewobj : ((s.spawn b (.emitter e)).1.updEm e (fun o => { o with started := true, tidx := some (s.spawn b (.emitter e)).2 })).em? e =
      some { o0 with started := true, tidx := some (s.spawn b (.emitter e)).2 } := by
    rw [em?_updEm]; simp [spawn_em?, ho0]
  constructor
  · exact {
      em := by
        intro e' o ei h1 h2
        rw [em?_updEm] at h1
        by_cases e1 : e' = e
        · subst e1
          simp only [if_true, spawn_em?, ho0, Option.map_some, Option.some.injEq] at h1
          subst h1
          simp only [spawn_snd, Option.some.injEq] at h2
          subst h2
          exact ⟨{ name := nm, kind := .emitter e', pc := .begin }, by rw [hthreads]; simp, rfl⟩
        · simp only [e1, if_false, spawn_em?] at h1
          obtain ⟨x, hx, hxk⟩ := hG.sg.em e' o ei h1 h2
          obtain ⟨x', hx', _, hk'⟩ := hthr ei x hx
          exact ⟨x', hx', hk'.trans hxk⟩
      didx := by
        intro d h
        have h' : s.dIdx = some d := by rw [updEm_dIdx] at h; exact h
        obtain ⟨x, hx, hxk⟩ := hG.sg.didx d h'
        obtain ⟨x', hx', _, hk'⟩ := hthr d x hx
        exact ⟨x', hx', hk'.trans hxk⟩
      reg := by
        intro e' h; rw [hreg] at h
        obtain ⟨o, ho⟩ := hG.sg.reg e' h
        obtain ⟨o', ho', _⟩ := hm e' o ho
        exact ⟨o', ho'⟩
      alive := by
        intro e' o h1 h2
        rw [em?_updEm] at h1
        by_cases e1 : e' = e
        · subst e1
          simp only [if_true, spawn_em?, ho0, Option.map_some, Option.some.injEq] at h1
          subst h1
          rcases hal0 with h | h | h
          · exact Or.inl h
          · exact Or.inr (Or.inl (by rw [hreg]; exact h))
          · exact Or.inr (Or.inr (Or.inr h))
        · simp only [e1, if_false, spawn_em?] at h1
          rcases hG.sg.alive e' o h1 h2 with h | h | h | h
          · exact Or.inl h
          · exact Or.inr (Or.inl (by rw [hreg]; exact h))
          · exact Or.inr (Or.inr (Or.inl (h.of_threads (fun j x hj => by obtain ⟨x', a, b', _⟩ := hthr j x hj; exact ⟨x', a, b'⟩))))
          · exact Or.inr (Or.inr (Or.inr h))
      l1 := by rw [updEm_last, updEm_queue]; exact hG.sg.l1
      l2 := by rw [updEm_queue, updEm_stoppedD]; exact hG.sg.l2
      goodS := by rw [updEm_hist]; exact hG.sg.goodS
      sq0 := by rw [updEm_hist, updEm_queue]; exact fun h => (hG.sg.sq0 h).imp id (fun x => x.mono hkp)
      dset := by
        intro h; rw [updEm_dIdx]
        exact hG.sg.dset (hasD_append_nondisp hthreads (by simp) h) }
  · intro j x hj hjx
    rw [hthreads, List.getElem?_append] at hjx
    split at hjx
    · exact (hG.others j x hj hjx).mono hrel
    · rw [List.getElem?_singleton] at hjx
      split at hjx
      · cases hjx
        refine ⟨?_, ?_, ?_, ?_, ?_, ?_, ?_, ?_, ?_, ?_, ?_, ?_, ?_, ?_, ?_⟩ <;> simp [isDpc, cbPc, epc, djPc]
        exact ⟨_, hnewobj, rfl⟩
      · cases hjx

/-- `Thread.start` of the dispatcher -/
theorem GX.spawnD {s : State} {ti : Nat} {X : Eid → Prop} (hG : GX s ti X) :
    GX ({ (s.spawn "D" .dispatcher).1 with dIdx := some (s.spawn "D" .dispatcher).2 } : State) ti X := by
  obtain ⟨nm, hnm⟩ := spawn_threads s "D" .dispatcher
  have hthreads : ({ (s.spawn "D" .dispatcher).1 with dIdx := some (s.spawn "D" .dispatcher).2 } : State).threads =
      s.threads ++ [{ name := nm, kind := .dispatcher, pc := .begin }] := hnm
  have hkp : KP s ({ (s.spawn "D" .dispatcher).1 with dIdx := some (s.spawn "D" .dispatcher).2 } : State) :=
    KP.trans (KP.spawn s "D" .dispatcher) (KP.of_eq rfl)
  have hthr : ∀ (j : Nat) (x : Thread), s.threads[j]? = some x → ∃ x' : Thread,
      ({ (s.spawn "D" .dispatcher).1 with dIdx := some (s.spawn "D" .dispatcher).2 } : State).threads[j]? = some x' ∧ x'.pc = x.pc ∧ x'.kind = x.kind := by
    intro j x hj
    refine ⟨x, ?_, rfl, rfl⟩
    have := (List.getElem?_eq_some_iff.mp hj).1
    rw [hthreads, List.getElem?_append_left this]; exact hj
  have hrel : Rel s ({ (s.spawn "D" .dispatcher).1 with dIdx := some (s.spawn "D" .dispatcher).2 } : State) :=
    ⟨fun x y h => ⟨y, h, id, id⟩, hkp, fun e h => h, fun h => h, rfl, id, id⟩
  constructor
  · exact {
      em := by
        intro e o ei h1 h2
        obtain ⟨x, hx, hxk⟩ := hG.sg.em e o ei h1 h2
        obtain ⟨x', hx', _, hk'⟩ := hthr ei x hx
        exact ⟨x', hx', hk'.trans hxk⟩
      didx := by
        intro d h
        simp only [spawn_snd, Option.some.injEq] at h
        subst h
        exact ⟨{ name := nm, kind := .dispatcher, pc := .begin }, by rw [hthreads]; simp, rfl⟩
      reg := hG.sg.reg
      alive := by
        intro e o h1 h2
        rcases hG.sg.alive e o h1 h2 with h | h | h | h
        · exact Or.inl h
        · exact Or.inr (Or.inl h)
        · exact Or.inr (Or.inr (Or.inl (h.of_threads (fun j x hj => by obtain ⟨x', a, b', _⟩ := hthr j x hj; exact ⟨x', a, b'⟩))))
        · exact Or.inr (Or.inr (Or.inr h))
      l1 := hG.sg.l1, l2 := hG.sg.l2, goodS := hG.sg.goodS
      sq0 := fun h => (hG.sg.sq0 h).imp id (fun x => x.mono hkp)
      dset := fun _ => ⟨_, rfl⟩ }
  · intro j x hj hjx
    rw [hthreads, List.getElem?_append] at hjx
    split at hjx
    · exact (hG.others j x hj hjx).mono hrel
    · rw [List.getElem?_singleton] at hjx
      split at hjx
      · cases hjx
        rename_i hlen _
        -- the new dispatcher: if the sentinel has been put already, it is still queued or another dispatcher took it
        refine ⟨?_, ?_, ?_, ?_, ?_, ?_, ?_, ?_, ?_, ?_, ?_, ?_, ?_, ?_, ?_⟩ <;> simp [isDpc, cbPc, epc, djPc]
        intro hS
        rcases hG.sg.sq0 hS with h | ⟨i, hi⟩
        · exact Or.inl h
        · right
          have hil : i < s.threads.length := by
            have := (List.getElem?_eq_some_iff.mp hi).1; simpa [kinds] using this
          refine ⟨i, s.threads.length, by omega, kinds_prefix_get hkp hi, ?_⟩
          unfold kinds; rw [hthreads]; simp
      · cases hjx

/-- `unschedule(w)`: the emitter leaves the registry and gets its stop flag (the handler table and the history change too) -/
theorem GX.unregStop {s : State} {ti : Nat} {X : Eid → Prop} (hG : GX s ti X) (e : Eid) (s1 : State)
    (ht : s1.threads = s.threads) (he : s1.emObjs = s.emObjs) (hd : s1.dIdx = s.dIdx) (hr : s1.regEm = s.regEm.filter (· != e))
    (hq : s1.queue = s.queue) (hl : s1.last = s.last) (hst : s1.stoppedD = s.stoppedD) (o : Obs) (hh : s1.hist = s.hist ++ [o])
    (ho : sentObs o = false) (hg : GoodAtS s.hist o) :
    GX (s1.updEm e (fun x => { x with stopped := true })) ti X := by
  have hem1 : ∀ x, s1.em? x = s.em? x := fun x => by simp [State.em?, he]
  have hm : EmMono s (s1.updEm e (fun x => { x with stopped := true })) :=
    (EmMono.of_eq he).trans (EmMono.updEm s1 e _ (fun _ _ => rfl) (fun _ h => h))
  have hS : ∀ h : Sent (s1.updEm e (fun x => { x with stopped := true })).hist, Sent s.hist := by
    intro h; rw [updEm_hist, hh] at h
    rcases (Sent_snoc _ _).mp h with h | h
    · exact h
    · rw [ho] at h; cases h
  have hregmem : ∀ x, x ∈ (s1.updEm e (fun x => { x with stopped := true })).regEm ↔ (x ∈ s.regEm ∧ x ≠ e) := by
    intro x; rw [updEm_regEm, hr]; simp [List.mem_filter]
  have hstop : ∀ y, s.em? e = some y → Stopped (s1.updEm e (fun x => { x with stopped := true })) e := by
    intro y hy
    exact ⟨{ y with stopped := true }, by rw [em?_updEm]; simp [hem1, hy], rfl⟩
  have hthreads : (s1.updEm e (fun x => { x with stopped := true })).threads = s.threads := by rw [updEm_threads, ht]
  have hrel : Rel s (s1.updEm e (fun x => { x with stopped := true })) := by
    refine ⟨hm, KP.of_eq hthreads, ?_, ?_, by rw [updEm_queue, hq], hS, by rw [updEm_stoppedD, hst]; exact id⟩
    · rintro x ⟨y, hy, h⟩
      by_cases hx : x = e
      · subst hx
        obtain ⟨y', hy', hs'⟩ := hstop y hy
        exact ⟨y', hy', Or.inl hs'⟩
      · obtain ⟨y', hy', hs', _⟩ := hm x y hy
        exact ⟨y', hy', h.imp hs' (fun z => (hregmem x).mpr ⟨z, hx⟩)⟩
    · intro h x hx
      exact (h x ((hregmem x).mp hx).1).mono hm
  constructor
  · exact {
      em := by
        intro x y ei h1 h2
        rw [em?_updEm] at h1
        rw [hthreads]
        by_cases e1 : x = e
        · subst e1
          simp only [if_true, hem1] at h1
          cases h0 : s.em? x with
          | none => simp [h0] at h1
          | some y0 =>
            simp only [h0, Option.map_some, Option.some.injEq] at h1
            subst h1
            exact hG.sg.em x y0 ei h0 h2
        · simp only [e1, if_false, hem1] at h1
          exact hG.sg.em x y ei h1 h2
      didx := by
        intro d h; rw [updEm_dIdx, hd] at h; rw [hthreads]; exact hG.sg.didx d h
      reg := by
        intro x hx
        obtain ⟨y, hy⟩ := hG.sg.reg x ((hregmem x).mp hx).1
        obtain ⟨y', hy', _⟩ := hm x y hy
        exact ⟨y', hy'⟩
      alive := by
        intro x y h1 h2
        rw [em?_updEm] at h1
        by_cases e1 : x = e
        · subst e1
          simp only [if_true, hem1] at h1
          cases h0 : s.em? x with
          | none => simp [h0] at h1
          | some y0 =>
            simp only [h0, Option.map_some, Option.some.injEq] at h1
            subst h1
            exact Or.inl rfl
        · simp only [e1, if_false, hem1] at h1
          rcases hG.sg.alive x y h1 h2 with h | h | h | h
          · exact Or.inl h
          · exact Or.inr (Or.inl ((hregmem x).mpr ⟨h, e1⟩))
          · exact Or.inr (Or.inr (Or.inl (h.of_threads (fun j t hj => ⟨t, by rw [hthreads]; exact hj, rfl⟩))))
          · exact Or.inr (Or.inr (Or.inr h))
      l1 := by rw [updEm_last, updEm_queue, hl, hq]; exact hG.sg.l1
      l2 := by rw [updEm_queue, updEm_stoppedD, hq, hst]; exact hG.sg.l2
      goodS := by rw [updEm_hist, hh]; exact hG.sg.goodS.snoc hg
      sq0 := by
        intro h
        rw [updEm_queue, hq]
        exact (hG.sg.sq0 (hS h)).imp id (fun x => x.mono (KP.of_eq hthreads))
      dset := by
        intro h; rw [updEm_dIdx, hd]
        exact hG.sg.dset (by unfold HasD at h ⊢; rw [kinds_eq_of_threads hthreads] at h; exact h) }
  · intro j t hj hjt
    rw [hthreads] at hjt
    exact (hG.others j t hj hjt).mono hrel

/-- the end of `unschedule_all()`: the registry is emptied (every registered emitter has its stop flag) -/
theorem GX.clearReg {s : State} {ti : Nat} {X : Eid → Prop} (hG : GX s ti X) (hall : ∀ e ∈ s.regEm, Stopped s e) :
    GX ({ s with regEm := [], watches := [] } : State) ti X := by
  have hrel : Rel s ({ s with regEm := [], watches := [] } : State) := by
    refine ⟨EmMono.refl _, KP.refl _, ?_, ?_, rfl, id, id⟩
    · rintro x ⟨y, hy, h⟩
      rcases h with h | h
      · exact ⟨y, hy, Or.inl h⟩
      · obtain ⟨y', hy', hs'⟩ := hall x h
        exact ⟨y', hy', Or.inl hs'⟩
    · intro _ x hx; cases hx
  constructor
  · exact {
      em := hG.sg.em, didx := hG.sg.didx
      reg := by intro e h; cases h
      alive := by
        intro e o h1 h2
        rcases hG.sg.alive e o h1 h2 with h | h | h
        · exact Or.inl h
        · obtain ⟨y, hy, hs⟩ := hall e h
          have : s.em? e = some o := h1
          rw [this] at hy; cases hy; exact Or.inl hs
        · exact Or.inr (Or.inr h)
      l1 := hG.sg.l1, l2 := hG.sg.l2, goodS := hG.sg.goodS, sq0 := hG.sg.sq0, dset := hG.sg.dset }
  · intro j t hj hjt
    exact (hG.others j t hj hjt).mono hrel

/-- the end of `schedule()`: the new emitter enters the registry (no other thread is inside `unschedule_all()`:
    the caller holds the lock) -/
theorem GX.addReg {s : State} {ti : Nat} {X : Eid → Prop} (hG : GX s ti X) (e : Eid) (hex : ∃ o, s.em? e = some o) (s1 : State)
    (ht : s1.threads = s.threads) (he : s1.emObjs = s.emObjs) (hd : s1.dIdx = s.dIdx)
    (hr : ∀ x, x ∈ s1.regEm ↔ (x ∈ s.regEm ∨ x = e))
    (hq : s1.queue = s.queue) (hl : s1.last = s.last) (hst : s1.stoppedD = s.stoppedD) (o : Obs) (hh : s1.hist = s.hist ++ [o])
    (ho : sentObs o = false) (hg : GoodAtS s.hist o)
    (hno : ∀ (j : Nat) (t : Thread), j ≠ ti → s.threads[j]? = some t → ∀ es fs, t.pc ≠ .uallJoin es fs) : GX s1 ti X := by
  have hem1 : ∀ x, s1.em? x = s.em? x := fun x => by simp [State.em?, he]
  have hS : ∀ h : Sent s1.hist, Sent s.hist := by
    intro h; rw [hh] at h
    rcases (Sent_snoc _ _).mp h with h | h
    · exact h
    · rw [ho] at h; cases h
  constructor
  · exact {
      em := by intro x y ei h1 h2; rw [hem1] at h1; rw [ht]; exact hG.sg.em x y ei h1 h2
      didx := by intro d h; rw [hd] at h; rw [ht]; exact hG.sg.didx d h
      reg := by
        intro x hx; rw [hem1]
        rcases (hr x).mp hx with h | h
        · exact hG.sg.reg x h
        · subst h; exact hex
      alive := by
        intro x y h1 h2; rw [hem1] at h1
        rcases hG.sg.alive x y h1 h2 with h | h | h | h
        · exact Or.inl h
        · exact Or.inr (Or.inl ((hr x).mpr (Or.inl h)))
        · exact Or.inr (Or.inr (Or.inl (h.of_threads (fun j t hj => ⟨t, by rw [ht]; exact hj, rfl⟩))))
        · exact Or.inr (Or.inr (Or.inr h))
      l1 := by rw [hl, hq]; exact hG.sg.l1
      l2 := by rw [hq, hst]; exact hG.sg.l2
      goodS := by rw [hh]; exact hG.sg.goodS.snoc hg
      sq0 := by intro h; rw [hq]; exact (hG.sg.sq0 (hS h)).imp id (fun x => x.mono (KP.of_eq ht))
      dset := by
        intro h; rw [hd]
        exact hG.sg.dset (by unfold HasD at h ⊢; rw [kinds_eq_of_threads ht] at h; exact h) }
  · intro j t hj hjt
    rw [ht] at hjt
    have hT := hG.others j t hj hjt
    have hem : EmMono s s1 := EmMono.of_eq he
    exact {
      disp := hT.disp
      cb := fun hi => (hT.cb hi).imp id (fun x => ⟨x.1, x.2.mono (KP.of_eq ht)⟩)
      epcE := hT.epcE, epcO := hT.epcO, dj := hT.dj
      joinU := fun w x hp => (hT.joinU w x hp).mono hem
      joinA := fun es fs hp x hx => (hT.joinA es fs hp x hx).mono hem
      sched := fun h0 w x hp => by rw [hem1]; exact hT.sched h0 w x hp
      emObj := fun x hk => by rw [hem1]; exact hT.emObj x hk
      startEs := fun es hp x hx => by
        obtain ⟨y, hy, h⟩ := hT.startEs es hp x hx
        exact ⟨y, by rw [hem1]; exact hy, h.imp id (fun z => (hr x).mpr (Or.inl z))⟩
      regS := fun es fs hp => absurd hp (hno j t hj hjt es fs)
      q1 := fun hp hn => by rw [hq]; exact (hT.q1 hp hn).imp id (fun x => x.mono (KP.of_eq ht))
      sq := fun hk hp h => by rw [hq]; exact (hT.sq hk hp (hS h)).imp id (fun x => x.mono (KP.of_eq ht))
      stopA := fun hp => by rw [hst]; exact hT.stopA hp
      stopJ := fun es hp => by rw [hst]; exact hT.stopJ es hp }

/-- `stop()` raises the observer's stop flag -/
theorem GX.setStopped {s : State} {ti : Nat} {X : Eid → Prop} (hG : GX s ti X) : GX ({ s with stoppedD := true } : State) ti X := by
  refine ⟨hG.sg.step (same_threads rfl) (KP.refl _) (same_em rfl) (EmMono.refl _) rfl rfl rfl rfl (fun _ => rfl) rfl id, ?_⟩
  intro j t hj hjt
  exact (hG.others j t hj hjt).mono (Rel.of_frame rfl rfl rfl rfl rfl (fun _ => rfl))

/- ---------------- the event queue ---------------- -/

theorem updThread_emObjs (s : State) (k : Nat) (f : Thread → Thread) : (s.updThread k f).emObjs = s.emObjs := by
  rw [updThread_eq]; split <;> rfl
theorem updThread_regEm (s : State) (k : Nat) (f : Thread → Thread) : (s.updThread k f).regEm = s.regEm := by
  rw [updThread_eq]; split <;> rfl
theorem updThread_queue' (s : State) (k : Nat) (f : Thread → Thread) : (s.updThread k f).queue = s.queue := by
  rw [updThread_eq]; split <;> rfl

theorem putItem_emObjs (s : State) (mk : Nat → QItem) (onEnq : Nat → Obs) (onDrop : Obs) :
    (s.putItem mk onEnq onDrop).emObjs = s.emObjs := by
  rcases putItem_cases s mk onEnq onDrop with h | h | ⟨k, h⟩
  · rw [h]; rfl
  · rw [h]; rfl
  · rw [h, updThread_emObjs]; rfl

theorem putItem_regEm (s : State) (mk : Nat → QItem) (onEnq : Nat → Obs) (onDrop : Obs) :
    (s.putItem mk onEnq onDrop).regEm = s.regEm := by
  rcases putItem_cases s mk onEnq onDrop with h | h | ⟨k, h⟩
  · rw [h]; rfl
  · rw [h]; rfl
  · rw [h, updThread_regEm]; rfl

theorem putItem_cases' (s : State) (mk : Nat → QItem) (onEnq : Nat → Obs) (onDrop : Obs) :
    (∃ l, s.last = some l ∧ (mk s.nextUid).valEq l = true ∧ s.putItem mk onEnq onDrop = s.log onDrop) ∨
    (s.dIdx = none ∧ s.putItem mk onEnq onDrop = putBase s (mk s.nextUid) (onEnq s.nextUid)) ∨
    ∃ d, s.dIdx = some d ∧ s.putItem mk onEnq onDrop = (putBase s (mk s.nextUid) (onEnq s.nextUid)).updThread d notif := by
  unfold State.putItem
  try simp only []
  split
  · rename_i l hl
    split
    · rename_i hv; exact Or.inl ⟨l, hl, hv, rfl⟩
    · split
      · rename_i d hd; exact Or.inr (Or.inr ⟨d, hd, rfl⟩)
      · rename_i hd; exact Or.inr (Or.inl ⟨hd, rfl⟩)
  · split
    · rename_i d hd; exact Or.inr (Or.inr ⟨d, hd, rfl⟩)
    · rename_i hd; exact Or.inr (Or.inl ⟨hd, rfl⟩)

theorem notif_notified (t : Thread) : (notif t).notified = t.notified ∨ (notif t).notified = true := by
  unfold notif; split
  · exact Or.inr rfl
  · exact Or.inl rfl

theorem updThread_stoppedD (s : State) (k : Nat) (f : Thread → Thread) : (s.updThread k f).stoppedD = s.stoppedD := by
  rw [updThread_eq]; split <;> rfl

theorem putBase_updThread_comm (s : State) (item : QItem) (o : Obs) (d : Nat) (f : Thread → Thread) :
    (putBase s item o).updThread d f = putBase (s.updThread d f) item o := by
  rw [updThread_eq, updThread_eq]
  show (match s.threads[d]? with
    | some t => (putBase s item o).setThread d (f t)
    | none => putBase s item o) = _
  cases s.threads[d]? <;> rfl

theorem valEq_stop {l : QItem} (h : QItem.stop.valEq l = true) : l = .stop := by
  cases l <;> simp [QItem.valEq] at h ⊢

theorem mem_kinds_of_thread {s : State} {j : Nat} {t : Thread} (h : s.threads[j]? = some t) : (kinds s)[j]? = some t.kind := by
  simp [kinds, h]

/-- an item is appended to the queue (no thread is notified yet) -/
theorem GX.enqueue {s : State} {ti : Nat} {X : Eid → Prop} (hG : GX s ti X) (item : QItem) (o : Obs)
    (hgo : ∀ p, GoodAtS p o)
    (hcase : (item ≠ .stop ∧ sentObs o = false) ∨ (item = .stop ∧ s.stoppedD = true))
    (hq1 : ∀ (j : Nat) (t : Thread), j ≠ ti → s.threads[j]? = some t → t.pc = .dWait → t.notified = false → TwoD s) :
    GX (putBase s item o) ti X := by
  have hS : Sent (s.hist ++ [o]) → Sent s.hist ∨ item = .stop := by
    intro h
    rcases (Sent_snoc _ _).mp h with h | h
    · exact Or.inl h
    · rcases hcase with ⟨_, hc⟩ | ⟨hc, _⟩
      · rw [hc] at h; cases h
      · exact Or.inr hc
  constructor
  · exact {
      em := hG.sg.em, didx := hG.sg.didx, reg := hG.sg.reg, alive := hG.sg.alive
      l1 := by
        intro h
        have h' : some item = some QItem.stop := h
        cases h'
        show QItem.stop ∈ s.queue ++ [QItem.stop]
        simp
      l2 := by
        intro h
        have h' : QItem.stop ∈ s.queue ++ [item] := h
        rcases List.mem_append.mp h' with h1 | h1
        · exact hG.sg.l2 h1
        · simp at h1
          rcases hcase with ⟨hc, _⟩ | ⟨_, hc⟩
          · exact absurd h1.symm hc
          · exact hc
      goodS := hG.sg.goodS.snoc (hgo _)
      sq0 := by
        intro h
        show QItem.stop ∈ s.queue ++ [item] ∨ HasD _
        rcases hS h with h1 | h1
        · exact (hG.sg.sq0 h1).imp (fun x => List.mem_append_left _ x) id
        · subst h1; left; simp
      dset := hG.sg.dset }
  · intro j t hj hjt
    have hT := hG.others j t hj hjt
    exact {
      disp := hT.disp, cb := hT.cb, epcE := hT.epcE, epcO := hT.epcO, dj := hT.dj, joinU := hT.joinU, joinA := hT.joinA
      sched := hT.sched, emObj := hT.emObj, startEs := hT.startEs, regS := hT.regS
      q1 := fun hp hn => Or.inr (hq1 j t hj hjt hp hn)
      sq := by
        intro hk hp h
        show QItem.stop ∈ s.queue ++ [item] ∨ TwoD _
        rcases hS h with h1 | h1
        · exact (hT.sq hk hp h1).imp (fun x => List.mem_append_left _ x) id
        · subst h1; left; simp
      stopA := hT.stopA
      stopJ := hT.stopJ }

/-- `SkipRepeatsQueue.put`: an event, or the stop sentinel (then the observer's stop flag is up already) -/
theorem GX.putItem {s : State} {ti : Nat} {X : Eid → Prop} (hG : GX s ti X) (mk : Nat → QItem) (onEnq : Nat → Obs) (onDrop : Obs)
    (hgo : ∀ p u, GoodAtS p (onEnq u) ∧ GoodAtS p onDrop)
    (hcase : (∀ u, mk u ≠ .stop ∧ sentObs (onEnq u) = false ∧ sentObs onDrop = false) ∨
             ((∀ u, mk u = .stop) ∧ s.stoppedD = true)) :
    GX (s.putItem mk onEnq onDrop) ti X := by
  rcases putItem_cases' s mk onEnq onDrop with ⟨l, hl, hv, h⟩ | ⟨hd, h⟩ | ⟨d, hd, h⟩
  · -- dropped as a repetition of the last item
    rw [h]
    rcases hcase with hc | ⟨hc, hst⟩
    · exact hG.log _ (hc 0).2.2 (hgo _ 0).2
    · -- the sentinel repeats the sentinel that is still queued
      have hlast : s.last = some .stop := by
        rw [hc] at hv; rw [hl, valEq_stop hv]
      have hin := hG.sg.l1 hlast
      constructor
      · exact { em := hG.sg.em, didx := hG.sg.didx, reg := hG.sg.reg, alive := hG.sg.alive, l1 := hG.sg.l1, l2 := hG.sg.l2,
                goodS := hG.sg.goodS.snoc (hgo _ 0).2, sq0 := fun _ => Or.inl hin, dset := hG.sg.dset }
      · intro j t hj hjt
        have hT := hG.others j t hj hjt
        exact { disp := hT.disp, cb := hT.cb, epcE := hT.epcE, epcO := hT.epcO, dj := hT.dj, joinU := hT.joinU,
                joinA := hT.joinA, sched := hT.sched, emObj := hT.emObj, startEs := hT.startEs, regS := hT.regS, q1 := hT.q1,
                sq := fun _ _ _ => Or.inl hin, stopA := hT.stopA, stopJ := hT.stopJ }
  · -- queued, no dispatcher to notify: then no dispatcher thread exists at all
    rw [h]
    apply hG.enqueue _ _ (fun p => (hgo p _).1)
    · rcases hcase with hc | ⟨hc, hst⟩
      · exact Or.inl ⟨(hc _).1, (hc _).2.1⟩
      · exact Or.inr ⟨hc _, hst⟩
    · intro j t hj hjt hp _
      have hk := (hG.others j t hj hjt).disp (Or.inr (by rw [hp]; rfl))
      obtain ⟨d, hd'⟩ := hG.sg.dset ⟨j, by rw [mem_kinds_of_thread hjt, hk]⟩
      rw [hd] at hd'; cases hd'
  · -- queued, the dispatcher is notified
    rw [h, putBase_updThread_comm]
    have hU : GX (s.updThread d notif) ti X :=
      hG.updThread_same d notif (fun t => ⟨(notif_same t).1, (notif_same t).2.1, notif_kind t, notif_notified t⟩)
    apply hU.enqueue _ _ (fun p => (hgo p _).1)
    · rcases hcase with hc | ⟨hc, hst⟩
      · exact Or.inl ⟨(hc _).1, (hc _).2.1⟩
      · exact Or.inr ⟨hc _, by rw [updThread_stoppedD]; exact hst⟩
    · intro j t hj hjt hp hn
      have hkp : KP s (s.updThread d notif) := KP.updThread s d notif notif_kind
      apply TwoD.mono hkp
      have hk := (hU.others j t hj hjt).disp (Or.inr (by rw [hp]; rfl))
      obtain ⟨td, htd, hkd⟩ := hG.sg.didx d hd
      have hjd : j ≠ d := by
        intro e1; subst e1
        rw [updThread_eq, htd] at hjt
        simp only [setThread_threads] at hjt
        have hlt := (List.getElem?_eq_some_iff.mp htd).1
        simp [hlt] at hjt
        subst hjt
        have h1 : (notif td).pc = td.pc := (notif_same td).1
        rw [h1] at hp
        simp [notif, hp] at hn
      refine ⟨j, d, hjd, ?_, by rw [mem_kinds_of_thread htd, hkd]⟩
      have hjt0 : ∃ t0, s.threads[j]? = some t0 ∧ t0.kind = t.kind := by
        rw [updThread_eq, htd] at hjt
        simp only [setThread_threads, getElem?_set_ne' _ _ _ _ hjd] at hjt
        exact ⟨t, hjt, rfl⟩
      obtain ⟨t0, h0, hk0⟩ := hjt0
      rw [mem_kinds_of_thread h0, hk0, hk]

/-- the dispatcher `ti` takes the head of the queue -/
theorem GX.pop {s : State} {ti : Nat} {X : Eid → Prop} {t : Thread} (hG : GX s ti X) (ht : s.thread? ti = some t)
    (hk : t.kind = .dispatcher) (item : QItem) (rest : List QItem) (hq : s.queue = item :: rest) :
    GX ({ s with queue := rest, last := (match s.last with
          | some l => if item.same l then none else some l
          | none => none) } : State) ti X := by
  have ht' : s.threads[ti]? = some t := ht
  have hme : (kinds s)[ti]? = some Kind.dispatcher := by rw [mem_kinds_of_thread ht', hk]
  have hsub : ∀ x, x ∈ rest → x ∈ s.queue := fun x hx => by rw [hq]; exact List.mem_cons_of_mem _ hx
  constructor
  · exact {
      em := hG.sg.em, didx := hG.sg.didx, reg := hG.sg.reg, alive := hG.sg.alive
      l1 := by
        intro h
        show QItem.stop ∈ rest
        have h' : (match s.last with
          | some l => if item.same l then none else some l
          | none => none) = some QItem.stop := h
        cases hl : s.last with
        | none => rw [hl] at h'; cases h'
        | some l =>
          rw [hl] at h'
          simp only at h'
          split at h'
          · cases h'
          · rename_i hns
            cases h'
            have := hG.sg.l1 hl
            rw [hq] at this
            rcases List.mem_cons.mp this with h1 | h1
            · rw [← h1] at hns; simp [QItem.same] at hns
            · exact h1
      l2 := fun h => hG.sg.l2 (hsub _ h)
      goodS := hG.sg.goodS
      sq0 := fun _ => Or.inr ⟨ti, hme⟩
      dset := hG.sg.dset }
  · intro j x hj hjx
    have hjx' : s.threads[j]? = some x := hjx
    have hT := hG.others j x hj hjx'
    have two : x.kind = .dispatcher → TwoD s := fun hkx => ⟨j, ti, hj, by rw [mem_kinds_of_thread hjx', hkx], hme⟩
    exact {
      disp := hT.disp, cb := hT.cb, epcE := hT.epcE, epcO := hT.epcO, dj := hT.dj, joinU := hT.joinU, joinA := hT.joinA
      sched := hT.sched, emObj := hT.emObj, startEs := hT.startEs, regS := hT.regS
      q1 := fun hp _ => Or.inr (two (hT.disp (Or.inr (by rw [hp]; rfl))))
      sq := fun hkx _ _ => Or.inr (two hkx)
      stopA := hT.stopA
      stopJ := hT.stopJ }

/- ---------------- the end of a step ---------------- -/

/-- the step of `ti` ends: its record gets its final shape.  If its old record was the one that kept emitter `e`
    "pending" (between start and registration), `e` is registered or stopped by now, or is still pending -/
theorem GX.close {s : State} {ti : Nat} {X : Eid → Prop} {t : Thread} (hG : GX s ti X) (ht : s.thread? ti = some t) (t' : Thread)
    (hk : t'.kind = t.kind) (hT : TG s t')
    (hpe : ∀ h w e, t.pc = .schedStarted h w e → AliveOk s e ∨ t'.pc = .schedStarted h w e)
    (hX : ∀ e, X e → ∃ h w, t'.pc = .schedStarted h w e) : GQ (s.setThread ti t') := by
  have ht' : s.threads[ti]? = some t := ht
  have hlt := (List.getElem?_eq_some_iff.mp ht').1
  have hkp := KP.setThread ht' t' hk
  have hkin : kinds (s.setThread ti t') = kinds s := kinds_setThread ht' t' hk
  have hrel : Rel s (s.setThread ti t') := ⟨EmMono.refl _, hkp, fun e h => h, fun h => h, rfl, id, id⟩
  have hget : ∀ (j : Nat) (x : Thread), s.threads[j]? = some x → j ≠ ti → (s.setThread ti t').threads[j]? = some x := by
    intro j x hj hne
    simp only [setThread_threads, getElem?_set_ne' _ _ _ _ hne]; exact hj
  have hmine : (s.setThread ti t').threads[ti]? = some t' := by simp [hlt]
  constructor
  · exact {
      em := by
        intro e o ei h1 h2
        obtain ⟨x, hx, hxk⟩ := hG.sg.em e o ei h1 h2
        by_cases e1 : ei = ti
        · subst e1; rw [ht'] at hx; cases hx; exact ⟨t', hmine, hk.trans hxk⟩
        · exact ⟨x, hget ei x hx e1, hxk⟩
      didx := by
        intro d h
        obtain ⟨x, hx, hxk⟩ := hG.sg.didx d h
        by_cases e1 : d = ti
        · subst e1; rw [ht'] at hx; cases hx; exact ⟨t', hmine, hk.trans hxk⟩
        · exact ⟨x, hget d x hx e1, hxk⟩
      reg := hG.sg.reg
      alive := by
        intro e o h1 h2
        rcases hG.sg.alive e o h1 h2 with h | h | ⟨j, x, h0, w, hj, hp⟩ | h
        · exact Or.inl h
        · exact Or.inr (Or.inl h)
        · by_cases e1 : j = ti
          · subst e1; rw [ht'] at hj; cases hj
            rcases hpe h0 w e hp with ⟨y, hy, hal⟩ | hnew
            · have : s.em? e = some o := h1
              rw [this] at hy; cases hy
              exact hal.imp id Or.inl
            · exact Or.inr (Or.inr (Or.inl ⟨j, t', h0, w, hmine, hnew⟩))
          · exact Or.inr (Or.inr (Or.inl ⟨j, x, h0, w, hget j x hj e1, hp⟩))
        · obtain ⟨h0, w, hnew⟩ := hX e h
          exact Or.inr (Or.inr (Or.inl ⟨ti, t', h0, w, hmine, hnew⟩))
      l1 := hG.sg.l1, l2 := hG.sg.l2, goodS := hG.sg.goodS
      sq0 := fun h => (hG.sg.sq0 h).imp id (fun x => x.mono hkp)
      dset := by intro h; exact hG.sg.dset (by unfold HasD at h ⊢; rw [hkin] at h; exact h) }
  · intro j tj hj
    by_cases e : j = ti
    · subst e
      rw [hmine] at hj; cases hj
      exact hT.mono hrel
    · simp only [setThread_threads, getElem?_set_ne' _ _ _ _ e] at hj
      exact (hG.others j tj e hj).mono hrel

theorem GX.closeUpd {s : State} {ti : Nat} {X : Eid → Prop} {t : Thread} (hG : GX s ti X) (ht : s.thread? ti = some t)
    (f : Thread → Thread) (hk : (f t).kind = t.kind) (hT : TG s (f t))
    (hpe : ∀ h w e, t.pc = .schedStarted h w e → AliveOk s e ∨ (f t).pc = .schedStarted h w e)
    (hX : ∀ e, X e → ∃ h w, (f t).pc = .schedStarted h w e) : GQ (s.updThread ti f) := by
  have ht' : s.threads[ti]? = some t := ht
  rw [updThread_eq, ht']
  exact hG.close ht _ hk hT hpe hX

/-- the step ends without another change of `ti`'s record -/
theorem GX.closeSame {s : State} {ti : Nat} {t : Thread} (hG : GX s ti (fun _ => False)) (ht : s.thread? ti = some t) (hT : TG s t) :
    GQ s := by
  refine ⟨hG.sg, ?_⟩
  intro j tj hj
  by_cases e : j = ti
  · subst e
    have ht' : s.threads[j]? = some t := ht
    rw [ht'] at hj; cases hj; exact hT
  · exact hG.others j tj e hj

theorem GQ.open {s : State} (hQ : GQ s) (ti : Nat) : GX s ti (fun _ => False) :=
  ⟨hQ.sg, fun j t _ hj => hQ.thr j t hj⟩

/-- the exempt emitter: weaken -/
theorem GX.exempt {s : State} {ti : Nat} (hG : GX s ti (fun _ => False)) (X : Eid → Prop) : GX s ti X :=
  ⟨{ em := hG.sg.em, didx := hG.sg.didx, reg := hG.sg.reg,
     alive := fun e o h1 h2 => (hG.sg.alive e o h1 h2).imp id (fun x => x.imp id (fun y => y.imp id (fun z => z.elim))),
     l1 := hG.sg.l1, l2 := hG.sg.l2, goodS := hG.sg.goodS, sq0 := hG.sg.sq0, dset := hG.sg.dset }, hG.others⟩

/-- after `stop()` has put the sentinel it is in the queue -/
theorem putStop_mem {s : State} (hl1 : s.last = some .stop → QItem.stop ∈ s.queue) :
    QItem.stop ∈ (s.putItem (fun _ => QItem.stop) (fun _ => Obs.enqStop) Obs.dropStop).queue := by
  rcases putItem_cases' s (fun _ => QItem.stop) (fun _ => Obs.enqStop) Obs.dropStop with ⟨l, hl, hv, h⟩ | ⟨_, h⟩ | ⟨d, _, h⟩
  · rw [h]
    have : l = .stop := valEq_stop hv
    subst this
    exact hl1 hl
  · rw [h]; show QItem.stop ∈ s.queue ++ [QItem.stop]; simp
  · rw [h, updThread_queue']; show QItem.stop ∈ s.queue ++ [QItem.stop]; simp

end WD.ProofsObs
