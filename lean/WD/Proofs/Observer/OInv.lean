/- with a single dispatcher thread, every handler receives the entries in queue order, none twice -/
import WD.Proofs.Observer.CStep
set_option linter.unusedSimpArgs false
set_option linter.unusedVariables false
namespace WD.ProofsObs
open WD WD.Obs

/-! ### at most one dispatcher thread -/

def kinds (s : State) : List Kind := s.threads.map (·.kind)

/-- at most one thread of kind `dispatcher` (i.e. `observer.start()` took effect at most once) -/
def oneD (s : State) : Prop :=
  ∀ i j : Nat, (kinds s)[i]? = some Kind.dispatcher → (kinds s)[j]? = some Kind.dispatcher → i = j

def KP (s s' : State) : Prop := kinds s <+: kinds s'

theorem KP.refl (s : State) : KP s s := List.prefix_refl _
theorem KP.of_eq {s s' : State} (h : s'.threads = s.threads) : KP s s' := by
  unfold KP kinds; rw [h]; exact List.prefix_refl _
theorem KP.trans {a b c : State} (h1 : KP a b) (h2 : KP b c) : KP a c := List.IsPrefix.trans h1 h2

theorem oneD_of_KP {s s' : State} (h : KP s s') (hd : oneD s') : oneD s := by
  obtain ⟨r, hr⟩ := h
  intro i j hi hj
  apply hd i j
  · rw [← hr]
    have := (List.getElem?_eq_some_iff.mp hi).1
    rw [List.getElem?_append_left this]; exact hi
  · rw [← hr]
    have := (List.getElem?_eq_some_iff.mp hj).1
    rw [List.getElem?_append_left this]; exact hj

theorem kinds_setThread {s : State} {ti : Nat} {t : Thread} (ht : s.threads[ti]? = some t) (t' : Thread)
    (hk : t'.kind = t.kind) : kinds (s.setThread ti t') = kinds s := by
  unfold kinds
  simp only [setThread_threads]
  apply List.ext_getElem?
  intro i
  simp only [List.getElem?_map, List.getElem?_set]
  split
  · rename_i e; subst e
    obtain ⟨hlt, hget⟩ := List.getElem?_eq_some_iff.mp ht
    simp [hlt, hk, hget]
  · rfl

theorem KP.setThread {s : State} {ti : Nat} {t : Thread} (ht : s.threads[ti]? = some t) (t' : Thread)
    (hk : t'.kind = t.kind) : KP s (s.setThread ti t') := by
  unfold KP; rw [kinds_setThread ht t' hk]; exact List.prefix_refl _

theorem KP.updThread (s : State) (k : Nat) (f : Thread → Thread) (hf : ∀ t, (f t).kind = t.kind) :
    KP s (s.updThread k f) := by
  rw [updThread_eq]
  split
  · rename_i t ht; exact KP.setThread ht _ (hf t)
  · exact KP.refl s

theorem KP.spawn (s : State) (b : String) (k : Kind) : KP s (s.spawn b k).1 := by
  obtain ⟨nm, hnm⟩ := spawn_threads s b k
  unfold KP kinds; rw [hnm, List.map_append]; exact List.prefix_append _ _

theorem KP.putItem (s : State) (mk : Nat → QItem) (onEnq : Nat → Obs) (onDrop : Obs) :
    KP s (s.putItem mk onEnq onDrop) := by
  rcases putItem_cases s mk onEnq onDrop with e | e | ⟨d, e⟩
  · rw [e]; exact KP.of_eq rfl
  · rw [e]; exact KP.of_eq rfl
  · rw [e]; exact KP.trans (KP.of_eq (s' := putBase s (mk s.nextUid) (onEnq s.nextUid)) rfl) (KP.updThread _ d notif notif_kind)

/-- two dispatching threads are the same thread -/
theorem oneD_same {s : State} (hd : oneD s) {i j : Nat} {a b : Thread} (ha : s.threads[i]? = some a)
    (hb : s.threads[j]? = some b) (ka : a.kind = .dispatcher) (kb : b.kind = .dispatcher) : i = j := by
  apply hd i j
  · simp [kinds, List.getElem?_map, ha, ka]
  · simp [kinds, List.getElem?_map, hb, kb]

/-! ### the invariant -/

def notCall (o : Obs) : Bool := match o with | .call .. => false | _ => true

theorem mem_snoc_call {hist : List Obs} {o : Obs} (ho : notCall o = true) {h : Hid} {w : Wid} {v u : Nat}
    (hm : Obs.call h w v u ∈ hist ++ [o]) : Obs.call h w v u ∈ hist := by
  simp only [List.mem_append, List.mem_singleton] at hm
  rcases hm with hm | hm
  · exact hm
  · subst hm; simp [notCall] at ho

theorem callUids_snoc {hist : List Obs} {o : Obs} (ho : notCall o = true) (h : Hid) :
    callUids h (hist ++ [o]) = callUids h hist := by
  rw [callUids_append]
  cases o <;> simp_all [callUids, notCall]

def dpc : Pc → Bool
  | .dWait => true
  | .dLock .. => true
  | _ => false

def KD (t : Thread) : Prop := (t.iter.isSome = true ∨ dpc t.pc = true) → t.kind = .dispatcher

def CallsLe (hist : List Obs) (u : Nat) : Prop := ∀ h w v u', Obs.call h w v u' ∈ hist → u' ≤ u
def CallsLt (hist : List Obs) (u : Nat) : Prop := ∀ h w v u', Obs.call h w v u' ∈ hist → u' < u

def OI (s : State) (t : Thread) : Prop :=
  ∀ u w v rest, t.iter = some (u, w, v, rest) →
    rest.Pairwise (· < ·) ∧ (∀ h ∈ rest, ∀ u' ∈ callUids h s.hist, u' < u) ∧ CallsLe s.hist u ∧
      (∀ u' ∈ quids s.queue, u < u') ∧ u < s.nextUid

def OP (s : State) (t : Thread) : Prop :=
  ∀ u w v, t.pc = .dLock u w v → CallsLt s.hist u ∧ (∀ u' ∈ quids s.queue, u < u') ∧ u < s.nextUid

def GoodAtO (p : List Obs) : Obs → Prop
  | .call h _ _ u => ∀ u' ∈ callUids h p, u' < u
  | _ => True

structure OX (s : State) (x : Option Nat) : Prop where
  good : Good GoodAtO s.hist
  kd : ∀ (j : Nat) (t : Thread), s.threads[j]? = some t → KD t
  oi : ∀ (j : Nat) (t : Thread), s.threads[j]? = some t → OI s t
  op : ∀ (j : Nat) (t : Thread), some j ≠ x → s.threads[j]? = some t → OP s t
  g : ∀ h w v u, Obs.call h w v u ∈ s.hist → (∀ u' ∈ quids s.queue, u < u') ∧ u < s.nextUid
  hsorted : ∀ w, (s.handlersOf w).Pairwise (· < ·)
  qs : (quids s.queue).Pairwise (· < ·)
  qn : ∀ u ∈ quids s.queue, u < s.nextUid

/-- the invariant, under the assumption that there is at most one dispatcher thread -/
def OC (s : State) (x : Option Nat) : Prop := oneD s → OX s x

theorem OC.map {s s' : State} {x x' : Option Nat} (hC : OC s x) (hk : KP s s')
    (f : oneD s → OX s x → OX s' x') : OC s' x' :=
  fun hd => f (oneD_of_KP hk hd) (hC (oneD_of_KP hk hd))

theorem OX.frame {s s' : State} {x : Option Nat} (hO : OX s x) (hh : s'.hist = s.hist) (ht : s'.threads = s.threads)
    (hq : s'.queue = s.queue) (hn : s'.nextUid = s.nextUid) (hH : ∀ w, s'.handlersOf w = s.handlersOf w) :
    OX s' x := by
  constructor
  · rw [hh]; exact hO.good
  · rw [ht]; exact hO.kd
  · intro j t hj; rw [ht] at hj
    have := hO.oi j t hj
    unfold OI; rw [hh, hq, hn]; exact this
  · intro j t hj hjt; rw [ht] at hjt
    have := hO.op j t hj hjt
    unfold OP; rw [hh, hq, hn]; exact this
  · rw [hh, hq, hn]; exact hO.g
  · intro w; rw [hH]; exact hO.hsorted w
  · rw [hq]; exact hO.qs
  · rw [hq, hn]; exact hO.qn

theorem OX.hist_step {s s' : State} {x : Option Nat} {o : Obs} (hO : OX s x) (hh : s'.hist = s.hist ++ [o])
    (ht : s'.threads = s.threads) (hq : s'.queue = s.queue) (hn : s'.nextUid = s.nextUid)
    (hH : ∀ w, (s'.handlersOf w).Pairwise (· < ·)) (ho : notCall o = true) : OX s' x := by
  have hg : GoodAtO s.hist o := by cases o <;> simp_all [GoodAtO, notCall]
  constructor
  · rw [hh]; exact hO.good.snoc hg
  · rw [ht]; exact hO.kd
  · intro j t hj; rw [ht] at hj
    intro u w v rest e
    obtain ⟨a1, a2, a3, a4, a5⟩ := hO.oi j t hj u w v rest e
    rw [hh, hq, hn]
    refine ⟨a1, ?_, ?_, a4, a5⟩
    · intro h hm u' hu'; rw [callUids_snoc ho] at hu'; exact a2 h hm u' hu'
    · intro h w' v' u' hm; exact a3 h w' v' u' (mem_snoc_call ho hm)
  · intro j t hj hjt; rw [ht] at hjt
    intro u w v e
    obtain ⟨a1, a2, a3⟩ := hO.op j t hj hjt u w v e
    rw [hh, hq, hn]
    exact ⟨fun h w' v' u' hm => a1 h w' v' u' (mem_snoc_call ho hm), a2, a3⟩
  · rw [hh, hq, hn]; intro h w v u hm; exact hO.g h w v u (mem_snoc_call ho hm)
  · exact hH
  · rw [hq]; exact hO.qs
  · rw [hq, hn]; exact hO.qn

theorem OX.log {s : State} {x : Option Nat} (hO : OX s x) (o : Obs) (ho : notCall o = true) : OX (s.log o) x :=
  hO.hist_step rfl rfl rfl rfl hO.hsorted ho

theorem OX.weaken {s : State} (hO : OX s none) (ti : Nat) : OX s (some ti) := by
  constructor
  · exact hO.good
  · exact hO.kd
  · exact hO.oi
  · intro j t _ hjt; exact hO.op j t (by simp) hjt
  · exact hO.g
  · exact hO.hsorted
  · exact hO.qs
  · exact hO.qn

theorem OX.setThreadMine {s : State} {ti : Nat} (hO : OX s (some ti)) (t' : Thread) (hk : KD t') (hi : OI s t') :
    OX (s.setThread ti t') (some ti) := by
  constructor
  · exact hO.good
  · intro j t hj
    simp only [setThread_threads, List.getElem?_set] at hj
    split at hj
    · split at hj
      · cases hj; exact hk
      · cases hj
    · exact hO.kd j t hj
  · intro j t hj
    simp only [setThread_threads, List.getElem?_set] at hj
    split at hj
    · split at hj
      · cases hj; exact hi
      · cases hj
    · exact hO.oi j t hj
  · intro j t hj hjt
    have hne : j ≠ ti := fun e => hj (by rw [e])
    simp only [setThread_threads, getElem?_set_ne' _ _ _ _ hne] at hjt
    exact hO.op j t hj hjt
  · exact hO.g
  · exact hO.hsorted
  · exact hO.qs
  · exact hO.qn

theorem OX.updThread_same {s : State} {x : Option Nat} (hO : OX s x) (k : Nat) (f : Thread → Thread)
    (hf : ∀ t, (f t).pc = t.pc ∧ (f t).iter = t.iter ∧ (f t).kind = t.kind) : OX (s.updThread k f) x := by
  rw [updThread_eq]
  split
  · rename_i tk htk
    have key : ∀ (j : Nat) (t : Thread), (s.threads.set k (f tk))[j]? = some t →
        ∃ t0, s.threads[j]? = some t0 ∧ t.pc = t0.pc ∧ t.iter = t0.iter ∧ t.kind = t0.kind := by
      intro j t hj
      rw [List.getElem?_set] at hj
      split at hj
      · split at hj
        · cases hj
          rename_i e _; subst e
          exact ⟨tk, htk, (hf tk).1, (hf tk).2.1, (hf tk).2.2⟩
        · cases hj
      · exact ⟨t, hj, rfl, rfl, rfl⟩
    constructor
    · exact hO.good
    · intro j t hj
      obtain ⟨t0, h0, e1, e2, e3⟩ := key j t hj
      have := hO.kd j t0 h0
      unfold KD at this ⊢; rw [e1, e2, e3]; exact this
    · intro j t hj
      obtain ⟨t0, h0, e1, e2, e3⟩ := key j t hj
      have := hO.oi j t0 h0
      unfold OI at this ⊢; rw [e2]; exact this
    · intro j t hj hjt
      obtain ⟨t0, h0, e1, e2, e3⟩ := key j t hjt
      have := hO.op j t0 hj h0
      unfold OP at this ⊢; rw [e1]; exact this
    · exact hO.g
    · exact hO.hsorted
    · exact hO.qs
    · exact hO.qn
  · exact hO

theorem OX.spawn {s : State} {x : Option Nat} (hO : OX s x) (b : String) (k : Kind) : OX (s.spawn b k).1 x := by
  obtain ⟨nm, hnm⟩ := spawn_threads s b k
  have key : ∀ (j : Nat) (t : Thread), (s.spawn b k).1.threads[j]? = some t →
      s.threads[j]? = some t ∨ (t.pc = .begin ∧ t.iter = none) := by
    intro j t hj
    rw [hnm, List.getElem?_append] at hj
    split at hj
    · exact Or.inl hj
    · rw [List.getElem?_singleton] at hj
      split at hj
      · cases hj; exact Or.inr ⟨rfl, rfl⟩
      · cases hj
  constructor
  · exact hO.good
  · intro j t hj
    rcases key j t hj with h | ⟨h1, h2⟩
    · exact hO.kd j t h
    · intro hh; rw [h1, h2] at hh; simp [dpc] at hh
  · intro j t hj
    rcases key j t hj with h | ⟨h1, h2⟩
    · exact hO.oi j t h
    · intro u w v rest e; rw [h2] at e; cases e
  · intro j t hj hjt
    rcases key j t hjt with h | ⟨h1, h2⟩
    · exact hO.op j t hj h
    · intro u w v e; rw [h1] at e; cases e
  · exact hO.g
  · exact hO.hsorted
  · exact hO.qs
  · exact hO.qn

/-! ### sortedness of the handler lists -/

theorem pairwise_insertSorted {x : Nat} {l : List Nat} (h : l.Pairwise (· < ·)) :
    (insertSorted x l).Pairwise (· < ·) := by
  induction l with
  | nil => simp [insertSorted]
  | cons y ys ih =>
    simp only [insertSorted]
    have hy := List.pairwise_cons.mp h
    split
    · rename_i hxy
      refine List.pairwise_cons.mpr ⟨?_, h⟩
      intro a ha
      rcases List.mem_cons.mp ha with e | e
      · rw [e]; exact hxy
      · exact Nat.lt_trans hxy (hy.1 a e)
    · split
      · exact h
      · rename_i h1 h2
        refine List.pairwise_cons.mpr ⟨?_, ih hy.2⟩
        intro a ha
        rcases mem_insertSorted.mp ha with e | e
        · rw [e]; omega
        · exact hy.1 a e

def HSorted (hs : List (Wid × List Hid)) : Prop := ∀ w, (hOf hs w).Pairwise (· < ·)

theorem HSorted.reg {hs : List (Wid × List Hid)} (h : HSorted hs) (x : Hid) (w : Wid) :
    HSorted (ainsert w (insertSorted x (hOf hs w)) hs) := by
  intro w'; rw [hOf_ainsert]; split
  · exact pairwise_insertSorted (h w)
  · exact h w'

theorem HSorted.unreg {hs : List (Wid × List Hid)} (h : HSorted hs) (x : Hid) (w : Wid) :
    HSorted (ainsert w ((hOf hs w).filter (· != x)) hs) := by
  intro w'; rw [hOf_ainsert]; split
  · exact (h w).filter _
  · exact h w'

theorem HSorted.unregW {hs : List (Wid × List Hid)} (h : HSorted hs) (w : Wid) : HSorted (aerase w hs) := by
  intro w'; rw [hOf_aerase]; split
  · exact List.Pairwise.nil
  · exact h w'

theorem HSorted.nil : HSorted [] := fun _ => List.Pairwise.nil

/-! ### queue operations -/

theorem OX.release {s : State} {x : Option Nat} (hO : OX s x) : OX s.release x :=
  hO.frame (by simp) (by simp) (by simp) (by simp) (by simp)

theorem OX.updEm {s : State} {x : Option Nat} (hO : OX s x) (e : Eid) (f : EmObj → EmObj) : OX (s.updEm e f) x :=
  hO.frame (by simp) (by simp) (by simp) (by simp) (by simp)

theorem OX.foldUpdEm {s : State} {x : Option Nat} (hO : OX s x) (l : List Eid) (f : EmObj → EmObj) :
    OX (l.foldl (fun acc e => acc.updEm e f) s) x := by
  induction l generalizing s with
  | nil => exact hO
  | cons e l ih => exact ih (hO.updEm e f)

theorem OX.putItem {s : State} {x : Option Nat} (hO : OX s x) (mk : Nat → QItem) (onEnq : Nat → Obs) (onDrop : Obs)
    (h1 : notCall onDrop = true) (h2 : notCall (onEnq s.nextUid) = true)
    (hmk : mk s.nextUid = .stop ∨ ∃ w v, mk s.nextUid = .ev s.nextUid w v) :
    OX (s.putItem mk onEnq onDrop) x := by
  have hq : quids [mk s.nextUid] = [] ∨ quids [mk s.nextUid] = [s.nextUid] := by
    rcases hmk with e | ⟨w, v, e⟩
    · rw [e]; exact Or.inl rfl
    · rw [e]; exact Or.inr rfl
  have hmem : ∀ u, u ∈ quids [mk s.nextUid] → u = s.nextUid := by
    intro u hu
    rcases hq with e | e <;> rw [e] at hu <;> simp at hu
    exact hu
  have hg : GoodAtO s.hist (onEnq s.nextUid) := by
    cases ho : onEnq s.nextUid <;> simp_all [GoodAtO, notCall]
  have hb : OX (putBase s (mk s.nextUid) (onEnq s.nextUid)) x := by
    unfold putBase
    constructor
    · exact hO.good.snoc hg
    · exact hO.kd
    · intro j t hj u w v rest e
      obtain ⟨a1, a2, a3, a4, a5⟩ := hO.oi j t hj u w v rest e
      refine ⟨a1, ?_, ?_, ?_, Nat.lt_succ_of_lt a5⟩
      · intro h hm u' hu'; simp only [log_hist, callUids_snoc h2] at hu'; exact a2 h hm u' hu'
      · intro h w' v' u' hm; exact a3 h w' v' u' (mem_snoc_call h2 hm)
      · intro u' hu'
        simp only [log_queue, quids_append, List.mem_append] at hu'
        rcases hu' with hu' | hu'
        · exact a4 u' hu'
        · rw [hmem u' hu']; exact a5
    · intro j t hj hjt u w v e
      obtain ⟨a1, a2, a3⟩ := hO.op j t hj hjt u w v e
      refine ⟨fun h w' v' u' hm => a1 h w' v' u' (mem_snoc_call h2 hm), ?_, Nat.lt_succ_of_lt a3⟩
      intro u' hu'
      simp only [log_queue, quids_append, List.mem_append] at hu'
      rcases hu' with hu' | hu'
      · exact a2 u' hu'
      · rw [hmem u' hu']; exact a3
    · intro h w v u hm
      obtain ⟨a1, a2⟩ := hO.g h w v u (mem_snoc_call h2 hm)
      refine ⟨?_, Nat.lt_succ_of_lt a2⟩
      intro u' hu'
      simp only [log_queue, quids_append, List.mem_append] at hu'
      rcases hu' with hu' | hu'
      · exact a1 u' hu'
      · rw [hmem u' hu']; exact a2
    · exact hO.hsorted
    · simp only [log_queue, quids_append]
      rw [List.pairwise_append]
      refine ⟨hO.qs, ?_, ?_⟩
      · rcases hq with e | e <;> rw [e] <;> simp
      · intro a ha b hb; rw [hmem b hb]; exact hO.qn a ha
    · intro u hu
      simp only [log_queue, quids_append, List.mem_append, log_nextUid] at hu ⊢
      rcases hu with hu | hu
      · exact Nat.lt_succ_of_lt (hO.qn u hu)
      · rw [hmem u hu]; exact Nat.lt_succ_self _
  rcases putItem_cases s mk onEnq onDrop with e | e | ⟨k, e⟩
  · rw [e]; exact hO.log _ h1
  · rw [e]; exact hb
  · rw [e]; exact hb.updThread_same k notif (fun t => ⟨(notif_same t).1, (notif_same t).2.1, notif_kind t⟩)

theorem quids_sub_of_cons {q rest : List QItem} {item : QItem} (hq : q = item :: rest) :
    ∀ u, u ∈ quids rest → u ∈ quids q := by
  intro u hu
  obtain ⟨w, v, hm⟩ := mem_quids.mp hu
  exact mem_quids.mpr ⟨w, v, by rw [hq]; exact List.mem_cons_of_mem _ hm⟩

theorem OX.pop {s : State} {x : Option Nat} (hO : OX s x) {item : QItem} {rest : List QItem}
    (hq : s.queue = item :: rest) (l : Option QItem) : OX { s with queue := rest, last := l } x := by
  have hsub := quids_sub_of_cons hq
  constructor
  · exact hO.good
  · exact hO.kd
  · intro j t hj u w v r e
    obtain ⟨a1, a2, a3, a4, a5⟩ := hO.oi j t hj u w v r e
    exact ⟨a1, a2, a3, fun u' hu' => a4 u' (hsub u' hu'), a5⟩
  · intro j t hj hjt u w v e
    obtain ⟨a1, a2, a3⟩ := hO.op j t hj hjt u w v e
    exact ⟨a1, fun u' hu' => a2 u' (hsub u' hu'), a3⟩
  · intro h w v u hm
    obtain ⟨a1, a2⟩ := hO.g h w v u hm
    exact ⟨fun u' hu' => a1 u' (hsub u' hu'), a2⟩
  · exact hO.hsorted
  · have := hO.qs
    rw [hq] at this
    cases item with
    | stop => simpa [quids] using this
    | ev u w v => simp only [quids, List.filterMap_cons] at this; exact (List.pairwise_cons.mp this).2
  · intro u hu; exact hO.qn u (hsub u hu)

/-! ### ending a step -/

theorem OX.close {s : State} {ti : Nat} (hO : OX s (some ti)) (t' : Thread) (hk : KD t') (hi : OI s t')
    (hp : OP s t') : OX (s.setThread ti t') none := by
  have key : ∀ (j : Nat) (t : Thread), (s.threads.set ti t')[j]? = some t →
      t = t' ∨ (j ≠ ti ∧ s.threads[j]? = some t) := by
    intro j t hj
    rw [List.getElem?_set] at hj
    split at hj
    · split at hj
      · cases hj; exact Or.inl rfl
      · cases hj
    · rename_i e; exact Or.inr ⟨fun e' => e e'.symm, hj⟩
  constructor
  · exact hO.good
  · intro j t hj
    rcases key j t hj with e | ⟨_, h⟩
    · subst e; exact hk
    · exact hO.kd j t h
  · intro j t hj
    rcases key j t hj with e | ⟨_, h⟩
    · subst e; exact hi
    · exact hO.oi j t h
  · intro j t _ hjt
    rcases key j t hjt with e | ⟨hne, h⟩
    · subst e; exact hp
    · exact hO.op j t (by simp [hne]) h
  · exact hO.g
  · exact hO.hsorted
  · exact hO.qs
  · exact hO.qn

theorem dpc_false_ne {pc : Pc} (h : dpc pc = false) (u : Nat) (w : Wid) (v : Nat) : pc ≠ .dLock u w v := by
  intro e; subst e; simp [dpc] at h

theorem OX.closeThread {s : State} {ti : Nat} {t : Thread} (hO : OX s (some ti)) (ht : s.threads[ti]? = some t)
    (t' : Thread) (h1 : dpc t'.pc = false) (h2 : t'.iter = t.iter ∨ t'.iter = none) (h3 : t'.kind = t.kind) :
    OX (s.setThread ti t') none := by
  apply hO.close
  · intro hh
    rcases hh with hh | hh
    · rcases h2 with e | e
      · rw [h3]; exact hO.kd ti t ht (Or.inl (e ▸ hh))
      · rw [e] at hh; cases hh
    · rw [h1] at hh; cases hh
  · rcases h2 with e | e
    · have := hO.oi ti t ht
      unfold OI at this ⊢; rw [e]; exact this
    · intro u w v r hh; rw [e] at hh; cases hh
  · intro u w v e; exact absurd e (dpc_false_ne h1 u w v)

/-- ... with a pc other than `dWait`/`dLock` and the same iteration state (or none) -/
theorem OX.closeUpd {s : State} {ti : Nat} (hO : OX s (some ti)) (f : Thread → Thread)
    (h1 : ∀ t, dpc (f t).pc = false) (h2 : ∀ t, (f t).iter = t.iter ∨ (f t).iter = none)
    (h3 : ∀ t, (f t).kind = t.kind) : OX (s.updThread ti f) none := by
  rw [updThread_eq]
  split
  · rename_i t ht
    exact hO.closeThread ht _ (h1 t) (h2 t) (h3 t)
  · rename_i ht
    constructor
    · exact hO.good
    · exact hO.kd
    · exact hO.oi
    · intro j t _ hjt
      exact hO.op j t (fun e => by cases e; rw [ht] at hjt; cases hjt) hjt
    · exact hO.g
    · exact hO.hsorted
    · exact hO.qs
    · exact hO.qn

theorem OX.closeNone {s : State} {ti : Nat} (hO : OX s (some ti)) (ht : s.threads[ti]? = none) : OX s none := by
  constructor
  · exact hO.good
  · exact hO.kd
  · exact hO.oi
  · intro j t _ hjt
    exact hO.op j t (fun e => by cases e; rw [ht] at hjt; cases hjt) hjt
  · exact hO.g
  · exact hO.hsorted
  · exact hO.qs
  · exact hO.qn

/-- the dispatcher goes to sleep in `queue.get` -/
theorem OX.closeWait {s : State} {ti : Nat} (hO : OX s (some ti)) (hkd : ∀ t, s.thread? ti = some t → t.kind = .dispatcher)
    (f : Thread → Thread) (h1 : ∀ t, (f t).pc = .dWait) (h2 : ∀ t, (f t).iter = t.iter) (h3 : ∀ t, (f t).kind = t.kind) :
    OX (s.updThread ti f) none := by
  rw [updThread_eq]
  split
  · rename_i t ht
    apply hO.close
    · intro _; rw [h3]; exact hkd t ht
    · have := hO.oi ti t ht
      unfold OI at this ⊢; rw [h2]; exact this
    · intro u w v e; rw [h1] at e; cases e
  · rename_i ht; exact hO.closeNone ht

/-- the dispatcher takes the entry `u` off the queue -/
theorem OX.popEv {s : State} {ti : Nat} (hO : OX s (some ti)) (hkd : ∀ t, s.thread? ti = some t → t.kind = .dispatcher)
    {u : Nat} {w : Wid} {v : Nat} {rest : List QItem}
    (hq : s.queue = .ev u w v :: rest) (l : Option QItem) (f : Thread → Thread)
    (h1 : ∀ t, (f t).pc = .dLock u w v) (h2 : ∀ t, (f t).iter = t.iter) (h3 : ∀ t, (f t).kind = t.kind) :
    OX (({ s with queue := rest, last := l } : State).updThread ti f) none := by
  have hu : u ∈ quids s.queue := by rw [hq]; simp [quids]
  have hO1 := hO.pop hq l
  rw [updThread_eq]
  split
  · rename_i t ht
    apply hO1.close
    · intro _; rw [h3]; exact hkd t ht
    · have := hO1.oi ti t ht
      unfold OI at this ⊢; rw [h2]; exact this
    · intro u' w' v' e
      rw [h1] at e; cases e
      refine ⟨?_, ?_, hO.qn u hu⟩
      · intro h w' v' u' hm; exact (hO.g h w' v' u' hm).1 u hu
      · have := hO.qs
        rw [hq] at this
        simp only [quids, List.filterMap_cons] at this
        exact (List.pairwise_cons.mp this).1
  · rename_i ht; exact hO1.closeNone ht

/-! ### the dispatcher's own observations -/

theorem callUids_snoc_call (hist : List Obs) (h h' : Hid) (w : Wid) (v u : Nat) :
    callUids h' (hist ++ [.call h w v u]) = callUids h' hist ++ (if h = h' then [u] else []) := by
  rw [callUids_append]
  congr 1
  simp only [callUids, List.filterMap_cons, List.filterMap_nil]
  split <;> simp_all

theorem OX.call {s : State} {ti : Nat} {t : Thread} (hd : oneD s) (hO : OX s (some ti))
    (ht : s.threads[ti]? = some t) {u : Nat} {w : Wid} {v : Nat} {h : Hid} {rest : List Hid}
    (hit : t.iter = some (u, w, v, h :: rest)) (t' : Thread) (hk : t'.kind = t.kind)
    (hit' : t'.iter = some (u, w, v, rest)) :
    OX ((s.log (.call h w v u)).setThread ti t') (some ti) := by
  have hkt : t.kind = .dispatcher := hO.kd ti t ht (Or.inl (by rw [hit]; rfl))
  obtain ⟨a1, a2, a3, a4, a5⟩ := hO.oi ti t ht u w v (h :: rest) hit
  have idle : ∀ (j : Nat) (tj : Thread), j ≠ ti → s.threads[j]? = some tj → tj.iter = none ∧ dpc tj.pc = false := by
    intro j tj hj hjt
    have hn : ¬ (tj.iter.isSome = true ∨ dpc tj.pc = true) := by
      intro hh
      exact hj (oneD_same hd hjt ht (hO.kd j tj hjt hh) hkt)
    constructor
    · cases hi : tj.iter with
      | none => rfl
      | some x => exact absurd (Or.inl (by rw [hi]; rfl)) hn
    · cases hp : dpc tj.pc with
      | false => rfl
      | true => exact absurd (Or.inr hp) hn
  have key : ∀ (j : Nat) (tj : Thread), ((s.log (.call h w v u)).threads.set ti t')[j]? = some tj →
      tj = t' ∨ (j ≠ ti ∧ s.threads[j]? = some tj) := by
    intro j tj hj
    rw [List.getElem?_set] at hj
    split at hj
    · split at hj
      · cases hj; exact Or.inl rfl
      · cases hj
    · rename_i e; exact Or.inr ⟨fun e' => e e'.symm, hj⟩
  have hp := List.pairwise_cons.mp a1
  constructor
  · exact hO.good.snoc (a2 h (by simp))
  · intro j tj hj
    rcases key j tj hj with e | ⟨_, h0⟩
    · subst e; intro _; rw [hk]; exact hkt
    · exact hO.kd j tj h0
  · intro j tj hj
    rcases key j tj hj with e | ⟨hne, h0⟩
    · subst e
      intro u' w' v' r' e'
      rw [hit'] at e'; cases e'
      refine ⟨hp.2, ?_, ?_, a4, a5⟩
      · intro h' hm u' hu'
        simp only [setThread_hist, log_hist, callUids_snoc_call] at hu'
        have hne' : h ≠ h' := fun e => by subst e; exact Nat.lt_irrefl _ (hp.1 h hm)
        simp only [hne', if_false, List.append_nil] at hu'
        exact a2 h' (List.mem_cons_of_mem _ hm) u' hu'
      · intro h' w' v' u' hm
        simp only [setThread_hist, log_hist, List.mem_append, List.mem_singleton] at hm
        rcases hm with hm | hm
        · exact a3 h' w' v' u' hm
        · cases hm; exact Nat.le_refl _
    · intro u' w' v' r' e'
      rw [(idle j tj hne h0).1] at e'; cases e'
  · intro j tj hjx hjt
    rcases key j tj hjt with e | ⟨hne, h0⟩
    · subst e
      exfalso
      have hne : j ≠ ti := fun e => hjx (by rw [e])
      simp only [setThread_threads, log_threads, getElem?_set_ne' _ _ _ _ hne] at hjt
      have := (idle j _ hne hjt).1
      rw [hit'] at this; cases this
    · intro u' w' v' e'
      have := (idle j tj hne h0).2
      rw [e'] at this; simp [dpc] at this
  · intro h' w' v' u' hm
    simp only [setThread_hist, log_hist, List.mem_append, List.mem_singleton] at hm
    rcases hm with hm | hm
    · exact hO.g h' w' v' u' hm
    · cases hm; exact ⟨a4, a5⟩
  · exact hO.hsorted
  · exact hO.qs
  · exact hO.qn

theorem OX.dispatch {s : State} {ti : Nat} {t : Thread} (hO : OX s none) (ht : s.threads[ti]? = some t)
    {u : Nat} {w : Wid} {v : Nat} (hpc : t.pc = .dLock u w v) (t' : Thread) (hk : t'.kind = t.kind)
    (hit : t'.iter = some (u, w, v, s.handlersOf w)) :
    OX ((s.log (.dispatch u w (s.handlersOf w))).setThread ti t') (some ti) := by
  obtain ⟨p1, p2, p3⟩ := hO.op ti t (by simp) ht u w v hpc
  have hkt : t.kind = .dispatcher := hO.kd ti t ht (Or.inr (by rw [hpc]; rfl))
  apply OX.setThreadMine ((hO.weaken ti).log _ rfl)
  · intro _; rw [hk]; exact hkt
  · intro u' w' v' r e
    rw [hit] at e; cases e
    refine ⟨hO.hsorted w, ?_, ?_, p2, p3⟩
    · intro h hm u' hu'
      simp only [log_hist, callUids_snoc (o := .dispatch u w (s.handlersOf w)) rfl] at hu'
      obtain ⟨w', v', hc⟩ := mem_callUids.mp hu'
      exact p1 h w' v' u' hc
    · intro h w' v' u' hm
      exact Nat.le_of_lt (p1 h w' v' u' (mem_snoc_call (o := .dispatch u w (s.handlersOf w)) rfl hm))

end WD.ProofsObs
