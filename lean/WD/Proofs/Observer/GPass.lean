/- the waits-for invariant is preserved by every completed step (through the model's mutual block, together with the
   lock invariant of LInv, which says who may be where while the lock is held) -/
import WD.Proofs.Observer.GInv
set_option linter.unusedSimpArgs false
set_option linter.unusedVariables false
namespace WD.ProofsObs
open WD WD.Obs

/-- what is known about the record of the thread that is in the middle of a step -/
structure TM (t : Thread) : Prop where
  ne : ∀ e, t.kind ≠ .emitter e
  it : t.iter.isSome = true → t.kind = .dispatcher

theorem TM.same {t t' : Thread} (h : TM t) (hk : t'.kind = t.kind) (hi : t'.iter = t.iter) : TM t' :=
  ⟨fun e => by rw [hk]; exact h.ne e, fun x => by rw [hk]; exact h.it (hi ▸ x)⟩
theorem TM.iter_none {t t' : Thread} (h : TM t) (hk : t'.kind = t.kind) (hi : t'.iter = none) : TM t' :=
  ⟨fun e => by rw [hk]; exact h.ne e, fun x => by rw [hi] at x; cases x⟩

theorem gpass_d (ti : Nat) : ∀ fuel,
    (∀ s s' t, dLoopX fuel s ti = some s' → s.thread? ti = some t → t.kind = .dispatcher → t.iter = none → GX s ti → GQ s') ∧
    (∀ s s' t, dGetX fuel s ti = some s' → s.thread? ti = some t → t.kind = .dispatcher → t.iter = none → GX s ti → GQ s') := by
  intro fuel
  have hTG : ∀ (s : State) (t : Thread) (pc : Pc), t.kind = .dispatcher → t.iter = none →
      (∀ w e, pc ≠ .unschedJoin w e) → (∀ es fs, pc ≠ .uallJoin es fs) → (∀ h w e, pc ≠ .schedStarted h w e) →
      ∀ (nf : Bool), TG s { t with pc := pc, notified := nf } := by
    intro s t pc hk hi h1 h2 h3 nf
    refine TG.of (fun e h => by simp [hk] at h) (fun _ => hk) (fun h => by simp [hi] at h)
      (fun w e h => absurd h (h1 w e)) (fun es fs h => absurd h (h2 es fs)) (fun h0 w e h => absurd h (h3 h0 w e))
  induction fuel with
  | zero =>
    refine ⟨?_, ?_⟩
    · intro s s' t h; rw [dLoopX.eq_1] at h; cases h
    · intro s s' t h; rw [dGetX.eq_1] at h; cases h
  | succ n ih =>
    refine ⟨?_, ?_⟩
    · intro s s' t h ht hk hi hG
      unfold dLoopX at h
      try simp only [] at h
      split at h
      · cases h
        exact hG.closeUpd ht _ rfl (by simpa using hTG s t .done hk hi (by simp) (by simp) (by simp) t.notified)
      · exact ih.2 _ _ _ h ht hk hi hG
    · intro s s' t h ht hk hi hG
      unfold dGetX at h
      try simp only [] at h
      split at h
      · cases h
        exact hG.closeUpd ht _ rfl (hTG s t .dWait hk hi (by simp) (by simp) (by simp) false)
      · split at h
        · exact ih.1 _ _ _ h (by simpa [State.thread?] using ht) hk hi (hG.frame rfl rfl rfl (fun _ h => Or.inl h))
        · cases h
          refine GX.closeUpd (t := t) ?_ ?_ _ rfl ?_
          · exact hG.frame rfl rfl rfl (fun _ h => Or.inl h)
          · simpa [State.thread?] using ht
          · exact hTG _ t (.dLock _ _ _) hk hi (by simp) (by simp) (by simp) t.notified

end WD.ProofsObs

namespace WD.ProofsObs
open WD WD.Obs

set_option hygiene false in
macro "thr" : tactic => `(tactic| first | exact ht | (simpa using ht) | (simpa [State.thread?] using ht))

structure AllG (fuel : Nat) : Prop where
  fin : ∀ s ti res s' t, finishOpX fuel s ti res = some s' → s.thread? ti = some t → LX s ti (idepth t) →
      (res = "ok" → ∀ op, t.cur = some op → ∀ h w, removes op h w = true → registered s.hist h w = false) →
      TM t → GX s ti → GQ s'
  nxt : ∀ s ti s' t, nextOpX fuel s ti = some s' → s.thread? ti = some t → LX s ti (idepth t) →
      TM t → GX s ti → GQ s'
  sta : ∀ s ti op s' t, startOpX fuel s ti op = some s' → s.thread? ti = some t → t.cur = some op →
      LX s ti (idepth t) → TM t → GX s ti → GQ s'
  ent : ∀ s ti op s' t, enterLockedX fuel s ti op = some s' → s.thread? ti = some t → t.cur = some op →
      LX s ti (idepth t) → TM t → GX s ti → GQ s'
  lck : ∀ s ti op s' t, lockedX fuel s ti op = some s' → s.thread? ti = some t → t.cur = some op →
      LX s ti (idepth t + 1) → TM t → GX s ti → GQ s'
  sfin : ∀ s ti h w e s' t, schedFinishX fuel s ti h w e = some s' → s.thread? ti = some t →
      (∃ f, t.cur = some (.schedule h w f)) → LX s ti (idepth t + 1) → TM t → GX s ti → (∃ o, s.em? e = some o) → GQ s'
  ufin : ∀ s ti w s' t, unschedFinishX fuel s ti w = some s' → s.thread? ti = some t →
      t.cur = some (.unschedule w) → (∀ h, registered s.hist h w = false) → LX s ti (idepth t + 1) →
      TM t → GX s ti → GQ s'
  uab : ∀ s ti b s' t, uallBodyX fuel s ti b = some s' → s.thread? ti = some t →
      t.cur = some (if b then .stop else .unscheduleAll) → LX s ti (idepth t + 1) → TM t → GX s ti → GQ s'
  uajn : ∀ s ti es b s' t, uallJoinNextX fuel s ti es b = some s' → s.thread? ti = some t →
      t.cur = some (if b then .stop else .unscheduleAll) → (∀ h w, registered s.hist h w = false) →
      LX s ti (idepth t + 1) → TM t → GX s ti → (∀ e ∈ es, Stopped s e) → GQ s'
  stem : ∀ s ti es s' t, startEmittersX fuel s ti es = some s' → s.thread? ti = some t → t.cur = some .start →
      LX s ti (idepth t) → TM t → GX s ti → GQ s'
  cit : ∀ s ti s' t, continueIterX fuel s ti = some s' → s.thread? ti = some t → LX s ti (idepth t) →
      TM t → GX s ti → GQ s'

/-- the record left behind by a step that ends inside a call made from a callback or from a client -/
theorem TG.atCb {s : State} {t : Thread} (hM : TM t) (pc : Pc) (hcb : cbPc pc = true)
    (hju : ∀ w e, pc = .unschedJoin w e → Stopped s e) (hja : ∀ es fs, pc = .uallJoin es fs → ∀ e ∈ es, Stopped s e)
    (hsc : ∀ h w e, pc = .schedStarted h w e → ∃ o, s.em? e = some o) :
    TG s { t with pc := pc } := by
  refine TG.of hM.ne ?_ (fun _ => Or.inl hcb) hju hja hsc
  rintro (h | h)
  · exact hM.it h
  · cases pc <;> simp [isDpc, cbPc] at h hcb

/-- ... or at a point where no callback can be running -/
theorem TG.atPlain {s : State} {t : Thread} (hM : TM t) (hi : t.iter = none) (pc : Pc) (hd : isDpc pc = false)
    (hju : ∀ w e, pc ≠ .unschedJoin w e) (hja : ∀ es fs, pc ≠ .uallJoin es fs) (hsc : ∀ h w e, pc ≠ .schedStarted h w e) :
    TG s { t with pc := pc } := by
  refine TG.of hM.ne ?_ (fun h => by simp [hi] at h) (fun w e h => absurd h (hju w e)) (fun es fs h => absurd h (hja es fs))
    (fun h0 w e h => absurd h (hsc h0 w e))
  rintro (h | h)
  · simp [hi] at h
  · simp [hd] at h

theorem kinds_updThread_pc (s : State) (ti : Nat) (f : Thread → Thread) (hf : ∀ t, (f t).kind = t.kind) :
    kinds (s.updThread ti f) = kinds s := by
  rw [updThread_eq]
  split
  · rename_i t ht
    exact kinds_setThread ht _ (hf t)
  · rfl

end WD.ProofsObs

namespace WD.ProofsObs
open WD WD.Obs

theorem allG : ∀ fuel, AllG fuel := by
  intro fuel
  induction fuel with
  | zero =>
    constructor <;> intros <;> simp_all [finishOpX.eq_1, nextOpX.eq_1, startOpX.eq_1, enterLockedX.eq_1, lockedX.eq_1,
      schedFinishX.eq_1, unschedFinishX.eq_1, uallBodyX.eq_1, uallJoinNextX.eq_1, startEmittersX.eq_1, continueIterX.eq_1]
  | succ n ih =>
    constructor
    · -- finishOp
      intro s ti res s' t h ht hL hok hM hG
      unfold finishOpX at h
      simp only [ht] at h
      cases hc : t.cur with
      | none =>
        simp only [hc] at h
        refine ih.nxt _ _ _ _ h (setThread_thread?_self _ (by thr)) ?_ (hM.same rfl rfl) ?_
        · exact (hL.log (.ret t.label t.idx res) trivial (Or.inl rfl)).setThreadMine _
        · exact (hG.log _).setThreadMine (t := t) (by thr) _ rfl
      | some op =>
        simp only [hc] at h
        refine ih.nxt _ _ _ _ h (setThread_thread?_self _ (by thr)) ?_ (hM.same rfl rfl) ?_
        · exact ((hL.log (.did op res) (fun e h w hr => hok e op hc h w hr) (Or.inl rfl)).log
            (.ret t.label t.idx res) trivial (Or.inl rfl)).setThreadMine _
        · exact ((hG.log _).log _).setThreadMine (t := t) (by thr) _ rfl
    · -- nextOp
      intro s ti s' t h ht hL hM hG
      unfold nextOpX at h
      simp only [ht] at h
      split at h
      · rename_i op rest hops
        exact ih.sta _ _ _ _ _ h (setThread_thread?_self _ ht) rfl (hL.setThreadMine _) (hM.same rfl rfl)
          (hG.setThreadMine ht _ rfl)
      · split at h
        · exact ih.cit _ _ _ _ h ht hL hM hG
        · cases h
          rename_i hnd
          have hi : t.iter = none := by
            cases hit : t.iter with
            | none => rfl
            | some x => exact absurd (hM.it (by simp [hit])) (by intro hk; exact hnd hk)
          exact hG.close ht _ rfl (TG.atPlain hM hi .done rfl (by simp) (by simp) (by simp))
    · -- startOp
      intro s ti op s' t h ht hc hL hM hG
      unfold startOpX at h
      try simp only [] at h
      split at h
      · exact ih.stem _ _ _ _ _ h ht hc hL hM hG
      · split at h
        · exact ih.fin _ _ _ _ _ h ht hL (notok (by decide)) hM hG
        · split at h
          · exact ih.fin _ _ _ _ _ h ht hL (notok (by decide)) hM hG
          · cases h
            rename_i d hdx hne
            -- a dispatcher (inside a callback) that joins "the" dispatcher joins another one: two exist
            refine hG.closeUpd ht _ rfl (TG.of hM.ne ?_ ?_ (by simp) (by simp) (by simp))
            · rintro (hi | hi)
              · exact hM.it hi
              · simp [isDpc] at hi
            · intro hi
              right
              refine ⟨rfl, ?_⟩
              have hk := hM.it hi
              obtain ⟨td, htd, hkd⟩ := hG.sg.didx d hdx
              have h1 : (kinds s)[ti]? = some Kind.dispatcher := by
                have ht' : s.threads[ti]? = some t := ht
                simp [kinds, ht', hk]
              have h2 : (kinds s)[d]? = some Kind.dispatcher := by simp [kinds, htd, hkd]
              exact ⟨d, ti, hne, h2, h1⟩
      · exact ih.ent _ _ _ _ _ h ht hc (hL.frame rfl rfl rfl rfl) hM (hG.frame rfl rfl rfl (fun _ h => Or.inl h))
      · simp only [ht] at h
        cases h
        refine GX.close (t := t) ?_ ?_ _ rfl ?_
        · exact (GX.frame (s' := if s.lockOwner = some ti then { s with lockOwner := none, lockCount := 0 } else s) hG
            (by split <;> rfl) (by split <;> rfl) (by split <;> rfl) (fun _ h => Or.inl (by split at h <;> exact h))).log _
        · simp only [log_thread?]; split <;> exact ht
        · refine TG.of hM.ne ?_ ?_ ?_ ?_ ?_ <;> simp [isDpc]
      · exact ih.ent _ _ _ _ _ h ht hc hL hM hG
    · -- enterLocked
      intro s ti op s' t h ht hc hL hM hG
      unfold enterLockedX at h
      try simp only [] at h
      split at h
      · rename_i ho
        exact ih.lck _ _ _ _ _ h ht hc (hL.acquire ho) hM (hG.frame rfl rfl rfl (fun _ h => Or.inl h))
      · cases h
        rename_i ho
        have hi : t.iter = none := by
          cases hit : t.iter with
          | none => rfl
          | some x =>
            have : 0 < idepth t := by simp [idepth, hit]
            exact absurd (hL.mine.2 this).1 ho
        exact hG.closeUpd ht _ rfl (TG.atPlain hM hi (.acq op) rfl (by simp) (by simp) (by simp))
    · -- locked
      intro s ti op s' t h ht hc hL hM hG
      unfold lockedX at h
      try simp only [] at h
      split at h
      · -- schedule
        rename_i h0 w fault
        have hnr : ∀ op', t.cur = some op' → ∀ h' w', removes op' h' w' = true → False := by
          intro op' hc' h' w' hr; rw [hc] at hc'; cases hc'; simp [removes] at hr
        split at h
        · refine ih.fin _ _ _ _ _ h (by thr) ?_ (fun _ op' hc' h' w' hr => (hnr op' hc' h' w' hr).elim) hM ?_
          · exact LX.release (hL.hist_step (o := .reg h0 w) rfl rfl rfl rfl trivial (Or.inr (Nat.succ_pos _)))
          · exact GX.release (hG.frame rfl rfl rfl (fun _ h => Or.inl h))
        · split at h
          · exact ih.fin _ _ _ _ _ h (by thr) hL.release (notok (by decide)) hM hG.release
          · split at h
            · split at h
              · exact ih.fin _ _ _ _ _ h (by thr) (LX.release (hL.frame rfl rfl rfl rfl)) (notok (by decide)) hM
                  (GX.release (hG.appendEm _ rfl))
              · cases h
                have hG1 := hG.appendEm ({ wid := w, script := (alookup w s.emitScripts).getD [] } : EmObj) rfl
                refine GX.closeUpd (t := t) ?_ ?_ _ rfl ?_
                · exact hG1.linkEm _ _
                · rw [updEm_thread?]; exact spawn_thread? _ _ ht
                · refine TG.atCb hM _ rfl (by simp) (by simp) ?_
                  intro h1 w1 e1 hpc
                  cases hpc
                  have hx : (({ s with emObjs := s.emObjs ++ [({ wid := w, script := (alookup w s.emitScripts).getD [] } : EmObj)] } : State).spawn ("E" ++ toString w) (.emitter s.emObjs.length)).1.em? s.emObjs.length = some ({ wid := w, script := (alookup w s.emitScripts).getD [] } : EmObj) := by
                    simp [State.em?, State.spawn]
                  obtain ⟨o', ho', _⟩ := EmMono.updEm _ s.emObjs.length (fun o => { o with started := true, tidx := some (({ s with emObjs := s.emObjs ++ [({ wid := w, script := (alookup w s.emitScripts).getD [] } : EmObj)] } : State).spawn ("E" ++ toString w) (.emitter s.emObjs.length)).2 }) (fun o h => h) _ _ hx
                  exact ⟨o', ho'⟩
            · refine ih.sfin _ _ _ _ _ _ _ h ht ⟨fault, hc⟩ (hL.frame rfl rfl rfl rfl) hM (hG.appendEm _ rfl) ?_
              exact ⟨({ wid := w, script := (alookup w s.emitScripts).getD [] } : EmObj), by simp [State.em?]⟩
      · -- unschedule
        rename_i w
        split at h
        · exact ih.fin _ _ _ _ _ h (by thr) hL.release (notok (by decide)) hM hG.release
        · split at h
          · exact ih.fin _ _ _ _ _ h (by thr) hL.release (notok (by decide)) hM hG.release
          · rename_i e he hnone
            have hL2 : LX ((({ s with handlers := aerase w s.handlers, regEm := s.regEm.filter (· != e) } : State).log (.unregW w)).updEm e (fun o => { o with stopped := true })) ti (idepth t + 1) :=
              LX.frame (hL.hist_step (o := .unregW w) (s' := (({ s with handlers := aerase w s.handlers, regEm := s.regEm.filter (· != e) } : State).log (.unregW w))) rfl rfl rfl rfl trivial (Or.inl rfl))
                (by simp) (by simp) (by simp) (by simp)
            have hreg : ∀ h', registered ((({ s with handlers := aerase w s.handlers, regEm := s.regEm.filter (· != e) } : State).log (.unregW w)).updEm e (fun o => { o with stopped := true })).hist h' w = false := by
              intro h'; simp [registered_snoc, regStep]
            have hG1 : GX (({ s with handlers := aerase w s.handlers, regEm := s.regEm.filter (· != e) } : State).log (.unregW w)) ti :=
              hG.frame rfl rfl rfl (fun x hx => Or.inl (List.mem_filter.mp hx).1)
            have hG2 := hG1.updEm e (fun o => { o with stopped := true }) (fun o h => rfl) (fun o => rfl)
            obtain ⟨o0, ho0⟩ := emitterOf_exists he
            have hst : Stopped ((({ s with handlers := aerase w s.handlers, regEm := s.regEm.filter (· != e) } : State).log (.unregW w)).updEm e (fun o => { o with stopped := true })) e :=
              ⟨{ o0 with stopped := true }, by
                rw [em?_updEm]
                have : (({ s with handlers := aerase w s.handlers, regEm := s.regEm.filter (· != e) } : State).log (.unregW w)).em? e = some o0 := ho0
                simp [this], rfl⟩
            split at h
            · cases h
              refine hG2.closeUpd (by thr) _ rfl (TG.atCb hM _ rfl ?_ (by simp) (by simp))
              intro w' e' hpc; cases hpc; exact hst
            · exact ih.ufin _ _ _ _ _ h (by thr) hc hreg hL2 hM hG2
      · -- addHandler
        rename_i h0 w
        refine ih.fin _ _ _ _ _ h (by thr) ?_ ?_ hM ?_
        · exact LX.release (hL.hist_step (o := .reg h0 w) rfl rfl rfl rfl trivial (Or.inr (Nat.succ_pos _)))
        · intro _ op' hc' h' w' hr; rw [hc] at hc'; cases hc'; simp [removes] at hr
        · exact GX.release (hG.frame rfl rfl rfl (fun _ h => Or.inl h))
      · -- removeHandler
        rename_i h0 w
        split at h
        · refine ih.fin _ _ _ _ _ h (by thr) ?_ ?_ hM ?_
          · exact LX.release (hL.hist_step (o := .unreg h0 w) rfl rfl rfl rfl trivial (Or.inl rfl))
          · intro _ op' hc' h' w' hr; rw [hc] at hc'; cases hc'
            simp [removes] at hr
            obtain ⟨e1, e2⟩ := hr; subst e1; subst e2
            simp [registered_snoc, regStep]
          · exact GX.release (hG.frame rfl rfl rfl (fun _ h => Or.inl h))
        · exact ih.fin _ _ _ _ _ h (by thr) (LX.release (hL.frame rfl rfl rfl rfl)) (notok (by decide)) hM
            (GX.release (hG.frame rfl rfl rfl (fun _ h => Or.inl h)))
      · exact ih.uab _ _ _ _ _ h ht (by simpa using hc) hL hM hG
      · exact ih.uab _ _ _ _ _ h ht (by simpa using hc) hL hM hG
      · cases h
    · -- schedFinish
      intro s ti h0 w e s' t h ht hc hL hM hG hex
      unfold schedFinishX at h
      try simp only [] at h
      refine ih.fin _ _ _ _ _ h (by thr) ?_ ?_ hM ?_
      · exact LX.release (hL.hist_step (o := .reg h0 w) rfl rfl rfl rfl trivial (Or.inr (Nat.succ_pos _)))
      · obtain ⟨f, hc⟩ := hc
        intro _ op' hc' h' w' hr; rw [hc] at hc'; cases hc'; simp [removes] at hr
      · refine GX.release (hG.frame rfl rfl rfl ?_)
        intro x hx
        simp only [State.log] at hx
        have hx' := (List.mem_mergeSort).mp hx
        rcases List.mem_append.mp hx' with h1 | h1
        · exact Or.inl h1
        · simp at h1; subst h1; exact Or.inr hex
    · -- unschedFinish
      intro s ti w s' t h ht hc hreg hL hM hG
      unfold unschedFinishX at h
      try simp only [] at h
      split at h
      · refine ih.fin _ _ _ _ _ h (by thr) (LX.release (hL.frame rfl rfl rfl rfl)) ?_ hM
          (GX.release (hG.frame rfl rfl rfl (fun _ h => Or.inl h)))
        intro _ op' hc' h' w' hr; rw [hc] at hc'; cases hc'
        simp [removes] at hr; subst hr
        simpa using hreg h'
      · exact ih.fin _ _ _ _ _ h (by thr) hL.release (notok (by decide)) hM hG.release
    · -- uallBody
      intro s ti b s' t h ht hc hL hM hG
      unfold uallBodyX at h
      try simp only [] at h
      refine ih.uajn _ _ _ _ _ _ h ?_ hc ?_ ?_ hM ?_ ?_
      · rw [foldUpdEm_thread?]; exact ht
      · intro h' w'; rw [foldUpdEm_hist]; simp [registered_snoc, regStep]
      · apply LX.foldUpdEm
        exact hL.hist_step (o := .unregAll) rfl rfl rfl rfl trivial (Or.inl rfl)
      · apply GX.foldUpdEm
        · exact hG.frame rfl rfl rfl (fun _ h => Or.inl h)
        · intro o _; rfl
        · intro o; rfl
      · intro e he
        rw [foldUpdEm_regEm] at he
        exact foldStop_stopped _ _ e he (hG.sg.reg e he)
    · -- uallJoinNext
      intro s ti es b s' t h ht hc hreg hL hM hG hes
      unfold uallJoinNextX at h
      try simp only [] at h
      split at h
      · split at h
        · cases h
          refine hG.closeUpd ht _ rfl (TG.atCb hM _ rfl (by simp) ?_ (by simp))
          intro es' fs' hpc e he; cases hpc; exact hes e he
        · rename_i e rest _
          exact ih.uajn _ _ _ _ _ _ h ht hc hreg hL hM hG (fun x hx => hes x (List.mem_cons_of_mem _ hx))
      · have hL1 : LX ({ s with regEm := [], watches := [] } : State).release ti (idepth t) :=
          LX.release (hL.frame rfl rfl rfl rfl)
        have hG1 : GX ({ s with regEm := [], watches := [] } : State).release ti :=
          GX.release (hG.frame rfl rfl rfl (fun _ h => by cases h))
        have ht1 : ({ s with regEm := [], watches := [] } : State).release.thread? ti = some t := by thr
        have hreg1 : ∀ h' w', registered ({ s with regEm := [], watches := [] } : State).release.hist h' w' = false := by
          intro h' w'; simpa using hreg h' w'
        generalize ({ s with regEm := [], watches := [] } : State).release = s1 at h hL1 ht1 hreg1 hG1
        split at h
        · obtain ⟨t', ht', e1, e2, e3, e4⟩ := putItem_thread? (fun _ => QItem.stop) (fun _ => Obs.enqStop) Obs.dropStop ht1
          have hi : idepth t' = idepth t := by simp [idepth, e2]
          refine ih.fin _ _ _ _ _ h ht' ?_ ?_ (hM.same e4 e2) (hG1.putItem _ _ _)
          · rw [hi]; exact hL1.putItem _ _ _ rfl rfl trivial trivial
          · intro _ op' hc' h' w' hr
            rw [putItem_registered _ _ _ _ rfl rfl]; exact hreg1 h' w'
        · refine ih.fin _ _ _ _ _ h ht1 hL1 ?_ hM hG1
          intro _ op' hc' h' w' hr; exact hreg1 h' w'
    · -- startEmitters
      intro s ti es s' t h ht hc hL hM hG
      unfold startEmittersX at h
      try simp only [] at h
      split at h
      · split at h
        · cases h
          refine GX.closeUpd (t := t) ?_ ?_ _ rfl ?_
          · exact hG.linkEm _ _
          · rw [updEm_thread?]; exact spawn_thread? _ _ ht
          · exact TG.atCb hM _ rfl (by simp) (by simp) (by simp)
        · cases h
      · cases h
        refine GX.closeUpd (t := t) ?_ ?_ _ rfl ?_
        · exact hG.spawnD
        · exact spawn_thread? "D" .dispatcher ht
        · exact TG.atCb hM _ rfl (by simp) (by simp) (by simp)
    · -- continueIter
      intro s ti s' t h ht hL hM hG
      unfold continueIterX at h
      simp only [ht] at h
      split at h
      · cases h
      · rename_i u w v hit
        have hi : idepth t = 1 := by simp [idepth, hit]
        have hk : t.kind = .dispatcher := hM.it (by simp [hit])
        refine (gpass_d ti n).1 _ _ { t with iter := none } h ?_ hk rfl ?_
        · rw [release_thread?]; exact setThread_thread?_self _ (by thr)
        · exact GX.release ((hG.log _).setThreadMine (t := t) (by thr) _ rfl)
      · rename_i u w v h0 rest hit
        have hi : idepth t = 1 := by simp [idepth, hit]
        rw [hi] at hL
        have hL0 : LX (if (alookup w s.handlers).isNone then ({ s with handlers := ainsert w [] s.handlers } : State) else s) ti 1 := by
          split
          · exact hL.frame rfl rfl rfl rfl
          · exact hL
        have hG0 : GX (if (alookup w s.handlers).isNone then ({ s with handlers := ainsert w [] s.handlers } : State) else s) ti := by
          split
          · exact hG.frame rfl rfl rfl (fun _ h => Or.inl h)
          · exact hG
        have ht0 : (if (alookup w s.handlers).isNone then ({ s with handlers := ainsert w [] s.handlers } : State) else s).thread? ti = some t := by
          split <;> exact ht
        generalize (if (alookup w s.handlers).isNone then ({ s with handlers := ainsert w [] s.handlers } : State) else s) = s0 at h hL0 ht0 hG0
        have hM' : ∀ (t' : Thread), t'.kind = t.kind → t'.iter = some (u, w, v, rest) → TM t' := by
          intro t' hk' hi'
          exact ⟨fun e => by rw [hk']; exact hM.ne e, fun _ => by rw [hk']; exact hM.it (by simp [hit])⟩
        split at h
        · refine ih.nxt _ _ _ _ h (setThread_thread?_self (t := t) _ (by rw [log_thread?]; exact ht0)) ?_ (hM' _ rfl rfl) ?_
          · exact (LX.log (s := { s0 with invoc := ainsert h0 ((alookup h0 s0.invoc).getD 0 + 1) s0.invoc }) (hL0.frame rfl rfl rfl rfl) (.call h0 w v u) trivial (Or.inl rfl)).setThreadMine _
          · exact (GX.log (s := { s0 with invoc := ainsert h0 ((alookup h0 s0.invoc).getD 0 + 1) s0.invoc }) (hG0.frame rfl rfl rfl (fun _ h => Or.inl h)) _).setThreadMine (t := t) (by rw [log_thread?]; exact ht0) _ rfl
        · refine ih.cit _ _ _ _ h (setThread_thread?_self _ (by simpa using ht0)) ?_ (hM' _ rfl rfl) ?_
          · exact (hL0.log (.skip h0 u) trivial (Or.inl rfl)).setThreadMine _
          · exact (hG0.log _).setThreadMine (t := t) (by simpa using ht0) _ rfl

end WD.ProofsObs
