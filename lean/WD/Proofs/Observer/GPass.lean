/- the waits-for invariant is preserved by every completed step (through the model's mutual block, together with the
   lock invariant of LInv, which says who may be where while the lock is held) -/
import WD.Proofs.Observer.GInv
set_option linter.unusedSimpArgs false
set_option linter.unusedVariables false
namespace WD.ProofsObs
open WD WD.Obs

abbrev NoX : Eid → Prop := fun _ => False

/-- what is known about the record of the thread that is in the middle of a step (a client, or the dispatcher inside a
    callback) -/
structure TM (t : Thread) : Prop where
  ne : ∀ e, t.kind ≠ .emitter e
  it : t.iter.isSome = true → t.kind = .dispatcher
  di : t.kind = .dispatcher → t.iter.isSome = true

theorem TM.same {t t' : Thread} (h : TM t) (hk : t'.kind = t.kind) (hi : t'.iter = t.iter) : TM t' :=
  ⟨fun e => by rw [hk]; exact h.ne e, fun x => by rw [hk]; exact h.it (hi ▸ x), fun x => by rw [hi]; exact h.di (hk ▸ x)⟩

/-- what the stepping thread carries about the state: the sentinel fact of a dispatcher, and that the emitter its
    stale record may keep "pending" is registered (or stopped) -/
structure TS (s : State) (t : Thread) : Prop where
  sq : t.kind = .dispatcher → Sent s.hist → QItem.stop ∈ s.queue ∨ TwoD s
  pe : ∀ h w e, t.pc = .schedStarted h w e → AliveOk s e

theorem TS.rel {s s' : State} {t t' : Thread} (h : TS s t) (r : Rel s s') (hk : t'.kind = t.kind) (hp : t'.pc = t.pc) : TS s' t' :=
  ⟨fun hd hS => by
      rw [r.qe]; exact (h.sq (hk ▸ hd) (r.hs hS)).imp id (fun x => x.mono r.kp),
   fun h0 w e hpc => r.am e (h.pe h0 w e (hp ▸ hpc))⟩

theorem TS.frame {s s' : State} {t : Thread} (h : TS s t) (ht : s'.threads = s.threads) (he : s'.emObjs = s.emObjs)
    (hr : s'.regEm = s.regEm) (hq : s'.queue = s.queue) (hh : s'.hist = s.hist) : TS s' t :=
  ⟨fun hk hS => by rw [hq]; exact (h.sq hk (hh ▸ hS)).imp id (fun x => x.mono (KP.of_eq ht)),
   fun h0 w e hp => by
     obtain ⟨y, hy, hal⟩ := h.pe h0 w e hp
     exact ⟨y, by simpa [State.em?, he] using hy, by rw [hr]; exact hal⟩⟩

theorem TS.frameLog {s s' : State} {t : Thread} (h : TS s t) (ht : s'.threads = s.threads) (he : s'.emObjs = s.emObjs)
    (hr : s'.regEm = s.regEm) (hq : s'.queue = s.queue) (o : Obs) (hh : s'.hist = s.hist ++ [o]) (ho : sentObs o = false) :
    TS s' t := by
  refine ⟨fun hk hS => ?_, fun h0 w e hp => ?_⟩
  · rw [hq]
    have hS' : Sent s.hist := by
      rw [hh] at hS
      rcases (Sent_snoc _ _).mp hS with h1 | h1
      · exact h1
      · rw [ho] at h1; cases h1
    exact (h.sq hk hS').imp id (fun x => x.mono (KP.of_eq ht))
  · obtain ⟨y, hy, hal⟩ := h.pe h0 w e hp
    exact ⟨y, by simpa [State.em?, he] using hy, by rw [hr]; exact hal⟩

theorem TS.release {s : State} {t : Thread} (h : TS s t) : TS s.release t := by
  apply h.frame <;> (unfold State.release; split) <;> rfl

theorem Rel.frame (s s' : State) (ht : s'.threads = s.threads) (he : s'.emObjs = s.emObjs) (hr : s'.regEm = s.regEm)
    (hq : s'.queue = s.queue) (hh : s'.hist = s.hist) (hst : s.stoppedD = true → s'.stoppedD = true) : Rel s s' :=
  Rel.of_frame ht he hr hq hh hst

theorem Rel.log (s : State) (o : Obs) (ho : sentObs o = false) : Rel s (s.log o) :=
  ⟨EmMono.refl _, KP.refl _, fun e h => h, fun h => h, rfl, (fun h => by
    rcases (Sent_snoc _ _).mp h with h | h
    · exact h
    · rw [ho] at h; cases h), id⟩

theorem Rel.release (s : State) : Rel s s.release := by
  apply Rel.of_frame <;> (unfold State.release; split) <;> first | rfl | exact id

theorem Rel.setThread {s : State} {ti : Nat} {t : Thread} (ht : s.thread? ti = some t) (t' : Thread) (hk : t'.kind = t.kind) :
    Rel s (s.setThread ti t') :=
  ⟨EmMono.refl _, KP.setThread ht t' hk, fun e h => h, fun h => h, rfl, id, id⟩

theorem Rel.trans {a b c : State} (h1 : Rel a b) (h2 : Rel b c) : Rel a c :=
  ⟨h1.em.trans h2.em, h1.kp.trans h2.kp, fun e h => h2.am e (h1.am e h), fun h => h2.rs (h1.rs h),
   h2.qe.trans h1.qe, fun h => h1.hs (h2.hs h), fun h => h2.st (h1.st h)⟩

/-- the record left behind by a step that ends inside an API call (made by a client, or from a callback) -/
theorem TG.atCb {s : State} {t : Thread} (hM : TM t) (hS : TS s t) (pc : Pc) (hcb : cbPc pc = true)
    (hju : ∀ w e, pc = .unschedJoin w e → Stopped s e) (hja : ∀ es fs, pc = .uallJoin es fs → ∀ e ∈ es, Stopped s e)
    (hsc : ∀ h w e, pc = .schedStarted h w e → ∃ o, s.em? e = some o)
    (hst : ∀ es, pc = .startEm es → ∀ e ∈ es, AliveOk s e)
    (hrs : ∀ es fs, pc = .uallJoin es fs → ∀ e ∈ s.regEm, Stopped s e)
    (hsj : ∀ es, pc = .uallJoin es true → s.stoppedD = true) :
    TG s { t with pc := pc } where
  disp := by
    rintro (h | h)
    · exact hM.it h
    · cases pc <;> simp [isDpc, cbPc] at h hcb
  cb := fun _ => Or.inl hcb
  epcE := fun e h => absurd h (hM.ne e)
  epcO := by
    rintro (h | h)
    · have h' : pc = .eEmit := h
      rw [h'] at hcb; cases hcb
    · have h' : pc = .eWait := h
      rw [h'] at hcb; cases hcb
  dj := fun hk hi => by
    have h1 := hM.di hk
    have hi' : t.iter = none := hi
    rw [hi'] at h1; cases h1
  joinU := hju
  joinA := hja
  sched := hsc
  emObj := fun e h => absurd h (hM.ne e)
  startEs := hst
  regS := hrs
  q1 := fun hp _ => by
    have hp' : pc = .dWait := hp
    rw [hp'] at hcb; cases hcb
  sq := fun hk _ hSent => hS.sq hk hSent
  stopA := fun hp => by
    have hp' : pc = .acq .stop := hp
    rw [hp'] at hcb; cases hcb
  stopJ := hsj

/-- ... or at a point where no callback can be running (so the thread is a client) -/
theorem TG.atPlain {s : State} {t : Thread} (hM : TM t) (hi : t.iter = none) (pc : Pc) (hd : isDpc pc = false)
    (he : pc ≠ .eEmit ∧ pc ≠ .eWait) (hju : ∀ w e, pc ≠ .unschedJoin w e) (hja : ∀ es fs, pc ≠ .uallJoin es fs)
    (hsc : ∀ h w e, pc ≠ .schedStarted h w e) (hst : ∀ es, pc ≠ .startEm es)
    (hsa : pc = .acq .stop → s.stoppedD = true) : TG s { t with pc := pc } where
  disp := by
    rintro (h | h)
    · simp [hi] at h
    · simp [hd] at h
  cb := fun h => by simp [hi] at h
  epcE := fun e h => absurd h (hM.ne e)
  epcO := by
    rintro (h | h)
    · exact absurd h he.1
    · exact absurd h he.2
  dj := fun hk _ => by have := hM.di hk; simp [hi] at this
  joinU := fun w e h => absurd h (hju w e)
  joinA := fun es fs h => absurd h (hja es fs)
  sched := fun h0 w e h => absurd h (hsc h0 w e)
  emObj := fun e h => absurd h (hM.ne e)
  startEs := fun es h => absurd h (hst es)
  regS := fun es fs h => absurd h (hja es fs)
  q1 := fun hp _ => by
    have hp' : pc = .dWait := hp
    rw [hp'] at hd; cases hd
  sq := fun hk _ _ => by have := hM.di hk; simp [hi] at this
  stopA := hsa
  stopJ := fun es h => absurd h (hja es true)

end WD.ProofsObs

namespace WD.ProofsObs
open WD WD.Obs

/-- the record the dispatcher leaves behind at its loop head / in `queue.get` -/
theorem TG.atD {s : State} {t : Thread} (hk : t.kind = .dispatcher) (hi : t.iter = none) (pc : Pc) (nf : Bool)
    (hdj : djPc pc = true)
    (hq1 : pc = .dWait → nf = false → s.queue = [] ∨ TwoD s)
    (hsq : pc ≠ .done → Sent s.hist → QItem.stop ∈ s.queue ∨ TwoD s) : TG s { t with pc := pc, notified := nf } where
  disp := fun _ => hk
  cb := fun h => by simp [hi] at h
  epcE := fun e h => by simp [hk] at h
  epcO := by rintro (h | h) <;> (have h' : pc = _ := h; rw [h'] at hdj; cases hdj)
  dj := fun _ _ => hdj
  joinU := fun w e h => by have h' : pc = _ := h; rw [h'] at hdj; cases hdj
  joinA := fun es fs h => by have h' : pc = _ := h; rw [h'] at hdj; cases hdj
  sched := fun h0 w e h => by have h' : pc = _ := h; rw [h'] at hdj; cases hdj
  emObj := fun e h => by simp [hk] at h
  startEs := fun es h => by have h' : pc = _ := h; rw [h'] at hdj; cases hdj
  regS := fun es fs h => by have h' : pc = _ := h; rw [h'] at hdj; cases hdj
  q1 := hq1
  sq := fun _ hp hS => hsq hp hS
  stopA := fun h => by have h' : pc = _ := h; rw [h'] at hdj; cases hdj
  stopJ := fun es h => by have h' : pc = _ := h; rw [h'] at hdj; cases hdj

theorem Rel.pop (s : State) (rest : List QItem) (l : Option QItem) (hq : ∃ item, s.queue = item :: rest) :
    EmMono s ({ s with queue := rest, last := l } : State) ∧ (∀ e, AliveOk s e → AliveOk ({ s with queue := rest, last := l } : State) e) :=
  ⟨EmMono.refl _, fun e h => h⟩

theorem gpass_d (ti : Nat) : ∀ fuel,
    (∀ s s' t, dLoopX fuel s ti = some s' → s.thread? ti = some t → t.kind = .dispatcher → t.iter = none →
        (∀ h w e, t.pc = .schedStarted h w e → AliveOk s e) →
        (s.stoppedD = true ∨ (Sent s.hist → QItem.stop ∈ s.queue ∨ TwoD s)) → GX s ti NoX → GQ s') ∧
    (∀ s s' t, dGetX fuel s ti = some s' → s.thread? ti = some t → t.kind = .dispatcher → t.iter = none →
        (∀ h w e, t.pc = .schedStarted h w e → AliveOk s e) →
        (Sent s.hist → QItem.stop ∈ s.queue ∨ TwoD s) → GX s ti NoX → GQ s') := by
  intro fuel
  induction fuel with
  | zero =>
    refine ⟨?_, ?_⟩
    · intro s s' t h; rw [dLoopX.eq_1] at h; cases h
    · intro s s' t h; rw [dGetX.eq_1] at h; cases h
  | succ n ih =>
    refine ⟨?_, ?_⟩
    · intro s s' t h ht hk hi hpe hsq hG
      unfold dLoopX at h
      try simp only [] at h
      split at h
      · cases h
        refine hG.closeUpd ht _ rfl ?_ (fun h0 w e hp => Or.inl (hpe h0 w e hp)) (fun _ hx => hx.elim)
        have := TG.atD (s := s) hk hi .done t.notified rfl (by simp) (by simp)
        simpa using this
      · rename_i hns
        refine ih.2 _ _ _ h ht hk hi hpe ?_ hG
        rcases hsq with h1 | h1
        · exact absurd h1 hns
        · exact h1
    · intro s s' t h ht hk hi hpe hsq hG
      unfold dGetX at h
      try simp only [] at h
      split at h
      · rename_i hq
        cases h
        refine hG.closeUpd ht _ rfl ?_ (fun h0 w e hp => Or.inl (hpe h0 w e hp)) (fun _ hx => hx.elim)
        exact TG.atD hk hi .dWait false rfl (fun _ _ => Or.inl hq) (fun _ hS => hsq hS)
      · rename_i item rest hq
        have hGp := hG.pop ht hk item rest hq
        have hh1 : ({ s with queue := rest, last := (match s.last with
              | some l => if item.same l then none else some l
              | none => none) } : State).hist = s.hist := rfl
        have hq1 : ({ s with queue := rest, last := (match s.last with
              | some l => if item.same l then none else some l
              | none => none) } : State).queue = rest := rfl
        have ht1 : ({ s with queue := rest, last := (match s.last with
              | some l => if item.same l then none else some l
              | none => none) } : State).thread? ti = some t := ht
        have hpe1 : ∀ h w e, t.pc = .schedStarted h w e → AliveOk ({ s with queue := rest, last := (match s.last with
              | some l => if item.same l then none else some l
              | none => none) } : State) e := hpe
        have hst1 : s.stoppedD = true → ({ s with queue := rest, last := (match s.last with
              | some l => if item.same l then none else some l
              | none => none) } : State).stoppedD = true := id
        have htw : TwoD s → TwoD ({ s with queue := rest, last := (match s.last with
              | some l => if item.same l then none else some l
              | none => none) } : State) := id
        generalize ({ s with queue := rest, last := (match s.last with
              | some l => if item.same l then none else some l
              | none => none) } : State) = s1 at h hGp hh1 hq1 ht1 hpe1 hst1 htw
        split at h
        · -- the sentinel: back to the loop head, which leaves
          refine ih.1 _ _ _ h ht1 hk hi hpe1 (Or.inl ?_) hGp
          exact hst1 (hG.sg.l2 (by rw [hq]; simp))
        · cases h
          rename_i u w v
          refine GX.closeUpd (t := t) hGp ht1 _ rfl ?_
            (fun h0 w e hp => Or.inl (hpe1 h0 w e hp)) (fun _ hx => hx.elim)
          have := TG.atD (s := s1) hk hi (.dLock u w v) t.notified rfl (by simp) (fun _ hS => by
              rw [hh1] at hS
              rcases hsq hS with h1 | h1
              · left
                rw [hq] at h1
                rw [hq1]
                rcases List.mem_cons.mp h1 with h2 | h2
                · cases h2
                · exact h2
              · exact Or.inr (htw h1))
          simpa using this

end WD.ProofsObs

namespace WD.ProofsObs
open WD WD.Obs

set_option hygiene false in
macro "thr" : tactic => `(tactic| first | exact ht | (simpa using ht) | (simpa [State.thread?] using ht))

structure AllG (fuel : Nat) : Prop where
  fin : ∀ s ti res s' t, finishOpX fuel s ti res = some s' → s.thread? ti = some t → LX s ti (idepth t) →
      (res = "ok" → ∀ op, t.cur = some op → ∀ h w, removes op h w = true → registered s.hist h w = false) →
      (res = "ok" → t.cur = some .stop → Sent s.hist) →
      TM t → TS s t → GX s ti NoX → GQ s'
  nxt : ∀ s ti s' t, nextOpX fuel s ti = some s' → s.thread? ti = some t → LX s ti (idepth t) →
      TM t → TS s t → GX s ti NoX → GQ s'
  sta : ∀ s ti op s' t, startOpX fuel s ti op = some s' → s.thread? ti = some t → t.cur = some op →
      LX s ti (idepth t) → TM t → TS s t → GX s ti NoX → GQ s'
  ent : ∀ s ti op s' t, enterLockedX fuel s ti op = some s' → s.thread? ti = some t → t.cur = some op →
      LX s ti (idepth t) → (op = .stop → s.stoppedD = true) → TM t → TS s t → GX s ti NoX → GQ s'
  lck : ∀ s ti op s' t, lockedX fuel s ti op = some s' → s.thread? ti = some t → t.cur = some op →
      LX s ti (idepth t + 1) → (op = .stop → s.stoppedD = true) → TM t → TS s t → GX s ti NoX → GQ s'
  sfin : ∀ s ti h w e s' t, schedFinishX fuel s ti h w e = some s' → s.thread? ti = some t →
      (∃ f, t.cur = some (.schedule h w f)) → LX s ti (idepth t + 1) → TM t →
      (t.kind = .dispatcher → Sent s.hist → QItem.stop ∈ s.queue ∨ TwoD s) →
      (∀ h' w' e', t.pc = .schedStarted h' w' e' → e' = e ∨ AliveOk s e') →
      GX s ti NoX → (∃ o, s.em? e = some o) → GQ s'
  ufin : ∀ s ti w s' t, unschedFinishX fuel s ti w = some s' → s.thread? ti = some t →
      t.cur = some (.unschedule w) → (∀ h, registered s.hist h w = false) → LX s ti (idepth t + 1) →
      TM t → TS s t → GX s ti NoX → GQ s'
  uab : ∀ s ti b s' t, uallBodyX fuel s ti b = some s' → s.thread? ti = some t →
      t.cur = some (if b then .stop else .unscheduleAll) → LX s ti (idepth t + 1) → (b = true → s.stoppedD = true) →
      TM t → TS s t → GX s ti NoX → GQ s'
  uajn : ∀ s ti es b s' t, uallJoinNextX fuel s ti es b = some s' → s.thread? ti = some t →
      t.cur = some (if b then .stop else .unscheduleAll) → (∀ h w, registered s.hist h w = false) →
      LX s ti (idepth t + 1) → (b = true → s.stoppedD = true) → TM t → TS s t → GX s ti NoX →
      (∀ e ∈ es, Stopped s e) → (∀ e ∈ s.regEm, Stopped s e) → GQ s'
  stem : ∀ s ti es s' t, startEmittersX fuel s ti es = some s' → s.thread? ti = some t → t.cur = some .start →
      LX s ti (idepth t) → TM t → TS s t → GX s ti NoX → (∀ e ∈ es, AliveOk s e) → GQ s'
  cit : ∀ s ti s' t, continueIterX fuel s ti = some s' → s.thread? ti = some t → LX s ti (idepth t) →
      TM t → TS s t → GX s ti NoX → GQ s'

theorem notStop_goodS (p : List Obs) (o : Obs) (h : ∀ res, o ≠ .did .stop res) : GoodAtS p o := by
  cases o with
  | did op res =>
    cases op <;> simp [GoodAtS]
    exact absurd rfl (h res)
  | _ => simp [GoodAtS]

end WD.ProofsObs

namespace WD.ProofsObs
open WD WD.Obs

theorem putStop_sent (s : State) : Sent (s.putItem (fun _ => QItem.stop) (fun _ => Obs.enqStop) Obs.dropStop).hist := by
  rcases putItem_cases s (fun _ => QItem.stop) (fun _ => Obs.enqStop) Obs.dropStop with h | h | ⟨d, h⟩
  · rw [h]; exact Or.inr (by simp [State.log])
  · rw [h]; exact Or.inl (by simp [putBase, State.log])
  · rw [h, updThread_hist]; exact Or.inl (by simp [putBase, State.log])

theorem Rel.putItem (s : State) (mk : Nat → QItem) (onEnq : Nat → Obs) (onDrop : Obs) :
    EmMono s (s.putItem mk onEnq onDrop) ∧ KP s (s.putItem mk onEnq onDrop) ∧
    (∀ e, AliveOk s e → AliveOk (s.putItem mk onEnq onDrop) e) := by
  have he := putItem_emObjs s mk onEnq onDrop
  have hr : (s.putItem mk onEnq onDrop).regEm = s.regEm := by
    rcases putItem_cases s mk onEnq onDrop with h | h | ⟨d, h⟩
    · rw [h]; rfl
    · rw [h]; rfl
    · rw [h, updThread_eq]; split <;> rfl
  refine ⟨EmMono.of_eq he, KP.putItem s mk onEnq onDrop, ?_⟩
  rintro e ⟨o, ho, h⟩
  exact ⟨o, by simpa [State.em?, he] using ho, by rw [hr]; exact h⟩

end WD.ProofsObs

namespace WD.ProofsObs
open WD WD.Obs

theorem allG : ∀ fuel, AllG fuel := by
  intro fuel
  induction fuel with
  | zero =>
    constructor <;> intros <;> simp_all [finishOpX.eq_1, nextOpX.eq_1, startOpX.eq_1, enterLockedX.eq_1, lockedX.eq_1,
      schedFinishX.eq_1, unschedFinishX.eq_1, uallBodyX.eq_1, uallJoinNextX.eq_1, startEmittersX.eq_1, continueIterX.eq_1]
  | succ n ih =>
    constructor
    · -- finishOp
      intro s ti res s' t h ht hL hok hsent hM hS hG
      unfold finishOpX at h
      simp only [ht] at h
      cases hc : t.cur with
      | none =>
        simp only [hc] at h
        refine ih.nxt _ _ _ _ h (setThread_thread?_self _ (by thr)) ?_ (hM.same rfl rfl) ?_ ?_
        · exact (hL.log (.ret t.label t.idx res) trivial (Or.inl rfl)).setThreadMine _
        · exact hS.rel ((Rel.log s _ rfl).trans (Rel.setThread (t := t) (by thr) _ rfl)) rfl rfl
        · exact (hG.log _ rfl (by simp [GoodAtS])).setThreadMine (t := t) (by thr) _ rfl rfl
      | some op =>
        simp only [hc] at h
        refine ih.nxt _ _ _ _ h (setThread_thread?_self _ (by thr)) ?_ (hM.same rfl rfl) ?_ ?_
        · exact ((hL.log (.did op res) (fun e h w hr => hok e op hc h w hr) (Or.inl rfl)).log
            (.ret t.label t.idx res) trivial (Or.inl rfl)).setThreadMine _
        · exact hS.rel (((Rel.log s _ rfl).trans (Rel.log _ _ rfl)).trans (Rel.setThread (t := t) (by thr) _ rfl)) rfl rfl
        · refine ((hG.log (.did op res) rfl ?_).log _ rfl (by simp [GoodAtS])).setThreadMine (t := t) (by thr) _ rfl rfl
          cases op <;> simp [GoodAtS]
          exact fun hr => hsent hr hc
    · -- nextOp
      intro s ti s' t h ht hL hM hS hG
      unfold nextOpX at h
      simp only [ht] at h
      split at h
      · rename_i op rest hops
        exact ih.sta _ _ _ _ _ h (setThread_thread?_self _ ht) rfl (hL.setThreadMine _) (hM.same rfl rfl)
          (hS.rel (Rel.setThread ht _ rfl) rfl rfl) (hG.setThreadMine ht _ rfl rfl)
      · split at h
        · exact ih.cit _ _ _ _ h ht hL hM hS hG
        · cases h
          rename_i hnd
          have hi : t.iter = none := by
            cases hit : t.iter with
            | none => rfl
            | some x => exact absurd (hM.it (by simp [hit])) (by intro hk; exact hnd hk)
          exact hG.close ht _ rfl (TG.atPlain hM hi .done rfl (by simp) (by simp) (by simp) (by simp) (by simp) (by simp))
            (fun h0 w e hp => Or.inl (hS.pe h0 w e hp)) (fun _ hx => hx.elim)
    · -- startOp
      intro s ti op s' t h ht hc hL hM hS hG
      unfold startOpX at h
      try simp only [] at h
      split at h
      · split at h
        · exact ih.fin _ _ _ _ _ h ht hL (notok (by decide)) (notok (by decide)) hM hS hG
        · refine ih.stem _ _ _ _ _ h ht hc hL hM hS hG ?_
          intro e he
          obtain ⟨o, ho⟩ := hG.sg.reg e he
          exact ⟨o, ho, Or.inr he⟩
      · have hns : "raised:RuntimeError" = "ok" → t.cur = some Op.stop → Sent s.hist := notok (by decide)
        split at h
        · exact ih.fin _ _ _ _ _ h ht hL (notok (by decide)) hns hM hS hG
        · split at h
          · exact ih.fin _ _ _ _ _ h ht hL (notok (by decide)) hns hM hS hG
          · cases h
            rename_i d hdx hne
            -- a dispatcher (inside a callback) that joins "the" dispatcher joins another one: two exist
            refine hG.closeUpd ht _ rfl ?_ (fun h0 w e hp => Or.inl (hS.pe h0 w e hp)) (fun _ hx => hx.elim)
            have htwo : t.iter.isSome = true → TwoD s := by
              intro hi
              have hk := hM.it hi
              obtain ⟨td, htd, hkd⟩ := hG.sg.didx d hdx
              have ht' : s.threads[ti]? = some t := ht
              exact ⟨d, ti, hne, by rw [mem_kinds_of_thread htd, hkd], by rw [mem_kinds_of_thread ht', hk]⟩
            exact {
              disp := by
                rintro (hi | hi)
                · exact hM.it hi
                · simp [isDpc] at hi
              cb := fun hi => Or.inr ⟨rfl, htwo hi⟩
              epcE := fun e he => absurd he (hM.ne e)
              epcO := by rintro (h1 | h1) <;> cases h1
              dj := fun hk hi => by
                have h1 := hM.di hk
                have hi' : t.iter = none := hi
                rw [hi'] at h1; cases h1
              joinU := fun w e h1 => by cases h1
              joinA := fun es fs h1 => by cases h1
              sched := fun h0 w e h1 => by cases h1
              emObj := fun e he => absurd he (hM.ne e)
              startEs := fun es h1 => by cases h1
              regS := fun es fs h1 => by cases h1
              q1 := fun h1 _ => by cases h1
              sq := fun hk _ hSent => hS.sq hk hSent
              stopA := fun h1 => by cases h1
              stopJ := fun es h1 => by cases h1 }
      · refine ih.ent _ _ _ _ _ h ht hc (hL.frame rfl rfl rfl rfl) (fun _ => rfl) hM ?_ hG.setStopped
        exact hS.frame rfl rfl rfl rfl rfl
      · simp only [ht] at h
        cases h
        have hG1 : GX (if s.lockOwner = some ti then { s with lockOwner := none, lockCount := 0 } else s) ti NoX := by
          split
          · exact hG.frame rfl rfl rfl rfl rfl rfl rfl rfl
          · exact hG
        have ht1 : (if s.lockOwner = some ti then { s with lockOwner := none, lockCount := 0 } else s).thread? ti = some t := by
          split <;> exact ht
        have hpe1 : ∀ h0 w e, t.pc = .schedStarted h0 w e → AliveOk (if s.lockOwner = some ti then { s with lockOwner := none, lockCount := 0 } else s) e := by
          intro h0 w e hp
          have := hS.pe h0 w e hp
          split <;> exact this
        generalize (if s.lockOwner = some ti then { s with lockOwner := none, lockCount := 0 } else s) = s1 at hG1 ht1 hpe1
        refine GX.close (t := t) (hG1.log (.died t.name) rfl (by simp [GoodAtS])) (by rw [log_thread?]; exact ht1) _ rfl ?_
          (fun h0 w e hp => Or.inl ((Rel.log s1 _ rfl).am e (hpe1 h0 w e hp))) (fun _ hx => hx.elim)
        exact {
          disp := by rintro (hi | hi) <;> simp [isDpc] at hi
          cb := fun hi => by simp at hi
          epcE := fun e he => absurd he (hM.ne e)
          epcO := by rintro (h1 | h1) <;> cases h1
          dj := fun _ _ => rfl
          joinU := fun w e h1 => by cases h1
          joinA := fun es fs h1 => by cases h1
          sched := fun h0 w e h1 => by cases h1
          emObj := fun e he => absurd he (hM.ne e)
          startEs := fun es h1 => by cases h1
          regS := fun es fs h1 => by cases h1
          q1 := fun h1 _ => by cases h1
          sq := fun _ hp _ => absurd rfl hp
          stopA := fun h1 => by cases h1
          stopJ := fun es h1 => by cases h1 }
      · rename_i hns1 hns2 hns3 hns4
        exact ih.ent _ _ _ _ _ h ht hc hL (fun hop => absurd hop (by intro e; subst e; exact hns3 rfl)) hM hS hG
    · -- enterLocked
      intro s ti op s' t h ht hc hL hst hM hS hG
      unfold enterLockedX at h
      try simp only [] at h
      split at h
      · rename_i ho
        exact ih.lck _ _ _ _ _ h ht hc (hL.acquire ho) hst hM (hS.frame rfl rfl rfl rfl rfl)
          (hG.frame rfl rfl rfl rfl rfl rfl rfl rfl)
      · cases h
        rename_i ho
        have hi : t.iter = none := by
          cases hit : t.iter with
          | none => rfl
          | some x =>
            have : 0 < idepth t := by simp [idepth, hit]
            exact absurd (hL.mine.2 this).1 ho
        exact hG.closeUpd ht _ rfl (TG.atPlain hM hi (.acq op) rfl (by simp) (by simp) (by simp) (by simp) (by simp) (fun hp => hst (by cases hp; rfl)))
          (fun h0 w e hp => Or.inl (hS.pe h0 w e hp)) (fun _ hx => hx.elim)
    · -- locked
      intro s ti op s' t h ht hc hL hst hM hS hG
      unfold lockedX at h
      try simp only [] at h
      split at h
      · -- schedule
        rename_i h0 w fault
        have hnr : ∀ op', t.cur = some op' → ∀ h' w', removes op' h' w' = true → False := by
          intro op' hc' h' w' hr; rw [hc] at hc'; cases hc'; simp [removes] at hr
        have hns : ∀ (r : String) (s0 : State), (r = "ok" → t.cur = some Op.stop → Sent s0.hist) := by
          intro r s0 _ hcs; rw [hc] at hcs; cases hcs
        split at h
        · refine ih.fin _ _ _ _ _ h (by thr) ?_ (fun _ op' hc' h' w' hr => (hnr op' hc' h' w' hr).elim) (hns _ _) hM ?_ ?_
          · exact LX.release (hL.hist_step (o := .reg h0 w) rfl rfl rfl rfl trivial (Or.inr (Nat.succ_pos _)))
          · exact TS.release (hS.frameLog rfl rfl rfl rfl (.reg h0 w) rfl rfl)
          · exact GX.release (hG.frameLog rfl rfl rfl rfl rfl rfl rfl (.reg h0 w) rfl rfl (by simp [GoodAtS]))
        · split at h
          · exact ih.fin _ _ _ _ _ h (by thr) hL.release (notok (by decide)) (hns _ _) hM hS.release hG.release
          · have hG1 := hG.appendEm ({ wid := w, script := (alookup w s.emitScripts).getD [] } : EmObj) rfl
            have hR1 : Rel s ({ s with emObjs := s.emObjs ++ [({ wid := w, script := (alookup w s.emitScripts).getD [] } : EmObj)] } : State) := by
              have hm : EmMono s ({ s with emObjs := s.emObjs ++ [({ wid := w, script := (alookup w s.emitScripts).getD [] } : EmObj)] } : State) := by
                intro e x hx
                refine ⟨x, ?_, id, id⟩
                have hx' : s.emObjs[e]? = some x := hx
                have := (List.getElem?_eq_some_iff.mp hx').1
                show (s.emObjs ++ [_])[e]? = some x
                rw [List.getElem?_append_left this]; exact hx'
              refine ⟨hm, KP.of_eq rfl, ?_, ?_, rfl, id, id⟩
              · rintro x ⟨y, hy, hh⟩
                obtain ⟨y', hy', hs', _⟩ := hm x y hy
                exact ⟨y', hy', hh.imp hs' id⟩
              · intro hh x hx; exact (hh x hx).mono hm
            have hnew : ({ s with emObjs := s.emObjs ++ [({ wid := w, script := (alookup w s.emitScripts).getD [] } : EmObj)] } : State).em? s.emObjs.length =
                some ({ wid := w, script := (alookup w s.emitScripts).getD [] } : EmObj) := by simp [State.em?]
            split at h
            · split at h
              · exact ih.fin _ _ _ _ _ h (by thr) (LX.release (hL.frame rfl rfl rfl rfl)) (notok (by decide)) (hns _ _) hM
                  (TS.release (hS.rel hR1 rfl rfl)) (GX.release hG1)
              · cases h
                have hG2 := (hG1.exempt (fun x => x = s.emObjs.length)).linkEm (t := t) (by thr) ("E" ++ toString w) s.emObjs.length
                  ⟨_, hnew, Or.inr (Or.inr rfl)⟩
                have hS2 : TS ((({ s with emObjs := s.emObjs ++ [({ wid := w, script := (alookup w s.emitScripts).getD [] } : EmObj)] } : State).spawn ("E" ++ toString w) (.emitter s.emObjs.length)).1.updEm s.emObjs.length
                    (fun o => { o with started := true, tidx := some (({ s with emObjs := s.emObjs ++ [({ wid := w, script := (alookup w s.emitScripts).getD [] } : EmObj)] } : State).spawn ("E" ++ toString w) (.emitter s.emObjs.length)).2 })) t := by
                  refine ⟨fun hk hSent => ?_, fun h1 w1 e1 hpc => ?_⟩
                  · rw [updEm_queue, updEm_hist] at *
                    exact (hS.sq hk hSent).imp id (fun x => x.mono (KP.trans (KP.spawn _ _ _) (KP.of_eq (updEm_threads _ _ _))))
                  · obtain ⟨y, hy, hal⟩ := hR1.am e1 (hS.pe h1 w1 e1 hpc)
                    have hm2 := EmMono.updEm (({ s with emObjs := s.emObjs ++ [({ wid := w, script := (alookup w s.emitScripts).getD [] } : EmObj)] } : State).spawn ("E" ++ toString w) (.emitter s.emObjs.length)).1 s.emObjs.length
                      (fun o => { o with started := true, tidx := some (({ s with emObjs := s.emObjs ++ [({ wid := w, script := (alookup w s.emitScripts).getD [] } : EmObj)] } : State).spawn ("E" ++ toString w) (.emitter s.emObjs.length)).2 }) (fun o hh => hh) (fun o _ => rfl)
                    obtain ⟨y', hy', hs', _⟩ := hm2 e1 y hy
                    exact ⟨y', hy', hal.imp hs' (fun z => by rw [updEm_regEm]; exact z)⟩
                refine GX.closeUpd (t := t) hG2 ?_ _ rfl ?_ (fun h1 w1 e1 hpc => Or.inl (hS2.pe h1 w1 e1 hpc)) ?_
                · rw [updEm_thread?]; exact spawn_thread? _ _ ht
                · refine TG.atCb hM hS2 _ rfl (by simp) (by simp) ?_ (by simp) (by simp) (by simp)
                  intro h1 w1 e1 hpc
                  cases hpc
                  refine ⟨({ wid := w, script := (alookup w s.emitScripts).getD [], started := true, tidx := some s.threads.length } : EmObj), ?_⟩
                  rw [em?_updEm]; simp [spawn_em?, hnew]
                · intro e1 hx
                  subst hx
                  exact ⟨h0, w, rfl⟩
            · refine ih.sfin _ _ _ _ _ _ _ h ht ⟨fault, hc⟩ (hL.frame rfl rfl rfl rfl) hM ?_ ?_ hG1 ⟨_, hnew⟩
              · intro hk hSent; exact hS.sq hk hSent
              · intro h1 w1 e1 hpc; exact Or.inr (hR1.am e1 (hS.pe h1 w1 e1 hpc))
      · -- unschedule
        rename_i w
        have hns : ∀ (r : String) (s0 : State), (r = "ok" → t.cur = some Op.stop → Sent s0.hist) := by
          intro r s0 _ hcs; rw [hc] at hcs; cases hcs
        split at h
        · exact ih.fin _ _ _ _ _ h (by thr) hL.release (notok (by decide)) (hns _ _) hM hS.release hG.release
        · split at h
          · exact ih.fin _ _ _ _ _ h (by thr) hL.release (notok (by decide)) (hns _ _) hM hS.release hG.release
          · rename_i e he hnone
            have hL2 : LX ((({ s with handlers := aerase w s.handlers, regEm := s.regEm.filter (· != e) } : State).log (.unregW w)).updEm e (fun o => { o with stopped := true })) ti (idepth t + 1) :=
              LX.frame (hL.hist_step (o := .unregW w) (s' := (({ s with handlers := aerase w s.handlers, regEm := s.regEm.filter (· != e) } : State).log (.unregW w))) rfl rfl rfl rfl trivial (Or.inl rfl))
                (by simp) (by simp) (by simp) (by simp)
            have hreg : ∀ h', registered ((({ s with handlers := aerase w s.handlers, regEm := s.regEm.filter (· != e) } : State).log (.unregW w)).updEm e (fun o => { o with stopped := true })).hist h' w = false := by
              intro h'; simp [registered_snoc, regStep]
            have hG2 := hG.unregStop e (({ s with handlers := aerase w s.handlers, regEm := s.regEm.filter (· != e) } : State).log (.unregW w))
              rfl rfl rfl rfl rfl rfl rfl (.unregW w) rfl rfl (by simp [GoodAtS])
            obtain ⟨o0, ho0⟩ := emitterOf_exists he
            have hst2 : Stopped ((({ s with handlers := aerase w s.handlers, regEm := s.regEm.filter (· != e) } : State).log (.unregW w)).updEm e (fun o => { o with stopped := true })) e :=
              ⟨{ o0 with stopped := true }, by
                rw [em?_updEm]
                have : (({ s with handlers := aerase w s.handlers, regEm := s.regEm.filter (· != e) } : State).log (.unregW w)).em? e = some o0 := ho0
                simp [this], rfl⟩
            -- what the stepping thread knows, in the new state
            have hS2 : TS ((({ s with handlers := aerase w s.handlers, regEm := s.regEm.filter (· != e) } : State).log (.unregW w)).updEm e (fun o => { o with stopped := true })) t := by
              have hm : EmMono s ((({ s with handlers := aerase w s.handlers, regEm := s.regEm.filter (· != e) } : State).log (.unregW w)).updEm e (fun o => { o with stopped := true })) :=
                EmMono.updEm (({ s with handlers := aerase w s.handlers, regEm := s.regEm.filter (· != e) } : State).log (.unregW w)) e
                  (fun o => { o with stopped := true }) (fun _ _ => rfl) (fun _ hh => hh)
              refine ⟨fun hk hSent => ?_, fun h1 w1 e1 hpc => ?_⟩
              · rw [updEm_queue, updEm_hist] at *
                have hSent' : Sent s.hist := by
                  rcases (Sent_snoc _ _).mp hSent with hh | hh
                  · exact hh
                  · cases hh
                exact (hS.sq hk hSent').imp id (fun x => x.mono (KP.of_eq (by rw [updEm_threads]; rfl)))
              · obtain ⟨y, hy, hal⟩ := hS.pe h1 w1 e1 hpc
                by_cases hx : e1 = e
                · subst hx
                  obtain ⟨y', hy', hs'⟩ := hst2
                  exact ⟨y', hy', Or.inl hs'⟩
                · obtain ⟨y', hy', hs', _⟩ := hm e1 y hy
                  refine ⟨y', hy', hal.imp hs' (fun z => ?_)⟩
                  rw [updEm_regEm]
                  show e1 ∈ s.regEm.filter (· != e)
                  simp [List.mem_filter, z, hx]
            split at h
            · cases h
              refine hG2.closeUpd (by thr) _ rfl (TG.atCb hM hS2 _ rfl ?_ (by simp) (by simp) (by simp) (by simp) (by simp))
                (fun h1 w1 e1 hp => Or.inl (hS2.pe h1 w1 e1 hp)) (fun _ hx => hx.elim)
              intro w' e' hpc; cases hpc; exact hst2
            · exact ih.ufin _ _ _ _ _ h (by thr) hc hreg hL2 hM hS2 hG2
      · -- addHandler
        rename_i h0 w
        refine ih.fin _ _ _ _ _ h (by thr) ?_ ?_ ?_ hM ?_ ?_
        · exact LX.release (hL.hist_step (o := .reg h0 w) rfl rfl rfl rfl trivial (Or.inr (Nat.succ_pos _)))
        · intro _ op' hc' h' w' hr; rw [hc] at hc'; cases hc'; simp [removes] at hr
        · intro _ hcs; rw [hc] at hcs; cases hcs
        · exact TS.release (hS.frameLog rfl rfl rfl rfl (.reg h0 w) rfl rfl)
        · exact GX.release (hG.frameLog rfl rfl rfl rfl rfl rfl rfl (.reg h0 w) rfl rfl (by simp [GoodAtS]))
      · -- removeHandler
        rename_i h0 w
        have hns : ∀ (r : String) (s0 : State), (r = "ok" → t.cur = some Op.stop → Sent s0.hist) := by
          intro r s0 _ hcs; rw [hc] at hcs; cases hcs
        split at h
        · refine ih.fin _ _ _ _ _ h (by thr) ?_ ?_ (hns _ _) hM ?_ ?_
          · exact LX.release (hL.hist_step (o := .unreg h0 w) rfl rfl rfl rfl trivial (Or.inl rfl))
          · intro _ op' hc' h' w' hr; rw [hc] at hc'; cases hc'
            simp [removes] at hr
            obtain ⟨e1, e2⟩ := hr; subst e1; subst e2
            simp [registered_snoc, regStep]
          · exact TS.release (hS.frameLog rfl rfl rfl rfl (.unreg h0 w) rfl rfl)
          · exact GX.release (hG.frameLog rfl rfl rfl rfl rfl rfl rfl (.unreg h0 w) rfl rfl (by simp [GoodAtS]))
        · exact ih.fin _ _ _ _ _ h (by thr) (LX.release (hL.frame rfl rfl rfl rfl)) (notok (by decide)) (hns _ _) hM
            (TS.release (hS.frame rfl rfl rfl rfl rfl))
            (GX.release (hG.frame rfl rfl rfl rfl rfl rfl rfl rfl))
      · exact ih.uab _ _ _ _ _ h ht (by simpa using hc) hL (fun hb => by cases hb) hM hS hG
      · exact ih.uab _ _ _ _ _ h ht (by simpa using hc) hL (fun _ => hst rfl) hM hS hG
      · cases h
    · -- schedFinish
      intro s ti h0 w e s' t h ht hc hL hM hsq hpe hG hex
      unfold schedFinishX at h
      try simp only [] at h
      have hmem : ∀ x, x ∈ ((s.regEm ++ [e]).mergeSort (fun a b =>
          ((s.em? a).map (·.wid)).getD 0 ≤ ((s.em? b).map (·.wid)).getD 0)) ↔ (x ∈ s.regEm ∨ x = e) := by
        intro x; rw [List.mem_mergeSort]; simp
      have hno : ∀ (j : Nat) (tj : Thread), j ≠ ti → s.threads[j]? = some tj → ∀ es fs, tj.pc ≠ .uallJoin es fs := by
        intro j tj hj hjt es fs hp
        have hz := hL.others_idle (Nat.succ_pos _) hj hjt
        have := depth_zero_holds hz
        rw [hp] at this; cases this
      have hG1 := hG.addReg e hex
        (({ s with regEm := (s.regEm ++ [e]).mergeSort (fun a b => ((s.em? a).map (·.wid)).getD 0 ≤ ((s.em? b).map (·.wid)).getD 0),
                   handlers := ainsert w (insertSorted h0 (s.handlersOf w)) s.handlers,
                   watches := insertSorted w s.watches } : State).log (.reg h0 w))
        rfl rfl rfl hmem rfl rfl rfl (.reg h0 w) rfl rfl (by simp [GoodAtS]) hno
      refine ih.fin _ _ _ _ _ h (by thr) ?_ ?_ ?_ hM ?_ (GX.release hG1)
      · exact LX.release (hL.hist_step (o := .reg h0 w) rfl rfl rfl rfl trivial (Or.inr (Nat.succ_pos _)))
      · obtain ⟨f, hc⟩ := hc
        intro _ op' hc' h' w' hr; rw [hc] at hc'; cases hc'; simp [removes] at hr
      · obtain ⟨f, hc⟩ := hc
        intro _ hcs; rw [hc] at hcs; cases hcs
      · apply TS.release
        refine ⟨fun hk hSent => ?_, fun h1 w1 e1 hpc => ?_⟩
        · have hSent' : Sent s.hist := by
            have hS' : Sent (s.hist ++ [.reg h0 w]) := hSent
            rcases (Sent_snoc _ _).mp hS' with hh | hh
            · exact hh
            · cases hh
          exact hsq hk hSent'
        · rcases hpe h1 w1 e1 hpc with hx | hx
          · subst hx
            obtain ⟨y, hy⟩ := hex
            exact ⟨y, hy, Or.inr ((hmem e1).mpr (Or.inr rfl))⟩
          · obtain ⟨y, hy, hal⟩ := hx
            exact ⟨y, hy, hal.imp id (fun z => (hmem e1).mpr (Or.inl z))⟩
    · -- unschedFinish
      intro s ti w s' t h ht hc hreg hL hM hS hG
      unfold unschedFinishX at h
      try simp only [] at h
      have hns : ∀ (r : String) (s0 : State), (r = "ok" → t.cur = some Op.stop → Sent s0.hist) := by
        intro r s0 _ hcs; rw [hc] at hcs; cases hcs
      split at h
      · refine ih.fin _ _ _ _ _ h (by thr) (LX.release (hL.frame rfl rfl rfl rfl)) ?_ (hns _ _) hM
          (TS.release (hS.frame rfl rfl rfl rfl rfl)) (GX.release (hG.frame rfl rfl rfl rfl rfl rfl rfl rfl))
        intro _ op' hc' h' w' hr; rw [hc] at hc'; cases hc'
        simp [removes] at hr; subst hr
        simpa using hreg h'
      · exact ih.fin _ _ _ _ _ h (by thr) hL.release (notok (by decide)) (hns _ _) hM hS.release hG.release
    · -- uallBody
      intro s ti b s' t h ht hc hL hst hM hS hG
      unfold uallBodyX at h
      try simp only [] at h
      have hG1 : GX (({ s with handlers := [] } : State).log .unregAll) ti NoX :=
        hG.frameLog rfl rfl rfl rfl rfl rfl rfl .unregAll rfl rfl (by simp [GoodAtS])
      have hS1 : TS (({ s with handlers := [] } : State).log .unregAll) t := hS.frameLog rfl rfl rfl rfl .unregAll rfl rfl
      have hmono := foldStop_mono (({ s with handlers := [] } : State).log .unregAll) (({ s with handlers := [] } : State).log .unregAll).regEm
      have hall : ∀ e ∈ ((({ s with handlers := [] } : State).log .unregAll).regEm.foldl (fun acc e => acc.updEm e (fun o => { o with stopped := true })) (({ s with handlers := [] } : State).log .unregAll)).regEm,
          Stopped ((({ s with handlers := [] } : State).log .unregAll).regEm.foldl (fun acc e => acc.updEm e (fun o => { o with stopped := true })) (({ s with handlers := [] } : State).log .unregAll)) e := by
        intro e he
        rw [foldUpdEm_regEm] at he
        exact foldStop_stopped _ _ e he (hG1.sg.reg e he)
      refine ih.uajn _ _ _ _ _ _ h ?_ hc ?_ ?_ ?_ hM ?_ ?_ hall hall
      · rw [foldUpdEm_thread?]; exact ht
      · intro h' w'; rw [foldUpdEm_hist]; simp [registered_snoc, regStep]
      · apply LX.foldUpdEm
        exact hL.hist_step (o := .unregAll) rfl rfl rfl rfl trivial (Or.inl rfl)
      · intro hb
        have := hst hb
        have hfs : ∀ (l : List Eid) (s0 : State), (l.foldl (fun acc e => acc.updEm e (fun o => { o with stopped := true })) s0).stoppedD = s0.stoppedD := by
          intro l
          induction l with
          | nil => intro s0; rfl
          | cons x l ihl => intro s0; simp only [List.foldl_cons]; rw [ihl, updEm_stoppedD]
        rw [hfs]; exact this
      · -- what the stepping thread knows survives the stop flags
        have hfq : ∀ (l : List Eid) (s0 : State), (l.foldl (fun acc e => acc.updEm e (fun o => { o with stopped := true })) s0).queue = s0.queue := by
          intro l
          induction l with
          | nil => intro s0; rfl
          | cons x l ihl => intro s0; simp only [List.foldl_cons]; rw [ihl, updEm_queue]
        have hft : ∀ (l : List Eid) (s0 : State), (l.foldl (fun acc e => acc.updEm e (fun o => { o with stopped := true })) s0).threads = s0.threads := by
          intro l
          induction l with
          | nil => intro s0; rfl
          | cons x l ihl => intro s0; simp only [List.foldl_cons]; rw [ihl, updEm_threads]
        refine ⟨fun hk hSent => ?_, fun h1 w1 e1 hpc => ?_⟩
        · rw [hfq, foldUpdEm_hist] at *
          exact (hS1.sq hk hSent).imp id (fun x => x.mono (KP.of_eq (hft _ _)))
        · obtain ⟨y, hy, hal⟩ := hS1.pe h1 w1 e1 hpc
          obtain ⟨y', hy', hs', _⟩ := hmono e1 y hy
          exact ⟨y', hy', hal.imp hs' (fun z => by rw [foldUpdEm_regEm]; exact z)⟩
      · exact GX.foldUpdEm hG1 _ _ (fun o _ => rfl) (fun o => rfl)
    · -- uallJoinNext
      intro s ti es b s' t h ht hc hreg hL hst hM hS hG hes hall
      unfold uallJoinNextX at h
      try simp only [] at h
      split at h
      · split at h
        · cases h
          refine hG.closeUpd ht _ rfl (TG.atCb hM hS _ rfl (by simp) ?_ (by simp) (by simp) ?_ ?_)
            (fun h1 w1 e1 hp => Or.inl (hS.pe h1 w1 e1 hp)) (fun _ hx => hx.elim)
          · intro es' fs' hpc e he; cases hpc; exact hes e he
          · intro es' fs' _; exact hall
          · intro es' hpc; cases hpc; exact hst rfl
        · rename_i e rest _
          exact ih.uajn _ _ _ _ _ _ h ht hc hreg hL hst hM hS hG (fun x hx => hes x (List.mem_cons_of_mem _ hx)) hall
      · have hL1 : LX ({ s with regEm := [], watches := [] } : State).release ti (idepth t) :=
          LX.release (hL.frame rfl rfl rfl rfl)
        have hG1 : GX ({ s with regEm := [], watches := [] } : State).release ti NoX := GX.release (hG.clearReg hall)
        have ht1 : ({ s with regEm := [], watches := [] } : State).release.thread? ti = some t := by thr
        have hreg1 : ∀ h' w', registered ({ s with regEm := [], watches := [] } : State).release.hist h' w' = false := by
          intro h' w'; simpa using hreg h' w'
        have hS1 : TS ({ s with regEm := [], watches := [] } : State).release t := by
          apply TS.release
          refine ⟨fun hk hSent => hS.sq hk hSent, fun h1 w1 e1 hpc => ?_⟩
          obtain ⟨y, hy, hal⟩ := hS.pe h1 w1 e1 hpc
          rcases hal with hal | hal
          · exact ⟨y, hy, Or.inl hal⟩
          · obtain ⟨y', hy', hs'⟩ := hall e1 hal
            exact ⟨y', hy', Or.inl hs'⟩
        have hst1 : b = true → ({ s with regEm := [], watches := [] } : State).release.stoppedD = true := by
          intro hb; have := hst hb
          unfold State.release; split <;> exact this
        generalize ({ s with regEm := [], watches := [] } : State).release = s1 at h hL1 ht1 hreg1 hG1 hS1 hst1
        split at h
        · rename_i hb
          obtain ⟨t', ht', e1, e2, e3, e4⟩ := putItem_thread? (fun _ => QItem.stop) (fun _ => Obs.enqStop) Obs.dropStop ht1
          have hi : idepth t' = idepth t := by simp [idepth, e2]
          have hG2 := hG1.putItem (fun _ => QItem.stop) (fun _ => Obs.enqStop) Obs.dropStop (fun p u => ⟨by simp [GoodAtS], by simp [GoodAtS]⟩)
            (Or.inr ⟨fun _ => rfl, hst1 hb⟩)
          refine ih.fin _ _ _ _ _ h ht' ?_ ?_ (fun _ _ => putStop_sent s1) (hM.same e4 e2) ?_ hG2
          · rw [hi]; exact hL1.putItem _ _ _ rfl rfl trivial trivial
          · intro _ op' hc' h' w' hr
            rw [putItem_registered _ _ _ _ rfl rfl]; exact hreg1 h' w'
          · obtain ⟨hm, hkp, ham⟩ := Rel.putItem s1 (fun _ => QItem.stop) (fun _ => Obs.enqStop) Obs.dropStop
            refine ⟨fun _ _ => Or.inl (putStop_mem hG1.sg.l1), fun h1 w1 x hpc => ?_⟩
            rw [e1] at hpc
            exact ham x (hS1.pe h1 w1 x hpc)
        · refine ih.fin _ _ _ _ _ h ht1 hL1 ?_ ?_ hM hS1 hG1
          · intro _ op' hc' h' w' hr; exact hreg1 h' w'
          · rename_i hb
            intro _ hcs
            rw [hc] at hcs
            cases b <;> simp at hcs hb
    · -- startEmitters
      intro s ti es s' t h ht hc hL hM hS hG hes
      unfold startEmittersX at h
      try simp only [] at h
      split at h
      · split at h
        · cases h
          rename_i _ e rest _ o ho
          have ha := hes e (List.mem_cons_self ..)
          have hG2 := hG.linkEm (t := t) ht ("E" ++ toString o.wid) e (by
            obtain ⟨y, hy, hal⟩ := ha
            exact ⟨y, hy, hal.imp id Or.inl⟩)
          have hR : ∀ x, AliveOk s x → AliveOk ((s.spawn ("E" ++ toString o.wid) (.emitter e)).1.updEm e (fun o' => { o' with started := true, tidx := some (s.spawn ("E" ++ toString o.wid) (.emitter e)).2 })) x := by
            rintro x ⟨y, hy, hal⟩
            have hm2 := EmMono.updEm (s.spawn ("E" ++ toString o.wid) (.emitter e)).1 e
              (fun o' => { o' with started := true, tidx := some (s.spawn ("E" ++ toString o.wid) (.emitter e)).2 }) (fun _ hh => hh) (fun _ _ => rfl)
            obtain ⟨y', hy', hs', _⟩ := hm2 x y hy
            exact ⟨y', hy', hal.imp hs' (fun z => by rw [updEm_regEm]; exact z)⟩
          have hS2 : TS ((s.spawn ("E" ++ toString o.wid) (.emitter e)).1.updEm e (fun o' => { o' with started := true, tidx := some (s.spawn ("E" ++ toString o.wid) (.emitter e)).2 })) t := by
            refine ⟨fun hk hSent => ?_, fun h1 w1 x hpc => hR x (hS.pe h1 w1 x hpc)⟩
            rw [updEm_queue, updEm_hist] at *
            exact (hS.sq hk hSent).imp id (fun x => x.mono (KP.trans (KP.spawn _ _ _) (KP.of_eq (updEm_threads _ _ _))))
          refine GX.closeUpd (t := t) hG2 ?_ _ rfl ?_ (fun h1 w1 x hp => Or.inl (hS2.pe h1 w1 x hp)) (fun _ hx => hx.elim)
          · rw [updEm_thread?]; exact spawn_thread? _ _ ht
          · refine TG.atCb hM hS2 _ rfl (by simp) (by simp) (by simp) ?_ (by simp) (by simp)
            intro es' hpc x hx
            cases hpc
            exact hR x (hes x (List.mem_cons_of_mem _ hx))
        · cases h
      · cases h
        have hS2 : TS ({ (s.spawn "D" .dispatcher).1 with dIdx := some (s.spawn "D" .dispatcher).2 } : State) t :=
          ⟨fun hk hSent => (hS.sq hk hSent).imp id (fun x => x.mono (KP.trans (KP.spawn s "D" .dispatcher) (KP.of_eq rfl))),
           fun h1 w1 x hpc => hS.pe h1 w1 x hpc⟩
        refine GX.closeUpd (t := t) hG.spawnD (spawn_thread? "D" .dispatcher ht) _ rfl ?_
          (fun h1 w1 x hp => Or.inl (hS2.pe h1 w1 x hp)) (fun _ hx => hx.elim)
        exact TG.atCb hM hS2 _ rfl (by simp) (by simp) (by simp) (by simp) (by simp) (by simp)
    · -- continueIter
      intro s ti s' t h ht hL hM hS hG
      unfold continueIterX at h
      simp only [ht] at h
      split at h
      · cases h
      · rename_i u w v hit
        have hi : idepth t = 1 := by simp [idepth, hit]
        have hk : t.kind = .dispatcher := hM.it (by simp [hit])
        refine (gpass_d ti n).1 _ _ { t with iter := none } h ?_ hk rfl ?_ (Or.inr ?_) ?_
        · rw [release_thread?]; exact setThread_thread?_self _ (by thr)
        · intro h1 w1 x hpc
          have := hS.pe h1 w1 x hpc
          exact (Rel.release _).am x ((Rel.setThread (t := t) (by thr) _ rfl).am x ((Rel.log s _ rfl).am x this))
        · intro hSent
          have hS3 := (hS.frameLog (s' := s.log (.dispatchEnd u)) rfl rfl rfl rfl (.dispatchEnd u) rfl rfl)
          have hS4 : TS ((s.log (.dispatchEnd u)).setThread ti { t with iter := none }) t :=
            hS3.rel (Rel.setThread (t := t) (by thr) _ rfl) rfl rfl
          exact hS4.release.sq hk hSent
        · exact GX.release ((hG.log _ rfl (by simp [GoodAtS])).setThreadMine (t := t) (by thr) _ rfl rfl)
      · rename_i u w v h0 rest hit
        have hi : idepth t = 1 := by simp [idepth, hit]
        rw [hi] at hL
        have hL0 : LX (if (alookup w s.handlers).isNone then ({ s with handlers := ainsert w [] s.handlers } : State) else s) ti 1 := by
          split
          · exact hL.frame rfl rfl rfl rfl
          · exact hL
        have hG0 : GX (if (alookup w s.handlers).isNone then ({ s with handlers := ainsert w [] s.handlers } : State) else s) ti NoX := by
          split
          · exact hG.frame rfl rfl rfl rfl rfl rfl rfl rfl
          · exact hG
        have hS0 : TS (if (alookup w s.handlers).isNone then ({ s with handlers := ainsert w [] s.handlers } : State) else s) t := by
          split
          · exact hS.frame rfl rfl rfl rfl rfl
          · exact hS
        have ht0 : (if (alookup w s.handlers).isNone then ({ s with handlers := ainsert w [] s.handlers } : State) else s).thread? ti = some t := by
          split <;> exact ht
        generalize (if (alookup w s.handlers).isNone then ({ s with handlers := ainsert w [] s.handlers } : State) else s) = s0 at h hL0 ht0 hG0 hS0
        have hM' : ∀ (t' : Thread), t'.kind = t.kind → t'.iter = some (u, w, v, rest) → TM t' := by
          intro t' hk' hi'
          exact ⟨fun e => by rw [hk']; exact hM.ne e, fun _ => by rw [hk']; exact hM.it (by simp [hit]),
                 fun _ => by simp [hi']⟩
        split at h
        · refine ih.nxt _ _ _ _ h (setThread_thread?_self (t := t) _ (by rw [log_thread?]; exact ht0)) ?_ (hM' _ rfl rfl) ?_ ?_
          · exact (LX.log (s := { s0 with invoc := ainsert h0 ((alookup h0 s0.invoc).getD 0 + 1) s0.invoc }) (hL0.frame rfl rfl rfl rfl) (.call h0 w v u) trivial (Or.inl rfl)).setThreadMine _
          · exact (hS0.frameLog (s' := ({ s0 with invoc := ainsert h0 ((alookup h0 s0.invoc).getD 0 + 1) s0.invoc } : State).log (.call h0 w v u)) rfl rfl rfl rfl (.call h0 w v u) rfl rfl).rel
              (Rel.setThread (t := t) (by rw [log_thread?]; exact ht0) _ rfl) rfl rfl
          · exact (hG0.frameLog (s' := ({ s0 with invoc := ainsert h0 ((alookup h0 s0.invoc).getD 0 + 1) s0.invoc } : State).log (.call h0 w v u))
              rfl rfl rfl rfl rfl rfl rfl (.call h0 w v u) rfl rfl (by simp [GoodAtS])).setThreadMine (t := t) (by rw [log_thread?]; exact ht0) _ rfl rfl
        · refine ih.cit _ _ _ _ h (setThread_thread?_self _ (by simpa using ht0)) ?_ (hM' _ rfl rfl) ?_ ?_
          · exact (hL0.log (.skip h0 u) trivial (Or.inl rfl)).setThreadMine _
          · exact (hS0.frameLog (s' := s0.log (.skip h0 u)) rfl rfl rfl rfl (.skip h0 u) rfl rfl).rel
              (Rel.setThread (t := t) (by simpa using ht0) _ rfl) rfl rfl
          · exact (hG0.log _ rfl (by simp [GoodAtS])).setThreadMine (t := t) (by simpa using ht0) _ rfl rfl

end WD.ProofsObs
