/- lock discipline and "a removing call returns only when its handlers are unregistered" -/
import WD.Proofs.Observer.ModelXEq
set_option linter.unusedSimpArgs false
set_option linter.unusedVariables false
namespace WD.ProofsObs
open WD WD.Obs

def holdsPc : Pc → Bool
  | .schedStarted .. => true
  | .unschedJoin .. => true
  | .uallJoin .. => true
  | _ => false

def idepth (t : Thread) : Nat := if t.iter.isSome then 1 else 0
def depth (t : Thread) : Nat := (if holdsPc t.pc then 1 else 0) + idepth t

/-- what the program counter says about the call in progress (and, inside a join, about the registry) -/
def CurOK (hist : List Obs) : Pc → Option Op → Prop
  | .acq op, c => c = some op
  | .schedStarted h w _, c => ∃ f, c = some (.schedule h w f)
  | .unschedJoin w _, c => c = some (.unschedule w) ∧ ∀ h, registered hist h w = false
  | .uallJoin _ fs, c => c = some (if fs then .stop else .unscheduleAll) ∧ ∀ h w, registered hist h w = false
  | .startEm _, c => c = some .start
  | .startD, c => c = some .start
  | .joinD, c => c = some .join
  | _, _ => True

def noReg (o : Obs) : Bool := match o with | .reg .. => false | _ => true

theorem regStep_noReg {o : Obs} (ho : noReg o = true) (h : Hid) (w : Wid) : regStep h w false o = false := by
  cases o <;> simp_all [noReg, regStep]

theorem CurOK.mono_noReg {hist : List Obs} {o : Obs} {pc : Pc} {c : Option Op} (ho : noReg o = true)
    (h : CurOK hist pc c) : CurOK (hist ++ [o]) pc c := by
  cases pc <;> simp only [CurOK] at h ⊢ <;> try exact h
  · refine ⟨h.1, fun h' => ?_⟩
    rw [registered_snoc, h.2 h']; exact regStep_noReg ho _ _
  · refine ⟨h.1, fun h' w' => ?_⟩
    rw [registered_snoc, h.2 h' w']; exact regStep_noReg ho _ _

theorem CurOK.of_not_holds {hist hist' : List Obs} {pc : Pc} {c : Option Op} (hp : holdsPc pc = false)
    (h : CurOK hist pc c) : CurOK hist' pc c := by
  cases pc <;> simp_all [CurOK, holdsPc]

structure TQ (s : State) (j : Nat) (t : Thread) : Prop where
  lock : 0 < depth t → s.lockOwner = some j ∧ s.lockCount = depth t
  cur : CurOK s.hist t.pc t.cur

def GoodAtL (p : List Obs) : Obs → Prop
  | .did op res => res = "ok" → ∀ h w, removes op h w = true → registered p h w = false
  | _ => True

/-- the invariant while thread `ti` is in the middle of a step, holding the lock `d` times -/
structure LX (s : State) (ti : Nat) (d : Nat) : Prop where
  good : Good GoodAtL s.hist
  others : ∀ (j : Nat) (t : Thread), j ≠ ti → s.threads[j]? = some t → TQ s j t
  mine : (d = 0 → s.lockOwner ≠ some ti) ∧ (0 < d → s.lockOwner = some ti ∧ s.lockCount = d)
  own : ∀ j : Nat, j ≠ ti → s.lockOwner = some j → ∃ t, s.threads[j]? = some t ∧ 0 < depth t

/-- the invariant between steps -/
structure LQ (s : State) : Prop where
  good : Good GoodAtL s.hist
  thr : ∀ (j : Nat) (t : Thread), s.threads[j]? = some t → TQ s j t
  own : ∀ j : Nat, s.lockOwner = some j → ∃ t, s.threads[j]? = some t ∧ 0 < depth t

theorem LX.others_idle {s : State} {ti d : Nat} (hL : LX s ti d) (hd : 0 < d) {j : Nat} {t : Thread}
    (hj : j ≠ ti) (ht : s.threads[j]? = some t) : depth t = 0 := by
  cases hdt : depth t with
  | zero => rfl
  | succ n =>
    have h1 := ((hL.others j t hj ht).lock (by omega)).1
    have h2 := (hL.mine.2 hd).1
    rw [h1] at h2; cases h2; exact absurd rfl hj

theorem depth_zero_holds {t : Thread} (h : depth t = 0) : holdsPc t.pc = false := by
  unfold depth at h
  cases hp : holdsPc t.pc <;> simp_all

theorem LX.frame {s s' : State} {ti d : Nat} (hL : LX s ti d) (hh : s'.hist = s.hist) (ht : s'.threads = s.threads)
    (hlo : s'.lockOwner = s.lockOwner) (hlc : s'.lockCount = s.lockCount) : LX s' ti d := by
  constructor
  · rw [hh]; exact hL.good
  · intro j t hj hjt
    rw [ht] at hjt
    have := hL.others j t hj hjt
    exact ⟨by rw [hlo, hlc]; exact this.lock, by rw [hh]; exact this.cur⟩
  · rw [hlo, hlc]; exact hL.mine
  · rw [hlo, ht]; exact hL.own

theorem LX.hist_step {s s' : State} {ti d : Nat} {o : Obs} (hL : LX s ti d) (hh : s'.hist = s.hist ++ [o])
    (ht : s'.threads = s.threads) (hlo : s'.lockOwner = s.lockOwner) (hlc : s'.lockCount = s.lockCount)
    (hg : GoodAtL s.hist o) (ho : noReg o = true ∨ 0 < d) : LX s' ti d := by
  constructor
  · rw [hh]; exact hL.good.snoc hg
  · intro j t hj hjt
    rw [ht] at hjt
    have := hL.others j t hj hjt
    refine ⟨by rw [hlo, hlc]; exact this.lock, ?_⟩
    rw [hh]
    rcases ho with ho | ho
    · exact this.cur.mono_noReg ho
    · exact this.cur.of_not_holds (depth_zero_holds (hL.others_idle ho hj hjt))
  · rw [hlo, hlc]; exact hL.mine
  · rw [hlo, ht]; exact hL.own

theorem LX.log {s : State} {ti d : Nat} (hL : LX s ti d) (o : Obs) (hg : GoodAtL s.hist o)
    (ho : noReg o = true ∨ 0 < d) : LX (s.log o) ti d :=
  hL.hist_step rfl rfl rfl rfl hg ho

theorem getElem?_set_ne' {α : Type} (l : List α) (i j : Nat) (a : α) (h : j ≠ i) : (l.set i a)[j]? = l[j]? := by
  rw [List.getElem?_set]; simp [Ne.symm h]

theorem LX.setThreadMine {s : State} {ti d : Nat} (hL : LX s ti d) (t' : Thread) : LX (s.setThread ti t') ti d := by
  constructor
  · exact hL.good
  · intro j t hj hjt
    simp only [setThread_threads, getElem?_set_ne' _ _ _ _ hj] at hjt
    have := hL.others j t hj hjt
    exact ⟨this.lock, this.cur⟩
  · exact hL.mine
  · intro j hj hjo
    obtain ⟨t, h1, h2⟩ := hL.own j hj hjo
    exact ⟨t, by simp only [setThread_threads, getElem?_set_ne' _ _ _ _ hj]; exact h1, h2⟩

/-- an update of some thread (possibly `ti`) that keeps pc, iter and cur -/
theorem LX.updThread_same {s : State} {ti d : Nat} (hL : LX s ti d) (k : Nat) (f : Thread → Thread)
    (hf : ∀ t, (f t).pc = t.pc ∧ (f t).iter = t.iter ∧ (f t).cur = t.cur) : LX (s.updThread k f) ti d := by
  rw [updThread_eq]
  split
  · rename_i tk htk
    constructor
    · exact hL.good
    · intro j t hj hjt
      simp only [setThread_threads, List.getElem?_set] at hjt
      split at hjt
      · split at hjt
        · cases hjt
          rename_i hkj _
          subst hkj
          have := hL.others k tk hj htk
          obtain ⟨h1, h2, h3⟩ := hf tk
          refine ⟨?_, ?_⟩
          · have hd : depth (f tk) = depth tk := by simp [depth, idepth, h1, h2]
            rw [hd]; exact this.lock
          · show CurOK s.hist (f tk).pc (f tk).cur
            rw [h1, h3]; exact this.cur
        · cases hjt
      · have := hL.others j t hj hjt
        exact ⟨this.lock, this.cur⟩
    · exact hL.mine
    · intro j hj hjo
      obtain ⟨t, h1, h2⟩ := hL.own j hj hjo
      simp only [setThread_threads, List.getElem?_set]
      split
      · rename_i hkj
        subst hkj
        rw [htk] at h1; cases h1
        obtain ⟨e1, e2, e3⟩ := hf tk
        have hlt : k < s.threads.length := by
          have := List.getElem?_eq_some_iff.mp htk; exact this.1
        refine ⟨f tk, by simp [hlt], ?_⟩
        have hd : depth (f tk) = depth tk := by simp [depth, idepth, e1, e2]
        rw [hd]; exact h2
      · exact ⟨t, h1, h2⟩
  · exact hL

theorem LX.release {s : State} {ti k : Nat} (hL : LX s ti (k + 1)) : LX s.release ti k := by
  obtain ⟨ho, hc⟩ := hL.mine.2 (Nat.succ_pos k)
  unfold State.release
  split
  · rename_i hle
    have hk : k = 0 := by omega
    subst hk
    constructor
    · exact hL.good
    · intro j t hj hjt
      have hz := hL.others_idle (Nat.succ_pos 0) hj hjt
      have := hL.others j t hj hjt
      exact ⟨fun h => by omega, this.cur⟩
    · exact ⟨fun _ h => (by cases h), fun h => (by omega)⟩
    · intro j hj hjo; cases hjo
  · rename_i hle
    constructor
    · exact hL.good
    · intro j t hj hjt
      have hz := hL.others_idle (Nat.succ_pos k) hj hjt
      have := hL.others j t hj hjt
      exact ⟨fun h => by omega, this.cur⟩
    · refine ⟨fun h => by omega, fun _ => ⟨ho, ?_⟩⟩
      show s.lockCount - 1 = k
      omega
    · exact hL.own

theorem LX.acquire {s : State} {ti d : Nat} (hL : LX s ti d) (ho : s.lockOwner = some ti) :
    LX { s with lockCount := s.lockCount + 1 } ti (d + 1) := by
  have hd : 0 < d := by
    cases d with
    | zero => exact absurd ho (hL.mine.1 rfl)
    | succ n => exact Nat.succ_pos n
  obtain ⟨_, hc⟩ := hL.mine.2 hd
  constructor
  · exact hL.good
  · intro j t hj hjt
    have hz := hL.others_idle hd hj hjt
    have := hL.others j t hj hjt
    exact ⟨fun h => by omega, this.cur⟩
  · refine ⟨fun h => by omega, fun _ => ⟨ho, ?_⟩⟩
    show s.lockCount + 1 = d + 1
    omega
  · exact hL.own

theorem LX.spawn {s : State} {ti d : Nat} (hL : LX s ti d) (b : String) (k : Kind) : LX (s.spawn b k).1 ti d := by
  obtain ⟨nm, hnm⟩ := spawn_threads s b k
  constructor
  · exact hL.good
  · intro j t hj hjt
    rw [hnm, List.getElem?_append] at hjt
    split at hjt
    · have := hL.others j t hj hjt
      exact ⟨this.lock, this.cur⟩
    · rw [List.getElem?_singleton] at hjt
      split at hjt
      · cases hjt
        refine ⟨fun h => ?_, ?_⟩
        · simp [depth, idepth, holdsPc] at h
        · simp [CurOK]
      · cases hjt
  · exact hL.mine
  · intro j hj hjo
    obtain ⟨t, h1, h2⟩ := hL.own j hj hjo
    refine ⟨t, ?_, h2⟩
    have := (List.getElem?_eq_some_iff.mp h1).1
    rw [hnm, List.getElem?_append_left this]; exact h1

theorem spawn_thread? {s : State} {ti : Nat} {t : Thread} (b : String) (k : Kind) (ht : s.thread? ti = some t) :
    (s.spawn b k).1.thread? ti = some t := by
  obtain ⟨nm, hnm⟩ := spawn_threads s b k
  show (s.spawn b k).1.threads[ti]? = some t
  have ht' : s.threads[ti]? = some t := ht
  have := (List.getElem?_eq_some_iff.mp ht').1
  rw [hnm, List.getElem?_append_left this]; exact ht'

theorem setThread_thread?_self {s : State} {ti : Nat} {t : Thread} (t' : Thread) (ht : s.thread? ti = some t) :
    (s.setThread ti t').thread? ti = some t' := by
  show (s.threads.set ti t')[ti]? = some t'
  have ht' : s.threads[ti]? = some t := ht
  have := (List.getElem?_eq_some_iff.mp ht').1
  simp [this]

theorem LX.close {s : State} {ti d : Nat} {t : Thread} (hL : LX s ti d) (ht : s.thread? ti = some t) (t' : Thread)
    (hd : depth t' = d) (hc : CurOK s.hist t'.pc t'.cur) : LQ (s.setThread ti t') := by
  have ht' : s.threads[ti]? = some t := ht
  have hlt := (List.getElem?_eq_some_iff.mp ht').1
  constructor
  · exact hL.good
  · intro j tj hj
    simp only [setThread_threads, List.getElem?_set] at hj
    split at hj
    · rename_i e; subst e
      simp [hlt] at hj; subst hj
      refine ⟨fun h => ?_, hc⟩
      rw [hd] at h ⊢
      exact hL.mine.2 h
    · rename_i e
      have := hL.others j tj (fun e' => e e'.symm) hj
      exact ⟨this.lock, this.cur⟩
  · intro j hjo
    by_cases e : j = ti
    · subst e
      refine ⟨t', by simp [hlt], ?_⟩
      rw [hd]
      cases d with
      | zero => exact absurd hjo (hL.mine.1 rfl)
      | succ n => exact Nat.succ_pos n
    · obtain ⟨tj, h1, h2⟩ := hL.own j e hjo
      exact ⟨tj, by simp only [setThread_threads, getElem?_set_ne' _ _ _ _ e]; exact h1, h2⟩

theorem LX.closeUpd {s : State} {ti d : Nat} {t : Thread} (hL : LX s ti d) (ht : s.thread? ti = some t)
    (f : Thread → Thread) (hd : depth (f t) = d) (hc : CurOK s.hist (f t).pc (f t).cur) : LQ (s.updThread ti f) := by
  have ht' : s.threads[ti]? = some t := ht
  rw [updThread_eq, ht']
  exact hL.close ht _ hd hc

theorem LQ.open {s : State} (hQ : LQ s) {ti : Nat} {t : Thread} (ht : s.thread? ti = some t) : LX s ti (depth t) := by
  have ht' : s.threads[ti]? = some t := ht
  constructor
  · exact hQ.good
  · intro j tj _ hj; exact hQ.thr j tj hj
  · refine ⟨fun h0 ho => ?_, fun h => (hQ.thr ti t ht').lock h⟩
    obtain ⟨t2, h1, h2⟩ := hQ.own ti ho
    rw [ht'] at h1; cases h1; omega
  · intro j _ hjo; exact hQ.own j hjo

theorem notif_same (t : Thread) : (notif t).pc = t.pc ∧ (notif t).iter = t.iter ∧ (notif t).cur = t.cur := by
  unfold notif; split <;> exact ⟨rfl, rfl, rfl⟩

theorem notif_kind (t : Thread) : (notif t).kind = t.kind := by
  unfold notif; split <;> rfl

theorem updThread_thread? {s : State} {ti : Nat} {t : Thread} (k : Nat) (f : Thread → Thread)
    (ht : s.thread? ti = some t) : (s.updThread k f).thread? ti = some (if k = ti then f t else t) := by
  have ht' : s.threads[ti]? = some t := ht
  have hlt := (List.getElem?_eq_some_iff.mp ht').1
  rw [updThread_eq]
  split
  · rename_i tk htk
    show (s.threads.set k (f tk))[ti]? = _
    rw [List.getElem?_set]
    split
    · rename_i e; subst e
      rw [ht'] at htk; cases htk
      simp [hlt]
    · exact ht'
  · rename_i htk
    split
    · rename_i e; subst e; rw [ht'] at htk; cases htk
    · exact ht

theorem putItem_thread? {s : State} {ti : Nat} {t : Thread} (mk : Nat → QItem) (onEnq : Nat → Obs) (onDrop : Obs)
    (ht : s.thread? ti = some t) : ∃ t', (s.putItem mk onEnq onDrop).thread? ti = some t' ∧
      t'.pc = t.pc ∧ t'.iter = t.iter ∧ t'.cur = t.cur ∧ t'.kind = t.kind := by
  rcases putItem_cases s mk onEnq onDrop with h | h | ⟨d, h⟩
  · rw [h]; exact ⟨t, ht, rfl, rfl, rfl, rfl⟩
  · rw [h]; exact ⟨t, ht, rfl, rfl, rfl, rfl⟩
  · rw [h]
    have hb : (putBase s (mk s.nextUid) (onEnq s.nextUid)).thread? ti = some t := ht
    refine ⟨_, updThread_thread? d notif hb, ?_⟩
    split
    · exact ⟨(notif_same t).1, (notif_same t).2.1, (notif_same t).2.2, notif_kind t⟩
    · exact ⟨rfl, rfl, rfl, rfl⟩

theorem LX.putItem {s : State} {ti d : Nat} (hL : LX s ti d) (mk : Nat → QItem) (onEnq : Nat → Obs) (onDrop : Obs)
    (h1 : noReg onDrop = true) (h2 : noReg (onEnq s.nextUid) = true) (g1 : GoodAtL s.hist onDrop)
    (g2 : GoodAtL s.hist (onEnq s.nextUid)) : LX (s.putItem mk onEnq onDrop) ti d := by
  have hb : LX (putBase s (mk s.nextUid) (onEnq s.nextUid)) ti d :=
    hL.hist_step (o := onEnq s.nextUid) rfl rfl rfl rfl g2 (Or.inl h2)
  rcases putItem_cases s mk onEnq onDrop with h | h | ⟨k, h⟩
  · rw [h]; exact hL.log _ g1 (Or.inl h1)
  · rw [h]; exact hb
  · rw [h]; exact hb.updThread_same k notif notif_same

theorem LX.foldUpdEm {s : State} {ti d : Nat} (hL : LX s ti d) (l : List Eid) (f : EmObj → EmObj) :
    LX (l.foldl (fun acc e => acc.updEm e f) s) ti d := by
  induction l generalizing s with
  | nil => exact hL
  | cons e l ih => exact ih (hL.frame (by simp) (by simp) (by simp) (by simp))

theorem foldUpdEm_thread? (s : State) (l : List Eid) (f : EmObj → EmObj) (ti : Nat) :
    (l.foldl (fun acc e => acc.updEm e f) s).thread? ti = s.thread? ti := by
  induction l generalizing s with
  | nil => rfl
  | cons e l ih => simp only [List.foldl_cons]; rw [ih]; simp

theorem foldUpdEm_hist (s : State) (l : List Eid) (f : EmObj → EmObj) :
    (l.foldl (fun acc e => acc.updEm e f) s).hist = s.hist := by
  induction l generalizing s with
  | nil => rfl
  | cons e l ih => simp only [List.foldl_cons]; rw [ih]; simp

theorem putItem_registered (s : State) (mk : Nat → QItem) (onEnq : Nat → Obs) (onDrop : Obs)
    (h1 : regGhost onDrop = false) (h2 : regGhost (onEnq s.nextUid) = false) (h : Hid) (w : Wid) :
    registered (s.putItem mk onEnq onDrop).hist h w = registered s.hist h w := by
  rcases putItem_cases s mk onEnq onDrop with e | e | ⟨d, e⟩
  · rw [e, log_hist, registered_snoc, regStep_neutral h1]
  · rw [e]; unfold putBase; rw [log_hist, registered_snoc, regStep_neutral h2]
  · rw [e, updThread_hist]; unfold putBase; rw [log_hist, registered_snoc, regStep_neutral h2]

/-- the raising callback / client: every `with self._lock` of the thread is unwound -/
theorem LX.raise {s : State} {ti d : Nat} {t : Thread} (hL : LX s ti d) (ht : s.thread? ti = some t) (o : Obs)
    (hno : noReg o = true) (hg : GoodAtL s.hist o) (t' : Thread) (hd : depth t' = 0)
    (hc : CurOK (s.hist ++ [o]) t'.pc t'.cur) :
    LQ (((if s.lockOwner = some ti then ({ s with lockOwner := none, lockCount := 0 } : State) else s).log o).setThread ti t') := by
  have h1 : LX (if s.lockOwner = some ti then ({ s with lockOwner := none, lockCount := 0 } : State) else s) ti 0 := by
    split
    · rename_i ho
      have hd0 : 0 < d := by
        cases d with
        | zero => exact absurd ho (hL.mine.1 rfl)
        | succ n => exact Nat.succ_pos n
      constructor
      · exact hL.good
      · intro j tj hj hjt
        have hz := hL.others_idle hd0 hj hjt
        have := hL.others j tj hj hjt
        exact ⟨fun h => by omega, this.cur⟩
      · exact ⟨fun _ h => (by cases h), fun h => (by omega)⟩
      · intro j hj hjo; cases hjo
    · rename_i ho
      cases d with
      | zero => exact hL
      | succ n => exact absurd (hL.mine.2 (Nat.succ_pos n)).1 ho
  have h2 : (if s.lockOwner = some ti then ({ s with lockOwner := none, lockCount := 0 } : State) else s).hist = s.hist := by
    split <;> rfl
  have h3 : (if s.lockOwner = some ti then ({ s with lockOwner := none, lockCount := 0 } : State) else s).thread? ti = some t := by
    split <;> exact ht
  generalize (if s.lockOwner = some ti then ({ s with lockOwner := none, lockCount := 0 } : State) else s) = s1 at h1 h2 h3 ⊢
  refine (h1.log o (by rw [h2]; exact hg) (Or.inl hno)).close (t := t) (by simpa using h3) t' hd ?_
  simp only [log_hist, h2]; exact hc

end WD.ProofsObs
