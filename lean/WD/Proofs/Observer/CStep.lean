/- the dispatch invariant along runs whose steps all complete; `complete` -/
import WD.Proofs.Observer.CPass
set_option linter.unusedSimpArgs false
set_option linter.unusedVariables false
namespace WD.ProofsObs
open WD WD.Obs

theorem CX.eLoop {s : State} (hC : CX s none) (ti : Nat) (e : Eid) : CX (eLoop s ti e) none := by
  unfold WD.Obs.eLoop
  split
  · exact hC
  · split
    · exact (hC.weaken ti).closeUpd _ (fun t => rfl) (fun t => Or.inl rfl)
    · split
      · exact (hC.weaken ti).closeUpd _ (fun t => rfl) (fun t => Or.inl rfl)
      · exact (hC.weaken ti).closeUpd _ (fun t => rfl) (fun t => Or.inl rfl)

theorem CX.stepX {s s' : State} {ti : Nat} (hC : CX s none) (h : stepX s ti = some s') : CX s' none := by
  have A := allC FUEL
  have D := cpass_d ti FUEL
  have hW := hC.weaken ti
  unfold WD.ProofsObs.stepX at h
  generalize FUEL = F at A D h
  split at h
  · cases h
  · split at h
    · cases h
    · rename_i t ht
      split at h
      · split at h
        · exact A.nxt _ _ _ h hW
        · exact D.1 _ _ h hW
        · cases h; exact hC.eLoop _ _
      · exact A.lck _ _ _ _ h (hW.frame rfl rfl rfl rfl)
      · exact A.sfin _ _ _ _ _ _ h hW
      · exact A.ufin _ _ _ _ h hW
      · exact A.uajn _ _ _ _ _ h hW
      · exact A.uajn _ _ _ _ _ h hW
      · exact A.stem _ _ _ _ h hW
      · exact A.fin _ _ _ _ h hW
      · exact A.fin _ _ _ _ h hW
      · exact D.2 _ _ h (hW.updThread_same ti _ (fun t => ⟨rfl, rfl⟩))
      · rename_i u w v hpc
        try simp only [] at h
        have hC2 : CX (if (alookup w s.handlers).isNone then ({ s with lockOwner := some ti, lockCount := 1, handlers := ainsert w [] s.handlers } : State) else { s with lockOwner := some ti, lockCount := 1 }) none := by
          split
          · exact hC.frame rfl rfl rfl rfl
          · exact hC.frame rfl rfl rfl rfl
        have ht2 : (if (alookup w s.handlers).isNone then ({ s with lockOwner := some ti, lockCount := 1, handlers := ainsert w [] s.handlers } : State) else { s with lockOwner := some ti, lockCount := 1 }).thread? ti = some t := by
          split <;> exact ht
        generalize (if (alookup w s.handlers).isNone then ({ s with lockOwner := some ti, lockCount := 1, handlers := ainsert w [] s.handlers } : State) else { s with lockOwner := some ti, lockCount := 1 }) = s2 at h hC2 ht2
        have ht3 : (s2.log (.dispatch u w (s2.handlersOf w))).thread? ti = some t := by rw [log_thread?]; exact ht2
        rw [updThread_of_some _ ht3] at h
        refine A.cit _ _ _ h ?_
        exact hC2.dispatch ht2 hpc _ _ rfl
      · split at h
        · split at h
          · split at h
            · cases h
              apply CX.eLoop
              apply (hC.updEm _ _).putItem _ _ _ rfl rfl (by trivial) (by trivial)
              exact Or.inr ⟨_, _, rfl⟩
            · cases h; exact hC.eLoop _ _
          · cases h
        · cases h
      · split at h
        · cases h; exact hC.eLoop _ _
        · cases h
      · cases h

theorem CX.init (clients : List (List Op)) (cbs : List (Hid × List (List Op))) (emit : List (Wid × List Nat)) :
    CX (init clients cbs emit) none := by
  have key : ∀ (j : Nat) (t : Thread), (WD.Obs.init clients cbs emit).threads[j]? = some t → t.pc = .begin ∧ t.iter = none := by
    intro j t hj
    simp only [WD.Obs.init, List.getElem?_map] at hj
    cases hz : (clients.zipIdx)[j]? with
    | none => simp [hz] at hj
    | some x => simp [hz] at hj; subst hj; exact ⟨rfl, rfl⟩
  constructor
  · exact Good.nil _
  · intro j t hj; exact IT.of_none (key j t hj).2
  · intro j t _ hj u hu
    unfold dl at hu; rw [(key j t hj).1] at hu; cases hu
  · intro i j a b u _ _ _ ha _ hda
    unfold dl at hda; rw [(key i a ha).1] at hda; cases hda
  · intro u hu; simp [WD.Obs.init, quids] at hu
  · intro u _ w hs hm; simp [WD.Obs.init] at hm
  · simp [WD.Obs.init, quids]
  · intro u hu; simp [WD.Obs.init, quids] at hu

theorem cx_reach (clients : List (List Op)) (cbs : List (Hid × List (List Op))) (emit : List (Wid × List Nat))
    (sched : List Nat) (hok : runOk (init clients cbs emit) sched = true) :
    CX (run (init clients cbs emit) sched) none :=
  run_induction (fun s s' ti hP h => CX.stepX hP h) sched _ (CX.init clients cbs emit) hok

/-- in a history where every `dispatch u` is the first one, the dispatch of `u` is unique -/
theorem complete_of_good {hist : List Obs} (hg : Good GoodAtC hist) (p q r : List Obs) (u : Nat) (w : Wid)
    (hs : List Hid) (hh : hist = p ++ .dispatch u w hs :: q ++ .dispatchEnd u :: r) (h : Hid) (hm : h ∈ hs) :
    (∃ v, Obs.call h w v u ∈ q) ∨ Obs.skip h u ∈ q := by
  obtain ⟨p1, w1, hs1, q1, e1, hd⟩ := hg (p ++ .dispatch u w hs :: q) (.dispatchEnd u) r hh
  have hA : NoDisp u p := hg p (.dispatch u w hs) (q ++ .dispatchEnd u :: r) (by rw [hh]; simp)
  have hB : NoDisp u p1 := hg p1 (.dispatch u w1 hs1) (q1 ++ .dispatchEnd u :: r) (by rw [hh, e1]; simp)
  rcases append_cons_eq_append_cons e1 with ⟨e2, e3, e4⟩ | ⟨m, e2, _⟩ | ⟨m, e2, _⟩
  · cases e3
    subst e4
    simpa using hd h hm
  · exact absurd (by rw [e2]; simp) (hA w1 hs1)
  · exact absurd (by rw [e2]; simp) (hB w hs)

end WD.ProofsObs
