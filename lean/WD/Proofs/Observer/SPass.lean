/- when `start()` occurs in the script of at most one client thread, at most one dispatcher thread is ever started:
   a second `start()` of that client (or one made from a callback) finds the observer started and raises -/
import WD.Proofs.Observer.OStep
set_option linter.unusedSimpArgs false
set_option linter.unusedVariables false
namespace WD.ProofsObs
open WD WD.Obs

/-- the thread is inside `observer.start()`, between two `emitter.start()` calls -/
def sem : Pc → Bool
  | .startEm _ => true
  | _ => false

/-- `c` is the only client whose script contains `start`; `x`: the thread that is in the middle of a step -/
structure SI (c : Nat) (s : State) (x : Option Nat) : Prop where
  a : ∀ (j : Nat) (t : Thread), s.threads[j]? = some t → t.kind ≠ .dispatcher → Op.start ∈ t.ops → j = c
  b : ∀ (j : Nat) (t : Thread), s.threads[j]? = some t → sem t.pc = true → j = c ∧ s.dIdx = none
  c : s.dIdx = none → ∀ (j : Nat) (t : Thread), s.threads[j]? = some t → t.kind ≠ .dispatcher
  d : oneD s
  e : ∀ (j : Nat) (t : Thread), x = some j → s.threads[j]? = some t → sem t.pc = false
  kd : ∀ (j : Nat) (t : Thread), s.threads[j]? = some t → KD t

theorem oneD_of_threads_eq {s s' : State} (h : s'.threads = s.threads) (hd : oneD s) : oneD s' := by
  unfold oneD kinds at *; rw [h]; exact hd

theorem SI.frame {c : Nat} {s s' : State} {x : Option Nat} (hS : SI c s x) (ht : s'.threads = s.threads)
    (hd : s'.dIdx = s.dIdx) : SI c s' x := by
  constructor
  · intro j t hj; rw [ht] at hj; exact hS.a j t hj
  · intro j t hj hp; rw [ht] at hj; rw [hd]; exact hS.b j t hj hp
  · intro h0 j t hj; rw [ht] at hj; rw [hd] at h0; exact hS.c h0 j t hj
  · exact oneD_of_threads_eq ht hS.d
  · intro j t hx hj; rw [ht] at hj; exact hS.e j t hx hj
  · intro j t hj; rw [ht] at hj; exact hS.kd j t hj

theorem SI.toNone {c : Nat} {s : State} {x : Option Nat} (hS : SI c s x) : SI c s none :=
  { hS with e := fun j t hx => by cases hx }

theorem SI.weaken {c : Nat} {s : State} (hS : SI c s none) (ti : Nat)
    (h : ∀ t, s.threads[ti]? = some t → sem t.pc = false) : SI c s (some ti) :=
  { hS with e := fun j t hx hj => by cases hx; exact h t hj }

theorem getElem?_set_cases {α : Type} {l : List α} {i j : Nat} {a b : α} (h : (l.set i a)[j]? = some b) :
    (j = i ∧ b = a) ∨ (j ≠ i ∧ l[j]? = some b) := by
  rw [List.getElem?_set] at h
  split at h
  · rename_i e
    split at h
    · cases h; exact Or.inl ⟨e.symm, rfl⟩
    · cases h
  · rename_i e; exact Or.inr ⟨fun e' => e e'.symm, h⟩

/-- replacing a thread by one of the same kind -/
theorem SI.setThread {c : Nat} {s : State} {ti : Nat} {t : Thread} {x : Option Nat} (hS : SI c s x)
    (ht : s.threads[ti]? = some t) (t' : Thread) (hk : t'.kind = t.kind)
    (hsem : sem t'.pc = true → sem t.pc = true)
    (hops : t.kind ≠ .dispatcher → Op.start ∈ t'.ops → Op.start ∈ t.ops)
    (hkd : KD t') : SI c (s.setThread ti t') x := by
  constructor
  · intro j u hj hkj hm
    rcases getElem?_set_cases (by simpa using hj) with ⟨e1, e2⟩ | ⟨_, h2⟩
    · subst e1; subst e2
      exact hS.a j t ht (by rw [← hk]; exact hkj) (hops (by rw [← hk]; exact hkj) hm)
    · exact hS.a j u h2 hkj hm
  · intro j u hj hp
    rcases getElem?_set_cases (by simpa using hj) with ⟨e1, e2⟩ | ⟨_, h2⟩
    · subst e1; subst e2; exact hS.b j t ht (hsem hp)
    · exact hS.b j u h2 hp
  · intro h0 j u hj
    rcases getElem?_set_cases (by simpa using hj) with ⟨e1, e2⟩ | ⟨_, h2⟩
    · subst e1; subst e2; rw [hk]; exact hS.c h0 j t ht
    · exact hS.c h0 j u h2
  · have : kinds (s.setThread ti t') = kinds s := kinds_setThread ht t' hk
    unfold oneD; rw [this]; exact hS.d
  · intro j u hx hj
    rcases getElem?_set_cases (by simpa using hj) with ⟨e1, e2⟩ | ⟨_, h2⟩
    · subst e1; subst e2
      cases hq : sem u.pc with
      | false => rfl
      | true => have := hS.e j t hx ht; rw [hsem hq] at this; cases this
    · exact hS.e j u hx h2
  · intro j u hj
    rcases getElem?_set_cases (by simpa using hj) with ⟨e1, e2⟩ | ⟨_, h2⟩
    · subst e2; exact hkd
    · exact hS.kd j u h2

/-- a change that leaves kind, pc, iter alone and only drops calls from `ops` -/
theorem SI.setThreadSame {c : Nat} {s : State} {ti : Nat} {t : Thread} {x : Option Nat} (hS : SI c s x)
    (ht : s.threads[ti]? = some t) (t' : Thread) (e1 : t'.iter = t.iter) (e2 : t'.pc = t.pc) (e3 : t'.kind = t.kind)
    (e4 : ∀ o ∈ t'.ops, o ∈ t.ops) : SI c (s.setThread ti t') x :=
  hS.setThread ht t' e3 (by rw [e2]; exact id) (fun _ hm => e4 _ hm)
    (by have := hS.kd ti t ht; unfold KD at this ⊢; rw [e1, e2, e3]; exact this)

/-- a step ends: the thread's pc becomes one that is neither inside `start()` nor a dispatcher's wait -/
theorem SI.closeUpd {c : Nat} {s : State} {ti : Nat} {x : Option Nat} (hS : SI c s x) (f : Thread → Thread)
    (h1 : ∀ t, sem (f t).pc = false) (h2 : ∀ t, dpc (f t).pc = false) (h3 : ∀ t, (f t).kind = t.kind)
    (h4 : ∀ t, (f t).iter = t.iter ∨ (f t).iter = none) (h5 : ∀ t, ∀ o ∈ (f t).ops, o ∈ t.ops) :
    SI c (s.updThread ti f) none := by
  rw [updThread_eq]
  split
  · rename_i t ht
    refine (hS.setThread ht (f t) (h3 t) (by rw [h1 t]; intro h; cases h) (fun _ hm => h5 t _ hm) ?_).toNone
    have := hS.kd ti t ht
    unfold KD at this ⊢
    rw [h2 t, h3 t]
    intro h
    rcases h with h | h
    · rcases h4 t with e | e
      · exact this (Or.inl (by rw [← e]; exact h))
      · rw [e] at h; cases h
    · cases h
  · exact hS.toNone

/-- any update of a thread that is a dispatcher and does not enter `start()` -/
theorem SI.setThreadD {c : Nat} {s : State} {ti : Nat} {t : Thread} {x : Option Nat} (hS : SI c s x)
    (ht : s.threads[ti]? = some t) (hkt : t.kind = .dispatcher) (t' : Thread) (hk : t'.kind = t.kind)
    (hsem : sem t'.pc = true → sem t.pc = true) : SI c (s.setThread ti t') x :=
  hS.setThread ht t' hk hsem (fun h => absurd hkt h) (fun _ => by rw [hk]; exact hkt)

theorem SI.updThreadD {c : Nat} {s : State} {ti : Nat} {x : Option Nat} (hS : SI c s x)
    (hkt : ∀ t, s.threads[ti]? = some t → t.kind = .dispatcher) (f : Thread → Thread)
    (h1 : ∀ t, sem (f t).pc = false) (h3 : ∀ t, (f t).kind = t.kind) : SI c (s.updThread ti f) x := by
  rw [updThread_eq]
  split
  · rename_i t ht
    exact hS.setThreadD ht (hkt t ht) (f t) (h3 t) (by rw [h1 t]; intro h; cases h)
  · exact hS

theorem SI.log {c : Nat} {s : State} {x : Option Nat} (hS : SI c s x) (o : Obs) : SI c (s.log o) x :=
  hS.frame rfl rfl
theorem SI.release {c : Nat} {s : State} {x : Option Nat} (hS : SI c s x) : SI c s.release x :=
  hS.frame (release_threads s) (by unfold State.release; split <;> rfl)
theorem SI.updEm {c : Nat} {s : State} {x : Option Nat} (hS : SI c s x) (e : Eid) (f : EmObj → EmObj) :
    SI c (s.updEm e f) x :=
  hS.frame (updEm_threads s e f) (by rw [updEm_eq]; split <;> rfl)
theorem SI.foldUpdEm {c : Nat} {s : State} {x : Option Nat} (hS : SI c s x) (l : List Eid) (f : EmObj → EmObj) :
    SI c (l.foldl (fun acc e => acc.updEm e f) s) x := by
  induction l generalizing s with
  | nil => exact hS
  | cons e l ih => exact ih (hS.updEm e f)

theorem notif_props (t : Thread) : (notif t).pc = t.pc ∧ (notif t).iter = t.iter ∧ (notif t).ops = t.ops := by
  unfold notif; split <;> exact ⟨rfl, rfl, rfl⟩

theorem SI.putItem {c : Nat} {s : State} {x : Option Nat} (hS : SI c s x) (mk : Nat → QItem) (onEnq : Nat → Obs)
    (onDrop : Obs) : SI c (s.putItem mk onEnq onDrop) x := by
  rcases putItem_cases s mk onEnq onDrop with e | e | ⟨d, e⟩
  · rw [e]; exact hS.log _
  · rw [e]; exact hS.frame rfl rfl
  · rw [e, updThread_eq]
    have hB : SI c (putBase s (mk s.nextUid) (onEnq s.nextUid)) x := hS.frame rfl rfl
    split
    · rename_i t ht
      obtain ⟨p1, p2, p3⟩ := notif_props t
      exact hB.setThreadSame ht _ p2 p1 (notif_kind t) (by rw [p3]; exact fun _ h => h)
    · exact hB

/-- `Thread.start` of an emitter thread -/
theorem SI.spawnE {c : Nat} {s : State} {x : Option Nat} (hS : SI c s x) (b : String) (e : Eid) :
    SI c (s.spawn b (.emitter e)).1 x := by
  obtain ⟨nm, hnm⟩ := spawn_threads s b (.emitter e)
  have key : ∀ (j : Nat) (t : Thread), (s.spawn b (.emitter e)).1.threads[j]? = some t →
      s.threads[j]? = some t ∨ (j = s.threads.length ∧ t = { name := nm, kind := .emitter e, pc := .begin }) := by
    intro j t hj
    rw [hnm, List.getElem?_append] at hj
    split at hj
    · exact Or.inl hj
    · rename_i hlt
      have : j - s.threads.length = 0 := by
        cases hz : j - s.threads.length with
        | zero => rfl
        | succ n => rw [hz] at hj; simp at hj
      rw [this] at hj; simp at hj
      exact Or.inr ⟨by omega, hj.symm⟩
  constructor
  · intro j t hj hk hm
    rcases key j t hj with h | ⟨_, h⟩
    · exact hS.a j t h hk hm
    · subst h; simp at hm
  · intro j t hj hp
    rcases key j t hj with h | ⟨_, h⟩
    · exact hS.b j t h hp
    · subst h; simp [sem] at hp
  · intro h0 j t hj
    rcases key j t hj with h | ⟨_, h⟩
    · exact hS.c h0 j t h
    · subst h; simp
  · intro i j hi hj
    have hk : kinds (s.spawn b (.emitter e)).1 = kinds s ++ [Kind.emitter e] := by
      unfold kinds; rw [hnm]; simp
    rw [hk] at hi hj
    have lift : ∀ i : Nat, (kinds s ++ [Kind.emitter e])[i]? = some Kind.dispatcher → (kinds s)[i]? = some Kind.dispatcher := by
      intro i hi
      rw [List.getElem?_append] at hi
      split at hi
      · exact hi
      · cases hz : i - (kinds s).length with
        | zero => rw [hz] at hi; simp at hi
        | succ n => rw [hz] at hi; simp at hi
    exact hS.d i j (lift i hi) (lift j hj)
  · intro j t hx hj
    rcases key j t hj with h | ⟨_, h⟩
    · exact hS.e j t hx h
    · subst h; rfl
  · intro j t hj
    rcases key j t hj with h | ⟨_, h⟩
    · exact hS.kd j t h
    · subst h; intro h'; simp [dpc] at h'

theorem SI.enterStart {c : Nat} {s2 : State} {ti : Nat} (rest : List Eid) (h1 : SI c s2 none) (hti : ti = c)
    (hd1 : s2.dIdx = none) : SI c (s2.updThread ti (fun t => { t with pc := .startEm rest })) none := by
  rw [updThread_eq]
  split
  · rename_i t ht
    constructor
    · intro j u hj hkj hm
      rcases getElem?_set_cases (by simpa using hj) with ⟨e1, e2⟩ | ⟨_, h2⟩
      · rw [e1]; exact hti
      · exact h1.a j u h2 hkj hm
    · intro j u hj hp
      rcases getElem?_set_cases (by simpa using hj) with ⟨e1, e2⟩ | ⟨_, h2⟩
      · rw [e1]; exact ⟨hti, hd1⟩
      · exact h1.b j u h2 hp
    · intro h0 j u hj
      rcases getElem?_set_cases (by simpa using hj) with ⟨e1, e2⟩ | ⟨_, h2⟩
      · subst e1; subst e2; exact h1.c hd1 j t ht
      · exact h1.c hd1 j u h2
    · have : kinds (s2.setThread ti { t with pc := .startEm rest }) = kinds s2 := kinds_setThread ht _ rfl
      unfold oneD; rw [this]; exact h1.d
    · intro j u hx; cases hx
    · intro j u hj
      rcases getElem?_set_cases (by simpa using hj) with ⟨e1, e2⟩ | ⟨_, h2⟩
      · subst e1; subst e2
        have := h1.kd j t ht
        unfold KD at this ⊢
        intro h'
        rcases h' with h' | h'
        · exact this (Or.inl h')
        · simp [dpc] at h'
      · exact h1.kd j u h2
  · exact h1

theorem SI.spawnD {c : Nat} {s : State} {ti : Nat} (hS : SI c s none) (hti : ti = c) (hd : s.dIdx = none) :
    SI c (({ (s.spawn "D" .dispatcher).1 with dIdx := some (s.spawn "D" .dispatcher).2 } : State).updThread ti
      (fun t => { t with pc := .startD })) none := by
  obtain ⟨nm, hnm⟩ := spawn_threads s "D" .dispatcher
  -- the threads after the spawn: the old ones, then the dispatcher
  have key : ∀ (j : Nat) (t : Thread), (s.spawn "D" .dispatcher).1.threads[j]? = some t →
      s.threads[j]? = some t ∨ (j = s.threads.length ∧ t = { name := nm, kind := .dispatcher, pc := .begin }) := by
    intro j t hj
    rw [hnm, List.getElem?_append] at hj
    split at hj
    · exact Or.inl hj
    · rename_i hlt
      have : j - s.threads.length = 0 := by
        cases hz : j - s.threads.length with
        | zero => rfl
        | succ n => rw [hz] at hj; simp at hj
      rw [this] at hj; simp at hj
      exact Or.inr ⟨by omega, hj.symm⟩
  have hone : oneD (s.spawn "D" .dispatcher).1 := by
    intro i j hi hj
    have hk : kinds (s.spawn "D" .dispatcher).1 = kinds s ++ [Kind.dispatcher] := by
      unfold kinds; rw [hnm]; simp
    rw [hk] at hi hj
    have pos : ∀ i : Nat, (kinds s ++ [Kind.dispatcher])[i]? = some Kind.dispatcher → i = (kinds s).length := by
      intro i hi
      rw [List.getElem?_append] at hi
      split at hi
      · exfalso
        simp only [kinds, List.getElem?_map] at hi
        cases hz : s.threads[i]? with
        | none => simp [hz] at hi
        | some u => simp [hz] at hi; exact hS.c hd i u hz hi
      · rename_i hge
        cases hz : i - (kinds s).length with
        | zero => omega
        | succ n => rw [hz] at hi; simp at hi
    rw [pos i hi, pos j hj]
  have hth : ({ (s.spawn "D" .dispatcher).1 with dIdx := some (s.spawn "D" .dispatcher).2 } : State).threads = (s.spawn "D" .dispatcher).1.threads := rfl
  have hd2 : ({ (s.spawn "D" .dispatcher).1 with dIdx := some (s.spawn "D" .dispatcher).2 } : State).dIdx = some (s.spawn "D" .dispatcher).2 := rfl
  generalize ({ (s.spawn "D" .dispatcher).1 with dIdx := some (s.spawn "D" .dispatcher).2 } : State) = s2 at hth hd2 ⊢
  rw [← hth] at key
  have hone2 : oneD s2 := oneD_of_threads_eq hth hone
  rw [updThread_eq]
  split
  · rename_i t ht
    have ht' : s2.threads[ti]? = some t := ht
    constructor
    · intro j u hj hkj hm
      rcases getElem?_set_cases (by simpa using hj) with ⟨e1, e2⟩ | ⟨_, h2⟩
      · rw [e1]; exact hti
      · rcases key j u h2 with h | ⟨_, h⟩
        · exact hS.a j u h hkj hm
        · subst h; simp at hm
    · intro j u hj hp
      exfalso
      rcases getElem?_set_cases (by simpa using hj) with ⟨e1, e2⟩ | ⟨hne, h2⟩
      · subst e2; simp [sem] at hp
      · rcases key j u h2 with h | ⟨_, h⟩
        · exact hne ((hS.b j u h hp).1.trans hti.symm)
        · subst h; simp [sem] at hp
    · intro h0; rw [show (s2.setThread ti { t with pc := .startD }).dIdx = s2.dIdx from rfl, hd2] at h0; cases h0
    · have : kinds (s2.setThread ti { t with pc := .startD }) = kinds s2 := kinds_setThread ht _ rfl
      unfold oneD; rw [this]; exact hone2
    · intro j u hx; cases hx
    · intro j u hj
      rcases getElem?_set_cases (by simpa using hj) with ⟨e1, e2⟩ | ⟨_, h2⟩
      · subst e1; subst e2
        rcases key j t ht' with h | ⟨_, h⟩
        · have := hS.kd j t h
          unfold KD at this ⊢
          intro h'
          rcases h' with h' | h'
          · exact this (Or.inl h')
          · simp [dpc] at h'
        · subst h; intro _; rfl
      · rcases key j u h2 with h | ⟨_, h⟩
        · exact hS.kd j u h
        · subst h; intro _; rfl
  · rename_i hnone
    constructor
    · intro j u hj hkj hm
      rcases key j u hj with h | ⟨_, h⟩
      · exact hS.a j u h hkj hm
      · subst h; simp at hm
    · intro j u hj hp
      exfalso
      rcases key j u hj with h | ⟨_, h⟩
      · have hjc := (hS.b j u h hp).1
        have : s2.thread? ti = some u := by
          show s2.threads[ti]? = some u
          rw [hti, ← hjc]; exact hj
        have hnone' : s2.thread? ti = none := hnone
        rw [this] at hnone'; cases hnone'
      · subst h; simp [sem] at hp
    · intro h0; rw [hd2] at h0; cases h0
    · exact hone2
    · intro j u hx; cases hx
    · intro j u hj
      rcases key j u hj with h | ⟨_, h⟩
      · exact hS.kd j u h
      · subst h; intro _; rfl

/-- `observer.start()` by the one client that starts, before a dispatcher exists -/
theorem SI.stem {c : Nat} {s s' : State} {ti : Nat} {es : List Eid} {fuel : Nat} (hS : SI c s none) (hti : ti = c)
    (hd : s.dIdx = none) (h : startEmittersX fuel s ti es = some s') : SI c s' none := by
  unfold startEmittersX at h
  split at h
  · cases h
  · try simp only [] at h
    split at h
    · split at h
      · cases h
        exact SI.enterStart _ ((hS.spawnE _ _).updEm _ _) hti (by rw [updEm_eq]; split <;> exact hd)
      · cases h
    · cases h
      exact hS.spawnD hti hd

end WD.ProofsObs
