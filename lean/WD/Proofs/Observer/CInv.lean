/- every entry is dispatched at most once, and a finished dispatch has visited every handler of its copy -/
import WD.Proofs.Observer.LStep
set_option linter.unusedSimpArgs false
set_option linter.unusedVariables false
namespace WD.ProofsObs
open WD WD.Obs

def NoDisp (u : Nat) (hist : List Obs) : Prop := ∀ w hs, Obs.dispatch u w hs ∉ hist

def notDisp (o : Obs) : Bool := match o with | .dispatch .. => false | _ => true

theorem NoDisp.snoc {u : Nat} {hist : List Obs} {o : Obs} (h : NoDisp u hist) (ho : ∀ w hs, o ≠ .dispatch u w hs) :
    NoDisp u (hist ++ [o]) := by
  intro w hs hm
  simp only [List.mem_append, List.mem_singleton] at hm
  rcases hm with hm | hm
  · exact h w hs hm
  · exact ho w hs hm.symm

theorem notDisp_ne {o : Obs} (ho : notDisp o = true) (u : Nat) (w : Wid) (hs : List Hid) : o ≠ .dispatch u w hs := by
  intro e; subst e; simp [notDisp] at ho

/-- progress of the dispatch of entry `u` over the copy `hs`: every handler not in `rest` was called or skipped in `q` -/
def Done (u : Nat) (w : Wid) (hs rest : List Hid) (q : List Obs) : Prop :=
  ∀ h ∈ hs, h ∈ rest ∨ (∃ v, Obs.call h w v u ∈ q) ∨ Obs.skip h u ∈ q

def GoodAtC (p : List Obs) : Obs → Prop
  | .dispatch u _ _ => NoDisp u p
  | .dispatchEnd u => ∃ p1 w hs q, p = p1 ++ .dispatch u w hs :: q ∧ Done u w hs [] q
  | _ => True

def IT (hist : List Obs) (t : Thread) : Prop :=
  ∀ u w v rest, t.iter = some (u, w, v, rest) →
    ∃ p hs q, hist = p ++ .dispatch u w hs :: q ∧ Done u w hs rest q

theorem IT.mono {hist : List Obs} {t : Thread} (h : IT hist t) (o : Obs) : IT (hist ++ [o]) t := by
  intro u w v rest e
  obtain ⟨p, hs, q, h1, h2⟩ := h u w v rest e
  refine ⟨p, hs, q ++ [o], by rw [h1]; simp, ?_⟩
  intro x hx
  rcases h2 x hx with h3 | ⟨v', h3⟩ | h3
  · exact Or.inl h3
  · exact Or.inr (Or.inl ⟨v', List.mem_append_left _ h3⟩)
  · exact Or.inr (Or.inr (List.mem_append_left _ h3))

theorem IT.of_iter {hist : List Obs} {t t' : Thread} (h : IT hist t) (e : t'.iter = t.iter) : IT hist t' := by
  unfold IT; rw [e]; exact h

theorem IT.of_none {hist : List Obs} {t' : Thread} (e : t'.iter = none) : IT hist t' := by
  intro u w v rest h; rw [e] at h; cases h

/-- the uid a thread is about to dispatch -/
def dl (t : Thread) : Option Nat := match t.pc with | .dLock u _ _ => some u | _ => none

def PT (s : State) (t : Thread) : Prop :=
  ∀ u, dl t = some u → NoDisp u s.hist ∧ u ∉ quids s.queue ∧ u < s.nextUid

/-- `x = some ti`: thread `ti` is in the middle of a step (its pc is stale); `x = none`: between steps -/
structure CX (s : State) (x : Option Nat) : Prop where
  good : Good GoodAtC s.hist
  it : ∀ (j : Nat) (t : Thread), s.threads[j]? = some t → IT s.hist t
  pt : ∀ (j : Nat) (t : Thread), some j ≠ x → s.threads[j]? = some t → PT s t
  dist : ∀ (i j : Nat) (a b : Thread) (u : Nat), some i ≠ x → some j ≠ x → i ≠ j → s.threads[i]? = some a →
    s.threads[j]? = some b → dl a = some u → dl b = some u → False
  qfresh : ∀ u ∈ quids s.queue, NoDisp u s.hist
  nfresh : ∀ u, s.nextUid ≤ u → NoDisp u s.hist
  qs : (quids s.queue).Pairwise (· < ·)
  qn : ∀ u ∈ quids s.queue, u < s.nextUid

theorem CX.frame {s s' : State} {x : Option Nat} (hC : CX s x) (hh : s'.hist = s.hist) (ht : s'.threads = s.threads)
    (hq : s'.queue = s.queue) (hn : s'.nextUid = s.nextUid) : CX s' x := by
  constructor
  · rw [hh]; exact hC.good
  · rw [hh, ht]; exact hC.it
  · intro j t hj hjt; rw [ht] at hjt
    have := hC.pt j t hj hjt
    unfold PT; rw [hh, hq, hn]; exact this
  · rw [ht]; exact hC.dist
  · rw [hq, hh]; exact hC.qfresh
  · rw [hn, hh]; exact hC.nfresh
  · rw [hq]; exact hC.qs
  · rw [hq, hn]; exact hC.qn

theorem CX.hist_step {s s' : State} {x : Option Nat} {o : Obs} (hC : CX s x) (hh : s'.hist = s.hist ++ [o])
    (ht : s'.threads = s.threads) (hq : s'.queue = s.queue) (hn : s'.nextUid = s.nextUid)
    (hg : GoodAtC s.hist o) (ho : notDisp o = true) : CX s' x := by
  constructor
  · rw [hh]; exact hC.good.snoc hg
  · rw [hh, ht]; intro j t hj; exact (hC.it j t hj).mono o
  · intro j t hj hjt; rw [ht] at hjt
    intro u hu
    obtain ⟨h1, h2, h3⟩ := hC.pt j t hj hjt u hu
    rw [hh, hq, hn]
    exact ⟨h1.snoc (notDisp_ne ho u), h2, h3⟩
  · rw [ht]; exact hC.dist
  · rw [hq, hh]; intro u hu; exact (hC.qfresh u hu).snoc (notDisp_ne ho u)
  · rw [hn, hh]; intro u hu; exact (hC.nfresh u hu).snoc (notDisp_ne ho u)
  · rw [hq]; exact hC.qs
  · rw [hq, hn]; exact hC.qn

theorem CX.log {s : State} {x : Option Nat} (hC : CX s x) (o : Obs) (hg : GoodAtC s.hist o)
    (ho : notDisp o = true) : CX (s.log o) x :=
  hC.hist_step rfl rfl rfl rfl hg ho

theorem CX.weaken {s : State} (hC : CX s none) (ti : Nat) : CX s (some ti) := by
  constructor
  · exact hC.good
  · exact hC.it
  · intro j t _ hjt; exact hC.pt j t (by simp) hjt
  · intro i j a b u _ _ hij; exact hC.dist i j a b u (by simp) (by simp) hij
  · exact hC.qfresh
  · exact hC.nfresh
  · exact hC.qs
  · exact hC.qn

theorem CX.setThreadMine {s : State} {ti : Nat} (hC : CX s (some ti)) (t' : Thread) (hi : IT s.hist t') :
    CX (s.setThread ti t') (some ti) := by
  constructor
  · exact hC.good
  · intro j t hj
    simp only [setThread_threads, List.getElem?_set] at hj
    split at hj
    · split at hj
      · cases hj; exact hi
      · cases hj
    · exact hC.it j t hj
  · intro j t hj hjt
    have hne : j ≠ ti := fun e => hj (by rw [e])
    simp only [setThread_threads, getElem?_set_ne' _ _ _ _ hne] at hjt
    exact hC.pt j t hj hjt
  · intro i j a b u hi' hj' hij ha hb
    have hni : i ≠ ti := fun e => hi' (by rw [e])
    have hnj : j ≠ ti := fun e => hj' (by rw [e])
    simp only [setThread_threads, getElem?_set_ne' _ _ _ _ hni] at ha
    simp only [setThread_threads, getElem?_set_ne' _ _ _ _ hnj] at hb
    exact hC.dist i j a b u hi' hj' hij ha hb
  · exact hC.qfresh
  · exact hC.nfresh
  · exact hC.qs
  · exact hC.qn

/-- an update of any thread that keeps pc and iter -/
theorem CX.updThread_same {s : State} {x : Option Nat} (hC : CX s x) (k : Nat) (f : Thread → Thread)
    (hf : ∀ t, (f t).pc = t.pc ∧ (f t).iter = t.iter) : CX (s.updThread k f) x := by
  rw [updThread_eq]
  split
  · rename_i tk htk
    have hdl : dl (f tk) = dl tk := by unfold dl; rw [(hf tk).1]
    have key : ∀ (j : Nat) (t : Thread), (s.threads.set k (f tk))[j]? = some t →
        ∃ t0, s.threads[j]? = some t0 ∧ dl t = dl t0 ∧ t.iter = t0.iter := by
      intro j t hj
      rw [List.getElem?_set] at hj
      split at hj
      · split at hj
        · cases hj
          rename_i e _; subst e
          exact ⟨tk, htk, hdl, (hf tk).2⟩
        · cases hj
      · exact ⟨t, hj, rfl, rfl⟩
    constructor
    · exact hC.good
    · intro j t hj
      obtain ⟨t0, h0, _, h2⟩ := key j t hj
      exact (hC.it j t0 h0).of_iter h2
    · intro j t hj hjt
      obtain ⟨t0, h0, h1, _⟩ := key j t hjt
      have := hC.pt j t0 hj h0
      intro u hu; rw [h1] at hu; exact this u hu
    · intro i j a b u hi hj hij ha hb hda hdb
      obtain ⟨a0, ha0, ha1, _⟩ := key i a ha
      obtain ⟨b0, hb0, hb1, _⟩ := key j b hb
      exact hC.dist i j a0 b0 u hi hj hij ha0 hb0 (ha1 ▸ hda) (hb1 ▸ hdb)
    · exact hC.qfresh
    · exact hC.nfresh
    · exact hC.qs
    · exact hC.qn
  · exact hC

theorem CX.spawn {s : State} {x : Option Nat} (hC : CX s x) (b : String) (k : Kind) : CX (s.spawn b k).1 x := by
  obtain ⟨nm, hnm⟩ := spawn_threads s b k
  have key : ∀ (j : Nat) (t : Thread), (s.spawn b k).1.threads[j]? = some t →
      s.threads[j]? = some t ∨ (dl t = none ∧ t.iter = none) := by
    intro j t hj
    rw [hnm, List.getElem?_append] at hj
    split at hj
    · exact Or.inl hj
    · rw [List.getElem?_singleton] at hj
      split at hj
      · cases hj; exact Or.inr ⟨rfl, rfl⟩
      · cases hj
  constructor
  · exact hC.good
  · intro j t hj
    rcases key j t hj with h | ⟨_, h⟩
    · exact hC.it j t h
    · exact IT.of_none h
  · intro j t hj hjt
    rcases key j t hjt with h | ⟨h, _⟩
    · exact hC.pt j t hj h
    · intro u hu; rw [h] at hu; cases hu
  · intro i j a b' u hi hj hij ha hb hda hdb
    rcases key i a ha with h1 | ⟨h1, _⟩
    · rcases key j b' hb with h2 | ⟨h2, _⟩
      · exact hC.dist i j a b' u hi hj hij h1 h2 hda hdb
      · rw [h2] at hdb; cases hdb
    · rw [h1] at hda; cases hda
  · exact hC.qfresh
  · exact hC.nfresh
  · exact hC.qs
  · exact hC.qn

/-- thread `ti` finishes its step with the record `t'` -/
theorem CX.close {s : State} {ti : Nat} (hC : CX s (some ti)) (t' : Thread) (hi : IT s.hist t') (hp : PT s t')
    (hd : ∀ (j : Nat) (b : Thread) (u : Nat), j ≠ ti → s.threads[j]? = some b → dl t' = some u → dl b = some u → False) :
    CX (s.setThread ti t') none := by
  have key : ∀ (j : Nat) (t : Thread), (s.threads.set ti t')[j]? = some t →
      (j = ti ∧ t = t') ∨ (j ≠ ti ∧ s.threads[j]? = some t) := by
    intro j t hj
    rw [List.getElem?_set] at hj
    split at hj
    · split at hj
      · cases hj; rename_i e _; exact Or.inl ⟨e.symm, rfl⟩
      · cases hj
    · rename_i e; exact Or.inr ⟨fun e' => e e'.symm, hj⟩
  constructor
  · exact hC.good
  · intro j t hj
    rcases key j t hj with ⟨_, e⟩ | ⟨_, h⟩
    · subst e; exact hi
    · exact hC.it j t h
  · intro j t _ hjt
    rcases key j t hjt with ⟨_, e⟩ | ⟨hne, h⟩
    · subst e; exact hp
    · exact hC.pt j t (by simp [hne]) h
  · intro i j a b u _ _ hij ha hb hda hdb
    rcases key i a ha with ⟨e1, e2⟩ | ⟨hn1, h1⟩
    · subst e2
      rcases key j b hb with ⟨e3, _⟩ | ⟨hn2, h2⟩
      · exact hij (e1.trans e3.symm)
      · exact hd j b u hn2 h2 hda hdb
    · rcases key j b hb with ⟨e3, e4⟩ | ⟨hn2, h2⟩
      · subst e4; exact hd i a u hn1 h1 hdb hda
      · exact hC.dist i j a b u (by simp [hn1]) (by simp [hn2]) hij h1 h2 hda hdb
  · exact hC.qfresh
  · exact hC.nfresh
  · exact hC.qs
  · exact hC.qn

/-- ... with a pc that is not `dLock` and the same iteration state (or none) -/
theorem CX.closeUpd {s : State} {ti : Nat} (hC : CX s (some ti)) (f : Thread → Thread)
    (h1 : ∀ t, dl (f t) = none) (h2 : ∀ t, (f t).iter = t.iter ∨ (f t).iter = none) :
    CX (s.updThread ti f) none := by
  rw [updThread_eq]
  split
  · rename_i t ht
    apply hC.close
    · rcases h2 t with e | e
      · exact (hC.it ti t ht).of_iter e
      · exact IT.of_none e
    · intro u hu; rw [h1] at hu; cases hu
    · intro j b u _ _ hu; rw [h1] at hu; cases hu
  · rename_i ht
    constructor
    · exact hC.good
    · exact hC.it
    · intro j t _ hjt
      exact hC.pt j t (fun e => by cases e; rw [ht] at hjt; cases hjt) hjt
    · intro i j a b u _ _ hij ha hb
      exact hC.dist i j a b u (fun e => by cases e; rw [ht] at ha; cases ha)
        (fun e => by cases e; rw [ht] at hb; cases hb) hij ha hb
    · exact hC.qfresh
    · exact hC.nfresh
    · exact hC.qs
    · exact hC.qn

theorem CX.closeSet {s : State} {ti : Nat} (hC : CX s (some ti)) (t' : Thread) (h1 : dl t' = none)
    (h2 : t'.iter = none ∨ ∃ t, s.threads[ti]? = some t ∧ t'.iter = t.iter) : CX (s.setThread ti t') none := by
  apply hC.close
  · rcases h2 with e | ⟨t, ht, e⟩
    · exact IT.of_none e
    · exact (hC.it ti t ht).of_iter e
  · intro u hu; rw [h1] at hu; cases hu
  · intro j b u _ _ hu; rw [h1] at hu; cases hu

theorem CX.release {s : State} {x : Option Nat} (hC : CX s x) : CX s.release x :=
  hC.frame (by simp) (by simp) (by simp) (by simp)

theorem CX.updEm {s : State} {x : Option Nat} (hC : CX s x) (e : Eid) (f : EmObj → EmObj) : CX (s.updEm e f) x :=
  hC.frame (by simp) (by simp) (by simp) (by simp)

theorem CX.foldUpdEm {s : State} {x : Option Nat} (hC : CX s x) (l : List Eid) (f : EmObj → EmObj) :
    CX (l.foldl (fun acc e => acc.updEm e f) s) x := by
  induction l generalizing s with
  | nil => exact hC
  | cons e l ih => exact ih (hC.updEm e f)

theorem quids_append (a b : List QItem) : quids (a ++ b) = quids a ++ quids b := by
  simp [quids, List.filterMap_append]

theorem CX.putItem {s : State} {x : Option Nat} (hC : CX s x) (mk : Nat → QItem) (onEnq : Nat → Obs) (onDrop : Obs)
    (h1 : notDisp onDrop = true) (h2 : notDisp (onEnq s.nextUid) = true) (g1 : GoodAtC s.hist onDrop)
    (g2 : GoodAtC s.hist (onEnq s.nextUid))
    (hmk : mk s.nextUid = .stop ∨ ∃ w v, mk s.nextUid = .ev s.nextUid w v) :
    CX (s.putItem mk onEnq onDrop) x := by
  have hq : quids [mk s.nextUid] = [] ∨ quids [mk s.nextUid] = [s.nextUid] := by
    rcases hmk with e | ⟨w, v, e⟩
    · rw [e]; exact Or.inl rfl
    · rw [e]; exact Or.inr rfl
  have hmem : ∀ u, u ∈ quids [mk s.nextUid] → u = s.nextUid := by
    intro u hu
    rcases hq with e | e <;> rw [e] at hu <;> simp at hu
    exact hu
  have hb : CX (putBase s (mk s.nextUid) (onEnq s.nextUid)) x := by
    unfold putBase
    constructor
    · exact hC.good.snoc g2
    · intro j t hj; exact (hC.it j t hj).mono _
    · intro j t hj hjt u hu
      obtain ⟨a1, a2, a3⟩ := hC.pt j t hj hjt u hu
      refine ⟨a1.snoc (notDisp_ne h2 u), ?_, Nat.lt_succ_of_lt a3⟩
      simp only [log_queue, quids_append, List.mem_append]
      rintro (hm | hm)
      · exact a2 hm
      · have := hmem u hm; omega
    · exact hC.dist
    · intro u hu
      simp only [log_queue, quids_append, List.mem_append] at hu
      rcases hu with hu | hu
      · exact (hC.qfresh u hu).snoc (notDisp_ne h2 u)
      · rw [hmem u hu]; exact (hC.nfresh _ (Nat.le_refl _)).snoc (notDisp_ne h2 _)
    · intro u hu
      exact (hC.nfresh u (Nat.le_of_succ_le hu)).snoc (notDisp_ne h2 u)
    · simp only [log_queue, quids_append]
      rw [List.pairwise_append]
      refine ⟨hC.qs, ?_, ?_⟩
      · rcases hq with e | e <;> rw [e] <;> simp
      · intro a ha b hb; rw [hmem b hb]; exact hC.qn a ha
    · intro u hu
      simp only [log_queue, quids_append, List.mem_append, log_nextUid] at hu ⊢
      rcases hu with hu | hu
      · exact Nat.lt_succ_of_lt (hC.qn u hu)
      · rw [hmem u hu]; exact Nat.lt_succ_self _
  rcases putItem_cases s mk onEnq onDrop with e | e | ⟨k, e⟩
  · rw [e]; exact hC.log _ g1 h1
  · rw [e]; exact hb
  · rw [e]; exact hb.updThread_same k notif (fun t => ⟨(notif_same t).1, (notif_same t).2.1⟩)

theorem CX.pop {s : State} {x : Option Nat} (hC : CX s x) {item : QItem} {rest : List QItem}
    (hq : s.queue = item :: rest) (l : Option QItem) : CX { s with queue := rest, last := l } x := by
  have hsub : ∀ u, u ∈ quids rest → u ∈ quids s.queue := by
    intro u hu
    obtain ⟨w, v, hm⟩ := mem_quids.mp hu
    exact mem_quids.mpr ⟨w, v, by rw [hq]; exact List.mem_cons_of_mem _ hm⟩
  constructor
  · exact hC.good
  · exact hC.it
  · intro j t hj hjt u hu
    obtain ⟨a1, a2, a3⟩ := hC.pt j t hj hjt u hu
    exact ⟨a1, fun hm => a2 (hsub u hm), a3⟩
  · exact hC.dist
  · intro u hu; exact hC.qfresh u (hsub u hu)
  · exact hC.nfresh
  · have := hC.qs
    rw [hq] at this
    cases item with
    | stop => simpa [quids] using this
    | ev u w v => simp only [quids, List.filterMap_cons] at this; exact (List.pairwise_cons.mp this).2
  · intro u hu; exact hC.qn u (hsub u hu)

/-- the dispatcher takes the entry `u` off the queue and stops at its `with self._lock` -/
theorem CX.popEv {s : State} {ti : Nat} (hC : CX s (some ti)) {u : Nat} {w : Wid} {v : Nat} {rest : List QItem}
    (hq : s.queue = .ev u w v :: rest) (l : Option QItem) (f : Thread → Thread)
    (hf : ∀ t, (f t).pc = .dLock u w v ∧ (f t).iter = t.iter) :
    CX (({ s with queue := rest, last := l } : State).updThread ti f) none := by
  have hu : u ∈ quids s.queue := by rw [hq]; simp [quids]
  have hC1 := hC.pop hq l
  rw [updThread_eq]
  split
  · rename_i t ht
    have hdl : dl (f t) = some u := by unfold dl; rw [(hf t).1]
    apply hC1.close
    · exact (hC.it ti t ht).of_iter (hf t).2
    · intro u' hu'
      rw [hdl] at hu'; cases hu'
      refine ⟨hC.qfresh u hu, ?_, hC.qn u hu⟩
      have := hC.qs
      rw [hq] at this
      simp only [quids, List.filterMap_cons] at this
      intro hm
      exact Nat.lt_irrefl _ ((List.pairwise_cons.mp this).1 u hm)
    · intro j b u' hj hb hu' hb'
      rw [hdl] at hu'; cases hu'
      exact (hC.pt j b (by simp [hj]) hb u hb').2.1 hu
  · rename_i ht
    constructor
    · exact hC1.good
    · exact hC1.it
    · intro j t _ hjt
      exact hC1.pt j t (fun e => by cases e; rw [ht] at hjt; cases hjt) hjt
    · intro i j a b u _ _ hij ha hb
      exact hC1.dist i j a b u (fun e => by cases e; rw [ht] at ha; cases ha)
        (fun e => by cases e; rw [ht] at hb; cases hb) hij ha hb
    · exact hC1.qfresh
    · exact hC1.nfresh
    · exact hC1.qs
    · exact hC1.qn

theorem IT.advance {hist : List Obs} {t t' : Thread} {u : Nat} {w : Wid} {v : Nat} {h : Hid} {rest : List Hid}
    {o : Obs} (hI : IT hist t) (hit : t.iter = some (u, w, v, h :: rest)) (hit' : t'.iter = some (u, w, v, rest))
    (ho : o = .call h w v u ∨ o = .skip h u) : IT (hist ++ [o]) t' := by
  intro u' w' v' rest' e
  rw [hit'] at e; cases e
  obtain ⟨p, hs, q, h1, h2⟩ := hI u w v (h :: rest) hit
  refine ⟨p, hs, q ++ [o], by rw [h1]; simp, ?_⟩
  intro y hy
  rcases h2 y hy with h3 | ⟨v', h3⟩ | h3
  · rcases List.mem_cons.mp h3 with e | e
    · subst e
      rcases ho with ho | ho
      · exact Or.inr (Or.inl ⟨v, by rw [ho]; simp⟩)
      · exact Or.inr (Or.inr (by rw [ho]; simp))
    · exact Or.inl e
  · exact Or.inr (Or.inl ⟨v', List.mem_append_left _ h3⟩)
  · exact Or.inr (Or.inr (List.mem_append_left _ h3))

/-- the dispatcher copies the handler set of `w` for the entry `u` it holds -/
theorem CX.dispatch {s : State} {ti : Nat} {t : Thread} (hC : CX s none) (ht : s.threads[ti]? = some t)
    {u : Nat} {w : Wid} {v : Nat} (hpc : t.pc = .dLock u w v) (hs : List Hid) (t' : Thread)
    (hit : t'.iter = some (u, w, v, hs)) :
    CX ((s.log (.dispatch u w hs)).setThread ti t') (some ti) := by
  have hdl : dl t = some u := by unfold dl; rw [hpc]
  obtain ⟨p1, p2, p3⟩ := hC.pt ti t (by simp) ht u hdl
  have hC1 : CX (s.log (.dispatch u w hs)) (some ti) := by
    constructor
    · exact hC.good.snoc p1
    · intro j tj hj; exact (hC.it j tj hj).mono _
    · intro j tj hj hjt u' hu'
      have hne : j ≠ ti := fun e => hj (by rw [e])
      obtain ⟨a1, a2, a3⟩ := hC.pt j tj (by simp) hjt u' hu'
      refine ⟨a1.snoc ?_, a2, a3⟩
      intro w' hs' e
      cases e
      exact hC.dist j ti tj t u (by simp) (by simp) hne hjt ht hu' hdl
    · intro i j a b u' _ _ hij; exact hC.dist i j a b u' (by simp) (by simp) hij
    · intro u' hu'
      refine (hC.qfresh u' hu').snoc ?_
      intro w' hs' e; cases e; exact p2 hu'
    · intro u' hu'
      refine (hC.nfresh u' hu').snoc ?_
      intro w' hs' e; cases e
      have : s.nextUid ≤ u := hu'
      omega
    · exact hC.qs
    · exact hC.qn
  apply hC1.setThreadMine
  intro u' w' v' rest e
  rw [hit] at e; cases e
  exact ⟨s.hist, hs, [], by simp, fun h hh => Or.inl hh⟩

end WD.ProofsObs
