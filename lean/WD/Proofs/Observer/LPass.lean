/- the lock invariant is preserved by every completed step -/
import WD.Proofs.Observer.LInv
set_option linter.unusedSimpArgs false
set_option linter.unusedVariables false
namespace WD.ProofsObs
open WD WD.Obs

set_option hygiene false in
macro "thr" : tactic => `(tactic| first | exact ht | (simpa using ht) | (simpa [State.thread?] using ht))

theorem idepth_none {t : Thread} (h : t.iter = none) : idepth t = 0 := by simp [idepth, h]

theorem depth_of_not_holds {t : Thread} (h : holdsPc t.pc = false) : depth t = idepth t := by simp [depth, h]
theorem depth_of_holds {t : Thread} (h : holdsPc t.pc = true) : depth t = idepth t + 1 := by
  simp [depth, h]; omega

theorem lpass_d (ti : Nat) : ∀ fuel,
    (∀ s s' t, dLoopX fuel s ti = some s' → s.thread? ti = some t → t.iter = none → LX s ti 0 → LQ s') ∧
    (∀ s s' t, dGetX fuel s ti = some s' → s.thread? ti = some t → t.iter = none → LX s ti 0 → LQ s') := by
  intro fuel
  induction fuel with
  | zero =>
    refine ⟨?_, ?_⟩
    · intro s s' t h; rw [dLoopX.eq_1] at h; cases h
    · intro s s' t h; rw [dGetX.eq_1] at h; cases h
  | succ n ih =>
    refine ⟨?_, ?_⟩
    · intro s s' t h ht hit hL
      unfold dLoopX at h
      try simp only [] at h
      split at h
      · cases h
        exact hL.closeUpd ht _ (by simp [depth, holdsPc, idepth, hit]) (by simp [CurOK])
      · exact ih.2 _ _ _ h ht hit hL
    · intro s s' t h ht hit hL
      unfold dGetX at h
      try simp only [] at h
      split at h
      · cases h
        exact hL.closeUpd ht _ (by simp [depth, holdsPc, idepth, hit]) (by simp [CurOK])
      · split at h
        · exact ih.1 _ _ _ h (by thr) hit (hL.frame rfl rfl rfl rfl)
        · cases h
          refine LX.closeUpd (t := t) (d := 0) ?_ ?_ _ ?_ ?_
          · exact hL.frame rfl rfl rfl rfl
          · thr
          · simp [depth, holdsPc, idepth, hit]
          · simp [CurOK]

structure AllL (fuel : Nat) : Prop where
  fin : ∀ s ti res s' t, finishOpX fuel s ti res = some s' → s.thread? ti = some t → LX s ti (idepth t) →
      (res = "ok" → ∀ op, t.cur = some op → ∀ h w, removes op h w = true → registered s.hist h w = false) → LQ s'
  nxt : ∀ s ti s' t, nextOpX fuel s ti = some s' → s.thread? ti = some t → LX s ti (idepth t) → LQ s'
  sta : ∀ s ti op s' t, startOpX fuel s ti op = some s' → s.thread? ti = some t → t.cur = some op →
      LX s ti (idepth t) → LQ s'
  ent : ∀ s ti op s' t, enterLockedX fuel s ti op = some s' → s.thread? ti = some t → t.cur = some op →
      LX s ti (idepth t) → LQ s'
  lck : ∀ s ti op s' t, lockedX fuel s ti op = some s' → s.thread? ti = some t → t.cur = some op →
      LX s ti (idepth t + 1) → LQ s'
  sfin : ∀ s ti h w e s' t, schedFinishX fuel s ti h w e = some s' → s.thread? ti = some t →
      (∃ f, t.cur = some (.schedule h w f)) → LX s ti (idepth t + 1) → LQ s'
  ufin : ∀ s ti w s' t, unschedFinishX fuel s ti w = some s' → s.thread? ti = some t →
      t.cur = some (.unschedule w) → (∀ h, registered s.hist h w = false) → LX s ti (idepth t + 1) → LQ s'
  uab : ∀ s ti b s' t, uallBodyX fuel s ti b = some s' → s.thread? ti = some t →
      t.cur = some (if b then .stop else .unscheduleAll) → LX s ti (idepth t + 1) → LQ s'
  uajn : ∀ s ti es b s' t, uallJoinNextX fuel s ti es b = some s' → s.thread? ti = some t →
      t.cur = some (if b then .stop else .unscheduleAll) → (∀ h w, registered s.hist h w = false) →
      LX s ti (idepth t + 1) → LQ s'
  stem : ∀ s ti es s' t, startEmittersX fuel s ti es = some s' → s.thread? ti = some t → t.cur = some .start →
      LX s ti (idepth t) → LQ s'
  cit : ∀ s ti s' t, continueIterX fuel s ti = some s' → s.thread? ti = some t → LX s ti (idepth t) → LQ s'

theorem notok {P : Prop} {r : String} (h : r ≠ "ok") : r = "ok" → P := fun e => absurd e h

theorem allL : ∀ fuel, AllL fuel := by
  intro fuel
  induction fuel with
  | zero =>
    constructor <;> intros <;> simp_all [finishOpX.eq_1, nextOpX.eq_1, startOpX.eq_1, enterLockedX.eq_1, lockedX.eq_1,
      schedFinishX.eq_1, unschedFinishX.eq_1, uallBodyX.eq_1, uallJoinNextX.eq_1, startEmittersX.eq_1, continueIterX.eq_1]
  | succ n ih =>
    constructor
    · -- finishOp
      intro s ti res s' t h ht hL hok
      unfold finishOpX at h
      simp only [ht] at h
      cases hc : t.cur with
      | none =>
        simp only [hc] at h
        refine ih.nxt _ _ _ _ h (setThread_thread?_self _ (by thr)) ?_
        exact (hL.log (.ret t.label t.idx res) trivial (Or.inl rfl)).setThreadMine _
      | some op =>
        simp only [hc] at h
        refine ih.nxt _ _ _ _ h (setThread_thread?_self _ (by thr)) ?_
        exact ((hL.log (.did op res) (fun e h w hr => hok e op hc h w hr) (Or.inl rfl)).log
          (.ret t.label t.idx res) trivial (Or.inl rfl)).setThreadMine _
    · -- nextOp
      intro s ti s' t h ht hL
      unfold nextOpX at h
      simp only [ht] at h
      split at h
      · rename_i op rest hops
        exact ih.sta _ _ _ _ _ h (setThread_thread?_self _ ht) rfl (hL.setThreadMine _)
      · split at h
        · exact ih.cit _ _ _ _ h ht hL
        · cases h
          exact hL.close ht _ (by simp [depth, holdsPc, idepth]) (by simp [CurOK])
    · sorry
    · sorry
    · sorry
    · sorry
    · sorry
    · sorry
    · sorry
    · sorry
    · sorry

end WD.ProofsObs
