/- the lock invariant is preserved by every completed step -/
import WD.Proofs.Observer.LInv
set_option linter.unusedSimpArgs false
set_option linter.unusedVariables false
namespace WD.ProofsObs
open WD WD.Obs

set_option hygiene false in
macro "thr" : tactic => `(tactic| first | exact ht | (simpa using ht) | (simpa [State.thread?] using ht))

theorem idepth_none {t : Thread} (h : t.iter = none) : idepth t = 0 := by simp [idepth, h]

theorem depth_of_not_holds {t : Thread} (h : holdsPc t.pc = false) : depth t = idepth t := by simp [depth, h]
theorem depth_of_holds {t : Thread} (h : holdsPc t.pc = true) : depth t = idepth t + 1 := by
  simp [depth, h]; omega

theorem lpass_d (ti : Nat) : ∀ fuel,
    (∀ s s' t, dLoopX fuel s ti = some s' → s.thread? ti = some t → LX s ti (idepth t) → LQ s') ∧
    (∀ s s' t, dGetX fuel s ti = some s' → s.thread? ti = some t → LX s ti (idepth t) → LQ s') := by
  intro fuel
  induction fuel with
  | zero =>
    refine ⟨?_, ?_⟩
    · intro s s' t h; rw [dLoopX.eq_1] at h; cases h
    · intro s s' t h; rw [dGetX.eq_1] at h; cases h
  | succ n ih =>
    refine ⟨?_, ?_⟩
    · intro s s' t h ht hL
      unfold dLoopX at h
      try simp only [] at h
      split at h
      · cases h
        exact hL.closeUpd ht _ (by simp [depth, holdsPc, idepth]) (by simp [CurOK])
      · exact ih.2 _ _ _ h ht hL
    · intro s s' t h ht hL
      unfold dGetX at h
      try simp only [] at h
      split at h
      · cases h
        exact hL.closeUpd ht _ (by simp [depth, holdsPc, idepth]) (by simp [CurOK])
      · split at h
        · exact ih.1 _ _ _ h (by thr) (hL.frame rfl rfl rfl rfl)
        · cases h
          refine LX.closeUpd (t := t) (d := idepth t) ?_ ?_ _ ?_ ?_
          · exact hL.frame rfl rfl rfl rfl
          · thr
          · simp [depth, holdsPc, idepth]
          · simp [CurOK]

theorem LX.updEm {s : State} {ti d : Nat} (hL : LX s ti d) (e : Eid) (f : EmObj → EmObj) : LX (s.updEm e f) ti d :=
  hL.frame (by simp) (by simp) (by simp) (by simp)

structure AllL (fuel : Nat) : Prop where
  fin : ∀ s ti res s' t, finishOpX fuel s ti res = some s' → s.thread? ti = some t → LX s ti (idepth t) →
      (res = "ok" → ∀ op, t.cur = some op → ∀ h w, removes op h w = true → registered s.hist h w = false) → LQ s'
  nxt : ∀ s ti s' t, nextOpX fuel s ti = some s' → s.thread? ti = some t → LX s ti (idepth t) → LQ s'
  sta : ∀ s ti op s' t, startOpX fuel s ti op = some s' → s.thread? ti = some t → t.cur = some op →
      LX s ti (idepth t) → LQ s'
  ent : ∀ s ti op s' t, enterLockedX fuel s ti op = some s' → s.thread? ti = some t → t.cur = some op →
      LX s ti (idepth t) → LQ s'
  lck : ∀ s ti op s' t, lockedX fuel s ti op = some s' → s.thread? ti = some t → t.cur = some op →
      LX s ti (idepth t + 1) → LQ s'
  sfin : ∀ s ti h w e s' t, schedFinishX fuel s ti h w e = some s' → s.thread? ti = some t →
      (∃ f, t.cur = some (.schedule h w f)) → LX s ti (idepth t + 1) → LQ s'
  ufin : ∀ s ti w s' t, unschedFinishX fuel s ti w = some s' → s.thread? ti = some t →
      t.cur = some (.unschedule w) → (∀ h, registered s.hist h w = false) → LX s ti (idepth t + 1) → LQ s'
  uab : ∀ s ti b s' t, uallBodyX fuel s ti b = some s' → s.thread? ti = some t →
      t.cur = some (if b then .stop else .unscheduleAll) → LX s ti (idepth t + 1) → LQ s'
  uajn : ∀ s ti es b s' t, uallJoinNextX fuel s ti es b = some s' → s.thread? ti = some t →
      t.cur = some (if b then .stop else .unscheduleAll) → (∀ h w, registered s.hist h w = false) →
      LX s ti (idepth t + 1) → LQ s'
  stem : ∀ s ti es s' t, startEmittersX fuel s ti es = some s' → s.thread? ti = some t → t.cur = some .start →
      LX s ti (idepth t) → LQ s'
  cit : ∀ s ti s' t, continueIterX fuel s ti = some s' → s.thread? ti = some t → LX s ti (idepth t) → LQ s'

theorem notok {P : Prop} {r : String} (h : r ≠ "ok") : r = "ok" → P := fun e => absurd e h

theorem allL : ∀ fuel, AllL fuel := by
  intro fuel
  induction fuel with
  | zero =>
    constructor <;> intros <;> simp_all [finishOpX.eq_1, nextOpX.eq_1, startOpX.eq_1, enterLockedX.eq_1, lockedX.eq_1,
      schedFinishX.eq_1, unschedFinishX.eq_1, uallBodyX.eq_1, uallJoinNextX.eq_1, startEmittersX.eq_1, continueIterX.eq_1]
  | succ n ih =>
    constructor
    · -- finishOp
      intro s ti res s' t h ht hL hok
      unfold finishOpX at h
      simp only [ht] at h
      cases hc : t.cur with
      | none =>
        simp only [hc] at h
        refine ih.nxt _ _ _ _ h (setThread_thread?_self _ (by thr)) ?_
        exact (hL.log (.ret t.label t.idx res) trivial (Or.inl rfl)).setThreadMine _
      | some op =>
        simp only [hc] at h
        refine ih.nxt _ _ _ _ h (setThread_thread?_self _ (by thr)) ?_
        exact ((hL.log (.did op res) (fun e h w hr => hok e op hc h w hr) (Or.inl rfl)).log
          (.ret t.label t.idx res) trivial (Or.inl rfl)).setThreadMine _
    · -- nextOp
      intro s ti s' t h ht hL
      unfold nextOpX at h
      simp only [ht] at h
      split at h
      · rename_i op rest hops
        exact ih.sta _ _ _ _ _ h (setThread_thread?_self _ ht) rfl (hL.setThreadMine _)
      · split at h
        · exact ih.cit _ _ _ _ h ht hL
        · cases h
          exact hL.close ht _ (by simp [depth, holdsPc, idepth]) (by simp [CurOK])
    · -- startOp
      intro s ti op s' t h ht hc hL
      unfold startOpX at h
      try simp only [] at h
      split at h
      · split at h
        · exact ih.fin _ _ _ _ _ h ht hL (notok (by decide))
        · exact ih.stem _ _ _ _ _ h ht hc hL
      · split at h
        · exact ih.fin _ _ _ _ _ h ht hL (notok (by decide))
        · split at h
          · exact ih.fin _ _ _ _ _ h ht hL (notok (by decide))
          · cases h
            exact hL.closeUpd ht _ (by simp [depth, holdsPc, idepth]) (by simp [CurOK, hc])
      · exact ih.ent _ _ _ _ _ h ht hc (hL.frame rfl rfl rfl rfl)
      · simp only [ht] at h
        cases h
        exact hL.raise ht (.died t.name) rfl trivial _ (by simp [depth, holdsPc, idepth]) (by simp [CurOK])
      · exact ih.ent _ _ _ _ _ h ht hc hL
    · -- enterLocked
      intro s ti op s' t h ht hc hL
      unfold enterLockedX at h
      try simp only [] at h
      split at h
      · rename_i ho
        exact ih.lck _ _ _ _ _ h ht hc (hL.acquire ho)
      · cases h
        exact hL.closeUpd ht _ (by simp [depth, holdsPc, idepth]) (by simp [CurOK, hc])
    · -- locked
      intro s ti op s' t h ht hc hL
      unfold lockedX at h
      try simp only [] at h
      split at h
      · -- schedule
        rename_i h0 w fault
        have hnr : ∀ op', t.cur = some op' → ∀ h' w', removes op' h' w' = true → False := by
          intro op' hc' h' w' hr; rw [hc] at hc'; cases hc'; simp [removes] at hr
        split at h
        · refine ih.fin _ _ _ _ _ h (by thr) ?_ (fun _ op' hc' h' w' hr => (hnr op' hc' h' w' hr).elim)
          exact LX.release (hL.hist_step (o := .reg h0 w) rfl rfl rfl rfl trivial (Or.inr (Nat.succ_pos _)))
        · split at h
          · exact ih.fin _ _ _ _ _ h (by thr) hL.release (notok (by decide))
          · split at h
            · split at h
              · exact ih.fin _ _ _ _ _ h (by thr) (LX.release (hL.frame rfl rfl rfl rfl)) (notok (by decide))
              · cases h
                refine LX.closeUpd (t := t) (d := idepth t + 1) ?_ ?_ _ ?_ ?_
                · have hL1 : LX ({ s with emObjs := s.emObjs ++ [({ wid := w, script := (alookup w s.emitScripts).getD [] } : EmObj)] } : State) ti (idepth t + 1) :=
                    hL.frame rfl rfl rfl rfl
                  exact LX.updEm (hL1.spawn _ _) _ _
                · rw [updEm_thread?]; exact spawn_thread? _ _ ht
                · simp [depth, holdsPc, idepth]; omega
                · exact ⟨fault, hc⟩
            · exact ih.sfin _ _ _ _ _ _ _ h ht ⟨fault, hc⟩ (hL.frame rfl rfl rfl rfl)
      · -- unschedule
        rename_i w
        split at h
        · exact ih.fin _ _ _ _ _ h (by thr) hL.release (notok (by decide))
        · split at h
          · exact ih.fin _ _ _ _ _ h (by thr) hL.release (notok (by decide))
          · rename_i e he hnone
            have hL2 : LX ((({ s with handlers := aerase w s.handlers, regEm := s.regEm.filter (· != e) } : State).log (.unregW w)).updEm e (fun o => { o with stopped := true })) ti (idepth t + 1) :=
              LX.frame (hL.hist_step (o := .unregW w) (s' := (({ s with handlers := aerase w s.handlers, regEm := s.regEm.filter (· != e) } : State).log (.unregW w))) rfl rfl rfl rfl trivial (Or.inl rfl))
                (by simp) (by simp) (by simp) (by simp)
            have hreg : ∀ h', registered ((({ s with handlers := aerase w s.handlers, regEm := s.regEm.filter (· != e) } : State).log (.unregW w)).updEm e (fun o => { o with stopped := true })).hist h' w = false := by
              intro h'; simp [registered_snoc, regStep]
            split at h
            · cases h
              exact hL2.closeUpd (by thr) _ (by simp [depth, holdsPc, idepth]; omega) ⟨hc, hreg⟩
            · exact ih.ufin _ _ _ _ _ h (by thr) hc hreg hL2
      · -- addHandler
        rename_i h0 w
        refine ih.fin _ _ _ _ _ h (by thr) ?_ ?_
        · exact LX.release (hL.hist_step (o := .reg h0 w) rfl rfl rfl rfl trivial (Or.inr (Nat.succ_pos _)))
        · intro _ op' hc' h' w' hr; rw [hc] at hc'; cases hc'; simp [removes] at hr
      · -- removeHandler
        rename_i h0 w
        split at h
        · refine ih.fin _ _ _ _ _ h (by thr) ?_ ?_
          · exact LX.release (hL.hist_step (o := .unreg h0 w) rfl rfl rfl rfl trivial (Or.inl rfl))
          · intro _ op' hc' h' w' hr; rw [hc] at hc'; cases hc'
            simp [removes] at hr
            obtain ⟨e1, e2⟩ := hr; subst e1; subst e2
            simp [registered_snoc, regStep]
        · exact ih.fin _ _ _ _ _ h (by thr) (LX.release (hL.frame rfl rfl rfl rfl)) (notok (by decide))
      · exact ih.uab _ _ _ _ _ h ht (by simpa using hc) hL
      · exact ih.uab _ _ _ _ _ h ht (by simpa using hc) hL
      · cases h
    · -- schedFinish
      intro s ti h0 w e s' t h ht hc hL
      unfold schedFinishX at h
      try simp only [] at h
      refine ih.fin _ _ _ _ _ h (by thr) ?_ ?_
      · exact LX.release (hL.hist_step (o := .reg h0 w) rfl rfl rfl rfl trivial (Or.inr (Nat.succ_pos _)))
      · obtain ⟨f, hc⟩ := hc
        intro _ op' hc' h' w' hr; rw [hc] at hc'; cases hc'; simp [removes] at hr
    · -- unschedFinish
      intro s ti w s' t h ht hc hreg hL
      unfold unschedFinishX at h
      try simp only [] at h
      split at h
      · refine ih.fin _ _ _ _ _ h (by thr) (LX.release (hL.frame rfl rfl rfl rfl)) ?_
        intro _ op' hc' h' w' hr; rw [hc] at hc'; cases hc'
        simp [removes] at hr; subst hr
        simpa using hreg h'
      · exact ih.fin _ _ _ _ _ h (by thr) hL.release (notok (by decide))
    · -- uallBody
      intro s ti b s' t h ht hc hL
      unfold uallBodyX at h
      try simp only [] at h
      refine ih.uajn _ _ _ _ _ _ h ?_ hc ?_ ?_
      · rw [foldUpdEm_thread?]; exact ht
      · intro h' w'; rw [foldUpdEm_hist]; simp [registered_snoc, regStep]
      · apply LX.foldUpdEm
        exact hL.hist_step (o := .unregAll) rfl rfl rfl rfl trivial (Or.inl rfl)
    · -- uallJoinNext
      intro s ti es b s' t h ht hc hreg hL
      unfold uallJoinNextX at h
      try simp only [] at h
      split at h
      · split at h
        · cases h
          exact hL.closeUpd ht _ (by simp [depth, holdsPc, idepth]; omega) ⟨hc, hreg⟩
        · exact ih.uajn _ _ _ _ _ _ h ht hc hreg hL
      · have hL1 : LX ({ s with regEm := [], watches := [] } : State).release ti (idepth t) :=
          LX.release (hL.frame rfl rfl rfl rfl)
        have ht1 : ({ s with regEm := [], watches := [] } : State).release.thread? ti = some t := by thr
        have hreg1 : ∀ h' w', registered ({ s with regEm := [], watches := [] } : State).release.hist h' w' = false := by
          intro h' w'; simpa using hreg h' w'
        generalize ({ s with regEm := [], watches := [] } : State).release = s1 at h hL1 ht1 hreg1
        split at h
        · obtain ⟨t', ht', e1, e2, e3, e4⟩ := putItem_thread? (fun _ => QItem.stop) (fun _ => Obs.enqStop) Obs.dropStop ht1
          have hi : idepth t' = idepth t := by simp [idepth, e2]
          refine ih.fin _ _ _ _ _ h ht' ?_ ?_
          · rw [hi]; exact hL1.putItem _ _ _ rfl rfl trivial trivial
          · intro _ op' hc' h' w' hr
            rw [putItem_registered _ _ _ _ rfl rfl]; exact hreg1 h' w'
        · refine ih.fin _ _ _ _ _ h ht1 hL1 ?_
          intro _ op' hc' h' w' hr; exact hreg1 h' w'
    · -- startEmitters
      intro s ti es s' t h ht hc hL
      unfold startEmittersX at h
      try simp only [] at h
      split at h
      · split at h
        · cases h
          refine LX.closeUpd (t := t) (d := idepth t) ?_ ?_ _ ?_ ?_
          · exact LX.updEm (hL.spawn _ _) _ _
          · rw [updEm_thread?]; exact spawn_thread? _ _ ht
          · simp [depth, holdsPc, idepth]
          · simpa [CurOK] using hc
        · cases h
      · cases h
        refine LX.closeUpd (t := t) (d := idepth t) ?_ ?_ _ ?_ ?_
        · exact LX.frame (hL.spawn "D" .dispatcher) rfl rfl rfl rfl
        · exact spawn_thread? "D" .dispatcher ht
        · simp [depth, holdsPc, idepth]
        · simpa [CurOK] using hc
    · -- continueIter
      intro s ti s' t h ht hL
      unfold continueIterX at h
      simp only [ht] at h
      split at h
      · cases h
      · rename_i u w v hit
        have hi : idepth t = 1 := by simp [idepth, hit]
        rw [hi] at hL
        refine (lpass_d ti n).1 _ _ { t with iter := none } h ?_ ?_
        · rw [release_thread?]; exact setThread_thread?_self _ (by thr)
        · exact ((hL.log (.dispatchEnd u) trivial (Or.inl rfl)).setThreadMine _).release
      · rename_i u w v h0 rest hit
        have hi : idepth t = 1 := by simp [idepth, hit]
        rw [hi] at hL
        have hL0 : LX (if (alookup w s.handlers).isNone then ({ s with handlers := ainsert w [] s.handlers } : State) else s) ti 1 := by
          split
          · exact hL.frame rfl rfl rfl rfl
          · exact hL
        have ht0 : (if (alookup w s.handlers).isNone then ({ s with handlers := ainsert w [] s.handlers } : State) else s).thread? ti = some t := by
          split <;> exact ht
        generalize (if (alookup w s.handlers).isNone then ({ s with handlers := ainsert w [] s.handlers } : State) else s) = s0 at h hL0 ht0
        split at h
        · refine ih.nxt _ _ _ _ h (setThread_thread?_self (t := t) _ (by rw [log_thread?]; exact ht0)) ?_
          exact (LX.log (s := { s0 with invoc := ainsert h0 ((alookup h0 s0.invoc).getD 0 + 1) s0.invoc }) (hL0.frame rfl rfl rfl rfl) (.call h0 w v u) trivial (Or.inl rfl)).setThreadMine _
        · refine ih.cit _ _ _ _ h (setThread_thread?_self _ (by simpa using ht0)) ?_
          exact (hL0.log (.skip h0 u) trivial (Or.inl rfl)).setThreadMine _

end WD.ProofsObs
