/-
  Four of the statements of WD.Props.C04 are false in the model as it stands.  Concrete witnesses:

  * two `start` calls create two dispatcher threads, which then deliver entries out of order;
  * a script of more than ~2000 calls exhausts `FUEL` in the middle of a step: the model then returns
    the intermediate state with the thread's `pc` unchanged, and the thread later re-executes the code
    after that (stale) `pc`.
-/
import WD.Proofs.Observer.OStep
namespace WD.ProofsObs
open WD WD.Obs

/-! ### `order_at_most_once`: two dispatchers -/

def cex1_clients : List (List Op) := [[.schedule 0 0 0, .start, .start]]
def cex1_emit : List (Wid × List Nat) := [(0, [1, 2])]
def cex1_sched : List Nat := [0, 0, 0, 0, 0, 0, 1, 1, 1, 2, 4, 4, 2]

theorem cex1_calls : callUids 0 (run (init cex1_clients [] cex1_emit) cex1_sched).hist = [2, 1] := by
  decide +kernel

theorem cex1_runOk : runOk (init cex1_clients [] cex1_emit) cex1_sched = true := by decide +kernel

theorem order_at_most_once_false :
    ¬ ∀ (clients : List (List Op)) (cbs : List (Hid × List (List Op))) (emit : List (Wid × List Nat))
        (sched : List Nat) (h : Hid), (callUids h (run (init clients cbs emit) sched).hist).Pairwise (· < ·) := by
  intro H
  have := H cex1_clients [] cex1_emit cex1_sched 0
  rw [cex1_calls] at this
  simp at this

end WD.ProofsObs
