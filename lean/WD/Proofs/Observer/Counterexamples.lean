/-
  Four of the statements of WD.Props.C04 are false in the model as it stands.  Concrete witnesses:

  * two application threads that call `start()` at the same time (the second enters before the first has
    started the dispatcher thread, so the `ident` guard lets both through) create two dispatcher threads,
    which then deliver entries out of order;
  * a script of more than ~2000 calls exhausts `FUEL` in the middle of a step: the model then returns
    the intermediate state with the thread's `pc` unchanged, and the thread later re-executes the code
    after that (stale) `pc`.
-/
import WD.Proofs.Observer.OStep
namespace WD.ProofsObs
open WD WD.Obs

/-! ### `order_at_most_once`: two dispatchers -/

def cex1_clients : List (List Op) := [[.schedule 0 0 0, .start], [.start]]
def cex1_emit : List (Wid × List Nat) := [(0, [1, 2])]
def cex1_sched : List Nat := [0, 0, 2, 1, 2, 0, 3, 1, 5, 3, 4, 4, 5]

theorem cex1_calls : callUids 0 (run (init cex1_clients [] cex1_emit) cex1_sched).hist = [2, 1] := by
  decide +kernel

theorem cex1_runOk : runOk (init cex1_clients [] cex1_emit) cex1_sched = true := by decide +kernel

theorem order_at_most_once_false :
    ¬ ∀ (clients : List (List Op)) (cbs : List (Hid × List (List Op))) (emit : List (Wid × List Nat))
        (sched : List Nat) (h : Hid), (callUids h (run (init clients cbs emit) sched).hist).Pairwise (· < ·) := by
  intro H
  have := H cex1_clients [] cex1_emit cex1_sched 0
  rw [cex1_calls] at this
  simp at this

/-! ### `unregistered_on_return`, `nothing_after_return`: fuel exhaustion in a callback

  Handler 0's callback schedules handler 7 on watch 9 (the dispatcher stops at `schedStarted`, a new emitter
  thread having been started), resumes, makes 1999 further calls and runs out of fuel on entering
  `removeHandler 7 9`, with `cur = removeHandler 7 9` and the stale `pc = schedStarted 7 9 _`.  Its next step
  re-executes `schedFinish`: it logs `reg 7 9` and then `did (removeHandler 7 9) "ok"`.  Handler 7 is later
  called for watch 9 without any further registration.  (Checked by evaluation: the kernel needs too long
  to replay 10000 nested calls for a `decide`.) -/

def cex2_cb : List Op := [.schedule 7 9 0] ++ List.replicate 1999 (.addHandler 1 0) ++ [.removeHandler 7 9]
def cex2_init : State := init [[.schedule 0 0 0, .start]] [(0, [cex2_cb])] [(0, [1]), (9, [5])]
def cex2_sched : List Nat := [0, 0, 0, 0, 1, 1, 2, 2, 2, 2, 3, 3, 2, 2]
def cex2_hist : List Obs := (run cex2_init cex2_sched).hist

-- `hist = p ++ did (removeHandler 7 9) "ok" :: q ++ call 7 9 5 2 :: r` with `registered p 7 9 = true` and no `reg 7 9` in `q`
#guard
  let i := cex2_hist.idxOf (.did (.removeHandler 7 9) "ok")
  let p := cex2_hist.take i
  let rest := cex2_hist.drop (i + 1)
  let j := rest.idxOf (.call 7 9 5 2)
  let q := rest.take j
  cex2_hist[i]? == some (.did (.removeHandler 7 9) "ok") && rest[j]? == some (.call 7 9 5 2) &&
    removes (.removeHandler 7 9) 7 9 && registered p 7 9 && !q.contains (.reg 7 9)

#guard runOk cex2_init cex2_sched == false

/-! ### `complete`: fuel exhaustion twice, and a lock released by a thread that does not hold it

  Client 1 unschedules watch 5 while `observer.start()` (client 0) is between starting the emitters and starting
  the dispatcher, resumes from `unschedJoin`, releases the lock, then burns its fuel on `join` calls that raise
  (no dispatcher yet): its `pc` stays `unschedJoin`.  The dispatcher copies `[0, 1]` for entry 1, calls handler 0,
  whose callback removes handler 1 and then runs out of fuel: the dispatcher keeps the lock, `pc = dLock 1 ..`.
  Client 1 steps again from its stale `unschedJoin` and releases the dispatcher's lock; the dispatcher re-executes
  the `dLock` step: a second `dispatch 1 0 [0]`, which completes.  Handler 1 of the first copy is neither called
  nor skipped before `dispatchEnd 1`. -/

def cex3_cb : List Op := [.removeHandler 1 0] ++ List.replicate 2500 (.addHandler 0 0)
def cex3_c1 : List Op := [.unschedule 5] ++ List.replicate 3400 .join
def cex3_init : State :=
  init [[.schedule 0 0 0, .schedule 1 0 0, .schedule 2 5 0, .start], cex3_c1] [(0, [cex3_cb])] [(0, [1])]
def cex3_sched : List Nat := [0, 0, 0, 0, 0, 1, 1, 3, 1, 0, 0, 2, 2, 4, 4, 1, 4]
def cex3_hist : List Obs := (run cex3_init cex3_sched).hist

-- `hist = p ++ dispatch 1 0 [0, 1] :: q ++ dispatchEnd 1 :: r`, `1 ∈ [0, 1]`, but no `call 1 0 _ 1` and no `skip 1 1` in `q`
#guard
  let i := cex3_hist.idxOf (.dispatch 1 0 [0, 1])
  let rest := cex3_hist.drop (i + 1)
  let j := rest.idxOf (.dispatchEnd 1)
  let q := rest.take j
  cex3_hist[i]? == some (.dispatch 1 0 [0, 1]) && rest[j]? == some (.dispatchEnd 1) &&
    !q.any (fun o => match o with | .call 1 0 _ 1 => true | .skip 1 1 => true | _ => false)

#guard runOk cex3_init cex3_sched == false

/-- the non-vacuity example of WD.Props.C04 satisfies both hypotheses of the corrected statements -/
example :
    let s0 := init [[.schedule 0 0 0, .schedule 1 0 0, .start]] [(0, [[.unschedule 0]])] [(0, [1, 2])]
    let sched := [0, 0, 0, 0, 0, 1, 1, 1, 2, 2, 1, 2]
    runOk s0 sched = true ∧
      ((run s0 sched).threads.filter (fun t => t.kind == .dispatcher)).length = 1 := by decide +kernel

end WD.ProofsObs
