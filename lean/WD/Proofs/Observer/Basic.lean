/- list / fold / association-list helper lemmas for the observer proofs -/
import WD.Model.Observer
import WD.Spec.ObserverSpec
namespace WD.ProofsObs
open WD WD.Obs

theorem snoc_induction {α : Type} {P : List α → Prop} (nil : P [])
    (snoc : ∀ l a, P l → P (l ++ [a])) (l : List α) : P l := by
  have h : ∀ l : List α, P l.reverse := by
    intro l
    induction l with
    | nil => simpa using nil
    | cons a l ih => simpa using snoc _ a ih
  simpa using h l.reverse

theorem eq_nil_or_snoc {α : Type} (l : List α) : l = [] ∨ ∃ l' a, l = l' ++ [a] := by
  induction l using snoc_induction with
  | nil => exact Or.inl rfl
  | snoc l a _ => exact Or.inr ⟨l, a, rfl⟩

/-- where can `x` sit in `l ++ [o]`? -/
theorem snoc_eq_append_cons {α : Type} {l p q : List α} {o x : α} (h : l ++ [o] = p ++ x :: q) :
    (q = [] ∧ p = l ∧ x = o) ∨ (∃ q', q = q' ++ [o] ∧ l = p ++ x :: q') := by
  rcases eq_nil_or_snoc q with hq | ⟨q', y, hq⟩
  · subst hq
    have := List.append_inj' h (by simp)
    simp at this
    exact Or.inl ⟨rfl, this.1.symm, this.2.symm⟩
  · subst hq
    have h' : l ++ [o] = (p ++ x :: q') ++ [y] := by simpa using h
    have := List.append_inj' h' (by simp)
    simp at this
    refine Or.inr ⟨q', ?_, ?_⟩
    · rw [this.2]
    · simpa using this.1

/-- two decompositions of the same list around `a` and `b` -/
theorem append_cons_eq_append_cons {α : Type} {p q p' q' : List α} {a b : α}
    (h : p ++ a :: q = p' ++ b :: q') :
    (p = p' ∧ a = b ∧ q = q') ∨ (∃ m, p = p' ++ b :: m ∧ q' = m ++ a :: q) ∨
      (∃ m, p' = p ++ a :: m ∧ q = m ++ b :: q') := by
  rcases List.append_eq_append_iff.mp h with ⟨m, h1, h2⟩ | ⟨m, h1, h2⟩
  · -- p' = p ++ m, a :: q = m ++ b :: q'
    cases m with
    | nil => simp at h1 h2; exact Or.inl ⟨h1.symm, h2.1, h2.2⟩
    | cons c m =>
      simp at h2
      exact Or.inr (Or.inr ⟨m, by rw [h1, h2.1], h2.2⟩)
  · cases m with
    | nil => simp at h1 h2; exact Or.inl ⟨h1, h2.1.symm, h2.2.symm⟩
    | cons c m =>
      simp at h2
      exact Or.inr (Or.inl ⟨m, by rw [h1, h2.1], h2.2⟩)

/-! ### `registered` as a fold -/

def regStep (h : Hid) (w : Wid) (acc : Bool) (o : Obs) : Bool :=
  match o with
  | .reg h' w' => if h' = h ∧ w' = w then true else acc
  | .unreg h' w' => if h' = h ∧ w' = w then false else acc
  | .unregW w' => if w' = w then false else acc
  | .unregAll => false
  | _ => acc

theorem registered_eq_foldl (p : List Obs) (h : Hid) (w : Wid) :
    registered p h w = p.foldl (regStep h w) false := rfl

@[simp] theorem registered_nil (h : Hid) (w : Wid) : registered [] h w = false := rfl

theorem registered_snoc (p : List Obs) (o : Obs) (h : Hid) (w : Wid) :
    registered (p ++ [o]) h w = regStep h w (registered p h w) o := by
  simp [registered_eq_foldl, List.foldl_append]

theorem registered_append (p q : List Obs) (h : Hid) (w : Wid) :
    registered (p ++ q) h w = q.foldl (regStep h w) (registered p h w) := by
  simp [registered_eq_foldl, List.foldl_append]

/-- observations that do not touch the registration fold -/
def regGhost : Obs → Bool
  | .reg .. => true
  | .unreg .. => true
  | .unregW .. => true
  | .unregAll => true
  | _ => false

theorem regStep_neutral {o : Obs} (ho : regGhost o = false) (h : Hid) (w : Wid) (acc : Bool) :
    regStep h w acc o = acc := by
  cases o <;> simp_all [regGhost, regStep]

/-- if the fold goes from `false` to `true` over `q`, some `.reg h w` is in `q` -/
theorem reg_mem_of_foldl {q : List Obs} {h : Hid} {w : Wid} {acc : Bool}
    (h0 : acc = false) (h1 : q.foldl (regStep h w) acc = true) : Obs.reg h w ∈ q := by
  induction q generalizing acc with
  | nil => simp_all
  | cons o q ih =>
    simp only [List.foldl_cons] at h1
    by_cases ho : o = Obs.reg h w
    · simp [ho]
    · have : regStep h w acc o = false := by
        subst h0
        cases o <;> simp_all [regStep]
        all_goals (try (split <;> simp_all))
      exact List.mem_cons_of_mem _ (ih this h1)

/-! ### `enqUids` / `callUids` -/

theorem enqUids_append (p q : List Obs) : enqUids (p ++ q) = enqUids p ++ enqUids q := by
  simp [enqUids, List.filterMap_append]

theorem callUids_append (h : Hid) (p q : List Obs) : callUids h (p ++ q) = callUids h p ++ callUids h q := by
  simp [callUids, List.filterMap_append]

theorem mem_enqUids {p : List Obs} {u : Nat} : u ∈ enqUids p ↔ ∃ w v, Obs.enq w v u ∈ p := by
  simp only [enqUids, List.mem_filterMap]
  constructor
  · rintro ⟨o, ho, h⟩
    cases o <;> simp at h
    subst h; exact ⟨_, _, ho⟩
  · rintro ⟨w, v, h⟩; exact ⟨_, h, rfl⟩

theorem mem_callUids {h : Hid} {p : List Obs} {u : Nat} :
    u ∈ callUids h p ↔ ∃ w v, Obs.call h w v u ∈ p := by
  simp only [callUids, List.mem_filterMap]
  constructor
  · rintro ⟨o, ho, hh⟩
    cases o <;> simp at hh
    obtain ⟨h1, h2⟩ := hh
    subst h1; subst h2; exact ⟨_, _, ho⟩
  · rintro ⟨w, v, hh⟩; exact ⟨_, hh, by simp⟩

/-! ### sorted insertion and handler tables -/

theorem mem_insertSorted {x y : Nat} {l : List Nat} : x ∈ insertSorted y l ↔ x = y ∨ x ∈ l := by
  induction l with
  | nil => simp [insertSorted]
  | cons a l ih =>
    simp only [insertSorted]
    split
    · simp
    · split
      · rename_i h1 h2; subst h2; simp
      · simp [ih]; constructor
        · rintro (h | h | h) <;> simp [h]
        · rintro (h | h | h) <;> simp [h]

def hOf (hs : List (Wid × List Hid)) (w : Wid) : List Hid := (alookup w hs).getD []

theorem handlersOf_eq (s : State) (w : Wid) : s.handlersOf w = hOf s.handlers w := rfl

theorem hOf_ainsert (hs : List (Wid × List Hid)) (w w' : Wid) (l : List Hid) :
    hOf (ainsert w l hs) w' = if w' = w then l else hOf hs w' := by
  unfold hOf
  by_cases h : w' = w
  · subst h; simp [alookup_ainsert_self]
  · have : w ≠ w' := fun e => h e.symm
    simp [h, alookup_ainsert_ne _ _ this]

theorem hOf_aerase (hs : List (Wid × List Hid)) (w w' : Wid) :
    hOf (aerase w hs) w' = if w' = w then [] else hOf hs w' := by
  unfold hOf
  by_cases h : w' = w
  · subst h; simp [alookup_aerase_self]
  · have : w ≠ w' := fun e => h e.symm
    simp [h, alookup_aerase_ne _ this]

@[simp] theorem hOf_nil (w : Wid) : hOf [] w = [] := rfl

theorem hOf_touch (hs : List (Wid × List Hid)) (w w' : Wid) (h : (alookup w hs).isNone = true) :
    hOf (ainsert w [] hs) w' = hOf hs w' := by
  rw [hOf_ainsert]
  split
  · rename_i e; subst e
    unfold hOf
    cases hh : alookup w' hs <;> simp_all
  · rfl

theorem hOf_self (hs : List (Wid × List Hid)) (w w' : Wid) :
    hOf (ainsert w (hOf hs w) hs) w' = hOf hs w' := by
  rw [hOf_ainsert]; split
  · rename_i e; subst e; rfl
  · rfl

/-! ### generic "every element is fine w.r.t. its prefix" -/

def Good (G : List Obs → Obs → Prop) (hist : List Obs) : Prop :=
  ∀ p o q, hist = p ++ o :: q → G p o

theorem Good.nil (G : List Obs → Obs → Prop) : Good G [] := by
  intro p o q h; simp at h

theorem Good.snoc {G : List Obs → Obs → Prop} {hist : List Obs} {o : Obs}
    (hg : Good G hist) (ho : G hist o) : Good G (hist ++ [o]) := by
  intro p x q h
  rcases snoc_eq_append_cons h with ⟨_, hp, hx⟩ | ⟨q', _, hl⟩
  · subst hp; subst hx; exact ho
  · exact hg p x q' hl

theorem Good.mono {G G' : List Obs → Obs → Prop} {hist : List Obs}
    (hg : Good G hist) (h : ∀ p o, G p o → G' p o) : Good G' hist :=
  fun p o q e => h _ _ (hg p o q e)

end WD.ProofsObs
