/- helper lemmas and the proofs behind WD.Props.C10 -/
import WD.Model.Polling
import WD.Spec.PollingSpec
import WD.Props.C09
namespace WD.ProofsPoll
open WD WD.Poll

theorem walkSubs_tolerant (root : String) : (nodes : List VNode) → tolerantBelow nodes = true →
    (walkSubs root nodes).2 = none
  | [], _ => by simp [walkSubs]
  | .mk n (.error e) l :: rest, h => by
    simp only [tolerantBelow] at h
    simp only [walkSubs]
    exact walkSubs_tolerant root rest h
  | .mk n (.ok st) (.ok ch) :: rest, h => by
    simp only [tolerantBelow, Bool.and_eq_true] at h
    have ih := walkSubs_tolerant root rest h.2
    simp only [walkSubs]
    split
    · rename_i hd
      simp only [hd, if_true] at h
      have ih2 := walkSubs_tolerant (join root n) ch h.1
      simp only [walk, if_true]
      split
      · simp_all
      · rename_i heq
        simp_all
    · exact ih
  | .mk n (.ok st) (.error e) :: rest, h => by
    simp only [tolerantBelow, Bool.and_eq_true] at h
    have ih := walkSubs_tolerant root rest h.2
    simp only [walkSubs]
    split
    · rename_i hd
      simp only [hd, if_true] at h
      simp only [walk]
      by_cases ht : tolerated e = true
      · simp [ht, ih]
      · have he : e = .eacces := by simpa [ht] using h.1
        subst he
        simp [ht, ih]
    · exact ih

theorem perm_aux {α} (p : α) (ownR X more allCh allRest : List α)
    (h1 : X.Perm allCh) (h2 : (ownR ++ more).Perm allRest) :
    (p :: ownR ++ (X ++ more)).Perm (p :: (allCh ++ allRest)) := by
  refine List.Perm.cons _ ?_
  have : (ownR ++ (X ++ more)).Perm (X ++ (ownR ++ more)) := by
    rw [← List.append_assoc, ← List.append_assoc]
    exact List.Perm.append_right _ List.perm_append_comm
  exact this.trans (List.Perm.append h1 h2)

theorem walkSubs_complete (root : String) : (nodes : List VNode) → faultFree nodes = true →
    (walkSubs root nodes).2 = none ∧
      (ownEntries root nodes ++ (walkSubs root nodes).1).Perm (allEntries root nodes)
  | [], _ => by simp [walkSubs, ownEntries, allEntries]
  | .mk n (.error e) l :: rest, h => by
    simp [faultFree] at h
  | .mk n (.ok st) (.ok ch) :: rest, h => by
    simp only [faultFree, Bool.and_eq_true] at h
    have ih := walkSubs_complete root rest h.2
    simp only [walkSubs, ownEntries, allEntries]
    by_cases hd : st.isdir = true
    · simp only [hd, if_true] at h ⊢
      have ih2 := walkSubs_complete (join root n) ch h.1
      simp only [walk, if_true]
      rcases hr : walkSubs root rest with ⟨more, err⟩
      rcases hc : walkSubs (join root n) ch with ⟨sub, err2⟩
      rw [hr] at ih; rw [hc] at ih2
      simp only at ih ih2
      obtain ⟨rfl, ihp⟩ := ih
      obtain ⟨rfl, ihp2⟩ := ih2
      simp only [true_and]
      exact perm_aux _ _ _ _ _ _ ihp2 ihp
    · simp only [hd] at h ⊢
      refine ⟨ih.1, ?_⟩
      simpa using ih.2
  | .mk n (.ok st) (.error e) :: rest, h => by
    simp only [faultFree, Bool.and_eq_true] at h
    have ih := walkSubs_complete root rest h.2
    have hd : ¬ st.isdir = true := by simpa using h.1
    simp only [walkSubs, ownEntries, allEntries, hd]
    refine ⟨ih.1, ?_⟩
    simpa using ih.2

theorem walk_tolerant (recursive : Bool) (root : String) (l : Except Err (List VNode))
    (h : tolerantTop l = true) : (walk recursive root l).2 = none := by
  cases l with
  | error e =>
    simp only [tolerantTop] at h
    simp [walk, h]
  | ok nodes =>
    simp only [tolerantTop] at h
    have := walkSubs_tolerant root nodes h
    cases recursive
    · simp [walk]
    · simp only [walk, if_true]
      rcases hr : walkSubs root nodes with ⟨sub, err⟩
      rw [hr] at this
      simpa using this

theorem snapshot_never_raises (recursive : Bool) (path : String) (st : Stat) (l : Except Err (List VNode))
    (h : tolerantTop l = true) : ∃ s, takeSnapshot recursive (.mk path (.ok st) l) = .ok s := by
  have := walk_tolerant recursive path l h
  rcases hw : walk recursive path l with ⟨entries, err⟩
  rw [hw] at this
  simp only at this
  subst this
  exact ⟨Snap.build ((path, st) :: entries), by simp only [takeSnapshot, hw]⟩

theorem walk_complete (root : String) (nodes : List VNode) (h : faultFree nodes = true) :
    (walk true root (.ok nodes)).1.Perm (allEntries root nodes) ∧ (walk true root (.ok nodes)).2 = none := by
  have := walkSubs_complete root nodes h
  simp only [walk, if_true]
  rcases hr : walkSubs root nodes with ⟨sub, err⟩
  rw [hr] at this
  exact ⟨this.2, this.1⟩

theorem nonrecursive_children (root : String) (nodes : List VNode) :
    walk false root (.ok nodes) = (ownEntries root nodes, none) := by
  simp [walk]

theorem own_entries_iff (root : String) (nodes : List VNode) (p : Path) (st : Stat) :
    (p, st) ∈ ownEntries root nodes ↔ ∃ n l, VNode.mk n (.ok st) l ∈ nodes ∧ p = join root n := by
  induction nodes with
  | nil => simp [ownEntries]
  | cons v rest ih =>
    rcases v with ⟨n, s | s, l⟩
    · simp only [ownEntries, ih, List.mem_cons, VNode.mk.injEq]
      constructor
      · rintro ⟨n', l', hm, hp⟩
        exact ⟨n', l', Or.inr hm, hp⟩
      · rintro ⟨n', l', hm | hm, hp⟩
        · exact absurd hm.2.1 (by simp)
        · exact ⟨n', l', hm, hp⟩
    · simp only [ownEntries, ih, List.mem_cons, VNode.mk.injEq, Prod.mk.injEq, Except.ok.injEq]
      constructor
      · rintro (⟨hp, hs⟩ | ⟨n', l', hm, hp⟩)
        · exact ⟨n, l, Or.inl ⟨rfl, hs, rfl⟩, hp⟩
        · exact ⟨n', l', Or.inr hm, hp⟩
      · rintro ⟨n', l', ⟨hn, hs, hl⟩ | hm, hp⟩
        · exact Or.inl ⟨by rw [hp, hn], hs⟩
        · exact Or.inr ⟨n', l', hm, hp⟩

theorem baseline (recursive : Bool) (root : VNode) (em : Emitter) (h : Emitter.start recursive root = some em) :
    takeSnapshot recursive root = .ok em.snapshot ∧ em.stopped = false ∧ em.recursive = recursive := by
  unfold Emitter.start at h
  split at h
  · rename_i s hs
    simp only [Option.some.injEq] at h
    subst h
    exact ⟨hs, rfl, rfl⟩
  · simp at h

theorem poll_events (em : Emitter) (root : VNode) (new : Snap) (hs : em.stopped = false)
    (hn : takeSnapshot em.recursive root = .ok new) :
    (em.poll root).2 = diffEvents ((diff false em.snapshot new).lists em.snapshot new) ∧
    (em.poll root).1.snapshot = new ∧ (em.poll root).1.stopped = false ∧
    totalEvents (em.poll root).2 =
      (let l := (diff false em.snapshot new).lists em.snapshot new
       l.filesDeleted.length + l.filesModified.length + l.filesCreated.length + l.filesMoved.length +
       l.dirsDeleted.length + l.dirsModified.length + l.dirsCreated.length + l.dirsMoved.length) := by
  have hp : em.poll root = ({ em with snapshot := new },
      diffEvents ((diff false em.snapshot new).lists em.snapshot new)) := by
    simp only [Emitter.poll, hs, hn]
    simp
  rw [hp]
  refine ⟨rfl, rfl, hs, ?_⟩
  simp [totalEvents, diffEvents, Nat.add_assoc]

theorem quiet (em : Emitter) (root : VNode) (hs : em.stopped = false) (hwf : em.snapshot.WF)
    (hn : takeSnapshot em.recursive root = .ok em.snapshot) : totalEvents (em.poll root).2 = 0 := by
  obtain ⟨-, -, -, ht⟩ := poll_events em root em.snapshot hs hn
  rw [ht]
  obtain ⟨h1, h2, h3, h4⟩ := WD.C09.self_empty hwf
  simp [Diff.lists, h1, h2, h3, h4]

theorem root_gone (em : Emitter) (root : VNode) (e : Err) (hs : em.stopped = false)
    (hn : takeSnapshot em.recursive root = .error e) :
    (em.poll root).2 = [[⟨.DirDeletedEvent, em.rootPath, "", false⟩]] ∧ (em.poll root).1.stopped = true ∧
    ∀ root', ((em.poll root).1.poll root').2 = [] ∧ ((em.poll root).1.poll root').1 = (em.poll root).1 := by
  have hp : em.poll root = ({ em with stopped := true },
      [[⟨.DirDeletedEvent, em.rootPath, "", false⟩]]) := by
    simp only [Emitter.poll, hs, hn]
    simp
  rw [hp]
  refine ⟨rfl, rfl, ?_⟩
  intro root'
  simp [Emitter.poll]

end WD.ProofsPoll
