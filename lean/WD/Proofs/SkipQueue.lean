/- helper lemmas and the proofs behind WD.Props.C16 -/
import WD.Model.SkipQueue
import WD.Spec.SkipQueueSpec
namespace WD.Proofs
open WD.SQ

theorem sq_fifo_no_loss (scripts : List (List Op)) (sched : List Nat) :
    enqs (run (init scripts) sched).hist =
      gots (run (init scripts) sched).hist ++ (run (init scripts) sched).queue := by
  sorry

theorem sq_last_is_tail (scripts : List (List Op)) (sched : List Nat) (h : distinctPuts scripts) :
    (run (init scripts) sched).last = (run (init scripts) sched).queue.getLast? := by
  sorry

theorem sq_only_duplicates_dropped (scripts : List (List Op)) (sched : List Nat) (h : distinctPuts scripts)
    (tid : Nat) (s' : State) (x y : Item)
    (hs : step (run (init scripts) sched) tid = some s')
    (hd : s'.hist = (run (init scripts) sched).hist ++ [.dropped tid x y]) :
    x.val = y.val ∧ (run (init scripts) sched).queue.getLast? = some y ∧
      (enqs (run (init scripts) sched).hist).getLast? = some y := by
  sorry

theorem sq_dropped_equal (scripts : List (List Op)) (sched : List Nat) (h : distinctPuts scripts)
    (tid : Nat) (x y : Item) (hd : Obs.dropped tid x y ∈ (run (init scripts) sched).hist) :
    x.val = y.val ∧ y ∈ enqs (run (init scripts) sched).hist := by
  sorry

theorem sq_accepted_after_get (scripts : List (List Op)) (sched : List Nat) (h : distinctPuts scripts)
    (tid : Nat) (t : Thread) (x : Item)
    (ht : (run (init scripts) sched).thread? tid = some t) (hpc : t.pc = .putRead1 x)
    (hq : (run (init scripts) sched).queue = []) :
    ∃ s1 t1, step (run (init scripts) sched) tid = some s1 ∧ s1.thread? tid = some t1 ∧ t1.pc = .putAcq x := by
  sorry

theorem sq_separated (scripts : List (List Op)) (sched : List Nat) (h : distinctPuts scripts)
    (tid : Nat) (t : Thread) (x y : Item)
    (ht : (run (init scripts) sched).thread? tid = some t) (hpc : t.pc = .putRead2 x)
    (hq : (run (init scripts) sched).queue.getLast? = some y) (hne : x.val ≠ y.val) :
    ∃ s1 t1, step (run (init scripts) sched) tid = some s1 ∧ s1.thread? tid = some t1 ∧ t1.pc = .putAcq x := by
  sorry

theorem sq_append_enqueues (tid : Nat) (t : Thread) (x : Item) (s : State)
    (ht : s.thread? tid = some t) (hpc : t.pc = .putAcq x) :
    ∃ s1, step s tid = some s1 ∧ s1.queue = s.queue ++ [x] ∧ s1.hist = s.hist ++ [.enq tid x] := by
  sorry

end WD.Proofs
