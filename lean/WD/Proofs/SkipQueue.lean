/- helper lemmas and the proofs behind WD.Props.C16 -/
import WD.Model.SkipQueue
import WD.Spec.SkipQueueSpec
namespace WD.ProofsSQ
open WD.SQ

/-! ### history projections -/

@[simp] theorem enqs_nil : enqs [] = [] := rfl
@[simp] theorem gots_nil : gots [] = [] := rfl
@[simp] theorem enqs_append_enq (h : List Obs) (tid : Nat) (x : Item) :
    enqs (h ++ [.enq tid x]) = enqs h ++ [x] := by simp [enqs, List.filterMap_append]
@[simp] theorem enqs_append_got (h : List Obs) (tid : Nat) (x : Item) :
    enqs (h ++ [.got tid x]) = enqs h := by simp [enqs, List.filterMap_append]
@[simp] theorem enqs_append_dropped (h : List Obs) (tid : Nat) (x y : Item) :
    enqs (h ++ [.dropped tid x y]) = enqs h := by simp [enqs, List.filterMap_append]
@[simp] theorem gots_append_enq (h : List Obs) (tid : Nat) (x : Item) :
    gots (h ++ [.enq tid x]) = gots h := by simp [gots, List.filterMap_append]
@[simp] theorem gots_append_got (h : List Obs) (tid : Nat) (x : Item) :
    gots (h ++ [.got tid x]) = gots h ++ [x] := by simp [gots, List.filterMap_append]
@[simp] theorem gots_append_dropped (h : List Obs) (tid : Nat) (x y : Item) :
    gots (h ++ [.dropped tid x y]) = gots h := by simp [gots, List.filterMap_append]

/-! ### items still to be offered -/

/-- the item a thread is in the middle of offering -/
def pcItems : Pc → List Item
  | .putRead1 x => [x]
  | .putRead2 x => [x]
  | .putAcq x => [x]
  | _ => []

def threadPend (t : Thread) : List Item := pcItems t.pc ++ opPuts t.script

/-- every item that may still be enqueued -/
def pend (s : State) : List Item := s.threads.flatMap threadPend

/-- the thread record written by `arrive` -/
def arriveT (t : Thread) : Thread :=
  match t.script with
  | [] => { t with pc := .done, script := [] }
  | .put x :: rest => { t with pc := .putRead1 x, script := rest, notified := false }
  | .get :: rest => { t with pc := .getAcq, script := rest, notified := false }

theorem arrive_eq (s : State) (tid : Nat) (t : Thread) :
    arrive s tid t = s.setThread tid (arriveT t) := by
  obtain ⟨pc, script, n⟩ := t
  unfold arrive arriveT
  match script with
  | [] => rfl
  | .put x :: rest => rfl
  | .get :: rest => rfl

theorem threadPend_arriveT (t : Thread) : threadPend (arriveT t) = opPuts t.script := by
  obtain ⟨pc, script, n⟩ := t
  unfold arriveT
  match script with
  | [] => rfl
  | .put x :: rest => rfl
  | .get :: rest => rfl

@[simp] theorem setThread_queue (s : State) (tid : Nat) (t : Thread) :
    (s.setThread tid t).queue = s.queue := rfl
@[simp] theorem setThread_last (s : State) (tid : Nat) (t : Thread) :
    (s.setThread tid t).last = s.last := rfl
@[simp] theorem setThread_hist (s : State) (tid : Nat) (t : Thread) :
    (s.setThread tid t).hist = s.hist := rfl

@[simp] theorem notifyOne_queue (s : State) : (notifyOne s).queue = s.queue := by
  unfold notifyOne; split
  · rfl
  · split <;> rfl
@[simp] theorem notifyOne_last (s : State) : (notifyOne s).last = s.last := by
  unfold notifyOne; split
  · rfl
  · split <;> rfl
@[simp] theorem notifyOne_hist (s : State) : (notifyOne s).hist = s.hist := by
  unfold notifyOne; split
  · rfl
  · split <;> rfl

@[simp] theorem arrive_queue (s : State) (tid : Nat) (t : Thread) :
    (arrive s tid t).queue = s.queue := by rw [arrive_eq]; rfl
@[simp] theorem arrive_last (s : State) (tid : Nat) (t : Thread) :
    (arrive s tid t).last = s.last := by rw [arrive_eq]; rfl
@[simp] theorem arrive_hist (s : State) (tid : Nat) (t : Thread) :
    (arrive s tid t).hist = s.hist := by rw [arrive_eq]; rfl

theorem flatMap_set_split {α β : Type} (f : α → List β) :
    ∀ (l : List α) (i : Nat) (a : α), l[i]? = some a →
      ∃ A B, l.flatMap f = A ++ f a ++ B ∧ ∀ a', (l.set i a').flatMap f = A ++ f a' ++ B := by
  intro l
  induction l with
  | nil => intro i a h; simp at h
  | cons b l ih =>
    intro i a h
    cases i with
    | zero =>
      simp at h
      subst h
      exact ⟨[], l.flatMap f, by simp, by simp⟩
    | succ i =>
      simp at h
      obtain ⟨A, B, h1, h2⟩ := ih i a h
      refine ⟨f b ++ A, B, by simp [h1], ?_⟩
      intro a'
      simp [h2]

theorem pend_split (s : State) (tid : Nat) (t : Thread) (h : s.thread? tid = some t) :
    ∃ A B, pend s = A ++ threadPend t ++ B ∧
      ∀ t', pend (s.setThread tid t') = A ++ threadPend t' ++ B :=
  flatMap_set_split threadPend s.threads tid t h

theorem setThread_thread (s : State) (tid : Nat) (t t' : Thread) (h : s.thread? tid = some t) :
    (s.setThread tid t').thread? tid = some t' := by
  unfold State.thread? at *
  unfold State.setThread
  have : tid < s.threads.length := by
    rcases Nat.lt_or_ge tid s.threads.length with h' | h'
    · exact h'
    · rw [List.getElem?_eq_none h'] at h; cases h
  simp [this]

theorem notifyOne_pend (s : State) : pend (notifyOne s) = pend s := by
  unfold notifyOne; split
  · rfl
  · split
    · rename_i _ w rest _ _ t ht
      obtain ⟨A, B, h1, h2⟩ := pend_split s w t ht
      show pend (s.setThread w { t with notified := true }) = pend s
      rw [h1, h2]; rfl
    · rfl

theorem notifyOne_thread (s : State) (tid : Nat) (t : Thread) (h : s.thread? tid = some t) :
    ∃ t2, (notifyOne s).thread? tid = some t2 ∧ threadPend t2 = threadPend t := by
  unfold notifyOne; split
  · exact ⟨t, h, rfl⟩
  · split
    · rename_i _ w rest _ _ tw htw
      by_cases hw : w = tid
      · subst hw
        refine ⟨{ tw with notified := true }, ?_, ?_⟩
        · exact setThread_thread s w tw _ htw
        · rw [htw] at h; cases h; rfl
      · refine ⟨t, ?_, rfl⟩
        unfold State.thread? at *
        simp [State.setThread, hw, h]
    · exact ⟨t, h, rfl⟩

/-! ### the invariant, on the components of a state

`D` is the distinctness hypothesis on the scripts: the FIFO part holds unconditionally, the rest
only when every `put` offers a distinct object. -/

structure InvC (D : Prop) (q : List Item) (l : Option Item) (h : List Obs) (p : List Item) : Prop where
  fifo : enqs h = gots h ++ q
  nodup : D → ((enqs h ++ p).map Item.uid).Nodup
  last : D → l = q.getLast?
  dropped : D → ∀ tid x y, Obs.dropped tid x y ∈ h → x.val = y.val ∧ y ∈ enqs h

theorem InvC.sub {D q l h p p'} (hi : InvC D q l h p) (hs : List.Sublist p' p) : InvC D q l h p' :=
  { fifo := hi.fifo
    nodup := fun d => (hi.nodup d).sublist (((List.Sublist.refl _).append hs).map _)
    last := hi.last
    dropped := hi.dropped }

theorem InvC.drop {D q l h p} (hi : InvC D q l h p) (tid : Nat) (x y : Item)
    (hl : l = some y) (hv : x.val = y.val) : InvC D q l (h ++ [.dropped tid x y]) p := by
  refine ⟨by simpa using hi.fifo, by simpa using hi.nodup, hi.last, ?_⟩
  intro d tid' x' y' hm
  have hy : y ∈ enqs h := by
    have := hi.last d
    rw [hl] at this
    rw [hi.fifo]
    exact List.mem_append_right _ (List.mem_of_getLast? this.symm)
  simp only [List.mem_append, List.mem_singleton, enqs_append_dropped] at hm ⊢
  rcases hm with hm | hm
  · exact hi.dropped d _ _ _ hm
  · cases hm; exact ⟨hv, hy⟩

theorem InvC.enq {D q l h A r B} (x : Item) (tid : Nat) (hi : InvC D q l h (A ++ (x :: r) ++ B)) :
    InvC D (q ++ [x]) (some x) (h ++ [.enq tid x]) (A ++ r ++ B) := by
  refine ⟨by simp [hi.fifo], ?_, by simp, ?_⟩
  · intro d
    have := hi.nodup d
    refine (List.Perm.nodup_iff (List.Perm.map _ ?_)).mp this
    simp only [enqs_append_enq, List.append_assoc, List.cons_append, List.nil_append]
    refine List.Perm.append_left _ ?_
    exact List.perm_middle
  · intro d tid' x' y' hm
    simp only [List.mem_append, List.mem_singleton, enqs_append_enq] at hm ⊢
    rcases hm with hm | hm
    · have := hi.dropped d _ _ _ hm
      exact ⟨this.1, Or.inl this.2⟩
    · cases hm

/-- `_last_item` after the consumer popped `x` -/
def popLast (l : Option Item) (x : Item) : Option Item :=
  match l with
  | some y => if y.uid = x.uid then none else some y
  | none => none

theorem InvC.got {D x rest l h p} (tid : Nat) (hi : InvC D (x :: rest) l h p) :
    InvC D rest (popLast l x) (h ++ [.got tid x]) p := by
  refine ⟨by simp [hi.fifo], by simpa using hi.nodup, ?_, ?_⟩
  · intro d
    have hl := hi.last d
    have hn := hi.nodup d
    rw [hi.fifo] at hn
    cases rest with
    | nil => subst hl; simp [popLast]
    | cons z r =>
      rw [List.getLast?_cons_cons] at hl
      subst hl
      have hmem : (z :: r).getLast (by simp) ∈ z :: r := List.getLast_mem _
      rw [List.getLast?_eq_some_getLast (by simp)]
      have hne : ((z :: r).getLast (by simp)).uid ≠ x.uid := by
        intro he
        simp only [List.map_append, List.map_cons, List.append_assoc, List.cons_append] at hn
        have h2 := (List.nodup_append.mp hn).2.1
        have h3 := (List.nodup_cons.mp h2).1
        apply h3
        have hm2 : x.uid ∈ (z :: r).map Item.uid := by
          rw [← he]; exact List.mem_map_of_mem hmem
        simp only [List.map_cons, List.mem_cons, List.mem_append] at hm2 ⊢
        rcases hm2 with hm2 | hm2
        · exact Or.inl hm2
        · exact Or.inr (Or.inl hm2)
      simp [popLast, hne]
  · intro d tid' x' y' hm
    simp only [List.mem_append, List.mem_singleton, enqs_append_got] at hm ⊢
    rcases hm with hm | hm
    · exact hi.dropped d _ _ _ hm
    · cases hm

/-! ### the invariant on states, preserved by `step` -/

def Inv (D : Prop) (s : State) : Prop := InvC D s.queue s.last s.hist (pend s)

theorem Inv.setThread {D s tid t0} (t' : Thread) (hi : Inv D s) (ht : s.thread? tid = some t0)
    (hs : List.Sublist (threadPend t') (threadPend t0)) : Inv D (s.setThread tid t') := by
  obtain ⟨A, B, h1, h2⟩ := pend_split s tid t0 ht
  unfold Inv at *
  rw [h2 t']
  rw [h1] at hi
  exact hi.sub (((List.Sublist.refl A).append hs).append (List.Sublist.refl B))

theorem Inv.arrive {D s tid t0} (t : Thread) (hi : Inv D s) (ht : s.thread? tid = some t0)
    (hs : List.Sublist (opPuts t.script) (threadPend t0)) : Inv D (arrive s tid t) := by
  rw [arrive_eq]
  exact hi.setThread _ ht (by rw [threadPend_arriveT]; exact hs)

theorem Inv.getLocked {D s tid t0} (t : Thread) (hi : Inv D s) (ht : s.thread? tid = some t0)
    (hs : List.Sublist (opPuts t.script) (threadPend t0)) :
    Inv D (getLocked s tid t) := by
  unfold SQ.getLocked
  split
  · have : Inv D (s.setThread tid { t with pc := .getWait, notified := false }) :=
      hi.setThread _ ht (by simpa [threadPend, pcItems] using hs)
    exact this
  · rename_i x rest hq
    refine Inv.arrive (t0 := t0) t ?_ ?_ hs
    · unfold Inv at *
      rw [hq] at hi
      exact hi.got tid
    · exact ht

theorem step_inv {D s tid s'} (hi : Inv D s) (hs : step s tid = some s') : Inv D s' := by
  unfold step at hs
  split at hs
  · cases hs
  split at hs
  · cases hs
  rename_i t ht
  have hsub : List.Sublist (opPuts t.script) (threadPend t) := List.sublist_append_right _ _
  split at hs
  · -- begin
    cases hs
    exact hi.arrive t ht hsub
  · -- putRead1
    rename_i x hpc
    split at hs <;> cases hs <;> exact hi.setThread _ ht (by simp [threadPend, pcItems, hpc])
  · -- putRead2
    rename_i x hpc
    split at hs
    · cases hs; exact hi.setThread _ ht (by simp [threadPend, pcItems, hpc])
    · rename_i y hl
      split at hs
      · rename_i hv
        cases hs
        refine Inv.arrive (t0 := t) t ?_ ?_ hsub
        · exact InvC.drop hi tid x y hl hv
        · exact ht
      · cases hs; exact hi.setThread _ ht (by simp [threadPend, pcItems, hpc])
  · -- putAcq
    rename_i x hpc
    cases hs
    rw [arrive_eq]
    let s1 : State := { s with queue := s.queue ++ [x], last := some x, hist := s.hist ++ [.enq tid x] }
    obtain ⟨t2, ht2, hp2⟩ := notifyOne_thread s1 tid t ht
    obtain ⟨A, B, h1, h2⟩ := pend_split (notifyOne s1) tid t2 ht2
    have h3 : pend s = A ++ (x :: opPuts t.script) ++ B := by
      have : pend s = pend s1 := rfl
      rw [this, ← notifyOne_pend s1, h1, hp2]
      simp [threadPend, pcItems, hpc]
    unfold Inv at *
    rw [h2, threadPend_arriveT]
    rw [h3] at hi
    simpa [s1] using hi.enq x tid
  · -- getAcq
    cases hs
    exact hi.getLocked t ht hsub
  · -- getWait
    cases hs
    exact hi.getLocked _ ht hsub
  · cases hs

theorem init_inv (scripts : List (List Op)) : Inv (distinctPuts scripts) (init scripts) := by
  refine ⟨rfl, ?_, fun _ => rfl, fun _ _ _ _ hm => by simp [init] at hm⟩
  intro d
  have : pend (init scripts) = scripts.flatMap opPuts := by
    simp [pend, init, List.flatMap_map, threadPend, pcItems]
  rw [this]
  simpa [init, distinctPuts] using d

theorem run_inv {D} (sched : List Nat) : ∀ s, Inv D s → Inv D (run s sched) := by
  induction sched with
  | nil => intro s hi; exact hi
  | cons a rest ih =>
    intro s hi
    show Inv D (run ((step s a).getD s) rest)
    apply ih
    cases h : step s a with
    | none => exact hi
    | some s' => exact step_inv hi h

theorem reach_inv (scripts : List (List Op)) (sched : List Nat) :
    Inv (distinctPuts scripts) (run (init scripts) sched) :=
  run_inv sched _ (init_inv scripts)

/-! ### the theorems used by WD.Props.C16 -/

theorem sq_fifo_no_loss (scripts : List (List Op)) (sched : List Nat) :
    enqs (run (init scripts) sched).hist =
      gots (run (init scripts) sched).hist ++ (run (init scripts) sched).queue :=
  (reach_inv scripts sched).fifo

theorem sq_last_is_tail (scripts : List (List Op)) (sched : List Nat) (h : distinctPuts scripts) :
    (run (init scripts) sched).last = (run (init scripts) sched).queue.getLast? :=
  (reach_inv scripts sched).last h

theorem enabled_of_pc {s : State} {tid : Nat} {t : Thread} (ht : s.thread? tid = some t)
    (h1 : t.pc ≠ .done) (h2 : t.pc ≠ .getWait) : enabled s tid = true := by
  unfold enabled
  rw [ht]
  split <;> simp_all

theorem sq_only_duplicates_dropped (scripts : List (List Op)) (sched : List Nat) (h : distinctPuts scripts)
    (tid : Nat) (s' : State) (x y : Item)
    (hs : step (run (init scripts) sched) tid = some s')
    (hd : s'.hist = (run (init scripts) sched).hist ++ [.dropped tid x y]) :
    x.val = y.val ∧ (run (init scripts) sched).queue.getLast? = some y ∧
      (enqs (run (init scripts) sched).hist).getLast? = some y := by
  have hi := reach_inv scripts sched
  generalize run (init scripts) sched = s at *
  have key : x.val = y.val ∧ s.last = some y := by
    have hne : ∀ o : Obs, s.hist ≠ s.hist ++ [o] := by
      intro o he
      have := congrArg List.length he
      simp at this
    unfold step at hs
    split at hs
    · cases hs
    split at hs
    · cases hs
    rename_i t ht
    split at hs
    · cases hs; simp at hd
    · split at hs <;> cases hs <;> simp at hd
    · rename_i x' hpc
      split at hs
      · cases hs; simp at hd
      · rename_i y' hl
        split at hs
        · rename_i hv
          cases hs
          simp at hd
          obtain ⟨hx, hy⟩ := hd
          subst hx; subst hy
          exact ⟨hv, hl⟩
        · cases hs; simp at hd
    · cases hs; simp at hd
    · cases hs
      unfold getLocked at hd
      split at hd <;> simp at hd
    · cases hs
      unfold getLocked at hd
      split at hd <;> simp at hd
    · cases hs
  have hq : s.queue.getLast? = some y := by rw [← hi.last h]; exact key.2
  refine ⟨key.1, hq, ?_⟩
  rw [hi.fifo]
  simp [List.getLast?_append, hq]

theorem sq_dropped_equal (scripts : List (List Op)) (sched : List Nat) (h : distinctPuts scripts)
    (tid : Nat) (x y : Item) (hd : Obs.dropped tid x y ∈ (run (init scripts) sched).hist) :
    x.val = y.val ∧ y ∈ enqs (run (init scripts) sched).hist :=
  (reach_inv scripts sched).dropped h tid x y hd

theorem sq_accepted_after_get (scripts : List (List Op)) (sched : List Nat) (h : distinctPuts scripts)
    (tid : Nat) (t : Thread) (x : Item)
    (ht : (run (init scripts) sched).thread? tid = some t) (hpc : t.pc = .putRead1 x)
    (hq : (run (init scripts) sched).queue = []) :
    ∃ s1 t1, step (run (init scripts) sched) tid = some s1 ∧ s1.thread? tid = some t1 ∧ t1.pc = .putAcq x := by
  have hi := reach_inv scripts sched
  generalize run (init scripts) sched = s at *
  have hl : s.last = none := by rw [hi.last h, hq]; rfl
  have he : enabled s tid = true := enabled_of_pc ht (by simp [hpc]) (by simp [hpc])
  refine ⟨s.setThread tid { t with pc := .putAcq x }, { t with pc := .putAcq x }, ?_,
    setThread_thread s tid t _ ht, rfl⟩
  unfold step
  simp [he, ht, hpc, hl]

theorem sq_separated (scripts : List (List Op)) (sched : List Nat) (h : distinctPuts scripts)
    (tid : Nat) (t : Thread) (x y : Item)
    (ht : (run (init scripts) sched).thread? tid = some t) (hpc : t.pc = .putRead2 x)
    (hq : (run (init scripts) sched).queue.getLast? = some y) (hne : x.val ≠ y.val) :
    ∃ s1 t1, step (run (init scripts) sched) tid = some s1 ∧ s1.thread? tid = some t1 ∧ t1.pc = .putAcq x := by
  have hi := reach_inv scripts sched
  generalize run (init scripts) sched = s at *
  have hl : s.last = some y := by rw [hi.last h, hq]
  have he : enabled s tid = true := enabled_of_pc ht (by simp [hpc]) (by simp [hpc])
  refine ⟨s.setThread tid { t with pc := .putAcq x }, { t with pc := .putAcq x }, ?_,
    setThread_thread s tid t _ ht, rfl⟩
  unfold step
  simp [he, ht, hpc, hl, hne]

theorem sq_append_enqueues (tid : Nat) (t : Thread) (x : Item) (s : State)
    (ht : s.thread? tid = some t) (hpc : t.pc = .putAcq x) :
    ∃ s1, step s tid = some s1 ∧ s1.queue = s.queue ++ [x] ∧ s1.hist = s.hist ++ [.enq tid x] := by
  have he : enabled s tid = true := enabled_of_pc ht (by simp [hpc]) (by simp [hpc])
  refine ⟨arrive (notifyOne { s with queue := s.queue ++ [x], last := some x,
                                      hist := s.hist ++ [.enq tid x] }) tid t, ?_, ?_, ?_⟩
  · unfold step
    simp [he, ht, hpc]
  · simp
  · simp

end WD.ProofsSQ
