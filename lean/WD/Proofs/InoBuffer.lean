/- helper lemmas and the proofs behind WD.Props.C08 -/
import WD.Model.InoBuffer
import WD.Spec.InoBufferSpec
namespace WD.ProofsIB
open WD.IB

theorem accounting (delay : Nat) (scripts : List (List Op)) (as : List Action) (h : distinctPuts scripts) :
    live (run (init delay scripts) as).hist =
      gots (run (init delay scripts) as).hist ++ (run (init delay scripts) as).queue.map Entry.elem := by
  sorry

theorem never_both (delay : Nat) (scripts : List (List Op)) (as : List Action) (h : distinctPuts scripts) :
    (gots (run (init delay scripts) as).hist ++ removeds (run (init delay scripts) as).hist).Nodup := by
  sorry

theorem order (delay : Nat) (scripts : List (List Op)) (as : List Action) (h : distinctPuts scripts) :
    (gots (run (init delay scripts) as).hist).Sublist (puts (run (init delay scripts) as).hist) := by
  sorry

theorem alone_not_early (delay : Nat) (scripts : List (List Op)) (as : List Action) (h : distinctPuts scripts)
    (tid tid' : Nat) (e : Elem) (t t0 : Nat)
    (hg : Obs.got tid e t ∈ (run (init delay scripts) as).hist)
    (hp : Obs.put tid' e true t0 ∈ (run (init delay scripts) as).hist) : t0 + delay ≤ t := by
  sorry

theorem pending_until_delay (delay : Nat) (scripts : List (List Op)) (as : List Action) (h : distinctPuts scripts)
    (tid : Nat) (e : Elem) (t0 : Nat)
    (hp : Obs.put tid e true t0 ∈ (run (init delay scripts) as).hist)
    (hr : e ∉ removeds (run (init delay scripts) as).hist)
    (hc : (run (init delay scripts) as).clock < t0 + delay) :
    e ∈ (run (init delay scripts) as).queue.map Entry.elem := by
  sorry

theorem pairs_when_in_time (delay : Nat) (scripts : List (List Op)) (as : List Action) (h : distinctPuts scripts)
    (tid tid' : Nat) (t : Thread) (e : Elem) (t0 v : Nat)
    (hp : Obs.put tid' e true t0 ∈ (run (init delay scripts) as).hist)
    (hr : e ∉ removeds (run (init delay scripts) as).hist)
    (hc : (run (init delay scripts) as).clock < t0 + delay)
    (ht : (run (init delay scripts) as).thread? tid = some t) (hpc : t.pc = .remAcq v) (hv : e.val = v) :
    ∃ s1 e', step (run (init delay scripts) as) tid = some s1 ∧ e'.val = v ∧
      s1.hist = (run (init delay scripts) as).hist ++ [.removed tid e' (run (init delay scripts) as).clock] := by
  sorry

theorem group_covers (batch : List Rec) (slot0 : Nat) :
    ((groupBatch batch slot0).1.flatMap itemRecs).Perm batch := by
  sorry

theorem group_pairs (batch : List Rec) (slot0 : Nat) (f t : Rec)
    (h : Item.pair f t ∈ (groupBatch batch slot0).1) :
    f.movedFrom = true ∧ t.movedTo = true ∧ f.cookie = t.cookie ∧ f ∈ batch ∧ t ∈ batch := by
  sorry

theorem group_singles_order (batch : List Rec) (slot0 : Nat) :
    ((groupBatch batch slot0).1.filterMap (fun it => match it with | .single r => some r | _ => none)).Sublist batch := by
  sorry

end WD.ProofsIB
