/- helper lemmas and the proofs behind WD.Props.C08 -/
import WD.Model.InoBuffer
import WD.Spec.InoBufferSpec
namespace WD.ProofsIB
open WD.IB

/-! ### projections of the ghost history -/

/-- observations that are neither `put`, `got` nor `removed` -/
def Neutral : Obs → Prop
  | .gotNone _ _ => True
  | .removedNone _ _ => True
  | .closed _ _ => True
  | _ => False

theorem puts_append (h : List Obs) (o : Obs) :
    puts (h ++ [o]) = match o with | .put _ e _ _ => puts h ++ [e] | _ => puts h := by
  cases o <;> simp [puts, List.filterMap_append]

theorem gots_append (h : List Obs) (o : Obs) :
    gots (h ++ [o]) = match o with | .got _ e _ => gots h ++ [e] | _ => gots h := by
  cases o <;> simp [gots, List.filterMap_append]

theorem removeds_append (h : List Obs) (o : Obs) :
    removeds (h ++ [o]) = match o with | .removed _ e _ => removeds h ++ [e] | _ => removeds h := by
  cases o <;> simp [removeds, List.filterMap_append]

theorem mem_puts {h : List Obs} {e : Elem} : e ∈ puts h ↔ ∃ a d t, Obs.put a e d t ∈ h := by
  simp only [puts, List.mem_filterMap]
  constructor
  · rintro ⟨o, ho, heq⟩
    cases o <;> simp at heq
    subst heq; exact ⟨_, _, _, ho⟩
  · rintro ⟨a, d, t, ho⟩
    exact ⟨_, ho, rfl⟩

theorem mem_gots {h : List Obs} {e : Elem} : e ∈ gots h ↔ ∃ a t, Obs.got a e t ∈ h := by
  simp only [gots, List.mem_filterMap]
  constructor
  · rintro ⟨o, ho, heq⟩
    cases o <;> simp at heq
    subst heq; exact ⟨_, _, ho⟩
  · rintro ⟨a, t, ho⟩
    exact ⟨_, ho, rfl⟩

theorem live_sub_puts {h : List Obs} {e : Elem} (he : e ∈ live h) : e ∈ puts h := by
  simp only [live, List.mem_filter] at he
  exact he.1

theorem not_removed_of_live {h : List Obs} {e : Elem} (he : e ∈ live h) : e ∉ removeds h := by
  simp only [live, List.mem_filter] at he
  simpa using he.2

theorem live_append_put (h : List Obs) (a : Nat) (e : Elem) (d : Bool) (t : Nat) (hne : e ∉ removeds h) :
    live (h ++ [Obs.put a e d t]) = live h ++ [e] := by
  simp [live, puts_append, removeds_append, List.filter_append, hne]

theorem live_append_got (h : List Obs) (a : Nat) (e : Elem) (t : Nat) :
    live (h ++ [Obs.got a e t]) = live h := by
  simp [live, puts_append, removeds_append]

theorem live_append_neutral (h : List Obs) (o : Obs) (hn : Neutral o) :
    live (h ++ [o]) = live h := by
  cases o <;> simp [Neutral] at hn <;> simp [live, puts_append, removeds_append]

theorem live_append_removed (h : List Obs) (a : Nat) (e : Elem) (t : Nat) :
    live (h ++ [Obs.removed a e t]) = (live h).filter (fun x => !decide (x = e)) := by
  simp only [live, puts_append, removeds_append, List.filter_filter]
  apply List.filter_congr
  intro x _
  by_cases hx : x = e <;> simp [hx]

theorem filter_ne_of_nodup {α} [DecidableEq α] (A B : List α) (x : α) (hnd : (A ++ x :: B).Nodup) :
    (A ++ x :: B).filter (fun y => !decide (y = x)) = A ++ B := by
  have h1 : x ∉ A := by
    intro hx
    have := (List.nodup_append.1 hnd).2.2 x hx x (by simp)
    exact this rfl
  have h2 : x ∉ B := by
    have := (List.nodup_append.1 hnd).2.1
    exact (List.nodup_cons.1 this).1
  have hA : A.filter (fun y => !decide (y = x)) = A := by
    apply List.filter_eq_self.2
    intro y hy; simp; intro hyx; exact h1 (hyx ▸ hy)
  have hB : B.filter (fun y => !decide (y = x)) = B := by
    apply List.filter_eq_self.2
    intro y hy; simp; intro hyx; exact h2 (hyx ▸ hy)
  simp [List.filter_append, hA, hB]

theorem removeFirst_spec {v : Nat} {q q' : List Entry} {e : Entry} (h : removeFirst v q = some (e, q')) :
    ∃ l1 l2, q = l1 ++ e :: l2 ∧ q' = l1 ++ l2 := by
  induction q generalizing q' with
  | nil => simp [removeFirst] at h
  | cons x rest ih =>
    unfold removeFirst at h
    split at h
    · simp at h
      obtain ⟨rfl, rfl⟩ := h
      exact ⟨[], _, rfl, rfl⟩
    · split at h
      · rename_i y r hr
        simp at h
        obtain ⟨rfl, rfl⟩ := h
        obtain ⟨l1, l2, h1, h2⟩ := ih hr
        exact ⟨x :: l1, l2, by simp [h1], by simp [h2]⟩
      · simp at h

/-! ### invariant on history and queue -/

structure InvH (D : Nat) (h : List Obs) (q : List Entry) : Prop where
  acc : live h = gots h ++ q.map Entry.elem
  putsU : ((puts h).map Elem.uid).Nodup
  remSub : ∀ e ∈ removeds h, e ∈ puts h
  remNodup : (removeds h).Nodup
  qHist : ∀ en ∈ q, ∃ a, Obs.put a en.elem en.delayed en.ins ∈ h
  putUniq : ∀ a e d t a' d' t', Obs.put a e d t ∈ h → Obs.put a' e d' t' ∈ h → d = d' ∧ t = t'
  ne : ∀ a e t a' t0, Obs.got a e t ∈ h → Obs.put a' e true t0 ∈ h → t0 + D ≤ t

theorem InvH.puts_nodup {D h q} (I : InvH D h q) : (puts h).Nodup :=
  List.Pairwise.of_map Elem.uid (fun _ _ h he => h (he ▸ rfl)) I.putsU

theorem InvH.live_nodup {D h q} (I : InvH D h q) : (live h).Nodup :=
  List.Nodup.sublist List.filter_sublist I.puts_nodup

theorem InvH.got_in_puts {D h q} (I : InvH D h q) {e : Elem} (he : e ∈ gots h) : e ∈ puts h := by
  apply live_sub_puts
  rw [I.acc]; simp [he]

theorem InvH.init (D : Nat) : InvH D [] [] := by
  constructor <;> simp [live, puts, gots, removeds]

theorem InvH.neutral {D h q} (I : InvH D h q) (o : Obs) (hn : Neutral o) : InvH D (h ++ [o]) q := by
  have hp : puts (h ++ [o]) = puts h := by cases o <;> simp [Neutral] at hn <;> simp [puts_append]
  have hg : gots (h ++ [o]) = gots h := by cases o <;> simp [Neutral] at hn <;> simp [gots_append]
  have hr : removeds (h ++ [o]) = removeds h := by cases o <;> simp [Neutral] at hn <;> simp [removeds_append]
  have hmp : ∀ a e d t, Obs.put a e d t ∈ h ++ [o] ↔ Obs.put a e d t ∈ h := by
    intro a e d t; cases o <;> simp [Neutral] at hn <;> simp
  have hmg : ∀ a e t, Obs.got a e t ∈ h ++ [o] ↔ Obs.got a e t ∈ h := by
    intro a e t; cases o <;> simp [Neutral] at hn <;> simp
  constructor
  · rw [live_append_neutral _ _ hn, hg]; exact I.acc
  · rw [hp]; exact I.putsU
  · rw [hp, hr]; exact I.remSub
  · rw [hr]; exact I.remNodup
  · intro en hen; obtain ⟨a, ha⟩ := I.qHist en hen; exact ⟨a, (hmp ..).2 ha⟩
  · intro a e d t a' d' t' h1 h2; exact I.putUniq a e d t a' d' t' ((hmp ..).1 h1) ((hmp ..).1 h2)
  · intro a e t a' t0 h1 h2; exact I.ne a e t a' t0 ((hmg ..).1 h1) ((hmp ..).1 h2)

theorem InvH.put {D h q} (I : InvH D h q) (a : Nat) (e : Elem) (d : Bool) (c : Nat)
    (fresh : ∀ e' ∈ puts h, e.uid ≠ e'.uid) :
    InvH D (h ++ [Obs.put a e d c]) (q ++ [⟨e, c, d⟩]) := by
  have hnp : e ∉ puts h := fun he => fresh e he rfl
  have hnr : e ∉ removeds h := fun he => hnp (I.remSub e he)
  have hnpo : ∀ a d t, Obs.put a e d t ∉ h := fun a d t ho => hnp (mem_puts.2 ⟨a, d, t, ho⟩)
  constructor
  · rw [live_append_put _ _ _ _ _ hnr, I.acc]; simp [gots_append]
  · simp only [puts_append, List.map_append, List.map_cons, List.map_nil]
    refine List.nodup_append.2 ⟨I.putsU, by simp, ?_⟩
    intro u hu b hb
    simp at hb; subst hb
    obtain ⟨e', he', rfl⟩ := List.mem_map.1 hu
    exact fun hh => fresh e' he' hh.symm
  · simp only [puts_append, removeds_append]
    intro x hx; exact List.mem_append_left _ (I.remSub x hx)
  · simp only [removeds_append]; exact I.remNodup
  · intro en hen
    rcases List.mem_append.1 hen with hen | hen
    · obtain ⟨a', ha'⟩ := I.qHist en hen; exact ⟨a', List.mem_append_left _ ha'⟩
    · simp at hen; subst hen; exact ⟨a, by simp⟩
  · intro a1 e1 d1 t1 a2 d2 t2 h1 h2
    simp only [List.mem_append, List.mem_singleton] at h1 h2
    rcases h1 with h1 | h1 <;> rcases h2 with h2 | h2
    · exact I.putUniq _ _ _ _ _ _ _ h1 h2
    · injection h2 with _ he _ _; subst he; exact absurd h1 (hnpo _ _ _)
    · injection h1 with _ he _ _; subst he; exact absurd h2 (hnpo _ _ _)
    · injection h1 with _ he hd ht; injection h2 with _ he' hd' ht'
      subst hd ht hd' ht'; exact ⟨rfl, rfl⟩
  · intro a1 e1 t1 a2 t0 h1 h2
    simp only [List.mem_append, List.mem_singleton, reduceCtorEq, or_false] at h1
    simp only [List.mem_append, List.mem_singleton] at h2
    rcases h2 with h2 | h2
    · exact I.ne _ _ _ _ _ h1 h2
    · injection h2 with _ he _ _; subst he
      exact absurd (I.got_in_puts (mem_gots.2 ⟨_, _, h1⟩)) hnp

theorem InvH.got {D h hd rest} (I : InvH D h (hd :: rest)) (a c : Nat)
    (hne : ∀ a' t0, Obs.put a' hd.elem true t0 ∈ h → t0 + D ≤ c) :
    InvH D (h ++ [Obs.got a hd.elem c]) rest := by
  constructor
  · rw [live_append_got, I.acc]; simp [gots_append]
  · simp only [puts_append]; exact I.putsU
  · simp only [puts_append, removeds_append]; exact I.remSub
  · simp only [removeds_append]; exact I.remNodup
  · intro en hen
    obtain ⟨a', ha'⟩ := I.qHist en (List.mem_cons_of_mem _ hen)
    exact ⟨a', List.mem_append_left _ ha'⟩
  · intro a1 e1 d1 t1 a2 d2 t2 h1 h2
    simp only [List.mem_append, List.mem_singleton, reduceCtorEq, or_false] at h1 h2
    exact I.putUniq _ _ _ _ _ _ _ h1 h2
  · intro a1 e1 t1 a2 t0 h1 h2
    simp only [List.mem_append, List.mem_singleton, reduceCtorEq, or_false] at h2
    simp only [List.mem_append, List.mem_singleton] at h1
    rcases h1 with h1 | h1
    · exact I.ne _ _ _ _ _ h1 h2
    · injection h1 with _ he ht; subst he ht
      exact hne _ _ h2

theorem InvH.removed {D h q q' v e} (I : InvH D h q) (a c : Nat) (hrf : removeFirst v q = some (e, q')) :
    InvH D (h ++ [Obs.removed a e.elem c]) q' := by
  obtain ⟨l1, l2, rfl, rfl⟩ := removeFirst_spec hrf
  have hel : e.elem ∈ live h := by rw [I.acc]; simp
  constructor
  · rw [live_append_removed, I.acc]
    have hnd := I.live_nodup
    rw [I.acc] at hnd
    simp only [List.map_append, List.map_cons, ← List.append_assoc] at hnd ⊢
    simpa [gots_append] using filter_ne_of_nodup _ _ _ hnd
  · simp only [puts_append]; exact I.putsU
  · simp only [puts_append, removeds_append]
    intro x hx
    rcases List.mem_append.1 hx with hx | hx
    · exact I.remSub x hx
    · simp at hx; subst hx; exact live_sub_puts hel
  · simp only [removeds_append]
    refine List.nodup_append.2 ⟨I.remNodup, by simp, ?_⟩
    intro x hx b hb
    simp at hb; subst hb
    exact fun hh => not_removed_of_live hel (hh ▸ hx)
  · intro en hen
    have : en ∈ l1 ++ e :: l2 := by
      rcases List.mem_append.1 hen with h1 | h1
      · exact List.mem_append_left _ h1
      · exact List.mem_append_right _ (List.mem_cons_of_mem _ h1)
    obtain ⟨a', ha'⟩ := I.qHist en this
    exact ⟨a', List.mem_append_left _ ha'⟩
  · intro a1 e1 d1 t1 a2 d2 t2 h1 h2
    simp only [List.mem_append, List.mem_singleton, reduceCtorEq, or_false] at h1 h2
    exact I.putUniq _ _ _ _ _ _ _ h1 h2
  · intro a1 e1 t1 a2 t0 h1 h2
    simp only [List.mem_append, List.mem_singleton, reduceCtorEq, or_false] at h1 h2
    exact I.ne _ _ _ _ _ h1 h2

/-! ### normal forms of the state operations -/

def arriveTO (c : Nat) (t : Thread) : Bool → List Op → Thread
  | _, [] => { t with pc := .done, script := [] }
  | _, .setStop :: rest => arriveTO c t true rest
  | f, .exitIfStopped :: rest =>
    if f then { t with pc := .done, script := [] } else arriveTO c t f rest
  | _, .put e d :: rest => { t with pc := .putAcq e d, script := rest, notified := false }
  | _, .get :: rest => { t with pc := .getAcq, script := rest, notified := false }
  | _, .remove v :: rest => { t with pc := .remAcq v, script := rest, notified := false }
  | _, .close :: rest => { t with pc := .closeFlag, script := rest, notified := false }
  | _, .sleep d :: rest => { t with pc := .sleeping (c + d), script := rest, notified := false }
  | _, .waitStop :: rest => { t with pc := .waitingStop, script := rest, notified := false }
  | _, .join j :: rest => { t with pc := .joining j, script := rest, notified := false }

def arriveFO : Bool → List Op → Bool
  | f, [] => f
  | _, .setStop :: rest => arriveFO true rest
  | f, .exitIfStopped :: rest => if f then f else arriveFO f rest
  | f, _ :: _ => f

def arriveT (c : Nat) (f : Bool) (t : Thread) : Thread := arriveTO c t f t.script

theorem arriveOps_eq (s : State) (tid : Nat) (t : Thread) (ops : List Op) :
    arriveOps s tid t ops =
      { s with stopFlag := arriveFO s.stopFlag ops,
               threads := s.threads.set tid (arriveTO s.clock t s.stopFlag ops) } := by
  induction ops generalizing s with
  | nil => simp [arriveOps, arriveTO, arriveFO, State.setThread]
  | cons op rest ih =>
    cases op <;> simp [arriveOps, arriveTO, arriveFO, State.setThread, ih]
    all_goals (split <;> simp)

theorem arrive_eq (s : State) (tid : Nat) (t : Thread) :
    arrive s tid t =
      { s with stopFlag := arriveFO s.stopFlag t.script,
               threads := s.threads.set tid (arriveT s.clock s.stopFlag t) } :=
  arriveOps_eq s tid t t.script

def notifyThreads (ths : List Thread) (ws : List Nat) : List Thread :=
  match ws with
  | [] => ths
  | w :: _ =>
    match ths[w]? with
    | some t => ths.set w { t with notified := true }
    | none => ths

theorem notifyOne_eq (s : State) :
    notifyOne s = { s with threads := notifyThreads s.threads s.waiters, waiters := s.waiters.tail } := by
  cases s with
  | mk dl c q cl ws sf ths hs =>
  unfold notifyOne notifyThreads State.thread? State.setThread
  cases ws with
  | nil => simp
  | cons w rest =>
    simp only
    cases hw : ths[w]? <;> simp

theorem notifyThreads_get (ths : List Thread) (ws : List Nat) (j : Nat) :
    (notifyThreads ths ws)[j]? =
      (ths[j]?).map (fun t => if ws.head? = some j then { t with notified := true } else t) := by
  unfold notifyThreads
  split
  · simp
  · rename_i w rest
    split
    · rename_i t ht
      rw [List.getElem?_set]
      by_cases hwj : w = j
      · subst hwj
        have hlt : w < ths.length := (List.getElem?_eq_some_iff.1 ht).1
        rw [ht]; simp [hlt]
      · simp [hwj]
    · rename_i ht
      by_cases hwj : w = j
      · subst hwj; simp [ht]
      · simp [hwj]

theorem get_set_cases {α} {l : List α} {i j : Nat} {a b : α} (h : (l.set i a)[j]? = some b) :
    (j = i ∧ b = a) ∨ (j ≠ i ∧ l[j]? = some b) := by
  rw [List.getElem?_set] at h
  split at h
  · rename_i hij
    split at h
    · simp at h; exact Or.inl ⟨hij.symm, h.symm⟩
    · simp at h
  · rename_i hij
    exact Or.inr ⟨fun hh => hij hh.symm, h⟩

theorem notifyThreads_cases {ths : List Thread} {ws : List Nat} {j : Nat} {tj : Thread}
    (h : (notifyThreads ths ws)[j]? = some tj) :
    ∃ t0, ths[j]? = some t0 ∧ tj.pc = t0.pc ∧ tj.script = t0.script ∧
      (tj = t0 ∨ (ws.head? = some j ∧ tj.notified = true)) := by
  rw [notifyThreads_get] at h
  cases h0 : ths[j]? with
  | none => simp [h0] at h
  | some t0 =>
    simp [h0] at h
    refine ⟨t0, rfl, ?_⟩
    split at h
    · subst h; simp_all
    · subst h; simp

/-! ### invariant on threads -/

/-- elements the thread is still going to put -/
def pend (t : Thread) : List Elem :=
  (match t.pc with
    | .putAcq e _ => [e]
    | _ => []) ++ opPuts t.script

theorem pend_congr {t t' : Thread} (h1 : t'.pc = t.pc) (h2 : t'.script = t.script) : pend t' = pend t := by
  simp [pend, h1, h2]

theorem pend_arriveTO (c : Nat) (t : Thread) (f : Bool) (ops : List Op) :
    (pend (arriveTO c t f ops)).Sublist (opPuts ops) := by
  induction ops generalizing f with
  | nil => simp [arriveTO, pend, opPuts]
  | cons op rest ih =>
    cases op
    case setStop => simp only [arriveTO, opPuts]; exact ih _
    case exitIfStopped =>
      simp only [arriveTO, opPuts]
      split
      · simp [pend, opPuts]
      · exact ih _
    all_goals simp [arriveTO, pend, opPuts]

theorem pend_arriveT (c : Nat) (f : Bool) (t : Thread) :
    (pend (arriveT c f t)).Sublist (opPuts t.script) := pend_arriveTO c t f t.script

theorem opPuts_sub_pend {t : Thread} {e : Elem} (h : e ∈ opPuts t.script) : e ∈ pend t := by
  simp [pend, h]

structure TOk (D c : Nat) (h : List Obs) (t : Thread) : Prop where
  pendU : ((pend t).map Elem.uid).Nodup
  pendPuts : ∀ e ∈ pend t, ∀ e' ∈ puts h, e.uid ≠ e'.uid
  popOk : ∀ hd, t.pc = .getPop hd →
    (∃ a, Obs.put a hd.elem hd.delayed hd.ins ∈ h) ∧ (hd.delayed = true → hd.ins + D ≤ c)
  sleepOk : ∀ hd dl, t.pc = .getSleep hd dl →
    (∃ a, Obs.put a hd.elem hd.delayed hd.ins ∈ h) ∧ hd.ins + D ≤ dl

structure InvT (D c : Nat) (h : List Obs) (ths : List Thread) : Prop where
  ok : ∀ (i : Nat) t, ths[i]? = some t → TOk D c h t
  pendX : ∀ (i j : Nat) ti tj, ths[i]? = some ti → ths[j]? = some tj → i ≠ j →
    ∀ e ∈ pend ti, ∀ e' ∈ pend tj, e.uid ≠ e'.uid

theorem TOk.congr {D c h t t'} (I : TOk D c h t) (h1 : t'.pc = t.pc) (h2 : t'.script = t.script) :
    TOk D c h t' := by
  have hp := pend_congr h1 h2
  constructor
  · rw [hp]; exact I.pendU
  · rw [hp]; exact I.pendPuts
  · rw [h1]; exact I.popOk
  · rw [h1]; exact I.sleepOk

theorem TOk.mono {D c c' h h' t} (I : TOk D c h t) (hc : c ≤ c') (hh : ∀ o ∈ h, o ∈ h')
    (hp : puts h' = puts h) : TOk D c' h' t := by
  constructor
  · exact I.pendU
  · rw [hp]; exact I.pendPuts
  · intro hd hpc
    obtain ⟨⟨a, ha⟩, h2⟩ := I.popOk hd hpc
    exact ⟨⟨a, hh _ ha⟩, fun hdel => Nat.le_trans (h2 hdel) hc⟩
  · intro hd dl hpc
    obtain ⟨⟨a, ha⟩, h2⟩ := I.sleepOk hd dl hpc
    exact ⟨⟨a, hh _ ha⟩, h2⟩

theorem InvT.mono {D c c' h h' ths} (I : InvT D c h ths) (hc : c ≤ c') (hh : ∀ o ∈ h, o ∈ h')
    (hp : puts h' = puts h) : InvT D c' h' ths :=
  ⟨fun i t hi => (I.ok i t hi).mono hc hh hp, I.pendX⟩

theorem InvT.map {D c h ths ths'} (I : InvT D c h ths)
    (hm : ∀ (j : Nat) tj, ths'[j]? = some tj → ∃ t0, ths[j]? = some t0 ∧ tj.pc = t0.pc ∧ tj.script = t0.script) :
    InvT D c h ths' := by
  constructor
  · intro i t hi
    obtain ⟨t0, h0, h1, h2⟩ := hm i t hi
    exact (I.ok i t0 h0).congr h1 h2
  · intro i j ti tj hi hj hij e he e' he'
    obtain ⟨t0, h0, h1, h2⟩ := hm i ti hi
    obtain ⟨t0', h0', h1', h2'⟩ := hm j tj hj
    rw [pend_congr h1 h2] at he
    rw [pend_congr h1' h2'] at he'
    exact I.pendX i j t0 t0' h0 h0' hij e he e' he'

theorem InvT.notify {D c h ths} (I : InvT D c h ths) (ws : List Nat) :
    InvT D c h (notifyThreads ths ws) :=
  I.map (fun _ _ hj => by
    obtain ⟨t0, h0, h1, h2, _⟩ := notifyThreads_cases hj
    exact ⟨t0, h0, h1, h2⟩)

theorem InvT.set {D c h ths i t t'} (I : InvT D c h ths) (hi : ths[i]? = some t)
    (ok : TOk D c h t') (hp : ∀ e ∈ pend t', e ∈ pend t) : InvT D c h (ths.set i t') := by
  constructor
  · intro j tj hj
    rcases get_set_cases hj with ⟨rfl, rfl⟩ | ⟨_, hj⟩
    · exact ok
    · exact I.ok j tj hj
  · intro j k tj tk hj hk hjk e he e' he'
    rcases get_set_cases hj with ⟨rfl, rfl⟩ | ⟨hji, hj'⟩ <;>
      rcases get_set_cases hk with ⟨rfl, rfl⟩ | ⟨hki, hk'⟩
    · exact absurd rfl hjk
    · exact I.pendX _ _ _ _ hi hk' hjk e (hp e he) e' he'
    · exact I.pendX _ _ _ _ hj' hi hjk e he e' (hp e' he')
    · exact I.pendX _ _ _ _ hj' hk' hjk e he e' he'

theorem InvT.put {D c h ths i t t' e d} (I : InvT D c h ths) (a : Nat) (hi : ths[i]? = some t)
    (hpc : t.pc = .putAcq e d) (hpop : ∀ hd, t'.pc ≠ .getPop hd) (hsl : ∀ hd dl, t'.pc ≠ .getSleep hd dl)
    (hp : (pend t').Sublist (opPuts t.script)) : InvT D c (h ++ [Obs.put a e d c]) (ths.set i t') := by
  have hpt : pend t = e :: opPuts t.script := by simp [pend, hpc]
  have hU := (I.ok i t hi).pendU
  rw [hpt] at hU
  simp only [List.map_cons, List.nodup_cons] at hU
  have hsub : ∀ x ∈ pend t', x ∈ pend t := by
    intro x hx; rw [hpt]; exact List.mem_cons_of_mem _ (hp.subset hx)
  constructor
  · intro j tj hj
    rcases get_set_cases hj with ⟨rfl, rfl⟩ | ⟨hji, hj⟩
    · constructor
      · exact List.Nodup.sublist (hp.map _) hU.2
      · intro x hx y hy
        rw [puts_append] at hy
        rcases List.mem_append.1 hy with hy | hy
        · exact (I.ok _ t hi).pendPuts x (hsub x hx) y hy
        · simp at hy; subst hy
          intro hh
          exact hU.1 (hh ▸ List.mem_map_of_mem (hp.subset hx))
      · intro hd hh; exact absurd hh (hpop hd)
      · intro hd dl hh; exact absurd hh (hsl hd dl)
    · have ok := I.ok j tj hj
      constructor
      · exact ok.pendU
      · intro x hx y hy
        rw [puts_append] at hy
        rcases List.mem_append.1 hy with hy | hy
        · exact ok.pendPuts x hx y hy
        · simp at hy; subst hy
          exact I.pendX j i tj t hj hi hji x hx y (by rw [hpt]; simp)
      · intro hd hh
        obtain ⟨⟨a', ha'⟩, h2⟩ := ok.popOk hd hh
        exact ⟨⟨a', List.mem_append_left _ ha'⟩, h2⟩
      · intro hd dl hh
        obtain ⟨⟨a', ha'⟩, h2⟩ := ok.sleepOk hd dl hh
        exact ⟨⟨a', List.mem_append_left _ ha'⟩, h2⟩
  · intro j k tj tk hj hk hjk x hx y hy
    rcases get_set_cases hj with ⟨rfl, rfl⟩ | ⟨hji, hj'⟩ <;>
      rcases get_set_cases hk with ⟨rfl, rfl⟩ | ⟨hki, hk'⟩
    · exact absurd rfl hjk
    · exact I.pendX _ _ _ _ hi hk' hjk x (hsub x hx) y hy
    · exact I.pendX _ _ _ _ hj' hi hjk x hx y (hsub y hy)
    · exact I.pendX _ _ _ _ hj' hk' hjk x hx y hy

theorem notifyThreads_get_some {ths : List Thread} (ws : List Nat) {j : Nat} {t : Thread}
    (h : ths[j]? = some t) :
    ∃ t1, (notifyThreads ths ws)[j]? = some t1 ∧ t1.pc = t.pc ∧ t1.script = t.script := by
  rw [notifyThreads_get, h]
  simp only [Option.map_some]
  split
  · exact ⟨_, rfl, rfl, rfl⟩
  · exact ⟨_, rfl, rfl, rfl⟩

theorem InvT.notify_set {D c h ths i t t'} (I : InvT D c h ths) (ws : List Nat) (hi : ths[i]? = some t)
    (ok : TOk D c h t') (hp : ∀ e ∈ pend t', e ∈ pend t) :
    InvT D c h ((notifyThreads ths ws).set i t') := by
  obtain ⟨t1, h1, h2, h3⟩ := notifyThreads_get_some ws hi
  exact (I.notify ws).set h1 ok (by rw [pend_congr h2 h3]; exact hp)

theorem arriveTO_pc (c : Nat) (t : Thread) (f : Bool) (ops : List Op) :
    (∀ hd, (arriveTO c t f ops).pc ≠ .getPop hd) ∧ (∀ hd dl, (arriveTO c t f ops).pc ≠ .getSleep hd dl) ∧
      (arriveTO c t f ops).pc ≠ .getWait ∧ (arriveTO c t f ops).pc ≠ .closeAcq := by
  induction ops generalizing f with
  | nil => simp [arriveTO]
  | cons op rest ih =>
    cases op <;> simp [arriveTO]
    · exact ih _
    · split
      · simp
      · exact ih _

theorem arriveT_pc (c : Nat) (f : Bool) (t : Thread) :
    (∀ hd, (arriveT c f t).pc ≠ .getPop hd) ∧ (∀ hd dl, (arriveT c f t).pc ≠ .getSleep hd dl) ∧
      (arriveT c f t).pc ≠ .getWait ∧ (arriveT c f t).pc ≠ .closeAcq := arriveTO_pc c t f t.script

theorem TOk.arrive {D c h t} (I : TOk D c h t) (c' : Nat) (f : Bool) : TOk D c h (arriveT c' f t) := by
  have hsub : (pend (arriveT c' f t)).Sublist (pend t) := by
    refine (pend_arriveT c' f t).trans ?_; unfold pend; exact List.sublist_append_right _ _
  constructor
  · exact List.Nodup.sublist (hsub.map _) I.pendU
  · intro e he; exact I.pendPuts e (hsub.subset he)
  · intro hd hh; exact absurd hh ((arriveT_pc c' f t).1 hd)
  · intro hd dl hh; exact absurd hh ((arriveT_pc c' f t).2.1 hd dl)

theorem pend_arriveT_sub (c : Nat) (f : Bool) (t : Thread) : ∀ e ∈ pend (arriveT c f t), e ∈ pend t := by
  intro e he; exact opPuts_sub_pend ((pend_arriveT c f t).subset he)

theorem TOk.repc {D c h t} (I : TOk D c h t) (t' : Thread) (hp : pend t' = pend t)
    (pop : ∀ hd, t'.pc = .getPop hd →
      (∃ a, Obs.put a hd.elem hd.delayed hd.ins ∈ h) ∧ (hd.delayed = true → hd.ins + D ≤ c))
    (sl : ∀ hd dl, t'.pc = .getSleep hd dl →
      (∃ a, Obs.put a hd.elem hd.delayed hd.ins ∈ h) ∧ hd.ins + D ≤ dl) : TOk D c h t' :=
  ⟨hp ▸ I.pendU, hp ▸ I.pendPuts, pop, sl⟩

theorem eq_of_nodup_map {α β} (f : α → β) {l : List α} (hnd : (l.map f).Nodup) {a b : α}
    (ha : a ∈ l) (hb : b ∈ l) (hab : f a = f b) : a = b := by
  induction l with
  | nil => simp at ha
  | cons x l ih =>
    simp only [List.map_cons, List.nodup_cons] at hnd
    rcases List.mem_cons.1 ha with rfl | ha' <;> rcases List.mem_cons.1 hb with rfl | hb'
    · rfl
    · exact absurd (hab ▸ List.mem_map_of_mem hb') hnd.1
    · exact absurd (hab ▸ List.mem_map_of_mem ha') hnd.1
    · exact ih hnd.2 ha' hb'

/-! ### the invariant and its preservation -/

structure Inv (D : Nat) (s : State) : Prop where
  dl : s.delay = D
  H : InvH D s.hist s.queue
  T : InvT D s.clock s.hist s.threads

theorem pend_not_put {t : Thread} (h : ∀ e d, t.pc ≠ .putAcq e d) : pend t = opPuts t.script := by
  unfold pend
  split
  · rename_i e d heq; exact absurd heq (h e d)
  · simp

theorem getLocked_inv {D s tid t t0} (I : Inv D s) (ht : s.threads[tid]? = some t0)
    (h1 : t.pc = t0.pc) (h2 : t.script = t0.script) (hnp : ∀ e d, t.pc ≠ .putAcq e d) :
    Inv D (getLocked s tid t) := by
  obtain ⟨hdl, H, T⟩ := I
  have ok : TOk D s.clock s.hist t := (T.ok tid t0 ht).congr h1 h2
  have hpe : pend t = pend t0 := pend_congr h1 h2
  have hclosed : Inv D (arrive { s with hist := s.hist ++ [.gotNone tid s.clock] } tid t) := by
    simp only [arrive_eq]
    refine ⟨hdl, H.neutral _ trivial, ?_⟩
    have T' : InvT D s.clock (s.hist ++ [.gotNone tid s.clock]) s.threads :=
      T.mono (Nat.le_refl _) (fun o ho => List.mem_append_left _ ho) (by simp [puts_append])
    have ok' := ((T'.ok tid t0 ht).congr h1 h2).arrive s.clock s.stopFlag
    exact T'.set ht ok' (fun e he => hpe ▸ pend_arriveT_sub _ _ _ e he)
  unfold getLocked
  split
  · split
    · exact hclosed
    · simp only [State.setThread]
      refine ⟨hdl, H, T.set ht (ok.repc _ ?_ ?_ ?_) ?_⟩
      · rw [pend_not_put hnp, pend_not_put (by simp)]
      · simp
      · simp
      · intro e he; rw [pend_not_put (by simp)] at he; rw [← hpe, pend_not_put hnp]; exact he
  · rename_i head rest hq
    have hput : ∃ a, Obs.put a head.elem head.delayed head.ins ∈ s.hist :=
      H.qHist head (by rw [hq]; simp)
    split
    · exact hclosed
    · split
      · rename_i hc hearly
        simp only [State.setThread]
        refine ⟨hdl, H, T.set ht (ok.repc _ ?_ ?_ ?_) ?_⟩
        · rw [pend_not_put hnp, pend_not_put (by simp)]
        · simp
        · intro hd dl hh
          simp at hh
          obtain ⟨rfl, rfl⟩ := hh
          exact ⟨hput, by omega⟩
        · intro e he; rw [pend_not_put (by simp)] at he; rw [← hpe, pend_not_put hnp]; exact he
      · rename_i hc hearly
        simp only [State.setThread]
        refine ⟨hdl, H, T.set ht (ok.repc _ ?_ ?_ ?_) ?_⟩
        · rw [pend_not_put hnp, pend_not_put (by simp)]
        · intro hd hh
          simp at hh
          subst hh
          refine ⟨hput, fun hdel => ?_⟩
          simp [hdel] at hearly
          omega
        · simp
        · intro e he; rw [pend_not_put (by simp)] at he; rw [← hpe, pend_not_put hnp]; exact he

theorem step_inv {D s tid s'} (I : Inv D s) (hs : step s tid = some s') : Inv D s' := by
  have I0 := I
  obtain ⟨hdl, H, T⟩ := I
  unfold step at hs
  split at hs
  · simp at hs
  rename_i hen
  split at hs
  · simp at hs
  rename_i t ht
  simp only [State.thread?] at ht
  have ok := T.ok tid t ht
  -- neutral history extension
  have Tn : ∀ o, puts (s.hist ++ [o]) = puts s.hist → InvT D s.clock (s.hist ++ [o]) s.threads :=
    fun o ho => T.mono (Nat.le_refl _) (fun o ho => List.mem_append_left _ ho) ho
  split at hs
  all_goals (try (simp only [Option.some.injEq] at hs; subst hs))
  · -- begin
    simp only [arrive_eq]
    exact ⟨hdl, H, T.set ht (ok.arrive _ _) (pend_arriveT_sub _ _ _)⟩
  · -- putAcq
    rename_i e d hpc
    simp only [arrive_eq, notifyOne_eq]
    have hpt : pend t = e :: opPuts t.script := by simp [pend, hpc]
    refine ⟨hdl, H.put _ _ _ _ (ok.pendPuts e (by rw [hpt]; simp)), ?_⟩
    obtain ⟨t1, h1, h2, h3⟩ := notifyThreads_get_some s.waiters ht
    exact (T.notify s.waiters).put tid h1 (h2 ▸ hpc) (arriveT_pc _ _ _).1 (arriveT_pc _ _ _).2.1
      (by rw [h3]; exact pend_arriveT _ _ _)
  · -- getAcq
    rename_i hpc
    exact getLocked_inv I0 ht rfl rfl (by simp [hpc])
  · -- getWait
    rename_i hpc
    exact getLocked_inv I0 ht rfl rfl (by simp [hpc])
  · -- getSleep
    rename_i head dl hpc
    simp only [State.setThread]
    have hdl' : dl ≤ s.clock := by
      simp [enabled, State.thread?, ht, hpc] at hen; exact hen
    refine ⟨hdl, H, T.set ht (ok.repc _ ?_ ?_ ?_) ?_⟩
    · rw [pend_not_put (by simp), pend_not_put (by simp [hpc])]
    · intro hd hh
      simp at hh; subst hh
      obtain ⟨hp, hle⟩ := ok.sleepOk _ _ hpc
      exact ⟨hp, fun _ => by omega⟩
    · simp
    · intro e he; rw [pend_not_put (by simp)] at he; rw [pend_not_put (by simp [hpc])]; exact he
  · -- getPop
    rename_i head hpc
    have back : Inv D (s.setThread tid { t with pc := .getAcq }) := by
      simp only [State.setThread]
      refine ⟨hdl, H, T.set ht (ok.repc _ ?_ ?_ ?_) ?_⟩
      · rw [pend_not_put (by simp), pend_not_put (by simp [hpc])]
      · simp
      · simp
      · intro e he; rw [pend_not_put (by simp)] at he; rw [pend_not_put (by simp [hpc])]; exact he
    split at hs
    · rename_i h rest hq
      split at hs
      · rename_i huid
        simp only [Option.some.injEq] at hs; subst hs
        obtain ⟨⟨a1, hp1⟩, hle⟩ := ok.popOk _ hpc
        obtain ⟨a2, hp2⟩ := H.qHist h (by rw [hq]; simp)
        have heq : h.elem = head.elem :=
          eq_of_nodup_map Elem.uid H.putsU (mem_puts.2 ⟨_, _, _, hp2⟩) (mem_puts.2 ⟨_, _, _, hp1⟩) huid
        simp only [arrive_eq]
        rw [hq] at H
        refine ⟨hdl, ?_, ?_⟩
        · rw [← heq]
          apply H.got
          intro a' t0 hp3
          rw [heq] at hp3
          obtain ⟨hd1, hd2⟩ := H.putUniq _ _ _ _ _ _ _ hp1 hp3
          subst hd2
          exact hle hd1
        · have T' := Tn (.got tid head.elem s.clock) (by simp [puts_append])
          exact T'.set ht ((T'.ok tid t ht).arrive _ _) (pend_arriveT_sub _ _ _)
      · simp only [Option.some.injEq] at hs; subst hs; exact back
    · simp only [Option.some.injEq] at hs; subst hs; exact back
  · -- remAcq
    rename_i v hpc
    split at hs
    · rename_i e q hrf
      simp only [Option.some.injEq] at hs; subst hs
      simp only [arrive_eq]
      refine ⟨hdl, H.removed _ _ hrf, ?_⟩
      have T' := Tn (.removed tid e.elem s.clock) (by simp [puts_append])
      exact T'.set ht ((T'.ok tid t ht).arrive _ _) (pend_arriveT_sub _ _ _)
    · simp only [Option.some.injEq] at hs; subst hs
      simp only [arrive_eq]
      refine ⟨hdl, H.neutral _ trivial, ?_⟩
      have T' := Tn (.removedNone tid s.clock) (by simp [puts_append])
      exact T'.set ht ((T'.ok tid t ht).arrive _ _) (pend_arriveT_sub _ _ _)
  · -- closeFlag
    rename_i hpc
    simp only [State.setThread]
    refine ⟨hdl, H, T.set ht (ok.repc _ ?_ ?_ ?_) ?_⟩
    · rw [pend_not_put (by simp), pend_not_put (by simp [hpc])]
    · simp
    · simp
    · intro e he; rw [pend_not_put (by simp)] at he; rw [pend_not_put (by simp [hpc])]; exact he
  · -- closeAcq
    rename_i hpc
    simp only [arrive_eq, notifyOne_eq]
    refine ⟨hdl, H.neutral _ trivial, ?_⟩
    have T' := Tn (.closed tid s.clock) (by simp [puts_append])
    exact T'.notify_set _ ht ((T'.ok tid t ht).arrive _ _) (pend_arriveT_sub _ _ _)
  · -- sleeping
    simp only [arrive_eq]
    exact ⟨hdl, H, T.set ht (ok.arrive _ _) (pend_arriveT_sub _ _ _)⟩
  · -- waitingStop
    simp only [arrive_eq]
    exact ⟨hdl, H, T.set ht (ok.arrive _ _) (pend_arriveT_sub _ _ _)⟩
  · -- joining
    simp only [arrive_eq]
    exact ⟨hdl, H, T.set ht (ok.arrive _ _) (pend_arriveT_sub _ _ _)⟩
  · simp at hs

theorem act_inv {D s} (I : Inv D s) (a : Action) : Inv D (act s a) := by
  cases a with
  | step tid =>
    simp only [act]
    cases hs : step s tid with
    | none => exact I
    | some s' => exact step_inv I hs
  | tick d =>
    simp only [act]
    exact ⟨I.dl, I.H, I.T.mono (Nat.le_add_right _ _) (fun _ h => h) rfl⟩

theorem run_inv {D s} (I : Inv D s) (as : List Action) : Inv D (run s as) := by
  induction as generalizing s with
  | nil => exact I
  | cons a as ih => exact ih (act_inv I a)

theorem init_inv (delay : Nat) (scripts : List (List Op)) (h : distinctPuts scripts) :
    Inv delay (init delay scripts) := by
  unfold distinctPuts at h
  have h' := List.pairwise_map.1 h
  obtain ⟨hin, hx⟩ := List.pairwise_flatMap.1 h'
  have hx' := List.pairwise_iff_getElem.1 hx
  have hget : ∀ (i : Nat) t, (init delay scripts).threads[i]? = some t →
      ∃ sc, scripts[i]? = some sc ∧ pend t = opPuts sc ∧ t.pc = .begin := by
    intro i t hi
    simp only [init, List.getElem?_map] at hi
    cases hsc : scripts[i]? with
    | none => simp [hsc] at hi
    | some sc =>
      simp [hsc] at hi
      subst hi
      exact ⟨sc, rfl, by simp [pend], rfl⟩
  refine ⟨rfl, InvH.init _, ?_, ?_⟩
  · intro i t hi
    obtain ⟨sc, hsc, hp, hpc⟩ := hget i t hi
    constructor
    · rw [hp]; exact List.pairwise_map.2 (hin sc (List.mem_of_getElem? hsc))
    · intro e _ e' he'; simp [init, puts] at he'
    · intro hd hh; rw [hpc] at hh; cases hh
    · intro hd dl hh; rw [hpc] at hh; cases hh
  · intro i j ti tj hi hj hij e he e' he'
    obtain ⟨sci, hsci, hpi, _⟩ := hget i ti hi
    obtain ⟨scj, hscj, hpj, _⟩ := hget j tj hj
    rw [hpi] at he
    rw [hpj] at he'
    obtain ⟨hli, rfl⟩ := List.getElem?_eq_some_iff.1 hsci
    obtain ⟨hlj, rfl⟩ := List.getElem?_eq_some_iff.1 hscj
    rcases Nat.lt_or_gt_of_ne hij with hlt | hgt
    · exact hx' i j hli hlj hlt e he e' he'
    · exact fun hh => hx' j i hlj hli hgt e' he' e he hh.symm

theorem reach_inv (delay : Nat) (scripts : List (List Op)) (as : List Action) (h : distinctPuts scripts) :
    Inv delay (run (init delay scripts) as) :=
  run_inv (init_inv delay scripts h) as

theorem InvH.gots_sub_live {D h q} (I : InvH D h q) : (gots h).Sublist (live h) := by
  rw [I.acc]; exact List.sublist_append_left _ _


/-! ### times in the history are not in the future -/

def GotLe (s : State) : Prop := ∀ a e t, Obs.got a e t ∈ s.hist → t ≤ s.clock

theorem getLocked_clock_hist (s : State) (tid : Nat) (t : Thread) :
    (getLocked s tid t).clock = s.clock ∧
      ∀ a e c, Obs.got a e c ∈ (getLocked s tid t).hist → Obs.got a e c ∈ s.hist := by
  unfold getLocked
  split
  · split <;> simp [arrive_eq, State.setThread]
  · split
    · simp [arrive_eq]
    · split <;> simp [State.setThread]

theorem step_clock_hist {s tid s'} (hs : step s tid = some s') :
    s'.clock = s.clock ∧ ∀ a e c, Obs.got a e c ∈ s'.hist → Obs.got a e c ∈ s.hist ∨ c = s.clock := by
  unfold step at hs
  split at hs
  · simp at hs
  split at hs
  · simp at hs
  rename_i t ht
  split at hs
  all_goals (try (simp only [Option.some.injEq] at hs; subst hs))
  · simp [arrive_eq] <;> (try (intro a e c h; exact Or.inl h))
  · simp [arrive_eq, notifyOne_eq] <;> (try (intro a e c h; exact Or.inl h))
  · exact ⟨(getLocked_clock_hist ..).1, fun a e c h => Or.inl ((getLocked_clock_hist ..).2 a e c h)⟩
  · exact ⟨(getLocked_clock_hist ..).1, fun a e c h => Or.inl ((getLocked_clock_hist ..).2 a e c h)⟩
  · simp [State.setThread] <;> (try (intro a e c h; exact Or.inl h))
  · split at hs
    · split at hs
      · simp only [Option.some.injEq] at hs; subst hs
        simp only [arrive_eq, List.mem_append, List.mem_singleton, true_and]
        intro a e c hh
        rcases hh with hh | hh
        · exact Or.inl hh
        · injection hh with _ _ hc; exact Or.inr hc
      · simp only [Option.some.injEq] at hs; subst hs; simp [State.setThread] <;> (try (intro a e c h; exact Or.inl h))
    · simp only [Option.some.injEq] at hs; subst hs; simp [State.setThread] <;> (try (intro a e c h; exact Or.inl h))
  · split at hs <;> (simp only [Option.some.injEq] at hs; subst hs; simp [arrive_eq] <;> (try (intro a e c h; exact Or.inl h)))
  · simp [State.setThread] <;> (try (intro a e c h; exact Or.inl h))
  · simp [arrive_eq, notifyOne_eq] <;> (try (intro a e c h; exact Or.inl h))
  · simp [arrive_eq] <;> (try (intro a e c h; exact Or.inl h))
  · simp [arrive_eq] <;> (try (intro a e c h; exact Or.inl h))
  · simp [arrive_eq] <;> (try (intro a e c h; exact Or.inl h))
  · simp at hs

theorem act_gotLe {s} (G : GotLe s) (a : Action) : GotLe (act s a) := by
  cases a with
  | step tid =>
    simp only [act]
    cases hs : step s tid with
    | none => exact G
    | some s' =>
      obtain ⟨hc, hh⟩ := step_clock_hist hs
      intro a e c hg
      simp only [Option.getD_some] at hg ⊢
      rcases hh a e c hg with h1 | h1
      · rw [hc]; exact G a e c h1
      · rw [hc, h1]; exact Nat.le_refl _
  | tick d =>
    intro a e c hg
    simp only [act] at hg ⊢
    exact Nat.le_trans (G a e c hg) (Nat.le_add_right _ _)

theorem run_gotLe {s} (G : GotLe s) (as : List Action) : GotLe (run s as) := by
  induction as generalizing s with
  | nil => exact G
  | cons a as ih => exact ih (act_gotLe G a)

theorem reach_gotLe (delay : Nat) (scripts : List (List Op)) (as : List Action) :
    GotLe (run (init delay scripts) as) :=
  run_gotLe (by intro a e c hg; simp [init] at hg) as

/-! ### the queue theorems -/

theorem accounting (delay : Nat) (scripts : List (List Op)) (as : List Action) (h : distinctPuts scripts) :
    live (run (init delay scripts) as).hist =
      gots (run (init delay scripts) as).hist ++ (run (init delay scripts) as).queue.map Entry.elem :=
  (reach_inv delay scripts as h).H.acc

theorem never_both (delay : Nat) (scripts : List (List Op)) (as : List Action) (h : distinctPuts scripts) :
    (gots (run (init delay scripts) as).hist ++ removeds (run (init delay scripts) as).hist).Nodup := by
  have H := (reach_inv delay scripts as h).H
  refine List.nodup_append.2 ⟨List.Nodup.sublist H.gots_sub_live H.live_nodup, H.remNodup, ?_⟩
  intro a ha b hb hab
  subst hab
  exact not_removed_of_live (H.gots_sub_live.subset ha) hb

theorem order (delay : Nat) (scripts : List (List Op)) (as : List Action) (h : distinctPuts scripts) :
    (gots (run (init delay scripts) as).hist).Sublist (puts (run (init delay scripts) as).hist) := by
  have H := (reach_inv delay scripts as h).H
  exact H.gots_sub_live.trans List.filter_sublist

theorem alone_not_early (delay : Nat) (scripts : List (List Op)) (as : List Action) (h : distinctPuts scripts)
    (tid tid' : Nat) (e : Elem) (t t0 : Nat)
    (hg : Obs.got tid e t ∈ (run (init delay scripts) as).hist)
    (hp : Obs.put tid' e true t0 ∈ (run (init delay scripts) as).hist) : t0 + delay ≤ t :=
  (reach_inv delay scripts as h).H.ne _ _ _ _ _ hg hp

theorem pending_until_delay (delay : Nat) (scripts : List (List Op)) (as : List Action) (h : distinctPuts scripts)
    (tid : Nat) (e : Elem) (t0 : Nat)
    (hp : Obs.put tid e true t0 ∈ (run (init delay scripts) as).hist)
    (hr : e ∉ removeds (run (init delay scripts) as).hist)
    (hc : (run (init delay scripts) as).clock < t0 + delay) :
    e ∈ (run (init delay scripts) as).queue.map Entry.elem := by
  have I := reach_inv delay scripts as h
  have G := reach_gotLe delay scripts as
  have hl : e ∈ live (run (init delay scripts) as).hist := by
    simp only [live, List.mem_filter]
    exact ⟨mem_puts.2 ⟨_, _, _, hp⟩, by simpa using hr⟩
  rw [I.H.acc] at hl
  rcases List.mem_append.1 hl with hg | hq
  · obtain ⟨a, t, hgot⟩ := mem_gots.1 hg
    have h1 := I.H.ne _ _ _ _ _ hgot hp
    have h2 := G _ _ _ hgot
    omega
  · exact hq

theorem removeFirst_of_mem {v : Nat} {q : List Entry} (x : Entry) (hx : x ∈ q) (hv : x.elem.val = v) :
    ∃ y q', removeFirst v q = some (y, q') ∧ y.elem.val = v := by
  induction q with
  | nil => simp at hx
  | cons z rest ih =>
    unfold removeFirst
    by_cases hz : z.elem.val = v
    · simp [hz]
    · rcases List.mem_cons.1 hx with rfl | hx'
      · exact absurd hv hz
      · obtain ⟨y, q', h1, h2⟩ := ih hx'
        simp [hz, h1, h2]

theorem pairs_when_in_time (delay : Nat) (scripts : List (List Op)) (as : List Action) (h : distinctPuts scripts)
    (tid tid' : Nat) (t : Thread) (e : Elem) (t0 v : Nat)
    (hp : Obs.put tid' e true t0 ∈ (run (init delay scripts) as).hist)
    (hr : e ∉ removeds (run (init delay scripts) as).hist)
    (hc : (run (init delay scripts) as).clock < t0 + delay)
    (ht : (run (init delay scripts) as).thread? tid = some t) (hpc : t.pc = .remAcq v) (hv : e.val = v) :
    ∃ s1 e', step (run (init delay scripts) as) tid = some s1 ∧ e'.val = v ∧
      s1.hist = (run (init delay scripts) as).hist ++ [.removed tid e' (run (init delay scripts) as).clock] := by
  have hq := pending_until_delay delay scripts as h tid' e t0 hp hr hc
  generalize run (init delay scripts) as = s at *
  obtain ⟨x, hx, rfl⟩ := List.mem_map.1 hq
  obtain ⟨y, q', hrf, hy⟩ := removeFirst_of_mem x hx hv
  have hen : enabled s tid = true := by simp [enabled, ht, hpc]
  refine ⟨arrive { s with queue := q', hist := s.hist ++ [.removed tid y.elem s.clock] } tid t, y.elem, ?_, hy, ?_⟩
  · simp [step, hen, ht, hpc, hrf]
  · simp [arrive_eq]

/-! ### grouping -/

def gstep (slot0 : Nat) (acc : List Item × List Nat) (ev : Rec) : List Item × List Nat :=
  if ev.movedTo then
    match pairInBatch ev acc.1 with
    | some g => (g, acc.2)
    | none => (acc.1 ++ [.lookup (slot0 + acc.2.length) ev], acc.2 ++ [ev.cookie])
  else (acc.1 ++ [.single ev], acc.2)

theorem groupBatch_eq (batch : List Rec) (slot0 : Nat) :
    groupBatch batch slot0 = batch.foldl (gstep slot0) ([], []) := rfl

theorem pairInBatch_spec {t : Rec} {l g : List Item} (h : pairInBatch t l = some g) :
    ∃ l1 r l2, l = l1 ++ .single r :: l2 ∧ g = l1 ++ .pair r t :: l2 ∧
      r.movedFrom = true ∧ r.cookie = t.cookie := by
  induction l generalizing g with
  | nil => simp [pairInBatch] at h
  | cons it rest ih =>
    have other : ∀ g', pairInBatch t rest = some g' → g = it :: g' →
        ∃ l1 r l2, it :: rest = l1 ++ .single r :: l2 ∧ g = l1 ++ .pair r t :: l2 ∧
          r.movedFrom = true ∧ r.cookie = t.cookie := by
      intro g' hg' hg
      obtain ⟨l1, r, l2, h1, h2, h3, h4⟩ := ih hg'
      exact ⟨it :: l1, r, l2, by simp [h1], by simp [hg, h2], h3, h4⟩
    cases it with
    | single r =>
      unfold pairInBatch at h
      split at h
      · rename_i hc
        simp only [Bool.and_eq_true, beq_iff_eq] at hc
        simp only [Option.some.injEq] at h
        exact ⟨[], r, rest, rfl, h.symm, hc.1, hc.2⟩
      · obtain ⟨g', hg', hg⟩ := Option.map_eq_some_iff.1 h
        exact other g' hg' hg.symm
    | pair f t' =>
      unfold pairInBatch at h
      obtain ⟨g', hg', hg⟩ := Option.map_eq_some_iff.1 h
      exact other g' hg' hg.symm
    | lookup n t' =>
      unfold pairInBatch at h
      obtain ⟨g', hg', hg⟩ := Option.map_eq_some_iff.1 h
      exact other g' hg' hg.symm

/-- induction principle for `groupBatch` -/
theorem groupBatch_ind (slot0 : Nat) (P : List Rec → List Item → Prop) (h0 : P [] [])
    (hs : ∀ b l ev, P b l → ev.movedTo = false → P (b ++ [ev]) (l ++ [.single ev]))
    (hl : ∀ b l ev n, P b l → ev.movedTo = true → P (b ++ [ev]) (l ++ [.lookup n ev]))
    (hp : ∀ b l ev g, P b l → ev.movedTo = true → pairInBatch ev l = some g → P (b ++ [ev]) g)
    (batch : List Rec) : P batch (groupBatch batch slot0).1 := by
  have gen : ∀ (batch b0 : List Rec) (acc : List Item × List Nat), P b0 acc.1 →
      P (b0 ++ batch) (batch.foldl (gstep slot0) acc).1 := by
    intro batch
    induction batch with
    | nil => intro b0 acc h; simpa using h
    | cons ev rest ih =>
      intro b0 acc h
      have : b0 ++ ev :: rest = (b0 ++ [ev]) ++ rest := by simp
      rw [this, List.foldl_cons]
      apply ih
      unfold gstep
      split
      · rename_i hm
        split
        · rename_i g hg; exact hp _ _ _ _ h hm hg
        · exact hl _ _ _ _ h hm
      · rename_i hm
        exact hs _ _ _ h (by simpa using hm)
  simpa [groupBatch_eq] using gen batch [] ([], []) h0

theorem group_covers (batch : List Rec) (slot0 : Nat) :
    ((groupBatch batch slot0).1.flatMap itemRecs).Perm batch := by
  refine groupBatch_ind slot0 (fun b l => (l.flatMap itemRecs).Perm b) (by simp) ?_ ?_ ?_ batch
  · intro b l ev h _
    simpa [List.flatMap_append, itemRecs] using h.append_right [ev]
  · intro b l ev n h _
    simpa [List.flatMap_append, itemRecs] using h.append_right [ev]
  · intro b l ev g h _ hg
    obtain ⟨l1, r, l2, rfl, rfl, _, _⟩ := pairInBatch_spec hg
    refine List.Perm.trans ?_ (h.append_right [ev])
    simp only [List.flatMap_append, List.flatMap_cons, itemRecs, List.append_assoc, List.cons_append,
      List.nil_append]
    refine List.Perm.append_left _ (List.Perm.cons _ ?_)
    exact (List.perm_append_singleton ev _).symm

theorem group_pairs (batch : List Rec) (slot0 : Nat) (f t : Rec)
    (h : Item.pair f t ∈ (groupBatch batch slot0).1) :
    f.movedFrom = true ∧ t.movedTo = true ∧ f.cookie = t.cookie ∧ f ∈ batch ∧ t ∈ batch := by
  have hmem : ∀ x ∈ itemRecs (Item.pair f t), x ∈ batch := by
    intro x hx
    exact (group_covers batch slot0).subset (List.mem_flatMap.2 ⟨_, h, hx⟩)
  have key : ∀ f t, Item.pair f t ∈ (groupBatch batch slot0).1 →
      f.movedFrom = true ∧ t.movedTo = true ∧ f.cookie = t.cookie := by
    refine groupBatch_ind slot0 (fun _ l => ∀ f t, Item.pair f t ∈ l →
      f.movedFrom = true ∧ t.movedTo = true ∧ f.cookie = t.cookie) (by simp) ?_ ?_ ?_ batch
    · intro b l ev ih _ f t hft
      simp at hft; exact ih f t hft
    · intro b l ev n ih _ f t hft
      simp at hft; exact ih f t hft
    · intro b l ev g ih hm hg f t hft
      obtain ⟨l1, r, l2, rfl, rfl, h3, h4⟩ := pairInBatch_spec hg
      simp only [List.mem_append, List.mem_cons] at hft
      rcases hft with h1 | h1 | h1
      · exact ih f t (by simp [h1])
      · injection h1 with hf ht; subst hf ht; exact ⟨h3, hm, h4⟩
      · exact ih f t (by simp [h1])
  obtain ⟨h1, h2, h3⟩ := key f t h
  exact ⟨h1, h2, h3, hmem f (by simp [itemRecs]), hmem t (by simp [itemRecs])⟩

theorem group_singles_order (batch : List Rec) (slot0 : Nat) :
    ((groupBatch batch slot0).1.filterMap (fun it => match it with | .single r => some r | _ => none)).Sublist batch := by
  refine groupBatch_ind slot0 (fun b l =>
    (l.filterMap (fun it => match it with | .single r => some r | _ => none)).Sublist b) (by simp) ?_ ?_ ?_ batch
  · intro b l ev h _
    simpa [List.filterMap_append] using h.append (List.Sublist.refl [ev])
  · intro b l ev n h _
    simpa [List.filterMap_append] using h.trans (List.sublist_append_left b [ev])
  · intro b l ev g h _ hg
    obtain ⟨l1, r, l2, rfl, rfl, _, _⟩ := pairInBatch_spec hg
    refine List.Sublist.trans ?_ (h.trans (List.sublist_append_left b [ev]))
    simp only [List.filterMap_append, List.filterMap_cons]
    exact List.Sublist.append_left (List.sublist_cons_self _ _) _

end WD.ProofsIB
