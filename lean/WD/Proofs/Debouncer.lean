/- helper lemmas and the proofs behind WD.Props.C18 -/
import WD.Model.Debouncer
namespace WD.ProofsDeb
open WD.Deb

def handedVals (h : List Obs) : List Nat := h.filterMap (fun o => match o with | .handed _ v _ => some v | _ => none)
def batchVals (h : List Obs) : List Nat := h.flatMap (fun o => match o with | .batch vs _ => vs | _ => [])

/-! ### history-only facts -/

/-- nothing is delivered after a `stopped` -/
def NAS (h : List Obs) : Prop :=
  ∀ p q tid t, h = p ++ Obs.stopped tid t :: q → ∀ vs t', Obs.batch vs t' ∉ q

/-- every delivery comes at least `I` after everything handed in before it -/
def SIL (I : Nat) (h : List Obs) : Prop :=
  ∀ p q vs t, h = p ++ Obs.batch vs t :: q → ∀ tid v t0, Obs.handed tid v t0 ∈ p → t0 + I ≤ t

theorem snoc_split {α : Type} {h p q : List α} {o x : α} (e : h ++ [o] = p ++ x :: q) :
    (q = [] ∧ h = p ∧ o = x) ∨ ∃ q', q = q' ++ [o] ∧ h = p ++ x :: q' := by
  rcases List.eq_nil_or_concat q with rfl | ⟨q', o', rfl⟩
  · left
    have := List.append_inj' e (by simp)
    simp_all
  · right
    rw [List.concat_eq_append] at e ⊢
    have e' : h ++ [o] = (p ++ x :: q') ++ [o'] := by simpa using e
    have := List.append_inj' e' (by simp)
    refine ⟨q', ?_, this.1⟩
    simp_all

theorem handedVals_snoc (h : List Obs) (o : Obs) :
    handedVals (h ++ [o]) = handedVals h ++ (match o with | .handed _ v _ => [v] | _ => []) := by
  cases o <;> simp [handedVals, List.filterMap_append]

theorem batchVals_snoc (h : List Obs) (o : Obs) :
    batchVals (h ++ [o]) = batchVals h ++ (match o with | .batch vs _ => vs | _ => []) := by
  cases o <;> simp [batchVals, List.flatMap_append]

theorem NAS_nil : NAS [] := by
  intro p q tid t e; simp at e

theorem NAS_snoc_nonbatch {h : List Obs} {o : Obs} (H : NAS h) (ho : ∀ vs t, o ≠ Obs.batch vs t) :
    NAS (h ++ [o]) := by
  intro p q tid t e vs t' hm
  rcases snoc_split e with ⟨rfl, _, _⟩ | ⟨q', rfl, e'⟩
  · simp at hm
  · rcases List.mem_append.1 hm with hm | hm
    · exact H p q' tid t e' vs t' hm
    · simp at hm; exact ho vs t' hm.symm

theorem NAS_snoc_nostop {h : List Obs} {o : Obs} (H : ∀ tid t, Obs.stopped tid t ∉ h) :
    NAS (h ++ [o]) := by
  intro p q tid t e vs t' hm
  rcases snoc_split e with ⟨rfl, _, _⟩ | ⟨q', rfl, e'⟩
  · simp at hm
  · exact absurd (by rw [e']; simp) (H tid t)

theorem SIL_nil (I : Nat) : SIL I [] := by
  intro p q vs t e; simp at e

theorem SIL_snoc_nonbatch {I : Nat} {h : List Obs} {o : Obs} (H : SIL I h)
    (ho : ∀ vs t, o ≠ Obs.batch vs t) : SIL I (h ++ [o]) := by
  intro p q vs t e tid v t0 hm
  rcases snoc_split e with ⟨rfl, _, e'⟩ | ⟨q', rfl, e'⟩
  · exact absurd e' (ho vs t)
  · exact H p q' vs t e' tid v t0 hm

theorem SIL_snoc_batch {I : Nat} {h : List Obs} {ws : List Nat} {c : Nat} (H : SIL I h)
    (hc : ∀ tid v t0, Obs.handed tid v t0 ∈ h → t0 + I ≤ c) : SIL I (h ++ [Obs.batch ws c]) := by
  intro p q vs t e tid v t0 hm
  rcases snoc_split e with ⟨rfl, rfl, e'⟩ | ⟨q', rfl, e'⟩
  · cases e'; exact hc tid v t0 hm
  · exact H p q' vs t e' tid v t0 hm

/-! ### the invariant -/

/-- the part of the invariant that does not mention the debouncer's pc / `notified` -/
structure Base (I : Nat) (s : State) : Prop where
  int : s.interval = I
  ord : handedVals s.hist = batchVals s.hist ++ s.events
  stopRun : ∀ tid t, Obs.stopped tid t ∈ s.hist → s.running = false
  nas : NAS s.hist
  clk : ∀ tid v t0, Obs.handed tid v t0 ∈ s.hist → t0 ≤ s.clock
  sil : SIL I s.hist

structure Inv (I : Nat) (s : State) : Prop where
  base : Base I s
  wm : ∀ dl, s.deb = .dWaitMore dl → s.notified = false →
    ∀ tid v t0, Obs.handed tid v t0 ∈ s.hist → t0 + I ≤ dl
  ex : s.running = false → s.deb = .done ∨ debEnabled s = true

theorem Base.congr {I : Nat} {s s' : State} (B : Base I s) (h1 : s'.interval = s.interval)
    (h2 : s'.hist = s.hist) (h3 : s'.events = s.events) (h4 : s'.running = s.running)
    (h5 : s'.clock = s.clock) : Base I s' := by
  constructor
  · rw [h1]; exact B.int
  · rw [h2, h3]; exact B.ord
  · rw [h2, h4]; exact B.stopRun
  · rw [h2]; exact B.nas
  · rw [h2, h5]; exact B.clk
  · rw [h2]; exact B.sil

theorem Inv.congr {I : Nat} {s s' : State} (H : Inv I s) (h1 : s'.interval = s.interval)
    (h2 : s'.hist = s.hist) (h3 : s'.events = s.events) (h4 : s'.running = s.running)
    (h5 : s'.clock = s.clock) (h6 : s'.deb = s.deb) (h7 : s'.notified = s.notified) : Inv I s' := by
  refine ⟨H.base.congr h1 h2 h3 h4 h5, ?_, ?_⟩
  · rw [h6, h7, h2]; exact H.wm
  · have : debEnabled s' = debEnabled s := by simp [debEnabled, h6, h7, h5]
    rw [h4, h6, this]; exact H.ex

/-! ### the debouncer's loop, closed forms -/

theorem debDeliver_eq (n : Nat) (s : State) : debDeliver (n + 2) s =
    if s.running then
      { s with events := [], hist := s.hist ++ [Obs.batch s.events s.clock], deb := .dWaitFirst,
               notified := false }
    else { s with deb := .done } := by
  cases h : s.running <;> simp [debDeliver, debLoop, State.log, h]

theorem inv_deliver {I : Nat} {s : State} (n : Nat) (B : Base I s)
    (hc : s.running = true → ∀ tid v t0, Obs.handed tid v t0 ∈ s.hist → t0 + I ≤ s.clock) :
    Inv I (debDeliver (n + 2) s) := by
  rw [debDeliver_eq]
  cases hr : s.running
  · simp only [Bool.false_eq_true, if_false]
    refine ⟨B.congr rfl rfl rfl (by simp [hr]) rfl, ?_, ?_⟩
    · intro dl h; simp at h
    · intro _; left; rfl
  · simp only [if_true]
    refine ⟨⟨B.int, ?_, ?_, ?_, ?_, ?_⟩, ?_, ?_⟩
    · simp [handedVals_snoc, batchVals_snoc, B.ord]
    · intro tid t hm
      simp at hm
      have := B.stopRun tid t hm
      simp [hr] at this
    · apply NAS_snoc_nostop
      intro tid t hm
      have := B.stopRun tid t hm
      simp [hr] at this
    · intro tid v t0 hm
      simp at hm
      exact B.clk tid v t0 hm
    · exact SIL_snoc_batch B.sil (hc hr)
    · intro dl h; simp at h
    · intro h; simp at h

theorem inv_afterFirst {I : Nat} {s : State} (n : Nat) (B : Base I s) :
    Inv I (debAfterFirst (n + 3) s) := by
  unfold debAfterFirst
  split
  · rename_i h
    simp at h
    refine ⟨B.congr rfl rfl rfl rfl rfl, ?_, ?_⟩
    · intro dl hd _ tid v t0 hm
      simp at hd
      have := B.clk tid v t0 hm
      have := B.int
      simp at hm
      omega
    · intro hr; simp [h.2] at hr
  · rename_i h
    apply inv_deliver n B
    intro hr tid v t0 hm
    simp [hr] at h
    have := B.clk tid v t0 hm
    have := B.int
    omega

theorem inv_loop {I : Nat} {s : State} (n : Nat) (B : Base I s) :
    Inv I (debLoop (n + 4) s) := by
  unfold debLoop
  split
  · rename_i h
    simp at h
    refine ⟨B.congr rfl rfl rfl rfl rfl, ?_, ?_⟩
    · intro dl hd; simp at hd
    · intro hr; simp [h.2] at hr
  · exact inv_afterFirst n B

theorem inv_debStep {I : Nat} {s s' : State} (H : Inv I s) (h : debStep s = some s') : Inv I s' := by
  unfold debStep at h
  split at h
  · cases h
  rename_i hen
  simp at hen
  split at h
  · cases h
    refine ⟨H.base.congr rfl rfl rfl rfl rfl, ?_, ?_⟩
    · intro dl hd; simp at hd
    · intro _; right; simp [debEnabled]
  · cases h
    exact inv_loop 4 H.base
  · cases h
    exact inv_afterFirst 5 (H.base.congr rfl rfl rfl rfl rfl)
  · rename_i dl hdeb
    split at h
    · rename_i hn
      dsimp only at h
      split at h
      · rename_i hr
        cases h
        refine ⟨H.base.congr rfl rfl rfl rfl rfl, ?_, ?_⟩
        · intro dl' hd _ tid v t0 hm
          simp at hd hm
          have := H.base.clk tid v t0 hm
          have := H.base.int
          omega
        · intro hr'; simp at hr hr'; simp [hr] at hr'
      · rename_i hr
        cases h
        apply inv_deliver 6
        · exact H.base.congr rfl rfl rfl rfl rfl
        · intro hr'; exact absurd hr' hr
    · rename_i hn
      cases h
      apply inv_deliver 6 H.base
      intro _ tid v t0 hm
      simp at hn
      have := H.wm dl hdeb hn tid v t0 hm
      simp [debEnabled, hdeb, hn] at hen
      omega
  · cases h

/-! ### clients -/

theorem inv_arrive {I : Nat} {s : State} (i : Nat) (t : Thread) (H : Inv I s) : Inv I (arrive s i t) := by
  unfold arrive
  split <;> exact H.congr rfl rfl rfl rfl rfl rfl rfl

theorem notify_running (s : State) : s.notify.running = s.running := by
  unfold State.notify; split <;> rfl

theorem notify_clock (s : State) : s.notify.clock = s.clock := by
  unfold State.notify; split <;> rfl

theorem inv_notify {I : Nat} {s : State} (B : Base I s) : Inv I s.notify := by
  unfold State.notify
  split
  · rename_i hd
    refine ⟨B.congr rfl rfl rfl rfl rfl, ?_, ?_⟩
    · intro dl h; simp [hd] at h
    · intro _; right; simp [debEnabled, hd]
  · rename_i dl hd
    refine ⟨B.congr rfl rfl rfl rfl rfl, ?_, ?_⟩
    · intro dl' _ h; simp at h
    · intro _; right; simp [debEnabled, hd]
  · rename_i h1 h2
    refine ⟨B, ?_, ?_⟩
    · intro dl hd; exact absurd hd (h2 dl)
    · intro _
      cases hd : s.deb <;> simp_all [debEnabled]

theorem inv_log {I : Nat} {s : State} {o : Obs} (H : Inv I s) (h1 : ∀ vs t, o ≠ Obs.batch vs t)
    (h2 : ∀ tid v t, o ≠ Obs.handed tid v t) (h3 : ∀ tid t, o = Obs.stopped tid t → s.running = false) :
    Inv I (s.log o) := by
  unfold State.log
  refine ⟨⟨H.base.int, ?_, ?_, ?_, ?_, ?_⟩, ?_, ?_⟩
  · cases o <;> simp_all [handedVals_snoc, batchVals_snoc, H.base.ord]
  · intro tid t hm
    simp at hm
    rcases hm with hm | hm
    · exact H.base.stopRun tid t hm
    · exact h3 tid t hm.symm
  · exact NAS_snoc_nonbatch H.base.nas h1
  · intro tid v t0 hm
    simp at hm
    rcases hm with hm | hm
    · exact H.base.clk tid v t0 hm
    · exact absurd hm.symm (h2 tid v t0)
  · exact SIL_snoc_nonbatch H.base.sil h1
  · intro dl hd hn tid v t0 hm
    simp at hm hd hn
    rcases hm with hm | hm
    · exact H.wm dl hd hn tid v t0 hm
    · exact absurd hm.symm (h2 tid v t0)
  · exact H.ex

theorem inv_clientStep {I : Nat} {s s' : State} {i : Nat} (H : Inv I s) (h : clientStep s i = some s') :
    Inv I s' := by
  unfold clientStep at h
  split at h
  · cases h
  split at h
  · cases h
  rename_i t _
  split at h
  · cases h; exact inv_arrive i t H
  · rename_i v _
    cases h
    apply inv_arrive
    simp only [State.log]
    apply inv_notify
    refine ⟨H.base.int, ?_, ?_, ?_, ?_, ?_⟩
    · simp [handedVals_snoc, batchVals_snoc, H.base.ord]
    · intro tid t hm
      simp at hm
      exact H.base.stopRun tid t hm
    · exact NAS_snoc_nonbatch H.base.nas (by intro vs t; simp)
    · intro tid v' t0 hm
      simp at hm
      rcases hm with hm | ⟨_, _, rfl⟩
      · exact H.base.clk tid v' t0 hm
      · exact Nat.le_refl _
    · exact SIL_snoc_nonbatch H.base.sil (by intro vs t; simp)
  · cases h
    apply inv_arrive
    apply inv_log
    · apply inv_notify
      refine ⟨H.base.int, H.base.ord, ?_, H.base.nas, H.base.clk, H.base.sil⟩
      intro _ _ _; rfl
    · intro vs t; simp
    · intro tid v t; simp
    · intro _ _ _; rw [notify_running]
  · cases h
    apply inv_arrive
    apply inv_log H
    · intro vs t; simp
    · intro tid v t; simp
    · intro tid t h; simp at h
  · cases h; exact inv_arrive i t H
  · cases h

theorem inv_tick {I : Nat} {s : State} (d : Nat) (H : Inv I s) :
    Inv I { s with clock := s.clock + d } := by
  refine ⟨⟨H.base.int, H.base.ord, H.base.stopRun, H.base.nas, ?_, H.base.sil⟩, H.wm, ?_⟩
  · intro tid v t0 hm
    have := H.base.clk tid v t0 hm
    simp; omega
  · intro hr
    rcases H.ex hr with h | h
    · exact Or.inl h
    · right
      revert h
      simp only [debEnabled]
      split <;> simp
      intro h; rcases h with h | h
      · exact Or.inl h
      · right; omega

theorem inv_init (I : Nat) (scripts : List (List Op)) : Inv I (init I scripts) := by
  refine ⟨⟨rfl, ?_, ?_, NAS_nil, ?_, SIL_nil I⟩, ?_, ?_⟩
  · simp [init, handedVals, batchVals]
  · intro tid t hm; simp [init] at hm
  · intro tid v t0 hm; simp [init] at hm
  · intro dl hd; simp [init] at hd
  · intro hr; simp [init] at hr

theorem inv_act {I : Nat} {s : State} (a : Action) (H : Inv I s) : Inv I (act s a) := by
  cases a with
  | tick d => exact inv_tick d H
  | step tid =>
    simp only [act]
    cases tid with
    | zero =>
      simp only [step]
      cases h : debStep s with
      | none => exact H
      | some s' => exact inv_debStep H h
    | succ k =>
      simp only [step]
      cases h : clientStep s k with
      | none => exact H
      | some s' => exact inv_clientStep H h

theorem inv_run {I : Nat} (as : List Action) : ∀ {s : State}, Inv I s → Inv I (run s as) := by
  induction as with
  | nil => intro s H; exact H
  | cons a as ih => intro s H; exact ih (inv_act a H)

/-! ### the theorems -/

theorem batches_in_order (interval : Nat) (scripts : List (List Op)) (as : List Action) :
    handedVals (run (init interval scripts) as).hist =
      batchVals (run (init interval scripts) as).hist ++ (run (init interval scripts) as).events :=
  (inv_run as (inv_init interval scripts)).base.ord

theorem nothing_after_stop (interval : Nat) (scripts : List (List Op)) (as : List Action)
    (p q : List Obs) (tid t : Nat) (vs : List Nat) (t' : Nat)
    (h : (run (init interval scripts) as).hist = p ++ .stopped tid t :: q) : Obs.batch vs t' ∉ q :=
  (inv_run as (inv_init interval scripts)).base.nas p q tid t h vs t'

theorem batch_after_silence (interval : Nat) (scripts : List (List Op)) (as : List Action)
    (p q : List Obs) (vs : List Nat) (t : Nat) (tid v t0 : Nat)
    (h : (run (init interval scripts) as).hist = p ++ .batch vs t :: q)
    (hv : Obs.handed tid v t0 ∈ p) (hin : v ∈ vs) (hd : ((handedVals p).filter (· == v)).length = 1) :
    t0 + interval ≤ t := by
  -- `hin`, `hd` are not needed: the bound holds for everything handed in before the batch
  have _ := hin; have _ := hd
  exact (inv_run as (inv_init interval scripts)).base.sil p q vs t h tid v t0 hv

theorem exits_on_stop (interval : Nat) (scripts : List (List Op)) (as : List Action) (tid t : Nat)
    (h : Obs.stopped tid t ∈ (run (init interval scripts) as).hist) :
    (run (init interval scripts) as).deb = .done ∨ debEnabled (run (init interval scripts) as) = true :=
  let H := inv_run as (inv_init interval scripts)
  H.ex (H.base.stopRun tid t h)

end WD.ProofsDeb
