/- helper lemmas and the proofs behind WD.Props.C18 -/
import WD.Model.Debouncer
namespace WD.ProofsDeb
open WD.Deb

def handedVals (h : List Obs) : List Nat := h.filterMap (fun o => match o with | .handed _ v _ => some v | _ => none)
def batchVals (h : List Obs) : List Nat := h.flatMap (fun o => match o with | .batch vs _ => vs | _ => [])

theorem batches_in_order (interval : Nat) (scripts : List (List Op)) (as : List Action) :
    handedVals (run (init interval scripts) as).hist =
      batchVals (run (init interval scripts) as).hist ++ (run (init interval scripts) as).events := by
  sorry

theorem nothing_after_stop (interval : Nat) (scripts : List (List Op)) (as : List Action)
    (p q : List Obs) (tid t : Nat) (vs : List Nat) (t' : Nat)
    (h : (run (init interval scripts) as).hist = p ++ .stopped tid t :: q) : Obs.batch vs t' ∉ q := by
  sorry

theorem batch_after_silence (interval : Nat) (scripts : List (List Op)) (as : List Action)
    (p q : List Obs) (vs : List Nat) (t : Nat) (tid v t0 : Nat)
    (h : (run (init interval scripts) as).hist = p ++ .batch vs t :: q)
    (hv : Obs.handed tid v t0 ∈ p) (hin : v ∈ vs) (hd : ((handedVals p).filter (· == v)).length = 1) :
    t0 + interval ≤ t := by
  sorry

theorem exits_on_stop (interval : Nat) (scripts : List (List Op)) (as : List Action) (tid t : Nat)
    (h : Obs.stopped tid t ∈ (run (init interval scripts) as).hist) :
    (run (init interval scripts) as).deb = .done ∨ debEnabled (run (init interval scripts) as) = true := by
  sorry

end WD.ProofsDeb
