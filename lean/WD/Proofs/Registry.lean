/- helper lemmas and the proofs behind WD.Props.C13 -/
import WD.Model.Registry
namespace WD.ProofsReg
open WD WD.Reg

theorem refines_map (calls : List Call) :
    (run init calls).2 = (specRun Spec.init calls).2 ∧
    ((∀ w, (run init calls).1.handlersOf w = (specRun Spec.init calls).1.handlers w) ∧
     (run init calls).1.emitters.map Emitter.watch = (specRun Spec.init calls).1.scheduled ∧
     (run init calls).1.alive = (specRun Spec.init calls).1.alive ∧
     (run init calls).1.everStarted = (specRun Spec.init calls).1.everStarted) := by
  sorry

theorem one_emitter_per_watch (calls : List Call) :
    ((run init calls).1.emitters.map Emitter.watch).Nodup := by
  sorry

theorem emitters_are_scheduled (calls : List Call) (w : Watch) :
    (∃ e ∈ (run init calls).1.emitters, e.watch = w) ↔ w ∈ (specRun Spec.init calls).1.scheduled := by
  sorry

theorem failed_schedule_no_effect (calls : List Call) (h : Handler) (w : Watch) (f : Fault) (k : String)
    (hr : (call (run init calls).1 (.schedule h w f)).2 = .raised k) :
    let s := (run init calls).1
    let s' := (call s (.schedule h w f)).1
    s'.handlers = s.handlers ∧ s'.emitters = s.emitters ∧ s'.watches = s.watches ∧ s'.alive = s.alive := by
  sorry

theorem unschedule_independent (s : State) (w w' : Watch) (hne : w' ≠ w) :
    (call s (.unschedule w)).1.handlersOf w' = s.handlersOf w' ∧
    (call s (.unschedule w)).1.emitterOf w' = s.emitterOf w' := by
  sorry

end WD.ProofsReg
