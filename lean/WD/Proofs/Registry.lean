/- helper lemmas and the proofs behind WD.Props.C13 -/
import WD.Model.Registry
namespace WD.ProofsReg
open WD WD.Reg

/-! ### basic facts on `emitterOf` / `handlersOf` -/

theorem emitterOf_some {s : State} {w : Watch} {e : Emitter} (h : s.emitterOf w = some e) :
    e.watch = w ∧ e ∈ s.emitters := by
  unfold State.emitterOf at h
  have h1 := List.find?_some h
  have h2 := List.mem_of_find?_eq_some h
  simp at h1
  exact ⟨h1, h2⟩

theorem emitterOf_none_iff {s : State} {w : Watch} :
    s.emitterOf w = none ↔ w ∉ s.emitters.map Emitter.watch := by
  unfold State.emitterOf
  simp

theorem emitterOf_isSome_iff {s : State} {w : Watch} :
    (s.emitterOf w).isSome ↔ w ∈ s.emitters.map Emitter.watch := by
  cases h : s.emitterOf w with
  | none => simpa using emitterOf_none_iff.mp h
  | some e =>
    have := emitterOf_some h
    simp only [Option.isSome_some, List.mem_map, true_iff]
    exact ⟨e, this.2, this.1⟩

theorem handlersOf_ainsert (s : State) (w x : Watch) (v : List Handler) :
    (alookup x (ainsert w v s.handlers)).getD [] = if x = w then v else s.handlersOf x := by
  by_cases hx : x = w
  · subst hx; simp [alookup_ainsert_self]
  · have : w ≠ x := fun h => hx h.symm
    simp [hx, alookup_ainsert_ne _ _ this, State.handlersOf]

theorem handlersOf_aerase (s : State) (w x : Watch) :
    (alookup x (aerase w s.handlers)).getD [] = if x = w then [] else s.handlersOf x := by
  by_cases hx : x = w
  · subst hx; simp [alookup_aerase_self]
  · have : w ≠ x := fun h => hx h.symm
    simp [hx, alookup_aerase_ne _ this, State.handlersOf]

theorem getD_ainsert (l : List (Watch × List Handler)) (w x : Watch) (v : List Handler) :
    (alookup x (ainsert w v l)).getD [] = if x = w then v else (alookup x l).getD [] := by
  by_cases hx : x = w
  · subst hx; simp [alookup_ainsert_self]
  · have : w ≠ x := fun h => hx h.symm
    simp [hx, alookup_ainsert_ne _ _ this]

theorem getD_aerase (l : List (Watch × List Handler)) (w x : Watch) :
    (alookup x (aerase w l)).getD [] = if x = w then [] else (alookup x l).getD [] := by
  by_cases hx : x = w
  · subst hx; simp [alookup_aerase_self]
  · have : w ≠ x := fun h => hx h.symm
    simp [hx, alookup_aerase_ne _ this]

theorem mem_addW (l : List Watch) (w x : Watch) (h : x ∈ l) :
    x ∈ (if l.contains w = true then l else l ++ [w]) := by
  split <;> simp [h]

theorem self_mem_addW (l : List Watch) (w : Watch) :
    w ∈ (if l.contains w = true then l else l ++ [w]) := by
  split
  · rename_i h; simpa using h
  · simp

theorem isSome_alookup_ainsert (w x : Watch) (v : List Handler) (l : List (Watch × List Handler))
    (h : (alookup x l).isSome) : (alookup x (ainsert w v l)).isSome := by
  by_cases hx : w = x
  · subst hx; simp [alookup_ainsert_self]
  · rw [alookup_ainsert_ne _ _ hx]; exact h

theorem map_watch_filter (l : List Emitter) (w : Watch) :
    (l.filter (fun e => e.watch != w)).map Emitter.watch = (l.map Emitter.watch).filter (· != w) := by
  induction l with
  | nil => rfl
  | cons a t ih =>
    by_cases h : a.watch = w <;> simp [h, ih]

/-! ### the simulation relation and the invariant -/

def R (s : State) (m : Spec) : Prop :=
  (∀ w, s.handlersOf w = m.handlers w) ∧ s.emitters.map Emitter.watch = m.scheduled ∧
  s.alive = m.alive ∧ s.everStarted = m.everStarted

structure Inv (s : State) : Prop where
  nodup : (s.emitters.map Emitter.watch).Nodup
  hkey : ∀ e ∈ s.emitters, (alookup e.watch s.handlers).isSome
  wmem : ∀ e ∈ s.emitters, e.watch ∈ s.watches

theorem contains_iff {s : State} {m : Spec} (hR : R s m) (w : Watch) :
    m.scheduled.contains w = (s.emitterOf w).isSome := by
  rw [Bool.eq_iff_iff, emitterOf_isSome_iff, hR.2.1]; simp

theorem step (s : State) (m : Spec) (c : Call) (hR : R s m) (hI : Inv s) :
    (call s c).2 = (specCall m c).2 ∧ R (call s c).1 (specCall m c).1 ∧ Inv (call s c).1 := by
  obtain ⟨hH, hS, hA, hE⟩ := hR
  have hR : R s m := ⟨hH, hS, hA, hE⟩
  have hH' : ∀ w, (alookup w s.handlers).getD [] = m.handlers w := hH
  cases c with
  | schedule h w f =>
    have hc := contains_iff hR w
    simp only [call, specCall]
    cases he : s.emitterOf w with
    | some e =>
      simp only [he, Option.isSome_some] at hc
      simp only [hc, if_true]
      refine ⟨by first | trivial | rfl, ⟨?_, hS, hA, hE⟩, ?_, ?_, ?_⟩
      · intro x
        simp only [State.handlersOf, State.addHandler, getD_ainsert, hH']
      · exact hI.nodup
      · intro e' he'
        exact isSome_alookup_ainsert _ _ _ _ (hI.hkey e' he')
      · intro e' he'
        exact mem_addW _ _ _ (hI.wmem e' he')
    | none =>
      simp only [he, Option.isSome_none] at hc
      simp only [hc, Bool.false_eq_true, if_false]
      by_cases hf : f = .ctor
      · simp only [hf, if_true]
        exact ⟨by first | trivial | rfl, hR, hI⟩
      · simp only [hf, if_false]
        by_cases hf2 : s.alive = true ∧ f = .start
        · have hf2m : m.alive = true ∧ f = .start := by rw [← hA]; exact hf2
          rw [if_pos hf2, if_pos hf2m]
          exact ⟨rfl, ⟨hH, hS, hA, hE⟩, ⟨hI.nodup, hI.hkey, hI.wmem⟩⟩
        · have hf2m : ¬ (m.alive = true ∧ f = .start) := by rw [← hA]; exact hf2
          rw [if_neg hf2, if_neg hf2m]
          have hnot := emitterOf_none_iff.mp he
          refine ⟨rfl, ⟨?_, ?_, hA, hE⟩, ?_, ?_, ?_⟩
          · intro x
            simp only [State.handlersOf, State.addHandler, getD_ainsert, hH']
          · simp [State.addHandler, hS]
          · simp only [State.addHandler, List.map_append, List.map_cons, List.map_nil]
            rw [List.nodup_append]
            refine ⟨hI.nodup, by simp, ?_⟩
            intro a ha b hb
            simp at hb; subst hb
            intro hab; subst hab; exact hnot ha
          · intro e' he'
            simp only [State.addHandler, List.mem_append, List.mem_singleton] at he' ⊢
            rcases he' with he' | he'
            · exact isSome_alookup_ainsert _ _ _ _ (hI.hkey e' he')
            · subst he'; simp [alookup_ainsert_self]
          · intro e' he'
            simp only [State.addHandler, List.mem_append, List.mem_singleton] at he'
            rcases he' with he' | he'
            · exact mem_addW _ _ _ (hI.wmem e' he')
            · subst he'
              exact self_mem_addW _ _
  | unschedule w =>
    have hc := contains_iff hR w
    simp only [call, specCall]
    cases he : s.emitterOf w with
    | none =>
      simp only [he, Option.isSome_none] at hc
      simp only [hc, Bool.false_eq_true, if_false]
      exact ⟨by first | trivial | rfl, hR, hI⟩
    | some e =>
      simp only [he, Option.isSome_some] at hc
      obtain ⟨hew, hem⟩ := emitterOf_some he
      have hk := hI.hkey e hem
      have hw := hI.wmem e hem
      rw [hew] at hk hw
      have hk' : (alookup w s.handlers).isNone = false := by
        cases hq : alookup w s.handlers <;> simp [hq] at hk ⊢
      have hw' : s.watches.contains w = true := by simpa using hw
      simp only [hc, if_true, hk', Bool.false_eq_true, if_false, hw']
      refine ⟨by first | trivial | rfl, ⟨?_, ?_, hA, hE⟩, ?_, ?_, ?_⟩
      · intro x
        simp only [State.handlersOf]
        rw [handlersOf_aerase, hH]
      · simp only []
        rw [map_watch_filter, hS]
      · simp only []
        rw [map_watch_filter]
        exact hI.nodup.filter _
      · intro e' he'
        simp only [List.mem_filter, bne_iff_ne, ne_eq] at he'
        rw [alookup_aerase_ne _ (fun h => he'.2 h.symm)]
        exact hI.hkey e' he'.1
      · intro e' he'
        simp only [List.mem_filter, bne_iff_ne, ne_eq] at he' ⊢
        exact ⟨hI.wmem e' he'.1, he'.2⟩
  | addHandler h w =>
    simp only [call, specCall]
    refine ⟨by first | trivial | rfl, ⟨?_, hS, hA, hE⟩, hI.nodup, ?_, hI.wmem⟩
    · intro x
      simp only [State.handlersOf, State.addHandler, getD_ainsert, hH']
    · intro e' he'
      exact isSome_alookup_ainsert _ _ _ _ (hI.hkey e' he')
  | removeHandler h w =>
    simp only [call, specCall]
    rw [← hH w]
    by_cases hc : (s.handlersOf w).contains h = true
    · rw [if_pos hc, if_pos hc]
      refine ⟨rfl, ⟨?_, hS, hA, hE⟩, hI.nodup, ?_, hI.wmem⟩
      · intro x
        simp only [State.handlersOf, getD_ainsert, hH']
      · intro e' he'
        exact isSome_alookup_ainsert _ _ _ _ (hI.hkey e' he')
    · rw [if_neg hc, if_neg hc]
      refine ⟨rfl, ⟨?_, hS, hA, hE⟩, hI.nodup, ?_, hI.wmem⟩
      · intro x
        simp only [State.handlersOf, getD_ainsert, hH']
        split
        · rename_i hx; rw [hx]
        · rfl
      · intro e' he'
        exact isSome_alookup_ainsert _ _ _ _ (hI.hkey e' he')
  | unscheduleAll =>
    simp only [call, specCall]
    refine ⟨by first | trivial | rfl, ⟨?_, rfl, hA, hE⟩, ?_, ?_, ?_⟩
    · intro x; rfl
    · simp
    · intro e he; simp at he
    · intro e he; simp at he
  | start failAt =>
    simp only [call, specCall]
    rw [← hE]
    by_cases hes : s.everStarted = true
    · simp only [hes, if_true]
      exact ⟨by first | trivial | rfl, hR, hI⟩
    · simp only [hes, Bool.false_eq_true, if_false]
      cases failAt with
      | none =>
        simp only [Option.bind_none]
        refine ⟨by first | trivial | rfl, ⟨hH, ?_, rfl, rfl⟩, ?_, ?_, ?_⟩
        · simp only [List.map_map]
          rw [← hS]; rfl
        · simp only [List.map_map]
          exact hI.nodup
        · intro e' he'
          simp only [List.mem_map] at he'
          obtain ⟨e0, he0, rfl⟩ := he'
          exact hI.hkey e0 he0
        · intro e' he'
          simp only [List.mem_map] at he'
          obtain ⟨e0, he0, rfl⟩ := he'
          exact hI.wmem e0 he0
      | some w =>
        have hc := contains_iff hR w
        simp only [Option.bind_some]
        cases he : s.emitterOf w with
        | some bad =>
          simp only [he, Option.isSome_some] at hc
          obtain ⟨hew, hem⟩ := emitterOf_some he
          simp only [hc, if_true, hew]
          refine ⟨by first | trivial | rfl, ⟨?_, ?_, hA, rfl⟩, ?_, ?_, ?_⟩
          · intro x
            simp only [State.handlersOf]
            rw [handlersOf_aerase, hH]
          · simp only []
            rw [map_watch_filter, hS]
          · simp only []
            rw [map_watch_filter]
            exact hI.nodup.filter _
          · intro e' he'
            simp only [List.mem_filter, bne_iff_ne, ne_eq] at he'
            rw [alookup_aerase_ne _ (fun h => he'.2 h.symm)]
            exact hI.hkey e' he'.1
          · intro e' he'
            simp only [List.mem_filter, bne_iff_ne, ne_eq] at he' ⊢
            exact ⟨hI.wmem e' he'.1, he'.2⟩
        | none =>
          simp only [he, Option.isSome_none] at hc
          simp only [hc, Bool.false_eq_true, if_false]
          refine ⟨by first | trivial | rfl, ⟨hH, ?_, rfl, rfl⟩, ?_, ?_, ?_⟩
          · simp only [List.map_map]
            rw [← hS]; rfl
          · simp only [List.map_map]
            exact hI.nodup
          · intro e' he'
            simp only [List.mem_map] at he'
            obtain ⟨e0, he0, rfl⟩ := he'
            exact hI.hkey e0 he0
          · intro e' he'
            simp only [List.mem_map] at he'
            obtain ⟨e0, he0, rfl⟩ := he'
            exact hI.wmem e0 he0
  | stop =>
    simp only [call, specCall]
    refine ⟨by first | trivial | rfl, ⟨?_, rfl, rfl, hE⟩, ?_, ?_, ?_⟩
    · intro x; rfl
    · simp
    · intro e he; simp at he
    · intro e he; simp at he

theorem run_sim (calls : List Call) : ∀ (s : State) (m : Spec), R s m → Inv s →
    (run s calls).2 = (specRun m calls).2 ∧ R (run s calls).1 (specRun m calls).1 ∧
    Inv (run s calls).1 := by
  induction calls with
  | nil => intro s m hR hI; exact ⟨by first | trivial | rfl, hR, hI⟩
  | cons c cs ih =>
    intro s m hR hI
    obtain ⟨h1, h2, h3⟩ := step s m c hR hI
    obtain ⟨g1, g2, g3⟩ := ih _ _ h2 h3
    simp only [run, specRun]
    exact ⟨by rw [h1, g1], g2, g3⟩

theorem R_init : R init Spec.init := ⟨fun _ => rfl, rfl, rfl, rfl⟩

theorem Inv_init : Inv init :=
  ⟨by simp [init], by intro e he; simp [init] at he, by intro e he; simp [init] at he⟩

theorem refines_map (calls : List Call) :
    (run init calls).2 = (specRun Spec.init calls).2 ∧
    ((∀ w, (run init calls).1.handlersOf w = (specRun Spec.init calls).1.handlers w) ∧
     (run init calls).1.emitters.map Emitter.watch = (specRun Spec.init calls).1.scheduled ∧
     (run init calls).1.alive = (specRun Spec.init calls).1.alive ∧
     (run init calls).1.everStarted = (specRun Spec.init calls).1.everStarted) := by
  obtain ⟨h1, h2, _⟩ := run_sim calls init Spec.init R_init Inv_init
  exact ⟨h1, h2⟩

theorem one_emitter_per_watch (calls : List Call) :
    ((run init calls).1.emitters.map Emitter.watch).Nodup :=
  (run_sim calls init Spec.init R_init Inv_init).2.2.nodup

theorem emitters_are_scheduled (calls : List Call) (w : Watch) :
    (∃ e ∈ (run init calls).1.emitters, e.watch = w) ↔ w ∈ (specRun Spec.init calls).1.scheduled := by
  rw [← (refines_map calls).2.2.1]
  simp [List.mem_map]

theorem failed_schedule_aux (t : State) (h : Handler) (w : Watch) (f : Fault) (k : String)
    (hr : (call t (.schedule h w f)).2 = .raised k) :
    (call t (.schedule h w f)).1.handlers = t.handlers ∧
    (call t (.schedule h w f)).1.emitters = t.emitters ∧
    (call t (.schedule h w f)).1.watches = t.watches ∧
    (call t (.schedule h w f)).1.alive = t.alive := by
  simp only [call] at hr ⊢
  cases he : t.emitterOf w with
  | some e => simp [he] at hr
  | none =>
    simp only [he] at hr ⊢
    by_cases hf : f = .ctor
    · rw [if_pos hf]; exact ⟨rfl, rfl, rfl, rfl⟩
    · rw [if_neg hf] at hr ⊢
      by_cases hf2 : t.alive = true ∧ f = .start
      · rw [if_pos hf2]; exact ⟨rfl, rfl, rfl, rfl⟩
      · rw [if_neg hf2] at hr
        simp at hr

theorem failed_schedule_no_effect (calls : List Call) (h : Handler) (w : Watch) (f : Fault) (k : String)
    (hr : (call (run init calls).1 (.schedule h w f)).2 = .raised k) :
    let s := (run init calls).1
    let s' := (call s (.schedule h w f)).1
    s'.handlers = s.handlers ∧ s'.emitters = s.emitters ∧ s'.watches = s.watches ∧ s'.alive = s.alive := by
  intro s s'
  exact failed_schedule_aux _ h w f k hr

theorem unschedule_independent (s : State) (w w' : Watch) (hne : w' ≠ w) :
    (call s (.unschedule w)).1.handlersOf w' = s.handlersOf w' ∧
    (call s (.unschedule w)).1.emitterOf w' = s.emitterOf w' := by
  simp only [call]
  cases he : s.emitterOf w with
  | none => exact ⟨rfl, rfl⟩
  | some e =>
    simp only []
    by_cases hk : (alookup w s.handlers).isNone = true
    · rw [if_pos hk]; exact ⟨rfl, rfl⟩
    · rw [if_neg hk]
      constructor
      · simp only [State.handlersOf]
        rw [alookup_aerase_ne _ (fun h => hne h.symm)]
      · simp only [State.emitterOf]
        rw [List.find?_filter]
        congr 1
        funext a
        by_cases ha : a.watch = w'
        · simp [ha, hne]
        · simp [ha]

end WD.ProofsReg
