/- helper lemmas and the proofs behind WD.Props.C12 -/
import WD.Model.FdProto
namespace WD.ProofsFd
open WD.Fd

/-- log entries the fake kernel accepts -/
def good : Ev → Bool
  | .use _ _ => true
  | .close _ => true
  | _ => false

def goodL (l : List Ev) : Bool := l.all good

/-- number of `close fd` entries -/
def cnt (l : List Ev) (fd : Fd) : Nat := (l.filter (· == .close fd)).length

theorem goodL_append (l l' : List Ev) : goodL (l ++ l') = (goodL l && goodL l') := by
  simp [goodL]

theorem goodL_nil : goodL [] = true := rfl

theorem goodL_cons_use (f : Fd) (w : String) (l : List Ev) : goodL (.use f w :: l) = goodL l := by
  simp [goodL, good]

theorem goodL_cons_close (f : Fd) (l : List Ev) : goodL (.close f :: l) = goodL l := by
  simp [goodL, good]

theorem cnt_append (l l' : List Ev) (fd : Fd) : cnt (l ++ l') fd = cnt l fd + cnt l' fd := by
  simp [cnt, List.filter_append]

theorem cnt_nil (fd : Fd) : cnt [] fd = 0 := rfl

theorem cnt_cons_use (f : Fd) (w : String) (l : List Ev) (fd : Fd) : cnt (.use f w :: l) fd = cnt l fd := by
  simp [cnt]

theorem cnt_cons_close (f : Fd) (l : List Ev) (fd : Fd) :
    cnt (.close f :: l) fd = (if f = fd then 1 else 0) + cnt l fd := by
  by_cases h : f = fd <;> simp [cnt, h] <;> omega

theorem cnt_uses (L : List Ev) (hL : ∀ e ∈ L, ∃ w, e = Ev.use .ino w) (fd : Fd) : cnt L fd = 0 := by
  simp only [cnt, List.length_eq_zero_iff, List.filter_eq_nil_iff]
  intro e he
  obtain ⟨w, rfl⟩ := hL e he
  simp

theorem good_uses (L : List Ev) (hL : ∀ e ∈ L, ∃ w, e = Ev.use .ino w) : goodL L = true := by
  simp only [goodL, List.all_eq_true]
  intro e he
  obtain ⟨w, rfl⟩ := hL e he
  rfl

structure Inv (s : State) : Prop where
  same1 : s.killROpen = s.inoOpen
  same2 : s.killWOpen = s.inoOpen
  clos : s.inoOpen = false → s.closed = true
  rd : s.isReading = true ↔ (s.reader = .rPoll ∨ ∃ buf, s.reader = .rAcq2 buf)
  hand : s.closed = true → s.inoOpen = true → s.isReading = true
  inside : s.isReading = true → s.inoOpen = true
  wake : s.closed = true → s.reader = .rPoll → s.killData = true
  lgood : goodL s.log = true
  lcnt : ∀ fd, cnt s.log fd = if s.inoOpen then 0 else 1
  past : s.closer = .cDq ∨ s.closer = .cJoin ∨ s.closer = .done → s.closed = true

theorem inv_init (plan : List (List Rec)) : Inv (init plan) := by
  constructor <;> simp [init, cnt_nil, goodL_nil]

/-- the `inotify_add_watch` loop on an open descriptor only appends `.use` entries -/
theorem fold_use (buf : List Rec) (s : State) (ho : s.inoOpen = true) :
    ∃ L, (∀ e ∈ L, ∃ w, e = Ev.use .ino w) ∧
      buf.foldl (fun acc r => if r = .dirCreate then acc.useFd .ino "inotify_add_watch" else acc) s
        = { s with log := s.log ++ L } := by
  induction buf generalizing s with
  | nil => exact ⟨[], by simp, by simp⟩
  | cons r rs ih =>
    simp only [List.foldl_cons]
    split
    · obtain ⟨L, hL, e⟩ := ih (s.useFd .ino "inotify_add_watch") (by simp [State.useFd, State.isOpen, ho])
      refine ⟨.use .ino "inotify_add_watch" :: L, ?_, ?_⟩
      · intro e he
        rcases List.mem_cons.1 he with rfl | he
        · exact ⟨_, rfl⟩
        · exact hL e he
      · rw [e]; simp [State.useFd, State.isOpen, ho]
    · exact ih s ho

/-- closes the field obligations of `Inv` on a concrete successor state -/
macro "inv_fin" : tactic =>
  `(tactic| (constructor <;>
      simp_all [cnt_append, cnt_nil, cnt_cons_use, cnt_cons_close, goodL_append, goodL_nil, goodL_cons_use,
        goodL_cons_close] <;>
      (try (intro fd; cases fd <;> simp))))

theorem inv_reader {s s' : State} (h : Inv s) (hs : readerStep s = some s') : Inv s' := by
  obtain ⟨reader, closer, kernel, plan, closed, isReading, stopFlag, rootWatched, inoOpen, killROpen,
    killWOpen, inoData, killData, log, puts⟩ := s
  obtain ⟨h1, h2, h3, h4, h5, h5', h6, h7, h8, h9⟩ := h
  simp only at h1 h2 h3 h4 h5 h5' h6 h7 h8 h9
  subst h1 h2
  cases reader
  case rAcq3 buf =>
    cases closed
    · have ho : killWOpen = true := by cases killWOpen <;> simp_all
      subst ho
      obtain ⟨L, hL, e⟩ := fold_use buf (State.mk (.rAcq3 buf) closer kernel plan false isReading stopFlag
        rootWatched true true true inoData killData log puts) rfl
      have hg := good_uses L hL
      have hc := cnt_uses L hL
      simp only [readerStep, readerEnabled, e] at hs
      generalize batchLeaves buf = bl at hs
      generalize batchPuts buf = bp at hs
      cases bl <;> cases bp <;> cases stopFlag <;> simp [readerLoop] at hs <;> subst hs <;> inv_fin
    · cases stopFlag <;> simp [readerStep, readerEnabled, readerLoop] at hs <;> subst hs <;> inv_fin
  case rPoll =>
    cases inoData <;> cases closed <;> cases killWOpen <;> cases isReading <;>
      simp [readerStep, readerEnabled, State.useFd, State.isOpen] at hs h3 h4 h5 h5' h6 h8 h9 <;>
      (try replace hs := hs.2) <;>
      subst hs <;> inv_fin
  case rPut n leave =>
    rcases n with _ | _ | m <;> cases stopFlag <;> cases leave <;>
      simp [readerStep, readerEnabled, readerLoop] at hs <;> subst hs <;> inv_fin
  all_goals
    cases closed <;> cases killWOpen <;> cases stopFlag <;> cases isReading <;>
      simp [readerStep, readerEnabled, readerLoop, State.useFd, State.isOpen, State.closeResources,
        State.closeFd] at hs h3 h4 h5 h5' h6 h8 h9 <;>
      subst hs <;> inv_fin

theorem inv_closer {s s' : State} (h : Inv s) (hs : closerStep s = some s') : Inv s' := by
  obtain ⟨reader, closer, kernel, plan, closed, isReading, stopFlag, rootWatched, inoOpen, killROpen,
    killWOpen, inoData, killData, log, puts⟩ := s
  obtain ⟨h1, h2, h3, h4, h5, h5', h6, h7, h8, h9⟩ := h
  simp only at h1 h2 h3 h4 h5 h5' h6 h7 h8 h9
  subst h1 h2
  cases closer
  case cAcq =>
    cases closed <;> cases killWOpen <;> cases rootWatched <;> cases isReading <;>
      simp [closerStep, closerEnabled, State.useFd, State.isOpen, State.closeResources,
        State.closeFd] at hs h3 h4 h5 h5' h6 h8 h9 <;>
      subst hs <;> inv_fin
  all_goals
    simp [closerStep, closerEnabled] at hs <;> (try replace hs := hs.2) <;> subst hs <;> inv_fin

theorem inv_kernel {s s' : State} (h : Inv s) (hs : kernelStep s = some s') : Inv s' := by
  obtain ⟨reader, closer, kernel, plan, closed, isReading, stopFlag, rootWatched, inoOpen, killROpen,
    killWOpen, inoData, killData, log, puts⟩ := s
  obtain ⟨h1, h2, h3, h4, h5, h5', h6, h7, h8, h9⟩ := h
  simp only at h1 h2 h3 h4 h5 h5' h6 h7 h8 h9
  subst h1 h2
  cases kernel
  case kInject l =>
    cases l <;> simp [kernelStep] at hs <;> subst hs <;> inv_fin
  all_goals
    simp [kernelStep] at hs <;> subst hs <;> inv_fin

theorem inv_step {s s' : State} {t : Nat} (h : Inv s) (hs : step s t = some s') : Inv s' := by
  match t with
  | 0 => exact inv_reader h hs
  | 1 => exact inv_closer h hs
  | 2 => exact inv_kernel h hs
  | _ + 3 => simp [step] at hs

theorem inv_run (sched : List Nat) {s : State} (h : Inv s) : Inv (run s sched) := by
  induction sched generalizing s with
  | nil => exact h
  | cons t ts ih =>
    simp only [run, List.foldl_cons]
    cases hst : step s t with
    | none => exact ih h
    | some s' => exact ih (inv_step h hst)

theorem inv_reach (plan : List (List Rec)) (sched : List Nat) : Inv (run (init plan) sched) :=
  inv_run sched (inv_init plan)

theorem no_use_after_close (plan : List (List Rec)) (sched : List Nat) (e : Ev)
    (h : e ∈ (run (init plan) sched).log) :
    (∀ fd w, e ≠ .useAfterClose fd w) ∧ (∀ fd, e ≠ .secondClose fd) := by
  have hg := (inv_reach plan sched).lgood
  simp only [goodL, List.all_eq_true] at hg
  have := hg e h
  constructor
  · rintro fd w rfl; simp [good] at this
  · rintro fd rfl; simp [good] at this

theorem closed_at_most_once (plan : List (List Rec)) (sched : List Nat) (fd : Fd) :
    ((run (init plan) sched).log.filter (· == .close fd)).length ≤ 1 := by
  have := (inv_reach plan sched).lcnt fd
  unfold cnt at this
  rw [this]
  split <;> omega

theorem released_when_done (plan : List (List Rec)) (sched : List Nat)
    (h : allDone (run (init plan) sched) = true) :
    (run (init plan) sched).inoOpen = false ∧ (run (init plan) sched).killROpen = false ∧
    (run (init plan) sched).killWOpen = false := by
  have hi := inv_reach plan sched
  generalize run (init plan) sched = s at h hi
  simp only [allDone, Bool.and_eq_true, beq_iff_eq] at h
  obtain ⟨hr, hc⟩ := h
  have hcl := hi.past (Or.inr (Or.inr hc))
  have ho : s.inoOpen = false := by
    cases hio : s.inoOpen with
    | false => rfl
    | true =>
      have := hi.rd.1 (hi.hand hcl hio)
      rw [hr] at this
      simp at this
  exact ⟨ho, hi.same1.trans ho, hi.same2.trans ho⟩

theorem reader_woken (plan : List (List Rec)) (sched : List Nat)
    (hc : (run (init plan) sched).closed = true) (hr : (run (init plan) sched).reader = .rPoll) :
    readerEnabled (run (init plan) sched) = true := by
  have hk := (inv_reach plan sched).wake hc hr
  simp [readerEnabled, hr, hk]

end WD.ProofsFd
