/- helper lemmas and the proofs behind WD.Props.C17 -/
import WD.Model.DelayQueue
import WD.Spec.QueueSpec
namespace WD.ProofsDQ
open WD.DQ

/-! ### projections of the ghost history -/

/-- observations that are neither `put`, `got` nor `removed` -/
def Neutral : Obs → Prop
  | .gotNone _ _ => True
  | .removedNone _ _ => True
  | .closed _ _ => True
  | _ => False

theorem puts_append (h : List Obs) (o : Obs) :
    puts (h ++ [o]) = match o with | .put _ e _ _ => puts h ++ [e] | _ => puts h := by
  cases o <;> simp [puts, List.filterMap_append]

theorem gots_append (h : List Obs) (o : Obs) :
    gots (h ++ [o]) = match o with | .got _ e _ => gots h ++ [e] | _ => gots h := by
  cases o <;> simp [gots, List.filterMap_append]

theorem removeds_append (h : List Obs) (o : Obs) :
    removeds (h ++ [o]) = match o with | .removed _ e _ => removeds h ++ [e] | _ => removeds h := by
  cases o <;> simp [removeds, List.filterMap_append]

theorem mem_puts {h : List Obs} {e : Elem} : e ∈ puts h ↔ ∃ a d t, Obs.put a e d t ∈ h := by
  simp only [puts, List.mem_filterMap]
  constructor
  · rintro ⟨o, ho, heq⟩
    cases o <;> simp at heq
    subst heq; exact ⟨_, _, _, ho⟩
  · rintro ⟨a, d, t, ho⟩
    exact ⟨_, ho, rfl⟩

theorem mem_gots {h : List Obs} {e : Elem} : e ∈ gots h ↔ ∃ a t, Obs.got a e t ∈ h := by
  simp only [gots, List.mem_filterMap]
  constructor
  · rintro ⟨o, ho, heq⟩
    cases o <;> simp at heq
    subst heq; exact ⟨_, _, ho⟩
  · rintro ⟨a, t, ho⟩
    exact ⟨_, ho, rfl⟩

theorem live_sub_puts {h : List Obs} {e : Elem} (he : e ∈ live h) : e ∈ puts h := by
  simp only [live, List.mem_filter] at he
  exact he.1

theorem not_removed_of_live {h : List Obs} {e : Elem} (he : e ∈ live h) : e ∉ removeds h := by
  simp only [live, List.mem_filter] at he
  simpa using he.2

theorem live_append_put (h : List Obs) (a : Nat) (e : Elem) (d : Bool) (t : Nat) (hne : e ∉ removeds h) :
    live (h ++ [Obs.put a e d t]) = live h ++ [e] := by
  simp [live, puts_append, removeds_append, List.filter_append, hne]

theorem live_append_got (h : List Obs) (a : Nat) (e : Elem) (t : Nat) :
    live (h ++ [Obs.got a e t]) = live h := by
  simp [live, puts_append, removeds_append]

theorem live_append_neutral (h : List Obs) (o : Obs) (hn : Neutral o) :
    live (h ++ [o]) = live h := by
  cases o <;> simp [Neutral] at hn <;> simp [live, puts_append, removeds_append]

theorem live_append_removed (h : List Obs) (a : Nat) (e : Elem) (t : Nat) :
    live (h ++ [Obs.removed a e t]) = (live h).filter (fun x => !decide (x = e)) := by
  simp only [live, puts_append, removeds_append, List.filter_filter]
  apply List.filter_congr
  intro x _
  by_cases hx : x = e <;> simp [hx]

theorem filter_ne_of_nodup {α} [DecidableEq α] (A B : List α) (x : α) (hnd : (A ++ x :: B).Nodup) :
    (A ++ x :: B).filter (fun y => !decide (y = x)) = A ++ B := by
  have h1 : x ∉ A := by
    intro hx
    have := (List.nodup_append.1 hnd).2.2 x hx x (by simp)
    exact this rfl
  have h2 : x ∉ B := by
    have := (List.nodup_append.1 hnd).2.1
    exact (List.nodup_cons.1 this).1
  have hA : A.filter (fun y => !decide (y = x)) = A := by
    apply List.filter_eq_self.2
    intro y hy; simp; intro hyx; exact h1 (hyx ▸ hy)
  have hB : B.filter (fun y => !decide (y = x)) = B := by
    apply List.filter_eq_self.2
    intro y hy; simp; intro hyx; exact h2 (hyx ▸ hy)
  simp [List.filter_append, hA, hB]

theorem removeFirst_spec {v : Nat} {q q' : List Entry} {e : Entry} (h : removeFirst v q = some (e, q')) :
    ∃ l1 l2, q = l1 ++ e :: l2 ∧ q' = l1 ++ l2 := by
  induction q generalizing q' with
  | nil => simp [removeFirst] at h
  | cons x rest ih =>
    unfold removeFirst at h
    split at h
    · simp at h
      obtain ⟨rfl, rfl⟩ := h
      exact ⟨[], _, rfl, rfl⟩
    · split at h
      · rename_i y r hr
        simp at h
        obtain ⟨rfl, rfl⟩ := h
        obtain ⟨l1, l2, h1, h2⟩ := ih hr
        exact ⟨x :: l1, l2, by simp [h1], by simp [h2]⟩
      · simp at h

/-! ### invariant on history and queue -/

structure InvH (D : Nat) (h : List Obs) (q : List Entry) : Prop where
  acc : live h = gots h ++ q.map Entry.elem
  putsU : ((puts h).map Elem.uid).Nodup
  remSub : ∀ e ∈ removeds h, e ∈ puts h
  remNodup : (removeds h).Nodup
  qHist : ∀ en ∈ q, ∃ a, Obs.put a en.elem en.delayed en.ins ∈ h
  putUniq : ∀ a e d t a' d' t', Obs.put a e d t ∈ h → Obs.put a' e d' t' ∈ h → d = d' ∧ t = t'
  ne : ∀ a e t a' t0, Obs.got a e t ∈ h → Obs.put a' e true t0 ∈ h → t0 + D ≤ t

theorem InvH.puts_nodup {D h q} (I : InvH D h q) : (puts h).Nodup :=
  List.Pairwise.of_map Elem.uid (fun _ _ h he => h (he ▸ rfl)) I.putsU

theorem InvH.live_nodup {D h q} (I : InvH D h q) : (live h).Nodup :=
  List.Nodup.sublist List.filter_sublist I.puts_nodup

theorem InvH.got_in_puts {D h q} (I : InvH D h q) {e : Elem} (he : e ∈ gots h) : e ∈ puts h := by
  apply live_sub_puts
  rw [I.acc]; simp [he]

theorem InvH.init (D : Nat) : InvH D [] [] := by
  constructor <;> simp [live, puts, gots, removeds]

theorem InvH.neutral {D h q} (I : InvH D h q) (o : Obs) (hn : Neutral o) : InvH D (h ++ [o]) q := by
  have hp : puts (h ++ [o]) = puts h := by cases o <;> simp [Neutral] at hn <;> simp [puts_append]
  have hg : gots (h ++ [o]) = gots h := by cases o <;> simp [Neutral] at hn <;> simp [gots_append]
  have hr : removeds (h ++ [o]) = removeds h := by cases o <;> simp [Neutral] at hn <;> simp [removeds_append]
  have hmp : ∀ a e d t, Obs.put a e d t ∈ h ++ [o] ↔ Obs.put a e d t ∈ h := by
    intro a e d t; cases o <;> simp [Neutral] at hn <;> simp
  have hmg : ∀ a e t, Obs.got a e t ∈ h ++ [o] ↔ Obs.got a e t ∈ h := by
    intro a e t; cases o <;> simp [Neutral] at hn <;> simp
  constructor
  · rw [live_append_neutral _ _ hn, hg]; exact I.acc
  · rw [hp]; exact I.putsU
  · rw [hp, hr]; exact I.remSub
  · rw [hr]; exact I.remNodup
  · intro en hen; obtain ⟨a, ha⟩ := I.qHist en hen; exact ⟨a, (hmp ..).2 ha⟩
  · intro a e d t a' d' t' h1 h2; exact I.putUniq a e d t a' d' t' ((hmp ..).1 h1) ((hmp ..).1 h2)
  · intro a e t a' t0 h1 h2; exact I.ne a e t a' t0 ((hmg ..).1 h1) ((hmp ..).1 h2)

theorem InvH.put {D h q} (I : InvH D h q) (a : Nat) (e : Elem) (d : Bool) (c : Nat)
    (fresh : ∀ e' ∈ puts h, e.uid ≠ e'.uid) :
    InvH D (h ++ [Obs.put a e d c]) (q ++ [⟨e, c, d⟩]) := by
  have hnp : e ∉ puts h := fun he => fresh e he rfl
  have hnr : e ∉ removeds h := fun he => hnp (I.remSub e he)
  have hnpo : ∀ a d t, Obs.put a e d t ∉ h := fun a d t ho => hnp (mem_puts.2 ⟨a, d, t, ho⟩)
  constructor
  · rw [live_append_put _ _ _ _ _ hnr, I.acc]; simp [gots_append]
  · simp only [puts_append, List.map_append, List.map_cons, List.map_nil]
    refine List.nodup_append.2 ⟨I.putsU, by simp, ?_⟩
    intro u hu b hb
    simp at hb; subst hb
    obtain ⟨e', he', rfl⟩ := List.mem_map.1 hu
    exact fun hh => fresh e' he' hh.symm
  · simp only [puts_append, removeds_append]
    intro x hx; exact List.mem_append_left _ (I.remSub x hx)
  · simp only [removeds_append]; exact I.remNodup
  · intro en hen
    rcases List.mem_append.1 hen with hen | hen
    · obtain ⟨a', ha'⟩ := I.qHist en hen; exact ⟨a', List.mem_append_left _ ha'⟩
    · simp at hen; subst hen; exact ⟨a, by simp⟩
  · intro a1 e1 d1 t1 a2 d2 t2 h1 h2
    simp only [List.mem_append, List.mem_singleton] at h1 h2
    rcases h1 with h1 | h1 <;> rcases h2 with h2 | h2
    · exact I.putUniq _ _ _ _ _ _ _ h1 h2
    · injection h2 with _ he _ _; subst he; exact absurd h1 (hnpo _ _ _)
    · injection h1 with _ he _ _; subst he; exact absurd h2 (hnpo _ _ _)
    · injection h1 with _ he hd ht; injection h2 with _ he' hd' ht'
      subst hd ht hd' ht'; exact ⟨rfl, rfl⟩
  · intro a1 e1 t1 a2 t0 h1 h2
    simp only [List.mem_append, List.mem_singleton, reduceCtorEq, or_false] at h1
    simp only [List.mem_append, List.mem_singleton] at h2
    rcases h2 with h2 | h2
    · exact I.ne _ _ _ _ _ h1 h2
    · injection h2 with _ he _ _; subst he
      exact absurd (I.got_in_puts (mem_gots.2 ⟨_, _, h1⟩)) hnp

theorem InvH.got {D h hd rest} (I : InvH D h (hd :: rest)) (a c : Nat)
    (hne : ∀ a' t0, Obs.put a' hd.elem true t0 ∈ h → t0 + D ≤ c) :
    InvH D (h ++ [Obs.got a hd.elem c]) rest := by
  constructor
  · rw [live_append_got, I.acc]; simp [gots_append]
  · simp only [puts_append]; exact I.putsU
  · simp only [puts_append, removeds_append]; exact I.remSub
  · simp only [removeds_append]; exact I.remNodup
  · intro en hen
    obtain ⟨a', ha'⟩ := I.qHist en (List.mem_cons_of_mem _ hen)
    exact ⟨a', List.mem_append_left _ ha'⟩
  · intro a1 e1 d1 t1 a2 d2 t2 h1 h2
    simp only [List.mem_append, List.mem_singleton, reduceCtorEq, or_false] at h1 h2
    exact I.putUniq _ _ _ _ _ _ _ h1 h2
  · intro a1 e1 t1 a2 t0 h1 h2
    simp only [List.mem_append, List.mem_singleton, reduceCtorEq, or_false] at h2
    simp only [List.mem_append, List.mem_singleton] at h1
    rcases h1 with h1 | h1
    · exact I.ne _ _ _ _ _ h1 h2
    · injection h1 with _ he ht; subst he ht
      exact hne _ _ h2

theorem InvH.removed {D h q q' v e} (I : InvH D h q) (a c : Nat) (hrf : removeFirst v q = some (e, q')) :
    InvH D (h ++ [Obs.removed a e.elem c]) q' := by
  obtain ⟨l1, l2, rfl, rfl⟩ := removeFirst_spec hrf
  have hel : e.elem ∈ live h := by rw [I.acc]; simp
  constructor
  · rw [live_append_removed, I.acc]
    have hnd := I.live_nodup
    rw [I.acc] at hnd
    simp only [List.map_append, List.map_cons, ← List.append_assoc] at hnd ⊢
    simpa [gots_append] using filter_ne_of_nodup _ _ _ hnd
  · simp only [puts_append]; exact I.putsU
  · simp only [puts_append, removeds_append]
    intro x hx
    rcases List.mem_append.1 hx with hx | hx
    · exact I.remSub x hx
    · simp at hx; subst hx; exact live_sub_puts hel
  · simp only [removeds_append]
    refine List.nodup_append.2 ⟨I.remNodup, by simp, ?_⟩
    intro x hx b hb
    simp at hb; subst hb
    exact fun hh => not_removed_of_live hel (hh ▸ hx)
  · intro en hen
    have : en ∈ l1 ++ e :: l2 := by
      rcases List.mem_append.1 hen with h1 | h1
      · exact List.mem_append_left _ h1
      · exact List.mem_append_right _ (List.mem_cons_of_mem _ h1)
    obtain ⟨a', ha'⟩ := I.qHist en this
    exact ⟨a', List.mem_append_left _ ha'⟩
  · intro a1 e1 d1 t1 a2 d2 t2 h1 h2
    simp only [List.mem_append, List.mem_singleton, reduceCtorEq, or_false] at h1 h2
    exact I.putUniq _ _ _ _ _ _ _ h1 h2
  · intro a1 e1 t1 a2 t0 h1 h2
    simp only [List.mem_append, List.mem_singleton, reduceCtorEq, or_false] at h1 h2
    exact I.ne _ _ _ _ _ h1 h2

/-! ### normal forms of the state operations -/

def arriveT (c : Nat) (t : Thread) : Thread :=
  match t.script with
  | [] => { t with pc := .done, script := [] }
  | op :: rest =>
    { t with
      pc := (match op with
        | .put e d => Pc.putAcq e d
        | .get => Pc.getAcq
        | .remove v => Pc.remAcq v
        | .close => Pc.closeFlag
        | .sleep d => Pc.sleeping (c + d)),
      script := rest, notified := false }

theorem arrive_eq (s : State) (tid : Nat) (t : Thread) :
    arrive s tid t = s.setThread tid (arriveT s.clock t) := by
  rcases t with ⟨pc, script, n⟩
  cases script <;> rfl

def notifyThreads (ths : List Thread) (ws : List Nat) : List Thread :=
  match ws with
  | [] => ths
  | w :: _ =>
    match ths[w]? with
    | some t => ths.set w { t with notified := true }
    | none => ths

theorem notifyOne_eq (s : State) :
    notifyOne s = { s with threads := notifyThreads s.threads s.waiters, waiters := s.waiters.tail } := by
  cases s with
  | mk dl c q cl ws ths hs =>
  unfold notifyOne notifyThreads State.thread? State.setThread
  cases ws with
  | nil => simp
  | cons w rest =>
    simp only
    cases hw : ths[w]? <;> simp

theorem notifyThreads_get (ths : List Thread) (ws : List Nat) (j : Nat) :
    (notifyThreads ths ws)[j]? =
      (ths[j]?).map (fun t => if ws.head? = some j then { t with notified := true } else t) := by
  unfold notifyThreads
  split
  · simp
  · rename_i w rest
    split
    · rename_i t ht
      rw [List.getElem?_set]
      by_cases hwj : w = j
      · subst hwj
        have hlt : w < ths.length := (List.getElem?_eq_some_iff.1 ht).1
        rw [ht]; simp [hlt]
      · simp [hwj]
    · rename_i ht
      by_cases hwj : w = j
      · subst hwj; simp [ht]
      · simp [hwj]

theorem get_set_cases {α} {l : List α} {i j : Nat} {a b : α} (h : (l.set i a)[j]? = some b) :
    (j = i ∧ b = a) ∨ (j ≠ i ∧ l[j]? = some b) := by
  rw [List.getElem?_set] at h
  split at h
  · rename_i hij
    split at h
    · simp at h; exact Or.inl ⟨hij.symm, h.symm⟩
    · simp at h
  · rename_i hij
    exact Or.inr ⟨fun hh => hij hh.symm, h⟩

theorem notifyThreads_cases {ths : List Thread} {ws : List Nat} {j : Nat} {tj : Thread}
    (h : (notifyThreads ths ws)[j]? = some tj) :
    ∃ t0, ths[j]? = some t0 ∧ tj.pc = t0.pc ∧ tj.script = t0.script ∧
      (tj = t0 ∨ (ws.head? = some j ∧ tj.notified = true)) := by
  rw [notifyThreads_get] at h
  cases h0 : ths[j]? with
  | none => simp [h0] at h
  | some t0 =>
    simp [h0] at h
    refine ⟨t0, rfl, ?_⟩
    split at h
    · subst h; simp_all
    · subst h; simp

/-! ### invariant on threads -/

/-- elements the thread is still going to put -/
def pend (t : Thread) : List Elem :=
  (match t.pc with
    | .putAcq e _ => [e]
    | _ => []) ++ opPuts t.script

theorem pend_congr {t t' : Thread} (h1 : t'.pc = t.pc) (h2 : t'.script = t.script) : pend t' = pend t := by
  simp [pend, h1, h2]

theorem pend_arriveT (c : Nat) (t : Thread) : pend (arriveT c t) = opPuts t.script := by
  rcases t with ⟨pc, script, n⟩
  cases script with
  | nil => simp [arriveT, pend, opPuts]
  | cons op rest => cases op <;> simp [arriveT, pend, opPuts]

theorem opPuts_sub_pend {t : Thread} {e : Elem} (h : e ∈ opPuts t.script) : e ∈ pend t := by
  simp [pend, h]

structure TOk (D c : Nat) (h : List Obs) (t : Thread) : Prop where
  pendU : ((pend t).map Elem.uid).Nodup
  pendPuts : ∀ e ∈ pend t, ∀ e' ∈ puts h, e.uid ≠ e'.uid
  popOk : ∀ hd, t.pc = .getPop hd →
    (∃ a, Obs.put a hd.elem hd.delayed hd.ins ∈ h) ∧ (hd.delayed = true → hd.ins + D ≤ c)
  sleepOk : ∀ hd dl, t.pc = .getSleep hd dl →
    (∃ a, Obs.put a hd.elem hd.delayed hd.ins ∈ h) ∧ hd.ins + D ≤ dl

structure InvT (D c : Nat) (h : List Obs) (ths : List Thread) : Prop where
  ok : ∀ (i : Nat) t, ths[i]? = some t → TOk D c h t
  pendX : ∀ (i j : Nat) ti tj, ths[i]? = some ti → ths[j]? = some tj → i ≠ j →
    ∀ e ∈ pend ti, ∀ e' ∈ pend tj, e.uid ≠ e'.uid

theorem TOk.congr {D c h t t'} (I : TOk D c h t) (h1 : t'.pc = t.pc) (h2 : t'.script = t.script) :
    TOk D c h t' := by
  have hp := pend_congr h1 h2
  constructor
  · rw [hp]; exact I.pendU
  · rw [hp]; exact I.pendPuts
  · rw [h1]; exact I.popOk
  · rw [h1]; exact I.sleepOk

theorem TOk.mono {D c c' h h' t} (I : TOk D c h t) (hc : c ≤ c') (hh : ∀ o ∈ h, o ∈ h')
    (hp : puts h' = puts h) : TOk D c' h' t := by
  constructor
  · exact I.pendU
  · rw [hp]; exact I.pendPuts
  · intro hd hpc
    obtain ⟨⟨a, ha⟩, h2⟩ := I.popOk hd hpc
    exact ⟨⟨a, hh _ ha⟩, fun hdel => Nat.le_trans (h2 hdel) hc⟩
  · intro hd dl hpc
    obtain ⟨⟨a, ha⟩, h2⟩ := I.sleepOk hd dl hpc
    exact ⟨⟨a, hh _ ha⟩, h2⟩

theorem InvT.mono {D c c' h h' ths} (I : InvT D c h ths) (hc : c ≤ c') (hh : ∀ o ∈ h, o ∈ h')
    (hp : puts h' = puts h) : InvT D c' h' ths :=
  ⟨fun i t hi => (I.ok i t hi).mono hc hh hp, I.pendX⟩

theorem InvT.map {D c h ths ths'} (I : InvT D c h ths)
    (hm : ∀ (j : Nat) tj, ths'[j]? = some tj → ∃ t0, ths[j]? = some t0 ∧ tj.pc = t0.pc ∧ tj.script = t0.script) :
    InvT D c h ths' := by
  constructor
  · intro i t hi
    obtain ⟨t0, h0, h1, h2⟩ := hm i t hi
    exact (I.ok i t0 h0).congr h1 h2
  · intro i j ti tj hi hj hij e he e' he'
    obtain ⟨t0, h0, h1, h2⟩ := hm i ti hi
    obtain ⟨t0', h0', h1', h2'⟩ := hm j tj hj
    rw [pend_congr h1 h2] at he
    rw [pend_congr h1' h2'] at he'
    exact I.pendX i j t0 t0' h0 h0' hij e he e' he'

theorem InvT.notify {D c h ths} (I : InvT D c h ths) (ws : List Nat) :
    InvT D c h (notifyThreads ths ws) :=
  I.map (fun _ _ hj => by
    obtain ⟨t0, h0, h1, h2, _⟩ := notifyThreads_cases hj
    exact ⟨t0, h0, h1, h2⟩)

theorem InvT.set {D c h ths i t t'} (I : InvT D c h ths) (hi : ths[i]? = some t)
    (ok : TOk D c h t') (hp : ∀ e ∈ pend t', e ∈ pend t) : InvT D c h (ths.set i t') := by
  constructor
  · intro j tj hj
    rcases get_set_cases hj with ⟨rfl, rfl⟩ | ⟨_, hj⟩
    · exact ok
    · exact I.ok j tj hj
  · intro j k tj tk hj hk hjk e he e' he'
    rcases get_set_cases hj with ⟨rfl, rfl⟩ | ⟨hji, hj'⟩ <;>
      rcases get_set_cases hk with ⟨rfl, rfl⟩ | ⟨hki, hk'⟩
    · exact absurd rfl hjk
    · exact I.pendX _ _ _ _ hi hk' hjk e (hp e he) e' he'
    · exact I.pendX _ _ _ _ hj' hi hjk e he e' (hp e' he')
    · exact I.pendX _ _ _ _ hj' hk' hjk e he e' he'

theorem InvT.put {D c h ths i t t' e d} (I : InvT D c h ths) (a : Nat) (hi : ths[i]? = some t)
    (hpc : t.pc = .putAcq e d) (hpop : ∀ hd, t'.pc ≠ .getPop hd) (hsl : ∀ hd dl, t'.pc ≠ .getSleep hd dl)
    (hp : pend t' = opPuts t.script) : InvT D c (h ++ [Obs.put a e d c]) (ths.set i t') := by
  have hpt : pend t = e :: opPuts t.script := by simp [pend, hpc]
  have hU := (I.ok i t hi).pendU
  rw [hpt] at hU
  simp only [List.map_cons, List.nodup_cons] at hU
  have hsub : ∀ x ∈ pend t', x ∈ pend t := by
    intro x hx; rw [hp] at hx; rw [hpt]; exact List.mem_cons_of_mem _ hx
  constructor
  · intro j tj hj
    rcases get_set_cases hj with ⟨rfl, rfl⟩ | ⟨hji, hj⟩
    · constructor
      · rw [hp]; exact hU.2
      · intro x hx y hy
        rw [puts_append] at hy
        rcases List.mem_append.1 hy with hy | hy
        · exact (I.ok _ t hi).pendPuts x (hsub x hx) y hy
        · simp at hy; subst hy
          rw [hp] at hx
          intro hh
          exact hU.1 (hh ▸ List.mem_map_of_mem hx)
      · intro hd hh; exact absurd hh (hpop hd)
      · intro hd dl hh; exact absurd hh (hsl hd dl)
    · have ok := I.ok j tj hj
      constructor
      · exact ok.pendU
      · intro x hx y hy
        rw [puts_append] at hy
        rcases List.mem_append.1 hy with hy | hy
        · exact ok.pendPuts x hx y hy
        · simp at hy; subst hy
          exact I.pendX j i tj t hj hi hji x hx y (by rw [hpt]; simp)
      · intro hd hh
        obtain ⟨⟨a', ha'⟩, h2⟩ := ok.popOk hd hh
        exact ⟨⟨a', List.mem_append_left _ ha'⟩, h2⟩
      · intro hd dl hh
        obtain ⟨⟨a', ha'⟩, h2⟩ := ok.sleepOk hd dl hh
        exact ⟨⟨a', List.mem_append_left _ ha'⟩, h2⟩
  · intro j k tj tk hj hk hjk x hx y hy
    rcases get_set_cases hj with ⟨rfl, rfl⟩ | ⟨hji, hj'⟩ <;>
      rcases get_set_cases hk with ⟨rfl, rfl⟩ | ⟨hki, hk'⟩
    · exact absurd rfl hjk
    · exact I.pendX _ _ _ _ hi hk' hjk x (hsub x hx) y hy
    · exact I.pendX _ _ _ _ hj' hi hjk x hx y (hsub y hy)
    · exact I.pendX _ _ _ _ hj' hk' hjk x hx y hy

theorem notifyThreads_get_some {ths : List Thread} (ws : List Nat) {j : Nat} {t : Thread}
    (h : ths[j]? = some t) :
    ∃ t1, (notifyThreads ths ws)[j]? = some t1 ∧ t1.pc = t.pc ∧ t1.script = t.script := by
  rw [notifyThreads_get, h]
  simp only [Option.map_some]
  split
  · exact ⟨_, rfl, rfl, rfl⟩
  · exact ⟨_, rfl, rfl, rfl⟩

theorem InvT.notify_set {D c h ths i t t'} (I : InvT D c h ths) (ws : List Nat) (hi : ths[i]? = some t)
    (ok : TOk D c h t') (hp : ∀ e ∈ pend t', e ∈ pend t) :
    InvT D c h ((notifyThreads ths ws).set i t') := by
  obtain ⟨t1, h1, h2, h3⟩ := notifyThreads_get_some ws hi
  exact (I.notify ws).set h1 ok (by rw [pend_congr h2 h3]; exact hp)

theorem arriveT_pc (c : Nat) (t : Thread) :
    (∀ hd, (arriveT c t).pc ≠ .getPop hd) ∧ (∀ hd dl, (arriveT c t).pc ≠ .getSleep hd dl) ∧
      (arriveT c t).pc ≠ .getWait ∧ (arriveT c t).pc ≠ .closeAcq := by
  rcases t with ⟨pc, script, n⟩
  cases script with
  | nil => simp [arriveT]
  | cons op rest => cases op <;> simp [arriveT]

theorem TOk.arrive {D c h t} (I : TOk D c h t) (c' : Nat) : TOk D c h (arriveT c' t) := by
  have hsub : (pend (arriveT c' t)).Sublist (pend t) := by
    rw [pend_arriveT]; unfold pend; exact List.sublist_append_right _ _
  constructor
  · exact List.Nodup.sublist (hsub.map _) I.pendU
  · intro e he; exact I.pendPuts e (hsub.subset he)
  · intro hd hh; exact absurd hh ((arriveT_pc c' t).1 hd)
  · intro hd dl hh; exact absurd hh ((arriveT_pc c' t).2.1 hd dl)

theorem pend_arriveT_sub (c : Nat) (t : Thread) : ∀ e ∈ pend (arriveT c t), e ∈ pend t := by
  intro e he; rw [pend_arriveT] at he; exact opPuts_sub_pend he

theorem TOk.repc {D c h t} (I : TOk D c h t) (t' : Thread) (hp : pend t' = pend t)
    (pop : ∀ hd, t'.pc = .getPop hd →
      (∃ a, Obs.put a hd.elem hd.delayed hd.ins ∈ h) ∧ (hd.delayed = true → hd.ins + D ≤ c))
    (sl : ∀ hd dl, t'.pc = .getSleep hd dl →
      (∃ a, Obs.put a hd.elem hd.delayed hd.ins ∈ h) ∧ hd.ins + D ≤ dl) : TOk D c h t' :=
  ⟨hp ▸ I.pendU, hp ▸ I.pendPuts, pop, sl⟩

theorem eq_of_nodup_map {α β} (f : α → β) {l : List α} (hnd : (l.map f).Nodup) {a b : α}
    (ha : a ∈ l) (hb : b ∈ l) (hab : f a = f b) : a = b := by
  induction l with
  | nil => simp at ha
  | cons x l ih =>
    simp only [List.map_cons, List.nodup_cons] at hnd
    rcases List.mem_cons.1 ha with rfl | ha' <;> rcases List.mem_cons.1 hb with rfl | hb'
    · rfl
    · exact absurd (hab ▸ List.mem_map_of_mem hb') hnd.1
    · exact absurd (hab ▸ List.mem_map_of_mem ha') hnd.1
    · exact ih hnd.2 ha' hb'

/-! ### the invariant and its preservation -/

structure Inv (D : Nat) (s : State) : Prop where
  dl : s.delay = D
  H : InvH D s.hist s.queue
  T : InvT D s.clock s.hist s.threads

theorem pend_not_put {t : Thread} (h : ∀ e d, t.pc ≠ .putAcq e d) : pend t = opPuts t.script := by
  unfold pend
  split
  · rename_i e d heq; exact absurd heq (h e d)
  · simp

theorem getLocked_inv {D s tid t t0} (I : Inv D s) (ht : s.threads[tid]? = some t0)
    (h1 : t.pc = t0.pc) (h2 : t.script = t0.script) (hnp : ∀ e d, t.pc ≠ .putAcq e d) :
    Inv D (getLocked s tid t) := by
  obtain ⟨hdl, H, T⟩ := I
  have ok : TOk D s.clock s.hist t := (T.ok tid t0 ht).congr h1 h2
  have hpe : pend t = pend t0 := pend_congr h1 h2
  have hclosed : Inv D (arrive { s with hist := s.hist ++ [.gotNone tid s.clock] } tid t) := by
    simp only [arrive_eq, State.setThread]
    refine ⟨hdl, H.neutral _ trivial, ?_⟩
    have T' : InvT D s.clock (s.hist ++ [.gotNone tid s.clock]) s.threads :=
      T.mono (Nat.le_refl _) (fun o ho => List.mem_append_left _ ho) (by simp [puts_append])
    have ok' := ((T'.ok tid t0 ht).congr h1 h2).arrive s.clock
    exact T'.set ht ok' (fun e he => hpe ▸ pend_arriveT_sub _ _ e he)
  unfold getLocked
  split
  · split
    · exact hclosed
    · simp only [State.setThread]
      refine ⟨hdl, H, T.set ht (ok.repc _ ?_ ?_ ?_) ?_⟩
      · rw [pend_not_put hnp, pend_not_put (by simp)]
      · simp
      · simp
      · intro e he; rw [pend_not_put (by simp)] at he; rw [← hpe, pend_not_put hnp]; exact he
  · rename_i head rest hq
    have hput : ∃ a, Obs.put a head.elem head.delayed head.ins ∈ s.hist :=
      H.qHist head (by rw [hq]; simp)
    split
    · exact hclosed
    · split
      · rename_i hc hearly
        simp only [State.setThread]
        refine ⟨hdl, H, T.set ht (ok.repc _ ?_ ?_ ?_) ?_⟩
        · rw [pend_not_put hnp, pend_not_put (by simp)]
        · simp
        · intro hd dl hh
          simp at hh
          obtain ⟨rfl, rfl⟩ := hh
          exact ⟨hput, by omega⟩
        · intro e he; rw [pend_not_put (by simp)] at he; rw [← hpe, pend_not_put hnp]; exact he
      · rename_i hc hearly
        simp only [State.setThread]
        refine ⟨hdl, H, T.set ht (ok.repc _ ?_ ?_ ?_) ?_⟩
        · rw [pend_not_put hnp, pend_not_put (by simp)]
        · intro hd hh
          simp at hh
          subst hh
          refine ⟨hput, fun hdel => ?_⟩
          simp [hdel] at hearly
          omega
        · simp
        · intro e he; rw [pend_not_put (by simp)] at he; rw [← hpe, pend_not_put hnp]; exact he

theorem step_inv {D s tid s'} (I : Inv D s) (hs : step s tid = some s') : Inv D s' := by
  have I0 := I
  obtain ⟨hdl, H, T⟩ := I
  unfold step at hs
  split at hs
  · simp at hs
  rename_i hen
  split at hs
  · simp at hs
  rename_i t ht
  simp only [State.thread?] at ht
  have ok := T.ok tid t ht
  -- neutral history extension
  have Tn : ∀ o, puts (s.hist ++ [o]) = puts s.hist → InvT D s.clock (s.hist ++ [o]) s.threads :=
    fun o ho => T.mono (Nat.le_refl _) (fun o ho => List.mem_append_left _ ho) ho
  split at hs
  all_goals (try (simp only [Option.some.injEq] at hs; subst hs))
  · -- begin
    simp only [arrive_eq, State.setThread]
    exact ⟨hdl, H, T.set ht (ok.arrive _) (pend_arriveT_sub _ _)⟩
  · -- putAcq
    rename_i e d hpc
    simp only [arrive_eq, notifyOne_eq, State.setThread]
    have hpt : pend t = e :: opPuts t.script := by simp [pend, hpc]
    refine ⟨hdl, H.put _ _ _ _ (ok.pendPuts e (by rw [hpt]; simp)), ?_⟩
    obtain ⟨t1, h1, h2, h3⟩ := notifyThreads_get_some s.waiters ht
    exact (T.notify s.waiters).put tid h1 (h2 ▸ hpc) (arriveT_pc _ _).1 (arriveT_pc _ _).2.1
      (by rw [pend_arriveT, h3])
  · -- getAcq
    rename_i hpc
    exact getLocked_inv I0 ht rfl rfl (by simp [hpc])
  · -- getWait
    rename_i hpc
    exact getLocked_inv I0 ht rfl rfl (by simp [hpc])
  · -- getSleep
    rename_i head dl hpc
    simp only [State.setThread]
    have hdl' : dl ≤ s.clock := by
      simp [enabled, State.thread?, ht, hpc] at hen; exact hen
    refine ⟨hdl, H, T.set ht (ok.repc _ ?_ ?_ ?_) ?_⟩
    · rw [pend_not_put (by simp), pend_not_put (by simp [hpc])]
    · intro hd hh
      simp at hh; subst hh
      obtain ⟨hp, hle⟩ := ok.sleepOk _ _ hpc
      exact ⟨hp, fun _ => by omega⟩
    · simp
    · intro e he; rw [pend_not_put (by simp)] at he; rw [pend_not_put (by simp [hpc])]; exact he
  · -- getPop
    rename_i head hpc
    have back : Inv D (s.setThread tid { t with pc := .getAcq }) := by
      simp only [State.setThread]
      refine ⟨hdl, H, T.set ht (ok.repc _ ?_ ?_ ?_) ?_⟩
      · rw [pend_not_put (by simp), pend_not_put (by simp [hpc])]
      · simp
      · simp
      · intro e he; rw [pend_not_put (by simp)] at he; rw [pend_not_put (by simp [hpc])]; exact he
    split at hs
    · rename_i h rest hq
      split at hs
      · rename_i huid
        simp only [Option.some.injEq] at hs; subst hs
        obtain ⟨⟨a1, hp1⟩, hle⟩ := ok.popOk _ hpc
        obtain ⟨a2, hp2⟩ := H.qHist h (by rw [hq]; simp)
        have heq : h.elem = head.elem :=
          eq_of_nodup_map Elem.uid H.putsU (mem_puts.2 ⟨_, _, _, hp2⟩) (mem_puts.2 ⟨_, _, _, hp1⟩) huid
        simp only [arrive_eq, State.setThread]
        rw [hq] at H
        refine ⟨hdl, ?_, ?_⟩
        · rw [← heq]
          apply H.got
          intro a' t0 hp3
          rw [heq] at hp3
          obtain ⟨hd1, hd2⟩ := H.putUniq _ _ _ _ _ _ _ hp1 hp3
          subst hd2
          exact hle hd1
        · have T' := Tn (.got tid head.elem s.clock) (by simp [puts_append])
          exact T'.set ht ((T'.ok tid t ht).arrive _) (pend_arriveT_sub _ _)
      · simp only [Option.some.injEq] at hs; subst hs; exact back
    · simp only [Option.some.injEq] at hs; subst hs; exact back
  · -- remAcq
    rename_i v hpc
    split at hs
    · rename_i e q hrf
      simp only [Option.some.injEq] at hs; subst hs
      simp only [arrive_eq, State.setThread]
      refine ⟨hdl, H.removed _ _ hrf, ?_⟩
      have T' := Tn (.removed tid e.elem s.clock) (by simp [puts_append])
      exact T'.set ht ((T'.ok tid t ht).arrive _) (pend_arriveT_sub _ _)
    · simp only [Option.some.injEq] at hs; subst hs
      simp only [arrive_eq, State.setThread]
      refine ⟨hdl, H.neutral _ trivial, ?_⟩
      have T' := Tn (.removedNone tid s.clock) (by simp [puts_append])
      exact T'.set ht ((T'.ok tid t ht).arrive _) (pend_arriveT_sub _ _)
  · -- closeFlag
    rename_i hpc
    simp only [State.setThread]
    refine ⟨hdl, H, T.set ht (ok.repc _ ?_ ?_ ?_) ?_⟩
    · rw [pend_not_put (by simp), pend_not_put (by simp [hpc])]
    · simp
    · simp
    · intro e he; rw [pend_not_put (by simp)] at he; rw [pend_not_put (by simp [hpc])]; exact he
  · -- closeAcq
    rename_i hpc
    simp only [arrive_eq, notifyOne_eq, State.setThread]
    refine ⟨hdl, H.neutral _ trivial, ?_⟩
    have T' := Tn (.closed tid s.clock) (by simp [puts_append])
    exact T'.notify_set _ ht ((T'.ok tid t ht).arrive _) (pend_arriveT_sub _ _)
  · -- sleeping
    simp only [arrive_eq, State.setThread]
    exact ⟨hdl, H, T.set ht (ok.arrive _) (pend_arriveT_sub _ _)⟩
  · simp at hs

theorem act_inv {D s} (I : Inv D s) (a : Action) : Inv D (act s a) := by
  cases a with
  | step tid =>
    simp only [act]
    cases hs : step s tid with
    | none => exact I
    | some s' => exact step_inv I hs
  | tick d =>
    simp only [act]
    exact ⟨I.dl, I.H, I.T.mono (Nat.le_add_right _ _) (fun _ h => h) rfl⟩

theorem run_inv {D s} (I : Inv D s) (as : List Action) : Inv D (run s as) := by
  induction as generalizing s with
  | nil => exact I
  | cons a as ih => exact ih (act_inv I a)

theorem init_inv (delay : Nat) (scripts : List (List Op)) (h : distinctPuts scripts) :
    Inv delay (init delay scripts) := by
  unfold distinctPuts at h
  have h' := List.pairwise_map.1 h
  obtain ⟨hin, hx⟩ := List.pairwise_flatMap.1 h'
  have hx' := List.pairwise_iff_getElem.1 hx
  have hget : ∀ (i : Nat) t, (init delay scripts).threads[i]? = some t →
      ∃ sc, scripts[i]? = some sc ∧ pend t = opPuts sc ∧ t.pc = .begin := by
    intro i t hi
    simp only [init, List.getElem?_map] at hi
    cases hsc : scripts[i]? with
    | none => simp [hsc] at hi
    | some sc =>
      simp [hsc] at hi
      subst hi
      exact ⟨sc, rfl, by simp [pend], rfl⟩
  refine ⟨rfl, InvH.init _, ?_, ?_⟩
  · intro i t hi
    obtain ⟨sc, hsc, hp, hpc⟩ := hget i t hi
    constructor
    · rw [hp]; exact List.pairwise_map.2 (hin sc (List.mem_of_getElem? hsc))
    · intro e _ e' he'; simp [init, puts] at he'
    · intro hd hh; rw [hpc] at hh; cases hh
    · intro hd dl hh; rw [hpc] at hh; cases hh
  · intro i j ti tj hi hj hij e he e' he'
    obtain ⟨sci, hsci, hpi, _⟩ := hget i ti hi
    obtain ⟨scj, hscj, hpj, _⟩ := hget j tj hj
    rw [hpi] at he
    rw [hpj] at he'
    obtain ⟨hli, rfl⟩ := List.getElem?_eq_some_iff.1 hsci
    obtain ⟨hlj, rfl⟩ := List.getElem?_eq_some_iff.1 hscj
    rcases Nat.lt_or_gt_of_ne hij with hlt | hgt
    · exact hx' i j hli hlj hlt e he e' he'
    · exact fun hh => hx' j i hlj hli hgt e' he' e he hh.symm

theorem reach_inv (delay : Nat) (scripts : List (List Op)) (as : List Action) (h : distinctPuts scripts) :
    Inv delay (run (init delay scripts) as) :=
  run_inv (init_inv delay scripts h) as

theorem InvH.gots_sub_live {D h q} (I : InvH D h q) : (gots h).Sublist (live h) := by
  rw [I.acc]; exact List.sublist_append_left _ _

theorem accounting (delay : Nat) (scripts : List (List Op)) (as : List Action) (h : distinctPuts scripts) :
    live (run (init delay scripts) as).hist =
      gots (run (init delay scripts) as).hist ++ (run (init delay scripts) as).queue.map Entry.elem :=
  (reach_inv delay scripts as h).H.acc

theorem exactly_once (delay : Nat) (scripts : List (List Op)) (as : List Action) (h : distinctPuts scripts) :
    (gots (run (init delay scripts) as).hist ++ removeds (run (init delay scripts) as).hist).Nodup := by
  have H := (reach_inv delay scripts as h).H
  refine List.nodup_append.2 ⟨List.Nodup.sublist H.gots_sub_live H.live_nodup, H.remNodup, ?_⟩
  intro a ha b hb hab
  subst hab
  exact not_removed_of_live (H.gots_sub_live.subset ha) hb

theorem fifo (delay : Nat) (scripts : List (List Op)) (as : List Action) (h : distinctPuts scripts) :
    (gots (run (init delay scripts) as).hist).Sublist (puts (run (init delay scripts) as).hist) := by
  have H := (reach_inv delay scripts as h).H
  exact H.gots_sub_live.trans List.filter_sublist

theorem removed_not_returned (delay : Nat) (scripts : List (List Op)) (as : List Action) (h : distinctPuts scripts)
    (e : Elem) (hr : e ∈ removeds (run (init delay scripts) as).hist) :
    e ∉ gots (run (init delay scripts) as).hist := by
  have H := (reach_inv delay scripts as h).H
  exact fun hg => not_removed_of_live (H.gots_sub_live.subset hg) hr

theorem never_early (delay : Nat) (scripts : List (List Op)) (as : List Action) (h : distinctPuts scripts)
    (tid tid' : Nat) (e : Elem) (t t0 : Nat)
    (hg : Obs.got tid e t ∈ (run (init delay scripts) as).hist)
    (hp : Obs.put tid' e true t0 ∈ (run (init delay scripts) as).hist) : t0 + delay ≤ t :=
  (reach_inv delay scripts as h).H.ne _ _ _ _ _ hg hp

theorem getLocked_closed (s : State) (tid : Nat) (t : Thread) (hc : s.closed = true) :
    getLocked s tid t = arrive { s with hist := s.hist ++ [.gotNone tid s.clock] } tid t := by
  unfold getLocked
  split <;> simp [hc]

theorem getLocked_imm (s : State) (tid : Nat) (t : Thread) (head : Entry) (rest : List Entry)
    (hq : s.queue = head :: rest) (hnd : head.delayed = false) (hc : s.closed = false) :
    getLocked s tid t = s.setThread tid { t with pc := .getPop head } := by
  unfold getLocked
  simp [hq, hc, hnd]

theorem thread?_setThread_self (s : State) (tid : Nat) (t t' : Thread) (ht : s.thread? tid = some t) :
    (s.setThread tid t').thread? tid = some t' := by
  simp only [State.thread?, State.setThread] at *
  have hlt : tid < s.threads.length := (List.getElem?_eq_some_iff.1 ht).1
  simp [hlt]

theorem pop_step (s : State) (tid : Nat) (t : Thread) (head : Entry) (rest : List Entry)
    (ht : s.thread? tid = some t) (hpc : t.pc = .getPop head) (hq : s.queue = head :: rest) :
    ∃ s2, step s tid = some s2 ∧ Obs.got tid head.elem s.clock ∈ s2.hist ∧ s2.queue = rest := by
  have hen : enabled s tid = true := by simp [enabled, ht, hpc]
  refine ⟨arrive { s with queue := rest, hist := s.hist ++ [.got tid head.elem s.clock] } tid t, ?_, ?_, ?_⟩
  · simp [step, hen, ht, hpc, hq]
  · rw [arrive_eq]; simp [State.setThread]
  · rw [arrive_eq]; simp [State.setThread]

theorem immediate (s : State) (tid : Nat) (t : Thread) (head : Entry) (rest : List Entry)
    (ht : s.thread? tid = some t) (hpc : t.pc = .getAcq ∨ (t.pc = .getWait ∧ t.notified = true))
    (hq : s.queue = head :: rest) (hnd : head.delayed = false) (hc : s.closed = false) :
    ∃ s1, step s tid = some s1 ∧ s1.clock = s.clock ∧ s1.queue = s.queue ∧
      (∃ t1, s1.thread? tid = some t1 ∧ t1.pc = .getPop head) ∧
      ∃ s2, step s1 tid = some s2 ∧ Obs.got tid head.elem s.clock ∈ s2.hist ∧ s2.queue = rest := by
  rcases hpc with hpc | ⟨hpc, hn⟩
  · have hen : enabled s tid = true := by simp [enabled, ht, hpc]
    refine ⟨s.setThread tid { t with pc := .getPop head }, ?_, rfl, rfl, ?_, ?_⟩
    · simp [step, hen, ht, hpc, getLocked_imm s tid _ head rest hq hnd hc]
    · exact ⟨_, thread?_setThread_self s tid t _ ht, rfl⟩
    · exact pop_step _ tid _ head rest (thread?_setThread_self s tid t _ ht) rfl hq
  · have hen : enabled s tid = true := by simp [enabled, ht, hpc, hn]
    refine ⟨s.setThread tid { t with pc := .getPop head, notified := false }, ?_, rfl, rfl, ?_, ?_⟩
    · simp [step, hen, ht, hpc, getLocked_imm s tid _ head rest hq hnd hc]
    · exact ⟨_, thread?_setThread_self s tid t _ ht, rfl⟩
    · exact pop_step _ tid _ head rest (thread?_setThread_self s tid t _ ht) rfl hq

theorem closed_get_returns_none (s : State) (tid : Nat) (t : Thread)
    (ht : s.thread? tid = some t) (hpc : t.pc = .getAcq ∨ (t.pc = .getWait ∧ t.notified = true))
    (hc : s.closed = true) :
    ∃ s1, step s tid = some s1 ∧ Obs.gotNone tid s.clock ∈ s1.hist := by
  rcases hpc with hpc | ⟨hpc, hn⟩
  · have hen : enabled s tid = true := by simp [enabled, ht, hpc]
    refine ⟨getLocked s tid t, ?_, ?_⟩
    · simp [step, hen, ht, hpc]
    · rw [getLocked_closed _ _ _ hc, arrive_eq]; simp [State.setThread]
  · have hen : enabled s tid = true := by simp [enabled, ht, hpc, hn]
    refine ⟨getLocked s tid { t with notified := false }, ?_, ?_⟩
    · simp [step, hen, ht, hpc]
    · rw [getLocked_closed _ _ _ hc, arrive_eq]; simp [State.setThread]

/-! ### waiters, single consumer and `close()` -/

def getPc : Pc → Bool
  | .getAcq => true
  | .getWait => true
  | .getSleep _ _ => true
  | .getPop _ => true
  | _ => false

/-- the thread is inside `get()` or will still call it -/
def getish (t : Thread) : Prop := getPc t.pc = true ∨ Op.get ∈ t.script

theorem getish_arriveT {c : Nat} {t : Thread} (h : getish (arriveT c t)) : Op.get ∈ t.script := by
  rcases t with ⟨pc, script, n⟩
  cases script with
  | nil => simp [arriveT, getish, getPc] at h
  | cons op rest => cases op <;> simp_all [arriveT, getish, getPc]

structure InvW (cl : Bool) (ws : List Nat) (ths : List Thread) (h : List Obs) : Prop where
  wIff : ∀ i : Nat, i ∈ ws ↔ ∃ t, ths[i]? = some t ∧ t.pc = .getWait ∧ t.notified = false
  wNodup : ws.Nodup
  single : ∀ (i j : Nat) ti tj, ths[i]? = some ti → ths[j]? = some tj → getish ti → getish tj → i = j
  closedHist : ∀ a c, Obs.closed a c ∈ h → cl = true ∧ ws = []
  closeAcqOk : ∀ (i : Nat) t, ths[i]? = some t → t.pc = .closeAcq → cl = true

theorem InvW.tail_nil {cl ws ths h} (I : InvW cl ws ths h) : ws.tail = [] := by
  cases ws with
  | nil => rfl
  | cons a rest =>
    cases rest with
    | nil => rfl
    | cons b rest' =>
      exfalso
      obtain ⟨ta, hta, hpa, _⟩ := (I.wIff a).1 (by simp)
      obtain ⟨tb, htb, hpb, _⟩ := (I.wIff b).1 (by simp)
      have hab : a = b := I.single a b ta tb hta htb (Or.inl (by simp [hpa, getPc])) (Or.inl (by simp [hpb, getPc]))
      have := I.wNodup
      simp [hab] at this

theorem InvW.hist {cl ws ths h h'} (I : InvW cl ws ths h)
    (hh : ∀ a c, Obs.closed a c ∈ h' → Obs.closed a c ∈ h) : InvW cl ws ths h' :=
  ⟨I.wIff, I.wNodup, I.single, fun a c hc => I.closedHist a c (hh a c hc), I.closeAcqOk⟩

theorem InvW.notify {cl ws ths h} (I : InvW cl ws ths h) : InvW cl ws.tail (notifyThreads ths ws) h := by
  have hsingle : ∀ (i j : Nat) ti tj, (notifyThreads ths ws)[i]? = some ti → (notifyThreads ths ws)[j]? = some tj →
      getish ti → getish tj → i = j := by
    intro i j ti tj hi hj gi gj
    obtain ⟨t0, h0, h1, h2, _⟩ := notifyThreads_cases hi
    obtain ⟨t0', h0', h1', h2', _⟩ := notifyThreads_cases hj
    exact I.single i j t0 t0' h0 h0' (by simpa [getish, h1, h2] using gi) (by simpa [getish, h1', h2'] using gj)
  have hclose : ∀ (i : Nat) t, (notifyThreads ths ws)[i]? = some t → t.pc = .closeAcq → cl = true := by
    intro i t hi hpc
    obtain ⟨t0, h0, h1, _, _⟩ := notifyThreads_cases hi
    exact I.closeAcqOk i t0 h0 (h1 ▸ hpc)
  cases ws with
  | nil => exact I
  | cons w rest =>
    have hnd := I.wNodup
    simp only [List.nodup_cons] at hnd
    refine ⟨?_, hnd.2, hsingle, ?_, hclose⟩
    · intro i
      simp only [List.tail_cons, notifyThreads_get, List.head?_cons, Option.some.injEq]
      by_cases hwi : w = i
      · subst hwi
        constructor
        · intro hin; exact absurd hin hnd.1
        · rintro ⟨t, ht, _, hn⟩
          cases h0 : ths[w]? with
          | none => simp [h0] at ht
          | some t0 => simp [h0] at ht; subst ht; simp at hn
      · have := I.wIff i
        simp only [List.mem_cons] at this
        constructor
        · intro hin
          obtain ⟨t, ht, hp, hn⟩ := this.1 (Or.inr hin)
          exact ⟨t, by simp [ht, hwi], hp, hn⟩
        · rintro ⟨t, ht, hp, hn⟩
          cases h0 : ths[i]? with
          | none => simp [h0] at ht
          | some t0 =>
            simp [h0, hwi] at ht; subst ht
            rcases this.2 ⟨t0, h0, hp, hn⟩ with h | h
            · exact absurd h.symm hwi
            · exact h
    · intro a c hc
      have := I.closedHist a c hc
      simp at this

theorem InvW.set {cl cl' ws ths h h' tid t t'} (I : InvW cl ws ths h) (ht : ths[tid]? = some t)
    (hnw : t.pc = .getWait → t.notified = true) (hpc : t'.pc ≠ .getWait)
    (hca : t'.pc = .closeAcq → cl' = true) (hg : getish t' → getish t) (hcl : cl = true → cl' = true)
    (hh : ∀ a c, Obs.closed a c ∈ h' → Obs.closed a c ∈ h ∨ (cl' = true ∧ ws = [])) :
    InvW cl' ws (ths.set tid t') h' := by
  constructor
  · intro i
    rw [I.wIff i]
    by_cases hi : i = tid
    · subst hi
      have hlt : i < ths.length := (List.getElem?_eq_some_iff.1 ht).1
      constructor
      · rintro ⟨t0, h0, hp, hn⟩
        rw [ht] at h0; simp at h0; subst h0
        rw [hnw hp] at hn; simp at hn
      · rintro ⟨t0, h0, hp, hn⟩
        simp [hlt] at h0; subst h0
        exact absurd hp hpc
    · have : (ths.set tid t')[i]? = ths[i]? := by
        rw [List.getElem?_set]; simp [Ne.symm hi]
      rw [this]
  · exact I.wNodup
  · intro i j ti tj hi hj gi gj
    rcases get_set_cases hi with ⟨rfl, rfl⟩ | ⟨_, hi'⟩ <;>
      rcases get_set_cases hj with ⟨rfl, rfl⟩ | ⟨_, hj'⟩
    · rfl
    · exact I.single _ _ _ _ ht hj' (hg gi) gj
    · exact I.single _ _ _ _ hi' ht gi (hg gj)
    · exact I.single _ _ _ _ hi' hj' gi gj
  · intro a c hc
    rcases hh a c hc with h1 | h1
    · obtain ⟨h2, h3⟩ := I.closedHist a c h1
      exact ⟨hcl h2, h3⟩
    · exact h1
  · intro i t0 hi hp
    rcases get_set_cases hi with ⟨rfl, rfl⟩ | ⟨_, hi'⟩
    · exact hca hp
    · exact hcl (I.closeAcqOk i t0 hi' hp)

theorem InvW.wait {cl ws ths h tid t t'} (I : InvW cl ws ths h) (hcl : cl = false) (ht : ths[tid]? = some t)
    (hpc0 : t.pc = .getAcq ∨ (t.pc = .getWait ∧ t.notified = true))
    (hpc : t'.pc = .getWait) (hn : t'.notified = false) :
    InvW cl (ws ++ [tid]) (ths.set tid t') h := by
  have hlt : tid < ths.length := (List.getElem?_eq_some_iff.1 ht).1
  have hnin : tid ∉ ws := by
    intro hin
    obtain ⟨t0, h0, hp, hn0⟩ := (I.wIff tid).1 hin
    rw [ht] at h0; simp at h0; subst h0
    rcases hpc0 with h1 | ⟨_, h1⟩
    · rw [h1] at hp; cases hp
    · rw [h1] at hn0; cases hn0
  have hgt : getish t := by
    rcases hpc0 with h1 | ⟨h1, _⟩ <;> exact Or.inl (by simp [h1, getPc])
  constructor
  · intro i
    by_cases hi : i = tid
    · subst hi
      simp only [List.mem_append, List.mem_singleton, or_true, true_iff]
      exact ⟨t', by simp [hlt], hpc, hn⟩
    · have : (ths.set tid t')[i]? = ths[i]? := by
        rw [List.getElem?_set]; simp [Ne.symm hi]
      rw [this, ← I.wIff i]
      simp [hi]
  · refine List.nodup_append.2 ⟨I.wNodup, by simp, ?_⟩
    intro a ha b hb
    simp at hb; subst hb
    exact fun hab => hnin (hab ▸ ha)
  · intro i j ti tj hi hj gi gj
    rcases get_set_cases hi with ⟨rfl, rfl⟩ | ⟨_, hi'⟩ <;>
      rcases get_set_cases hj with ⟨rfl, rfl⟩ | ⟨_, hj'⟩
    · rfl
    · exact I.single _ _ _ _ ht hj' hgt gj
    · exact I.single _ _ _ _ hi' ht gi hgt
    · exact I.single _ _ _ _ hi' hj' gi gj
  · intro a c hc
    have := (I.closedHist a c hc).1
    rw [hcl] at this; cases this
  · intro i t0 hi hp
    rcases get_set_cases hi with ⟨rfl, rfl⟩ | ⟨_, hi'⟩
    · rw [hpc] at hp; cases hp
    · exact I.closeAcqOk i t0 hi' hp

abbrev SW (s : State) : Prop := InvW s.closed s.waiters s.threads s.hist

theorem getLocked_invW {s tid t t0} (I : SW s) (ht : s.threads[tid]? = some t0)
    (hpc0 : t0.pc = .getAcq ∨ (t0.pc = .getWait ∧ t0.notified = true)) :
    SW (getLocked s tid t) := by
  have hgt : getish t0 := by
    rcases hpc0 with h1 | ⟨h1, _⟩ <;> exact Or.inl (by simp [h1, getPc])
  have hnw : t0.pc = .getWait → t0.notified = true := by
    rcases hpc0 with h1 | ⟨_, h1⟩
    · intro hh; rw [h1] at hh; cases hh
    · exact fun _ => h1
  have hclosed : SW (arrive { s with hist := s.hist ++ [.gotNone tid s.clock] } tid t) := by
    simp only [arrive_eq, State.setThread, SW]
    refine InvW.set I ht hnw (arriveT_pc _ _).2.2.1 ?_ (fun _ => hgt) id ?_
    · intro hh; exact absurd hh (arriveT_pc _ _).2.2.2
    · intro a c hc; simp at hc; exact Or.inl hc
  have hmove : ∀ pc, pc ≠ Pc.getWait → pc ≠ Pc.closeAcq →
      SW (s.setThread tid { t with pc := pc }) := by
    intro pc hp1 hp2
    simp only [State.setThread, SW]
    exact InvW.set I ht hnw hp1 (fun hh => absurd hh hp2) (fun _ => hgt) id (fun a c hc => Or.inl hc)
  unfold getLocked
  split
  · split
    · exact hclosed
    · rename_i hc
      simp only [State.setThread, SW]
      exact InvW.wait I (by simpa using hc) ht hpc0 rfl rfl
  · split
    · exact hclosed
    · split
      · exact hmove _ (by simp) (by simp)
      · exact hmove _ (by simp) (by simp)

theorem step_invW {s tid s'} (I : SW s) (hs : step s tid = some s') : SW s' := by
  unfold step at hs
  split at hs
  · simp at hs
  rename_i hen
  split at hs
  · simp at hs
  rename_i t ht
  simp only [State.thread?] at ht
  have hnw : t.pc = .getWait → t.notified = true := by
    intro hpc; simp [enabled, State.thread?, ht, hpc] at hen; exact hen
  have harr : ∀ (s0 : State), s0.closed = s.closed → s0.waiters = s.waiters → s0.threads = s.threads →
      (∀ a c, Obs.closed a c ∈ s0.hist → Obs.closed a c ∈ s.hist) → SW (arrive s0 tid t) := by
    intro s0 h1 h2 h3 h4
    simp only [arrive_eq, State.setThread, SW, h1, h2, h3]
    refine InvW.set I ht hnw (arriveT_pc _ _).2.2.1 ?_ (fun g => Or.inr (getish_arriveT g)) id ?_
    · intro hh; exact absurd hh (arriveT_pc _ _).2.2.2
    · intro a c hc; exact Or.inl (h4 a c hc)
  have hmove : ∀ pc, getPc t.pc = true → pc ≠ Pc.getWait → pc ≠ Pc.closeAcq →
      SW (s.setThread tid { t with pc := pc }) := by
    intro pc hg hp1 hp2
    simp only [State.setThread, SW]
    exact InvW.set I ht hnw hp1 (fun hh => absurd hh hp2) (fun _ => Or.inl hg) id (fun a c hc => Or.inl hc)
  split at hs
  all_goals (try (simp only [Option.some.injEq] at hs; subst hs))
  · -- begin
    exact harr s rfl rfl rfl (fun _ _ h => h)
  · -- putAcq
    rename_i e d hpc
    simp only [arrive_eq, notifyOne_eq, State.setThread, SW]
    obtain ⟨t1, h1, h2, h3⟩ := notifyThreads_get_some s.waiters ht
    have I1 : InvW s.closed s.waiters.tail (notifyThreads s.threads s.waiters)
        (s.hist ++ [.put tid e d s.clock]) :=
      (InvW.notify I).hist (by intro a c hc; simpa using hc)
    refine InvW.set I1 h1 ?_ (arriveT_pc _ _).2.2.1 ?_ ?_ id (fun a c hc => Or.inl hc)
    · intro hh; rw [h2, hpc] at hh; cases hh
    · intro hh; exact absurd hh (arriveT_pc _ _).2.2.2
    · intro g; exact Or.inr (h3 ▸ getish_arriveT g)
  · -- getAcq
    rename_i hpc
    exact getLocked_invW I ht (Or.inl hpc)
  · -- getWait
    rename_i hpc
    exact getLocked_invW I ht (Or.inr ⟨hpc, hnw hpc⟩)
  · -- getSleep
    rename_i head dl hpc
    exact hmove _ (by simp [hpc, getPc]) (by simp) (by simp)
  · -- getPop
    rename_i head hpc
    split at hs
    · split at hs
      · simp only [Option.some.injEq] at hs; subst hs
        exact harr _ rfl rfl rfl (by intro a c hc; simpa using hc)
      · simp only [Option.some.injEq] at hs; subst hs
        exact hmove _ (by simp [hpc, getPc]) (by simp) (by simp)
    · simp only [Option.some.injEq] at hs; subst hs
      exact hmove _ (by simp [hpc, getPc]) (by simp) (by simp)
  · -- remAcq
    split at hs
    · simp only [Option.some.injEq] at hs; subst hs
      exact harr _ rfl rfl rfl (by intro a c hc; simpa using hc)
    · simp only [Option.some.injEq] at hs; subst hs
      exact harr _ rfl rfl rfl (by intro a c hc; simpa using hc)
  · -- closeFlag
    rename_i hpc
    simp only [State.setThread, SW]
    refine InvW.set I ht hnw (by simp) (fun _ => rfl) ?_ (fun _ => rfl) (fun a c hc => Or.inl hc)
    intro g
    simp [getish, getPc] at g
    exact Or.inr g
  · -- closeAcq
    rename_i hpc
    simp only [arrive_eq, notifyOne_eq, State.setThread, SW]
    obtain ⟨t1, h1, h2, h3⟩ := notifyThreads_get_some s.waiters ht
    have hcl : s.closed = true := I.closeAcqOk tid t ht hpc
    refine InvW.set (InvW.notify I) h1 ?_ (arriveT_pc _ _).2.2.1 ?_ ?_ id ?_
    · intro hh; rw [h2, hpc] at hh; cases hh
    · intro hh; exact absurd hh (arriveT_pc _ _).2.2.2
    · intro g; exact Or.inr (h3 ▸ getish_arriveT g)
    · intro a c hc
      simp only [List.mem_append, List.mem_singleton] at hc
      rcases hc with hc | _
      · exact Or.inl hc
      · exact Or.inr ⟨hcl, I.tail_nil⟩
  · -- sleeping
    exact harr s rfl rfl rfl (fun _ _ h => h)
  · simp at hs

theorem act_invW {s} (I : SW s) (a : Action) : SW (act s a) := by
  cases a with
  | step tid =>
    simp only [act]
    cases hs : step s tid with
    | none => exact I
    | some s' => exact step_invW I hs
  | tick d => exact I

theorem run_invW {s} (I : SW s) (as : List Action) : SW (run s as) := by
  induction as generalizing s with
  | nil => exact I
  | cons a as ih => exact ih (act_invW I a)

theorem filter_le_one {α} (p : α → Bool) (l : List α) (h : (l.filter p).length ≤ 1) (i j : Nat) (a b : α)
    (hi : l[i]? = some a) (hj : l[j]? = some b) (pa : p a = true) (pb : p b = true) : i = j := by
  induction l generalizing i j with
  | nil => simp at hi
  | cons x l ih =>
    have hmem : ∀ (k : Nat) (y : α), l[k]? = some y → p y = true → p x = true → False := by
      intro k y hk py px
      simp [px] at h
      have := h y (List.mem_of_getElem? hk)
      rw [py] at this; cases this
    have hle : (l.filter p).length ≤ 1 := by
      rw [List.filter_cons] at h
      split at h
      · simp only [List.length_cons] at h; omega
      · exact h
    cases i <;> cases j
    · rfl
    · simp at hi hj; subst hi; exact (hmem _ _ hj pb pa).elim
    · simp at hi hj; subst hj; exact (hmem _ _ hi pa pb).elim
    · simp at hi hj; rw [ih hle _ _ hi hj]

theorem init_invW (delay : Nat) (scripts : List (List Op)) (h : singleConsumer scripts) :
    SW (init delay scripts) := by
  have hget : ∀ (i : Nat) t, (init delay scripts).threads[i]? = some t →
      ∃ sc, scripts[i]? = some sc ∧ t = { pc := .begin, script := sc } := by
    intro i t hi
    simp only [init, List.getElem?_map] at hi
    cases hsc : scripts[i]? with
    | none => simp [hsc] at hi
    | some sc => simp [hsc] at hi; exact ⟨sc, rfl, hi.symm⟩
  constructor
  · intro i
    constructor
    · intro hin; simp [init] at hin
    · rintro ⟨t, ht, hp, _⟩
      obtain ⟨sc, _, rfl⟩ := hget i t ht
      cases hp
  · simp [init]
  · intro i j ti tj hi hj gi gj
    obtain ⟨sci, hsci, rfl⟩ := hget i ti hi
    obtain ⟨scj, hscj, rfl⟩ := hget j tj hj
    simp [getish, getPc] at gi gj
    exact filter_le_one hasGet scripts h i j sci scj hsci hscj (by simp [hasGet, gi]) (by simp [hasGet, gj])
  · intro a c hc; simp [init] at hc
  · intro i t hi hp
    obtain ⟨sc, _, rfl⟩ := hget i t hi
    cases hp

theorem close_unblocks (delay : Nat) (scripts : List (List Op)) (as : List Action) (h : singleConsumer scripts)
    (ctid t0 : Nat) (hc : Obs.closed ctid t0 ∈ (run (init delay scripts) as).hist) (tid : Nat) (t : Thread)
    (ht : (run (init delay scripts) as).thread? tid = some t) (hw : t.pc = .getWait) : t.notified = true := by
  have I : SW (run (init delay scripts) as) := run_invW (init_invW delay scripts h) as
  have hws := (I.closedHist ctid t0 hc).2
  cases hn : t.notified with
  | true => rfl
  | false =>
    have : tid ∈ (run (init delay scripts) as).waiters := (I.wIff tid).2 ⟨t, ht, hw, hn⟩
    rw [hws] at this
    simp at this

end WD.ProofsDQ
