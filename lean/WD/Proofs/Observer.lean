/- helper lemmas and the proofs behind WD.Props.C04 (C04 and C05) -/
import WD.Model.Observer
import WD.Spec.ObserverSpec
import WD.Proofs.Observer.Inv1
import WD.Proofs.Observer.LStep
import WD.Proofs.Observer.CStep
import WD.Proofs.Observer.OStep
import WD.Proofs.Observer.SStep
import WD.Proofs.Observer.Counterexamples
namespace WD.ProofsObs
open WD WD.Obs

variable (clients : List (List Op)) (cbs : List (Hid × List (List Op))) (emit : List (Wid × List Nat))
  (sched : List Nat)

theorem routing (p q : List Obs) (h : Hid) (w : Wid) (v u : Nat)
    (hh : (run (init clients cbs emit) sched).hist = p ++ .call h w v u :: q) : registered p h w = true := by
  exact ((inv1_reach clients cbs emit sched).good p _ q hh).1

theorem handlers_eq_registered (h : Hid) (w : Wid) :
    (h ∈ (run (init clients cbs emit) sched).handlersOf w) ↔
      registered (run (init clients cbs emit) sched).hist h w = true := by
  exact (inv1_reach clients cbs emit sched).reg h w

theorem dispatched_was_queued (p q : List Obs) (h : Hid) (w : Wid) (v u : Nat)
    (hh : (run (init clients cbs emit) sched).hist = p ++ .call h w v u :: q) : Obs.enq w v u ∈ p := by
  exact ((inv1_reach clients cbs emit sched).good p _ q hh).2

theorem enq_uids_increasing :
    (enqUids (run (init clients cbs emit) sched).hist).Pairwise (· < ·) := by
  exact good1_enq_pairwise (inv1_reach clients cbs emit sched).good

/- (full statement, FALSE of the model; kept for reference, see the `_partial` variant below)
-- FALSE as stated (`order_at_most_once_false` in Counterexamples.lean); see `order_at_most_once_partial`
theorem order_at_most_once (h : Hid) :
    (callUids h (run (init clients cbs emit) sched).hist).Pairwise (· < ·) := by
  -- refuted
-/

theorem dispatch_copy (p q : List Obs) (u : Nat) (w : Wid) (hs : List Hid)
    (hh : (run (init clients cbs emit) sched).hist = p ++ .dispatch u w hs :: q) (h : Hid) :
    h ∈ hs ↔ registered p h w = true := by
  exact (inv1_reach clients cbs emit sched).good p _ q hh h

/- (full statement, FALSE of the model; kept for reference, see the `_partial` variant below)
-- FALSE as stated (third witness in Counterexamples.lean); see `complete_partial`
theorem complete (p q r : List Obs) (u : Nat) (w : Wid) (hs : List Hid)
    (hh : (run (init clients cbs emit) sched).hist = p ++ .dispatch u w hs :: q ++ .dispatchEnd u :: r)
    (h : Hid) (hm : h ∈ hs) : (∃ v, Obs.call h w v u ∈ q) ∨ Obs.skip h u ∈ q := by
  -- refuted
-/

theorem skip_unregistered (p q : List Obs) (h : Hid) (u : Nat)
    (hh : (run (init clients cbs emit) sched).hist = p ++ .skip h u :: q) :
    ∃ w hs, Obs.dispatch u w hs ∈ p ∧ registered p h w = false := by
  exact (inv1_reach clients cbs emit sched).good p _ q hh

/- (full statement, FALSE of the model; kept for reference, see the `_partial` variant below)
-- FALSE as stated (second witness in Counterexamples.lean); see `unregistered_on_return_partial`
theorem unregistered_on_return (p q : List Obs) (op : Op) (h : Hid) (w : Wid)
    (hh : (run (init clients cbs emit) sched).hist = p ++ .did op "ok" :: q) (hr : removes op h w = true) :
    registered p h w = false := by
  -- refuted
-/

/- (full statement, FALSE of the model; kept for reference, see the `_partial` variant below)
-- FALSE as stated (second witness in Counterexamples.lean); see `nothing_after_return_partial`
theorem nothing_after_return (p q r : List Obs) (op : Op) (h : Hid) (w : Wid) (v u : Nat)
    (hh : (run (init clients cbs emit) sched).hist = p ++ .did op "ok" :: q ++ .call h w v u :: r)
    (hr : removes op h w = true) : Obs.reg h w ∈ q := by
  -- refuted
-/

theorem unschedule_joins_emitter (s : State) (ti : Nat) (t : Thread) (w : Wid) (e : Eid) (o : EmObj) (ei : Nat)
    (ht : s.thread? ti = some t) (hpc : t.pc = .unschedJoin w e) (he : s.em? e = some o) (hti : o.tidx = some ei)
    (hen : enabled s ti = true) : s.threadDone ei = true := by
  simpa [enabled, ht, hpc, he, hti] using hen

/-! ### corrected variants of the four statements that are false as stated (see the counterexamples in
    WD/Proofs/Observer/Counterexamples.lean): they hold along every schedule all of whose steps complete
    (`runOk`: the `fuel` of the model never runs out in the middle of a step and no "impossible" branch of
    the model is taken) -/

theorem unregistered_on_return_partial (hok : runOk (init clients cbs emit) sched = true)
    (p q : List Obs) (op : Op) (h : Hid) (w : Wid)
    (hh : (run (init clients cbs emit) sched).hist = p ++ .did op "ok" :: q) (hr : removes op h w = true) :
    registered p h w = false :=
  (lq_reach clients cbs emit sched hok).good p _ q hh rfl h w hr

theorem nothing_after_return_partial (hok : runOk (init clients cbs emit) sched = true)
    (p q r : List Obs) (op : Op) (h : Hid) (w : Wid) (v u : Nat)
    (hh : (run (init clients cbs emit) sched).hist = p ++ .did op "ok" :: q ++ .call h w v u :: r)
    (hr : removes op h w = true) : Obs.reg h w ∈ q := by
  have h1 : registered (p ++ .did op "ok" :: q) h w = true := routing clients cbs emit sched _ r h w v u hh
  have h2 : registered p h w = false :=
    unregistered_on_return_partial clients cbs emit sched hok p (q ++ .call h w v u :: r) op h w
      (by rw [hh]; simp) hr
  rw [registered_append, List.foldl_cons, h2] at h1
  have h3 : regStep h w false (.did op "ok") = false := rfl
  rw [h3] at h1
  exact reg_mem_of_foldl rfl h1

theorem complete_partial (hok : runOk (init clients cbs emit) sched = true)
    (p q r : List Obs) (u : Nat) (w : Wid) (hs : List Hid)
    (hh : (run (init clients cbs emit) sched).hist = p ++ .dispatch u w hs :: q ++ .dispatchEnd u :: r)
    (h : Hid) (hm : h ∈ hs) : (∃ v, Obs.call h w v u ∈ q) ∨ Obs.skip h u ∈ q :=
  complete_of_good (cx_reach clients cbs emit sched hok).good p q r u w hs hh h hm

/-- needs, in addition, that at most one thread of kind `dispatcher` exists in the final state (threads are
    never removed, so this says that `start` spawned a dispatcher at most once during the run): with two
    `start` calls the statement fails, see `order_at_most_once_false` -/
theorem order_at_most_once_partial (hok : runOk (init clients cbs emit) sched = true)
    (hone : ((run (init clients cbs emit) sched).threads.filter (fun t => t.kind == .dispatcher)).length ≤ 1)
    (h : Hid) : (callUids h (run (init clients cbs emit) sched).hist).Pairwise (· < ·) :=
  goodO_call_pairwise (oc_reach clients cbs emit sched hok (oneD_of_count hone)).good h

end WD.ProofsObs
