/- WD.Rst: no call of the trick blocks for ever.  In a reachable state in which nothing can run and no timed wait is
   pending, every thread has ended - except the debouncer, which may be waiting for a first event while nobody has
   stopped it.  In particular no thread is inside `start()`, `dispatch()` or `stop()`. -/
import WD.Proofs.Restart.StopFlag
namespace WD.ProofsRst
open WD.Rst

/-- waits that end by themselves when the clock advances -/
def timedPc : Pc → Bool
  | .sleeping _ | .spSleep _ _ _ | .wWait _ | .dWaitMore _ => true
  | _ => false

/-- nothing can run and no deadline is pending: the state will never change again -/
def Stuck (s : State) : Prop :=
  (∀ i, enabled s i = false) ∧ (∀ (i : Nat) (t : Thread), s.threads[i]? = some t → timedPc t.pc = false)

theorem Stuck.noMove {s : State} (h : Stuck s) (hm : CanMove s) : False := by
  rcases hm with ⟨i, hi⟩ | ⟨i, ti, kt, dl, a, hti, hpc⟩
  · rw [h.1 i] at hi; cases hi
  · have := h.2 i ti hti; rw [hpc] at this; cases this

theorem Stuck.notEnabled {s : State} (h : Stuck s) {i : Nat} {t : Thread} (ht : s.threads[i]? = some t)
    (he : enabledT s t = true) : False := by
  have := h.1 i
  simp only [enabled, ht] at this
  rw [he] at this; cases this

/-- the invariants of a reachable state -/
structure Reach (s : State) : Prop where
  inv : Inv s
  deb : Deb s
  ch : CH s
  wi : WI s
  fi : FI s

theorem reach_run (cfg : Cfg) (lifetimes : List (Option Nat)) (scripts : List (List Op)) (as : List Action) :
    Reach (run (init cfg lifetimes scripts) as) := by
  obtain ⟨a, b, c, d, e⟩ := run_all (init_inv cfg lifetimes scripts) (init_deb cfg lifetimes scripts)
    (init_ch cfg lifetimes scripts) (init_wi cfg lifetimes scripts) (init_fi cfg lifetimes scripts) as
  exact ⟨a, b, c, d, e⟩

/-- the condition lock is free in a stuck state -/
theorem Stuck.condFree {s : State} (r : Reach s) (h : Stuck s) : s.condHeld = false := by
  cases hh : s.condHeld with
  | false => rfl
  | true =>
    exfalso
    obtain ⟨d, k, pc, _, hkd, _, hcb⟩ := r.ch.held hh
    unfold kp at hkd
    cases htd : s.threads[d]? with
    | none => rw [htd] at hkd; cases hkd
    | some td =>
      rw [htd] at hkd
      simp only [Option.map_some, Option.some.injEq, Prod.mk.injEq] at hkd
      obtain ⟨_, hpc⟩ := hkd
      subst hpc
      cases hpc : td.pc <;> rw [hpc] at hcb <;> simp [cbPc] at hcb
      · exact h.noMove (waitR_progress r.inv d td htd (by rw [hpc]; rfl))
      · exact h.noMove (Or.inl (waitS_progress s d td htd (by rw [hpc]; rfl)))
      · have := h.2 d td htd; rw [hpc] at this; cases this
      · exact h.notEnabled htd (by simp [enabledT, hpc])

/-- a thread whose pc is one of a restart's (a watcher, the debouncer in its callback) is not what a stuck state holds -/
theorem Stuck.notRestartPc {s : State} (r : Reach s) (h : Stuck s) {j : Nat} {tj : Thread} (htj : s.threads[j]? = some tj)
    (hp : tj.pc = .begin ∨ tj.pc = .rAcq ∨ (∃ a, tj.pc = .spAcq a) ∨ (∃ kt dl a, tj.pc = .spSleep kt dl a) ∨ tj.pc = .rStarted ∨
      (∃ dl, tj.pc = .wWait dl) ∨ (∃ dl, tj.pc = .dWaitMore dl) ∨ tj.pc = .dAcq) : False := by
  rcases hp with hp | hp | ⟨a, hp⟩ | ⟨kt, dl, a, hp⟩ | hp | ⟨dl, hp⟩ | ⟨dl, hp⟩ | hp
  · exact h.notEnabled htj (by simp [enabledT, hp])
  · exact h.noMove (waitR_progress r.inv j tj htj (by rw [hp]; rfl))
  · exact h.noMove (Or.inl (waitS_progress s j tj htj (by rw [hp]; rfl)))
  · have := h.2 j tj htj; rw [hp] at this; cases this
  · exact h.notEnabled htj (by simp [enabledT, hp])
  · have := h.2 j tj htj; rw [hp] at this; cases this
  · have := h.2 j tj htj; rw [hp] at this; cases this
  · exact h.notEnabled htj (by simp [enabledT, hp, h.condFree r])

/-- a debouncer whose stop flag is up does not stay in its wait for a first event -/
theorem Stuck.flaggedDebMoves {s : State} (r : Reach s) (h : Stuck s) {d : Nat} {td : Thread} (htd : s.threads[d]? = some td)
    (hk : td.kind = .deb) (hp : td.pc = .dWaitFirst) (hf : s.stopFlagOf d = true) : False := by
  have hkp : kp s d = some (Kind.deb, Pc.dWaitFirst) := by simp [kp, htd, hk, hp]
  have hn := r.fi.c2 d (by simp) hkp hf
  exact h.notEnabled htd (by simp [enabledT, hp, hn, h.condFree r])

/-- **no deadlock**: in a reachable stuck state every thread has ended, or is the debouncer waiting for a first event
    with its stop flag down -/
theorem stuck_idle {s : State} (r : Reach s) (h : Stuck s) (i : Nat) (t : Thread) (ht : s.threads[i]? = some t) :
    t.pc = .done ∨ (t.pc = .dWaitFirst ∧ t.kind = .deb ∧ t.stopFlag = false) := by
  have hme : kp s i = some (t.kind, t.pc) := by simp [kp, ht]
  cases hpc : t.pc with
  | done => exact Or.inl rfl
  | begin => exact (h.notRestartPc r ht (Or.inl hpc)).elim
  | sleeping dl => have := h.2 i t ht; rw [hpc] at this; cases this
  | saSAcq => exact (h.noMove (Or.inl (waitS_progress s i t ht (by rw [hpc]; rfl)))).elim
  | saDebStarted => exact (h.notEnabled ht (by simp [enabledT, hpc])).elim
  | saRAcq => exact (h.noMove (waitR_progress r.inv i t ht (by rw [hpc]; rfl))).elim
  | saStarted => exact (h.notEnabled ht (by simp [enabledT, hpc])).elim
  | evCond => exact (h.notEnabled ht (by simp [enabledT, hpc, h.condFree r])).elim
  | rAcq => exact (h.notRestartPc r ht (Or.inr (Or.inl hpc))).elim
  | spAcq a => exact (h.notRestartPc r ht (Or.inr (Or.inr (Or.inl ⟨a, hpc⟩)))).elim
  | spSleep kt dl a => have := h.2 i t ht; rw [hpc] at this; cases this
  | rStarted => exact (h.notEnabled ht (by simp [enabledT, hpc])).elim
  | stAcq => exact (h.noMove (Or.inl (waitS_progress s i t ht (by rw [hpc]; rfl)))).elim
  | stCond => exact (h.notEnabled ht (by simp [enabledT, hpc, h.condFree r])).elim
  | stRAcq => exact (h.noMove (waitR_progress r.inv i t ht (by rw [hpc]; rfl))).elim
  | wWait dl => have := h.2 i t ht; rw [hpc] at this; cases this
  | dAcq => exact (h.notEnabled ht (by simp [enabledT, hpc, h.condFree r])).elim
  | dWaitMore dl => have := h.2 i t ht; rw [hpc] at this; cases this
  | dWaitFirst =>
    have hk : t.kind = .deb := by
      have := r.ch.dty i _ _ (by simp) hme (by rw [hpc]; rfl)
      cases hk : t.kind <;> rw [hk] at this <;> first | rfl | cases this
    refine Or.inr ⟨rfl, hk, ?_⟩
    cases hf : t.stopFlag with
    | false => rfl
    | true => exact (h.flaggedDebMoves r ht hk hpc (by simp [State.stopFlagOf, ht, hf])).elim
  | stJoinDeb w =>
    exfalso
    -- the join waits for the debouncer thread, which cannot be where a stuck state would leave it
    have hts : s.trickStopping = true := (r.inv.pcs i t.pc (pcOf_eq s i t ht)).2.2.1 (by rw [hpc]; rfl)
    cases hdt : s.debTid with
    | none => exact h.notEnabled ht (by simp [enabledT, hpc, hdt])
    | some d =>
      obtain ⟨pcd, hkd⟩ := r.fi.dk d hdt
      unfold kp at hkd
      cases htd : s.threads[d]? with
      | none => rw [htd] at hkd; cases hkd
      | some td =>
        rw [htd] at hkd
        simp only [Option.map_some, Option.some.injEq, Prod.mk.injEq] at hkd
        obtain ⟨hkk, hpp⟩ := hkd
        have htyp : debPc td.pc = true :=
          r.deb.typed d td.kind td.pc (by simp) (by simp [kp, htd]) (by rw [hkk]; rfl)
        cases hpd : td.pc <;> rw [hpd] at htyp <;> simp [debPc] at htyp
        · exact h.notRestartPc r htd (Or.inl hpd)
        · exact h.notEnabled ht (by simp [enabledT, hpc, hdt, State.isDone, htd, hpd])
        · exact h.notRestartPc r htd (Or.inr (Or.inl hpd))
        · exact h.notRestartPc r htd (Or.inr (Or.inr (Or.inl ⟨_, hpd⟩)))
        · exact h.notRestartPc r htd (Or.inr (Or.inr (Or.inr (Or.inl ⟨_, _, _, hpd⟩))))
        · exact h.notRestartPc r htd (Or.inr (Or.inr (Or.inr (Or.inr (Or.inl hpd)))))
        · exact h.notRestartPc r htd (Or.inr (Or.inr (Or.inr (Or.inr (Or.inr (Or.inr (Or.inr hpd)))))))
        · -- dWaitFirst: its flag is up (or the stopping thread is still at `event_debouncer.stop()`, which can run)
          rcases r.fi.c3 hts d hdt with hf | ⟨j, k', _, hkj⟩
          · exact h.flaggedDebMoves r htd hkk hpd hf
          · unfold kp at hkj
            cases htj : s.threads[j]? with
            | none => rw [htj] at hkj; cases hkj
            | some tj =>
              rw [htj] at hkj
              simp only [Option.map_some, Option.some.injEq, Prod.mk.injEq] at hkj
              exact h.notEnabled htj (by simp [enabledT, hkj.2, h.condFree r])
        · exact h.notRestartPc r htd (Or.inr (Or.inr (Or.inr (Or.inr (Or.inr (Or.inr (Or.inl ⟨_, hpd⟩)))))))
  | stJoinW w rest =>
    exfalso
    obtain ⟨pid, pcw, hkw⟩ := r.wi.wk i _ _ w (by simp) hme (by rw [hpc]; exact List.mem_cons_self)
    unfold kp at hkw
    cases htw : s.threads[w]? with
    | none => rw [htw] at hkw; cases hkw
    | some tw =>
      rw [htw] at hkw
      simp only [Option.map_some, Option.some.injEq, Prod.mk.injEq] at hkw
      obtain ⟨hkk, hpp⟩ := hkw
      have htyp : wPc tw.pc = true := r.wi.ty w tw.kind tw.pc (by simp) (by simp [kp, htw]) (by rw [hkk]; rfl)
      cases hpw : tw.pc <;> rw [hpw] at htyp <;> simp [wPc] at htyp
      · exact h.notRestartPc r htw (Or.inl hpw)
      · exact h.notEnabled ht (by simp [enabledT, hpc, State.isDone, htw, hpw])
      · exact h.notRestartPc r htw (Or.inr (Or.inl hpw))
      · exact h.notRestartPc r htw (Or.inr (Or.inr (Or.inl ⟨_, hpw⟩)))
      · exact h.notRestartPc r htw (Or.inr (Or.inr (Or.inr (Or.inl ⟨_, _, _, hpw⟩))))
      · exact h.notRestartPc r htw (Or.inr (Or.inr (Or.inr (Or.inr (Or.inl hpw)))))
      · exact h.notRestartPc r htw (Or.inr (Or.inr (Or.inr (Or.inr (Or.inr (Or.inl ⟨_, hpw⟩))))))

/-- once the working `stop()` has returned, a stuck state is one in which every thread has ended -/
theorem stuck_all_done_after_stop {s : State} (r : Reach s) (h : Stuck s) (hs : ∃ o ∈ s.hist, isStopRet o = true)
    (i : Nat) (t : Thread) (ht : s.threads[i]? = some t) : t.pc = .done := by
  rcases stuck_idle r h i t ht with hd | ⟨hp, hk, _⟩
  · exact hd
  · exact r.deb.gone (Or.inr hs) i t.kind t.pc (by simp) (by simp [kp, ht]) (by rw [hk]; rfl)

/-- `Stuck`, executable -/
def stuckB (s : State) : Bool :=
  (List.range s.threads.length).all (fun i => !enabled s i) && s.threads.all (fun t => !timedPc t.pc)

theorem stuck_of_stuckB {s : State} (h : stuckB s = true) : Stuck s := by
  simp only [stuckB, Bool.and_eq_true, List.all_eq_true, List.mem_range, Bool.not_eq_true'] at h
  refine ⟨fun i => ?_, fun i t ht => ?_⟩
  · by_cases hi : i < s.threads.length
    · exact h.1 i hi
    · simp [enabled, List.getElem?_eq_none (Nat.le_of_not_lt hi)]
  · exact h.2 t (List.mem_of_getElem? ht)

end WD.ProofsRst
