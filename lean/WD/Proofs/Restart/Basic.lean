/- WD.Rst: projections of the state-update helpers (simp set), pc classification, history predicates -/
import WD.Model.Restart
namespace WD.ProofsRst
open WD.Rst

/-! ### pc classification -/

/-- pcs at which the thread holds `_restart_lock` -/
def holds : Pc → Bool
  | .saStarted | .spAcq _ | .spSleep _ _ _ | .rStarted => true
  | _ => false

def isSleep : Pc → Bool
  | .spSleep _ _ _ => true
  | _ => false

def afterIsStop : After → Bool
  | .stop _ => true
  | .restart => false

/-- pcs inside the working part of `stop()` (the flag is up) -/
def inStop : Pc → Bool
  | .stCond | .stRAcq | .stJoinDeb _ | .stJoinW _ _ => true
  | .spAcq a | .spSleep _ _ a => afterIsStop a
  | _ => false

/-- pcs of `stop()` after its `_stop_process` -/
def pastStop : Pc → Bool
  | .stJoinDeb _ | .stJoinW _ _ => true
  | _ => false

def pcOf (s : State) (j : Nat) : Option Pc := (s.threads[j]?).map (·.pc)

/-! ### history predicates -/

def isSpawn : Obs → Bool | .spawn _ _ => true | _ => false
def isStopRet : Obs → Bool | .stopRet _ _ => true | _ => false

/-- nothing is spawned after the working `stop()` returned -/
def NSAS (h : List Obs) : Prop :=
  ∀ p q o, h = p ++ o :: q → isStopRet o = true → ∀ o' ∈ q, isSpawn o' = false

theorem snoc_split {α : Type} {h p q : List α} {o x : α} (e : h ++ [o] = p ++ x :: q) :
    (q = [] ∧ h = p ∧ o = x) ∨ ∃ q', q = q' ++ [o] ∧ h = p ++ x :: q' := by
  rcases List.eq_nil_or_concat q with rfl | ⟨q', o', rfl⟩
  · left
    have := List.append_inj' e (by simp)
    simp_all
  · right
    rw [List.concat_eq_append] at e ⊢
    have e' : h ++ [o] = (p ++ x :: q') ++ [o'] := by simpa using e
    have := List.append_inj' e' (by simp)
    refine ⟨q', ?_, this.1⟩
    simp_all

theorem NSAS_nil : NSAS [] := by
  intro p q o e; simp at e

theorem NSAS_snoc_nonspawn {h : List Obs} {o : Obs} (H : NSAS h) (ho : isSpawn o = false) : NSAS (h ++ [o]) := by
  intro p q x e hx o' hm
  rcases snoc_split e with ⟨rfl, _, _⟩ | ⟨q', rfl, e'⟩
  · simp at hm
  · rcases List.mem_append.1 hm with hm | hm
    · exact H p q' x e' hx o' hm
    · simp at hm; subst hm; exact ho

theorem NSAS_snoc_nostop {h : List Obs} {o : Obs} (H : ∀ x ∈ h, isStopRet x = false) : NSAS (h ++ [o]) := by
  intro p q x e hx o' hm
  rcases snoc_split e with ⟨rfl, _, _⟩ | ⟨q', rfl, e'⟩
  · simp at hm
  · have := H x (by rw [e']; simp)
    simp [this] at hx

/-! ### projections -/

section proj
variable (s : State) (i : Nat) (t : Thread) (pc : Pc) (o : Obs)

@[simp] theorem log_threads : (s.log o).threads = s.threads := rfl
@[simp] theorem log_process : (s.log o).process = s.process := rfl
@[simp] theorem log_procs : (s.log o).procs = s.procs := rfl
@[simp] theorem log_clock : (s.log o).clock = s.clock := rfl
@[simp] theorem log_owner : (s.log o).restartOwner = s.restartOwner := rfl
@[simp] theorem log_procStopping : (s.log o).procStopping = s.procStopping := rfl
@[simp] theorem log_trickStopping : (s.log o).trickStopping = s.trickStopping := rfl
@[simp] theorem log_hist : (s.log o).hist = s.hist ++ [o] := rfl
@[simp] theorem log_debTid : (s.log o).debTid = s.debTid := rfl
@[simp] theorem log_watcher : (s.log o).watcher = s.watcher := rfl
@[simp] theorem log_watchers : (s.log o).watchers = s.watchers := rfl
@[simp] theorem log_cfg : (s.log o).cfg = s.cfg := rfl

@[simp] theorem setThread_threads : (s.setThread i t).threads = s.threads.set i t := rfl
@[simp] theorem setThread_process : (s.setThread i t).process = s.process := rfl
@[simp] theorem setThread_procs : (s.setThread i t).procs = s.procs := rfl
@[simp] theorem setThread_clock : (s.setThread i t).clock = s.clock := rfl
@[simp] theorem setThread_owner : (s.setThread i t).restartOwner = s.restartOwner := rfl
@[simp] theorem setThread_procStopping : (s.setThread i t).procStopping = s.procStopping := rfl
@[simp] theorem setThread_trickStopping : (s.setThread i t).trickStopping = s.trickStopping := rfl
@[simp] theorem setThread_hist : (s.setThread i t).hist = s.hist := rfl
@[simp] theorem setThread_debTid : (s.setThread i t).debTid = s.debTid := rfl
@[simp] theorem setThread_watcher : (s.setThread i t).watcher = s.watcher := rfl
@[simp] theorem setThread_watchers : (s.setThread i t).watchers = s.watchers := rfl
@[simp] theorem setThread_cfg : (s.setThread i t).cfg = s.cfg := rfl

@[simp] theorem setPc_process : (s.setPc i pc).process = s.process := by unfold State.setPc; split <;> rfl
@[simp] theorem setPc_procs : (s.setPc i pc).procs = s.procs := by unfold State.setPc; split <;> rfl
@[simp] theorem setPc_clock : (s.setPc i pc).clock = s.clock := by unfold State.setPc; split <;> rfl
@[simp] theorem setPc_owner : (s.setPc i pc).restartOwner = s.restartOwner := by unfold State.setPc; split <;> rfl
@[simp] theorem setPc_procStopping : (s.setPc i pc).procStopping = s.procStopping := by unfold State.setPc; split <;> rfl
@[simp] theorem setPc_trickStopping : (s.setPc i pc).trickStopping = s.trickStopping := by unfold State.setPc; split <;> rfl
@[simp] theorem setPc_hist : (s.setPc i pc).hist = s.hist := by unfold State.setPc; split <;> rfl
@[simp] theorem setPc_debTid : (s.setPc i pc).debTid = s.debTid := by unfold State.setPc; split <;> rfl
@[simp] theorem setPc_watcher : (s.setPc i pc).watcher = s.watcher := by unfold State.setPc; split <;> rfl
@[simp] theorem setPc_watchers : (s.setPc i pc).watchers = s.watchers := by unfold State.setPc; split <;> rfl
@[simp] theorem setPc_cfg : (s.setPc i pc).cfg = s.cfg := by unfold State.setPc; split <;> rfl
@[simp] theorem setPc_length : (s.setPc i pc).threads.length = s.threads.length := by
  unfold State.setPc; split <;> simp

@[simp] theorem setStopFlag_process : (s.setStopFlag i).process = s.process := by unfold State.setStopFlag; split <;> rfl
@[simp] theorem setStopFlag_procs : (s.setStopFlag i).procs = s.procs := by unfold State.setStopFlag; split <;> rfl
@[simp] theorem setStopFlag_clock : (s.setStopFlag i).clock = s.clock := by unfold State.setStopFlag; split <;> rfl
@[simp] theorem setStopFlag_owner : (s.setStopFlag i).restartOwner = s.restartOwner := by unfold State.setStopFlag; split <;> rfl
@[simp] theorem setStopFlag_procStopping : (s.setStopFlag i).procStopping = s.procStopping := by unfold State.setStopFlag; split <;> rfl
@[simp] theorem setStopFlag_trickStopping : (s.setStopFlag i).trickStopping = s.trickStopping := by unfold State.setStopFlag; split <;> rfl
@[simp] theorem setStopFlag_hist : (s.setStopFlag i).hist = s.hist := by unfold State.setStopFlag; split <;> rfl
@[simp] theorem setStopFlag_debTid : (s.setStopFlag i).debTid = s.debTid := by unfold State.setStopFlag; split <;> rfl
@[simp] theorem setStopFlag_watcher : (s.setStopFlag i).watcher = s.watcher := by unfold State.setStopFlag; split <;> rfl
@[simp] theorem setStopFlag_watchers : (s.setStopFlag i).watchers = s.watchers := by unfold State.setStopFlag; split <;> rfl
@[simp] theorem setStopFlag_cfg : (s.setStopFlag i).cfg = s.cfg := by unfold State.setStopFlag; split <;> rfl
@[simp] theorem setStopFlag_length : (s.setStopFlag i).threads.length = s.threads.length := by
  unfold State.setStopFlag; split <;> simp

end proj

/-! ### pcOf under the updates -/

theorem pcOf_setThread (s : State) (i j : Nat) (t : Thread) :
    pcOf (s.setThread i t) j = if i = j ∧ i < s.threads.length then some t.pc else pcOf s j := by
  unfold pcOf
  simp only [setThread_threads, List.getElem?_set]
  by_cases h : i = j
  · subst h
    by_cases hl : i < s.threads.length
    · simp [hl]
    · simp [hl]
  · simp [h]

theorem pcOf_setPc (s : State) (i j : Nat) (pc : Pc) :
    pcOf (s.setPc i pc) j = if i = j ∧ i < s.threads.length then some pc else pcOf s j := by
  unfold State.setPc
  split
  · next t ht =>
    rw [pcOf_setThread]
  · next hn =>
    have : ¬ i < s.threads.length := by
      intro hl; rw [List.getElem?_eq_getElem hl] at hn; cases hn
    simp [this]

theorem pcOf_setPc_ne (s : State) (i j : Nat) (pc : Pc) (h : j ≠ i) : pcOf (s.setPc i pc) j = pcOf s j := by
  rw [pcOf_setPc]; simp [Ne.symm h]

theorem pcOf_setStopFlag (s : State) (i j : Nat) : pcOf (s.setStopFlag i) j = pcOf s j := by
  unfold State.setStopFlag
  split
  · next t ht =>
    rw [pcOf_setThread]
    split
    · next h => obtain ⟨rfl, _⟩ := h; simp [pcOf, ht]
    · rfl
  · rfl

theorem pcOf_lt (s : State) (j : Nat) (pc : Pc) (h : pcOf s j = some pc) : j < s.threads.length := by
  unfold pcOf at h
  by_cases hl : j < s.threads.length
  · exact hl
  · rw [List.getElem?_eq_none (by omega)] at h; cases h

theorem pcOf_eq (s : State) (j : Nat) (t : Thread) (h : s.threads[j]? = some t) : pcOf s j = some t.pc := by
  simp [pcOf, h]

end WD.ProofsRst
