/- WD.Rst: "with all its helper threads gone", the process watchers.  `stop()` joins EVERY watcher that may still be
   running (`_process_watchers`: the list is pruned of ended watchers whenever a new one is started), so once the working
   `stop()` has returned every watcher thread ever started has ended - not only been told to stop (D29).
   Invariant: (live) a watcher thread that has not ended is on the list; (cc) a `stop()` on its way carries every watcher
   thread that has not ended; (ret) after the working `stop()` returned none is left; (tsc/tsr) the trick is stopping while
   a `stop()` is on its way and afterwards, so no new watcher is started behind its back. -/
import WD.Proofs.Restart.Joins
namespace WD.ProofsRst
open WD.Rst

/-- pcs of `stop()` that carry the list of watchers to join -/
def carries : Pc → Bool
  | .stJoinW _ _ | .stJoinDeb _ | .spAcq (.stop _) | .spSleep _ _ (.stop _) => true
  | _ => false

theorem inStop_of_carries {pc : Pc} (h : carries pc = true) : inStop pc = true := by
  cases pc with
  | spAcq a => cases a <;> first | rfl | cases h
  | spSleep _ _ a => cases a <;> first | rfl | cases h
  | _ => first | rfl | cases h

/-- the working `stop()` has returned -/
def retd (s : State) : Prop := ∃ o ∈ s.hist, isStopRet o = true

/-- a watcher thread that has not ended -/
def liveW (s : State) (u : Nat) : Prop := ∃ pid pc, kp s u = some (Kind.watcher pid, pc) ∧ pc ≠ .done

structure JX (s : State) (x : Option Nat) : Prop where
  live : ∀ u, liveW s u → u ∈ s.watchers
  cc : ∀ j k pc, some j ≠ x → kp s j = some (k, pc) → carries pc = true → ∀ u, liveW s u → u ∈ carried pc
  ret : retd s → ∀ u, ¬ liveW s u
  tsc : ∀ j k pc, some j ≠ x → kp s j = some (k, pc) → inStop pc = true → s.trickStopping = true
  tsr : retd s → s.trickStopping = true

abbrev JI (s : State) : Prop := JX s none

/-- in the middle of a step of thread `i`, of kind `k`, which has not ended -/
structure JCtx (s : State) (i : Nat) (k : Kind) : Prop where
  x : JX s (some i)
  me : ∃ pc, kp s i = some (k, pc) ∧ pc ≠ .done

theorem liveW_back {s s' : State} {i : Nat} {k : Kind} (hme0 : ∃ pc, kp s i = some (k, pc) ∧ pc ≠ .done)
    (hkp : ∀ j, j ≠ i → kp s' j = kp s j) (hme : ∃ pc, kp s' i = some (k, pc)) {u : Nat} (h : liveW s' u) : liveW s u := by
  obtain ⟨pid, pc, hu, hnd⟩ := h
  by_cases hui : u = i
  · subst hui
    obtain ⟨pc1, h1⟩ := hme
    rw [h1] at hu; cases hu
    obtain ⟨pc0, h0, hnd0⟩ := hme0
    exact ⟨pid, pc0, h0, hnd0⟩
  · exact ⟨pid, pc, by rw [← hkp u hui]; exact hu, hnd⟩

theorem liveW_congr {s s' : State} (h1 : s'.threads = s.threads) {u : Nat} (h : liveW s' u) : liveW s u := by
  obtain ⟨pid, pc, hu, hnd⟩ := h
  exact ⟨pid, pc, by simpa [kp, h1] using hu, hnd⟩

theorem JCtx.transfer {s s' : State} {i : Nat} {k : Kind} (c : JCtx s i k)
    (hkp : ∀ j, j ≠ i → kp s' j = kp s j) (hme : ∃ pc, kp s' i = some (k, pc) ∧ pc ≠ .done)
    (hl : s'.watchers = s.watchers := by simp) (hh : retd s' → retd s := by intro h; simpa [retd] using h)
    (ht : s.trickStopping = true → s'.trickStopping = true := by intro h; simpa using h) : JCtx s' i k := by
  have back : ∀ {u}, liveW s' u → liveW s u :=
    fun h => liveW_back c.me hkp (by obtain ⟨pc, h, _⟩ := hme; exact ⟨pc, h⟩) h
  refine ⟨⟨?_, ?_, ?_, ?_, ?_⟩, hme⟩
  · intro u hu; rw [hl]; exact c.x.live u (back hu)
  · intro j k' pc hj hkj hc u hu
    have hji : j ≠ i := fun e => hj (by rw [e])
    exact c.x.cc j k' pc hj (by rw [← hkp j hji]; exact hkj) hc u (back hu)
  · intro hr u hu; exact c.x.ret (hh hr) u (back hu)
  · intro j k' pc hj hkj hs
    have hji : j ≠ i := fun e => hj (by rw [e])
    exact ht (c.x.tsc j k' pc hj (by rw [← hkp j hji]; exact hkj) hs)
  · intro hr; exact ht (c.x.tsr (hh hr))

theorem JCtx.congr {s s' : State} {i : Nat} {k : Kind} (c : JCtx s i k) (h1 : s'.threads = s.threads)
    (h2 : s'.watchers = s.watchers := by rfl) (h3 : s'.hist = s.hist := by rfl)
    (h4 : s'.trickStopping = s.trickStopping := by rfl) : JCtx s' i k :=
  c.transfer (fun j _ => by simp [kp, h1]) (by obtain ⟨pc, h, hn⟩ := c.me; exact ⟨pc, by simpa [kp, h1] using h, hn⟩) h2
    (fun h => by simpa [retd, h3] using h) (fun h => by rw [h4]; exact h)

/-- the step ends: thread `i` gets its new pc (possibly `done`) -/
theorem JCtx.finish {s s' : State} {i : Nat} {k : Kind} (c : JCtx s i k) (pc : Pc)
    (hkp : ∀ j, j ≠ i → kp s' j = kp s j) (hme : kp s' i = some (k, pc))
    (hl : s'.watchers = s.watchers) (hh : retd s' → retd s) (ht : s'.trickStopping = s.trickStopping)
    (h1 : inStop pc = true → s.trickStopping = true)
    (h2 : carries pc = true → ∀ u, liveW s u → u ∈ carried pc) : JI s' := by
  have back : ∀ {u}, liveW s' u → liveW s u := fun h => liveW_back c.me hkp ⟨pc, hme⟩ h
  refine ⟨?_, ?_, ?_, ?_, ?_⟩
  · intro u hu; rw [hl]; exact c.x.live u (back hu)
  · intro j k' pc' _ hkj hc u hu
    by_cases hji : j = i
    · subst hji; rw [hme] at hkj; cases hkj; exact h2 hc u (back hu)
    · exact c.x.cc j k' pc' (by simp [hji]) (by rw [← hkp j hji]; exact hkj) hc u (back hu)
  · intro hr u hu; exact c.x.ret (hh hr) u (back hu)
  · intro j k' pc' _ hkj hs
    rw [ht]
    by_cases hji : j = i
    · subst hji; rw [hme] at hkj; cases hkj; exact h1 hs
    · exact c.x.tsc j k' pc' (by simp [hji]) (by rw [← hkp j hji]; exact hkj) hs
  · intro hr; rw [ht]; exact c.x.tsr (hh hr)

theorem JCtx.close {s : State} {i : Nat} {k : Kind} (c : JCtx s i k) (pc : Pc) (hme : kp s i = some (k, pc))
    (h1 : inStop pc = true → s.trickStopping = true)
    (h2 : carries pc = true → ∀ u, liveW s u → u ∈ carried pc) : JI s :=
  c.finish pc (fun _ _ => rfl) hme rfl (fun h => h) rfl h1 h2

theorem JCtx.setPc_close {s : State} {i : Nat} {k : Kind} (c : JCtx s i k) (pc : Pc)
    (h1 : inStop pc = true → s.trickStopping = true)
    (h2 : carries pc = true → ∀ u, liveW s u → u ∈ carried pc) : JI (s.setPc i pc) := by
  obtain ⟨pc0, h0, _⟩ := c.me
  have hkp : ∀ j, j ≠ i → kp (s.setPc i pc) j = kp s j := fun j hj => by rw [kp_setPc]; simp [Ne.symm hj]
  have hme : kp (s.setPc i pc) i = some (k, pc) := by rw [kp_setPc]; simp [h0]
  exact c.finish pc hkp hme (by simp) (fun h => by simpa [retd] using h) (by simp) h1 h2

/-- a pc outside `stop()` -/
theorem JCtx.setPc_plain {s : State} {i : Nat} {k : Kind} (c : JCtx s i k) (pc : Pc)
    (h1 : inStop pc = false) (h2 : carries pc = false) : JI (s.setPc i pc) :=
  c.setPc_close pc (fun h => by rw [h1] at h; cases h) (fun h => by rw [h2] at h; cases h)

theorem retd_log {s : State} {o : Obs} (ho : isStopRet o = false) (h : retd (s.log o)) : retd s := by
  obtain ⟨x, hx, hr⟩ := h
  simp only [State.log, List.mem_append, List.mem_singleton] at hx
  rcases hx with hx | hx
  · exact ⟨x, hx, hr⟩
  · rw [hx, ho] at hr; cases hr

theorem JCtx.log {s : State} {i : Nat} {k : Kind} (c : JCtx s i k) (o : Obs) (ho : isStopRet o = false) :
    JCtx (s.log o) i k :=
  c.transfer (fun j _ => rfl) c.me rfl (retd_log ho) (fun h => h)

/-- the working `stop()` returns: no watcher thread is left, the trick is stopping -/
theorem JCtx.logRet {s : State} {i : Nat} {k : Kind} (c : JCtx s i k) (o : Obs) (hall : ∀ u, ¬ liveW s u)
    (hts : s.trickStopping = true) : JCtx (s.log o) i k := by
  refine ⟨⟨?_, ?_, ?_, ?_, ?_⟩, c.me⟩
  · intro u hu; exact absurd hu (hall u)
  · intro j k' pc _ _ _ u hu; exact absurd hu (hall u)
  · intro _ u hu; exact hall u hu
  · intro _ _ _ _ _ _; exact hts
  · intro _; exact hts

theorem retd_kill {s : State} {pid sig : Nat} (h : retd (s.kill pid sig)) : retd s := by
  unfold State.kill at h
  split at h
  · exact h
  · exact retd_log (s := { s with procs := _ }) rfl h

theorem JCtx.setStopFlag {s : State} {i : Nat} {k : Kind} (c : JCtx s i k) (w : Nat) : JCtx (s.setStopFlag w) i k :=
  c.transfer (fun j _ => kp_setStopFlag s w j) (by rw [kp_setStopFlag]; exact c.me)

theorem JCtx.stopWatcher {s : State} {i : Nat} {k : Kind} (c : JCtx s i k) : JCtx s.stopWatcher i k :=
  c.transfer (fun j _ => kp_stopWatcher s j) (by rw [kp_stopWatcher]; exact c.me)

theorem JCtx.kill {s : State} {i : Nat} {k : Kind} (c : JCtx s i k) (pid sig : Nat) : JCtx (s.kill pid sig) i k :=
  c.transfer (fun j _ => kp_kill s pid sig j) (by rw [kp_kill]; exact c.me) (by simp) retd_kill

theorem JCtx.notify {s : State} {i : Nat} {k : Kind} (c : JCtx s i k) : JCtx s.notify i k := by
  rcases notify_eq s with e | e <;> rw [e]
  · exact c
  · exact c.congr rfl

theorem liveW_setStopFlag {s : State} (v : Nat) {u : Nat} (h : liveW (s.setStopFlag v) u) : liveW s u := by
  obtain ⟨pid, pc, hw, hn⟩ := h; exact ⟨pid, pc, by rw [← kp_setStopFlag s v]; exact hw, hn⟩
theorem liveW_stopWatcher {s : State} {u : Nat} (h : liveW s.stopWatcher u) : liveW s u := by
  obtain ⟨pid, pc, hw, hn⟩ := h; exact ⟨pid, pc, by rw [← kp_stopWatcher s]; exact hw, hn⟩
theorem liveW_kill {s : State} (pid sig : Nat) {u : Nat} (h : liveW (s.kill pid sig) u) : liveW s u := by
  obtain ⟨p, pc, hw, hn⟩ := h; exact ⟨p, pc, by rw [← kp_kill s pid sig]; exact hw, hn⟩

/-- a thread that is not a watcher is appended at `begin` -/
theorem JCtx.append {s s' : State} {i : Nat} {k : Kind} (c : JCtx s i k) (t0 : Thread) (h0k : isWatcher t0.kind = false)
    (h0b : t0.pc = .begin) (h1 : s'.threads = s.threads ++ [t0]) (h2 : s'.watchers = s.watchers) (h3 : s'.hist = s.hist)
    (h4 : s'.trickStopping = s.trickStopping) : JCtx s' i k := by
  obtain ⟨pc0, h0, hnd0⟩ := c.me
  have hil := kp_lt h0
  have hold : ∀ j, j < s.threads.length → kp s' j = kp s j := fun j hj => by rw [kp_append _ h1]; simp [hj]
  have hnew : ∀ j x, ¬ j < s.threads.length → kp s' j = some x → x = (t0.kind, Pc.begin) := by
    intro j x hj hk
    rw [kp_append _ h1] at hk
    simp only [hj, if_false] at hk
    split at hk
    · rw [h0b] at hk; exact (Option.some.inj hk).symm
    · cases hk
  have back : ∀ {u}, liveW s' u → liveW s u := by
    intro u ⟨pid, pc, hu, hn⟩
    by_cases hl : u < s.threads.length
    · exact ⟨pid, pc, by rw [← hold u hl]; exact hu, hn⟩
    · have := hnew u _ hl hu
      simp only [Prod.mk.injEq] at this
      rw [← this.1] at h0k; cases h0k
  have hr : retd s' → retd s := fun h => by simpa [retd, h3] using h
  refine ⟨⟨?_, ?_, ?_, ?_, ?_⟩, ⟨pc0, by rw [hold i hil]; exact h0, hnd0⟩⟩
  · intro u hu; rw [h2]; exact c.x.live u (back hu)
  · intro j k' pc hj hkj hc u hu
    by_cases hl : j < s.threads.length
    · exact c.x.cc j k' pc hj (by rw [← hold j hl]; exact hkj) hc u (back hu)
    · have := hnew j _ hl hkj; cases this; cases hc
  · intro h u hu; exact c.x.ret (hr h) u (back hu)
  · intro j k' pc hj hkj hs
    rw [h4]
    by_cases hl : j < s.threads.length
    · exact c.x.tsc j k' pc hj (by rw [← hold j hl]; exact hkj) hs
    · have := hnew j _ hl hkj; cases this; cases hs
  · intro h; rw [h4]; exact c.x.tsr (hr h)

theorem isDone_false_of_kp {s : State} {u : Nat} {k : Kind} {pc : Pc} (h : kp s u = some (k, pc)) (hn : pc ≠ .done) :
    s.isDone u = false := by
  unfold kp at h
  unfold State.isDone
  cases ht : s.threads[u]? with
  | none => rw [ht] at h; cases h
  | some t =>
    rw [ht] at h
    simp only [Option.map_some, Option.some.injEq, Prod.mk.injEq] at h
    simp only
    rw [h.2]
    cases pc <;> first | rfl | exact absurd rfl hn

/-- the watcher of a freshly spawned child is appended; the list is pruned of the watchers that have ended -/
theorem JCtx.appendWatcher {s : State} {i : Nat} {k : Kind} (c : JCtx s i k) (pid : Nat) (hts : s.trickStopping = false) :
    JCtx (withWatcher s pid) i k := by
  obtain ⟨pc0, h0, hnd0⟩ := c.me
  have hil := kp_lt h0
  have h1 : (withWatcher s pid).threads = s.threads ++ [{ kind := .watcher pid, pc := .begin }] := rfl
  have hold : ∀ j, j < s.threads.length → kp (withWatcher s pid) j = kp s j := fun j hj => by rw [kp_append _ h1]; simp [hj]
  have hnew : ∀ j x, ¬ j < s.threads.length → kp (withWatcher s pid) j = some x → j = s.threads.length ∧ x = (Kind.watcher pid, Pc.begin) := by
    intro j x hj hk
    rw [kp_append _ h1] at hk
    simp only [hj, if_false] at hk
    split at hk
    · next e => exact ⟨e, (Option.some.inj hk).symm⟩
    · cases hk
  have nr : ¬ retd s := fun h => by have := c.x.tsr h; rw [hts] at this; cases this
  refine ⟨⟨?_, ?_, ?_, ?_, ?_⟩, ⟨pc0, by rw [hold i hil]; exact h0, hnd0⟩⟩
  · intro u ⟨p, pc, hu, hn⟩
    show u ∈ s.watchers.filter (fun x => !s.isDone x) ++ [s.threads.length]
    by_cases hl : u < s.threads.length
    · rw [hold u hl] at hu
      refine List.mem_append_left _ (List.mem_filter.2 ⟨c.x.live u ⟨p, pc, hu, hn⟩, ?_⟩)
      rw [isDone_false_of_kp hu hn]; rfl
    · rw [(hnew u _ hl hu).1]; simp
  · intro j k' pc hj hkj hc u _
    by_cases hl : j < s.threads.length
    · have := c.x.tsc j k' pc hj (by rw [← hold j hl]; exact hkj) (inStop_of_carries hc)
      rw [hts] at this; cases this
    · have := (hnew j _ hl hkj).2; cases this; cases hc
  · intro h; exact absurd (by simpa [retd, withWatcher] using h) nr
  · intro j k' pc hj hkj hs
    by_cases hl : j < s.threads.length
    · have := c.x.tsc j k' pc hj (by rw [← hold j hl]; exact hkj) hs
      rw [hts] at this; cases this
    · have := (hnew j _ hl hkj).2; cases this; cases hs
  · intro h; exact absurd (by simpa [retd, withWatcher] using h) nr

/-! ### the helpers of a step -/

theorem arrive_ji {s : State} {i : Nat} {k : Kind} (c : JCtx s i k) : JI (arrive s i) := by
  obtain ⟨pc0, h0, _⟩ := c.me
  have hil := kp_lt h0
  unfold arrive
  split
  · next hn => rw [List.getElem?_eq_getElem hil] at hn; cases hn
  · next t ht =>
    have htk : t.kind = k := by simp [kp, ht] at h0; exact h0.1
    have fin : ∀ (t' : Thread), t'.kind = t.kind → inStop t'.pc = false → carries t'.pc = false → JI (s.setThread i t') := by
      intro t' hk' h1 h2
      have hkp : ∀ j, j ≠ i → kp (s.setThread i t') j = kp s j := fun j hj => by rw [kp_setThread]; simp [Ne.symm hj]
      have hme : kp (s.setThread i t') i = some (k, t'.pc) := by rw [kp_setThread]; simp [hil, hk', htk]
      exact c.finish t'.pc hkp hme rfl (fun h => h) rfl (fun h => by rw [h1] at h; cases h) (fun h => by rw [h2] at h; cases h)
    split
    · exact fin _ rfl rfl rfl
    · exact fin _ rfl rfl rfl
    · exact fin _ rfl rfl rfl
    · exact fin _ rfl (by simp only; split <;> rfl) (by simp only; split <;> rfl)
    · exact fin _ rfl rfl rfl

theorem debHead_ji {s : State} {i : Nat} {k : Kind} (c : JCtx s i k) : JI (debHead s i) := by
  unfold debHead
  split
  · exact (c.congr (s' := { s with condHeld := false, notified := false }) rfl).setPc_plain _ rfl rfl
  · split
    · exact (c.congr (s' := { s with condHeld := false, notified := false }) rfl).setPc_plain _ rfl rfl
    · exact (c.congr (s' := { s with condHeld := false }) rfl).setPc_plain _ rfl rfl

theorem debDeliver_ji {s : State} {i : Nat} {k : Kind} (c : JCtx s i k) : JI (debDeliver s i) := by
  unfold debDeliver
  split
  · exact (c.congr (s' := { s with condHeld := false }) rfl).setPc_plain _ rfl rfl
  · exact (c.congr (s' := { s with events := 0 }) rfl).setPc_plain _ rfl rfl

theorem afterRestart_ji {s : State} {i : Nat} {k : Kind} (c : JCtx s i k) : JI (afterRestart s i) := by
  obtain ⟨pc0, h0, _⟩ := c.me
  have hil := kp_lt h0
  unfold afterRestart
  split
  · next hn => rw [List.getElem?_eq_getElem hil] at hn; cases hn
  · next t ht =>
    split
    · exact arrive_ji (c.log _ rfl)
    · exact c.setPc_plain _ rfl rfl
    · exact debHead_ji c

theorem restartFinish_ji {s : State} {i : Nat} {k : Kind} (c : JCtx s i k) : JI (restartFinish s i) :=
  afterRestart_ji (c.congr (s' := { s with restartCount := s.restartCount + 1, restartOwner := none }) rfl)

theorem stopFinish_ji {s : State} {i : Nat} {k : Kind} (c : JCtx s i k) (hall : ∀ u, ¬ liveW s u)
    (hts : s.trickStopping = true) : JI (stopFinish s i) := by
  unfold stopFinish
  exact arrive_ji (c.logRet _ hall hts)

theorem watcherLoop_ji {s : State} {i : Nat} {k : Kind} (pid : Nat) (c : JCtx s i k) : JI (watcherLoop s i pid) := by
  unfold watcherLoop
  split
  · exact c.setPc_plain _ rfl rfl
  · split
    · exact c.setPc_plain _ rfl rfl
    · exact c.setPc_plain _ rfl rfl

theorem JCtx.spawn {s : State} {i : Nat} {k : Kind} (c : JCtx s i k) : JCtx s.spawn i k := by
  have c1 : JCtx (preSpawn s) i k := c.congr rfl
  exact c1.log (.spawn s.procs.length s.clock) rfl

theorem startProcess_ji {s : State} {i : Nat} {k : Kind} (inStart : Bool) (c : JCtx s i k) : JI (startProcess s i inStart) := by
  have fin : ∀ s' : State, JCtx s' i k →
      JI (if inStart = true then arrive (({ s' with restartOwner := none } : State).log (.started i s'.clock)) i
           else restartFinish s' i) := by
    intro s' c'
    split
    · exact arrive_ji ((c'.congr (s' := { s' with restartOwner := none }) rfl).log _ rfl)
    · exact restartFinish_ji c'
  unfold startProcess
  simp only
  split
  · exact fin s c
  · next hts =>
    have hts' : s.trickStopping = false := by simpa using hts
    split
    · have c2 : JCtx (withWatcher s.spawn s.procs.length) i k := c.spawn.appendWatcher _ (by simpa [State.spawn, State.log] using hts')
      exact c2.setPc_plain (if inStart = true then Pc.saStarted else Pc.rStarted) (by split <;> rfl) (by split <;> rfl)
    · exact fin s.spawn c.spawn

theorem afterStopProc_ji {s : State} {i : Nat} {k : Kind} (a : After) (c : JCtx s i k)
    (ha : ∀ ws, a = .stop ws → (∀ u, liveW s u → u ∈ ws) ∧ s.trickStopping = true) : JI (afterStopProc s i a) := by
  cases a with
  | restart => exact startProcess_ji false c
  | stop ws =>
    obtain ⟨hall, hts⟩ := ha ws rfl
    have c1 : JCtx ({ s with restartOwner := none } : State) i k := c.congr rfl
    have hall' : ∀ u, liveW ({ s with restartOwner := none } : State) u → u ∈ ws := fun u h => hall u (liveW_congr rfl h)
    unfold afterStopProc
    simp only
    split
    · exact c1.setPc_close _ (fun _ => hts) (fun _ => hall')
    · split
      · exact c1.setPc_close _ (fun _ => hts) (fun _ => hall')
      · exact stopFinish_ji c1 (fun u h => by have := hall' u h; cases this) hts

theorem stopProcDone_ji {s : State} {i : Nat} {k : Kind} (a : After) (c : JCtx s i k)
    (ha : ∀ ws, a = .stop ws → (∀ u, liveW s u → u ∈ ws) ∧ s.trickStopping = true) : JI (stopProcDone s i a) := by
  unfold stopProcDone
  exact afterStopProc_ji a (c.congr (s' := { s with process := none, procStopping := false }) rfl)
    (fun ws e => ⟨fun u h => (ha ws e).1 u (liveW_congr rfl h), (ha ws e).2⟩)

theorem killLoop_ji {s : State} {i : Nat} {k : Kind} (kt : Nat) (a : After) (c : JCtx s i k)
    (ha : ∀ ws, a = .stop ws → (∀ u, liveW s u → u ∈ ws) ∧ s.trickStopping = true) : JI (killLoop s i kt a) := by
  unfold killLoop
  split
  · exact stopProcDone_ji a c ha
  · split
    · split
      · exact stopProcDone_ji a c ha
      · refine c.setPc_close _ ?_ ?_
        · intro h
          cases a with
          | restart => cases h
          | stop ws => exact (ha ws rfl).2
        · intro h
          cases a with
          | restart => cases h
          | stop ws => exact (ha ws rfl).1
    · split
      · exact stopProcDone_ji a (c.kill _ 9) (fun ws e => ⟨fun u h => (ha ws e).1 u (liveW_kill _ _ h), by simpa using (ha ws e).2⟩)
      · exact stopProcDone_ji a c ha

theorem stopProcBody_ji {s : State} {i : Nat} {k : Kind} (a : After) (c : JCtx s i k)
    (ha : ∀ ws, a = .stop ws → (∀ u, liveW s u → u ∈ ws) ∧ s.trickStopping = true) : JI (stopProcBody s i a) := by
  unfold stopProcBody
  split
  · exact afterStopProc_ji a c ha
  · have c2 : JCtx (({ s with procStopping := true } : State).stopWatcher) i k :=
      (c.congr (s' := { s with procStopping := true }) rfl).stopWatcher
    have ha2 : ∀ ws, a = .stop ws → (∀ u, liveW (({ s with procStopping := true } : State).stopWatcher) u → u ∈ ws) ∧
        (({ s with procStopping := true } : State).stopWatcher).trickStopping = true :=
      fun ws e => ⟨fun u h => (ha ws e).1 u (liveW_congr (s := s) (s' := { s with procStopping := true }) rfl (liveW_stopWatcher h)),
        by simpa using (ha ws e).2⟩
    simp only
    split
    · exact afterStopProc_ji a (c2.congr rfl) (fun ws e => ⟨fun u h => (ha2 ws e).1 u (liveW_congr rfl h), (ha2 ws e).2⟩)
    · split
      · exact stopProcDone_ji a c2 ha2
      · exact killLoop_ji _ a (c2.kill _ 2) (fun ws e => ⟨fun u h => (ha2 ws e).1 u (liveW_kill _ _ h), by simpa using (ha2 ws e).2⟩)

theorem startBody_ji {s : State} {i : Nat} {k : Kind} (c : JCtx s i k) : JI (startBody s i) := by
  obtain ⟨pc0, h0, _⟩ := c.me
  unfold startBody
  split
  · exact arrive_ji (c.log _ rfl)
  · split
    · have hkp : ∀ j, j ≠ i → kp (s.setPc i Pc.saDebStarted) j = kp s j := fun j hj => by rw [kp_setPc]; simp [Ne.symm hj]
      have hme : kp (s.setPc i Pc.saDebStarted) i = some (k, Pc.saDebStarted) := by rw [kp_setPc]; simp [h0]
      have c1 : JCtx (s.setPc i Pc.saDebStarted) i k := c.transfer hkp ⟨_, hme, by simp⟩
      have c2 : JCtx (withDeb (s.setPc i Pc.saDebStarted) s.threads.length) i k :=
        c1.append { kind := .deb, pc := .begin } rfl rfl rfl rfl rfl rfl
      have hme2 : kp (withDeb (s.setPc i Pc.saDebStarted) s.threads.length) i = some (k, Pc.saDebStarted) := by
        rw [kp_append (s := s.setPc i Pc.saDebStarted) { kind := .deb, pc := .begin } rfl i]
        simp [kp_lt h0, hme]
      exact c2.close _ hme2 (fun h => by cases h) (fun h => by cases h)
    · exact c.setPc_plain _ rfl rfl

/-! ### one step, whole runs -/

theorem JI.open {s : State} {i : Nat} {t : Thread} (h : JI s) (ht : s.threads[i]? = some t) (hnd : t.pc ≠ .done) :
    JCtx s i t.kind :=
  ⟨⟨h.live, fun j k pc _ hk hc => h.cc j k pc (by simp) hk hc, h.ret,
    fun j k pc _ hk hs => h.tsc j k pc (by simp) hk hs, h.tsr⟩, ⟨t.pc, by simp [kp, ht], hnd⟩⟩

theorem not_liveW_of_isDone {s : State} {u : Nat} (h : s.isDone u = true) : ¬ liveW s u := by
  intro ⟨pid, pc, hu, hn⟩
  rw [isDone_false_of_kp hu hn] at h; cases h

theorem stepT_ji {s : State} {i : Nat} {t : Thread} (h : JI s) (ht : s.threads[i]? = some t) (hen : enabledT s t = true) :
    JI (stepT s i t) := by
  by_cases hdone : t.pc = .done
  · unfold stepT; rw [hdone]; exact h
  have c := h.open ht hdone
  have hme : kp s i = some (t.kind, t.pc) := by simp [kp, ht]
  have ownTs : inStop t.pc = true → s.trickStopping = true := fun hs => h.tsc i _ _ (by simp) hme hs
  have ownCc : carries t.pc = true → ∀ u, liveW s u → u ∈ carried t.pc := fun hc => h.cc i _ _ (by simp) hme hc
  unfold stepT
  split
  · exact h
  · -- begin
    split
    · exact arrive_ji c
    · exact c.setPc_plain _ rfl rfl
    · next pid _ => exact watcherLoop_ji pid c
  · exact arrive_ji c
  · exact startBody_ji c
  · exact c.setPc_plain _ rfl rfl
  · -- saRAcq
    have c1 : JCtx ({ s with restartOwner := some i } : State) i t.kind := c.congr rfl
    simp only
    split
    · exact startProcess_ji true c1
    · exact arrive_ji ((c1.congr (s' := { s with restartOwner := none }) rfl).log _ rfl)
  · exact arrive_ji ((c.congr (s' := { s with restartOwner := none }) rfl).log _ rfl)
  · -- evCond
    exact arrive_ji (((c.congr (s' := { s with events := s.events + 1 }) rfl).notify).log _ rfl)
  · -- rAcq
    split
    · exact afterRestart_ji c
    · exact (c.congr (s' := { s with restartOwner := some i }) rfl).setPc_plain _ rfl rfl
  · -- spAcq
    next a hb =>
    refine stopProcBody_ji a c ?_
    intro ws e
    exact ⟨fun u hu => by have := ownCc (by rw [hb, e]; rfl) u hu; rw [hb, e] at this; exact this, ownTs (by rw [hb, e]; rfl)⟩
  · next kt dl a hb =>
    refine killLoop_ji kt a c ?_
    intro ws e
    exact ⟨fun u hu => by have := ownCc (by rw [hb, e]; rfl) u hu; rw [hb, e] at this; exact this, ownTs (by rw [hb, e]; rfl)⟩
  · exact restartFinish_ji c
  · -- stAcq
    split
    · exact arrive_ji (c.log _ rfl)
    · have c1 : JCtx ({ s with trickStopping := true } : State) i t.kind :=
        c.transfer (fun j _ => rfl) c.me rfl (fun h => h) (fun _ => rfl)
      exact c1.setPc_close _ (fun _ => rfl) (fun hc => by split at hc <;> cases hc)
  · -- stCond
    next hb =>
    have hts := ownTs (by rw [hb]; rfl)
    have c1 : JCtx (match s.debTid with | some d => s.setStopFlag d | none => s) i t.kind := by
      split
      · exact c.setStopFlag _
      · exact c
    refine c1.notify.setPc_close _ (fun _ => ?_) (fun hc => by cases hc)
    have e1 : (match s.debTid with | some d => s.setStopFlag d | none => s).trickStopping = s.trickStopping := by
      split <;> simp
    rcases notify_eq (match s.debTid with | some d => s.setStopFlag d | none => s) with e | e <;> rw [e]
    · rw [e1]; exact hts
    · show (match s.debTid with | some d => s.setStopFlag d | none => s).trickStopping = true
      rw [e1]; exact hts
  · -- stRAcq: the list of watchers is captured
    next hb =>
    have hts := ownTs (by rw [hb]; rfl)
    refine (c.congr (s' := { s with restartOwner := some i }) rfl).setPc_close _ (fun _ => hts) ?_
    intro _ u hu
    exact h.live u (liveW_congr (s := s) (s' := { s with restartOwner := some i }) rfl hu)
  · -- stJoinDeb
    next ws hb =>
    have hts := ownTs (by rw [hb]; rfl)
    have hcc := ownCc (by rw [hb]; rfl)
    rw [hb] at hcc
    split
    · exact c.setPc_close _ (fun _ => hts) (fun _ => hcc)
    · exact stopFinish_ji c (fun u hu => by have := hcc u hu; cases this) hts
  · -- stJoinW: the join has returned, the thread joined has ended
    next w rest hb =>
    have hts := ownTs (by rw [hb]; rfl)
    have hcc := ownCc (by rw [hb]; rfl)
    rw [hb] at hcc
    have hwd : s.isDone w = true := by simpa [enabledT, hb] using hen
    have hrest : ∀ u, liveW s u → u ∈ rest := by
      intro u hu
      have := hcc u hu
      simp only [carried, List.mem_cons] at this
      rcases this with e | e
      · rw [e] at hu; exact absurd hu (not_liveW_of_isDone hwd)
      · exact e
    split
    · exact c.setPc_close _ (fun _ => hts) (fun _ => hrest)
    · exact stopFinish_ji c (fun u hu => by have := hrest u hu; cases this) hts
  · -- wWait
    split
    · exact c.setPc_plain _ rfl rfl
    · split
      · next pid _ => exact watcherLoop_ji pid c
      · exact c.setPc_plain _ rfl rfl
  · exact debHead_ji (c.congr (s' := { s with condHeld := true }) rfl)
  · exact debHead_ji (c.congr (s' := { s with condHeld := true, notified := false }) rfl)
  · -- dWaitMore
    have c1 : JCtx ({ s with condHeld := true, notified := false } : State) i t.kind := c.congr rfl
    simp only
    split
    · split
      · exact (c1.congr (s' := { s with condHeld := false, notified := false }) rfl).setPc_plain _ rfl rfl
      · exact debDeliver_ji c1
    · exact debDeliver_ji c1

theorem init_ji (cfg : Cfg) (lifetimes : List (Option Nat)) (scripts : List (List Op)) : JI (init cfg lifetimes scripts) := by
  have hk : ∀ j k pc, kp (init cfg lifetimes scripts) j = some (k, pc) → k = .client ∧ pc = .begin := by
    intro j k pc h
    simp only [kp, init, List.getElem?_map] at h
    cases hs : scripts[j]? with
    | none => rw [hs] at h; cases h
    | some x => rw [hs] at h; simp at h; exact ⟨h.1.symm, h.2.symm⟩
  have nl : ∀ u, ¬ liveW (init cfg lifetimes scripts) u := by
    intro u ⟨pid, pc, hu, _⟩; have := (hk u _ _ hu).1; cases this
  have nr : ¬ retd (init cfg lifetimes scripts) := by intro ⟨o, ho, _⟩; simp [init] at ho
  refine ⟨fun u hu => absurd hu (nl u), fun _ _ _ _ _ _ u hu => absurd hu (nl u), fun _ => nl, ?_, fun h => absurd h nr⟩
  intro j k pc _ h hs; rw [(hk j k pc h).2] at hs; cases hs

theorem run_ji {s : State} (h : JI s) (as : List Action) : JI (run s as) := by
  induction as generalizing s with
  | nil => exact h
  | cons a as ih =>
    refine ih ?_
    cases a with
    | tick d => exact ⟨h.live, h.cc, h.ret, h.tsc, h.tsr⟩
    | step tid =>
      simp only [act, step]
      split
      · next t ht =>
        split
        · next hen => exact stepT_ji h ht hen
        · exact h
      · exact h

/-- **all helper threads gone, the process watchers**: once the working `stop()` has returned, every watcher thread the
    trick ever started has ended (the current one and every one an earlier restart replaced) -/
theorem watchers_gone (cfg : Cfg) (lifetimes : List (Option Nat)) (scripts : List (List Op)) (as : List Action)
    (tid tm : Nat) (h : Obs.stopRet tid tm ∈ (run (init cfg lifetimes scripts) as).hist)
    (j : Nat) (th : Thread) (hth : (run (init cfg lifetimes scripts) as).threads[j]? = some th)
    (hk : isWatcher th.kind = true) : th.pc = .done := by
  have hj := run_ji (init_ji cfg lifetimes scripts) as
  have hn := hj.ret ⟨_, h, rfl⟩ j
  cases hkk : th.kind with
  | client => rw [hkk] at hk; cases hk
  | deb => rw [hkk] at hk; cases hk
  | watcher pid =>
    apply Classical.byContradiction
    intro hnd
    exact hn ⟨pid, th.pc, by simp [kp, hth, hkk], hnd⟩

/-- while a `stop()` is on its way past the restart lock, the watchers it will join include every watcher thread that
    has not ended -/
theorem stop_carries_all_live_watchers (cfg : Cfg) (lifetimes : List (Option Nat)) (scripts : List (List Op)) (as : List Action)
    (i : Nat) (t : Thread) (ht : (run (init cfg lifetimes scripts) as).threads[i]? = some t) (hc : carries t.pc = true)
    (u : Nat) (tu : Thread) (hu : (run (init cfg lifetimes scripts) as).threads[u]? = some tu)
    (hk : isWatcher tu.kind = true) (hnd : tu.pc ≠ .done) : u ∈ carried t.pc := by
  have hj := run_ji (init_ji cfg lifetimes scripts) as
  cases hkk : tu.kind with
  | client => rw [hkk] at hk; cases hk
  | deb => rw [hkk] at hk; cases hk
  | watcher pid =>
    exact hj.cc i t.kind t.pc (by simp) (by simp [kp, ht]) hc u ⟨pid, tu.pc, by simp [kp, hu, hkk], hnd⟩

end WD.ProofsRst
