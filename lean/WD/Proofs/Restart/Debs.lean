/- WD.Rst: the debouncer thread.  There is at most one, it is `event_debouncer`, it only ever sits at pcs of the
   debouncer's loop or of a restart, and once a `stop()` is past its `event_debouncer.join()` - in particular once the
   working `stop()` has returned - it has ended. -/
import WD.Proofs.Restart.Helpers
namespace WD.ProofsRst
open WD.Rst

def isDeb : Kind → Bool
  | .deb => true
  | _ => false

/-- the pcs a debouncer thread can be at: its own loop, and the restart it runs as its callback -/
def debPc : Pc → Bool
  | .begin | .done | .dAcq | .dWaitFirst | .dWaitMore _ | .rAcq | .spAcq .restart | .spSleep _ _ .restart | .rStarted => true
  | _ => false

def isJoinW : Pc → Bool
  | .stJoinW _ _ => true
  | _ => false

/-- kind and pc of thread `j` -/
def kp (s : State) (j : Nat) : Option (Kind × Pc) := (s.threads[j]?).map (fun t => (t.kind, t.pc))

/-- some `stop()` is past its `event_debouncer.join()`, or the working `stop()` has returned -/
def Prem (s : State) (x : Option Nat) : Prop :=
  (∃ j k pc, some j ≠ x ∧ kp s j = some (k, pc) ∧ isJoinW pc = true) ∨ (∃ o ∈ s.hist, isStopRet o = true)

/-- every debouncer thread other than `x` has ended -/
def OthersDone (s : State) (x : Option Nat) : Prop :=
  ∀ j k pc, some j ≠ x → kp s j = some (k, pc) → isDeb k = true → pc = .done

structure DebX (s : State) (x : Option Nat) : Prop where
  uniq : ∀ j k pc, kp s j = some (k, pc) → isDeb k = true → s.debTid = some j
  typed : ∀ j k pc, some j ≠ x → kp s j = some (k, pc) → isDeb k = true → debPc pc = true
  gone : Prem s x → OthersDone s x

abbrev Deb (s : State) : Prop := DebX s none

/-- in the middle of a step of thread `i`, of kind `k` -/
structure DCtx (s : State) (i : Nat) (k : Kind) : Prop where
  x : DebX s (some i)
  me : ∃ pc, kp s i = some (k, pc)
  np : isDeb k = true → ¬ Prem s (some i)

/-! ### `kp` under the updates -/

theorem kp_setThread (s : State) (i j : Nat) (t : Thread) :
    kp (s.setThread i t) j = if i = j ∧ i < s.threads.length then some (t.kind, t.pc) else kp s j := by
  unfold kp
  simp only [setThread_threads, List.getElem?_set]
  by_cases h : i = j
  · subst h
    by_cases hl : i < s.threads.length
    · simp [hl]
    · simp [hl]
  · simp [h]

theorem kp_setPc (s : State) (i j : Nat) (pc : Pc) :
    kp (s.setPc i pc) j = if i = j then (kp s i).map (fun x => (x.1, pc)) else kp s j := by
  unfold State.setPc
  split
  · next t ht =>
    rw [kp_setThread]
    have hl : i < s.threads.length := by
      by_cases hl : i < s.threads.length
      · exact hl
      · rw [List.getElem?_eq_none (by omega)] at ht; cases ht
    by_cases h : i = j
    · subst h
      have hg : s.threads[i] = t := by
        have := List.getElem?_eq_getElem hl; rw [this] at ht; exact Option.some.inj ht
      simp [hl, kp, hg]
    · simp [h]
  · next hn =>
    by_cases h : i = j
    · subst h; simp [kp, hn]
    · simp [h]

theorem kp_setStopFlag (s : State) (w j : Nat) : kp (s.setStopFlag w) j = kp s j := by
  unfold State.setStopFlag
  split
  · next t ht =>
    rw [kp_setThread]
    split
    · next h => obtain ⟨rfl, _⟩ := h; simp [kp, ht]
    · rfl
  · rfl

theorem kp_stopWatcher (s : State) (j : Nat) : kp s.stopWatcher j = kp s j := by
  unfold State.stopWatcher; split
  · next w _ => exact kp_setStopFlag s w j
  · rfl

theorem kp_kill (s : State) (pid sig j : Nat) : kp (s.kill pid sig) j = kp s j := by
  unfold kp; simp

theorem kp_notify (s : State) (j : Nat) : kp s.notify j = kp s j := by
  rcases notify_eq s with e | e <;> rw [e]; rfl

theorem kp_append {s s' : State} (t0 : Thread) (h1 : s'.threads = s.threads ++ [t0]) (j : Nat) :
    kp s' j = if j < s.threads.length then kp s j else if j = s.threads.length then some (t0.kind, t0.pc) else none := by
  unfold kp
  rw [h1, List.getElem?_append]
  by_cases hj : j < s.threads.length
  · simp [hj]
  · simp only [hj, if_false]
    by_cases he : j = s.threads.length
    · simp [he]
    · have : j - s.threads.length ≠ 0 := by omega
      cases hk : j - s.threads.length with
      | zero => exact absurd hk this
      | succ n => simp [he]

theorem kp_lt {s : State} {j : Nat} {x : Kind × Pc} (h : kp s j = some x) : j < s.threads.length := by
  unfold kp at h
  by_cases hl : j < s.threads.length
  · exact hl
  · rw [List.getElem?_eq_none (by omega)] at h; cases h

theorem kp_pcOf {s : State} {j : Nat} {k : Kind} {pc : Pc} (h : kp s j = some (k, pc)) : pcOf s j = some pc := by
  unfold kp at h; unfold pcOf
  cases ht : s.threads[j]? with
  | none => rw [ht] at h; cases h
  | some t => rw [ht] at h; simp at h ⊢; exact h.2

/-! ### carrying the context through a step -/

/-- an update that leaves the other threads' kinds and pcs, the debouncer reference and the working `stop()`s in the
    history alone, and does not change the kind of thread `i` -/
theorem DCtx.transfer {s s' : State} {i : Nat} {k : Kind} (c : DCtx s i k)
    (hkp : ∀ j, j ≠ i → kp s' j = kp s j) (hme : ∃ pc, kp s' i = some (k, pc)) (hd : s'.debTid = s.debTid)
    (hh : ∀ o ∈ s'.hist, isStopRet o = true → ∃ o' ∈ s.hist, isStopRet o' = true) : DCtx s' i k := by
  have hprem : Prem s' (some i) → Prem s (some i) := by
    rintro (⟨j, k', pc, hj, hk, hw⟩ | ⟨o, ho, hr⟩)
    · have hji : j ≠ i := fun e => hj (by rw [e])
      exact Or.inl ⟨j, k', pc, hj, by rw [← hkp j hji]; exact hk, hw⟩
    · exact Or.inr (hh o ho hr)
  refine ⟨⟨?_, ?_, ?_⟩, hme, fun hk hp => c.np hk (hprem hp)⟩
  · intro j k' pc hk hdk
    rw [hd]
    by_cases hji : j = i
    · subst hji
      obtain ⟨pc1, h1⟩ := hme
      rw [h1] at hk; cases hk
      obtain ⟨pc0, h0⟩ := c.me
      exact c.x.uniq j k pc0 h0 hdk
    · exact c.x.uniq j k' pc (by rw [← hkp j hji]; exact hk) hdk
  · intro j k' pc hj hk hdk
    have hji : j ≠ i := fun e => hj (by rw [e])
    exact c.x.typed j k' pc hj (by rw [← hkp j hji]; exact hk) hdk
  · intro hp j k' pc hj hk hdk
    have hji : j ≠ i := fun e => hj (by rw [e])
    exact c.x.gone (hprem hp) j k' pc hj (by rw [← hkp j hji]; exact hk) hdk

/-- the step is over: thread `i` sits at `pc` -/
theorem DCtx.close {s : State} {i : Nat} {k : Kind} (c : DCtx s i k) (pc : Pc) (hme : kp s i = some (k, pc))
    (h1 : isDeb k = true → debPc pc = true) (h2 : isJoinW pc = true → isDeb k = false ∧ OthersDone s (some i)) : Deb s := by
  refine ⟨c.x.uniq, ?_, ?_⟩
  · intro j k' pc' _ hk hdk
    by_cases hji : j = i
    · subst hji; rw [hme] at hk; cases hk; exact h1 hdk
    · exact c.x.typed j k' pc' (by simp [hji]) hk hdk
  · intro hp
    -- thread `i` is not a debouncer, or nobody is past the join
    have key : isDeb k = false ∧ OthersDone s (some i) := by
      rcases hp with ⟨j, k', pc', _, hk, hw⟩ | ⟨o, ho, hr⟩
      · by_cases hji : j = i
        · subst hji; rw [hme] at hk; cases hk; exact h2 hw
        · have hp' : Prem s (some i) := Or.inl ⟨j, k', pc', by simp [hji], hk, hw⟩
          cases hdk : isDeb k with
          | false => exact ⟨rfl, c.x.gone hp'⟩
          | true => exact absurd hp' (c.np hdk)
      · have hp' : Prem s (some i) := Or.inr ⟨o, ho, hr⟩
        cases hdk : isDeb k with
        | false => exact ⟨rfl, c.x.gone hp'⟩
        | true => exact absurd hp' (c.np hdk)
    intro j k' pc' _ hk hdk
    by_cases hji : j = i
    · subst hji; rw [hme] at hk; cases hk; rw [key.1] at hdk; cases hdk
    · exact key.2 j k' pc' (by simp [hji]) hk hdk

theorem Deb.open {s : State} {i : Nat} {t : Thread} (h : Deb s) (ht : s.threads[i]? = some t) (hnd : t.pc ≠ .done) :
    DCtx s i t.kind ∧ (isDeb t.kind = true → debPc t.pc = true) := by
  have hme : kp s i = some (t.kind, t.pc) := by simp [kp, ht]
  have hprem : Prem s (some i) → Prem s none := by
    rintro (⟨j, k', pc, _, hk, hw⟩ | hr)
    · exact Or.inl ⟨j, k', pc, by simp, hk, hw⟩
    · exact Or.inr hr
  refine ⟨⟨⟨h.uniq, fun j k pc _ hk hd => h.typed j k pc (by simp) hk hd,
    fun hp j k pc _ hk hd => h.gone (hprem hp) j k pc (by simp) hk hd⟩, ⟨_, hme⟩, ?_⟩, fun hd => h.typed i _ _ (by simp) hme hd⟩
  intro hd hp
  exact hnd (h.gone (hprem hp) i _ _ (by simp) hme hd)

theorem OthersDone_transfer {s s' : State} {i : Nat} (h : OthersDone s (some i)) (hkp : ∀ j, j ≠ i → kp s' j = kp s j) :
    OthersDone s' (some i) := by
  intro j k pc hj hk hd
  have hji : j ≠ i := fun e => hj (by rw [e])
  exact h j k pc hj (by rw [← hkp j hji]; exact hk) hd

theorem DCtx.setPc_close {s : State} {i : Nat} {k : Kind} (c : DCtx s i k) (pc : Pc)
    (h1 : isDeb k = true → debPc pc = true) (h2 : isJoinW pc = true → isDeb k = false ∧ OthersDone s (some i)) :
    Deb (s.setPc i pc) := by
  obtain ⟨pc0, h0⟩ := c.me
  have hkp : ∀ j, j ≠ i → kp (s.setPc i pc) j = kp s j := fun j hj => by rw [kp_setPc]; simp [Ne.symm hj]
  have hme : kp (s.setPc i pc) i = some (k, pc) := by rw [kp_setPc]; simp [h0]
  have c' := c.transfer (s' := s.setPc i pc) hkp ⟨pc, hme⟩ (by simp) (fun o ho hr => ⟨o, by simpa using ho, hr⟩)
  exact c'.close pc hme h1 (fun hj => ⟨(h2 hj).1, OthersDone_transfer (h2 hj).2 hkp⟩)

/-- an update of fields other than the threads, the debouncer reference and the history -/
theorem DCtx.congr {s s' : State} {i : Nat} {k : Kind} (c : DCtx s i k) (h1 : s'.threads = s.threads)
    (h2 : s'.debTid = s.debTid) (h3 : s'.hist = s.hist) : DCtx s' i k :=
  c.transfer (fun j _ => by simp [kp, h1]) (by obtain ⟨pc, h⟩ := c.me; exact ⟨pc, by simpa [kp, h1] using h⟩) h2
    (fun o ho hr => ⟨o, by rwa [h3] at ho, hr⟩)

theorem DCtx.log {s : State} {i : Nat} {k : Kind} (c : DCtx s i k) (o : Obs) (ho : isStopRet o = false) : DCtx (s.log o) i k :=
  c.transfer (fun j _ => rfl) c.me rfl (fun x hx hr => by
    simp only [log_hist, List.mem_append, List.mem_singleton] at hx
    rcases hx with hx | rfl
    · exact ⟨x, hx, hr⟩
    · rw [ho] at hr; cases hr)

theorem DCtx.setStopFlag {s : State} {i : Nat} {k : Kind} (c : DCtx s i k) (w : Nat) : DCtx (s.setStopFlag w) i k :=
  c.transfer (fun j _ => kp_setStopFlag s w j) (by rw [kp_setStopFlag]; exact c.me) (by simp) (fun o ho hr => ⟨o, by simpa using ho, hr⟩)

theorem DCtx.stopWatcher {s : State} {i : Nat} {k : Kind} (c : DCtx s i k) : DCtx s.stopWatcher i k :=
  c.transfer (fun j _ => kp_stopWatcher s j) (by rw [kp_stopWatcher]; exact c.me) (by simp) (fun o ho hr => ⟨o, by simpa using ho, hr⟩)

theorem kill_hist_stop (s : State) (pid sig : Nat) (o : Obs) (ho : o ∈ (s.kill pid sig).hist) (hr : isStopRet o = true) :
    o ∈ s.hist := by
  unfold State.kill at ho
  split at ho
  · exact ho
  · simp only [log_hist, List.mem_append, List.mem_singleton] at ho
    rcases ho with ho | rfl
    · exact ho
    · cases hr

theorem DCtx.kill {s : State} {i : Nat} {k : Kind} (c : DCtx s i k) (pid sig : Nat) : DCtx (s.kill pid sig) i k :=
  c.transfer (fun j _ => kp_kill s pid sig j) (by rw [kp_kill]; exact c.me) (kill_debTid s pid sig)
    (fun o ho hr => ⟨o, kill_hist_stop s pid sig o ho hr, hr⟩)

theorem DCtx.notify {s : State} {i : Nat} {k : Kind} (c : DCtx s i k) : DCtx s.notify i k := by
  rcases notify_eq s with e | e <;> rw [e]
  · exact c
  · exact c.congr rfl rfl rfl

/-- a watcher thread is appended -/
theorem DCtx.appendWatcher {s s' : State} {i : Nat} {k : Kind} (c : DCtx s i k) (pid : Nat)
    (h1 : s'.threads = s.threads ++ [{ kind := .watcher pid, pc := .begin }]) (h2 : s'.debTid = s.debTid)
    (h3 : s'.hist = s.hist) : DCtx s' i k := by
  obtain ⟨pc0, h0⟩ := c.me
  have hil := kp_lt h0
  have hold : ∀ j, j < s.threads.length → kp s' j = kp s j := fun j hj => by rw [kp_append _ h1]; simp [hj]
  have hnew : ∀ j x, ¬ j < s.threads.length → kp s' j = some x → x = (Kind.watcher pid, Pc.begin) := by
    intro j x hj hk
    rw [kp_append _ h1] at hk
    simp only [hj, if_false] at hk
    split at hk
    · exact (Option.some.inj hk).symm
    · cases hk
  have hprem : Prem s' (some i) → Prem s (some i) := by
    rintro (⟨j, k', pc, hj, hk, hw⟩ | ⟨o, ho, hr⟩)
    · by_cases hl : j < s.threads.length
      · exact Or.inl ⟨j, k', pc, hj, by rw [← hold j hl]; exact hk, hw⟩
      · have := hnew j _ hl hk; cases this; cases hw
    · exact Or.inr ⟨o, by rwa [h3] at ho, hr⟩
  refine ⟨⟨?_, ?_, ?_⟩, ⟨pc0, by rw [hold i hil]; exact h0⟩, fun hk hp => c.np hk (hprem hp)⟩
  · intro j k' pc hk hdk
    rw [h2]
    by_cases hl : j < s.threads.length
    · exact c.x.uniq j k' pc (by rw [← hold j hl]; exact hk) hdk
    · have := hnew j _ hl hk; cases this; cases hdk
  · intro j k' pc hj hk hdk
    by_cases hl : j < s.threads.length
    · exact c.x.typed j k' pc hj (by rw [← hold j hl]; exact hk) hdk
    · have := hnew j _ hl hk; cases this; cases hdk
  · intro hp j k' pc hj hk hdk
    by_cases hl : j < s.threads.length
    · exact c.x.gone (hprem hp) j k' pc hj (by rw [← hold j hl]; exact hk) hdk
    · have := hnew j _ hl hk; cases this; cases hdk

/-! ### the helpers of a step -/

theorem arrive_deb {s : State} {i : Nat} {k : Kind} (c : DCtx s i k) (hk : isDeb k = false) : Deb (arrive s i) := by
  obtain ⟨pc0, h0⟩ := c.me
  have hil := kp_lt h0
  unfold arrive
  split
  · next hn => rw [List.getElem?_eq_getElem hil] at hn; cases hn
  · next t ht =>
    have htk : t.kind = k := by simp [kp, ht] at h0; exact h0.1
    have fin : ∀ (t' : Thread), t'.kind = t.kind → isJoinW t'.pc = false → Deb (s.setThread i t') := by
      intro t' hk' hj
      have hkp : ∀ j, j ≠ i → kp (s.setThread i t') j = kp s j := fun j hj => by rw [kp_setThread]; simp [Ne.symm hj]
      have hme : kp (s.setThread i t') i = some (k, t'.pc) := by rw [kp_setThread]; simp [hil, hk', htk]
      have c' := c.transfer (s' := s.setThread i t') hkp ⟨_, hme⟩ (by simp) (fun o ho hr => ⟨o, by simpa using ho, hr⟩)
      exact c'.close _ hme (fun hd => by rw [hk] at hd; cases hd) (fun hw => by rw [hj] at hw; cases hw)
    split
    · exact fin _ rfl rfl
    · exact fin _ rfl rfl
    · exact fin _ rfl rfl
    · exact fin _ rfl (by simp only; split <;> rfl)
    · exact fin _ rfl rfl

theorem debHead_deb {s : State} {i : Nat} {k : Kind} (c : DCtx s i k) : Deb (debHead s i) := by
  unfold debHead
  split
  · exact (c.congr (s' := { s with condHeld := false, notified := false }) rfl rfl rfl).setPc_close _ (fun _ => rfl) (fun h => by cases h)
  · split
    · exact (c.congr (s' := { s with condHeld := false, notified := false }) rfl rfl rfl).setPc_close _ (fun _ => rfl) (fun h => by cases h)
    · exact (c.congr (s' := { s with condHeld := false }) rfl rfl rfl).setPc_close _ (fun _ => rfl) (fun h => by cases h)

theorem debDeliver_deb {s : State} {i : Nat} {k : Kind} (c : DCtx s i k) : Deb (debDeliver s i) := by
  unfold debDeliver
  split
  · exact (c.congr (s' := { s with condHeld := false }) rfl rfl rfl).setPc_close _ (fun _ => rfl) (fun h => by cases h)
  · exact (c.congr (s' := { s with events := 0 }) rfl rfl rfl).setPc_close _ (fun _ => rfl) (fun h => by cases h)

theorem afterRestart_deb {s : State} {i : Nat} {k : Kind} (c : DCtx s i k) : Deb (afterRestart s i) := by
  obtain ⟨pc0, h0⟩ := c.me
  have hil := kp_lt h0
  unfold afterRestart
  split
  · next hn => rw [List.getElem?_eq_getElem hil] at hn; cases hn
  · next t ht =>
    have htk : t.kind = k := by simp [kp, ht] at h0; exact h0.1
    split
    · next hk => exact arrive_deb (c.log _ rfl) (by rw [← htk, hk]; rfl)
    · exact c.setPc_close _ (fun _ => rfl) (fun h => by cases h)
    · exact debHead_deb c

theorem restartFinish_deb {s : State} {i : Nat} {k : Kind} (c : DCtx s i k) : Deb (restartFinish s i) :=
  afterRestart_deb (c.congr (s' := { s with restartCount := s.restartCount + 1, restartOwner := none }) rfl rfl rfl)

/-- the working `stop()` returns: every debouncer thread has ended -/
theorem stopFinish_deb {s : State} {i : Nat} {k : Kind} (c : DCtx s i k) (hk : isDeb k = false)
    (hd : OthersDone s (some i)) : Deb (stopFinish s i) := by
  unfold stopFinish
  refine arrive_deb (k := k) ⟨⟨c.x.uniq, c.x.typed, fun _ => hd⟩, c.me, fun h => by rw [hk] at h; cases h⟩ hk

theorem watcherLoop_deb {s : State} {i : Nat} {k : Kind} (pid : Nat) (c : DCtx s i k) (hk : isDeb k = false) :
    Deb (watcherLoop s i pid) := by
  have nd : ∀ pc : Pc, isDeb k = true → debPc pc = true := fun _ h => by rw [hk] at h; cases h
  unfold watcherLoop
  split
  · exact c.setPc_close _ (nd _) (fun h => by cases h)
  · split
    · exact c.setPc_close _ (nd _) (fun h => by cases h)
    · exact c.setPc_close _ (nd _) (fun h => by cases h)

def withWatcher (s1 : State) (pid : Nat) : State := { s1 with threads := s1.threads ++ [{ kind := .watcher pid, pc := .begin }], watcher := some s1.threads.length, watchers := s1.watchers.filter (fun x => !s1.isDone x) ++ [s1.threads.length] }
def withDeb (s1 : State) (d : Nat) : State := { s1 with threads := s1.threads ++ [{ kind := .deb, pc := .begin }], debTid := some d }
def preSpawn (s : State) : State := { s with procs := s.procs ++ [{ start := s.clock, dies := (s.lifetimes.head?.join).map (s.clock + ·), killedAt := none }], lifetimes := s.lifetimes.tail, process := some s.procs.length }

theorem DCtx.spawn {s : State} {i : Nat} {k : Kind} (c : DCtx s i k) : DCtx s.spawn i k := by
  have c1 : DCtx (preSpawn s) i k := c.congr rfl rfl rfl
  exact c1.log (.spawn s.procs.length s.clock) rfl

theorem startProcess_deb {s : State} {i : Nat} {k : Kind} (inStart : Bool) (c : DCtx s i k)
    (hk : inStart = true → isDeb k = false) : Deb (startProcess s i inStart) := by
  have fin : ∀ s' : State, DCtx s' i k →
      Deb (if inStart = true then arrive (({ s' with restartOwner := none } : State).log (.started i s'.clock)) i
           else restartFinish s' i) := by
    intro s' c'
    split
    · next h => exact arrive_deb ((c'.congr (s' := { s' with restartOwner := none }) rfl rfl rfl).log _ rfl) (hk h)
    · exact restartFinish_deb c'
  unfold startProcess
  simp only
  split
  · exact fin s c
  · split
    · have c2 : DCtx (withWatcher s.spawn s.procs.length) i k := c.spawn.appendWatcher s.procs.length rfl rfl rfl
      refine c2.setPc_close (if inStart = true then Pc.saStarted else Pc.rStarted) ?_ (fun h => by split at h <;> cases h)
      intro hd
      split
      · next h => have := hk h; rw [this] at hd; cases hd
      · rfl
    · exact fin s.spawn c.spawn

theorem afterStopProc_deb {s : State} {i : Nat} {k : Kind} (a : After) (c : DCtx s i k)
    (hk : afterIsStop a = true → isDeb k = false) : Deb (afterStopProc s i a) := by
  cases a with
  | restart => exact startProcess_deb false c (fun h => by cases h)
  | stop w =>
    have hnd : isDeb k = false := hk rfl
    have nd : ∀ pc : Pc, isDeb k = true → debPc pc = true := fun _ h => by rw [hnd] at h; cases h
    have c1 : DCtx ({ s with restartOwner := none } : State) i k := c.congr rfl rfl rfl
    unfold afterStopProc
    simp only
    split
    · exact c1.setPc_close _ (nd _) (fun h => by cases h)
    · next hnone =>
      -- no debouncer was ever created: nothing to wait for
      have hod : OthersDone ({ s with restartOwner := none } : State) (some i) := by
        intro j k' pc _ hkp hd
        have h2 : s.debTid = some j := c1.x.uniq j k' pc hkp hd
        exfalso; apply hnone
        show s.debTid.isSome = true
        rw [h2]; rfl
      split
      · exact c1.setPc_close _ (nd _) (fun _ => ⟨hnd, hod⟩)
      · exact stopFinish_deb c1 hnd hod

theorem stopProcDone_deb {s : State} {i : Nat} {k : Kind} (a : After) (c : DCtx s i k)
    (hk : afterIsStop a = true → isDeb k = false) : Deb (stopProcDone s i a) := by
  unfold stopProcDone
  exact afterStopProc_deb a (c.congr (s' := { s with process := none, procStopping := false }) rfl rfl rfl) hk

theorem killLoop_deb {s : State} {i : Nat} {k : Kind} (kt : Nat) (a : After) (c : DCtx s i k)
    (hk : afterIsStop a = true → isDeb k = false) : Deb (killLoop s i kt a) := by
  unfold killLoop
  split
  · exact stopProcDone_deb a c hk
  · split
    · split
      · exact stopProcDone_deb a c hk
      · refine c.setPc_close _ ?_ (fun h => by cases h)
        intro hd
        cases a with
        | restart => rfl
        | stop w => have := hk rfl; rw [this] at hd; cases hd
    · split
      · exact stopProcDone_deb a (c.kill _ 9) hk
      · exact stopProcDone_deb a c hk

theorem stopProcBody_deb {s : State} {i : Nat} {k : Kind} (a : After) (c : DCtx s i k)
    (hk : afterIsStop a = true → isDeb k = false) : Deb (stopProcBody s i a) := by
  unfold stopProcBody
  split
  · exact afterStopProc_deb a c hk
  · have c2 : DCtx (({ s with procStopping := true } : State).stopWatcher) i k :=
      (c.congr (s' := { s with procStopping := true }) rfl rfl rfl).stopWatcher
    simp only
    split
    · exact afterStopProc_deb a (c2.congr rfl rfl rfl) hk
    · split
      · exact stopProcDone_deb a c2 hk
      · exact killLoop_deb _ a (c2.kill _ 2) hk

/-- `start()` from the acquisition of `_stopping_lock`: the one place a debouncer is created - never while the trick is
    stopping, never a second one -/
theorem startBody_deb {s : State} {i : Nat} {k : Kind} (inv : Inv s) (c : DCtx s i k) (hk : isDeb k = false) :
    Deb (startBody s i) := by
  have nd : ∀ pc : Pc, isDeb k = true → debPc pc = true := fun _ h => by rw [hk] at h; cases h
  obtain ⟨pc0, h0⟩ := c.me
  have hil := kp_lt h0
  unfold startBody
  split
  · exact arrive_deb (c.log _ rfl) hk
  · next hts =>
    split
    · next hcond =>
      simp only [Bool.and_eq_true, Option.isNone_iff_eq_none] at hcond
      have hnone : s.debTid = none := hcond.2
      have hts' : s.trickStopping = false := by simpa using hts
      -- the state with the new thread
      have hkpG : ∀ s' : State, s'.threads = (s.setPc i Pc.saDebStarted).threads ++ [{ kind := .deb, pc := .begin }] → ∀ j, kp s' j =
          if j < s.threads.length then (if i = j then some (k, Pc.saDebStarted) else kp s j)
          else if j = s.threads.length then some (Kind.deb, Pc.begin) else none := by
        intro s' hs' j
        rw [kp_append (s := s.setPc i Pc.saDebStarted) { kind := .deb, pc := .begin } hs' j]
        simp only [setPc_length, kp_setPc, h0, Option.map_some]
      have hkpS := hkpG (withDeb (s.setPc i Pc.saDebStarted) s.threads.length) rfl
      show Deb (withDeb (s.setPc i Pc.saDebStarted) s.threads.length)
      have noDeb : ∀ j k' pc, j < s.threads.length → (if i = j then some (k, Pc.saDebStarted) else kp s j) = some (k', pc) →
          isDeb k' = true → False := by
        intro j k' pc _ hkp hd
        split at hkp
        · cases hkp; rw [hk] at hd; cases hd
        · have := c.x.uniq j k' pc hkp hd; rw [hnone] at this; cases this
      refine ⟨?_, ?_, ?_⟩
      · intro j k' pc hkp hd
        rw [hkpS] at hkp
        split at hkp
        · next hl => exact (noDeb j k' pc hl hkp hd).elim
        · split at hkp
          · next he => rw [he]; rfl
          · cases hkp
      · intro j k' pc _ hkp hd
        rw [hkpS] at hkp
        split at hkp
        · next hl => exact (noDeb j k' pc hl hkp hd).elim
        · split at hkp
          · cases hkp; rfl
          · cases hkp
      · intro hp
        exfalso
        rcases hp with ⟨j, k', pc, _, hkp, hw⟩ | ⟨o, ho, hr⟩
        · rw [hkpS] at hkp
          split at hkp
          · split at hkp
            · cases hkp; cases hw
            · have hpc := kp_pcOf hkp
              have := (inv.pcs j pc hpc).2.2.1 (by cases pc <;> simp_all [isJoinW, inStop])
              rw [hts'] at this; cases this
          · split at hkp
            · cases hkp; cases hw
            · cases hkp
        · have ho' : o ∈ s.hist := by
            have e : (withDeb (s.setPc i Pc.saDebStarted) s.threads.length).hist = s.hist := by simp [withDeb]
            rwa [e] at ho
          have := (inv.glob.ret ⟨o, ho', hr⟩).1
          rw [hts'] at this; cases this
    · exact c.setPc_close _ (nd _) (fun h => by cases h)

/-! ### one step, whole runs -/

theorem stepT_deb {s : State} {i : Nat} {t : Thread} (inv : Inv s) (h : Deb s) (ht : s.threads[i]? = some t)
    (hen : enabledT s t = true) : Deb (stepT s i t) := by
  by_cases hdone : t.pc = .done
  · unfold stepT; rw [hdone]; exact h
  obtain ⟨c, htyped⟩ := h.open ht hdone
  have hme : kp s i = some (t.kind, t.pc) := by simp [kp, ht]
  -- a thread at a pc outside the debouncer's range is not the debouncer
  have notDeb : debPc t.pc = false → isDeb t.kind = false := by
    intro hp
    cases hd : isDeb t.kind with
    | false => rfl
    | true => rw [htyped hd] at hp; cases hp
  have nd : isDeb t.kind = false → ∀ pc : Pc, isDeb t.kind = true → debPc pc = true :=
    fun hk _ hd => by rw [hk] at hd; cases hd
  unfold stepT
  split
  · exact h
  · -- begin
    split
    · next hk => exact arrive_deb c (by rw [hk]; rfl)
    · exact c.setPc_close _ (fun _ => rfl) (fun h => by cases h)
    · next pid hk => exact watcherLoop_deb pid c (by rw [hk]; rfl)
  · next hb => exact arrive_deb c (notDeb (by rw [hb]; rfl))
  · next hb => exact startBody_deb inv c (notDeb (by rw [hb]; rfl))
  · next hb => exact c.setPc_close _ (nd (notDeb (by rw [hb]; rfl)) _) (fun h => by cases h)
  · -- saRAcq
    next hb =>
    have hk := notDeb (by rw [hb]; rfl)
    have c1 : DCtx ({ s with restartOwner := some i } : State) i t.kind := c.congr rfl rfl rfl
    simp only
    split
    · exact startProcess_deb true c1 (fun _ => hk)
    · exact arrive_deb ((c1.congr (s' := { s with restartOwner := none }) rfl rfl rfl).log _ rfl) hk
  · next hb => exact arrive_deb ((c.congr (s' := { s with restartOwner := none }) rfl rfl rfl).log _ rfl) (notDeb (by rw [hb]; rfl))
  · -- evCond
    next hb =>
    exact arrive_deb (((c.congr (s' := { s with events := s.events + 1 }) rfl rfl rfl).notify).log _ rfl) (notDeb (by rw [hb]; rfl))
  · -- rAcq
    split
    · exact afterRestart_deb c
    · exact (c.congr (s' := { s with restartOwner := some i }) rfl rfl rfl).setPc_close _ (fun _ => rfl) (fun h => by cases h)
  · -- spAcq
    next a hb =>
    refine stopProcBody_deb a c ?_
    intro ha; apply notDeb; rw [hb]; cases a <;> simp_all [afterIsStop, debPc]
  · next kt dl a hb =>
    refine killLoop_deb kt a c ?_
    intro ha; apply notDeb; rw [hb]; cases a <;> simp_all [afterIsStop, debPc]
  · exact restartFinish_deb c
  · -- stAcq
    next hb =>
    have hk := notDeb (by rw [hb]; rfl)
    split
    · exact arrive_deb (c.log _ rfl) hk
    · exact (c.congr (s' := { s with trickStopping := true }) rfl rfl rfl).setPc_close _ (nd hk _) (fun h => by split at h <;> cases h)
  · -- stCond
    next hb =>
    have hk := notDeb (by rw [hb]; rfl)
    have c1 : DCtx (match s.debTid with | some d => s.setStopFlag d | none => s) i t.kind := by
      split
      · exact c.setStopFlag _
      · exact c
    exact c1.notify.setPc_close _ (nd hk _) (fun h => by cases h)
  · next hb =>
    exact (c.congr (s' := { s with restartOwner := some i }) rfl rfl rfl).setPc_close _ (nd (notDeb (by rw [hb]; rfl)) _) (fun h => by cases h)
  · -- stJoinDeb: the join has returned
    next w hb =>
    have hk := notDeb (by rw [hb]; rfl)
    have hod : OthersDone s (some i) := by
      intro j k' pc _ hkp hd
      have h2 : s.debTid = some j := c.x.uniq j k' pc hkp hd
      have hen' : s.isDone j = true := by simpa [enabledT, hb, h2] using hen
      unfold State.isDone at hen'
      unfold kp at hkp
      cases htj : s.threads[j]? with
      | none => rw [htj] at hkp; cases hkp
      | some tj =>
        rw [htj] at hkp hen'
        simp only [Option.map_some, Option.some.injEq, Prod.mk.injEq] at hkp
        rw [← hkp.2]; simpa using hen'
    split
    · exact c.setPc_close _ (nd hk _) (fun _ => ⟨hk, hod⟩)
    · exact stopFinish_deb c hk hod
  · -- stJoinW
    next w rest hb =>
    have hk := notDeb (by rw [hb]; rfl)
    have hod : OthersDone s (some i) := by
      intro j k' pc hj hkp hd
      exact h.gone (Or.inl ⟨i, t.kind, t.pc, by simp, hme, by rw [hb]; rfl⟩) j k' pc (by simp) hkp hd
    split
    · exact c.setPc_close _ (nd hk _) (fun _ => ⟨hk, hod⟩)
    · exact stopFinish_deb c hk hod
  · -- wWait
    next hb =>
    have hk := notDeb (by rw [hb]; rfl)
    split
    · exact c.setPc_close _ (nd hk _) (fun h => by cases h)
    · split
      · next pid _ => exact watcherLoop_deb pid c hk
      · exact c.setPc_close _ (nd hk _) (fun h => by cases h)
  · exact debHead_deb (c.congr (s' := { s with condHeld := true }) rfl rfl rfl)
  · exact debHead_deb (c.congr (s' := { s with condHeld := true, notified := false }) rfl rfl rfl)
  · -- dWaitMore
    have c1 : DCtx ({ s with condHeld := true, notified := false } : State) i t.kind := c.congr rfl rfl rfl
    simp only
    split
    · split
      · exact (c1.congr (s' := { s with condHeld := false, notified := false }) rfl rfl rfl).setPc_close _ (fun _ => rfl) (fun h => by cases h)
      · exact debDeliver_deb c1
    · exact debDeliver_deb c1

theorem init_deb (cfg : Cfg) (lifetimes : List (Option Nat)) (scripts : List (List Op)) : Deb (init cfg lifetimes scripts) := by
  have hk : ∀ j k pc, kp (init cfg lifetimes scripts) j = some (k, pc) → k = .client := by
    intro j k pc h
    simp only [kp, init, List.getElem?_map] at h
    cases hs : scripts[j]? with
    | none => rw [hs] at h; cases h
    | some x => rw [hs] at h; simp at h; exact h.1.symm
  refine ⟨?_, ?_, ?_⟩
  · intro j k pc h hd; rw [hk j k pc h] at hd; cases hd
  · intro j k pc _ h hd; rw [hk j k pc h] at hd; cases hd
  · intro _ j k pc _ h hd; rw [hk j k pc h] at hd; cases hd

theorem run_inv_deb {s : State} (hi : Inv s) (hd : Deb s) (as : List Action) : Inv (run s as) ∧ Deb (run s as) := by
  induction as generalizing s with
  | nil => exact ⟨hi, hd⟩
  | cons a as ih =>
    refine ih (act_inv hi a) ?_
    cases a with
    | tick d =>
      exact ⟨hd.uniq, hd.typed, hd.gone⟩
    | step tid =>
      simp only [act, step]
      split
      · next t ht =>
        split
        · next hen => exact stepT_deb hi hd ht hen
        · exact hd
      · exact hd

/-- once the working `stop()` has returned every debouncer thread has ended; there is at most one at any time, and it is
    the one the trick refers to -/
theorem debouncer_gone (cfg : Cfg) (lifetimes : List (Option Nat)) (scripts : List (List Op)) (as : List Action) :
    (∀ tid t, Obs.stopRet tid t ∈ (run (init cfg lifetimes scripts) as).hist →
      ∀ (j : Nat) (th : Thread), (run (init cfg lifetimes scripts) as).threads[j]? = some th → isDeb th.kind = true → th.pc = .done) ∧
    (∀ (j : Nat) (th : Thread), (run (init cfg lifetimes scripts) as).threads[j]? = some th → isDeb th.kind = true →
      (run (init cfg lifetimes scripts) as).debTid = some j) := by
  obtain ⟨_, deb⟩ := run_inv_deb (init_inv cfg lifetimes scripts) (init_deb cfg lifetimes scripts) as
  refine ⟨?_, ?_⟩
  · intro tid t h j th hth hd
    exact deb.gone (Or.inr ⟨_, h, rfl⟩) j th.kind th.pc (by simp) (by simp [kp, hth]) hd
  · intro j th hth hd
    exact deb.uniq j th.kind th.pc (by simp [kp, hth]) hd

end WD.ProofsRst
