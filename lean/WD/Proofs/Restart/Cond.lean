/- WD.Rst: the debouncer's condition lock.  It is held across visible operations only by the debouncer thread while
   it runs its callback (`_restart_process`); so whoever waits for it - `handle_event`, `event_debouncer.stop()`, the
   debouncer's own loop head - waits for a thread that can move. -/
import WD.Proofs.Restart.Debs
import WD.Proofs.Restart.Progress
namespace WD.ProofsRst
open WD.Rst

/-- the pcs of a restart run as the debouncer's callback -/
def cbPc : Pc → Bool
  | .rAcq | .spAcq .restart | .spSleep _ _ .restart | .rStarted => true
  | _ => false

/-- the pcs of the debouncer's own loop -/
def dpcB : Pc → Bool
  | .dAcq | .dWaitFirst | .dWaitMore _ => true
  | _ => false

/-- the condition lock is held ⇒ a debouncer thread (other than `x`) is inside its callback; the pcs of the debouncer's
    loop are those of debouncer threads -/
structure CHX (s : State) (x : Option Nat) : Prop where
  held : s.condHeld = true → ∃ d k pc, some d ≠ x ∧ kp s d = some (k, pc) ∧ isDeb k = true ∧ cbPc pc = true
  dty : ∀ j k pc, some j ≠ x → kp s j = some (k, pc) → dpcB pc = true → isDeb k = true

abbrev CH (s : State) : Prop := CHX s none

@[simp] theorem setThread_condHeld (s : State) (i : Nat) (t : Thread) : (s.setThread i t).condHeld = s.condHeld := rfl
@[simp] theorem setPc_condHeld (s : State) (i : Nat) (pc : Pc) : (s.setPc i pc).condHeld = s.condHeld := by
  unfold State.setPc; split <;> rfl

/-- in the middle of a step of thread `i`, of kind `k` -/
structure HCtx (s : State) (i : Nat) (k : Kind) : Prop where
  me : ∃ pc, kp s i = some (k, pc)
  oth : isDeb k = false → s.condHeld = true →
    ∃ d k' pc, some d ≠ some i ∧ kp s d = some (k', pc) ∧ isDeb k' = true ∧ cbPc pc = true
  dty : ∀ j k' pc, j ≠ i → kp s j = some (k', pc) → dpcB pc = true → isDeb k' = true

theorem HCtx.transfer {s s' : State} {i : Nat} {k : Kind} (c : HCtx s i k)
    (hkp : ∀ j, j ≠ i → kp s' j = kp s j) (hme : ∃ pc, kp s' i = some (k, pc))
    (hc : isDeb k = false → s'.condHeld = true → s.condHeld = true) : HCtx s' i k := by
  refine ⟨hme, fun hk hh => ?_, fun j k' pc hj hkj hp => c.dty j k' pc hj (by rw [← hkp j hj]; exact hkj) hp⟩
  obtain ⟨d, k', pc, hd, hkd, h1, h2⟩ := c.oth hk (hc hk hh)
  have hdi : d ≠ i := fun e => hd (by rw [e])
  exact ⟨d, k', pc, hd, by rw [hkp d hdi]; exact hkd, h1, h2⟩

theorem HCtx.close {s : State} {i : Nat} {k : Kind} (c : HCtx s i k) (pc : Pc) (hme : kp s i = some (k, pc))
    (h1 : isDeb k = true → s.condHeld = true → cbPc pc = true) (h2 : dpcB pc = true → isDeb k = true) : CH s := by
  refine ⟨fun hh => ?_, fun j k' pc' _ hkj hp => ?_⟩
  · cases hk : isDeb k with
    | false =>
      obtain ⟨d, k', pc', _, hkd, h2, h3⟩ := c.oth hk hh
      exact ⟨d, k', pc', by simp, hkd, h2, h3⟩
    | true => exact ⟨i, k, pc, by simp, hme, hk, h1 hk hh⟩
  · by_cases hji : j = i
    · subst hji; rw [hme] at hkj; cases hkj; exact h2 hp
    · exact c.dty j k' pc' hji hkj hp

theorem HCtx.setPc_close {s : State} {i : Nat} {k : Kind} (c : HCtx s i k) (pc : Pc)
    (h1 : isDeb k = true → s.condHeld = true → cbPc pc = true) (h2 : dpcB pc = true → isDeb k = true) :
    CH (s.setPc i pc) := by
  obtain ⟨pc0, h0⟩ := c.me
  have hkp : ∀ j, j ≠ i → kp (s.setPc i pc) j = kp s j := fun j hj => by rw [kp_setPc]; simp [Ne.symm hj]
  have hme : kp (s.setPc i pc) i = some (k, pc) := by rw [kp_setPc]; simp [h0]
  exact (c.transfer (s' := s.setPc i pc) hkp ⟨pc, hme⟩ (fun _ h => by simpa using h)).close pc hme
    (fun hk hh => h1 hk (by simpa using hh)) h2

/-- an update that leaves the threads alone, and the condition lock too unless thread `i` is the debouncer -/
theorem HCtx.congr {s s' : State} {i : Nat} {k : Kind} (c : HCtx s i k) (h1 : s'.threads = s.threads)
    (h2 : isDeb k = false → s'.condHeld = s.condHeld) : HCtx s' i k :=
  c.transfer (fun j _ => by simp [kp, h1]) (by obtain ⟨pc, h⟩ := c.me; exact ⟨pc, by simpa [kp, h1] using h⟩)
    (fun hk h => by rw [h2 hk] at h; exact h)

theorem HCtx.log {s : State} {i : Nat} {k : Kind} (c : HCtx s i k) (o : Obs) : HCtx (s.log o) i k :=
  c.congr rfl (fun _ => rfl)

theorem setStopFlag_condHeld (s : State) (w : Nat) : (s.setStopFlag w).condHeld = s.condHeld := by
  unfold State.setStopFlag; split <;> rfl

theorem stopWatcher_condHeld (s : State) : s.stopWatcher.condHeld = s.condHeld := by
  unfold State.stopWatcher; split
  · simp [setStopFlag_condHeld]
  · rfl

theorem kill_condHeld (s : State) (pid sig : Nat) : (s.kill pid sig).condHeld = s.condHeld := by
  unfold State.kill; split <;> rfl

theorem HCtx.setStopFlag {s : State} {i : Nat} {k : Kind} (c : HCtx s i k) (w : Nat) : HCtx (s.setStopFlag w) i k :=
  c.transfer (fun j _ => kp_setStopFlag s w j) (by rw [kp_setStopFlag]; exact c.me)
    (fun _ h => by rw [setStopFlag_condHeld] at h; exact h)

theorem HCtx.stopWatcher {s : State} {i : Nat} {k : Kind} (c : HCtx s i k) : HCtx s.stopWatcher i k :=
  c.transfer (fun j _ => kp_stopWatcher s j) (by rw [kp_stopWatcher]; exact c.me)
    (fun _ h => by rw [stopWatcher_condHeld] at h; exact h)

theorem HCtx.kill {s : State} {i : Nat} {k : Kind} (c : HCtx s i k) (pid sig : Nat) : HCtx (s.kill pid sig) i k :=
  c.transfer (fun j _ => kp_kill s pid sig j) (by rw [kp_kill]; exact c.me)
    (fun _ h => by rw [kill_condHeld] at h; exact h)

theorem HCtx.notify {s : State} {i : Nat} {k : Kind} (c : HCtx s i k) : HCtx s.notify i k := by
  rcases notify_eq s with e | e <;> rw [e]
  · exact c
  · exact c.congr rfl (fun _ => rfl)

/-- a thread is appended (it starts at `begin`, which is not a callback pc) -/
theorem HCtx.append {s s' : State} {i : Nat} {k : Kind} (c : HCtx s i k) (t0 : Thread) (h0b : t0.pc = .begin)
    (h1 : s'.threads = s.threads ++ [t0]) (h2 : s'.condHeld = s.condHeld) : HCtx s' i k := by
  obtain ⟨pc0, h0⟩ := c.me
  have hil := kp_lt h0
  have hold : ∀ j, j < s.threads.length → kp s' j = kp s j := fun j hj => by rw [kp_append _ h1]; simp [hj]
  refine ⟨⟨pc0, by rw [hold i hil]; exact h0⟩, fun hk hh => ?_, fun j k' pc hj hkj hp => ?_⟩
  · obtain ⟨d, k', pc, hd, hkd, h3, h4⟩ := c.oth hk (by rw [← h2]; exact hh)
    exact ⟨d, k', pc, hd, by rw [hold d (kp_lt hkd)]; exact hkd, h3, h4⟩
  · by_cases hl : j < s.threads.length
    · exact c.dty j k' pc hj (by rw [← hold j hl]; exact hkj) hp
    · rw [kp_append _ h1] at hkj
      simp only [hl, if_false] at hkj
      split at hkj
      · cases hkj; rw [h0b] at hp; cases hp
      · cases hkj

/-! ### the helpers of a step -/

theorem arrive_ch {s : State} {i : Nat} {k : Kind} (c : HCtx s i k) (hk : isDeb k = false) : CH (arrive s i) := by
  obtain ⟨pc0, h0⟩ := c.me
  have hil := kp_lt h0
  unfold arrive
  split
  · next hn => rw [List.getElem?_eq_getElem hil] at hn; cases hn
  · next t ht =>
    have htk : t.kind = k := by simp [kp, ht] at h0; exact h0.1
    have fin : ∀ (t' : Thread), t'.kind = t.kind → dpcB t'.pc = false → CH (s.setThread i t') := by
      intro t' hk' hnp
      have hkp : ∀ j, j ≠ i → kp (s.setThread i t') j = kp s j := fun j hj => by rw [kp_setThread]; simp [Ne.symm hj]
      have hme : kp (s.setThread i t') i = some (k, t'.pc) := by rw [kp_setThread]; simp [hil, hk', htk]
      exact (c.transfer (s' := s.setThread i t') hkp ⟨_, hme⟩ (fun _ h => by simpa using h)).close _ hme
        (fun hd => by rw [hk] at hd; cases hd) (fun h => by rw [hnp] at h; cases h)
    split
    · exact fin _ rfl rfl
    · exact fin _ rfl rfl
    · exact fin _ rfl rfl
    · exact fin _ rfl (by simp only; split <;> rfl)
    · exact fin _ rfl rfl

theorem debHead_ch {s : State} {i : Nat} {k : Kind} (c : HCtx s i k) (hk : isDeb k = true) : CH (debHead s i) := by
  have nd : isDeb k = false → False := fun h => by rw [hk] at h; cases h
  unfold debHead
  split
  · exact (c.congr (s' := { s with condHeld := false, notified := false }) rfl (fun h => (nd h).elim)).setPc_close _
      (fun _ h => by cases h) (fun _ => hk)
  · split
    · exact (c.congr (s' := { s with condHeld := false, notified := false }) rfl (fun h => (nd h).elim)).setPc_close _
        (fun _ h => by cases h) (fun _ => hk)
    · exact (c.congr (s' := { s with condHeld := false }) rfl (fun h => (nd h).elim)).setPc_close _ (fun _ h => by cases h) (fun _ => hk)

theorem debDeliver_ch {s : State} {i : Nat} {k : Kind} (c : HCtx s i k) (hk : isDeb k = true) : CH (debDeliver s i) := by
  have nd : isDeb k = false → False := fun h => by rw [hk] at h; cases h
  unfold debDeliver
  split
  · exact (c.congr (s' := { s with condHeld := false }) rfl (fun h => (nd h).elim)).setPc_close _ (fun _ h => by cases h) (fun _ => hk)
  · exact (c.congr (s' := { s with events := 0 }) rfl (fun _ => rfl)).setPc_close _ (fun _ _ => rfl) (fun h => by cases h)

theorem afterRestart_ch {s : State} {i : Nat} {k : Kind} (c : HCtx s i k) : CH (afterRestart s i) := by
  obtain ⟨pc0, h0⟩ := c.me
  have hil := kp_lt h0
  unfold afterRestart
  split
  · next hn => rw [List.getElem?_eq_getElem hil] at hn; cases hn
  · next t ht =>
    have htk : t.kind = k := by simp [kp, ht] at h0; exact h0.1
    split
    · next hk => exact arrive_ch (c.log _) (by rw [← htk, hk]; rfl)
    · next pid hk => exact c.setPc_close _ (fun hd => by rw [← htk, hk] at hd; cases hd) (fun h => by cases h)
    · next hk => exact debHead_ch c (by rw [← htk, hk]; rfl)

theorem restartFinish_ch {s : State} {i : Nat} {k : Kind} (c : HCtx s i k) : CH (restartFinish s i) :=
  afterRestart_ch (c.congr (s' := { s with restartCount := s.restartCount + 1, restartOwner := none }) rfl (fun _ => rfl))

theorem stopFinish_ch {s : State} {i : Nat} {k : Kind} (c : HCtx s i k) (hk : isDeb k = false) : CH (stopFinish s i) := by
  unfold stopFinish
  exact arrive_ch (c.log _) hk

theorem watcherLoop_ch {s : State} {i : Nat} {k : Kind} (pid : Nat) (c : HCtx s i k) (hk : isDeb k = false) :
    CH (watcherLoop s i pid) := by
  have nd : ∀ pc : Pc, isDeb k = true → s.condHeld = true → cbPc pc = true := fun _ h => by rw [hk] at h; cases h
  unfold watcherLoop
  split
  · exact c.setPc_close _ (nd _) (fun h => by cases h)
  · split
    · exact c.setPc_close _ (nd _) (fun h => by cases h)
    · exact c.setPc_close _ (nd _) (fun h => by cases h)

theorem HCtx.spawn {s : State} {i : Nat} {k : Kind} (c : HCtx s i k) : HCtx s.spawn i k := by
  have c1 : HCtx (preSpawn s) i k := c.congr rfl (fun _ => rfl)
  exact c1.log (.spawn s.procs.length s.clock)

theorem startProcess_ch {s : State} {i : Nat} {k : Kind} (inStart : Bool) (c : HCtx s i k)
    (hk : inStart = true → isDeb k = false) : CH (startProcess s i inStart) := by
  have fin : ∀ s' : State, HCtx s' i k →
      CH (if inStart = true then arrive (({ s' with restartOwner := none } : State).log (.started i s'.clock)) i
           else restartFinish s' i) := by
    intro s' c'
    split
    · next h => exact arrive_ch ((c'.congr (s' := { s' with restartOwner := none }) rfl (fun _ => rfl)).log _) (hk h)
    · exact restartFinish_ch c'
  unfold startProcess
  simp only
  split
  · exact fin s c
  · split
    · have c2 : HCtx (withWatcher s.spawn s.procs.length) i k := c.spawn.append _ rfl rfl rfl
      refine c2.setPc_close (if inStart = true then Pc.saStarted else Pc.rStarted) ?_ (fun h => by split at h <;> cases h)
      intro hd _
      split
      · next h => have := hk h; rw [this] at hd; cases hd
      · rfl
    · exact fin s.spawn c.spawn

theorem afterStopProc_ch {s : State} {i : Nat} {k : Kind} (a : After) (c : HCtx s i k)
    (hk : afterIsStop a = true → isDeb k = false) : CH (afterStopProc s i a) := by
  cases a with
  | restart => exact startProcess_ch false c (fun h => by cases h)
  | stop w =>
    have hnd : isDeb k = false := hk rfl
    have nd : ∀ pc : Pc, isDeb k = true → ({ s with restartOwner := none } : State).condHeld = true → cbPc pc = true :=
      fun _ h => by rw [hnd] at h; cases h
    have c1 : HCtx ({ s with restartOwner := none } : State) i k := c.congr rfl (fun _ => rfl)
    unfold afterStopProc
    simp only
    split
    · exact c1.setPc_close _ (nd _) (fun h => by cases h)
    · split
      · exact c1.setPc_close _ (nd _) (fun h => by cases h)
      · exact stopFinish_ch c1 hnd

theorem stopProcDone_ch {s : State} {i : Nat} {k : Kind} (a : After) (c : HCtx s i k)
    (hk : afterIsStop a = true → isDeb k = false) : CH (stopProcDone s i a) := by
  unfold stopProcDone
  exact afterStopProc_ch a (c.congr (s' := { s with process := none, procStopping := false }) rfl (fun _ => rfl)) hk

theorem killLoop_ch {s : State} {i : Nat} {k : Kind} (kt : Nat) (a : After) (c : HCtx s i k)
    (hk : afterIsStop a = true → isDeb k = false) : CH (killLoop s i kt a) := by
  unfold killLoop
  split
  · exact stopProcDone_ch a c hk
  · split
    · split
      · exact stopProcDone_ch a c hk
      · refine c.setPc_close _ ?_ (fun h => by cases h)
        intro hd _
        cases a with
        | restart => rfl
        | stop w => have := hk rfl; rw [this] at hd; cases hd
    · split
      · exact stopProcDone_ch a (c.kill _ 9) hk
      · exact stopProcDone_ch a c hk

theorem stopProcBody_ch {s : State} {i : Nat} {k : Kind} (a : After) (c : HCtx s i k)
    (hk : afterIsStop a = true → isDeb k = false) : CH (stopProcBody s i a) := by
  unfold stopProcBody
  split
  · exact afterStopProc_ch a c hk
  · have c2 : HCtx (({ s with procStopping := true } : State).stopWatcher) i k :=
      (c.congr (s' := { s with procStopping := true }) rfl (fun _ => rfl)).stopWatcher
    simp only
    split
    · exact afterStopProc_ch a (c2.congr rfl (fun _ => rfl)) hk
    · split
      · exact stopProcDone_ch a c2 hk
      · exact killLoop_ch _ a (c2.kill _ 2) hk

theorem startBody_ch {s : State} {i : Nat} {k : Kind} (c : HCtx s i k) (hk : isDeb k = false) : CH (startBody s i) := by
  have nd : ∀ (s' : State) (pc : Pc), isDeb k = true → s'.condHeld = true → cbPc pc = true :=
    fun _ _ h => by rw [hk] at h; cases h
  obtain ⟨pc0, h0⟩ := c.me
  unfold startBody
  split
  · exact arrive_ch (c.log _) hk
  · split
    · -- the debouncer is created: thread `i` moves to `saDebStarted`, then the new thread is appended
      have hkp : ∀ j, j ≠ i → kp (s.setPc i Pc.saDebStarted) j = kp s j := fun j hj => by rw [kp_setPc]; simp [Ne.symm hj]
      have hme : kp (s.setPc i Pc.saDebStarted) i = some (k, Pc.saDebStarted) := by rw [kp_setPc]; simp [h0]
      have c1 : HCtx (s.setPc i Pc.saDebStarted) i k := c.transfer hkp ⟨_, hme⟩ (fun _ h => by simpa using h)
      have c2 : HCtx (withDeb (s.setPc i Pc.saDebStarted) s.threads.length) i k := c1.append _ rfl rfl rfl
      have hme2 : kp (withDeb (s.setPc i Pc.saDebStarted) s.threads.length) i = some (k, Pc.saDebStarted) := by
        rw [kp_append (s := s.setPc i Pc.saDebStarted) { kind := .deb, pc := .begin } rfl i]
        simp [kp_lt h0, hme]
      exact c2.close _ hme2 (nd _ _) (fun h => by cases h)
    · exact c.setPc_close _ (nd _ _) (fun h => by cases h)

/-! ### one step, whole runs -/

theorem CH.open {s : State} {i : Nat} {t : Thread} (h : CH s) (hd : Deb s) (ht : s.threads[i]? = some t) :
    HCtx s i t.kind ∧ (isDeb t.kind = true → cbPc t.pc = false → s.condHeld = false) := by
  have hme : kp s i = some (t.kind, t.pc) := by simp [kp, ht]
  refine ⟨⟨⟨_, hme⟩, fun hk hh => ?_, fun j k' pc _ hkj hp => h.dty j k' pc (by simp) hkj hp⟩, fun hk hp => ?_⟩
  · obtain ⟨d, k', pc, _, hkd, h2, h3⟩ := h.held hh
    refine ⟨d, k', pc, ?_, hkd, h2, h3⟩
    intro e
    have : d = i := by simpa using e
    subst this
    rw [hme] at hkd; cases hkd
    rw [hk] at h2; cases h2
  · cases hc : s.condHeld with
    | false => rfl
    | true =>
      obtain ⟨d, k', pc, _, hkd, h2, h3⟩ := h.held hc
      have e1 := hd.uniq d k' pc hkd h2
      have e2 := hd.uniq i t.kind t.pc hme hk
      rw [e1] at e2
      have : d = i := by simpa using e2
      subst this
      rw [hme] at hkd; cases hkd
      rw [hp] at h3; cases h3

theorem stepT_ch {s : State} {i : Nat} {t : Thread} (hd : Deb s) (h : CH s) (ht : s.threads[i]? = some t)
    (hen : enabledT s t = true) : CH (stepT s i t) := by
  by_cases hdone : t.pc = .done
  · unfold stepT; rw [hdone]; exact h
  obtain ⟨c, hfree⟩ := h.open hd ht
  have htyped : isDeb t.kind = true → debPc t.pc = true := fun hk => hd.typed i _ _ (by simp) (by simp [kp, ht]) hk
  have notDeb : debPc t.pc = false → isDeb t.kind = false := by
    intro hp
    cases hk : isDeb t.kind with
    | false => rfl
    | true => rw [htyped hk] at hp; cases hp
  have isD : dpcB t.pc = true → isDeb t.kind = true := fun hp => h.dty i _ _ (by simp) (by simp [kp, ht]) hp
  have nd : isDeb t.kind = false → ∀ (s' : State) (pc : Pc), isDeb t.kind = true → s'.condHeld = true → cbPc pc = true :=
    fun hk _ _ h' => by rw [hk] at h'; cases h'
  unfold stepT
  split
  · exact h
  · -- begin
    next hb =>
    split
    · next hk => exact arrive_ch c (by rw [hk]; rfl)
    · next hk =>
      have hf := hfree (by rw [hk]; rfl) (by rw [hb]; rfl)
      exact c.setPc_close _ (fun _ hh => by rw [hf] at hh; cases hh) (fun _ => by rw [hk]; rfl)
    · next pid hk => exact watcherLoop_ch pid c (by rw [hk]; rfl)
  · next hb => exact arrive_ch c (notDeb (by rw [hb]; rfl))
  · next hb => exact startBody_ch c (notDeb (by rw [hb]; rfl))
  · next hb => exact c.setPc_close _ (nd (notDeb (by rw [hb]; rfl)) _ _) (fun h => by cases h)
  · -- saRAcq
    next hb =>
    have hk := notDeb (by rw [hb]; rfl)
    have c1 : HCtx ({ s with restartOwner := some i } : State) i t.kind := c.congr rfl (fun _ => rfl)
    simp only
    split
    · exact startProcess_ch true c1 (fun _ => hk)
    · exact arrive_ch ((c1.congr (s' := { s with restartOwner := none }) rfl (fun _ => rfl)).log _) hk
  · next hb => exact arrive_ch ((c.congr (s' := { s with restartOwner := none }) rfl (fun _ => rfl)).log _) (notDeb (by rw [hb]; rfl))
  · -- evCond
    next hb =>
    exact arrive_ch (((c.congr (s' := { s with events := s.events + 1 }) rfl (fun _ => rfl)).notify).log _) (notDeb (by rw [hb]; rfl))
  · -- rAcq
    split
    · exact afterRestart_ch c
    · exact (c.congr (s' := { s with restartOwner := some i }) rfl (fun _ => rfl)).setPc_close _ (fun _ _ => rfl) (fun h => by cases h)
  · -- spAcq
    next a hb =>
    refine stopProcBody_ch a c ?_
    intro ha; apply notDeb; rw [hb]; cases a <;> simp_all [afterIsStop, debPc]
  · next kt dl a hb =>
    refine killLoop_ch kt a c ?_
    intro ha; apply notDeb; rw [hb]; cases a <;> simp_all [afterIsStop, debPc]
  · exact restartFinish_ch c
  · -- stAcq
    next hb =>
    have hk := notDeb (by rw [hb]; rfl)
    split
    · exact arrive_ch (c.log _) hk
    · exact (c.congr (s' := { s with trickStopping := true }) rfl (fun _ => rfl)).setPc_close _ (nd hk _ _) (fun h => by split at h <;> cases h)
  · -- stCond
    next hb =>
    have hk := notDeb (by rw [hb]; rfl)
    have c1 : HCtx (match s.debTid with | some d => s.setStopFlag d | none => s) i t.kind := by
      split
      · exact c.setStopFlag _
      · exact c
    exact c1.notify.setPc_close _ (nd hk _ _) (fun h => by cases h)
  · next hb =>
    exact (c.congr (s' := { s with restartOwner := some i }) rfl (fun _ => rfl)).setPc_close _ (nd (notDeb (by rw [hb]; rfl)) _ _) (fun h => by cases h)
  · -- stJoinDeb
    next w hb =>
    have hk := notDeb (by rw [hb]; rfl)
    split
    · exact c.setPc_close _ (nd hk _ _) (fun h => by cases h)
    · exact stopFinish_ch c hk
  · next w rest hb =>
    have hk := notDeb (by rw [hb]; rfl)
    split
    · exact c.setPc_close _ (nd hk _ _) (fun h => by cases h)
    · exact stopFinish_ch c hk
  · -- wWait
    next hb =>
    have hk := notDeb (by rw [hb]; rfl)
    split
    · exact c.setPc_close _ (nd hk _ _) (fun h => by cases h)
    · split
      · next pid _ => exact watcherLoop_ch pid c hk
      · exact c.setPc_close _ (nd hk _ _) (fun h => by cases h)
  · next hb =>
    have hk := isD (by rw [hb]; rfl)
    exact debHead_ch (c.congr (s' := { s with condHeld := true }) rfl (fun h' => by rw [hk] at h'; cases h')) hk
  · next hb =>
    have hk := isD (by rw [hb]; rfl)
    exact debHead_ch (c.congr (s' := { s with condHeld := true, notified := false }) rfl (fun h' => by rw [hk] at h'; cases h')) hk
  · -- dWaitMore
    next dl hb =>
    have hk := isD (by rw [hb]; rfl)
    have c1 : HCtx ({ s with condHeld := true, notified := false } : State) i t.kind :=
      c.congr rfl (fun h' => by rw [hk] at h'; cases h')
    simp only
    split
    · split
      · exact (c1.congr (s' := { s with condHeld := false, notified := false }) rfl (fun h' => by rw [hk] at h'; cases h')).setPc_close _
          (fun _ h' => by cases h') (fun _ => hk)
      · exact debDeliver_ch c1 hk
    · exact debDeliver_ch c1 hk

theorem init_ch (cfg : Cfg) (lifetimes : List (Option Nat)) (scripts : List (List Op)) : CH (init cfg lifetimes scripts) := by
  have hk : ∀ j k pc, kp (init cfg lifetimes scripts) j = some (k, pc) → pc = .begin := by
    intro j k pc h
    simp only [kp, init, List.getElem?_map] at h
    cases hs : scripts[j]? with
    | none => rw [hs] at h; cases h
    | some x => rw [hs] at h; simp at h; exact h.2.symm
  refine ⟨fun h => by simp [init] at h, ?_⟩
  intro j k pc _ h hp; rw [hk j k pc h] at hp; cases hp

theorem run_ch {s : State} (hi : Inv s) (hd : Deb s) (hc : CH s) (as : List Action) :
    Inv (run s as) ∧ Deb (run s as) ∧ CH (run s as) := by
  induction as generalizing s with
  | nil => exact ⟨hi, hd, hc⟩
  | cons a as ih =>
    have hid := run_inv_deb hi hd [a]
    refine ih hid.1 hid.2 ?_
    cases a with
    | tick d => exact ⟨hc.held, hc.dty⟩
    | step tid =>
      simp only [act, step]
      split
      · next t ht =>
        split
        · next hen => exact stepT_ch hd hc ht hen
        · exact hc
      · exact hc

/-- some thread can step now, or one is in a timed wait that a pending deadline ends -/
def CanMoveT (s : State) : Prop :=
  (∃ i, enabled s i = true) ∨ (∃ (i : Nat) (ti : Thread) (kt dl : Nat) (a : After), s.threads[i]? = some ti ∧ ti.pc = Pc.spSleep kt dl a)

/-- pcs at which a thread waits for the debouncer's condition lock -/
def waitsC : Pc → Bool
  | .evCond | .stCond | .dAcq => true
  | _ => false

/-- a thread waiting for the condition lock, in a reachable state: the lock is free, or the debouncer holds it inside
    its callback, where it can step, waits for one of the two locks (whose holders can move) or sleeps in the kill loop -/
theorem waitC_progress {s : State} (inv : Inv s) (hc : CH s) (j : Nat) (t : Thread) (ht : s.threads[j]? = some t)
    (hw : waitsC t.pc = true) : CanMove s := by
  cases hh : s.condHeld with
  | false =>
    refine Or.inl ⟨j, ?_⟩
    simp only [enabled, ht]
    cases hpc : t.pc <;> simp [waitsC, hpc] at hw <;> simp [enabledT, hpc, hh]
  | true =>
    obtain ⟨d, k, pc, _, hkd, _, hcb⟩ := hc.held hh
    unfold kp at hkd
    cases htd : s.threads[d]? with
    | none => rw [htd] at hkd; cases hkd
    | some td =>
      rw [htd] at hkd
      simp only [Option.map_some, Option.some.injEq, Prod.mk.injEq] at hkd
      obtain ⟨_, hpc⟩ := hkd
      subst hpc
      cases hpc : td.pc <;> rw [hpc] at hcb <;> simp [cbPc] at hcb
      · exact waitR_progress inv d td htd (by rw [hpc]; rfl)
      · exact Or.inl (waitS_progress s d td htd (by rw [hpc]; rfl))
      · exact Or.inr ⟨d, td, _, _, _, htd, hpc⟩
      · exact Or.inl ⟨d, by simp [enabled, htd, enabledT, hpc]⟩

end WD.ProofsRst
