/- WD.Rst: the debouncer's stop flag.  `event_debouncer` refers to a debouncer thread; once the trick is stopping, that
   thread's stop flag is up or the stopping thread is still on its way to `event_debouncer.stop()`; and a debouncer whose
   flag is up is never left waiting un-notified for a first event. -/
import WD.Proofs.Restart.Joins
namespace WD.ProofsRst
open WD.Rst

/-! ### the stop flag under the updates -/

theorem stopFlagOf_setThread (s : State) (i j : Nat) (t : Thread) :
    (s.setThread i t).stopFlagOf j = if i = j ∧ i < s.threads.length then t.stopFlag else s.stopFlagOf j := by
  unfold State.stopFlagOf
  simp only [setThread_threads, List.getElem?_set]
  by_cases h : i = j
  · subst h
    by_cases hl : i < s.threads.length
    · simp [hl]
    · simp [hl]
  · simp [h]

theorem stopFlagOf_setPc (s : State) (i j : Nat) (pc : Pc) : (s.setPc i pc).stopFlagOf j = s.stopFlagOf j := by
  unfold State.setPc
  split
  · next t ht =>
    rw [stopFlagOf_setThread]
    split
    · next h => obtain ⟨rfl, _⟩ := h; simp [State.stopFlagOf, ht]
    · rfl
  · rfl

theorem stopFlagOf_setStopFlag_ne (s : State) (w j : Nat) (h : j ≠ w) : (s.setStopFlag w).stopFlagOf j = s.stopFlagOf j := by
  unfold State.setStopFlag
  split
  · rw [stopFlagOf_setThread]; simp [Ne.symm h]
  · rfl

theorem stopFlagOf_setStopFlag_self (s : State) (w : Nat) (h : w < s.threads.length) : (s.setStopFlag w).stopFlagOf w = true := by
  unfold State.setStopFlag
  split
  · rw [stopFlagOf_setThread]; simp [h]
  · next hn => rw [List.getElem?_eq_getElem h] at hn; cases hn

theorem stopFlagOf_mono_setStopFlag (s : State) (w j : Nat) (h : s.stopFlagOf j = true) : (s.setStopFlag w).stopFlagOf j = true := by
  by_cases e : j = w
  · subst e
    have : j < s.threads.length := by
      unfold State.stopFlagOf at h
      cases ht : s.threads[j]? with
      | none => rw [ht] at h; cases h
      | some t => exact (List.getElem?_eq_some_iff.mp ht).1
    exact stopFlagOf_setStopFlag_self s j this
  · rw [stopFlagOf_setStopFlag_ne s w j e]; exact h

theorem stopFlagOf_congr {s s' : State} (h : s'.threads = s.threads) (j : Nat) : s'.stopFlagOf j = s.stopFlagOf j := by
  unfold State.stopFlagOf; rw [h]

theorem stopFlagOf_append {s s' : State} (t0 : Thread) (h1 : s'.threads = s.threads ++ [t0]) (j : Nat)
    (hj : j < s.threads.length) : s'.stopFlagOf j = s.stopFlagOf j := by
  unfold State.stopFlagOf; rw [h1, List.getElem?_append_left hj]

/-! ### the invariant -/

structure FX (s : State) (x : Option Nat) : Prop where
  dk : ∀ d, s.debTid = some d → ∃ pc, kp s d = some (Kind.deb, pc)
  uq : ∀ j pc, kp s j = some (Kind.deb, pc) → s.debTid = some j
  c2 : ∀ d, some d ≠ x → kp s d = some (Kind.deb, Pc.dWaitFirst) → s.stopFlagOf d = true → s.notified = true
  c3 : s.trickStopping = true → ∀ d, s.debTid = some d →
    s.stopFlagOf d = true ∨ ∃ j k, some j ≠ x ∧ kp s j = some (k, Pc.stCond)

abbrev FI (s : State) : Prop := FX s none

/-- in the middle of a step of thread `i`, of kind `k` -/
structure FCtx (s : State) (i : Nat) (k : Kind) : Prop where
  x : FX s (some i)
  me : ∃ pc, kp s i = some (k, pc)

theorem FCtx.debIsMe {s : State} {i : Nat} {k : Kind} (c : FCtx s i k) (hk : k = .deb) : s.debTid = some i := by
  obtain ⟨pc, h⟩ := c.me; subst hk; exact c.x.uq i pc h

/-- an update that leaves the other threads' kinds and pcs alone, the debouncer reference, its flag and `trickStopping`
    too, and `notified` unless thread `i` is the debouncer -/
theorem FCtx.transfer {s s' : State} {i : Nat} {k : Kind} (c : FCtx s i k)
    (hkp : ∀ j, j ≠ i → kp s' j = kp s j) (hme : ∃ pc, kp s' i = some (k, pc)) (hd : s'.debTid = s.debTid)
    (hf : ∀ d, s.debTid = some d → s'.stopFlagOf d = true → s.stopFlagOf d = true)
    (hf' : ∀ d, s.stopFlagOf d = true → s'.stopFlagOf d = true)
    (hn : k ≠ .deb → s.notified = true → s'.notified = true) (ht : s'.trickStopping = s.trickStopping) : FCtx s' i k := by
  refine ⟨⟨?_, ?_, ?_, ?_⟩, hme⟩
  · intro d hd'
    rw [hd] at hd'
    obtain ⟨pc, h⟩ := c.x.dk d hd'
    by_cases hdi : d = i
    · subst hdi
      obtain ⟨pc0, h0⟩ := c.me
      rw [h0] at h; cases h
      obtain ⟨pc1, h1⟩ := hme
      exact ⟨pc1, h1⟩
    · exact ⟨pc, by rw [hkp d hdi]; exact h⟩
  · intro j pc h
    rw [hd]
    by_cases hji : j = i
    · subst hji
      obtain ⟨pc1, h1⟩ := hme
      rw [h1] at h; cases h
      obtain ⟨pc0, h0⟩ := c.me
      exact c.x.uq j pc0 h0
    · exact c.x.uq j pc (by rw [← hkp j hji]; exact h)
  · intro d hdx hk hfl
    have hdi : d ≠ i := fun e => hdx (by rw [e])
    have hk0 : kp s d = some (Kind.deb, Pc.dWaitFirst) := by rw [← hkp d hdi]; exact hk
    have hdt := c.x.uq d _ hk0
    have := c.x.c2 d hdx hk0 (hf d hdt hfl)
    refine hn ?_ this
    intro hkd
    have := c.debIsMe hkd
    rw [hdt] at this
    exact hdi (by simpa using this)
  · intro htr d hd'
    rw [ht] at htr; rw [hd] at hd'
    rcases c.x.c3 htr d hd' with h | ⟨j, k', hj, hkj⟩
    · exact Or.inl (hf' d h)
    · have hji : j ≠ i := fun e => hj (by rw [e])
      exact Or.inr ⟨j, k', hj, by rw [hkp j hji]; exact hkj⟩

theorem FCtx.close {s : State} {i : Nat} {k : Kind} (c : FCtx s i k) (pc : Pc) (hme : kp s i = some (k, pc))
    (h2 : k = .deb → pc = .dWaitFirst → s.stopFlagOf i = true → s.notified = true) : FI s := by
  refine ⟨c.x.dk, c.x.uq, ?_, ?_⟩
  · intro d _ hk hfl
    by_cases hdi : d = i
    · subst hdi; rw [hme] at hk; cases hk; exact h2 rfl rfl hfl
    · exact c.x.c2 d (by simp [hdi]) hk hfl
  · intro htr d hd
    rcases c.x.c3 htr d hd with h | ⟨j, k', _, hkj⟩
    · exact Or.inl h
    · exact Or.inr ⟨j, k', by simp, hkj⟩

@[simp] theorem setPc_notified (s : State) (i : Nat) (pc : Pc) : (s.setPc i pc).notified = s.notified := by
  unfold State.setPc; split <;> rfl
@[simp] theorem setStopFlag_notified (s : State) (w : Nat) : (s.setStopFlag w).notified = s.notified := by
  unfold State.setStopFlag; split <;> rfl
@[simp] theorem setPc_debTid' (s : State) (i : Nat) (pc : Pc) : (s.setPc i pc).debTid = s.debTid := by
  unfold State.setPc; split <;> rfl

theorem FCtx.setPc {s : State} {i : Nat} {k : Kind} (c : FCtx s i k) (pc : Pc) : FCtx (s.setPc i pc) i k := by
  obtain ⟨pc0, h0⟩ := c.me
  have hkp : ∀ j, j ≠ i → kp (s.setPc i pc) j = kp s j := fun j hj => by rw [kp_setPc]; simp [Ne.symm hj]
  have hme : kp (s.setPc i pc) i = some (k, pc) := by rw [kp_setPc]; simp [h0]
  exact c.transfer hkp ⟨pc, hme⟩ (by simp) (fun d _ h => by rwa [stopFlagOf_setPc] at h)
    (fun d h => by rwa [stopFlagOf_setPc]) (fun _ h => by simpa using h) (by simp)

theorem FCtx.setPc_close {s : State} {i : Nat} {k : Kind} (c : FCtx s i k) (pc : Pc)
    (h2 : k = .deb → pc = .dWaitFirst → s.stopFlagOf i = true → s.notified = true) : FI (s.setPc i pc) := by
  obtain ⟨pc0, h0⟩ := c.me
  have hme : kp (s.setPc i pc) i = some (k, pc) := by rw [kp_setPc]; simp [h0]
  exact (c.setPc pc).close pc hme (fun hk hp hf => by
    rw [stopFlagOf_setPc] at hf; simpa using h2 hk hp hf)

/-- an update of fields other than the threads, the debouncer reference and `trickStopping`; `notified` may only be
    lowered by the debouncer itself -/
theorem FCtx.congr {s s' : State} {i : Nat} {k : Kind} (c : FCtx s i k) (h1 : s'.threads = s.threads)
    (h2 : s'.debTid = s.debTid) (h3 : k ≠ .deb → s.notified = true → s'.notified = true)
    (h4 : s'.trickStopping = s.trickStopping) : FCtx s' i k :=
  c.transfer (fun j _ => by simp [kp, h1]) (by obtain ⟨pc, h⟩ := c.me; exact ⟨pc, by simpa [kp, h1] using h⟩) h2
    (fun d _ h => by rwa [stopFlagOf_congr h1] at h) (fun d h => by rwa [stopFlagOf_congr h1]) h3 h4

theorem FCtx.log {s : State} {i : Nat} {k : Kind} (c : FCtx s i k) (o : Obs) : FCtx (s.log o) i k :=
  c.congr rfl rfl (fun _ h => h) rfl

theorem FCtx.kill {s : State} {i : Nat} {k : Kind} (c : FCtx s i k) (pid sig : Nat) : FCtx (s.kill pid sig) i k := by
  have ht : (s.kill pid sig).threads = s.threads := by unfold State.kill; split <;> rfl
  have hn : (s.kill pid sig).notified = s.notified := by unfold State.kill; split <;> rfl
  have hs : (s.kill pid sig).trickStopping = s.trickStopping := by unfold State.kill; split <;> rfl
  exact c.congr ht (kill_debTid s pid sig) (fun _ h => by rw [hn]; exact h) hs

theorem FCtx.notify {s : State} {i : Nat} {k : Kind} (c : FCtx s i k) : FCtx s.notify i k := by
  rcases notify_eq s with e | e <;> rw [e]
  · exact c
  · exact c.congr rfl rfl (fun _ _ => rfl) rfl

/-- `process_watcher.stop()`: the flag of a watcher thread goes up - never the debouncer's -/
theorem FCtx.stopWatcher {s : State} {i : Nat} {k : Kind} (c : FCtx s i k) (hw : ∀ w, s.watcher = some w → isWat s w) :
    FCtx s.stopWatcher i k := by
  unfold State.stopWatcher
  split
  · next w hw' =>
    have hwat := hw w hw'
    have c1 : FCtx (s.setStopFlag w) i k := by
      refine c.transfer (fun j _ => kp_setStopFlag s w j) (by rw [kp_setStopFlag]; exact c.me) (by simp) ?_
        (fun d h => stopFlagOf_mono_setStopFlag s w d h) (fun _ h => by simpa using h) (by simp)
      intro d hd hfl
      have hdw : d ≠ w := by
        intro e; subst e
        obtain ⟨pc, hk⟩ := c.x.dk d hd
        obtain ⟨pid, pc', hk'⟩ := hwat
        rw [hk] at hk'; cases hk'
      rwa [stopFlagOf_setStopFlag_ne s w d hdw] at hfl
    exact c1.congr rfl rfl (fun _ h => h) rfl
  · exact c

theorem FCtx.append {s s' : State} {i : Nat} {k : Kind} (c : FCtx s i k) (t0 : Thread) (h0b : t0.pc = .begin)
    (h0k : t0.kind ≠ .deb) (h1 : s'.threads = s.threads ++ [t0]) (h2 : s'.debTid = s.debTid)
    (h3 : s'.notified = s.notified) (h4 : s'.trickStopping = s.trickStopping) : FCtx s' i k := by
  obtain ⟨pc0, h0⟩ := c.me
  have hil := kp_lt h0
  have hold : ∀ j, j < s.threads.length → kp s' j = kp s j := fun j hj => by rw [kp_append _ h1]; simp [hj]
  have hnew : ∀ j x, ¬ j < s.threads.length → kp s' j = some x → x = (t0.kind, Pc.begin) := by
    intro j x hj hk
    rw [kp_append _ h1] at hk
    simp only [hj, if_false] at hk
    split at hk
    · rw [h0b] at hk; exact (Option.some.inj hk).symm
    · cases hk
  refine ⟨⟨?_, ?_, ?_, ?_⟩, ⟨pc0, by rw [hold i hil]; exact h0⟩⟩
  · intro d hd; rw [h2] at hd
    obtain ⟨pc, h⟩ := c.x.dk d hd
    exact ⟨pc, by rw [hold d (kp_lt h)]; exact h⟩
  · intro j pc h
    rw [h2]
    by_cases hl : j < s.threads.length
    · exact c.x.uq j pc (by rw [← hold j hl]; exact h)
    · have := hnew j _ hl h
      simp only [Prod.mk.injEq] at this
      exact absurd this.1.symm h0k
  · intro d hdx hk hfl
    by_cases hl : d < s.threads.length
    · rw [h3]
      exact c.x.c2 d hdx (by rw [← hold d hl]; exact hk) (by rwa [stopFlagOf_append t0 h1 d hl] at hfl)
    · have := hnew d _ hl hk
      simp only [Prod.mk.injEq] at this
      cases this.2
  · intro htr d hd
    rw [h4] at htr; rw [h2] at hd
    obtain ⟨pc, hkd⟩ := c.x.dk d hd
    rcases c.x.c3 htr d hd with h | ⟨j, k', hj, hkj⟩
    · exact Or.inl (by rw [stopFlagOf_append t0 h1 d (kp_lt hkd)]; exact h)
    · exact Or.inr ⟨j, k', hj, by rw [hold j (kp_lt hkj)]; exact hkj⟩

/-! ### the helpers of a step -/

theorem arrive_fi {s : State} {i : Nat} {k : Kind} (c : FCtx s i k) (hk : k ≠ .deb) : FI (arrive s i) := by
  obtain ⟨pc0, h0⟩ := c.me
  have hil := kp_lt h0
  unfold arrive
  split
  · next hn => rw [List.getElem?_eq_getElem hil] at hn; cases hn
  · next t ht =>
    have htk : t.kind = k := by simp [kp, ht] at h0; exact h0.1
    have fin : ∀ (t' : Thread), t'.kind = t.kind → t'.stopFlag = t.stopFlag → FI (s.setThread i t') := by
      intro t' hk' hfl
      have hkp : ∀ j, j ≠ i → kp (s.setThread i t') j = kp s j := fun j hj => by rw [kp_setThread]; simp [Ne.symm hj]
      have hme : kp (s.setThread i t') i = some (k, t'.pc) := by rw [kp_setThread]; simp [hil, hk', htk]
      have hfs : ∀ d, (s.setThread i t').stopFlagOf d = s.stopFlagOf d := by
        intro d
        rw [stopFlagOf_setThread]
        split
        · next h => obtain ⟨rfl, _⟩ := h; simp [State.stopFlagOf, ht, hfl]
        · rfl
      exact (c.transfer (s' := s.setThread i t') hkp ⟨_, hme⟩ rfl (fun d _ h => by rwa [hfs] at h)
        (fun d h => by rwa [hfs]) (fun _ h => h) rfl).close _ hme (fun e => absurd e hk)
    split
    · exact fin _ rfl rfl
    · exact fin _ rfl rfl
    · exact fin _ rfl rfl
    · exact fin _ rfl rfl
    · exact fin _ rfl rfl

theorem debRunning_false_flag {s : State} {d : Nat} (hd : s.debTid = some d) (h : s.debRunning = false) :
    s.stopFlagOf d = true := by
  unfold State.debRunning at h
  rw [hd] at h
  simpa using h

theorem debRunning_true_flag {s : State} {d : Nat} (hd : s.debTid = some d) (h : s.debRunning = true) :
    s.stopFlagOf d = false := by
  unfold State.debRunning at h
  rw [hd] at h
  simpa using h

theorem debHead_fi {s : State} {i : Nat} {k : Kind} (c : FCtx s i k) (hk : k = .deb) : FI (debHead s i) := by
  have hme := c.debIsMe hk
  unfold debHead
  split
  · next hcond =>
    simp only [Bool.and_eq_true] at hcond
    have hfl := debRunning_true_flag hme hcond.2
    refine (c.congr (s' := { s with condHeld := false, notified := false }) rfl rfl (fun h => absurd hk h) rfl).setPc_close _ ?_
    intro _ _ hf
    have : ({ s with condHeld := false, notified := false } : State).stopFlagOf i = s.stopFlagOf i := stopFlagOf_congr rfl i
    rw [this, hfl] at hf; cases hf
  · split
    · exact (c.congr (s' := { s with condHeld := false, notified := false }) rfl rfl (fun h => absurd hk h) rfl).setPc_close _
        (fun _ h => by cases h)
    · exact (c.congr (s' := { s with condHeld := false }) rfl rfl (fun _ h => h) rfl).setPc_close _ (fun _ h => by cases h)

theorem debDeliver_fi {s : State} {i : Nat} {k : Kind} (c : FCtx s i k) : FI (debDeliver s i) := by
  unfold debDeliver
  split
  · exact (c.congr (s' := { s with condHeld := false }) rfl rfl (fun _ h => h) rfl).setPc_close _ (fun _ h => by cases h)
  · exact (c.congr (s' := { s with events := 0 }) rfl rfl (fun _ h => h) rfl).setPc_close _ (fun _ h => by cases h)

theorem afterRestart_fi {s : State} {i : Nat} {k : Kind} (c : FCtx s i k) : FI (afterRestart s i) := by
  obtain ⟨pc0, h0⟩ := c.me
  have hil := kp_lt h0
  unfold afterRestart
  split
  · next hn => rw [List.getElem?_eq_getElem hil] at hn; cases hn
  · next t ht =>
    have htk : t.kind = k := by simp [kp, ht] at h0; exact h0.1
    split
    · next hk => exact arrive_fi (c.log _) (by rw [← htk, hk]; intro h; cases h)
    · exact c.setPc_close _ (fun _ h => by cases h)
    · next hk => exact debHead_fi c (by rw [← htk, hk])

theorem restartFinish_fi {s : State} {i : Nat} {k : Kind} (c : FCtx s i k) : FI (restartFinish s i) :=
  afterRestart_fi (c.congr (s' := { s with restartCount := s.restartCount + 1, restartOwner := none }) rfl rfl (fun _ h => h) rfl)

theorem stopFinish_fi {s : State} {i : Nat} {k : Kind} (c : FCtx s i k) (hk : k ≠ .deb) : FI (stopFinish s i) := by
  unfold stopFinish
  exact arrive_fi (c.log _) hk

theorem watcherLoop_fi {s : State} {i : Nat} {k : Kind} (pid : Nat) (c : FCtx s i k) : FI (watcherLoop s i pid) := by
  unfold watcherLoop
  split
  · exact c.setPc_close _ (fun _ h => by cases h)
  · split
    · exact c.setPc_close _ (fun _ h => by cases h)
    · exact c.setPc_close _ (fun _ h => by cases h)

theorem FCtx.spawn {s : State} {i : Nat} {k : Kind} (c : FCtx s i k) : FCtx s.spawn i k := by
  have c1 : FCtx (preSpawn s) i k := c.congr rfl rfl (fun _ h => h) rfl
  exact c1.log (.spawn s.procs.length s.clock)

theorem startProcess_fi {s : State} {i : Nat} {k : Kind} (inStart : Bool) (c : FCtx s i k)
    (hk : inStart = true → k ≠ .deb) : FI (startProcess s i inStart) := by
  have fin : ∀ s' : State, FCtx s' i k →
      FI (if inStart = true then arrive (({ s' with restartOwner := none } : State).log (.started i s'.clock)) i
           else restartFinish s' i) := by
    intro s' c'
    split
    · next h => exact arrive_fi ((c'.congr (s' := { s' with restartOwner := none }) rfl rfl (fun _ h => h) rfl).log _) (hk h)
    · exact restartFinish_fi c'
  unfold startProcess
  simp only
  split
  · exact fin s c
  · split
    · have c2 : FCtx (withWatcher s.spawn s.procs.length) i k :=
        c.spawn.append { kind := .watcher s.procs.length, pc := .begin } rfl (fun h => by cases h) rfl rfl rfl rfl
      exact c2.setPc_close (if inStart = true then Pc.saStarted else Pc.rStarted) (fun _ h => by split at h <;> cases h)
    · exact fin s.spawn c.spawn

theorem afterStopProc_fi {s : State} {i : Nat} {k : Kind} (a : After) (c : FCtx s i k)
    (hk : afterIsStop a = true → k ≠ .deb) : FI (afterStopProc s i a) := by
  cases a with
  | restart => exact startProcess_fi false c (fun h => by cases h)
  | stop w =>
    have hnd : k ≠ .deb := hk rfl
    have c1 : FCtx ({ s with restartOwner := none } : State) i k := c.congr rfl rfl (fun _ h => h) rfl
    unfold afterStopProc
    simp only
    split
    · exact c1.setPc_close _ (fun _ h => by cases h)
    · split
      · exact c1.setPc_close _ (fun _ h => by cases h)
      · exact stopFinish_fi c1 hnd

theorem stopProcDone_fi {s : State} {i : Nat} {k : Kind} (a : After) (c : FCtx s i k)
    (hk : afterIsStop a = true → k ≠ .deb) : FI (stopProcDone s i a) := by
  unfold stopProcDone
  exact afterStopProc_fi a (c.congr (s' := { s with process := none, procStopping := false }) rfl rfl (fun _ h => h) rfl) hk

theorem killLoop_fi {s : State} {i : Nat} {k : Kind} (kt : Nat) (a : After) (c : FCtx s i k)
    (hk : afterIsStop a = true → k ≠ .deb) : FI (killLoop s i kt a) := by
  unfold killLoop
  split
  · exact stopProcDone_fi a c hk
  · split
    · split
      · exact stopProcDone_fi a c hk
      · exact c.setPc_close _ (fun _ h => by cases h)
    · split
      · exact stopProcDone_fi a (c.kill _ 9) hk
      · exact stopProcDone_fi a c hk

theorem stopProcBody_fi {s : State} {i : Nat} {k : Kind} (a : After) (c : FCtx s i k)
    (hw : ∀ w, s.watcher = some w → isWat s w) (hk : afterIsStop a = true → k ≠ .deb) : FI (stopProcBody s i a) := by
  unfold stopProcBody
  split
  · exact afterStopProc_fi a c hk
  · have c2 : FCtx (({ s with procStopping := true } : State).stopWatcher) i k :=
      (c.congr (s' := { s with procStopping := true }) rfl rfl (fun _ h => h) rfl).stopWatcher
        (fun w h => isWat_congr (s := s) rfl (hw w h))
    simp only
    split
    · exact afterStopProc_fi a (c2.congr rfl rfl (fun _ h => h) rfl) hk
    · split
      · exact stopProcDone_fi a c2 hk
      · exact killLoop_fi _ a (c2.kill _ 2) hk

/-- `start()` from the acquisition of `_stopping_lock`: the debouncer is created only while the trick is not stopping -/
theorem startBody_fi {s : State} {i : Nat} {k : Kind} (c : FCtx s i k) (hk : k ≠ .deb) : FI (startBody s i) := by
  obtain ⟨pc0, h0⟩ := c.me
  have hil := kp_lt h0
  unfold startBody
  split
  · exact arrive_fi (c.log _) hk
  · next hts =>
    split
    · next hcond =>
      simp only [Bool.and_eq_true, Option.isNone_iff_eq_none] at hcond
      have hnone : s.debTid = none := hcond.2
      have hts' : s.trickStopping = false := by simpa using hts
      have c1 := c.setPc Pc.saDebStarted
      obtain ⟨pc1, h1⟩ := c1.me
      have hkpS : ∀ j, kp (withDeb (s.setPc i Pc.saDebStarted) s.threads.length) j =
          if j < s.threads.length then kp (s.setPc i Pc.saDebStarted) j
          else if j = s.threads.length then some (Kind.deb, Pc.begin) else none := by
        intro j
        rw [kp_append (s := s.setPc i Pc.saDebStarted) { kind := .deb, pc := .begin } rfl j]
        simp only [setPc_length]
      show FI (withDeb (s.setPc i Pc.saDebStarted) s.threads.length)
      have noDeb : ∀ j pc, kp (s.setPc i Pc.saDebStarted) j = some (Kind.deb, pc) → False := by
        intro j pc h
        have := c1.x.uq j pc h
        rw [setPc_debTid', hnone] at this; cases this
      refine ⟨?_, ?_, ?_, ?_⟩
      · intro d hd
        have : d = s.threads.length := by simpa [withDeb] using hd.symm
        subst this
        exact ⟨.begin, by rw [hkpS]; simp⟩
      · intro j pc h
        rw [hkpS] at h
        split at h
        · exact (noDeb j pc h).elim
        · split at h
          · next e => subst e; rfl
          · cases h
      · intro d _ hkd hfl
        rw [hkpS] at hkd
        split at hkd
        · exact (noDeb d _ hkd).elim
        · split at hkd
          · cases hkd
          · cases hkd
      · intro htr
        have : (withDeb (s.setPc i Pc.saDebStarted) s.threads.length).trickStopping = s.trickStopping := by simp [withDeb]
        rw [this, hts'] at htr; cases htr
    · exact c.setPc_close _ (fun _ h => by cases h)

/-! ### one step, whole runs -/

theorem FI.open {s : State} {i : Nat} {t : Thread} (h : FI s) (ht : s.threads[i]? = some t) (hns : t.pc ≠ .stCond) :
    FCtx s i t.kind := by
  have hme : kp s i = some (t.kind, t.pc) := by simp [kp, ht]
  refine ⟨⟨h.dk, h.uq, fun d _ hk hf => h.c2 d (by simp) hk hf, ?_⟩, ⟨_, hme⟩⟩
  intro htr d hd
  rcases h.c3 htr d hd with hf | ⟨j, k', _, hkj⟩
  · exact Or.inl hf
  · refine Or.inr ⟨j, k', ?_, hkj⟩
    intro e
    have : j = i := by simpa using e
    subst this
    rw [hme] at hkj
    simp only [Option.some.injEq, Prod.mk.injEq] at hkj
    exact hns hkj.2

theorem stepT_fi {s : State} {i : Nat} {t : Thread} (hd : Deb s) (hc : CH s) (hw : WI s) (h : FI s)
    (ht : s.threads[i]? = some t) : FI (stepT s i t) := by
  by_cases hdone : t.pc = .done
  · unfold stepT; rw [hdone]; exact h
  have hme : kp s i = some (t.kind, t.pc) := by simp [kp, ht]
  have htyped : isDeb t.kind = true → debPc t.pc = true := fun hk => hd.typed i _ _ (by simp) hme hk
  have notDeb : debPc t.pc = false → t.kind ≠ .deb := by
    intro hp hk
    have := htyped (by rw [hk]; rfl)
    rw [this] at hp; cases hp
  have isD : dpcB t.pc = true → t.kind = .deb := by
    intro hp
    have := hc.dty i _ _ (by simp) hme hp
    cases hk : t.kind <;> rw [hk] at this <;> first | rfl | cases this
  by_cases hst : t.pc = .stCond
  · -- `event_debouncer.stop()`: the flag goes up and the debouncer is notified
    have hk : t.kind ≠ .deb := notDeb (by rw [hst]; rfl)
    unfold stepT; rw [hst]
    simp only
    cases hdt : s.debTid with
    | none =>
      simp only
      have c : FCtx s i t.kind := by
        refine ⟨⟨h.dk, h.uq, fun d _ hk' hf => h.c2 d (by simp) hk' hf, ?_⟩, ⟨_, hme⟩⟩
        intro _ d hd'; rw [hdt] at hd'; cases hd'
      exact c.notify.setPc_close _ (fun e => absurd e hk)
    | some d =>
      simp only
      obtain ⟨pcd, hkd⟩ := h.dk d hdt
      have hdl := kp_lt hkd
      have hdi : d ≠ i := by
        intro e; subst e; rw [hme] at hkd
        simp only [Option.some.injEq, Prod.mk.injEq] at hkd
        exact hk hkd.1
      -- after `setStopFlag d` and `notify`
      have hkp1 : ∀ j, kp ((s.setStopFlag d).notify) j = kp s j := fun j => by rw [kp_notify, kp_setStopFlag]
      have hfl1 : ((s.setStopFlag d).notify).stopFlagOf d = true := by
        rcases notify_eq (s.setStopFlag d) with e | e <;> rw [e]
        · exact stopFlagOf_setStopFlag_self s d hdl
        · show (s.setStopFlag d).stopFlagOf d = true
          exact stopFlagOf_setStopFlag_self s d hdl
      have hdeb1 : ((s.setStopFlag d).notify).debTid = some d := by
        rcases notify_eq (s.setStopFlag d) with e | e <;> rw [e] <;> simpa using hdt
      have hnot : kp s d = some (Kind.deb, Pc.dWaitFirst) → ((s.setStopFlag d).notify).notified = true := by
        intro hk1
        unfold State.notify
        have hd2 : (s.setStopFlag d).debTid = some d := by simpa using hdt
        rw [hd2]
        have : kp (s.setStopFlag d) d = some (Kind.deb, Pc.dWaitFirst) := by rw [kp_setStopFlag]; exact hk1
        unfold kp at this
        cases htd : (s.setStopFlag d).threads[d]? with
        | none => rw [htd] at this; cases this
        | some td =>
          rw [htd] at this
          simp only [Option.map_some, Option.some.injEq, Prod.mk.injEq] at this
          simp only [htd, this.2]
      have c1 : FCtx ((s.setStopFlag d).notify) i t.kind := by
        refine ⟨⟨?_, ?_, ?_, ?_⟩, ⟨t.pc, by rw [hkp1]; exact hme⟩⟩
        · intro d' hd'; rw [hdeb1] at hd'; cases hd'; exact ⟨pcd, by rw [hkp1]; exact hkd⟩
        · intro j pc hj; rw [hkp1] at hj; rw [hdeb1, ← hdt]; exact h.uq j pc hj
        · intro d' _ hk' _
          rw [hkp1] at hk'
          have := h.uq d' _ hk'
          rw [hdt] at this
          have : d = d' := by simpa using this
          subst this
          exact hnot hk'
        · intro _ d' hd'; rw [hdeb1] at hd'; cases hd'; exact Or.inl hfl1
      exact c1.setPc_close _ (fun e => absurd e hk)
  have c := h.open ht hst
  unfold stepT
  split
  · exact h
  · -- begin
    split
    · next hk => exact arrive_fi c (by rw [hk]; intro h; cases h)
    · exact c.setPc_close _ (fun _ h => by cases h)
    · next pid hk => exact watcherLoop_fi pid c
  · next hb => exact arrive_fi c (notDeb (by rw [hb]; rfl))
  · next hb => exact startBody_fi c (notDeb (by rw [hb]; rfl))
  · exact c.setPc_close _ (fun _ h => by cases h)
  · -- saRAcq
    next hb =>
    have hk := notDeb (by rw [hb]; rfl)
    have c1 : FCtx ({ s with restartOwner := some i } : State) i t.kind := c.congr rfl rfl (fun _ h => h) rfl
    simp only
    split
    · exact startProcess_fi true c1 (fun _ => hk)
    · exact arrive_fi ((c1.congr (s' := { s with restartOwner := none }) rfl rfl (fun _ h => h) rfl).log _) hk
  · next hb => exact arrive_fi ((c.congr (s' := { s with restartOwner := none }) rfl rfl (fun _ h => h) rfl).log _) (notDeb (by rw [hb]; rfl))
  · -- evCond
    next hb =>
    exact arrive_fi (((c.congr (s' := { s with events := s.events + 1 }) rfl rfl (fun _ h => h) rfl).notify).log _) (notDeb (by rw [hb]; rfl))
  · -- rAcq
    split
    · exact afterRestart_fi c
    · exact (c.congr (s' := { s with restartOwner := some i }) rfl rfl (fun _ h => h) rfl).setPc_close _ (fun _ h => by cases h)
  · -- spAcq
    next a hb =>
    refine stopProcBody_fi a c hw.wr ?_
    intro ha; apply notDeb; rw [hb]; cases a <;> simp_all [afterIsStop, debPc]
  · next kt dl a hb =>
    refine killLoop_fi kt a c ?_
    intro ha; apply notDeb; rw [hb]; cases a <;> simp_all [afterIsStop, debPc]
  · exact restartFinish_fi c
  · -- stAcq: `_is_trick_stopping` goes up; with a debouncer the thread goes on to `event_debouncer.stop()`
    next hb =>
    have hk := notDeb (by rw [hb]; rfl)
    split
    · exact arrive_fi (c.log _) hk
    · next hts =>
      have hts' : s.trickStopping = false := by simpa using hts
      obtain ⟨pc0, h0⟩ := c.me
      have hkp : ∀ (pc : Pc) j, j ≠ i → kp (({ s with trickStopping := true } : State).setPc i pc) j = kp s j := fun pc j hj => by
        rw [kp_setPc]; simp [Ne.symm hj]; rfl
      have hmeP : ∀ pc : Pc, kp (({ s with trickStopping := true } : State).setPc i pc) i = some (t.kind, pc) := fun pc => by
        rw [kp_setPc]
        simp only [if_true]
        show (kp s i).map (fun x => (x.1, pc)) = some (t.kind, pc)
        rw [h0]; rfl
      have hfl : ∀ (pc : Pc) d, (({ s with trickStopping := true } : State).setPc i pc).stopFlagOf d = s.stopFlagOf d := fun pc d => by
        rw [stopFlagOf_setPc]; exact stopFlagOf_congr rfl d
      simp only
      refine ⟨?_, ?_, ?_, ?_⟩
      · intro d hd'
        have hd0 : s.debTid = some d := by simpa using hd'
        obtain ⟨pc, hkd⟩ := h.dk d hd0
        by_cases hdi : d = i
        · subst hdi
          rw [hme] at hkd
          simp only [Option.some.injEq, Prod.mk.injEq] at hkd
          exact absurd hkd.1 hk
        · exact ⟨pc, by rw [hkp _ d hdi]; exact hkd⟩
      · intro j pc hj
        have : (({ s with trickStopping := true } : State).setPc i (if ({ s with trickStopping := true } : State).debTid.isSome = true then Pc.stCond else Pc.stRAcq)).debTid = s.debTid := by simp
        rw [this]
        by_cases hji : j = i
        · subst hji; rw [hmeP] at hj
          simp only [Option.some.injEq, Prod.mk.injEq] at hj
          exact absurd hj.1 hk
        · exact h.uq j pc (by rw [← hkp _ j hji]; exact hj)
      · intro d _ hkd hf
        by_cases hdi : d = i
        · subst hdi; rw [hmeP] at hkd
          simp only [Option.some.injEq, Prod.mk.injEq] at hkd
          exact absurd hkd.1 hk
        · have := h.c2 d (by simp) (by rw [← hkp _ d hdi]; exact hkd) (by rw [← hfl]; exact hf)
          simpa using this
      · intro _ d hd'
        have hd0 : s.debTid = some d := by simpa using hd'
        refine Or.inr ⟨i, t.kind, by simp, ?_⟩
        rw [hmeP]
        have : ({ s with trickStopping := true } : State).debTid.isSome = true := by
          show s.debTid.isSome = true; rw [hd0]; rfl
        simp [this]
  · exact absurd (by assumption) hst
  · next hb =>
    exact (c.congr (s' := { s with restartOwner := some i }) rfl rfl (fun _ h => h) rfl).setPc_close _ (fun _ h => by cases h)
  · -- stJoinDeb
    next w hb =>
    have hk := notDeb (by rw [hb]; rfl)
    split
    · exact c.setPc_close _ (fun _ h => by cases h)
    · exact stopFinish_fi c hk
  · next w rest hb =>
    have hk := notDeb (by rw [hb]; rfl)
    split
    · exact c.setPc_close _ (fun _ h => by cases h)
    · exact stopFinish_fi c hk
  · -- wWait
    next hb =>
    split
    · exact c.setPc_close _ (fun _ h => by cases h)
    · split
      · next pid _ => exact watcherLoop_fi pid c
      · exact c.setPc_close _ (fun _ h => by cases h)
  · next hb =>
    have hk : t.kind = .deb := isD (by rw [hb]; rfl)
    exact debHead_fi (c.congr (s' := { s with condHeld := true }) rfl rfl (fun _ h => h) rfl) hk
  · next hb =>
    have hk : t.kind = .deb := isD (by rw [hb]; rfl)
    exact debHead_fi (c.congr (s' := { s with condHeld := true, notified := false }) rfl rfl (fun hne => absurd hk hne) rfl) hk
  · -- dWaitMore
    next dl hb =>
    have hk : t.kind = .deb := isD (by rw [hb]; rfl)
    have c1 : FCtx ({ s with condHeld := true, notified := false } : State) i t.kind :=
      c.congr rfl rfl (fun hne => absurd hk hne) rfl
    simp only
    split
    · split
      · exact (c1.congr (s' := { s with condHeld := false, notified := false }) rfl rfl (fun _ h => h) rfl).setPc_close _
          (fun _ h => by cases h)
      · exact debDeliver_fi c1
    · exact debDeliver_fi c1

theorem init_fi (cfg : Cfg) (lifetimes : List (Option Nat)) (scripts : List (List Op)) : FI (init cfg lifetimes scripts) := by
  have hk : ∀ j k pc, kp (init cfg lifetimes scripts) j = some (k, pc) → k = .client ∧ pc = .begin := by
    intro j k pc h
    simp only [kp, init, List.getElem?_map] at h
    cases hs : scripts[j]? with
    | none => rw [hs] at h; cases h
    | some x => rw [hs] at h; simp at h; exact ⟨h.1.symm, h.2.symm⟩
  refine ⟨fun d h => by simp [init] at h, ?_, ?_, fun h => by simp [init] at h⟩
  · intro j pc h; have := (hk j _ pc h).1; cases this
  · intro d _ h; have := (hk d _ _ h).1; cases this

/-- all the invariants of `WD.Rst` along every run -/
theorem run_all {s : State} (hi : Inv s) (hd : Deb s) (hc : CH s) (hw : WI s) (hf : FI s) (as : List Action) :
    Inv (run s as) ∧ Deb (run s as) ∧ CH (run s as) ∧ WI (run s as) ∧ FI (run s as) := by
  induction as generalizing s with
  | nil => exact ⟨hi, hd, hc, hw, hf⟩
  | cons a as ih =>
    have h1 := run_ch hi hd hc [a]
    have h2 := run_wi hw [a]
    refine ih h1.1 h1.2.1 h1.2.2 h2 ?_
    cases a with
    | tick d => exact ⟨hf.dk, hf.uq, hf.c2, hf.c3⟩
    | step tid =>
      simp only [run, List.foldl, act, step]
      split
      · next t ht =>
        split
        · exact stepT_fi hd hc hw hf ht
        · exact hf
      · exact hf

end WD.ProofsRst
