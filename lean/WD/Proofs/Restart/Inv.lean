/- WD.Rst: the invariant (lock discipline of `_restart_lock`, every child but the current one is dead,
   the flags of `stop()`), and the update lemmas it is carried through -/
import WD.Proofs.Restart.Basic
namespace WD.ProofsRst
open WD.Rst

/-- what the invariant says about one thread's pc -/
def PcOK (s : State) (j : Nat) (pc : Pc) : Prop :=
  (holds pc = true → s.restartOwner = some j) ∧
  (isSleep pc = true → s.process ≠ none) ∧
  (inStop pc = true → s.trickStopping = true) ∧
  (pastStop pc = true → s.process = none)

structure Glob (s : State) : Prop where
  dead : ∀ pid, s.process ≠ some pid → s.aliveP pid = false
  nsas : NSAS s.hist
  ret : (∃ o ∈ s.hist, isStopRet o = true) → s.trickStopping = true ∧ s.process = none

def Oth (s : State) (i : Nat) : Prop := ∀ j pc, j ≠ i → pcOf s j = some pc → PcOK s j pc

/-- the holder of the restart lock is at a pc inside the locked region; `_is_process_stopping` is up only while the
    holder sleeps in the kill loop -/
def Stopping (s : State) : Prop :=
  (∀ j, s.restartOwner = some j → ∃ pc, pcOf s j = some pc ∧ holds pc = true ∧
    (s.procStopping = true → isSleep pc = true)) ∧
  (s.restartOwner = none → s.procStopping = false)

structure Inv (s : State) : Prop where
  glob : Glob s
  pcs : ∀ j pc, pcOf s j = some pc → PcOK s j pc
  stopping : Stopping s

/-- in the middle of a step of thread `i` that does not hold the restart lock -/
structure MidN (s : State) (i : Nat) : Prop where
  glob : Glob s
  oth : Oth s i
  own : s.restartOwner ≠ some i
  stopping : Stopping s

/-- in the middle of a step of thread `i` that holds the restart lock -/
structure MidH (s : State) (i : Nat) : Prop where
  glob : Glob s
  oth : Oth s i
  own : s.restartOwner = some i

theorem isSleep_holds {pc : Pc} (h : isSleep pc = true) : holds pc = true := by
  cases pc <;> simp_all [isSleep, holds]

theorem pastStop_inStop {pc : Pc} (h : pastStop pc = true) : inStop pc = true := by
  cases pc <;> simp_all [pastStop, inStop]

theorem PcOK_plain (s : State) (j : Nat) {pc : Pc} (h1 : holds pc = false) (h3 : inStop pc = false) : PcOK s j pc := by
  refine ⟨by simp [h1], ?_, by simp [h3], ?_⟩
  · intro h; have := isSleep_holds h; simp [h1] at this
  · intro h; have := pastStop_inStop h; simp [h3] at this

/-- the others' part of the invariant survives every update a step of thread `i` makes -/
theorem Oth_update {s s' : State} {i : Nat} (h : Oth s i)
    (hp : ∀ j, j ≠ i → ∀ pc, pcOf s' j = some pc → pcOf s j = some pc ∨ pc = .begin)
    (ht : s.trickStopping = true → s'.trickStopping = true)
    (ho : s'.restartOwner = s.restartOwner ∨ s.restartOwner = some i ∨ s.restartOwner = none)
    (hpr : s'.process = s.process ∨
      ((s.restartOwner = some i ∨ s.restartOwner = none) ∧ (s'.process = none ∨ s.trickStopping = false))) :
    Oth s' i := by
  intro j pc hj hpc
  rcases hp j hj pc hpc with hold | rfl
  · obtain ⟨a, b, c, d⟩ := h j pc hj hold
    have notown : holds pc = true → s.restartOwner ≠ some i ∧ s.restartOwner ≠ none := by
      intro hh; rw [a hh]; exact ⟨by simp; omega, by simp⟩
    refine ⟨?_, ?_, fun x => ht (c x), ?_⟩
    · intro hh
      rcases ho with e | e | e
      · rw [e]; exact a hh
      · exact absurd e (notown hh).1
      · exact absurd e (notown hh).2
    · intro hs
      rcases hpr with e | ⟨e | e, _⟩
      · rw [e]; exact b hs
      · exact absurd e (notown (isSleep_holds hs)).1
      · exact absurd e (notown (isSleep_holds hs)).2
    · intro hs
      rcases hpr with e | ⟨_, e | e⟩
      · rw [e]; exact d hs
      · exact e
      · have := c (pastStop_inStop hs); simp [e] at this
  · exact PcOK_plain _ _ rfl rfl

/-- updates that leave the threads, the owner, the process and the stop flag alone -/
theorem Oth_congr {s s' : State} {i : Nat} (h : Oth s i) (h1 : s'.threads = s.threads)
    (h2 : s'.restartOwner = s.restartOwner) (h3 : s'.process = s.process)
    (h4 : s'.trickStopping = s.trickStopping) : Oth s' i :=
  Oth_update h (fun j _ pc e => Or.inl (by simpa [pcOf, h1] using e)) (by simp [h4]) (Or.inl h2) (Or.inl h3)

theorem Oth_setPc {s : State} {i : Nat} (pc : Pc) (h : Oth s i) : Oth (s.setPc i pc) i :=
  Oth_update h (fun j hj pc' e => Or.inl (by rwa [pcOf_setPc_ne _ _ _ _ hj] at e)) (by simp) (Or.inl (by simp))
    (Or.inl (by simp))

theorem Oth_setThread {s : State} {i : Nat} (t : Thread) (h : Oth s i) : Oth (s.setThread i t) i :=
  Oth_update h (fun j hj pc' e => Or.inl (by
    rw [pcOf_setThread] at e; simpa [Ne.symm hj] using e)) (by simp) (Or.inl (by simp)) (Or.inl (by simp))

theorem Oth_setStopFlag {s : State} {i : Nat} (w : Nat) (h : Oth s i) : Oth (s.setStopFlag w) i :=
  Oth_update h (fun j _ pc' e => Or.inl (by rwa [pcOf_setStopFlag] at e)) (by simp) (Or.inl (by simp))
    (Or.inl (by simp))

theorem Glob_congr {s s' : State} (h : Glob s) (h1 : s'.process = s.process) (h2 : s'.procs = s.procs)
    (h3 : s'.clock = s.clock) (h4 : s'.hist = s.hist) (h5 : s'.trickStopping = s.trickStopping) : Glob s' := by
  refine ⟨?_, by rw [h4]; exact h.nsas, by rw [h4, h5, h1]; exact h.ret⟩
  intro pid hp
  have := h.dead pid (by rwa [h1] at hp)
  simpa [State.aliveP, h2, h3] using this

theorem Stopping_congr {s s' : State} {i : Nat} (h : Stopping s) (hi : s.restartOwner ≠ some i)
    (h1 : s'.procStopping = s.procStopping) (h2 : s'.restartOwner = s.restartOwner)
    (hp : ∀ j pc, j ≠ i → pcOf s j = some pc → pcOf s' j = some pc) : Stopping s' := by
  refine ⟨?_, by rw [h1, h2]; exact h.2⟩
  intro j hj
  rw [h2] at hj
  obtain ⟨pc, b, c, d⟩ := h.1 j hj
  have hji : j ≠ i := by rintro rfl; exact hi hj
  exact ⟨pc, hp j pc hji b, c, by rw [h1]; exact d⟩

/-! ### `MidN` through the primitive updates -/

theorem MidN.setPc {s : State} {i : Nat} (h : MidN s i) (pc : Pc) : MidN (s.setPc i pc) i :=
  ⟨Glob_congr h.glob (by simp) (by simp) (by simp) (by simp) (by simp), Oth_setPc pc h.oth, by simpa using h.own,
   Stopping_congr h.stopping h.own (by simp) (by simp) (fun j pc hj e => by rwa [pcOf_setPc_ne _ _ _ _ hj])⟩

theorem MidN.setThread {s : State} {i : Nat} (h : MidN s i) (t : Thread) : MidN (s.setThread i t) i :=
  ⟨Glob_congr h.glob (by simp) (by simp) (by simp) (by simp) (by simp), Oth_setThread t h.oth, by simpa using h.own,
   Stopping_congr h.stopping h.own (by simp) (by simp) (fun j pc hj e => by
     rw [pcOf_setThread]; simpa [Ne.symm hj] using e)⟩

theorem MidN.congr {s s' : State} {i : Nat} (h : MidN s i) (h1 : s'.threads = s.threads)
    (h2 : s'.restartOwner = s.restartOwner) (h3 : s'.process = s.process) (h4 : s'.trickStopping = s.trickStopping)
    (h5 : s'.procs = s.procs) (h6 : s'.clock = s.clock) (h7 : s'.hist = s.hist)
    (h8 : s'.procStopping = s.procStopping) : MidN s' i :=
  ⟨Glob_congr h.glob h3 h5 h6 h7 h4, Oth_congr h.oth h1 h2 h3 h4, by rw [h2]; exact h.own,
   Stopping_congr h.stopping h.own h8 h2 (fun j pc _ e => by simpa [pcOf, h1] using e)⟩

/-- logging something that is neither a spawn nor the return of the working `stop()` -/
theorem Glob_log {s : State} (h : Glob s) (o : Obs) (h1 : isSpawn o = false) (h2 : isStopRet o = false) :
    Glob (s.log o) := by
  refine ⟨by simpa [State.aliveP] using h.dead, by simpa using NSAS_snoc_nonspawn h.nsas h1, ?_⟩
  intro ⟨x, hx, hr⟩
  simp only [log_hist, List.mem_append, List.mem_singleton] at hx
  rcases hx with hx | rfl
  · simpa using h.ret ⟨x, hx, hr⟩
  · simp [h2] at hr

theorem MidN.log {s : State} {i : Nat} (h : MidN s i) (o : Obs) (h1 : isSpawn o = false) (h2 : isStopRet o = false) :
    MidN (s.log o) i :=
  ⟨Glob_log h.glob o h1 h2, Oth_congr h.oth rfl rfl rfl rfl, h.own,
   Stopping_congr h.stopping h.own rfl rfl (fun _ _ _ e => e)⟩

/-- closing a step of a thread that does not hold the lock -/
theorem MidN.close {s : State} {i : Nat} (h : MidN s i)
    (hi : ∀ pc, pcOf s i = some pc → holds pc = false ∧ (inStop pc = true → s.trickStopping = true) ∧
      (pastStop pc = true → s.process = none)) : Inv s := by
  refine ⟨h.glob, ?_, h.stopping⟩
  intro j pc hpc
  by_cases hj : j = i
  · subst hj
    obtain ⟨a, b, c⟩ := hi pc hpc
    refine ⟨by simp [a], ?_, b, c⟩
    intro hs; have := isSleep_holds hs; simp [a] at this
  · exact h.oth j pc hj hpc

/-- closing with a pc that needs nothing -/
theorem MidN.close_plain {s : State} {i : Nat} (h : MidN s i)
    (hi : ∀ pc, pcOf s i = some pc → holds pc = false ∧ inStop pc = false) : Inv s :=
  h.close (fun pc hpc => by
    obtain ⟨a, b⟩ := hi pc hpc
    refine ⟨a, by simp [b], ?_⟩
    intro hs; have := pastStop_inStop hs; simp [b] at this)

theorem Inv.midN {s : State} (h : Inv s) (i : Nat) (hi : s.restartOwner ≠ some i) : MidN s i :=
  ⟨h.glob, fun j pc _ hpc => h.pcs j pc hpc, hi, h.stopping⟩

theorem Inv.midH {s : State} (h : Inv s) (i : Nat) (hi : s.restartOwner = some i) : MidH s i :=
  ⟨h.glob, fun j pc _ hpc => h.pcs j pc hpc, hi⟩

/-- closing a step of the thread that holds the lock -/
theorem MidH.close {s : State} {i : Nat} (h : MidH s i) {pc : Pc} (hpc : pcOf s i = some pc) (ok : PcOK s i pc)
    (hh : holds pc = true) (hs : s.procStopping = true → isSleep pc = true) : Inv s := by
  refine ⟨h.glob, ?_, ⟨fun j hj => ?_, fun x => by rw [h.own] at x; cases x⟩⟩
  rotate_left
  · rw [h.own] at hj; cases hj; exact ⟨pc, hpc, hh, hs⟩
  intro j pc' hpc'
  by_cases hj : j = i
  · subst hj; rw [hpc] at hpc'; cases hpc'; exact ok
  · exact h.oth j pc' hj hpc'

theorem MidH.setPc {s : State} {i : Nat} (h : MidH s i) (pc : Pc) : MidH (s.setPc i pc) i :=
  ⟨Glob_congr h.glob (by simp) (by simp) (by simp) (by simp) (by simp), Oth_setPc pc h.oth, by simpa using h.own⟩

theorem MidH.congr {s s' : State} {i : Nat} (h : MidH s i) (h1 : s'.threads = s.threads)
    (h2 : s'.restartOwner = s.restartOwner) (h3 : s'.process = s.process) (h4 : s'.trickStopping = s.trickStopping)
    (h5 : s'.procs = s.procs) (h6 : s'.clock = s.clock) (h7 : s'.hist = s.hist) : MidH s' i :=
  ⟨Glob_congr h.glob h3 h5 h6 h7 h4, Oth_congr h.oth h1 h2 h3 h4, by rw [h2]; exact h.own⟩

/-- releasing the lock -/
theorem MidH.release {s s' : State} {i : Nat} (h : MidH s i) (hps : s.procStopping = false)
    (h1 : s'.threads = s.threads) (h2 : s'.restartOwner = none) (h3 : s'.process = s.process)
    (h4 : s'.trickStopping = s.trickStopping) (h5 : s'.procs = s.procs) (h6 : s'.clock = s.clock)
    (h7 : s'.hist = s.hist) (h8 : s'.procStopping = s.procStopping) : MidN s' i :=
  ⟨Glob_congr h.glob h3 h5 h6 h7 h4,
   Oth_update h.oth (fun j _ pc e => Or.inl (by simpa [pcOf, h1] using e)) (by simp [h4]) (Or.inr (Or.inl h.own))
     (Or.inl h3),
   by simp [h2], ⟨fun j hj => by rw [h2] at hj; exact absurd hj (by simp), fun _ => by rw [h8]; exact hps⟩⟩

/-- taking the lock -/
theorem MidN.acquire {s s' : State} {i : Nat} (h : MidN s i) (hfree : s.restartOwner = none)
    (h1 : s'.threads = s.threads) (h2 : s'.restartOwner = some i) (h3 : s'.process = s.process)
    (h4 : s'.trickStopping = s.trickStopping) (h5 : s'.procs = s.procs) (h6 : s'.clock = s.clock)
    (h7 : s'.hist = s.hist) : MidH s' i :=
  ⟨Glob_congr h.glob h3 h5 h6 h7 h4,
   Oth_update h.oth (fun j _ pc e => Or.inl (by simpa [pcOf, h1] using e)) (by simp [h4]) (Or.inr (Or.inr hfree))
     (Or.inl h3), h2⟩

/-- with the lock free nobody is in `_stop_process` -/
theorem MidN.notStopping {s : State} {i : Nat} (h : MidN s i) (hfree : s.restartOwner = none) :
    s.procStopping = false := h.stopping.2 hfree

end WD.ProofsRst
