/- WD.Rst: every step keeps the invariant (helper by helper, then `stepT`) -/
import WD.Proofs.Restart.Inv
namespace WD.ProofsRst
open WD.Rst

theorem pcOf_setPc_self {s : State} {i : Nat} (pc : Pc) (h : i < s.threads.length) : pcOf (s.setPc i pc) i = some pc := by
  rw [pcOf_setPc]; simp [h]

theorem pcOf_setThread_self {s : State} {i : Nat} (t : Thread) (h : i < s.threads.length) :
    pcOf (s.setThread i t) i = some t.pc := by
  rw [pcOf_setThread]; simp [h]

theorem pcOf_append {s s' : State} (t0 : Thread) (h1 : s'.threads = s.threads ++ [t0]) (j : Nat) :
    pcOf s' j = if j < s.threads.length then pcOf s j else if j = s.threads.length then some t0.pc else none := by
  unfold pcOf
  rw [h1, List.getElem?_append]
  by_cases hj : j < s.threads.length
  · simp [hj]
  · simp only [hj, if_false]
    by_cases hj2 : j = s.threads.length
    · simp [hj2]
    · simp only [hj2, if_false]
      have : j - s.threads.length ≠ 0 := by omega
      cases hk : j - s.threads.length with
      | zero => omega
      | succ k => simp

theorem MidN.append {s s' : State} {i : Nat} (h : MidN s i) (t0 : Thread) (ht0 : t0.pc = .begin)
    (_hi : i < s.threads.length) (h1 : s'.threads = s.threads ++ [t0])
    (h2 : s'.restartOwner = s.restartOwner) (h3 : s'.process = s.process) (h4 : s'.trickStopping = s.trickStopping)
    (h5 : s'.procs = s.procs) (h6 : s'.clock = s.clock) (h7 : s'.hist = s.hist)
    (h8 : s'.procStopping = s.procStopping) : MidN s' i := by
  refine ⟨Glob_congr h.glob h3 h5 h6 h7 h4, Oth_update h.oth ?_ (by simp [h4]) (Or.inl h2) (Or.inl h3),
    by rw [h2]; exact h.own, Stopping_congr h.stopping h.own h8 h2 ?_⟩
  · intro j _ pc e
    rw [pcOf_append t0 h1] at e
    split at e
    · exact Or.inl e
    · split at e
      · right; cases e; exact ht0
      · cases e
  · intro j pc _ e
    rw [pcOf_append t0 h1, if_pos (pcOf_lt _ _ _ e)]; exact e

theorem MidH.append {s s' : State} {i : Nat} (h : MidH s i) (t0 : Thread) (ht0 : t0.pc = .begin)
    (h1 : s'.threads = s.threads ++ [t0])
    (h2 : s'.restartOwner = s.restartOwner) (h3 : s'.process = s.process) (h4 : s'.trickStopping = s.trickStopping)
    (h5 : s'.procs = s.procs) (h6 : s'.clock = s.clock) (h7 : s'.hist = s.hist) : MidH s' i := by
  refine ⟨Glob_congr h.glob h3 h5 h6 h7 h4, Oth_update h.oth ?_ (by simp [h4]) (Or.inl h2) (Or.inl h3),
    by rw [h2]; exact h.own⟩
  intro j _ pc e
  rw [pcOf_append t0 h1] at e
  split at e
  · exact Or.inl e
  · split at e
    · right; cases e; exact ht0
    · cases e

/-- discharge `∀ pc, pcOf (… .setPc i pc0) i = some pc → holds pc = false ∧ inStop pc = false` -/
macro "pc_plain" hi:ident : tactic =>
  `(tactic| (intro pc e
             simp only [pcOf_setPc, pcOf_setThread, $hi:ident, and_self, and_true, if_true, ↓reduceIte,
               Option.some.injEq] at e
             subst e
             simp [holds, inStop]))

/-! ### helpers of threads that do not hold the lock -/

theorem arrive_inv {s : State} {i : Nat} (h : MidN s i) (hi : i < s.threads.length) : Inv (arrive s i) := by
  unfold arrive
  split
  · next hn => rw [List.getElem?_eq_getElem hi] at hn; cases hn
  · next t ht =>
    split
    · refine (h.setThread _).close_plain ?_
      pc_plain hi
    · refine (h.setThread _).close_plain ?_
      pc_plain hi
    · refine (h.setThread _).close_plain ?_
      pc_plain hi
    · refine (h.setThread _).close_plain ?_
      intro pc e
      simp only [pcOf_setThread, hi, and_self, if_true] at e
      cases e; split <;> simp [holds, inStop]
    · refine (h.setThread _).close_plain ?_
      pc_plain hi

/-- `start()` from the acquisition of `_stopping_lock` -/
theorem startBody_inv {s : State} {i : Nat} (h : MidN s i) (hi : i < s.threads.length) : Inv (startBody s i) := by
  unfold startBody
  split
  · exact arrive_inv (h.log _ rfl rfl) (by simpa using hi)
  · split
    · have h1 := h.setPc Pc.saDebStarted
      refine MidN.close_plain (i := i) ?_ ?_
      · exact h1.append { kind := .deb, pc := .begin } rfl (by simpa using hi) rfl rfl rfl rfl rfl rfl rfl rfl
      · intro pc e
        rw [pcOf_append { kind := .deb, pc := .begin } rfl] at e
        simp only [setPc_length, hi, if_true, pcOf_setPc, and_self] at e
        cases e; simp [holds, inStop]
    · refine (h.setPc _).close_plain ?_
      pc_plain hi

theorem debHead_inv {s : State} {i : Nat} (h : MidN s i) (hi : i < s.threads.length) : Inv (debHead s i) := by
  unfold debHead
  split
  · refine ((h.congr (s' := { s with condHeld := false, notified := false }) rfl rfl rfl rfl rfl rfl rfl rfl).setPc _).close_plain ?_
    pc_plain hi
  · split
    · refine ((h.congr (s' := { s with condHeld := false, notified := false }) rfl rfl rfl rfl rfl rfl rfl rfl).setPc _).close_plain ?_
      pc_plain hi
    · refine ((h.congr (s' := { s with condHeld := false }) rfl rfl rfl rfl rfl rfl rfl rfl).setPc _).close_plain ?_
      pc_plain hi

theorem debDeliver_inv {s : State} {i : Nat} (h : MidN s i) (hi : i < s.threads.length) : Inv (debDeliver s i) := by
  unfold debDeliver
  split
  · refine ((h.congr (s' := { s with condHeld := false }) rfl rfl rfl rfl rfl rfl rfl rfl).setPc _).close_plain ?_
    pc_plain hi
  · refine ((h.congr (s' := { s with events := 0 }) rfl rfl rfl rfl rfl rfl rfl rfl).setPc _).close_plain ?_
    pc_plain hi

theorem afterRestart_inv {s : State} {i : Nat} (h : MidN s i) (hi : i < s.threads.length) : Inv (afterRestart s i) := by
  unfold afterRestart
  split
  · next hn => rw [List.getElem?_eq_getElem hi] at hn; cases hn
  · next t ht =>
    split
    · exact arrive_inv (h.log _ rfl rfl) hi
    · refine (h.setPc _).close_plain ?_
      pc_plain hi
    · exact debHead_inv h hi

theorem watcherLoop_inv {s : State} {i : Nat} (pid : Nat) (h : MidN s i) (hi : i < s.threads.length) :
    Inv (watcherLoop s i pid) := by
  unfold watcherLoop
  split
  · refine (h.setPc _).close_plain ?_
    pc_plain hi
  · split
    · refine (h.setPc _).close_plain ?_
      pc_plain hi
    · refine (h.setPc _).close_plain ?_
      pc_plain hi

/-- the working `stop()` returns: the flag is up and there is no current child -/
theorem stopFinish_inv {s : State} {i : Nat} (h : MidN s i) (hi : i < s.threads.length)
    (ht : s.trickStopping = true) (hp : s.process = none) : Inv (stopFinish s i) := by
  unfold stopFinish
  refine arrive_inv ⟨⟨?_, ?_, ?_⟩, Oth_congr h.oth rfl rfl rfl rfl, h.own,
    Stopping_congr h.stopping h.own rfl rfl (fun _ _ _ e => e)⟩ hi
  · simpa [State.aliveP] using h.glob.dead
  · simpa using NSAS_snoc_nonspawn h.glob.nsas (o := .stopRet i s.clock) rfl
  · intro _; exact ⟨ht, hp⟩

/-! ### the process table -/

theorem aliveP_kill_le (s : State) (pid sig q : Nat) : (s.kill pid sig).aliveP q = true → s.aliveP q = true := by
  unfold State.kill
  split
  · exact id
  · next p hp =>
    simp only [State.aliveP, log_procs, log_clock, List.getElem?_set]
    by_cases hq : pid = q
    · subst hq
      have hl : pid < s.procs.length := by
        by_cases hl : pid < s.procs.length
        · exact hl
        · rw [List.getElem?_eq_none (by omega)] at hp; cases hp
      simp only [hl, if_true, hp]
      unfold Proc.alive
      cases hk : p.killedAt <;> simp <;> intros <;> simp_all <;> omega
    · simp [hq]

theorem aliveP_kill9 (s : State) (pid : Nat) : (s.kill pid 9).aliveP pid = false := by
  unfold State.kill
  split
  · next hn => simp [State.aliveP, hn]
  · next p hp =>
    have hl : pid < s.procs.length := by
      by_cases hl : pid < s.procs.length
      · exact hl
      · rw [List.getElem?_eq_none (by omega)] at hp; cases hp
    simp only [State.aliveP, log_procs, log_clock, List.getElem?_set, hl, if_true]
    unfold Proc.alive
    cases hk : p.killedAt <;> simp <;> intros <;> omega

@[simp] theorem kill_threads (s : State) (pid sig : Nat) : (s.kill pid sig).threads = s.threads := by
  unfold State.kill; split <;> rfl
@[simp] theorem kill_process (s : State) (pid sig : Nat) : (s.kill pid sig).process = s.process := by
  unfold State.kill; split <;> rfl
@[simp] theorem kill_owner (s : State) (pid sig : Nat) : (s.kill pid sig).restartOwner = s.restartOwner := by
  unfold State.kill; split <;> rfl
@[simp] theorem kill_trickStopping (s : State) (pid sig : Nat) : (s.kill pid sig).trickStopping = s.trickStopping := by
  unfold State.kill; split <;> rfl
@[simp] theorem kill_procStopping (s : State) (pid sig : Nat) : (s.kill pid sig).procStopping = s.procStopping := by
  unfold State.kill; split <;> rfl
@[simp] theorem kill_clock (s : State) (pid sig : Nat) : (s.kill pid sig).clock = s.clock := by
  unfold State.kill; split <;> rfl
@[simp] theorem kill_debTid (s : State) (pid sig : Nat) : (s.kill pid sig).debTid = s.debTid := by
  unfold State.kill; split <;> rfl
@[simp] theorem kill_cfg (s : State) (pid sig : Nat) : (s.kill pid sig).cfg = s.cfg := by
  unfold State.kill; split <;> rfl

theorem Glob_kill {s : State} (h : Glob s) (pid sig : Nat) : Glob (s.kill pid sig) := by
  refine ⟨?_, ?_, ?_⟩
  · intro q hq
    cases ha : (s.kill pid sig).aliveP q
    · rfl
    · have := h.dead q (by simpa using hq)
      rw [aliveP_kill_le s pid sig q ha] at this; cases this
  · unfold State.kill; split
    · exact h.nsas
    · simpa using NSAS_snoc_nonspawn h.nsas (o := .kill pid sig s.clock) rfl
  · intro ⟨x, hx, hr⟩
    have : ∃ o ∈ s.hist, isStopRet o = true := by
      unfold State.kill at hx; split at hx
      · exact ⟨x, hx, hr⟩
      · simp only [log_hist, List.mem_append, List.mem_singleton] at hx
        rcases hx with hx | rfl
        · exact ⟨x, hx, hr⟩
        · simp [isStopRet] at hr
    simpa using h.ret this

theorem MidH.kill {s : State} {i : Nat} (h : MidH s i) (pid sig : Nat) : MidH (s.kill pid sig) i :=
  ⟨Glob_kill h.glob pid sig, Oth_congr h.oth (by simp) (by simp) (by simp) (by simp), by simpa using h.own⟩

@[simp] theorem spawn_threads (s : State) : s.spawn.threads = s.threads := rfl
@[simp] theorem spawn_owner (s : State) : s.spawn.restartOwner = s.restartOwner := rfl
@[simp] theorem spawn_trickStopping (s : State) : s.spawn.trickStopping = s.trickStopping := rfl
@[simp] theorem spawn_procStopping (s : State) : s.spawn.procStopping = s.procStopping := rfl
@[simp] theorem spawn_clock (s : State) : s.spawn.clock = s.clock := rfl
@[simp] theorem spawn_process (s : State) : s.spawn.process = some s.procs.length := rfl
@[simp] theorem spawn_debTid (s : State) : s.spawn.debTid = s.debTid := rfl
@[simp] theorem spawn_cfg (s : State) : s.spawn.cfg = s.cfg := rfl

/-- a child is spawned only when there is no current child and `stop()` has not begun -/
theorem MidH.spawn {s : State} {i : Nat} (h : MidH s i) (hp : s.process = none) (ht : s.trickStopping = false) :
    MidH s.spawn i := by
  have nostop : ∀ x ∈ s.hist, isStopRet x = false := by
    intro x hx
    cases hr : isStopRet x
    · rfl
    · have := (h.glob.ret ⟨x, hx, hr⟩).1; rw [ht] at this; cases this
  refine ⟨⟨?_, ?_, ?_⟩, Oth_update h.oth (fun j _ pc e => Or.inl e) (by simp) (Or.inl rfl)
    (Or.inr ⟨Or.inl h.own, Or.inr ht⟩), h.own⟩
  · intro q hq
    have hq' : q ≠ s.procs.length := by intro e; subst e; simp at hq
    have hd := h.glob.dead q (by simp [hp])
    simp only [State.aliveP, State.spawn, log_procs, log_clock] at hd ⊢
    rw [List.getElem?_append]
    by_cases hl : q < s.procs.length
    · simpa [hl] using hd
    · simp only [hl, if_false]
      have : q - s.procs.length ≠ 0 := by omega
      cases hk : q - s.procs.length with
      | zero => omega
      | succ k => simp
  · exact NSAS_snoc_nostop nostop
  · intro ⟨x, hx, hr⟩
    simp only [State.spawn, log_hist, List.mem_append, List.mem_singleton] at hx
    rcases hx with hx | rfl
    · have := nostop x hx; simp [this] at hr
    · simp [isStopRet] at hr

/-! ### helpers of the thread that holds the lock -/

theorem restartFinish_inv {s : State} {i : Nat} (h : MidH s i) (hi : i < s.threads.length)
    (hps : s.procStopping = false) : Inv (restartFinish s i) := by
  unfold restartFinish
  exact afterRestart_inv (h.release hps rfl rfl rfl rfl rfl rfl rfl rfl) hi

theorem startedFinish_inv {s : State} {i : Nat} (h : MidH s i) (hi : i < s.threads.length)
    (hps : s.procStopping = false) :
    Inv (arrive (({ s with restartOwner := none } : State).log (.started i s.clock)) i) :=
  arrive_inv ((h.release (s' := { s with restartOwner := none }) hps rfl rfl rfl rfl rfl rfl rfl rfl).log _ rfl rfl) hi

theorem startProcess_inv {s : State} {i : Nat} (inStart : Bool) (h : MidH s i) (hi : i < s.threads.length)
    (hps : s.procStopping = false) (hp : s.process = none) : Inv (startProcess s i inStart) := by
  have fin : ∀ s' : State, MidH s' i → i < s'.threads.length → s'.procStopping = false →
      Inv (if inStart = true then arrive (({ s' with restartOwner := none } : State).log (.started i s'.clock)) i
           else restartFinish s' i) := by
    intro s' h' hi' hps'
    split
    · exact startedFinish_inv h' hi' hps'
    · exact restartFinish_inv h' hi' hps'
  unfold startProcess
  simp only
  split
  · exact fin s h hi hps
  · next ht =>
    have ht' : s.trickStopping = false := by simpa using ht
    have hs := h.spawn hp ht'
    split
    · refine MidH.close (i := i) (pc := if inStart = true then Pc.saStarted else Pc.rStarted) ?_ ?_ ?_ ?_ ?_
      · refine MidH.setPc ?_ _
        exact hs.append { kind := .watcher s.procs.length, pc := .begin } rfl rfl rfl rfl rfl rfl rfl rfl
      · rw [pcOf_setPc]; simp; omega
      · refine ⟨fun _ => by simpa using h.own, ?_, ?_, ?_⟩ <;> split <;> simp [isSleep, inStop, pastStop]
      · split <;> rfl
      · intro x; simp [hps] at x
    · exact fin s.spawn hs hi hps

theorem afterStopProc_inv {s : State} {i : Nat} (a : After) (h : MidH s i) (hi : i < s.threads.length)
    (hps : s.procStopping = false) (hp : s.process = none) (ha : afterIsStop a = true → s.trickStopping = true) :
    Inv (afterStopProc s i a) := by
  cases a with
  | restart => exact startProcess_inv false h hi hps hp
  | stop w =>
    have ht : s.trickStopping = true := ha rfl
    have hn : MidN ({ s with restartOwner := none } : State) i := h.release hps rfl rfl rfl rfl rfl rfl rfl rfl
    unfold afterStopProc
    simp only
    split
    · refine (hn.setPc _).close ?_
      intro pc e
      simp only [pcOf_setPc, hi, and_self, if_true, Option.some.injEq] at e
      subst e; simp [holds, ht, hp]
    · split
      · refine (hn.setPc _).close ?_
        intro pc e
        simp only [pcOf_setPc, hi, and_self, if_true, Option.some.injEq] at e
        subst e; simp [holds, ht, hp]
      · exact stopFinish_inv hn hi ht hp

theorem stopProcDone_inv {s : State} {i : Nat} (a : After) (h : MidH s i) (hi : i < s.threads.length)
    (hd : ∀ pid, s.process = some pid → s.aliveP pid = false)
    (ha : afterIsStop a = true → s.trickStopping = true) : Inv (stopProcDone s i a) := by
  unfold stopProcDone
  refine afterStopProc_inv a ⟨⟨?_, h.glob.nsas, ?_⟩, Oth_update h.oth (fun j _ pc e => Or.inl e) (by simp) (Or.inl rfl)
    (Or.inr ⟨Or.inl h.own, Or.inl rfl⟩), h.own⟩ hi rfl rfl ha
  · intro q _
    by_cases hq : s.process = some q
    · exact hd q hq
    · exact h.glob.dead q hq
  · intro hx; exact ⟨(h.glob.ret hx).1, rfl⟩

theorem killLoop_inv {s : State} {i : Nat} (kt : Nat) (a : After) (h : MidH s i) (hi : i < s.threads.length)
    (ha : afterIsStop a = true → s.trickStopping = true) : Inv (killLoop s i kt a) := by
  unfold killLoop
  split
  · next hn => exact stopProcDone_inv a h hi (by simp [hn]) ha
  · next pid hpid =>
    split
    · split
      · next hdead =>
        refine stopProcDone_inv a h hi ?_ ha
        intro q hq; rw [hpid] at hq; cases hq; simpa using hdead
      · refine (h.setPc (.spSleep kt (s.clock + 250) a)).close (pc := .spSleep kt (s.clock + 250) a) ?_ ?_ rfl (fun _ => rfl)
        · rw [pcOf_setPc]; simp [hi]
        · refine ⟨fun _ => by simpa using h.own, fun _ => by simp [hpid], ?_, by simp [pastStop]⟩
          intro x; simpa using ha (by simpa [inStop] using x)
    · split
      · refine stopProcDone_inv a (h.kill pid 9) (by simpa using hi) ?_ (by simpa using ha)
        intro q hq; simp [hpid] at hq; subst hq; exact aliveP_kill9 s pid
      · next hdead =>
        refine stopProcDone_inv a h hi ?_ ha
        intro q hq; rw [hpid] at hq; cases hq; simpa using hdead

@[simp] theorem stopWatcher_process (s : State) : s.stopWatcher.process = s.process := by
  unfold State.stopWatcher; split <;> simp
@[simp] theorem stopWatcher_procs (s : State) : s.stopWatcher.procs = s.procs := by
  unfold State.stopWatcher; split <;> simp
@[simp] theorem stopWatcher_clock (s : State) : s.stopWatcher.clock = s.clock := by
  unfold State.stopWatcher; split <;> simp
@[simp] theorem stopWatcher_owner (s : State) : s.stopWatcher.restartOwner = s.restartOwner := by
  unfold State.stopWatcher; split <;> simp
@[simp] theorem stopWatcher_trickStopping (s : State) : s.stopWatcher.trickStopping = s.trickStopping := by
  unfold State.stopWatcher; split <;> simp
@[simp] theorem stopWatcher_procStopping (s : State) : s.stopWatcher.procStopping = s.procStopping := by
  unfold State.stopWatcher; split <;> simp
@[simp] theorem stopWatcher_hist (s : State) : s.stopWatcher.hist = s.hist := by
  unfold State.stopWatcher; split <;> simp
@[simp] theorem stopWatcher_debTid (s : State) : s.stopWatcher.debTid = s.debTid := by
  unfold State.stopWatcher; split <;> simp
@[simp] theorem stopWatcher_cfg (s : State) : s.stopWatcher.cfg = s.cfg := by
  unfold State.stopWatcher; split <;> simp
@[simp] theorem stopWatcher_length (s : State) : s.stopWatcher.threads.length = s.threads.length := by
  unfold State.stopWatcher; split <;> simp
theorem pcOf_stopWatcher (s : State) (j : Nat) : pcOf s.stopWatcher j = pcOf s j := by
  unfold State.stopWatcher; split
  · next w _ => exact pcOf_setStopFlag s w j
  · rfl

theorem MidH.stopWatcher {s : State} {i : Nat} (h : MidH s i) : MidH s.stopWatcher i :=
  ⟨Glob_congr h.glob (by simp) (by simp) (by simp) (by simp) (by simp),
   Oth_update h.oth (fun j _ pc e => Or.inl (by rwa [pcOf_stopWatcher] at e)) (by simp) (Or.inl (by simp))
     (Or.inl (by simp)), by simpa using h.own⟩

theorem stopProcBody_inv {s : State} {i : Nat} (a : After) (h : MidH s i) (hi : i < s.threads.length)
    (hps : s.procStopping = false) (ha : afterIsStop a = true → s.trickStopping = true) :
    Inv (stopProcBody s i a) := by
  unfold stopProcBody
  simp only [hps, Bool.false_eq_true, if_false]
  have h2 : MidH (({ s with procStopping := true } : State).stopWatcher) i :=
    (h.congr (s' := { s with procStopping := true }) rfl rfl rfl rfl rfl rfl rfl).stopWatcher
  have hl2 : i < (({ s with procStopping := true } : State).stopWatcher).threads.length := by simpa using hi
  have ha2 : afterIsStop a = true → (({ s with procStopping := true } : State).stopWatcher).trickStopping = true := by
    simpa using ha
  split
  · next hn =>
    exact afterStopProc_inv a (h2.congr rfl rfl rfl rfl rfl rfl rfl) hl2 rfl hn ha2
  · next pid hpid =>
    split
    · next hdead =>
      refine stopProcDone_inv a h2 hl2 ?_ ha2
      intro q hq; rw [hpid] at hq; cases hq; simpa using hdead
    · exact killLoop_inv _ a (h2.kill pid 2) (by simpa using hl2) (by simpa using ha2)

/-! ### `notify` touches nothing the invariant reads -/

theorem notify_eq (s : State) : s.notify = s ∨ s.notify = { s with notified := true } := by
  unfold State.notify
  split
  · split
    · split <;> simp
    · simp
  · simp

theorem MidN.notify {s : State} {i : Nat} (h : MidN s i) : MidN s.notify i := by
  rcases notify_eq s with e | e <;> rw [e]
  · exact h
  · exact h.congr rfl rfl rfl rfl rfl rfl rfl rfl

@[simp] theorem notify_length (s : State) : s.notify.threads.length = s.threads.length := by
  rcases notify_eq s with e | e <;> rw [e]
@[simp] theorem notify_trickStopping (s : State) : s.notify.trickStopping = s.trickStopping := by
  rcases notify_eq s with e | e <;> rw [e]
@[simp] theorem notify_process (s : State) : s.notify.process = s.process := by
  rcases notify_eq s with e | e <;> rw [e]
@[simp] theorem notify_clock (s : State) : s.notify.clock = s.clock := by
  rcases notify_eq s with e | e <;> rw [e]

/-! ### one step -/

theorem stepT_inv {s : State} {i : Nat} {t : Thread} (h : Inv s) (ht : s.threads[i]? = some t)
    (hen : enabledT s t = true) : Inv (stepT s i t) := by
  have hi : i < s.threads.length := by
    by_cases hl : i < s.threads.length
    · exact hl
    · rw [List.getElem?_eq_none (by omega)] at ht; cases ht
  have hpc : pcOf s i = some t.pc := pcOf_eq s i t ht
  have ok := h.pcs i t.pc hpc
  -- a thread at a pc outside the locked region does not hold the lock
  have notOwner : holds t.pc = false → s.restartOwner ≠ some i := by
    intro hh e
    obtain ⟨pc, a, b, _⟩ := h.stopping.1 i e
    rw [hpc] at a; cases a; simp [hh] at b
  -- the holder is not inside `_stop_process` unless it sleeps in the kill loop
  have notStopping : holds t.pc = true → isSleep t.pc = false → s.procStopping = false := by
    intro hh hs
    cases hps : s.procStopping
    · rfl
    · obtain ⟨pc, a, _, c⟩ := h.stopping.1 i (ok.1 hh)
      rw [hpc] at a; cases a; simp [hs] at c; exact absurd hps (by simp [c])
  unfold stepT
  split
  · exact h
  · -- begin
    next hb =>
    have hn := h.midN i (notOwner (by simp [hb, holds]))
    split
    · exact arrive_inv hn hi
    · refine (hn.setPc _).close_plain ?_; pc_plain hi
    · exact watcherLoop_inv _ hn hi
  · next hb => exact arrive_inv (h.midN i (notOwner (by simp [hb, holds]))) hi
  · next hb => exact startBody_inv (h.midN i (notOwner (by simp [hb, holds]))) hi
  · next hb =>
    refine ((h.midN i (notOwner (by simp [hb, holds]))).setPc _).close_plain ?_; pc_plain hi
  · -- saRAcq
    next hb =>
    have hn := h.midN i (notOwner (by simp [hb, holds]))
    have hfree : s.restartOwner = none := by simpa [enabledT, hb] using hen
    have hH : MidH ({ s with restartOwner := some i } : State) i := hn.acquire hfree rfl rfl rfl rfl rfl rfl rfl
    have hps : s.procStopping = false := hn.notStopping hfree
    simp only
    split
    · next hp => exact startProcess_inv true hH hi hps (by simpa using hp)
    · exact startedFinish_inv (s := { s with restartOwner := some i }) hH hi hps
  · -- saStarted
    next hb =>
    have hown := ok.1 (by simp [hb, holds])
    exact startedFinish_inv (h.midH i hown) hi (notStopping (by simp [hb, holds]) (by simp [hb, isSleep]))
  · -- evCond
    next hb =>
    have hn := h.midN i (notOwner (by simp [hb, holds]))
    refine arrive_inv (((hn.congr (s' := { s with events := s.events + 1 }) rfl rfl rfl rfl rfl rfl rfl rfl).notify).log _ rfl rfl) ?_
    simpa using hi
  · -- rAcq
    next hb =>
    have hn := h.midN i (notOwner (by simp [hb, holds]))
    have hfree : s.restartOwner = none := by simpa [enabledT, hb] using hen
    split
    · exact afterRestart_inv hn hi
    · have hH : MidH ({ s with restartOwner := some i } : State) i := hn.acquire hfree rfl rfl rfl rfl rfl rfl rfl
      refine (hH.setPc (.spAcq .restart)).close (pc := .spAcq .restart) ?_ ?_ rfl ?_
      · rw [pcOf_setPc]; simp [hi]
      · exact ⟨fun _ => by simp, by simp [isSleep], by simp [inStop, afterIsStop], by simp [pastStop]⟩
      · intro x; simp [hn.notStopping hfree] at x
  · -- spAcq
    next a hb =>
    have hown := ok.1 (by simp [hb, holds])
    refine stopProcBody_inv a (h.midH i hown) hi (notStopping (by simp [hb, holds]) (by simp [hb, isSleep])) ?_
    intro x; exact ok.2.2.1 (by simpa [hb, inStop] using x)
  · -- spSleep
    next kt dl a hb =>
    have hown := ok.1 (by simp [hb, holds])
    refine killLoop_inv kt a (h.midH i hown) hi ?_
    intro x; exact ok.2.2.1 (by simpa [hb, inStop] using x)
  · -- rStarted
    next hb =>
    have hown := ok.1 (by simp [hb, holds])
    exact restartFinish_inv (h.midH i hown) hi (notStopping (by simp [hb, holds]) (by simp [hb, isSleep]))
  · -- stAcq
    next hb =>
    have hn := h.midN i (notOwner (by simp [hb, holds]))
    split
    · exact arrive_inv (hn.log _ rfl rfl) hi
    · next hts =>
      have hts' : s.trickStopping = false := by simpa using hts
      have hn1 : MidN ({ s with trickStopping := true } : State) i := by
        refine ⟨⟨by simpa [State.aliveP] using hn.glob.dead, hn.glob.nsas, ?_⟩,
          Oth_update hn.oth (fun j _ pc e => Or.inl e) (by simp) (Or.inl rfl) (Or.inl rfl), hn.own,
          Stopping_congr hn.stopping hn.own rfl rfl (fun _ _ _ e => e)⟩
        intro hx; have := (hn.glob.ret hx).1; rw [hts'] at this; cases this
      refine (hn1.setPc _).close ?_
      intro pc e
      simp only [pcOf_setPc, hi, and_self, if_true, Option.some.injEq] at e
      subst e; split <;> simp [holds, pastStop]
  · -- stCond
    next hb =>
    have hn := h.midN i (notOwner (by simp [hb, holds]))
    have htr : s.trickStopping = true := ok.2.2.1 (by simp [hb, inStop])
    have hn1 : MidN (match s.debTid with | some d => s.setStopFlag d | none => s) i := by
      split
      · exact ⟨Glob_congr hn.glob (by simp) (by simp) (by simp) (by simp) (by simp), Oth_setStopFlag _ hn.oth,
          by simpa using hn.own, Stopping_congr hn.stopping hn.own (by simp) (by simp)
            (fun j pc _ e => by rwa [pcOf_setStopFlag])⟩
      · exact hn
    have hl1 : i < (match s.debTid with | some d => s.setStopFlag d | none => s).threads.length := by
      split <;> simpa using hi
    have ht1 : (match s.debTid with | some d => s.setStopFlag d | none => s).trickStopping = true := by
      split <;> simpa using htr
    refine ((hn1.notify).setPc _).close ?_
    intro pc e
    simp only [pcOf_setPc, notify_length, hl1, and_self, if_true, Option.some.injEq] at e
    subst e; simp [holds, pastStop, ht1]
  · -- stRAcq
    next hb =>
    have hn := h.midN i (notOwner (by simp [hb, holds]))
    have htr : s.trickStopping = true := ok.2.2.1 (by simp [hb, inStop])
    have hfree : s.restartOwner = none := by simpa [enabledT, hb] using hen
    have hH : MidH ({ s with restartOwner := some i } : State) i := hn.acquire hfree rfl rfl rfl rfl rfl rfl rfl
    refine (hH.setPc (.spAcq (.stop s.watchers))).close (pc := .spAcq (.stop s.watchers)) ?_ ?_ rfl ?_
    · rw [pcOf_setPc]; simp [hi]
    · exact ⟨fun _ => by simp, by simp [isSleep], fun _ => by simpa using htr, by simp [pastStop]⟩
    · intro x; simp [hn.notStopping hfree] at x
  · -- stJoinDeb
    next w hb =>
    have hn := h.midN i (notOwner (by simp [hb, holds]))
    have htr : s.trickStopping = true := ok.2.2.1 (by simp [hb, inStop])
    have hp : s.process = none := ok.2.2.2 (by simp [hb, pastStop])
    split
    · refine (hn.setPc _).close ?_
      intro pc e
      simp only [pcOf_setPc, hi, and_self, if_true, Option.some.injEq] at e
      subst e; simp [holds, htr, hp]
    · exact stopFinish_inv hn hi htr hp
  · -- stJoinW
    next w rest hb =>
    have hn := h.midN i (notOwner (by simp [hb, holds]))
    have htr : s.trickStopping = true := ok.2.2.1 (by simp [hb, inStop])
    have hp : s.process = none := ok.2.2.2 (by simp [hb, pastStop])
    split
    · refine (hn.setPc _).close ?_
      intro pc e
      simp only [pcOf_setPc, hi, and_self, if_true, Option.some.injEq] at e
      subst e; simp [holds, htr, hp]
    · exact stopFinish_inv hn hi htr hp
  · -- wWait
    next hb =>
    have hn := h.midN i (notOwner (by simp [hb, holds]))
    split
    · refine (hn.setPc _).close_plain ?_; pc_plain hi
    · split
      · exact watcherLoop_inv _ hn hi
      · refine (hn.setPc _).close_plain ?_; pc_plain hi
  · next hb =>
    exact debHead_inv ((h.midN i (notOwner (by simp [hb, holds]))).congr rfl rfl rfl rfl rfl rfl rfl rfl) hi
  · next hb =>
    exact debHead_inv ((h.midN i (notOwner (by simp [hb, holds]))).congr rfl rfl rfl rfl rfl rfl rfl rfl) hi
  · -- dWaitMore
    next hb =>
    have hn := h.midN i (notOwner (by simp [hb, holds]))
    have hn1 : MidN ({ s with condHeld := true, notified := false } : State) i := hn.congr rfl rfl rfl rfl rfl rfl rfl rfl
    simp only
    split
    · split
      · refine ((hn1.congr (s' := { s with condHeld := false, notified := false }) rfl rfl rfl rfl rfl rfl rfl rfl).setPc _).close_plain ?_
        pc_plain hi
      · exact debDeliver_inv hn1 hi
    · exact debDeliver_inv hn1 hi

theorem step_inv {s s' : State} {i : Nat} (h : Inv s) (hs : step s i = some s') : Inv s' := by
  unfold step at hs
  split at hs
  · next t ht =>
    split at hs
    · next hen => cases hs; exact stepT_inv h ht hen
    · cases hs
  · cases hs

theorem tick_inv {s : State} (h : Inv s) (d : Nat) : Inv ({ s with clock := s.clock + d } : State) := by
  refine ⟨⟨?_, h.glob.nsas, h.glob.ret⟩, fun j pc e => h.pcs j pc e, h.stopping⟩
  intro pid hp
  have := h.glob.dead pid hp
  simp only [State.aliveP] at this ⊢
  split
  · next p hp' =>
    rw [hp'] at this
    simp only [Proc.alive, Bool.and_eq_false_iff] at this ⊢
    rcases this with e | e
    · left; split at e <;> simp_all; omega
    · right; split at e <;> simp_all; omega
  · rfl

theorem init_inv (cfg : Cfg) (lifetimes : List (Option Nat)) (scripts : List (List Op)) :
    Inv (init cfg lifetimes scripts) := by
  refine ⟨⟨fun pid _ => by simp [State.aliveP, init], NSAS_nil, fun ⟨x, hx, _⟩ => by simp [init] at hx⟩, ?_,
    ⟨fun j hj => by simp [init] at hj, fun _ => rfl⟩⟩
  intro j pc e
  have : pc = .begin := by
    simp only [pcOf, init, List.getElem?_map] at e
    cases hx : scripts[j]? <;> simp [hx] at e
    exact e.symm
  subst this
  exact PcOK_plain _ _ rfl rfl

theorem act_inv {s : State} (h : Inv s) (a : Action) : Inv (act s a) := by
  cases a with
  | step tid =>
    simp only [act]
    cases hs : step s tid with
    | none => exact h
    | some s' => exact step_inv h hs
  | tick d => exact tick_inv h d

theorem run_inv {s : State} (h : Inv s) (as : List Action) : Inv (run s as) := by
  induction as generalizing s with
  | nil => exact h
  | cons a as ih => exact ih (act_inv h a)

end WD.ProofsRst
