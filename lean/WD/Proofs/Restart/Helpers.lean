/- WD.Rst: the helper threads.  Every watcher thread other than the current `process_watcher` has been told to stop;
   when there is no current child there is no current watcher; hence once the working stop() has returned every
   watcher thread has been told to stop (or has ended) - none keeps polling a child for ever. -/
import WD.Proofs.Restart.Step
namespace WD.ProofsRst
open WD.Rst

def isWatcher : Kind → Bool
  | .watcher _ => true
  | _ => false

/-- `x`: a thread whose pc is about to be overwritten (its own "sleeping ⇒ no current watcher" is not required) -/
structure WatX (s : State) (x : Option Nat) : Prop where
  flag : ∀ j t, s.threads[j]? = some t → isWatcher t.kind = true → s.watcher = some j ∨ t.stopFlag = true
  pnone : s.process = none → s.watcher = none
  sleep : ∀ j pc, some j ≠ x → pcOf s j = some pc → isSleep pc = true → s.watcher = none

abbrev Wat (s : State) : Prop := WatX s none

theorem Wat.toX {s : State} (h : Wat s) (x : Option Nat) : WatX s x :=
  ⟨h.flag, h.pnone, fun j pc _ hpc hs => h.sleep j pc (by simp) hpc hs⟩

/-! ### primitive updates -/

theorem WatX_congr' {s s' : State} {x : Option Nat} (h : WatX s x) (h1 : s'.threads = s.threads) (h2 : s'.watcher = s.watcher)
    (h3 : s'.process = none → s.process = none ∨ s.watcher = none) : WatX s' x :=
  ⟨fun j t ht hk => by rw [h2]; exact h.flag j t (by rwa [h1] at ht) hk,
   fun hp => by rw [h2]; rcases h3 hp with e | e; exact h.pnone e; exact e,
   fun j pc hx hpc hs => by rw [h2]; exact h.sleep j pc hx (by simpa [pcOf, h1] using hpc) hs⟩

theorem WatX_congr {s s' : State} {x : Option Nat} (h : WatX s x) (h1 : s'.threads = s.threads) (h2 : s'.watcher = s.watcher)
    (h3 : s'.process = s.process) : WatX s' x :=
  WatX_congr' h h1 h2 (fun hp => Or.inl (by rwa [h3] at hp))

theorem threads_setThread_get {s : State} {i j : Nat} {t t' : Thread} (h : (s.setThread i t).threads[j]? = some t') :
    (j = i ∧ t' = t ∧ i < s.threads.length) ∨ (j ≠ i ∧ s.threads[j]? = some t') := by
  simp only [setThread_threads, List.getElem?_set] at h
  by_cases hij : i = j
  · subst hij
    by_cases hl : i < s.threads.length
    · simp [hl] at h; exact Or.inl ⟨rfl, h.symm, hl⟩
    · simp [hl] at h
  · simp [hij] at h; exact Or.inr ⟨fun e => hij e.symm, h⟩

/-- closing: thread `i` is replaced by a thread of the same kind and stop flag; its new pc is not the kill loop's sleep,
    or there is no current watcher -/
theorem WatX_setThread {s : State} {i : Nat} {t0 t : Thread} (h : WatX s (some i)) (h0 : s.threads[i]? = some t0)
    (hk : t.kind = t0.kind) (hf : t.stopFlag = t0.stopFlag) (hs : isSleep t.pc = false ∨ s.watcher = none) :
    Wat (s.setThread i t) := by
  refine ⟨?_, by simpa using h.pnone, ?_⟩
  · intro j t' ht' hw
    rcases threads_setThread_get ht' with ⟨rfl, rfl, _⟩ | ⟨_, hj⟩
    · have := h.flag j t0 h0 (by rwa [hk] at hw)
      simpa [hf] using this
    · simpa using h.flag j t' hj hw
  · intro j pc _ hpc hsl
    rw [pcOf_setThread] at hpc
    split at hpc
    · cases hpc
      rcases hs with e | e
      · rw [e] at hsl; cases hsl
      · simpa using e
    · next hne =>
      have hji : some j ≠ some i := by
        intro e
        have e' : j = i := by cases e; rfl
        by_cases hl : j < s.threads.length
        · exact hne ⟨e'.symm, e' ▸ hl⟩
        · rw [pcOf, List.getElem?_eq_none (by omega)] at hpc; cases hpc
      simpa using h.sleep j pc hji hpc hsl

theorem WatX_setPc {s : State} {i : Nat} (h : WatX s (some i)) (pc : Pc) (hs : isSleep pc = false ∨ s.watcher = none) :
    Wat (s.setPc i pc) := by
  unfold State.setPc
  split
  · next t ht => exact WatX_setThread h ht rfl rfl hs
  · next hn =>
    refine ⟨h.flag, h.pnone, ?_⟩
    intro j pc' _ hpc hsl
    refine h.sleep j pc' ?_ hpc hsl
    intro e; cases e
    rw [pcOf, hn] at hpc; cases hpc

theorem WatX_setStopFlag {s : State} {x : Option Nat} (h : WatX s x) (w : Nat) : WatX (s.setStopFlag w) x := by
  refine ⟨?_, by simpa using h.pnone, fun j pc hx hpc hs => by simpa using h.sleep j pc hx (by rwa [pcOf_setStopFlag] at hpc) hs⟩
  intro j t' ht' hk
  unfold State.setStopFlag at ht'
  split at ht'
  · next t ht =>
    rcases threads_setThread_get ht' with ⟨rfl, rfl, _⟩ | ⟨_, hj⟩
    · right; rfl
    · simpa using h.flag j t' hj hk
  · simpa using h.flag j t' ht' hk

/-- `process_watcher.stop(); process_watcher = None` -/
theorem WatX_stopWatcher {s : State} {x : Option Nat} (h : WatX s x) : WatX s.stopWatcher x ∧ s.stopWatcher.watcher = none := by
  unfold State.stopWatcher
  split
  · next w hw =>
    refine ⟨⟨?_, fun _ => rfl, fun _ _ _ _ _ => rfl⟩, rfl⟩
    intro j t' ht' hk
    right
    have ht'' : (s.setStopFlag w).threads[j]? = some t' := ht'
    unfold State.setStopFlag at ht''
    split at ht''
    · next t ht =>
      rcases threads_setThread_get ht'' with ⟨rfl, rfl, _⟩ | ⟨hne, hj⟩
      · rfl
      · rcases h.flag j t' hj hk with e | e
        · rw [hw] at e; cases e; exact absurd rfl hne
        · exact e
    · next hn =>
      rcases h.flag j t' ht'' hk with e | e
      · rw [hw] at e; cases e; rw [ht''] at hn; cases hn
      · exact e
  · next hw => exact ⟨h, hw⟩

/-- a helper thread that is not a watcher is appended -/
theorem WatX_append_other {s s' : State} {x : Option Nat} (h : WatX s x) (t0 : Thread) (hk : isWatcher t0.kind = false)
    (hp : t0.pc = .begin) (h1 : s'.threads = s.threads ++ [t0]) (h2 : s'.watcher = s.watcher) (h3 : s'.process = s.process) :
    WatX s' x := by
  refine ⟨?_, fun hp => by rw [h2]; exact h.pnone (by rwa [h3] at hp), ?_⟩
  · intro j t ht hw
    rw [h1, List.getElem?_append] at ht
    split at ht
    · rw [h2]; exact h.flag j t ht hw
    · next hl =>
      cases hk' : j - s.threads.length with
      | zero => simp [hk'] at ht; subst ht; rw [hk] at hw; cases hw
      | succ n => simp [hk'] at ht
  · intro j pc hx hpc hs
    rw [pcOf_append t0 h1] at hpc
    split at hpc
    · rw [h2]; exact h.sleep j pc hx hpc hs
    · split at hpc
      · cases hpc; rw [hp] at hs; cases hs
      · cases hpc

/-- the watcher of a freshly spawned child is appended and becomes the current one -/
theorem WatX_append_watcher {s s' : State} {x : Option Nat} (h : WatX s x) (hwn : s.watcher = none) (pid : Nat)
    (h1 : s'.threads = s.threads ++ [{ kind := .watcher pid, pc := .begin }]) (h2 : s'.watcher = some s.threads.length)
    (h3 : s'.process ≠ none) (hns : ∀ j pc, some j ≠ x → pcOf s j = some pc → isSleep pc = false) : WatX s' x := by
  refine ⟨?_, fun hp => absurd hp h3, ?_⟩
  · intro j t ht hw
    rw [h1, List.getElem?_append] at ht
    split at ht
    · next hl =>
      right
      rcases h.flag j t ht hw with e | e
      · rw [hwn] at e; cases e
      · exact e
    · next hl =>
      cases hk' : j - s.threads.length with
      | zero => left; rw [h2]; congr 1; omega
      | succ n => simp [hk'] at ht
  · intro j pc hx hpc hs
    rw [pcOf_append _ h1] at hpc
    split at hpc
    · rw [hns j pc hx hpc] at hs; cases hs
    · split at hpc
      · cases hpc; cases hs
      · cases hpc

theorem WatX.close_none {s : State} {i : Nat} (h : WatX s (some i)) (hn : s.threads[i]? = none) : Wat s :=
  ⟨h.flag, h.pnone, fun j pc _ hpc hs => h.sleep j pc (by intro e; cases e; rw [pcOf, hn] at hpc; cases hpc) hpc hs⟩

/-- nobody but `i` sleeps in the kill loop -/
def NoOtherSleep (s : State) (i : Nat) : Prop := ∀ j pc, some j ≠ some i → pcOf s j = some pc → isSleep pc = false

theorem NoOtherSleep_congr {s s' : State} {i : Nat} (h : NoOtherSleep s i) (h1 : ∀ j, pcOf s' j = pcOf s j) : NoOtherSleep s' i :=
  fun j pc hj hpc => h j pc hj (by rwa [h1] at hpc)

theorem Inv.noOtherSleep {s : State} (h : Inv s) (i : Nat) (ho : s.restartOwner = some i ∨ s.restartOwner = none) :
    NoOtherSleep s i := by
  intro j pc hj hpc
  cases hs : isSleep pc
  · rfl
  · have := (h.pcs j pc hpc).1 (isSleep_holds hs)
    rcases ho with e | e
    · rw [e] at this; cases this; exact absurd rfl hj
    · rw [e] at this; cases this

/-! ### the helpers of a step -/

theorem arrive_wat {s : State} {i : Nat} (h : WatX s (some i)) : Wat (arrive s i) := by
  unfold arrive
  split
  · next hn => exact h.close_none hn
  · next t ht =>
    split
    · exact WatX_setThread h ht rfl rfl (Or.inl rfl)
    · exact WatX_setThread h ht rfl rfl (Or.inl rfl)
    · exact WatX_setThread h ht rfl rfl (Or.inl rfl)
    · exact WatX_setThread h ht rfl rfl (Or.inl (by split <;> rfl))
    · exact WatX_setThread h ht rfl rfl (Or.inl rfl)

theorem startBody_wat {s : State} {i : Nat} (h : WatX s (some i)) : Wat (startBody s i) := by
  unfold startBody
  split
  · exact arrive_wat (WatX_congr (s' := s.log _) h rfl rfl rfl)
  · split
    · have h1 : Wat (s.setPc i Pc.saDebStarted) := WatX_setPc h _ (Or.inl rfl)
      exact WatX_append_other h1 { kind := .deb, pc := .begin } rfl rfl rfl rfl rfl
    · exact WatX_setPc h _ (Or.inl rfl)

theorem debHead_wat {s : State} {i : Nat} (h : WatX s (some i)) : Wat (debHead s i) := by
  unfold debHead
  split
  · exact WatX_setPc (WatX_congr (s' := { s with condHeld := false, notified := false }) h rfl rfl rfl) _ (Or.inl rfl)
  · split
    · exact WatX_setPc (WatX_congr (s' := { s with condHeld := false, notified := false }) h rfl rfl rfl) _ (Or.inl rfl)
    · exact WatX_setPc (WatX_congr (s' := { s with condHeld := false }) h rfl rfl rfl) _ (Or.inl rfl)

theorem debDeliver_wat {s : State} {i : Nat} (h : WatX s (some i)) : Wat (debDeliver s i) := by
  unfold debDeliver
  split
  · exact WatX_setPc (WatX_congr (s' := { s with condHeld := false }) h rfl rfl rfl) _ (Or.inl rfl)
  · exact WatX_setPc (WatX_congr (s' := { s with events := 0 }) h rfl rfl rfl) _ (Or.inl rfl)

theorem afterRestart_wat {s : State} {i : Nat} (h : WatX s (some i)) : Wat (afterRestart s i) := by
  unfold afterRestart
  split
  · next hn => exact h.close_none hn
  · split
    · exact arrive_wat (WatX_congr h rfl rfl rfl)
    · exact WatX_setPc h _ (Or.inl rfl)
    · exact debHead_wat h

theorem watcherLoop_wat {s : State} {i : Nat} (pid : Nat) (h : WatX s (some i)) : Wat (watcherLoop s i pid) := by
  unfold watcherLoop
  split
  · exact WatX_setPc h _ (Or.inl rfl)
  · split
    · exact WatX_setPc h _ (Or.inl rfl)
    · exact WatX_setPc h _ (Or.inl rfl)

theorem stopFinish_wat {s : State} {i : Nat} (h : WatX s (some i)) : Wat (stopFinish s i) :=
  arrive_wat (WatX_congr h rfl rfl rfl)

theorem restartFinish_wat {s : State} {i : Nat} (h : WatX s (some i)) : Wat (restartFinish s i) :=
  afterRestart_wat (WatX_congr (s' := { s with restartCount := s.restartCount + 1, restartOwner := none }) h rfl rfl rfl)

theorem startProcess_wat {s : State} {i : Nat} (inStart : Bool) (h : WatX s (some i)) (hp : s.process = none)
    (hns : NoOtherSleep s i) : Wat (startProcess s i inStart) := by
  have fin : ∀ s' : State, WatX s' (some i) →
      Wat (if inStart = true then arrive (({ s' with restartOwner := none } : State).log (.started i s'.clock)) i
           else restartFinish s' i) := by
    intro s' h'
    split
    · exact arrive_wat (WatX_congr h' rfl rfl rfl)
    · exact restartFinish_wat h'
  have hwn : s.watcher = none := h.pnone hp
  unfold startProcess
  simp only
  split
  · exact fin s h
  · have hs : WatX s.spawn (some i) := WatX_congr' h rfl rfl (fun _ => Or.inr hwn)
    split
    · refine WatX_setPc ?_ _ (Or.inl (by split <;> rfl))
      exact WatX_append_watcher hs hwn s.procs.length rfl rfl (by simp [State.spawn, State.log]) hns
    · exact fin s.spawn hs

theorem afterStopProc_wat {s : State} {i : Nat} (a : After) (h : WatX s (some i)) (hp : s.process = none)
    (hns : NoOtherSleep s i) : Wat (afterStopProc s i a) := by
  cases a with
  | restart => exact startProcess_wat false h hp hns
  | stop w =>
    have hn : WatX ({ s with restartOwner := none } : State) (some i) := WatX_congr h rfl rfl rfl
    unfold afterStopProc
    simp only
    split
    · exact WatX_setPc hn _ (Or.inl rfl)
    · split
      · exact WatX_setPc hn _ (Or.inl rfl)
      · exact stopFinish_wat hn

theorem stopProcDone_wat {s : State} {i : Nat} (a : After) (h : WatX s (some i)) (hw : s.watcher = none)
    (hns : NoOtherSleep s i) : Wat (stopProcDone s i a) := by
  unfold stopProcDone
  exact afterStopProc_wat a (WatX_congr' (s' := { s with process := none, procStopping := false }) h rfl rfl
    (fun _ => Or.inr hw)) rfl hns

theorem kill_wat {s : State} {x : Option Nat} (h : WatX s x) (pid sig : Nat) : WatX (s.kill pid sig) x := by
  refine WatX_congr h (by simp) ?_ (by simp)
  unfold State.kill; split <;> rfl

theorem killLoop_wat {s : State} {i : Nat} (kt : Nat) (a : After) (h : WatX s (some i)) (hw : s.watcher = none)
    (hns : NoOtherSleep s i) : Wat (killLoop s i kt a) := by
  unfold killLoop
  split
  · exact stopProcDone_wat a h hw hns
  · split
    · split
      · exact stopProcDone_wat a h hw hns
      · exact WatX_setPc h _ (Or.inr hw)
    · split
      · refine stopProcDone_wat a (kill_wat h _ 9) ?_ (NoOtherSleep_congr hns (fun j => by simp [pcOf]))
        unfold State.kill; split <;> simpa using hw
      · exact stopProcDone_wat a h hw hns

theorem stopProcBody_wat {s : State} {i : Nat} (a : After) (h : WatX s (some i)) (hps : s.procStopping = false)
    (hns : NoOtherSleep s i) : Wat (stopProcBody s i a) := by
  unfold stopProcBody
  simp only [hps, Bool.false_eq_true, if_false]
  obtain ⟨h2, hw2⟩ := WatX_stopWatcher (WatX_congr (s' := { s with procStopping := true }) h rfl rfl rfl)
  have hns2 : NoOtherSleep (({ s with procStopping := true } : State).stopWatcher) i :=
    NoOtherSleep_congr hns (fun j => by rw [pcOf_stopWatcher]; rfl)
  split
  · next hn =>
    exact afterStopProc_wat a (WatX_congr h2 rfl rfl rfl) hn (NoOtherSleep_congr hns2 (fun _ => rfl))
  · split
    · exact stopProcDone_wat a h2 hw2 hns2
    · refine killLoop_wat _ a (kill_wat h2 _ 2) ?_ (NoOtherSleep_congr hns2 (fun j => by simp [pcOf]))
      unfold State.kill; split <;> simpa using hw2

theorem notify_wat {s : State} {x : Option Nat} (h : WatX s x) : WatX s.notify x := by
  rcases notify_eq s with e | e <;> rw [e]
  · exact h
  · exact WatX_congr h rfl rfl rfl

/-! ### one step, whole runs -/

theorem stepT_wat {s : State} {i : Nat} {t : Thread} (inv : Inv s) (h : Wat s) (ht : s.threads[i]? = some t)
    (hen : enabledT s t = true) : Wat (stepT s i t) := by
  have hpc : pcOf s i = some t.pc := pcOf_eq s i t ht
  have ok := inv.pcs i t.pc hpc
  have hx : WatX s (some i) := h.toX _
  have notStopping : holds t.pc = true → isSleep t.pc = false → s.procStopping = false := by
    intro hh hs
    cases hps : s.procStopping
    · rfl
    · obtain ⟨pc, a, _, c⟩ := inv.stopping.1 i (ok.1 hh)
      rw [hpc] at a; cases a; simp [hs] at c; exact absurd hps (by simp [c])
  unfold stepT
  split
  · exact h
  · split
    · exact arrive_wat hx
    · exact WatX_setPc hx _ (Or.inl rfl)
    · exact watcherLoop_wat _ hx
  · exact arrive_wat hx
  · exact startBody_wat hx
  · exact WatX_setPc hx _ (Or.inl rfl)
  · -- saRAcq
    next hb =>
    have hfree : s.restartOwner = none := by simpa [enabledT, hb] using hen
    have hns : NoOtherSleep ({ s with restartOwner := some i } : State) i :=
      NoOtherSleep_congr (inv.noOtherSleep i (Or.inr hfree)) (fun _ => rfl)
    have h1 : WatX ({ s with restartOwner := some i } : State) (some i) := WatX_congr hx rfl rfl rfl
    simp only
    split
    · next hp => exact startProcess_wat true h1 (by simpa using hp) hns
    · exact arrive_wat (WatX_congr h1 rfl rfl rfl)
  · exact arrive_wat (WatX_congr hx rfl rfl rfl)
  · exact arrive_wat (WatX_congr (notify_wat (WatX_congr (s' := { s with events := s.events + 1 }) hx rfl rfl rfl)) rfl rfl rfl)
  · -- rAcq
    split
    · exact afterRestart_wat hx
    · exact WatX_setPc (WatX_congr (s' := { s with restartOwner := some i }) hx rfl rfl rfl) _ (Or.inl rfl)
  · -- spAcq
    next a hb =>
    have hown := ok.1 (by simp [hb, holds])
    exact stopProcBody_wat a hx (notStopping (by simp [hb, holds]) (by simp [hb, isSleep]))
      (inv.noOtherSleep i (Or.inl hown))
  · -- spSleep
    next kt dl a hb =>
    have hown := ok.1 (by simp [hb, holds])
    exact killLoop_wat kt a hx (h.sleep i t.pc (by simp) hpc (by simp [hb, isSleep])) (inv.noOtherSleep i (Or.inl hown))
  · exact restartFinish_wat hx
  · -- stAcq
    split
    · exact arrive_wat (WatX_congr hx rfl rfl rfl)
    · exact WatX_setPc (WatX_congr (s' := { s with trickStopping := true }) hx rfl rfl rfl) _ (Or.inl (by split <;> rfl))
  · -- stCond
    have h1 : WatX (match s.debTid with | some d => s.setStopFlag d | none => s) (some i) := by
      split
      · exact WatX_setStopFlag hx _
      · exact hx
    exact WatX_setPc (notify_wat h1) _ (Or.inl rfl)
  · exact WatX_setPc (WatX_congr (s' := { s with restartOwner := some i }) hx rfl rfl rfl) _ (Or.inl rfl)
  · split
    · exact WatX_setPc hx _ (Or.inl rfl)
    · exact stopFinish_wat hx
  · split
    · exact WatX_setPc hx _ (Or.inl rfl)
    · exact stopFinish_wat hx
  · split
    · exact WatX_setPc hx _ (Or.inl rfl)
    · split
      · exact watcherLoop_wat _ hx
      · exact WatX_setPc hx _ (Or.inl rfl)
  · exact debHead_wat (WatX_congr hx rfl rfl rfl)
  · exact debHead_wat (WatX_congr hx rfl rfl rfl)
  · simp only
    split
    · split
      · exact WatX_setPc (WatX_congr (s' := { s with condHeld := false, notified := false }) hx rfl rfl rfl) _ (Or.inl rfl)
      · exact debDeliver_wat (WatX_congr hx rfl rfl rfl)
    · exact debDeliver_wat (WatX_congr hx rfl rfl rfl)

theorem init_wat (cfg : Cfg) (lifetimes : List (Option Nat)) (scripts : List (List Op)) : Wat (init cfg lifetimes scripts) := by
  refine ⟨?_, fun _ => rfl, fun _ _ _ _ _ => rfl⟩
  intro j t ht hk
  simp only [init, List.getElem?_map] at ht
  cases hx : scripts[j]? <;> simp [hx] at ht
  subst ht; cases hk

theorem run_inv_wat {s : State} (hi : Inv s) (hw : Wat s) (as : List Action) : Inv (run s as) ∧ Wat (run s as) := by
  induction as generalizing s with
  | nil => exact ⟨hi, hw⟩
  | cons a as ih =>
    refine ih (act_inv hi a) ?_
    cases a with
    | tick d => exact WatX_congr (s' := { s with clock := s.clock + d }) hw rfl rfl rfl
    | step tid =>
      simp only [act, step]
      split
      · next t ht =>
        split
        · next hen => exact stepT_wat hi hw ht hen
        · exact hw
      · exact hw

/-- once the working stop() has returned, every watcher thread has been told to stop (it leaves its poll loop at its
    next step and starts nothing: `no_spawn_after_stop`), and the trick references no watcher and no child any more -/
theorem watchers_stopped (cfg : Cfg) (lifetimes : List (Option Nat)) (scripts : List (List Op)) (as : List Action)
    (tid t : Nat) (h : Obs.stopRet tid t ∈ (run (init cfg lifetimes scripts) as).hist) :
    (run (init cfg lifetimes scripts) as).watcher = none ∧ (run (init cfg lifetimes scripts) as).process = none ∧
    ∀ (j : Nat) (th : Thread), (run (init cfg lifetimes scripts) as).threads[j]? = some th → isWatcher th.kind = true → th.stopFlag = true := by
  obtain ⟨inv, wat⟩ := run_inv_wat (init_inv cfg lifetimes scripts) (init_wat cfg lifetimes scripts) as
  have hp := (inv.glob.ret ⟨_, h, rfl⟩).2
  have hw := wat.pnone hp
  refine ⟨hw, hp, ?_⟩
  intro j th hth hk
  rcases wat.flag j th hth hk with e | e
  · rw [hw] at e; cases e
  · exact e

/-- a watcher that has been told to stop is never blocked in its poll loop: it can take its next step, which ends it -/
theorem stopped_watcher_ends (s : State) (j : Nat) (th : Thread) (hth : s.threads[j]? = some th) (hf : th.stopFlag = true)
    (dl : Nat) (hpc : th.pc = .wWait dl) :
    enabled s j = true ∧ ∃ s', step s j = some s' ∧ pcOf s' j = some .done := by
  have hl : j < s.threads.length := by
    by_cases hl : j < s.threads.length
    · exact hl
    · rw [List.getElem?_eq_none (by omega)] at hth; cases hth
  have hen : enabledT s th = true := by simp [enabledT, hpc, hf]
  refine ⟨by simp [enabled, hth, hen], stepT s j th, by simp [step, hth, hen], ?_⟩
  simp only [stepT, hpc, hf, if_true]
  rw [pcOf_setPc]; simp [hl]

end WD.ProofsRst
