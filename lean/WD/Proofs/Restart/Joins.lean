/- WD.Rst: what `stop()` joins.  The thread indices a `stop()` carries from `_process_watchers` (through `_stop_process`,
   the kill loop and `event_debouncer.join()`) to the `process_watcher.join()` loop are those of watcher threads, and
   watcher threads only ever sit at the pcs of `ProcessWatcher.run` and of the restart they trigger. -/
import WD.Proofs.Restart.Cond
namespace WD.ProofsRst
open WD.Rst

/-- the pcs a watcher thread can be at -/
def wPc : Pc → Bool
  | .begin | .done | .wWait _ | .rAcq | .spAcq .restart | .spSleep _ _ .restart | .rStarted => true
  | _ => false

/-- the watcher threads a `stop()` in progress will join -/
def carried : Pc → List Nat
  | .stJoinW w rest => w :: rest
  | .stJoinDeb ws => ws
  | .spAcq (.stop ws) => ws
  | .spSleep _ _ (.stop ws) => ws
  | _ => []

/-- thread `w` exists and is a process watcher -/
def isWat (s : State) (w : Nat) : Prop := ∃ pid pc, kp s w = some (Kind.watcher pid, pc)

structure WX (s : State) (x : Option Nat) : Prop where
  wr : ∀ w, s.watcher = some w → isWat s w
  wl : ∀ w ∈ s.watchers, isWat s w
  wk : ∀ j k pc w, some j ≠ x → kp s j = some (k, pc) → w ∈ carried pc → isWat s w
  ty : ∀ j k pc, some j ≠ x → kp s j = some (k, pc) → isWatcher k = true → wPc pc = true

abbrev WI (s : State) : Prop := WX s none

/-- in the middle of a step of thread `i`, of kind `k` -/
structure WCtx (s : State) (i : Nat) (k : Kind) : Prop where
  x : WX s (some i)
  me : ∃ pc, kp s i = some (k, pc)

theorem isWat_transfer {s s' : State} {i : Nat} {k : Kind} (hme0 : ∃ pc, kp s i = some (k, pc))
    (hkp : ∀ j, j ≠ i → kp s' j = kp s j) (hme : ∃ pc, kp s' i = some (k, pc)) {w : Nat} (h : isWat s w) : isWat s' w := by
  obtain ⟨pid, pc, hw⟩ := h
  by_cases hwi : w = i
  · subst hwi
    obtain ⟨pc0, h0⟩ := hme0
    rw [h0] at hw; cases hw
    obtain ⟨pc1, h1⟩ := hme
    exact ⟨pid, pc1, h1⟩
  · exact ⟨pid, pc, by rw [hkp w hwi]; exact hw⟩

theorem WCtx.transfer {s s' : State} {i : Nat} {k : Kind} (c : WCtx s i k)
    (hkp : ∀ j, j ≠ i → kp s' j = kp s j) (hme : ∃ pc, kp s' i = some (k, pc))
    (hw : s'.watcher = s.watcher ∨ s'.watcher = none) (hl : ∀ w ∈ s'.watchers, w ∈ s.watchers := by simp) : WCtx s' i k := by
  have mono : ∀ {w}, isWat s w → isWat s' w := fun h => isWat_transfer c.me hkp hme h
  refine ⟨⟨?_, ?_, ?_, ?_⟩, hme⟩
  · intro w hw'
    rcases hw with e | e
    · exact mono (c.x.wr w (by rw [← e]; exact hw'))
    · rw [e] at hw'; cases hw'
  · intro w hw'
    exact mono (c.x.wl w (hl w hw'))
  · intro j k' pc w hj hkj hc
    have hji : j ≠ i := fun e => hj (by rw [e])
    exact mono (c.x.wk j k' pc w hj (by rw [← hkp j hji]; exact hkj) hc)
  · intro j k' pc hj hkj hk
    have hji : j ≠ i := fun e => hj (by rw [e])
    exact c.x.ty j k' pc hj (by rw [← hkp j hji]; exact hkj) hk

theorem WCtx.close {s : State} {i : Nat} {k : Kind} (c : WCtx s i k) (pc : Pc) (hme : kp s i = some (k, pc))
    (h1 : ∀ w, w ∈ carried pc → isWat s w) (h2 : isWatcher k = true → wPc pc = true) : WI s := by
  refine ⟨c.x.wr, c.x.wl, ?_, ?_⟩
  · intro j k' pc' w _ hkj hc
    by_cases hji : j = i
    · subst hji; rw [hme] at hkj; cases hkj; exact h1 w hc
    · exact c.x.wk j k' pc' w (by simp [hji]) hkj hc
  · intro j k' pc' _ hkj hk
    by_cases hji : j = i
    · subst hji; rw [hme] at hkj; cases hkj; exact h2 hk
    · exact c.x.ty j k' pc' (by simp [hji]) hkj hk

theorem WCtx.setPc_close {s : State} {i : Nat} {k : Kind} (c : WCtx s i k) (pc : Pc)
    (h1 : ∀ w, w ∈ carried pc → isWat s w) (h2 : isWatcher k = true → wPc pc = true) : WI (s.setPc i pc) := by
  obtain ⟨pc0, h0⟩ := c.me
  have hkp : ∀ j, j ≠ i → kp (s.setPc i pc) j = kp s j := fun j hj => by rw [kp_setPc]; simp [Ne.symm hj]
  have hme : kp (s.setPc i pc) i = some (k, pc) := by rw [kp_setPc]; simp [h0]
  exact (c.transfer (s' := s.setPc i pc) hkp ⟨pc, hme⟩ (Or.inl (by simp))).close pc hme
    (fun w hc => isWat_transfer c.me hkp ⟨pc, hme⟩ (h1 w hc)) h2

theorem WCtx.congr {s s' : State} {i : Nat} {k : Kind} (c : WCtx s i k) (h1 : s'.threads = s.threads)
    (h2 : s'.watcher = s.watcher ∨ s'.watcher = none) (h3 : s'.watchers = s.watchers := by rfl) : WCtx s' i k :=
  c.transfer (fun j _ => by simp [kp, h1]) (by obtain ⟨pc, h⟩ := c.me; exact ⟨pc, by simpa [kp, h1] using h⟩) h2
    (fun w hw => by rw [h3] at hw; exact hw)

theorem isWat_congr {s s' : State} (h1 : s'.threads = s.threads) {w : Nat} (h : isWat s w) : isWat s' w := by
  obtain ⟨pid, pc, hw⟩ := h
  exact ⟨pid, pc, by simpa [kp, h1] using hw⟩

theorem WCtx.log {s : State} {i : Nat} {k : Kind} (c : WCtx s i k) (o : Obs) : WCtx (s.log o) i k :=
  c.congr rfl (Or.inl rfl)

theorem kill_watcher (s : State) (pid sig : Nat) : (s.kill pid sig).watcher = s.watcher := by
  unfold State.kill; split <;> rfl
@[simp] theorem kill_watchers (s : State) (pid sig : Nat) : (s.kill pid sig).watchers = s.watchers := by
  unfold State.kill; split <;> rfl
@[simp] theorem stopWatcher_watchers (s : State) : s.stopWatcher.watchers = s.watchers := by
  unfold State.stopWatcher; split
  · simp
  · rfl
theorem stopWatcher_watcher (s : State) : s.stopWatcher.watcher = s.watcher ∨ s.stopWatcher.watcher = none := by
  unfold State.stopWatcher; split
  · exact Or.inr rfl
  · exact Or.inl rfl

theorem WCtx.setStopFlag {s : State} {i : Nat} {k : Kind} (c : WCtx s i k) (w : Nat) : WCtx (s.setStopFlag w) i k :=
  c.transfer (fun j _ => kp_setStopFlag s w j) (by rw [kp_setStopFlag]; exact c.me) (Or.inl (by simp))

theorem WCtx.stopWatcher {s : State} {i : Nat} {k : Kind} (c : WCtx s i k) : WCtx s.stopWatcher i k :=
  c.transfer (fun j _ => kp_stopWatcher s j) (by rw [kp_stopWatcher]; exact c.me) (stopWatcher_watcher s)

theorem WCtx.kill {s : State} {i : Nat} {k : Kind} (c : WCtx s i k) (pid sig : Nat) : WCtx (s.kill pid sig) i k :=
  c.transfer (fun j _ => kp_kill s pid sig j) (by rw [kp_kill]; exact c.me) (Or.inl (kill_watcher s pid sig))

theorem WCtx.notify {s : State} {i : Nat} {k : Kind} (c : WCtx s i k) : WCtx s.notify i k := by
  rcases notify_eq s with e | e <;> rw [e]
  · exact c
  · exact c.congr rfl (Or.inl rfl)

theorem isWat_setStopFlag {s : State} (v : Nat) {w : Nat} (h : isWat s w) : isWat (s.setStopFlag v) w := by
  obtain ⟨pid, pc, hw⟩ := h; exact ⟨pid, pc, by rw [kp_setStopFlag]; exact hw⟩
theorem isWat_stopWatcher {s : State} {w : Nat} (h : isWat s w) : isWat s.stopWatcher w := by
  obtain ⟨pid, pc, hw⟩ := h; exact ⟨pid, pc, by rw [kp_stopWatcher]; exact hw⟩
theorem isWat_kill {s : State} (pid sig : Nat) {w : Nat} (h : isWat s w) : isWat (s.kill pid sig) w := by
  obtain ⟨p, pc, hw⟩ := h; exact ⟨p, pc, by rw [kp_kill]; exact hw⟩

/-- a thread is appended at `begin`; `watcher` is left alone or becomes the new thread, which is a watcher -/
theorem WCtx.append {s s' : State} {i : Nat} {k : Kind} (c : WCtx s i k) (t0 : Thread) (h0b : t0.pc = .begin)
    (h1 : s'.threads = s.threads ++ [t0])
    (h2 : s'.watcher = s.watcher ∨ (s'.watcher = some s.threads.length ∧ isWatcher t0.kind = true))
    (h3 : ∀ w ∈ s'.watchers, w ∈ s.watchers ∨ (w = s.threads.length ∧ isWatcher t0.kind = true)) : WCtx s' i k := by
  obtain ⟨pc0, h0⟩ := c.me
  have hil := kp_lt h0
  have hold : ∀ j, j < s.threads.length → kp s' j = kp s j := fun j hj => by rw [kp_append _ h1]; simp [hj]
  have hnew : ∀ j x, ¬ j < s.threads.length → kp s' j = some x → x = (t0.kind, Pc.begin) := by
    intro j x hj hk
    rw [kp_append _ h1] at hk
    simp only [hj, if_false] at hk
    split at hk
    · rw [h0b] at hk; exact (Option.some.inj hk).symm
    · cases hk
  have mono : ∀ {w}, isWat s w → isWat s' w := by
    intro w ⟨pid, pc, hw⟩
    exact ⟨pid, pc, by rw [hold w (kp_lt hw)]; exact hw⟩
  have newW : isWatcher t0.kind = true → isWat s' s.threads.length := by
    intro hk
    cases hkind : t0.kind with
    | client => rw [hkind] at hk; cases hk
    | deb => rw [hkind] at hk; cases hk
    | watcher pid =>
      refine ⟨pid, .begin, ?_⟩
      rw [kp_append _ h1]
      simp [hkind, h0b]
  refine ⟨⟨?_, ?_, ?_, ?_⟩, ⟨pc0, by rw [hold i hil]; exact h0⟩⟩
  · intro w hw'
    rcases h2 with e | ⟨e, hk⟩
    · exact mono (c.x.wr w (by rw [← e]; exact hw'))
    · rw [e] at hw'; cases hw'
      exact newW hk
  · intro w hw'
    rcases h3 w hw' with e | ⟨e, hk⟩
    · exact mono (c.x.wl w e)
    · rw [e]; exact newW hk
  · intro j k' pc w hj hkj hc
    by_cases hl : j < s.threads.length
    · exact mono (c.x.wk j k' pc w hj (by rw [← hold j hl]; exact hkj) hc)
    · have := hnew j _ hl hkj; cases this; cases hc
  · intro j k' pc hj hkj hk
    by_cases hl : j < s.threads.length
    · exact c.x.ty j k' pc hj (by rw [← hold j hl]; exact hkj) hk
    · have := hnew j _ hl hkj; cases this; rfl

/-! ### the helpers of a step -/

theorem arrive_wi {s : State} {i : Nat} {k : Kind} (c : WCtx s i k) (hk : isWatcher k = false) : WI (arrive s i) := by
  obtain ⟨pc0, h0⟩ := c.me
  have hil := kp_lt h0
  unfold arrive
  split
  · next hn => rw [List.getElem?_eq_getElem hil] at hn; cases hn
  · next t ht =>
    have htk : t.kind = k := by simp [kp, ht] at h0; exact h0.1
    have fin : ∀ (t' : Thread), t'.kind = t.kind → carried t'.pc = [] → WI (s.setThread i t') := by
      intro t' hk' hnc
      have hkp : ∀ j, j ≠ i → kp (s.setThread i t') j = kp s j := fun j hj => by rw [kp_setThread]; simp [Ne.symm hj]
      have hme : kp (s.setThread i t') i = some (k, t'.pc) := by rw [kp_setThread]; simp [hil, hk', htk]
      exact (c.transfer (s' := s.setThread i t') hkp ⟨_, hme⟩ (Or.inl rfl)).close _ hme
        (fun w h => by rw [hnc] at h; cases h) (fun h => by rw [hk] at h; cases h)
    split
    · exact fin _ rfl rfl
    · exact fin _ rfl rfl
    · exact fin _ rfl rfl
    · exact fin _ rfl (by simp only; split <;> rfl)
    · exact fin _ rfl rfl

theorem debHead_wi {s : State} {i : Nat} {k : Kind} (c : WCtx s i k) (hk : isWatcher k = false) : WI (debHead s i) := by
  have nw : ∀ pc : Pc, isWatcher k = true → wPc pc = true := fun _ h => by rw [hk] at h; cases h
  unfold debHead
  split
  · exact (c.congr (s' := { s with condHeld := false, notified := false }) rfl (Or.inl rfl)).setPc_close _
      (fun w h => by cases h) (nw _)
  · split
    · exact (c.congr (s' := { s with condHeld := false, notified := false }) rfl (Or.inl rfl)).setPc_close _
        (fun w h => by cases h) (nw _)
    · exact (c.congr (s' := { s with condHeld := false }) rfl (Or.inl rfl)).setPc_close _ (fun w h => by cases h) (nw _)

theorem debDeliver_wi {s : State} {i : Nat} {k : Kind} (c : WCtx s i k) : WI (debDeliver s i) := by
  unfold debDeliver
  split
  · exact (c.congr (s' := { s with condHeld := false }) rfl (Or.inl rfl)).setPc_close _ (fun w h => by cases h) (fun _ => rfl)
  · exact (c.congr (s' := { s with events := 0 }) rfl (Or.inl rfl)).setPc_close _ (fun w h => by cases h) (fun _ => rfl)

theorem afterRestart_wi {s : State} {i : Nat} {k : Kind} (c : WCtx s i k) : WI (afterRestart s i) := by
  obtain ⟨pc0, h0⟩ := c.me
  have hil := kp_lt h0
  unfold afterRestart
  split
  · next hn => rw [List.getElem?_eq_getElem hil] at hn; cases hn
  · next t ht =>
    have htk : t.kind = k := by simp [kp, ht] at h0; exact h0.1
    split
    · next hk => exact arrive_wi (c.log _) (by rw [← htk, hk]; rfl)
    · exact c.setPc_close _ (fun w h => by cases h) (fun _ => rfl)
    · next hk => exact debHead_wi c (by rw [← htk, hk]; rfl)

theorem restartFinish_wi {s : State} {i : Nat} {k : Kind} (c : WCtx s i k) : WI (restartFinish s i) :=
  afterRestart_wi (c.congr (s' := { s with restartCount := s.restartCount + 1, restartOwner := none }) rfl (Or.inl rfl))

theorem stopFinish_wi {s : State} {i : Nat} {k : Kind} (c : WCtx s i k) (hk : isWatcher k = false) : WI (stopFinish s i) := by
  unfold stopFinish
  exact arrive_wi (c.log _) hk

theorem watcherLoop_wi {s : State} {i : Nat} {k : Kind} (pid : Nat) (c : WCtx s i k) : WI (watcherLoop s i pid) := by
  unfold watcherLoop
  split
  · exact c.setPc_close _ (fun w h => by cases h) (fun _ => rfl)
  · split
    · exact c.setPc_close _ (fun w h => by cases h) (fun _ => rfl)
    · exact c.setPc_close _ (fun w h => by cases h) (fun _ => rfl)

theorem WCtx.spawn {s : State} {i : Nat} {k : Kind} (c : WCtx s i k) : WCtx s.spawn i k := by
  have c1 : WCtx (preSpawn s) i k := c.congr rfl (Or.inl rfl)
  exact c1.log (.spawn s.procs.length s.clock)

theorem startProcess_wi {s : State} {i : Nat} {k : Kind} (inStart : Bool) (c : WCtx s i k)
    (hk : inStart = true → isWatcher k = false) : WI (startProcess s i inStart) := by
  have fin : ∀ s' : State, WCtx s' i k →
      WI (if inStart = true then arrive (({ s' with restartOwner := none } : State).log (.started i s'.clock)) i
           else restartFinish s' i) := by
    intro s' c'
    split
    · next h => exact arrive_wi ((c'.congr (s' := { s' with restartOwner := none }) rfl (Or.inl rfl)).log _) (hk h)
    · exact restartFinish_wi c'
  unfold startProcess
  simp only
  split
  · exact fin s c
  · split
    · have c2 : WCtx (withWatcher s.spawn s.procs.length) i k :=
        c.spawn.append { kind := .watcher s.procs.length, pc := .begin } rfl rfl (Or.inr ⟨rfl, rfl⟩) (by
          intro w hw
          simp only [withWatcher, List.mem_append, List.mem_filter, List.mem_singleton] at hw
          rcases hw with hw | hw
          · exact Or.inl hw.1
          · exact Or.inr ⟨hw, rfl⟩)
      refine c2.setPc_close (if inStart = true then Pc.saStarted else Pc.rStarted) (fun w h => by split at h <;> cases h) ?_
      intro hw
      split
      · next h => have := hk h; rw [this] at hw; cases hw
      · rfl
    · exact fin s.spawn c.spawn

theorem afterStopProc_wi {s : State} {i : Nat} {k : Kind} (a : After) (c : WCtx s i k)
    (hk : afterIsStop a = true → isWatcher k = false) (ha : ∀ ws w, a = .stop ws → w ∈ ws → isWat s w) :
    WI (afterStopProc s i a) := by
  cases a with
  | restart => exact startProcess_wi false c (fun h => by cases h)
  | stop w =>
    have hnw : isWatcher k = false := hk rfl
    have nw : ∀ pc : Pc, isWatcher k = true → wPc pc = true := fun _ h => by rw [hnw] at h; cases h
    have c1 : WCtx ({ s with restartOwner := none } : State) i k := c.congr rfl (Or.inl rfl)
    have ha' : ∀ v, v ∈ w → isWat ({ s with restartOwner := none } : State) v :=
      fun v e => isWat_congr (s := s) rfl (ha w v rfl e)
    unfold afterStopProc
    simp only
    split
    · exact c1.setPc_close _ (fun v h => ha' v h) (nw _)
    · split
      · next v rest => exact c1.setPc_close _ (fun v' h => ha' v' h) (nw _)
      · exact stopFinish_wi c1 hnw

theorem stopProcDone_wi {s : State} {i : Nat} {k : Kind} (a : After) (c : WCtx s i k)
    (hk : afterIsStop a = true → isWatcher k = false) (ha : ∀ ws w, a = .stop ws → w ∈ ws → isWat s w) :
    WI (stopProcDone s i a) := by
  unfold stopProcDone
  exact afterStopProc_wi a (c.congr (s' := { s with process := none, procStopping := false }) rfl (Or.inl rfl)) hk
    (fun ws w e hm => isWat_congr (s := s) rfl (ha ws w e hm))

theorem killLoop_wi {s : State} {i : Nat} {k : Kind} (kt : Nat) (a : After) (c : WCtx s i k)
    (hk : afterIsStop a = true → isWatcher k = false) (ha : ∀ ws w, a = .stop ws → w ∈ ws → isWat s w) :
    WI (killLoop s i kt a) := by
  unfold killLoop
  split
  · exact stopProcDone_wi a c hk ha
  · split
    · split
      · exact stopProcDone_wi a c hk ha
      · refine c.setPc_close _ ?_ ?_
        · intro w h
          cases a with
          | restart => cases h
          | stop v => exact ha v w rfl h
        · intro hw
          cases a with
          | restart => rfl
          | stop w => have := hk rfl; rw [this] at hw; cases hw
    · split
      · exact stopProcDone_wi a (c.kill _ 9) hk (fun ws w e hm => isWat_kill _ _ (ha ws w e hm))
      · exact stopProcDone_wi a c hk ha

theorem stopProcBody_wi {s : State} {i : Nat} {k : Kind} (a : After) (c : WCtx s i k)
    (hk : afterIsStop a = true → isWatcher k = false) (ha : ∀ ws w, a = .stop ws → w ∈ ws → isWat s w) :
    WI (stopProcBody s i a) := by
  unfold stopProcBody
  split
  · exact afterStopProc_wi a c hk ha
  · have c2 : WCtx (({ s with procStopping := true } : State).stopWatcher) i k :=
      (c.congr (s' := { s with procStopping := true }) rfl (Or.inl rfl)).stopWatcher
    have ha2 : ∀ ws w, a = .stop ws → w ∈ ws → isWat (({ s with procStopping := true } : State).stopWatcher) w :=
      fun ws w e hm => isWat_stopWatcher (isWat_congr (s := s) rfl (ha ws w e hm))
    simp only
    split
    · exact afterStopProc_wi a (c2.congr rfl (Or.inl rfl)) hk (fun ws w e hm => isWat_congr rfl (ha2 ws w e hm))
    · split
      · exact stopProcDone_wi a c2 hk ha2
      · exact killLoop_wi _ a (c2.kill _ 2) hk (fun ws w e hm => isWat_kill _ _ (ha2 ws w e hm))

theorem startBody_wi {s : State} {i : Nat} {k : Kind} (c : WCtx s i k) (hk : isWatcher k = false) : WI (startBody s i) := by
  have nw : ∀ pc : Pc, isWatcher k = true → wPc pc = true := fun _ h => by rw [hk] at h; cases h
  obtain ⟨pc0, h0⟩ := c.me
  unfold startBody
  split
  · exact arrive_wi (c.log _) hk
  · split
    · have hkp : ∀ j, j ≠ i → kp (s.setPc i Pc.saDebStarted) j = kp s j := fun j hj => by rw [kp_setPc]; simp [Ne.symm hj]
      have hme : kp (s.setPc i Pc.saDebStarted) i = some (k, Pc.saDebStarted) := by rw [kp_setPc]; simp [h0]
      have c1 : WCtx (s.setPc i Pc.saDebStarted) i k := c.transfer hkp ⟨_, hme⟩ (Or.inl (by simp))
      have c2 : WCtx (withDeb (s.setPc i Pc.saDebStarted) s.threads.length) i k :=
        c1.append { kind := .deb, pc := .begin } rfl rfl (Or.inl rfl) (fun w hw => Or.inl (by simpa [withDeb] using hw))
      have hme2 : kp (withDeb (s.setPc i Pc.saDebStarted) s.threads.length) i = some (k, Pc.saDebStarted) := by
        rw [kp_append (s := s.setPc i Pc.saDebStarted) { kind := .deb, pc := .begin } rfl i]
        simp [kp_lt h0, hme]
      exact c2.close _ hme2 (fun w h => by cases h) (nw _)
    · exact c.setPc_close _ (fun w h => by cases h) (nw _)

/-! ### one step, whole runs -/

theorem WI.open {s : State} {i : Nat} {t : Thread} (h : WI s) (ht : s.threads[i]? = some t) : WCtx s i t.kind :=
  ⟨⟨h.wr, h.wl, fun j k pc w _ hk hc => h.wk j k pc w (by simp) hk hc, fun j k pc _ hk hw => h.ty j k pc (by simp) hk hw⟩,
    ⟨t.pc, by simp [kp, ht]⟩⟩

theorem stepT_wi {s : State} {i : Nat} {t : Thread} (h : WI s) (ht : s.threads[i]? = some t) : WI (stepT s i t) := by
  by_cases hdone : t.pc = .done
  · unfold stepT; rw [hdone]; exact h
  have c := h.open ht
  have hme : kp s i = some (t.kind, t.pc) := by simp [kp, ht]
  have htyped : isWatcher t.kind = true → wPc t.pc = true := fun hk => h.ty i _ _ (by simp) hme hk
  have notW : wPc t.pc = false → isWatcher t.kind = false := by
    intro hp
    cases hk : isWatcher t.kind with
    | false => rfl
    | true => rw [htyped hk] at hp; cases hp
  have car : ∀ w, w ∈ carried t.pc → isWat s w := fun w hc => h.wk i _ _ w (by simp) hme hc
  have nw : isWatcher t.kind = false → ∀ pc : Pc, isWatcher t.kind = true → wPc pc = true :=
    fun hk _ h' => by rw [hk] at h'; cases h'
  unfold stepT
  split
  · exact h
  · -- begin
    split
    · next hk => exact arrive_wi c (by rw [hk]; rfl)
    · next hk => exact c.setPc_close _ (fun w h => by cases h) (fun h' => by rw [hk] at h'; cases h')
    · next pid hk => exact watcherLoop_wi pid c
  · next hb => exact arrive_wi c (notW (by rw [hb]; rfl))
  · next hb => exact startBody_wi c (notW (by rw [hb]; rfl))
  · next hb => exact c.setPc_close _ (fun w h => by cases h) (nw (notW (by rw [hb]; rfl)) _)
  · -- saRAcq
    next hb =>
    have hk := notW (by rw [hb]; rfl)
    have c1 : WCtx ({ s with restartOwner := some i } : State) i t.kind := c.congr rfl (Or.inl rfl)
    simp only
    split
    · exact startProcess_wi true c1 (fun _ => hk)
    · exact arrive_wi ((c1.congr (s' := { s with restartOwner := none }) rfl (Or.inl rfl)).log _) hk
  · next hb => exact arrive_wi ((c.congr (s' := { s with restartOwner := none }) rfl (Or.inl rfl)).log _) (notW (by rw [hb]; rfl))
  · -- evCond
    next hb =>
    exact arrive_wi (((c.congr (s' := { s with events := s.events + 1 }) rfl (Or.inl rfl)).notify).log _) (notW (by rw [hb]; rfl))
  · -- rAcq
    split
    · exact afterRestart_wi c
    · exact (c.congr (s' := { s with restartOwner := some i }) rfl (Or.inl rfl)).setPc_close _ (fun w h => by cases h) (fun _ => rfl)
  · -- spAcq
    next a hb =>
    refine stopProcBody_wi a c ?_ ?_
    · intro ha; apply notW; rw [hb]; cases a <;> simp_all [afterIsStop, wPc]
    · intro ws w e hm; exact car w (by rw [hb, e]; exact hm)
  · next kt dl a hb =>
    refine killLoop_wi kt a c ?_ ?_
    · intro ha; apply notW; rw [hb]; cases a <;> simp_all [afterIsStop, wPc]
    · intro ws w e hm; exact car w (by rw [hb, e]; exact hm)
  · exact restartFinish_wi c
  · -- stAcq
    next hb =>
    have hk := notW (by rw [hb]; rfl)
    split
    · exact arrive_wi (c.log _) hk
    · exact (c.congr (s' := { s with trickStopping := true }) rfl (Or.inl rfl)).setPc_close _
        (fun w h => by split at h <;> cases h) (nw hk _)
  · -- stCond
    next hb =>
    have hk := notW (by rw [hb]; rfl)
    have c1 : WCtx (match s.debTid with | some d => s.setStopFlag d | none => s) i t.kind := by
      split
      · exact c.setStopFlag _
      · exact c
    exact c1.notify.setPc_close _ (fun w h => by cases h) (nw hk _)
  · -- stRAcq: the watcher reference is captured
    next hb =>
    have hk := notW (by rw [hb]; rfl)
    refine (c.congr (s' := { s with restartOwner := some i }) rfl (Or.inl rfl)).setPc_close _ ?_ (nw hk _)
    intro w hc
    exact isWat_congr (s := s) rfl (c.x.wl w (by simpa [carried] using hc))
  · -- stJoinDeb
    next w hb =>
    have hk := notW (by rw [hb]; rfl)
    split
    · next v rest => exact c.setPc_close _ (fun v' h' => car v' (by rw [hb]; exact h')) (nw hk _)
    · exact stopFinish_wi c hk
  · next w rest0 hb =>
    have hk := notW (by rw [hb]; rfl)
    split
    · next v rest => exact c.setPc_close _ (fun v' h' => car v' (by rw [hb]; exact List.mem_cons_of_mem _ h')) (nw hk _)
    · exact stopFinish_wi c hk
  · -- wWait
    next hb =>
    split
    · exact c.setPc_close _ (fun w h => by cases h) (fun _ => rfl)
    · split
      · next pid _ => exact watcherLoop_wi pid c
      · exact c.setPc_close _ (fun w h => by cases h) (fun _ => rfl)
  · next hb => exact debHead_wi (c.congr (s' := { s with condHeld := true }) rfl (Or.inl rfl)) (notW (by rw [hb]; rfl))
  · next hb =>
    exact debHead_wi (c.congr (s' := { s with condHeld := true, notified := false }) rfl (Or.inl rfl)) (notW (by rw [hb]; rfl))
  · -- dWaitMore
    next dl hb =>
    have hk := notW (by rw [hb]; rfl)
    have c1 : WCtx ({ s with condHeld := true, notified := false } : State) i t.kind := c.congr rfl (Or.inl rfl)
    simp only
    split
    · split
      · exact (c1.congr (s' := { s with condHeld := false, notified := false }) rfl (Or.inl rfl)).setPc_close _
          (fun w h => by cases h) (nw hk _)
      · exact debDeliver_wi c1
    · exact debDeliver_wi c1

theorem init_wi (cfg : Cfg) (lifetimes : List (Option Nat)) (scripts : List (List Op)) : WI (init cfg lifetimes scripts) := by
  have hk : ∀ j k pc, kp (init cfg lifetimes scripts) j = some (k, pc) → k = .client ∧ pc = .begin := by
    intro j k pc h
    simp only [kp, init, List.getElem?_map] at h
    cases hs : scripts[j]? with
    | none => rw [hs] at h; cases h
    | some x => rw [hs] at h; simp at h; exact ⟨h.1.symm, h.2.symm⟩
  refine ⟨fun w h => by simp [init] at h, fun w h => by simp [init] at h, ?_, ?_⟩
  · intro j k pc w _ h hc; rw [(hk j k pc h).2] at hc; cases hc
  · intro j k pc _ h hw; rw [(hk j k pc h).1] at hw; cases hw

theorem run_wi {s : State} (h : WI s) (as : List Action) : WI (run s as) := by
  induction as generalizing s with
  | nil => exact h
  | cons a as ih =>
    refine ih ?_
    cases a with
    | tick d => exact ⟨h.wr, h.wl, h.wk, h.ty⟩
    | step tid =>
      simp only [act, step]
      split
      · next t ht =>
        split
        · exact stepT_wi h ht
        · exact h
      · exact h

end WD.ProofsRst
