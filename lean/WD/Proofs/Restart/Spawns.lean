/- WD.Rst: where children are spawned.  A step spawns at most one child, and only the step that completes `_stop_process`
   inside a `_restart_process` (or the locked part of `start()`) can spawn; after it the thread has left `_stop_process`,
   so one invocation of `_restart_process` spawns at most once. -/
import WD.Proofs.Restart.Helpers
namespace WD.ProofsRst
open WD.Rst

section lengths
variable (s : State) (i : Nat)

@[simp] theorem setThread_plen (t : Thread) : (s.setThread i t).procs.length = s.procs.length := rfl
@[simp] theorem setPc_plen (pc : Pc) : (s.setPc i pc).procs.length = s.procs.length := by simp
@[simp] theorem log_plen (o : Obs) : (s.log o).procs.length = s.procs.length := rfl
@[simp] theorem spawn_plen : s.spawn.procs.length = s.procs.length + 1 := by simp [State.spawn, State.log]
@[simp] theorem kill_plen (pid sig : Nat) : (s.kill pid sig).procs.length = s.procs.length := by
  unfold State.kill; split <;> simp [State.log]
@[simp] theorem stopWatcher_plen : s.stopWatcher.procs.length = s.procs.length := by simp
@[simp] theorem notify_plen : s.notify.procs.length = s.procs.length := by
  rcases notify_eq s with e | e <;> rw [e]

theorem arrive_plen : (arrive s i).procs.length = s.procs.length := by
  unfold arrive
  split
  · rfl
  · split <;> (try split) <;> simp

theorem startBody_plen : (startBody s i).procs.length = s.procs.length := by
  unfold startBody
  split
  · rw [arrive_plen]; simp
  · split <;> simp

theorem debHead_plen : (debHead s i).procs.length = s.procs.length := by
  unfold debHead; split <;> (try split) <;> simp

theorem debDeliver_plen : (debDeliver s i).procs.length = s.procs.length := by
  unfold debDeliver; split <;> simp

theorem afterRestart_plen : (afterRestart s i).procs.length = s.procs.length := by
  unfold afterRestart
  split
  · rfl
  · split
    · rw [arrive_plen]; simp
    · simp
    · exact debHead_plen s i

theorem restartFinish_plen : (restartFinish s i).procs.length = s.procs.length := by
  unfold restartFinish; rw [afterRestart_plen]

theorem stopFinish_plen : (stopFinish s i).procs.length = s.procs.length := by
  unfold stopFinish; rw [arrive_plen]; simp

theorem watcherLoop_plen (pid : Nat) : (watcherLoop s i pid).procs.length = s.procs.length := by
  unfold watcherLoop; split <;> (try split) <;> simp

theorem startProcess_plen (b : Bool) : (startProcess s i b).procs.length ≤ s.procs.length + 1 := by
  unfold startProcess
  simp only
  split
  · split
    · rw [arrive_plen]; simp
    · rw [restartFinish_plen]; omega
  · split
    · simp
    · split
      · rw [arrive_plen]; simp
      · rw [restartFinish_plen]; simp

theorem afterStopProc_plen (a : After) : (afterStopProc s i a).procs.length ≤ s.procs.length + 1 := by
  cases a with
  | restart => exact startProcess_plen s i false
  | stop w =>
    unfold afterStopProc
    simp only
    split
    · simp
    · split
      · simp
      · rw [stopFinish_plen]; simp

/-- the rest of `stop()` spawns nothing -/
theorem afterStopProc_stop_plen (w : List Nat) : (afterStopProc s i (.stop w)).procs.length = s.procs.length := by
  unfold afterStopProc
  simp only
  split
  · simp
  · split
    · simp
    · rw [stopFinish_plen]

theorem stopProcDone_plen (a : After) : (stopProcDone s i a).procs.length ≤ s.procs.length + 1 := by
  unfold stopProcDone; exact afterStopProc_plen _ i a

theorem killLoop_plen (kt : Nat) (a : After) : (killLoop s i kt a).procs.length ≤ s.procs.length + 1 := by
  unfold killLoop
  split
  · exact stopProcDone_plen s i a
  · split
    · split
      · exact stopProcDone_plen s i a
      · simp
    · split
      · have := stopProcDone_plen (s.kill ‹Nat› 9) i a; simpa using this
      · exact stopProcDone_plen s i a

theorem stopProcBody_plen (a : After) : (stopProcBody s i a).procs.length ≤ s.procs.length + 1 := by
  unfold stopProcBody
  split
  · exact afterStopProc_plen s i a
  · simp only
    split
    · have := afterStopProc_plen ({ ({ s with procStopping := true } : State).stopWatcher with procStopping := false }) i a
      simpa using this
    · split
      · have := stopProcDone_plen (({ s with procStopping := true } : State).stopWatcher) i a
        simpa using this
      · have := killLoop_plen ((({ s with procStopping := true } : State).stopWatcher).kill ‹Nat› 2) i
          ((({ s with procStopping := true } : State).stopWatcher).clock + (({ s with procStopping := true } : State).stopWatcher).cfg.killAfter) a
        simpa using this

end lengths

/-- a step spawns at most one child -/
theorem stepT_spawns_le_one (s : State) (i : Nat) (t : Thread) : (stepT s i t).procs.length ≤ s.procs.length + 1 := by
  unfold stepT
  split
  · omega
  · split
    · rw [arrive_plen]; omega
    · simp
    · rw [watcherLoop_plen]; omega
  · rw [arrive_plen]; omega
  · rw [startBody_plen]; omega
  · simp
  · simp only
    split
    · have := startProcess_plen ({ s with restartOwner := some i } : State) i true; simpa using this
    · rw [arrive_plen]; simp
  · rw [arrive_plen]; simp
  · rw [arrive_plen]; simp
  · split
    · rw [afterRestart_plen]; omega
    · simp
  · exact stopProcBody_plen s i _
  · exact killLoop_plen s i _ _
  · rw [restartFinish_plen]; omega
  · split
    · rw [arrive_plen]; simp
    · simp
  · split <;> simp
  · simp
  · split
    · simp
    · rw [stopFinish_plen]; omega
  · split
    · simp
    · rw [stopFinish_plen]; omega
  · split
    · simp
    · split
      · rw [watcherLoop_plen]; omega
      · simp
  · rw [debHead_plen]; simp
  · rw [debHead_plen]; simp
  · simp only
    split
    · split
      · simp
      · rw [debDeliver_plen]; simp
    · rw [debDeliver_plen]; simp

/-- only three kinds of step can spawn: the locked part of `start()`, and the completion of `_stop_process` inside a
    `_restart_process` (directly, or at the end of the kill loop) -/
def spawnSite : Pc → Bool
  | .saRAcq => true
  | .spAcq .restart => true
  | .spSleep _ _ .restart => true
  | _ => false

theorem stepT_spawn_site (s : State) (i : Nat) (t : Thread) (h : s.procs.length < (stepT s i t).procs.length) :
    spawnSite t.pc = true := by
  unfold stepT at h
  split at h
  · omega
  · split at h
    · rw [arrive_plen] at h; omega
    · simp at h
    · rw [watcherLoop_plen] at h; omega
  · rw [arrive_plen] at h; omega
  · rw [startBody_plen] at h; omega
  · simp at h
  · next hb => simp [spawnSite, hb]
  · rw [arrive_plen] at h; simp at h
  · rw [arrive_plen] at h; simp at h
  · split at h
    · rw [afterRestart_plen] at h; omega
    · simp at h
  · next a hb =>
    cases a with
    | restart => simp [spawnSite, hb]
    | stop w =>
      exfalso
      -- `_stop_process` called from stop(): what follows spawns nothing
      unfold stopProcBody at h
      split at h
      · rw [afterStopProc_stop_plen] at h; omega
      · simp only at h
        split at h
        · rw [afterStopProc_stop_plen] at h; simp at h
        · split at h
          · unfold stopProcDone at h; rw [afterStopProc_stop_plen] at h; simp at h
          · unfold killLoop at h
            split at h
            · unfold stopProcDone at h; rw [afterStopProc_stop_plen] at h; simp at h
            · split at h
              · split at h
                · unfold stopProcDone at h; rw [afterStopProc_stop_plen] at h; simp at h
                · simp at h
              · split at h
                · unfold stopProcDone at h; rw [afterStopProc_stop_plen] at h; simp at h
                · unfold stopProcDone at h; rw [afterStopProc_stop_plen] at h; simp at h
  · next kt dl a hb =>
    cases a with
    | restart => simp [spawnSite, hb]
    | stop w =>
      exfalso
      unfold killLoop at h
      split at h
      · unfold stopProcDone at h; rw [afterStopProc_stop_plen] at h; simp at h
      · split at h
        · split at h
          · unfold stopProcDone at h; rw [afterStopProc_stop_plen] at h; simp at h
          · simp at h
        · split at h
          · unfold stopProcDone at h; rw [afterStopProc_stop_plen] at h; simp at h
          · unfold stopProcDone at h; rw [afterStopProc_stop_plen] at h; simp at h
  · rw [restartFinish_plen] at h; omega
  · split at h
    · rw [arrive_plen] at h; simp at h
    · simp at h
  · split at h <;> simp at h
  · simp at h
  · split at h
    · simp at h
    · rw [stopFinish_plen] at h; omega
  · split at h
    · simp at h
    · rw [stopFinish_plen] at h; omega
  · split at h
    · simp at h
    · split at h
      · rw [watcherLoop_plen] at h; omega
      · simp at h
  · rw [debHead_plen] at h; simp at h
  · rw [debHead_plen] at h; simp at h
  · simp only at h
    split at h
    · split at h
      · simp at h
      · rw [debDeliver_plen] at h; simp at h
    · rw [debDeliver_plen] at h; simp at h

end WD.ProofsRst
