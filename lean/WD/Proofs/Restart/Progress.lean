/- WD.Rst: nobody waits for `_restart_lock` or `_stopping_lock` in vain - whenever a thread is waiting for one of the two
   locks, some thread can take a step, or the lock's holder is asleep in the kill loop (a pending deadline) -/
import WD.Proofs.Restart.Step
namespace WD.ProofsRst
open WD.Rst

/-- pcs at which a thread waits for `_stopping_lock` -/
def waitsS : Pc → Bool
  | .saSAcq | .stAcq | .spAcq _ => true
  | _ => false

/-- pcs at which a thread waits for `_restart_lock` -/
def waitsR : Pc → Bool
  | .saRAcq | .rAcq | .stRAcq => true
  | _ => false

/-- some thread can step now, or one sleeps in the kill loop (and will be able to once the clock has advanced) -/
def CanMove (s : State) : Prop :=
  (∃ i, enabled s i = true) ∨ (∃ (i : Nat) (ti : Thread) (kt dl : Nat) (a : After), s.threads[i]? = some ti ∧ ti.pc = Pc.spSleep kt dl a)

theorem startHolds_witness {s : State} (h : s.startHolds = true) : ∃ i, enabled s i = true := by
  unfold State.startHolds at h
  obtain ⟨t, ht, hpc⟩ := List.any_eq_true.mp h
  obtain ⟨i, hi, hget⟩ := List.getElem_of_mem ht
  refine ⟨i, ?_⟩
  have : s.threads[i]? = some t := by rw [List.getElem?_eq_getElem hi, hget]
  have hp : t.pc = .saDebStarted := by simpa using hpc
  simp [enabled, this, enabledT, hp]

/-- a thread waiting for `_stopping_lock`: the lock is free (the thread itself can step), or `start()` holds it - and the
    starting thread can always step -/
theorem waitS_progress (s : State) (j : Nat) (t : Thread) (ht : s.threads[j]? = some t) (hw : waitsS t.pc = true) :
    ∃ i, enabled s i = true := by
  cases hs : s.startHolds with
  | true => exact startHolds_witness hs
  | false =>
    refine ⟨j, ?_⟩
    simp only [enabled, ht]
    cases hpc : t.pc <;> simp [waitsS, hpc] at hw <;> simp [enabledT, hpc, hs]

/-- a thread waiting for `_restart_lock`, in a reachable state -/
theorem waitR_progress {s : State} (inv : Inv s) (j : Nat) (t : Thread) (ht : s.threads[j]? = some t)
    (hw : waitsR t.pc = true) : CanMove s := by
  cases ho : s.restartOwner with
  | none =>
    refine Or.inl ⟨j, ?_⟩
    simp only [enabled, ht]
    cases hpc : t.pc <;> simp [waitsR, hpc] at hw <;> simp [enabledT, hpc, ho]
  | some o =>
    obtain ⟨pc, hpo, hh, _⟩ := inv.stopping.1 o ho
    unfold pcOf at hpo
    cases hto : s.threads[o]? with
    | none => rw [hto] at hpo; cases hpo
    | some to =>
      rw [hto] at hpo
      simp only [Option.map_some, Option.some.injEq] at hpo
      cases hpc : to.pc <;> rw [hpc] at hpo <;> subst hpo <;> simp [holds] at hh
      · exact Or.inl ⟨o, by simp [enabled, hto, enabledT, hpc]⟩
      · exact Or.inl (waitS_progress s o to hto (by simp [waitsS, hpc]))
      · exact Or.inr ⟨o, to, _, _, _, hto, hpc⟩
      · exact Or.inl ⟨o, by simp [enabled, hto, enabledT, hpc]⟩

/-- **no deadlock on the two locks**: in every reachable state, whenever some thread is waiting for `_restart_lock` or
    `_stopping_lock`, some thread can take a step or the lock's holder sleeps in the kill loop with a deadline pending -/
theorem lock_wait_progress (cfg : Cfg) (lifetimes : List (Option Nat)) (scripts : List (List Op)) (as : List Action)
    (j : Nat) (t : Thread) (ht : (run (init cfg lifetimes scripts) as).threads[j]? = some t)
    (hw : waitsS t.pc = true ∨ waitsR t.pc = true) : CanMove (run (init cfg lifetimes scripts) as) := by
  rcases hw with h | h
  · exact Or.inl (waitS_progress _ j t ht h)
  · exact waitR_progress (run_inv (init_inv cfg lifetimes scripts) as) j t ht h

end WD.ProofsRst
