/- bursts of file operations including renames and moves of files: read as ONE batch = drained one by one -/
import WD.Proofs.Pipeline.Burst
import WD.Proofs.Pipeline.RenameStatic
import WD.Proofs.Pipeline.Filter
set_option linter.unusedSimpArgs false
namespace WD.Pipe

/-! ### grouping of a concatenated batch when the cookies of the later part are fresh -/

/-- no unpaired MOVED_FROM with this cookie in the prefix -/
def noFrom (c : Nat) (a : List Grouped) : Prop :=
  ∀ g ∈ a, match g with | .one r => ¬ (r.flag = .movedFrom ∧ r.cookie = c) | _ => True

theorem pairIn_append_fresh (t : LEv) (a b : List Grouped) (h : noFrom t.cookie a) :
    pairIn t (a ++ b) = (pairIn t b).map (fun l => a ++ l) := by
  induction a with
  | nil => simp only [List.nil_append]; cases pairIn t b <;> simp
  | cons g rest ih =>
    have hrest : noFrom t.cookie rest := fun x hx => h x (List.mem_cons_of_mem _ hx)
    have hg := h g (List.mem_cons_self ..)
    cases g with
    | one r =>
      simp only [List.cons_append, pairIn]
      have : (r.flag == Flag.movedFrom && r.cookie == t.cookie) = false := by
        simp only at hg
        cases hf : (r.flag == Flag.movedFrom) <;> simp
        intro hc; exact hg ⟨by simpa using hf, hc⟩
      simp only [this, Bool.false_eq_true, if_false, ih hrest]
      cases pairIn t b <;> rfl
    | two f t' =>
      simp only [List.cons_append, pairIn, ih hrest]
      cases pairIn t b <;> rfl

theorem groupStep_append_fresh (a b : List Grouped) (e : LEv) (h : e.flag = .movedTo → noFrom e.cookie a) :
    groupStep (a ++ b) e = a ++ groupStep b e := by
  unfold groupStep
  by_cases hf : e.flag = .movedTo
  · simp only [hf, beq_self_eq_true, if_true, pairIn_append_fresh e a b (h hf)]
    cases pairIn e b <;> simp
  · have : (e.flag == Flag.movedTo) = false := by simpa using hf
    simp [this]

theorem foldl_groupStep_append (a : List Grouped) (l : List LEv) (h : ∀ e ∈ l, e.flag = .movedTo → noFrom e.cookie a) :
    ∀ b, l.foldl groupStep (a ++ b) = a ++ l.foldl groupStep b := by
  induction l with
  | nil => intro b; rfl
  | cons e rest ih =>
    intro b
    simp only [List.foldl_cons]
    rw [groupStep_append_fresh a b e (h e (List.mem_cons_self ..))]
    exact ih (fun x hx => h x (List.mem_cons_of_mem _ hx)) _

/-- an item of a grouped batch comes from the batch -/
theorem mem_group_one (l : List LEv) : ∀ r, Grouped.one r ∈ group l → r ∈ l := by
  rw [group_eq_foldl]
  have : ∀ (acc : List Grouped), (∀ r, Grouped.one r ∈ acc → r ∈ l) → ∀ (l' : List LEv), (∀ x ∈ l', x ∈ l) →
      ∀ r, Grouped.one r ∈ l'.foldl groupStep acc → r ∈ l := by
    intro acc hacc l'
    induction l' generalizing acc with
    | nil => intro _ r hr; exact hacc r hr
    | cons e rest ih =>
      intro hl r hr
      simp only [List.foldl_cons] at hr
      refine ih (groupStep acc e) ?_ (fun x hx => hl x (List.mem_cons_of_mem _ hx)) r hr
      intro r' hr'
      unfold groupStep at hr'
      have pin : ∀ (acc : List Grouped) (g : List Grouped), pairIn e acc = some g → Grouped.one r' ∈ g → Grouped.one r' ∈ acc := by
        intro acc
        induction acc with
        | nil => intro g hg; simp [pairIn] at hg
        | cons x xs ihx =>
          intro g hg hm
          cases x with
          | one y =>
            simp only [pairIn] at hg
            split at hg
            · cases hg; simp at hm; exact List.mem_cons_of_mem _ hm
            · cases hp : pairIn e xs with
              | none => simp [hp] at hg
              | some g' =>
                simp [hp] at hg; subst hg
                simp at hm
                rcases hm with rfl | hm
                · exact List.mem_cons_self ..
                · exact List.mem_cons_of_mem _ (ihx g' hp hm)
          | two f t =>
            simp only [pairIn] at hg
            cases hp : pairIn e xs with
            | none => simp [hp] at hg
            | some g' =>
              simp [hp] at hg; subst hg
              simp at hm
              exact List.mem_cons_of_mem _ (ihx g' hp hm)
      split at hr'
      · split at hr'
        · next g hg => exact hacc r' (pin acc g hg hr')
        · simp at hr'
          rcases hr' with h | rfl
          · exact hacc r' h
          · exact hl _ (List.mem_cons_self ..)
      · simp at hr'
        rcases hr' with h | rfl
        · exact hacc r' h
        · exact hl _ (List.mem_cons_self ..)
  exact this [] (by simp) l (fun x hx => hx)

theorem group_append_fresh (l1 l2 : List LEv)
    (h : ∀ t ∈ l2, t.flag = .movedTo → ∀ f ∈ l1, f.flag = .movedFrom → f.cookie ≠ t.cookie) :
    group (l1 ++ l2) = group l1 ++ group l2 := by
  rw [group_eq_foldl, group_eq_foldl, group_eq_foldl, List.foldl_append]
  have := foldl_groupStep_append (l1.foldl groupStep []) l2 ?_ []
  · simpa using this
  · intro e he hf g hg
    cases g with
    | two _ _ => trivial
    | one r =>
      simp only
      rintro ⟨hr1, hr2⟩
      have hmem := mem_group_one l1 r (by rw [group_eq_foldl]; exact hg)
      exact h e he hf r hmem hr1 hr2

theorem gsOf_append_fresh (l1 l2 : List LEv)
    (h : ∀ t ∈ l2, t.flag = .movedTo → ∀ f ∈ l1, f.flag = .movedFrom → f.cookie ≠ t.cookie) :
    gsOf (l1 ++ l2) = gsOf l1 ++ gsOf l2 := by
  unfold gsOf; rw [group_append_fresh l1 l2 h, List.filter_append]

theorem mem_gsOf_one (l : List LEv) (r : LEv) (h : Grouped.one r ∈ gsOf l) : r ∈ l :=
  mem_group_one l r (List.mem_filter.1 h).1

/-! ### what a burst needs to know about one file operation -/

structure FileOp (s : Sys) (op : Op) (fs1 : FS) (k1 : Kern) (recs : List NRec) (lib1 : Lib) (levs : List LEv)
    (evs : List PEv) : Prop where
  hk : kernelOp s.fs s.k op = (fs1, k1, recs)
  hck : s.k.nextCookie ≤ k1.nextCookie
  /-- the reader's work on these records depends neither on the file system nor on the kernel state it finds -/
  hl : ∀ fs' k', libBatch fs' k' s.lib recs = some (k', lib1, levs)
  hrec : lib1.recursive = true
  hfile : ∀ e ∈ levs, e.flag ≠ .ignored ∧ (e.flag = .movedFrom → e.isDir = false) ∧
    ((e.flag = .movedFrom ∨ e.flag = .movedTo) → s.k.nextCookie ≤ e.cookie ∧ e.cookie < k1.nextCookie)
  /-- … and neither does what the emitter makes of them -/
  hem : ∀ fs', emitAll fs' true s.full (gsOf levs) = (evs, false)
  hop : s.op op = ({ s with fs := fs1, k := k1, lib := lib1 }, evs)
  hinv : InvRec fs1 k1 lib1

theorem fileOp_of_simple (s : Sys) (op : Op) (inv : InvRec s.fs s.k s.lib) (hs : s.stopped = false) (hc : s.crashed = false)
    {fs1 : FS} {recs : List NRec} {path : NRec → P} (h : SimpleOp s op fs1 recs path) :
    FileOp s op fs1 s.k recs s.lib (recs.map (fun r => r.toLEv (path r)))
      (recs.flatMap (fun r => (emit fs1 true s.full (.one (r.toLEv (path r)))).1)) := by
  have hflags : ∀ e ∈ recs.map (fun r => r.toLEv (path r)), e.flag ≠ .movedTo ∧ e.flag ≠ .ignored ∧ e.flag ≠ .movedFrom := by
    intro e he
    obtain ⟨r, hr1, rfl⟩ := List.mem_map.mp he
    have := (h.hr r hr1).1
    simp only [NRec.toLEv]
    refine ⟨?_, ?_, ?_⟩ <;> intro hf <;> simp [simpleFlag, hf] at this
  refine ⟨h.hk, Nat.le_refl _, ?_, inv.isRec, ?_, ?_, ?_, inv.fs_change h.hwf h.hdirs⟩
  · intro fs' k'
    exact libBatch_simple fs' k' s.lib recs path (by rw [inv.isRec]; exact h.hr)
  · intro e he
    obtain ⟨a, b, c⟩ := hflags e he
    exact ⟨b, fun x => absurd x c, fun x => by rcases x with x | x; exact absurd x c; exact absurd x a⟩
  · intro fs'
    rw [gsOf_simple _ (fun e he => ⟨(hflags e he).1, (hflags e he).2.1⟩), emitAll_nostop]
    · simp only [List.flatMap_map]
      have : ∀ l : List NRec, (∀ r ∈ l, r ∈ recs) →
          l.flatMap (fun r => (emit fs' true s.full (.one (r.toLEv (path r)))).1) =
          l.flatMap (fun r => (emit fs1 true s.full (.one (r.toLEv (path r)))).1) := by
        intro l
        induction l with
        | nil => intro _; rfl
        | cons r l ihl =>
          intro hl
          simp only [List.flatMap_cons]
          rw [ihl (fun x hx => hl x (List.mem_cons_of_mem _ hx)),
            emit_simple_fs fs' fs1 s.full _ (by simpa [NRec.toLEv] using (h.hr r (hl r (List.mem_cons_self ..))).1)]
      rw [← this recs (fun _ h => h)]
    · intro g hg
      obtain ⟨e, he, rfl⟩ := List.mem_map.mp hg
      obtain ⟨r, hr1, rfl⟩ := List.mem_map.mp he
      rw [emit_simple_fs fs' fs1 s.full _ (by simpa [NRec.toLEv] using (h.hr r hr1).1)]
      exact h.hnostop r hr1
  · exact op_simple s op inv hs hc h

/-- the kernel side of renaming / moving / replacing a FILE: the watches are untouched -/
theorem rename_kernel_file {fs : FS} {k : Kern} {p q : P} {e : Ent} (ok : RenameOK fs p q e) (hfile : e.isDir = false) :
    kernelOp fs k (.rename p q) = (fs.renamed p q, { k with nextCookie := k.nextCookie + 1 },
      fromRecs fs k p false ++ toRecs fs k q false) := by
  have hmap : ∀ l : List Ent, l.map (fun x => if x.path == p then { x with path := q }
      else if isUnder p x.path then { x with path := q ++ x.path.drop p.length } else x) = l.map (rwEnt p q) := by
    intro l; apply List.map_congr_left; intro x _; exact rwEnt_eq_model p q x
  cases hq : fs.find? q with
  | none =>
    simp only [kernelOp, ok.he, hq, hmap, fromRecs, toRecs, List.append_nil, hfile]
    simp [FS.renamed, FS.del_missing hq]
  | some old =>
    have hold : old.isDir = false := by rw [(ok.hold old hq).1, hfile]
    simp only [kernelOp, ok.he, hq, hold, hmap, fromRecs, toRecs, List.append_nil, hfile, Bool.false_eq_true, if_false]
    simp [FS.renamed, FS.del]

theorem op_with (s : Sys) (hs : s.stopped = false) {op : Op} {fs1 : FS} {k1 : Kern} {lib1 : Lib} {X : List PEv}
    (h : s.op op = ({ fs := fs1, k := k1, lib := lib1, full := s.full, stopped := false, crashed := s.crashed }, X)) :
    s.op op = ({ s with fs := fs1, k := k1, lib := lib1 }, X) := by rw [h, hs]

theorem fileOp_of_rename (s : Sys) (p q : P) (e : Ent) (inv : InvRec s.fs s.k s.lib) (hs : s.stopped = false)
    (hc : s.crashed = false) (ok : RenameOK s.fs p q e) (hfile : e.isDir = false) :
    ∃ recs lib1 levs evs, FileOp s (.rename p q) (s.fs.renamed p q) { s.k with nextCookie := s.k.nextCookie + 1 }
      recs lib1 levs evs := by
  have hkk := rename_kernel_file (k := s.k) ok hfile
  have hpb := snoc_parent_base (ne_nil_of_two_le ok.hp2)
  have hqb := snoc_parent_base (ne_nil_of_two_le ok.hq2)
  have st := step_rename_static s p q e inv hs hc ok (Or.inl hfile)
  -- the invariant afterwards, from the drained step
  have hinv_of : ∀ {lib1 : Lib} {evs : List PEv},
      s.op (.rename p q) = ({ s with fs := s.fs.renamed p q, k := { s.k with nextCookie := s.k.nextCookie + 1 }, lib := lib1 }, evs) →
      InvRec (s.fs.renamed p q) { s.k with nextCookie := s.k.nextCookie + 1 } lib1 := by
    intro lib1 evs hop
    have h1 := st.stop
    rw [hop] at h1
    have := st.inv (by rw [← h1]; exact hs)
    rw [hop] at this
    exact this
  rcases inv.parent_recs p with ⟨hwp, wdp, hp1, _, hrp⟩ | ⟨hwp, hrp⟩ <;>
  rcases inv.parent_recs q with ⟨hwq, wdq, hq1, _, hrq⟩ | ⟨hwq, hrq⟩
  · -- inside → inside
    have hk' : kernelOp s.fs s.k (.rename p q) = (s.fs.renamed p q, { s.k with nextCookie := s.k.nextCookie + 1 },
        [⟨wdp, .movedFrom, false, s.k.nextCookie, some (baseName p)⟩, ⟨wdq, .movedTo, false, s.k.nextCookie, some (baseName q)⟩]) := by
      rw [hkk]; simp [fromRecs, toRecs, hrp, hrq]
    have hl : ∀ fs' k', libBatch fs' k' s.lib
        [⟨wdp, .movedFrom, false, s.k.nextCookie, some (baseName p)⟩, ⟨wdq, .movedTo, false, s.k.nextCookie, some (baseName q)⟩] =
        some (k', s.lib.remember s.k.nextCookie p,
          [⟨wdp, .movedFrom, false, s.k.nextCookie, some (baseName p), p⟩, ⟨wdq, .movedTo, false, s.k.nextCookie, some (baseName q), q⟩]) := by
      intro fs' k'
      rw [libBatch_cons, libRecord_from _ _ _ _ _ _ _ _ hp1, hpb]
      simp only
      rw [libBatch_cons, libRecord_to_paired_file _ _ _ _ _ _ _ _ hq1 (ok.not_key_of_file inv hfile), hqb]
      simp [libBatch_nil]
    have hgs : gsOf [(⟨wdp, .movedFrom, false, s.k.nextCookie, some (baseName p), p⟩ : LEv), ⟨wdq, .movedTo, false, s.k.nextCookie, some (baseName q), q⟩] =
        [.two ⟨wdp, .movedFrom, false, s.k.nextCookie, some (baseName p), p⟩ ⟨wdq, .movedTo, false, s.k.nextCookie, some (baseName q), q⟩] := by
      simp [gsOf, group, pairIn, Grouped.keep]
    have hem : ∀ fs', emitAll fs' true s.full (gsOf [(⟨wdp, .movedFrom, false, s.k.nextCookie, some (baseName p), p⟩ : LEv),
        ⟨wdq, .movedTo, false, s.k.nextCookie, some (baseName q), q⟩]) =
        ([mkEv .FileMovedEvent p q, mkEv .DirModifiedEvent (parentOf p), mkEv .DirModifiedEvent (parentOf q)], false) := by
      intro fs'; rw [hgs]; simp [emitAll_cons, emitAll_nil, emit]
    have hf : forgetAll (s.fs.renamed p q) { s.k with nextCookie := s.k.nextCookie + 1 } (s.lib.remember s.k.nextCookie p)
        (if (s.lib.remember s.k.nextCookie p).recursive then movedOut (gsOf
          [(⟨wdp, .movedFrom, false, s.k.nextCookie, some (baseName p), p⟩ : LEv), ⟨wdq, .movedTo, false, s.k.nextCookie, some (baseName q), q⟩]) else []) =
        some ({ s.k with nextCookie := s.k.nextCookie + 1 }, s.lib.remember s.k.nextCookie p) := by
      rw [hgs]; simp [movedOut, forgetAll_nil]
    have hop := Sys.op_eq s _ hs hc hk' (hl _ _) hf
    have hrec' : (s.lib.remember s.k.nextCookie p).recursive = true := inv.isRec
    rw [hrec', hem] at hop
    have hop' := op_with s hs hop
    refine ⟨_, _, _, _, ⟨hk', by simp, hl, hrec', ?_, hem, hop', hinv_of hop'⟩⟩
    intro x hx; simp at hx
    rcases hx with rfl | rfl <;> simp
  · -- out of the tree
    have hk' : kernelOp s.fs s.k (.rename p q) = (s.fs.renamed p q, { s.k with nextCookie := s.k.nextCookie + 1 },
        [⟨wdp, .movedFrom, false, s.k.nextCookie, some (baseName p)⟩]) := by
      rw [hkk]; simp [fromRecs, toRecs, hrp, hrq]
    have hl : ∀ fs' k', libBatch fs' k' s.lib [⟨wdp, .movedFrom, false, s.k.nextCookie, some (baseName p)⟩] =
        some (k', s.lib.remember s.k.nextCookie p, [⟨wdp, .movedFrom, false, s.k.nextCookie, some (baseName p), p⟩]) := by
      intro fs' k'
      rw [libBatch_cons, libRecord_from _ _ _ _ _ _ _ _ hp1, hpb]
      simp [libBatch_nil]
    have hgs : gsOf [(⟨wdp, .movedFrom, false, s.k.nextCookie, some (baseName p), p⟩ : LEv)] =
        [.one ⟨wdp, .movedFrom, false, s.k.nextCookie, some (baseName p), p⟩] := by
      simp [gsOf, group, Grouped.keep]
    have hem : ∀ fs', emitAll fs' true s.full (gsOf [(⟨wdp, .movedFrom, false, s.k.nextCookie, some (baseName p), p⟩ : LEv)]) =
        ((emit s.fs true s.full (.one ⟨wdp, .movedFrom, false, s.k.nextCookie, some (baseName p), p⟩)).1, false) := by
      intro fs'; rw [hgs]; cases s.full <;> simp [emitAll_cons, emitAll_nil, emit]
    have hf : forgetAll (s.fs.renamed p q) { s.k with nextCookie := s.k.nextCookie + 1 } (s.lib.remember s.k.nextCookie p)
        (if (s.lib.remember s.k.nextCookie p).recursive then movedOut (gsOf
          [(⟨wdp, .movedFrom, false, s.k.nextCookie, some (baseName p), p⟩ : LEv)]) else []) =
        some ({ s.k with nextCookie := s.k.nextCookie + 1 }, s.lib.remember s.k.nextCookie p) := by
      rw [hgs]; simp [movedOut, forgetAll_nil]
    have hop := Sys.op_eq s _ hs hc hk' (hl _ _) hf
    have hrec' : (s.lib.remember s.k.nextCookie p).recursive = true := inv.isRec
    rw [hrec', hem] at hop
    have hop' := op_with s hs hop
    refine ⟨_, _, _, _, ⟨hk', by simp, hl, hrec', ?_, hem, hop', hinv_of hop'⟩⟩
    intro x hx; simp at hx; subst hx; simp
  · -- into the tree
    have hk' : kernelOp s.fs s.k (.rename p q) = (s.fs.renamed p q, { s.k with nextCookie := s.k.nextCookie + 1 },
        [⟨wdq, .movedTo, false, s.k.nextCookie, some (baseName q)⟩]) := by
      rw [hkk]; simp [fromRecs, toRecs, hrp, hrq]
    have hl : ∀ fs' k', libBatch fs' k' s.lib [⟨wdq, .movedTo, false, s.k.nextCookie, some (baseName q)⟩] =
        some (k', s.lib, [⟨wdq, .movedTo, false, s.k.nextCookie, some (baseName q), q⟩]) := by
      intro fs' k'
      rw [libBatch_cons, libRecord_to_lone_file _ _ _ _ _ _ _ hq1 inv.cookies, hqb]
      simp [libBatch_nil]
    have hgs : gsOf [(⟨wdq, .movedTo, false, s.k.nextCookie, some (baseName q), q⟩ : LEv)] =
        [.one ⟨wdq, .movedTo, false, s.k.nextCookie, some (baseName q), q⟩] := by
      simp [gsOf, group, pairIn, Grouped.keep]
    have hem : ∀ fs', emitAll fs' true s.full (gsOf [(⟨wdq, .movedTo, false, s.k.nextCookie, some (baseName q), q⟩ : LEv)]) =
        ((emit s.fs true s.full (.one ⟨wdq, .movedTo, false, s.k.nextCookie, some (baseName q), q⟩)).1, false) := by
      intro fs'; rw [hgs]; cases s.full <;> simp [emitAll_cons, emitAll_nil, emit]
    have hf : forgetAll (s.fs.renamed p q) { s.k with nextCookie := s.k.nextCookie + 1 } s.lib
        (if s.lib.recursive then movedOut (gsOf
          [(⟨wdq, .movedTo, false, s.k.nextCookie, some (baseName q), q⟩ : LEv)]) else []) =
        some ({ s.k with nextCookie := s.k.nextCookie + 1 }, s.lib) := by
      rw [hgs]; simp [movedOut, forgetAll_nil]
    have hop := Sys.op_eq s _ hs hc hk' (hl _ _) hf
    rw [inv.isRec, hem] at hop
    have hop' := op_with s hs hop
    refine ⟨_, _, _, _, ⟨hk', by simp, hl, inv.isRec, ?_, hem, hop', hinv_of hop'⟩⟩
    intro x hx; simp at hx; subst hx; simp
  · -- nothing of this is seen
    have hk' : kernelOp s.fs s.k (.rename p q) = (s.fs.renamed p q, { s.k with nextCookie := s.k.nextCookie + 1 }, []) := by
      rw [hkk]; simp [fromRecs, toRecs, hrp, hrq]
    have hf : forgetAll (s.fs.renamed p q) { s.k with nextCookie := s.k.nextCookie + 1 } s.lib
        (if s.lib.recursive then movedOut (gsOf []) else []) = some ({ s.k with nextCookie := s.k.nextCookie + 1 }, s.lib) := by
      simp [gsOf, group, movedOut, forgetAll_nil]
    have hop := Sys.op_eq s _ hs hc hk' (libBatch_nil _ _ _) hf
    simp only [gsOf, group, List.foldl_nil, List.filter_nil, emitAll_nil] at hop
    have hop' := op_with s hs hop
    refine ⟨_, _, _, _, ⟨hk', by simp, fun _ _ => libBatch_nil _ _ _, inv.isRec, by simp, ?_, hop', hinv_of hop'⟩⟩
    intro fs'; simp [gsOf, group, emitAll_nil]

/-! ### the burst -/

/-- every operation of the burst is valid when it is issued, and a file operation -/
def allFile (s : Sys) : List Op → Bool
  | [] => true
  | op :: rest => validOp s.fs op && fileKind s.fs op && allFile (s.op op).1 rest

theorem fileOp_of_valid (s : Sys) (op : Op) (inv : InvRec s.fs s.k s.lib) (hs : s.stopped = false) (hc : s.crashed = false)
    (hv : validOp s.fs op = true) (hk : fileKind s.fs op = true) :
    ∃ fs1 k1 recs lib1 levs evs, FileOp s op fs1 k1 recs lib1 levs evs := by
  by_cases hsimple : simpleKind op = true
  · obtain ⟨fs1, recs, path, h⟩ := simple_of_valid s op inv hv hsimple
    exact ⟨_, _, _, _, _, _, fileOp_of_simple s op inv hs hc h⟩
  · cases op with
    | rename p q =>
      obtain ⟨e, ok⟩ := renameOK_of_valid hv
      have hfile : e.isDir = false := by
        simp only [fileKind] at hk
        obtain ⟨f, hf, hff⟩ := FS.isFile_iff.mp hk
        rw [ok.he] at hf; cases hf; exact hff
      obtain ⟨recs, lib1, levs, evs, h⟩ := fileOp_of_rename s p q e inv hs hc ok hfile
      exact ⟨_, _, _, _, _, _, h⟩
    | _ => simp [fileKind] at hk <;> simp [hk] at hsimple

/-- the kernel and reader side of a burst of file operations, against the drained run -/
theorem kernelOps_files (ops : List Op) : ∀ (s : Sys), InvRec s.fs s.k s.lib → s.stopped = false → s.crashed = false →
    allFile s ops = true →
    ∃ fsN kN recs libN levs,
      kernelOps s.fs s.k ops = (fsN, kN, recs) ∧
      (s.run ops).1 = { s with fs := fsN, k := kN, lib := libN } ∧
      (∀ fs' k', libBatch fs' k' s.lib recs = some (k', libN, levs)) ∧
      libN.recursive = true ∧
      (∀ e ∈ levs, e.flag ≠ .ignored ∧ (e.flag = .movedFrom → e.isDir = false) ∧
        ((e.flag = .movedFrom ∨ e.flag = .movedTo) → s.k.nextCookie ≤ e.cookie)) ∧
      (∀ fs', emitAll fs' true s.full (gsOf levs) = ((s.run ops).2.flatten, false)) := by
  induction ops with
  | nil =>
    intro s inv _ _ _
    exact ⟨s.fs, s.k, [], s.lib, [], rfl, rfl, fun _ _ => rfl, inv.isRec, by simp, fun _ => by simp [gsOf, group, emitAll_nil, Sys.run]⟩
  | cons op rest ih =>
    intro s inv hs hc hv
    simp only [allFile, Bool.and_eq_true] at hv
    obtain ⟨⟨hvalid, hkind⟩, hrest⟩ := hv
    obtain ⟨fs1, k1, r1, lib1, l1, ev1, hF⟩ := fileOp_of_valid s op inv hs hc hvalid hkind
    have hop := hF.hop
    rw [hop] at hrest
    obtain ⟨fsN, kN, r2, libN, l2, hk2, hrun2, hl2, hrecN, hfile2, hem2⟩ :=
      ih ({ s with fs := fs1, k := k1, lib := lib1 } : Sys) hF.hinv hs hc hrest
    refine ⟨fsN, kN, r1 ++ r2, libN, l1 ++ l2, ?_, ?_, ?_, hrecN, ?_, ?_⟩
    · simp only [kernelOps, hF.hk]
      have : kernelOps fs1 k1 rest = (fsN, kN, r2) := hk2
      rw [this]
    · simp only [Sys.run, hop]
      exact hrun2
    · intro fs' k'
      rw [libBatch_append fs' k' s.lib r1 r2 (hF.hl fs' k')]
      have := hl2 fs' k'
      simp only at this
      rw [this]
    · intro e he
      rcases List.mem_append.1 he with h | h
      · obtain ⟨a, b, c⟩ := hF.hfile e h
        exact ⟨a, b, fun x => (c x).1⟩
      · obtain ⟨a, b, c⟩ := hfile2 e h
        exact ⟨a, b, fun x => Nat.le_trans hF.hck (c x)⟩
    · intro fs'
      have hfresh : ∀ t ∈ l2, t.flag = .movedTo → ∀ f ∈ l1, f.flag = .movedFrom → f.cookie ≠ t.cookie := by
        intro t ht htf f hf hff
        have h1 := ((hF.hfile f hf).2.2 (Or.inl hff)).2
        have h2 := (hfile2 t ht).2.2 (Or.inr htf)
        simp only at h2
        omega
      rw [gsOf_append_fresh l1 l2 hfresh, emitAll_append _ _ _ _ _ (by rw [hF.hem fs'])]
      have h2 := hem2 fs'
      simp only at h2
      rw [hF.hem fs', h2]
      simp [Sys.run, hop]

/-- **back-to-back regime, file operations**: a burst of file operations - creations, writes, attribute changes,
    removals, renames, replacements by rename, moves of files out of and into the tree - that the reader sees as ONE batch
    after the last of them leaves the observer in the same state and delivers the same events, in the same order, as the
    same operations drained one by one -/
theorem burst_files (s : Sys) (ops : List Op) (inv : InvRec s.fs s.k s.lib) (hs : s.stopped = false)
    (hc : s.crashed = false) (hv : allFile s ops = true) :
    s.burst ops = ((s.run ops).1, (s.run ops).2.flatten) := by
  obtain ⟨fsN, kN, recs, libN, levs, hk, hrun, hl, hrecN, hfile, hem⟩ := kernelOps_files ops s inv hs hc hv
  have hmo : movedOut (gsOf levs) = [] := by
    apply movedOut_nil_of
    intro g hg
    cases g with
    | two _ _ => trivial
    | one e =>
      simp only
      rintro ⟨h1, h2⟩
      have := (hfile e (mem_gsOf_one levs e hg)).2.1 h1
      rw [this] at h2; cases h2
  unfold Sys.burst
  simp only [hk, hs, hc, Bool.or_self, Bool.false_eq_true, if_false, hl fsN kN, hrecN, hem fsN, departed_nil _ hmo, forgetAll_nil, hrun]
  simp [forgetAll_nil, hs]

theorem allValid_of_allFile (ops : List Op) : ∀ s : Sys, allFile s ops = true → allValid s ops = true := by
  induction ops with
  | nil => intro _ _; rfl
  | cons op rest ih =>
    intro s h
    simp only [allFile, Bool.and_eq_true] at h
    simp only [allValid, Bool.and_eq_true]
    exact ⟨h.1.1, ih _ h.2⟩

theorem run_append (s : Sys) (a b : List Op) :
    s.run (a ++ b) = (((s.run a).1.run b).1, (s.run a).2 ++ ((s.run a).1.run b).2) := by
  induction a generalizing s with
  | nil => simp [Sys.run]
  | cons o rest ih => simp only [List.cons_append, Sys.run, ih, List.cons_append]

end WD.Pipe
