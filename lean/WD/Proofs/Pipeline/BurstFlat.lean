/- non-recursive watch: ANY burst of operations (directories included) read as one batch = drained one by one.
   A non-recursive watch has one kernel watch (the root's) and never looks at the file system: nothing it does depends on
   when it reads. -/
import WD.Proofs.Pipeline.FilterFlat
import WD.Proofs.Pipeline.BurstFiles
import WD.Proofs.Pipeline.Theorems
set_option linter.unusedSimpArgs false
namespace WD.Pipe

/-! ### the kernel's cookies -/

def isMove (f : Flag) : Bool := f == .movedFrom || f == .movedTo

theorem onEntry_rec (k : Kern) (d : Option Nat) (f : Flag) (b : Bool) (c : Nat) (n : String) :
    ∀ r ∈ k.onEntry d f b c n, r.flag = f ∧ r.cookie = c := by
  intro r hr
  unfold Kern.onEntry at hr
  split at hr
  · simp at hr
  · split at hr
    · simp at hr; subst hr; exact ⟨rfl, rfl⟩
    · simp at hr

theorem removeEntry_nomove (fs : FS) (k : Kern) (e : Ent) :
    (removeEntry fs k e).2.1.nextCookie = k.nextCookie ∧ ∀ r ∈ (removeEntry fs k e).2.2, isMove r.flag = false := by
  unfold removeEntry
  refine ⟨by simp only; split <;> rfl, ?_⟩
  intro r hr
  simp only at hr
  rcases List.mem_append.1 hr with h | h
  · split at h
    · rcases List.mem_append.1 h with h | h
      · rw [onSelf_flag _ _ _ _ r h]; rfl
      · rw [onSelf_flag _ _ _ _ r h]; rfl
    · simp at h
  · rw [(onEntry_rec _ _ _ _ _ _ r h).1]; rfl

theorem removeAll_nomove (es : List Ent) : ∀ (fs : FS) (k : Kern) (acc : List NRec), (∀ r ∈ acc, isMove r.flag = false) →
    (es.foldl (fun (acc : FS × Kern × List NRec) x =>
      let (fs1, k1, r) := removeEntry acc.1 acc.2.1 x
      (fs1, k1, acc.2.2 ++ r)) (fs, k, acc)).2.1.nextCookie = k.nextCookie ∧
    ∀ r ∈ (es.foldl (fun (acc : FS × Kern × List NRec) x =>
      let (fs1, k1, r) := removeEntry acc.1 acc.2.1 x
      (fs1, k1, acc.2.2 ++ r)) (fs, k, acc)).2.2, isMove r.flag = false := by
  induction es with
  | nil => intro fs k acc h; exact ⟨rfl, h⟩
  | cons e rest ih =>
    intro fs k acc h
    simp only [List.foldl_cons]
    obtain ⟨h1, h2⟩ := removeEntry_nomove fs k e
    have := ih (removeEntry fs k e).1 (removeEntry fs k e).2.1 (acc ++ (removeEntry fs k e).2.2) (by
      intro r hr
      rcases List.mem_append.1 hr with hr | hr
      · exact h r hr
      · exact h2 r hr)
    rw [h1] at this
    exact this

/-- the cookies of one operation's records are fresh: at least the kernel's counter before, below it afterwards -/
theorem kernelOp_cookies (fs : FS) (k : Kern) (op : Op) :
    k.nextCookie ≤ (kernelOp fs k op).2.1.nextCookie ∧
    ∀ r ∈ (kernelOp fs k op).2.2, isMove r.flag = true →
      k.nextCookie ≤ r.cookie ∧ r.cookie < (kernelOp fs k op).2.1.nextCookie := by
  have nomove : ∀ (k1 : Kern) (recs : List NRec), k1.nextCookie = k.nextCookie → (∀ r ∈ recs, isMove r.flag = false) →
      k.nextCookie ≤ k1.nextCookie ∧ ∀ r ∈ recs, isMove r.flag = true → k.nextCookie ≤ r.cookie ∧ r.cookie < k1.nextCookie := by
    intro k1 recs h1 h2
    exact ⟨by omega, fun r hr hm => by rw [h2 r hr] at hm; cases hm⟩
  cases op with
  | create p =>
    simp only [kernelOp]
    apply nomove _ _ rfl
    intro r hr
    rcases List.mem_append.1 hr with h | h
    · rcases List.mem_append.1 h with h | h <;> (rw [(onEntry_rec _ _ _ _ _ _ r h).1]; rfl)
    · rw [(onEntry_rec _ _ _ _ _ _ r h).1]; rfl
  | write p =>
    simp only [kernelOp]
    apply nomove _ _ rfl
    intro r hr
    rcases List.mem_append.1 hr with h | h
    · rcases List.mem_append.1 h with h | h <;> (rw [(onEntry_rec _ _ _ _ _ _ r h).1]; rfl)
    · rw [(onEntry_rec _ _ _ _ _ _ r h).1]; rfl
  | chmod p =>
    simp only [kernelOp]
    split
    · apply nomove _ _ rfl
      intro r hr
      rcases List.mem_append.1 hr with h | h
      · split at h
        · rw [onSelf_flag _ _ _ _ r h]; rfl
        · simp at h
      · rw [(onEntry_rec _ _ _ _ _ _ r h).1]; rfl
    · exact nomove _ _ rfl (by simp)
  | unlink p =>
    simp only [kernelOp]
    split
    · exact nomove _ _ (removeEntry_nomove _ _ _).1 (removeEntry_nomove _ _ _).2
    · exact nomove _ _ rfl (by simp)
  | mkdir p =>
    simp only [kernelOp]
    apply nomove _ _ rfl
    intro r hr; rw [(onEntry_rec _ _ _ _ _ _ r hr).1]; rfl
  | rmdir p =>
    simp only [kernelOp]
    split
    · exact nomove _ _ (removeEntry_nomove _ _ _).1 (removeEntry_nomove _ _ _).2
    · exact nomove _ _ rfl (by simp)
  | rmtree p =>
    simp only [kernelOp]
    split
    · have := removeAll_nomove ((canonOrder fs p).filterMap fs.find? ++ [‹Ent›]) fs k [] (by simp)
      exact nomove _ _ this.1 this.2
    · exact nomove _ _ rfl (by simp)
  | rmtreeOrd p order =>
    simp only [kernelOp]
    split
    · have := removeAll_nomove (order.filterMap fs.find? ++ [‹Ent›]) fs k [] (by simp)
      exact nomove _ _ this.1 this.2
    · exact nomove _ _ rfl (by simp)
  | rename p q =>
    simp only [kernelOp]
    split
    · next e he =>
      simp only
      split
      · next old hq =>
        simp only
        refine ⟨by omega, ?_⟩
        intro r hr hm
        rcases List.mem_append.1 hr with h | h
        · have hck : r.cookie = k.nextCookie := by
            rcases List.mem_append.1 h with h | h <;> exact (onEntry_rec _ _ _ _ _ _ r h).2
          rw [hck]; exact ⟨Nat.le_refl _, by omega⟩
        · exfalso
          split at h
          · rcases List.mem_append.1 h with h | h
            · rcases List.mem_append.1 h with h | h
              · rw [onSelf_flag _ _ _ _ r h] at hm; cases hm
              · rw [onSelf_flag _ _ _ _ r h] at hm; cases hm
            · rw [onSelf_flag _ _ _ _ r h] at hm; cases hm
          · simp at h
      · simp only
        refine ⟨by simp, ?_⟩
        intro r hr hm
        rcases List.mem_append.1 hr with h | h
        · have hck : r.cookie = k.nextCookie := by
            rcases List.mem_append.1 h with h | h <;> exact (onEntry_rec _ _ _ _ _ _ r h).2
          rw [hck]; exact ⟨Nat.le_refl _, by simp⟩
        · simp at h
    · exact nomove _ _ rfl (by simp)

/-! ### the reader of a non-recursive watch never looks at the file system or at the kernel -/

/-- what one record does to the library of a non-recursive watch -/
def flatLib (lib : Lib) (r : NRec) : Lib :=
  match r.flag with
  | .movedFrom => { lib with movedFrom := (r.cookie, r.src ["W"]) :: lib.movedFrom }
  | .ignored => { lib with
      wdForPath := (if lookupP lib.wdForPath ["W"] == some r.wd then lib.wdForPath.filter (fun x => x.1 != ["W"]) else lib.wdForPath),
      pathForWd := lib.pathForWd.filter (fun x => x.1 != r.wd) }
  | _ => lib

theorem libRecord_flat_eq (fs : FS) (k : Kern) {a : Lib} {r : NRec} (fa : FlatMaps a)
    (hw : lookupW a.pathForWd r.wd = some ["W"]) :
    libRecord fs k a r = some (k, flatLib a r, [r.toLEv ["W"]]) := by
  by_cases hsim : simpleFlag false r.flag r.isDir = true
  · rw [libRecord_simple fs k a r ["W"] (by rw [fa.notRec]; exact hsim) hw]
    have : flatLib a r = a := by
      unfold flatLib
      cases hf : r.flag <;> simp [simpleFlag, hf] at hsim <;> rfl
    rw [this]
  · have hflag : r.flag = .movedFrom ∨ r.flag = .movedTo ∨ r.flag = .ignored := by
      cases hf : r.flag <;> simp [simpleFlag, hf] at hsim <;> simp
    rcases hflag with hf | hf | hf
    · rw [libRecord_from_flat fs k a r hf ["W"] hw]; simp [flatLib, hf]
    · rw [libRecord_to_flat' fs k a r fa hf hw]; simp [flatLib, hf]
    · rw [libRecord_ignored_flat fs k a r hf ["W"] hw]; simp [flatLib, hf]

theorem libBatch_flat_indep (fs : FS) (recs : List NRec) : ∀ (k : Kern) (a : Lib), FlatMaps a → (∀ r ∈ recs, named r) →
    ∀ (k1 : Kern) (a1 : Lib) (levs : List LEv), libBatch fs k a recs = some (k1, a1, levs) →
    k1 = k ∧ levs = recs.map (fun r => r.toLEv ["W"]) ∧ FlatMaps a1 ∧
    ∀ fs' k', libBatch fs' k' a recs = some (k', a1, levs) := by
  induction recs with
  | nil =>
    intro k a fa _ k1 a1 levs h
    simp only [libBatch] at h; cases h
    exact ⟨rfl, rfl, fa, fun _ _ => rfl⟩
  | cons r rest ih =>
    intro k a fa hn k1 a1 levs h
    have hnr := hn r (List.mem_cons_self ..)
    simp only [libBatch] at h
    cases h1 : libRecord fs k a r with
    | none => simp [h1] at h
    | some x =>
      obtain ⟨kx, ax, evs⟩ := x
      simp only [h1] at h
      cases h2 : libBatch fs kx ax rest with
      | none => simp [h2] at h
      | some y =>
        obtain ⟨k2, a2, more⟩ := y
        simp only [h2, Option.some.injEq, Prod.mk.injEq] at h
        obtain ⟨rfl, rfl, rfl⟩ := h
        have hw : lookupW a.pathForWd r.wd = some ["W"] := by
          cases hw : lookupW a.pathForWd r.wd with
          | none => simp [libRecord, hw] at h1
          | some wp => have := fa.vals _ (lookupW_val hw); simp only at this; rw [this]
        rw [libRecord_flat_eq fs k fa hw] at h1
        simp only [Option.some.injEq, Prod.mk.injEq] at h1
        obtain ⟨rfl, rfl, rfl⟩ := h1
        obtain ⟨_, _, fax, _⟩ := libRecord_flat_shape fa hnr (libRecord_flat_eq fs k fa hw)
        obtain ⟨e1, e2, e3, e4⟩ := ih k (flatLib a r) fax (fun x hx => hn x (List.mem_cons_of_mem _ hx)) k2 a2 more h2
        refine ⟨e1, by rw [e2]; rfl, e3, ?_⟩
        intro fs' k'
        simp only [libBatch, libRecord_flat_eq fs' k' fa hw, e4 fs' k']

/-- a non-recursive emitter generates no synthetic events: it never looks at the file system -/
theorem emit_flat_fs (fs fs' : FS) (full : Bool) (g : Grouped) : emit fs false full g = emit fs' false full g := by
  cases g with
  | two f t => simp [emit]
  | one e => cases hf : e.flag <;> simp [emit, hf]

theorem emitAll_flat_fs (fs fs' : FS) (full : Bool) (gs : List Grouped) : emitAll fs false full gs = emitAll fs' false full gs := by
  unfold emitAll
  congr 1
  funext acc g
  simp only [emitStep, emit_flat_fs fs fs' full g]

/-! ### one drained operation of a non-recursive watch, spelled out -/

structure FlatOp (s : Sys) (op : Op) (fs1 : FS) (k1 : Kern) (recs : List NRec) (lib1 : Lib) (evs : List PEv) : Prop where
  hk : kernelOp s.fs s.k op = (fs1, k1, recs)
  hl : ∀ fs' k', libBatch fs' k' s.lib recs = some (k', lib1, recs.map (fun r => r.toLEv ["W"]))
  hem : ∀ fs', emitAll fs' false s.full (gsOf (recs.map (fun r => r.toLEv ["W"]))) = (evs, false)
  hop : s.op op = ({ s with fs := fs1, k := k1, lib := lib1 }, evs)
  hinv : InvFlat fs1 k1 lib1

theorem flatOp_of_valid (s : Sys) (op : Op) (inv : InvFlat s.fs s.k s.lib) (hs : s.stopped = false) (hc : s.crashed = false)
    (hv : validOp s.fs op = true) (hne : op ≠ .rmdir ["W"]) :
    ∃ fs1 k1 recs lib1 evs, FlatOp s op fs1 k1 recs lib1 evs := by
  have st := step_flat s op inv hs hc hv
  have hcs : (contract s.fs false s.full op).2 = false := by
    cases h : (contract s.fs false s.full op).2
    · rfl
    · exact absurd ((contract_stop_iff s.fs false s.full op).mp h) hne
  rcases hker : kernelOp s.fs s.k op with ⟨fs1, k1, recs⟩
  have hnamed : ∀ r ∈ recs, named r := by
    intro r hr; exact kernelOp_named s.fs s.k op r (by rw [hker]; exact hr)
  have fa := inv.flatMaps
  -- the reader did not die
  have hnc := st.ncrash
  unfold Sys.op at hnc
  simp only [hker, hs, hc, Bool.or_self, Bool.false_eq_true, if_false] at hnc
  cases hlb : libBatch fs1 k1 s.lib recs with
  | none => simp [hlb] at hnc
  | some x =>
    obtain ⟨k2, lib2, levs⟩ := x
    obtain ⟨rfl, rfl, fa2, hind⟩ := libBatch_flat_indep fs1 recs k1 s.lib fa hnamed k2 lib2 levs hlb
    have hr2 : lib2.recursive = false := fa2.notRec
    have hf : forgetAll fs1 k2 lib2 (if lib2.recursive then movedOut (gsOf (recs.map (fun r => r.toLEv ["W"]))) else []) =
        some (k2, lib2) := by rw [hr2]; simp [forgetAll_nil]
    have hop := Sys.op_eq s op hs hc hker hlb hf
    rw [hr2] at hop
    have hstop : (emitAll fs1 false s.full (gsOf (recs.map (fun r => r.toLEv ["W"])))).2 = false := by
      have := st.stop
      rw [hop, hcs] at this
      exact this
    have hop' : s.op op = ({ s with fs := fs1, k := k2, lib := lib2 },
        (emitAll fs1 false s.full (gsOf (recs.map (fun r => r.toLEv ["W"])))).1) := by
      rw [hop, hstop, hs]
    refine ⟨fs1, k2, recs, lib2, _, ⟨hker, hind, ?_, hop', ?_⟩⟩
    · intro fs'
      rw [emitAll_flat_fs fs' fs1]
      exact Prod.ext rfl hstop
    · have := st.inv hcs
      rw [hop'] at this
      exact this

/-! ### the burst -/

/-- every operation is valid when it is issued; none removes the watched root -/
def allValidNoRoot (s : Sys) : List Op → Bool
  | [] => true
  | op :: rest => validOp s.fs op && (op != .rmdir ["W"]) && allValidNoRoot (s.op op).1 rest

theorem kernelOps_flat (ops : List Op) : ∀ (s : Sys), InvFlat s.fs s.k s.lib → s.stopped = false → s.crashed = false →
    allValidNoRoot s ops = true →
    ∃ fsN kN recs libN,
      kernelOps s.fs s.k ops = (fsN, kN, recs) ∧
      (s.run ops).1 = { s with fs := fsN, k := kN, lib := libN } ∧
      (∀ fs' k', libBatch fs' k' s.lib recs = some (k', libN, recs.map (fun r => r.toLEv ["W"]))) ∧
      libN.recursive = false ∧
      (∀ r ∈ recs, isMove r.flag = true → s.k.nextCookie ≤ r.cookie ∧ r.cookie < kN.nextCookie) ∧
      s.k.nextCookie ≤ kN.nextCookie ∧
      (∀ fs', emitAll fs' false s.full (gsOf (recs.map (fun r => r.toLEv ["W"]))) = ((s.run ops).2.flatten, false)) := by
  induction ops with
  | nil =>
    intro s inv _ _ _
    exact ⟨s.fs, s.k, [], s.lib, rfl, rfl, fun _ _ => rfl, inv.notRec, by simp, Nat.le_refl _,
      fun _ => by simp [gsOf, group, emitAll_nil, Sys.run]⟩
  | cons op rest ih =>
    intro s inv hs hc hv
    simp only [allValidNoRoot, Bool.and_eq_true, bne_iff_ne, ne_eq] at hv
    obtain ⟨⟨hvalid, hne⟩, hrest⟩ := hv
    obtain ⟨fs1, k1, r1, lib1, ev1, hF⟩ := flatOp_of_valid s op inv hs hc hvalid hne
    have hop := hF.hop
    rw [hop] at hrest
    obtain ⟨fsN, kN, r2, libN, hk2, hrun2, hl2, hrecN, hck2, hle2, hem2⟩ :=
      ih ({ s with fs := fs1, k := k1, lib := lib1 } : Sys) hF.hinv hs hc hrest
    have hcook := kernelOp_cookies s.fs s.k op
    rw [hF.hk] at hcook
    obtain ⟨hle1, hck1⟩ := hcook
    refine ⟨fsN, kN, r1 ++ r2, libN, ?_, ?_, ?_, hrecN, ?_, ?_, ?_⟩
    · simp only [kernelOps, hF.hk]
      have : kernelOps fs1 k1 rest = (fsN, kN, r2) := hk2
      rw [this]
    · simp only [Sys.run, hop]
      exact hrun2
    · intro fs' k'
      rw [libBatch_append fs' k' s.lib r1 r2 (hF.hl fs' k')]
      have := hl2 fs' k'
      simp only at this
      rw [this]; simp
    · intro r hr hm
      rcases List.mem_append.1 hr with h | h
      · have := hck1 r h hm
        simp only at this hle2
        exact ⟨this.1, by omega⟩
      · have := hck2 r h hm
        simp only at this hle1
        exact ⟨by omega, this.2⟩
    · simp only at hle1 hle2; omega
    · intro fs'
      have hfresh : ∀ t ∈ r2.map (fun r => r.toLEv ["W"]), t.flag = .movedTo →
          ∀ f ∈ r1.map (fun r => r.toLEv ["W"]), f.flag = .movedFrom → f.cookie ≠ t.cookie := by
        intro t ht htf f hf hff
        obtain ⟨rt, hrt, rfl⟩ := List.mem_map.1 ht
        obtain ⟨rf, hrf, rfl⟩ := List.mem_map.1 hf
        simp only [NRec.toLEv] at htf hff ⊢
        have h1 := (hck1 rf hrf (by simp [isMove, hff])).2
        have h2 := (hck2 rt hrt (by simp [isMove, htf])).1
        simp only at h1 h2
        omega
      rw [List.map_append, gsOf_append_fresh _ _ hfresh, emitAll_append _ _ _ _ _ (by rw [hF.hem fs'])]
      have h2 := hem2 fs'
      simp only at h2
      rw [hF.hem fs', h2]
      simp [Sys.run, hop]

/-- **back-to-back regime, non-recursive watch**: ANY burst of valid operations that does not remove the watched root -
    files and directories, created, removed, renamed, moved in and out, at any depth - read as ONE batch after the last of
    them leaves the observer in the same state and delivers the same events, in the same order, as the same operations
    drained one by one: a non-recursive watch has one kernel watch, never changes its maps, generates no synthetic events
    and so never looks at the file system; only the pairing of moves could depend on the batching, and the kernel's
    cookies are fresh per rename -/
theorem burst_flat (s : Sys) (ops : List Op) (inv : InvFlat s.fs s.k s.lib) (hs : s.stopped = false)
    (hc : s.crashed = false) (hv : allValidNoRoot s ops = true) :
    s.burst ops = ((s.run ops).1, (s.run ops).2.flatten) := by
  obtain ⟨fsN, kN, recs, libN, hk, hrun, hl, hrecN, _, _, hem⟩ := kernelOps_flat ops s inv hs hc hv
  unfold Sys.burst
  simp only [hk, hs, hc, Bool.or_self, Bool.false_eq_true, if_false, hl fsN kN, hrecN, hem fsN, forgetAll_nil, hrun]

end WD.Pipe
