/- a directory leaves the watched tree: its watches are removed -/
import WD.Proofs.Pipeline.RenameStatic
set_option linter.unusedSimpArgs false
namespace WD.Pipe

/-- forgetting a list of (path, descriptor) pairs one after the other -/
def forgetMany (lib : Lib) (ks : List (P × Nat)) : Lib := ks.foldl (fun l x => l.forget x.1 x.2) lib

theorem forgetMany_nil (lib : Lib) : forgetMany lib [] = lib := rfl
theorem forgetMany_cons (lib : Lib) (x : P × Nat) (ks : List (P × Nat)) :
    forgetMany lib (x :: ks) = forgetMany (lib.forget x.1 x.2) ks := rfl

theorem forgetMany_wfp (lib : Lib) (ks : List (P × Nat)) (y : P) :
    lookupP (forgetMany lib ks).wdForPath y = if y ∈ ks.map (·.1) then none else lookupP lib.wdForPath y := by
  induction ks generalizing lib with
  | nil => simp [forgetMany_nil]
  | cons x rest ih =>
    rw [forgetMany_cons, ih]
    simp only [Lib.forget, lookupP_filter_ne, List.map_cons, List.mem_cons]
    by_cases h1 : y ∈ rest.map (·.1)
    · simp [h1]
    · by_cases h2 : y = x.1 <;> simp [h1, h2]

theorem forgetMany_pfw (lib : Lib) (ks : List (P × Nat)) (w : Nat) :
    lookupW (forgetMany lib ks).pathForWd w = if w ∈ ks.map (·.2) then none else lookupW lib.pathForWd w := by
  induction ks generalizing lib with
  | nil => simp [forgetMany_nil]
  | cons x rest ih =>
    rw [forgetMany_cons, ih]
    simp only [Lib.forget, lookupW_filter_ne, List.map_cons, List.mem_cons]
    by_cases h1 : w ∈ rest.map (·.2)
    · simp [h1]
    · by_cases h2 : w = x.2 <;> simp [h1, h2]

theorem forgetMany_nodup (lib : Lib) (ks : List (P × Nat)) (h1 : (lib.wdForPath.map (·.1)).Nodup) (h2 : (lib.pathForWd.map (·.1)).Nodup) :
    ((forgetMany lib ks).wdForPath.map (·.1)).Nodup ∧ ((forgetMany lib ks).pathForWd.map (·.1)).Nodup := by
  induction ks generalizing lib with
  | nil => exact ⟨h1, h2⟩
  | cons x rest ih =>
    rw [forgetMany_cons]
    exact ih _ (nodup_keys_filter h1 _) (nodup_keys_filter h2 _)

theorem forgetMany_other (lib : Lib) (ks : List (P × Nat)) :
    (forgetMany lib ks).recursive = lib.recursive ∧ (forgetMany lib ks).movedFrom = lib.movedFrom := by
  induction ks generalizing lib with
  | nil => exact ⟨rfl, rfl⟩
  | cons x rest ih => rw [forgetMany_cons]; exact ih _

/-- the reader sees the IGNORED answers: each pair is forgotten -/
theorem libBatch_ignored_many (fs : FS) (k : Kern) (lib : Lib) (ks : List (P × Nat))
    (hk1 : (ks.map (·.1)).Nodup) (hk2 : (ks.map (·.2)).Nodup)
    (h : ∀ x ∈ ks, lookupW lib.pathForWd x.2 = some x.1 ∧ lookupP lib.wdForPath x.1 = some x.2) :
    ∃ levs, libBatch fs k lib (ks.map (fun x => ⟨x.2, .ignored, false, 0, none⟩)) = some (k, forgetMany lib ks, levs) ∧
      ∀ l ∈ levs, l.flag = .ignored := by
  induction ks generalizing lib with
  | nil => exact ⟨[], rfl, by simp⟩
  | cons x rest ih =>
    simp only [List.map_cons, List.nodup_cons] at hk1 hk2
    have hx := h x (List.mem_cons_self ..)
    have hrest : ∀ y ∈ rest, lookupW (lib.forget x.1 x.2).pathForWd y.2 = some y.1 ∧
        lookupP (lib.forget x.1 x.2).wdForPath y.1 = some y.2 := by
      intro y hy
      have hy' := h y (List.mem_cons_of_mem _ hy)
      have n1 : y.1 ≠ x.1 := fun hh => hk1.1 (hh ▸ List.mem_map.mpr ⟨y, hy, rfl⟩)
      have n2 : y.2 ≠ x.2 := fun hh => hk2.1 (hh ▸ List.mem_map.mpr ⟨y, hy, rfl⟩)
      simp [Lib.forget, lookupW_filter_ne, lookupP_filter_ne, n1, n2, hy']
    obtain ⟨levs, hb, hf⟩ := ih (lib.forget x.1 x.2) hk1.2 hk2.2 hrest
    refine ⟨⟨x.2, .ignored, false, 0, none, x.1⟩ :: levs, ?_, ?_⟩
    · simp only [List.map_cons]
      rw [libBatch_cons, libRecord_ignored fs k lib x.2 x.1 false 0 hx.1 hx.2]
      simp only [hb, forgetMany_cons, List.singleton_append]
    · intro l hl
      rcases List.mem_cons.mp hl with rfl | hl
      · rfl
      · exact hf l hl

/-- `inotify_rm_watch` for a list of live, distinct descriptors -/
theorem unwatch_fold (ks : List (P × Nat)) (k : Kern) (acc : List NRec)
    (hk2 : (ks.map (·.2)).Nodup) (hlive : ∀ x ∈ ks, ∃ ino, (x.2, ino) ∈ k.watches) :
    ks.foldl (fun (a : Kern × List NRec) x =>
      if a.1.watches.any (fun w => w.1 == x.2) then
        ({ a.1 with watches := a.1.watches.filter (fun w => w.1 != x.2) }, a.2 ++ [⟨x.2, .ignored, false, 0, none⟩])
      else a) (k, acc) =
    ({ k with watches := k.watches.filter (fun w => !(ks.map (·.2)).contains w.1) },
     acc ++ ks.map (fun x => ⟨x.2, .ignored, false, 0, none⟩)) := by
  induction ks generalizing k acc with
  | nil =>
    have : k.watches.filter (fun _ => true) = k.watches := by rw [List.filter_eq_self]; intro _ _; rfl
    simp [this]
  | cons x rest ih =>
    simp only [List.map_cons, List.nodup_cons] at hk2
    obtain ⟨ino, hino⟩ := hlive x (List.mem_cons_self ..)
    have hany : k.watches.any (fun w => w.1 == x.2) = true := by
      rw [List.any_eq_true]; exact ⟨_, hino, by simp⟩
    simp only [List.foldl_cons, hany, if_true]
    rw [ih _ _ hk2.2]
    · simp only [List.map_cons, List.filter_filter, List.append_assoc, List.singleton_append]
      congr 2
      apply List.filter_congr
      intro w _
      simp only [List.contains_cons, Bool.not_or, bne, Bool.and_comm]
    · intro y hy
      obtain ⟨i, hi⟩ := hlive y (List.mem_cons_of_mem _ hy)
      refine ⟨i, ?_⟩
      simp only [List.mem_filter, hi, true_and, bne_iff_ne, ne_eq]
      intro hh; exact hk2.1 (hh ▸ List.mem_map.mpr ⟨y, hy, rfl⟩)

end WD.Pipe

namespace WD.Pipe
variable {fs : FS} {k0 : Kern} {lib : Lib} {p q : P} {e : Ent}

def keysUnder (lib : Lib) (p : P) : List (P × Nat) := lib.wdForPath.filter (fun x => x.1 == p || isUnder p x.1)

theorem mem_keysUnder {x : P × Nat} : x ∈ keysUnder lib p ↔ x ∈ lib.wdForPath ∧ (x.1 = p ∨ isUnder p x.1 = true) := by
  simp [keysUnder]

/-- after the watches at and below `p` are gone, the rest is in order for the renamed file system -/
theorem inv_after_out (inv0 : InvRec (fs.del q) k0 lib) (hwf : fs.WF) (ok : RenameOK fs p q e)
    (hwq : watchedDir fs true (parentOf q) = false) :
    InvRec (fs.renamed p q)
      { k0 with watches := k0.watches.filter (fun w => !((keysUnder lib p).map (·.2)).contains w.1) }
      (forgetMany lib (keysUnder lib p)) := by
  have hK : ∀ x ∈ keysUnder lib p, lookupP lib.wdForPath x.1 = some x.2 ∧ (x.1 = p ∨ isUnder p x.1 = true) := by
    intro x hx
    obtain ⟨h1, h2⟩ := mem_keysUnder.mp hx
    exact ⟨lookupP_of_mem inv0.wfpNodup h1, h2⟩
  have hKw : ∀ wd, wd ∈ (keysUnder lib p).map (·.2) → ∃ y, (y = p ∨ isUnder p y = true) ∧ lookupW lib.pathForWd wd = some y := by
    intro wd hwd
    obtain ⟨x, hx, rfl⟩ := List.mem_map.mp hwd
    exact ⟨x.1, (hK x hx).2, inv0.wfpInv _ _ (hK x hx).1⟩
  have hKp : ∀ y wd, lookupP lib.wdForPath y = some wd → (y = p ∨ isUnder p y = true) → wd ∈ (keysUnder lib p).map (·.2) := by
    intro y wd h hm
    exact List.mem_map.mpr ⟨(y, wd), mem_keysUnder.mpr ⟨lookupP_some_mem h, hm⟩, rfl⟩
  have hmemF : ∀ w, w ∈ (k0.watches.filter (fun w => !((keysUnder lib p).map (·.2)).contains w.1)) ↔
      w ∈ k0.watches ∧ w.1 ∉ (keysUnder lib p).map (·.2) := by
    intro w; simp [List.mem_filter]
  have hnd := forgetMany_nodup lib (keysUnder lib p) inv0.wfpNodup inv0.pfwNodup
  have hoth := forgetMany_other lib (keysUnder lib p)
  -- an entry of the old file system that is a directory of the tree and still watched has not moved
  have hunmoved : ∀ x ∈ fs.ents, x.path ≠ q → ∀ wd, lookupP lib.wdForPath x.path = some wd →
      wd ∉ (keysUnder lib p).map (·.2) → x.path ≠ p ∧ isUnder p x.path = false := by
    intro x _ _ wd h hn
    constructor
    · intro hh; exact hn (hKp _ _ h (Or.inl hh))
    · cases hu : isUnder p x.path with
      | false => rfl
      | true => exact absurd (hKp _ _ h (Or.inr hu)) hn
  refine
    { wf := ok.wf hwf, isRec := by rw [hoth.1]; exact inv0.isRec, kwd := ?_, kino := ?_, klt := ?_, good := ?_, cover := ?_,
      pfwDom := ?_, zlt := by simp, zdead := by simp, wfpInv := ?_, wfpNodup := hnd.1, pfwNodup := hnd.2,
      cookies := by rw [hoth.2]; exact inv0.cookies }
  · exact List.Nodup.sublist (List.Sublist.map _ List.filter_sublist) inv0.kwd
  · exact List.Nodup.sublist (List.Sublist.map _ List.filter_sublist) inv0.kino
  · intro w hw; exact inv0.klt w ((hmemF w).mp hw).1
  · intro w hw
    obtain ⟨hw1, hw2⟩ := (hmemF w).mp hw
    obtain ⟨x, hx, h1, h2, h3, h4⟩ := inv0.good w hw1
    obtain ⟨hxf, hxq⟩ := FS.mem_del.mp hx
    obtain ⟨u1, u2⟩ := hunmoved x hxf hxq w.1 h4 hw2
    refine ⟨x, FS.mem_renamed.mpr ⟨x, hxf, hxq, (rwEnt_fixed u1 u2).symm⟩, h1, h2, ?_, ?_⟩
    · rw [forgetMany_pfw]; simp [hw2, h3]
    · rw [forgetMany_wfp]
      have : x.path ∉ (keysUnder lib p).map (·.1) := by
        intro hm
        obtain ⟨y, hy, hyx⟩ := List.mem_map.mp hm
        have := (hK y hy).2
        rw [hyx] at this
        rcases this with h | h
        · exact u1 h
        · rw [u2] at h; cases h
      simp [this, h4]
  · intro y hy hty _
    obtain ⟨x, hxf, hxq, rfl⟩ := FS.mem_renamed.mp hy
    by_cases hm : x.path = p ∨ isUnder p x.path = true
    · have := (ok.moved_inTree hwf hm).2
      rw [this, hwq] at hty; simp at hty
    · have u1 : x.path ≠ p := fun h => hm (Or.inl h)
      have u2 : isUnder p x.path = false := by
        cases h : isUnder p x.path with
        | false => rfl
        | true => exact absurd (Or.inr h) hm
      rw [rwEnt_fixed u1 u2] at hty ⊢
      obtain ⟨wd, hwd⟩ := inv0.cover x (FS.mem_del.mpr ⟨hxf, hxq⟩) hty trivial
      refine ⟨wd, (hmemF _).mpr ⟨hwd, ?_⟩⟩
      intro hin
      obtain ⟨y, hym, hyl⟩ := hKw wd hin
      obtain ⟨x', hx', h1, _, h3, _⟩ := inv0.good _ hwd
      have : x' = x := inv0.wf.ino_inj hx' (FS.mem_del.mpr ⟨hxf, hxq⟩) h1
      subst this
      simp only at h3
      rw [hyl] at h3
      have := Option.some.inj h3
      subst this
      exact hm hym
  · intro wd y h
    rw [forgetMany_pfw] at h
    by_cases hin : wd ∈ (keysUnder lib p).map (·.2)
    · simp [hin] at h
    · simp only [hin, if_false] at h
      obtain ⟨ino, hw⟩ := (inv0.pfwDom wd y h).resolve_right (by simp)
      exact Or.inl ⟨ino, (hmemF _).mpr ⟨hw, hin⟩⟩
  · intro y wd h
    rw [forgetMany_wfp] at h
    by_cases hin : y ∈ (keysUnder lib p).map (·.1)
    · simp [hin] at h
    · simp only [hin, if_false] at h
      have h1 := inv0.wfpInv y wd h
      have hwd : wd ∉ (keysUnder lib p).map (·.2) := by
        intro hh
        obtain ⟨y', hym, hyl⟩ := hKw wd hh
        rw [h1] at hyl
        have := Option.some.inj hyl; subst this
        exact hin (List.mem_map.mpr ⟨(y, wd), mem_keysUnder.mpr ⟨lookupP_some_mem h, hym⟩, rfl⟩)
      rw [forgetMany_pfw]; simp [hwd, h1]

end WD.Pipe

namespace WD.Pipe

theorem nodup_of_map_nodup {α β : Type} (f : α → β) : ∀ {l : List α}, (l.map f).Nodup → l.Nodup
  | [], _ => by simp
  | a :: l, h => by
    simp only [List.map_cons, List.nodup_cons] at h ⊢
    exact ⟨fun ha => h.1 (List.mem_map.mpr ⟨a, ha, rfl⟩), nodup_of_map_nodup f h.2⟩

theorem step_rename_out (s : Sys) (p q : P) (e : Ent) (inv : InvRec s.fs s.k s.lib) (hs : s.stopped = false)
    (hc : s.crashed = false) (ok : RenameOK s.fs p q e) (hd : e.isDir = true)
    (hwp : watchedDir s.fs true (parentOf p) = true) (hwq : watchedDir s.fs true (parentOf q) = false) :
    StepRec s (.rename p q) := by
  obtain ⟨z, k0, rrep, hk, inv0, hck, hz⟩ := rename_kernel inv ok
  have hz' : z = none ∧ rrep = [] ∧ renameTail s.fs true q = [] := by
    rcases hz with h | ⟨wd, _, _, hwq', _⟩
    · exact h
    · rw [hwq] at hwq'; cases hwq'
  obtain ⟨rfl, rfl, htail⟩ := hz'
  have hpb := snoc_parent_base (ne_nil_of_two_le ok.hp2)
  have hcon := contract_rename s.fs s.full p q e ok
  rw [htail] at hcon
  simp only [List.append_nil] at hk
  rcases inv.parent_recs p with ⟨_, wdp, hp1, _, hrp⟩ | ⟨hwp', _⟩
  case inr => rw [hwp] at hwp'; cases hwp'
  rcases inv.parent_recs q with ⟨hwq', _⟩ | ⟨_, hrq⟩
  case inl => rw [hwq] at hwq'; cases hwq'
  let kB : Kern := { k0 with nextCookie := s.k.nextCookie + 1 }
  let L1 : Lib := s.lib.remember s.k.nextCookie p
  let levF : LEv := ⟨wdp, .movedFrom, true, s.k.nextCookie, some (baseName p), p⟩
  have hk' : kernelOp s.fs s.k (.rename p q) = (s.fs.renamed p q, kB, [⟨wdp, .movedFrom, true, s.k.nextCookie, some (baseName p)⟩]) := by
    rw [hk]; simp [fromRecs, toRecs, hrp, hrq, hd, kB]
  have hl : libBatch (s.fs.renamed p q) kB s.lib [⟨wdp, .movedFrom, true, s.k.nextCookie, some (baseName p)⟩] =
      some (kB, L1, [levF]) := by
    rw [libBatch_cons, libRecord_from _ _ _ _ _ _ _ _ hp1, hpb]
    simp [libBatch_nil, L1, levF]
  have hgs : gsOf [levF] = [.one levF] := by simp [gsOf, group, Grouped.keep, levF]
  have hrec : L1.recursive = true := inv.isRec
  -- the emitter forgets the tree that left
  have hKn : ((keysUnder s.lib p).map (·.1)).Nodup := nodup_keys_filter inv0.wfpNodup _
  have hKl : ∀ x ∈ keysUnder s.lib p, lookupP s.lib.wdForPath x.1 = some x.2 := by
    intro x hx; exact lookupP_of_mem inv0.wfpNodup (mem_keysUnder.mp hx).1
  have hKw : ((keysUnder s.lib p).map (·.2)).Nodup := by
    apply nodup_map_of_inj_on _ (nodup_of_map_nodup _ hKn)
    intro a ha b hb hab
    have h1 := inv0.wfpInv _ _ (hKl a ha)
    have h2 := inv0.wfpInv _ _ (hKl b hb)
    rw [hab] at h1; rw [h1] at h2
    have : a.1 = b.1 := Option.some.inj h2
    exact Prod.ext this hab
  have hlive : ∀ x ∈ keysUnder s.lib p, ∃ ino, (x.2, ino) ∈ kB.watches := by
    intro x hx
    obtain ⟨y, _, _, _, hw⟩ := inv0.key_dir (hKl x hx)
    exact ⟨y.ino, hw⟩
  let kF : Kern := { kB with watches := kB.watches.filter (fun w => !((keysUnder s.lib p).map (·.2)).contains w.1) }
  have hun : unwatchTree kB L1 p = (kF, (keysUnder s.lib p).map (fun x => ⟨x.2, .ignored, false, 0, none⟩)) := by
    unfold unwatchTree
    have := unwatch_fold (keysUnder s.lib p) kB [] hKw hlive
    simpa [keysUnder, L1, Lib.remember, kF] using this
  obtain ⟨levsI, hbI, _⟩ := libBatch_ignored_many (s.fs.renamed p q) kF L1 (keysUnder s.lib p) hKn hKw (by
    intro x hx
    exact ⟨inv0.wfpInv _ _ (hKl x hx), hKl x hx⟩)
  have hf : forgetAll (s.fs.renamed p q) kB L1 (if L1.recursive then movedOut (gsOf [levF]) else []) =
      some (kF, forgetMany L1 (keysUnder s.lib p)) := by
    rw [hgs, hrec]
    simp only [if_true, movedOut, List.filterMap_cons, List.filterMap_nil, levF, beq_self_eq_true, Bool.and_self, if_true]
    simp only [forgetAll, hun, hbI]
  have hop := Sys.op_eq s _ hs hc hk' hl hf
  rw [hgs] at hop
  simp only [emitAll_cons, emitAll_nil, emit, Bool.false_eq_true, if_false, List.append_nil, hrec, levF] at hop
  have hinvF : InvRec (s.fs.renamed p q) kF (forgetMany L1 (keysUnder s.lib p)) := by
    have h1 := (inv_after_out inv0 inv.wf ok hwq).bump (s.k.nextCookie + 1) (by simp; omega)
    have h2 : InvRec (s.fs.renamed p q) kF (forgetMany s.lib (keysUnder s.lib p)) := by
      simpa [kF, kB] using h1
    have hoth := forgetMany_other s.lib (keysUnder s.lib p)
    have hoth1 := forgetMany_other L1 (keysUnder s.lib p)
    have hn := forgetMany_nodup L1 (keysUnder s.lib p) inv0.wfpNodup inv0.pfwNodup
    exact
      { wf := h2.wf, isRec := by rw [hoth1.1]; exact hrec, kwd := h2.kwd, kino := h2.kino, klt := h2.klt,
        good := by
          intro w hw
          obtain ⟨x, hx, a1, a2, a3, a4⟩ := h2.good w hw
          refine ⟨x, hx, a1, a2, ?_, ?_⟩
          · rw [forgetMany_pfw] at a3 ⊢; exact a3
          · rw [forgetMany_wfp] at a4 ⊢; exact a4
        cover := h2.cover,
        pfwDom := by intro wd y h; rw [forgetMany_pfw] at h; exact h2.pfwDom wd y (by rw [forgetMany_pfw]; exact h),
        zlt := by simp, zdead := by simp,
        wfpInv := by
          intro y wd h
          rw [forgetMany_wfp] at h
          have := h2.wfpInv y wd (by rw [forgetMany_wfp]; exact h)
          rw [forgetMany_pfw] at this ⊢; exact this
        wfpNodup := hn.1, pfwNodup := hn.2,
        cookies := by
          rw [hoth1.2]
          intro x hx
          simp only [L1, Lib.remember, List.mem_cons] at hx
          rcases hx with rfl | hx
          · simp [kF, kB]
          · have := inv0.cookies x hx; simp [kF, kB]; omega }
  refine ⟨?_, ?_, by rw [hop]; exact hc, by rw [hop], fun _ => by rw [hop]; exact hinvF⟩
  · rw [hop, hcon]; cases s.full <;> simp [hwp, hwq, hd, dirMod, mkEv, movedCls, evDeleted]
  · rw [hop, hcon]; cases s.full <;> simp [hwp, hwq]

end WD.Pipe
