/- C03: every event of the contract is justified by the operation that caused it -/
import WD.Proofs.Pipeline.ReplayRun
set_option linter.unusedSimpArgs false
namespace WD.Pipe

/-- where the entry an event is about is now: the destination if the event has one, else the source -/
def newPath (e : PEv) : P := if e.dest = [] then e.src else e.dest

/-- what it means for one event of an operation to be justified: by the file system before (`pre`) and after
    (`post`) the operation, and — for synthetic events — by the other events of the same operation -/
structure Justified (pre post : FS) (evs : List PEv) (e : PEv) : Prop where
  created : e.cls.eventType = "created" → (e.src, e.cls.isDirectory) ∈ treeW post
  deleted : e.cls.eventType = "deleted" →
    ((e.src, e.cls.isDirectory) ∈ treeW pre ∨ (e.src = ["W"] ∧ e.cls.isDirectory = true ∧ pre.isDir ["W"] = true)) ∧
    (e.src, e.cls.isDirectory) ∉ treeW post
  movedSrc : e.cls.eventType = "moved" → e.src ≠ [] → (e.src, e.cls.isDirectory) ∈ treeW pre
  movedDst : e.cls.eventType = "moved" → e.dest ≠ [] → (e.dest, e.cls.isDirectory) ∈ treeW post
  /-- source and destination are the old and the new name of one and the same entry -/
  movedSame : e.cls.eventType = "moved" → e.src ≠ [] → e.dest ≠ [] →
    ∃ x ∈ pre.ents, x.path = e.src ∧ ∃ x' ∈ post.ents, x'.path = e.dest ∧ x'.ino = x.ino
  touched : (e.cls.eventType = "modified" ∨ e.cls.eventType = "opened" ∨ e.cls.eventType = "closed" ∨
      e.cls.eventType = "closed_no_write") →
    (e.src, e.cls.isDirectory) ∈ treeW pre ∨ (e.src, e.cls.isDirectory) ∈ treeW post ∨ (e.src = ["W"] ∧ e.cls.isDirectory = true)
  /-- synthetic only below a moved or newly arrived directory (its new path is the destination of its event if it
      has one, else the source), with the same relative path under the old name -/
  synthetic : e.syn = true → ∃ top ∈ evs, top.syn = false ∧ top.cls.isDirectory = true ∧
    isUnder (newPath top) (newPath e) = true ∧
    (e.dest ≠ [] → top.src ≠ [] → e.src = top.src ++ (newPath e).drop (newPath top).length)

variable {fs : FS}

theorem treeW_of_find {p : P} {x : Ent} (h : fs.find? p = some x) (hu : isUnder ["W"] p = true) : (p, x.isDir) ∈ treeW fs := by
  have := FS.find?_some h
  exact mem_treeW.mpr ⟨x, this.1, this.2, rfl, hu⟩

/-- the parent of a reported entry is a directory of the tree: its modified-event is justified -/
theorem dirMod_justified {pre post : FS} (evs : List PEv) (p : P) (hw : watchedDir pre true (parentOf p) = true) :
    Justified pre post evs (dirMod p) := by
  obtain ⟨d, hd, ht⟩ := watchedDir_rec_iff.mp hw
  have hdm := FS.find?_some hd
  have hdd := (inTreeDir_iff.mp ht).1
  refine { created := ?_, deleted := ?_, movedSrc := ?_, movedDst := ?_, movedSame := ?_, touched := ?_, synthetic := ?_ }
  · intro h; simp [dirMod, mkEv, EvClass.eventType] at h
  · intro h; simp [dirMod, mkEv, EvClass.eventType] at h
  · intro h; simp [dirMod, mkEv, EvClass.eventType] at h
  · intro h; simp [dirMod, mkEv, EvClass.eventType] at h
  · intro h; simp [dirMod, mkEv, EvClass.eventType] at h
  · intro _
    rcases (inTreeDir_iff.mp ht).2 with h | h
    · right; right; exact ⟨by simp [dirMod, mkEv, ← hdm.2, h], rfl⟩
    · left
      have : (parentOf p, true) ∈ treeW pre := mem_treeW.mpr ⟨d, hdm.1, hdm.2, hdd, hdm.2 ▸ h⟩
      simpa [dirMod, mkEv, EvClass.isDirectory] using this
  · intro h; simp [dirMod, mkEv] at h

/-- an event about an entry that is there afterwards (created / modified / opened / closed) -/
theorem present_justified {pre post : FS} (evs : List PEv) (c : EvClass) (p : P)
    (hc : c.eventType = "created" ∨ c.eventType = "modified" ∨ c.eventType = "opened" ∨ c.eventType = "closed" ∨ c.eventType = "closed_no_write")
    (hin : (p, c.isDirectory) ∈ treeW post) : Justified pre post evs (mkEv c p) := by
  refine { created := fun _ => hin, deleted := ?_, movedSrc := ?_, movedDst := ?_, movedSame := ?_,
           touched := fun _ => Or.inr (Or.inl hin), synthetic := ?_ }
  · intro h; simp only [mkEv] at h; rcases hc with h' | h' | h' | h' | h' <;> rw [h'] at h <;> simp at h
  · intro h; simp only [mkEv] at h; rcases hc with h' | h' | h' | h' | h' <;> rw [h'] at h <;> simp at h
  · intro h; simp only [mkEv] at h; rcases hc with h' | h' | h' | h' | h' <;> rw [h'] at h <;> simp at h
  · intro h; simp only [mkEv] at h; rcases hc with h' | h' | h' | h' | h' <;> rw [h'] at h <;> simp at h
  · intro h; simp [mkEv] at h

theorem deleted_justified {pre post : FS} (evs : List PEv) (d : Bool) (p : P)
    (hin : (p, d) ∈ treeW pre) (hout : (p, d) ∉ treeW post) :
    Justified pre post evs (mkEv (if d then .DirDeletedEvent else .FileDeletedEvent) p) := by
  cases d <;>
  (refine { created := ?_, deleted := fun _ => ⟨Or.inl hin, hout⟩, movedSrc := ?_, movedDst := ?_, movedSame := ?_, touched := ?_,
            synthetic := ?_ } <;> intro h <;> simp [mkEv, EvClass.eventType] at h)

theorem justified_evDeleted {pre post : FS} (evs : List PEv) (d : Bool) (p : P)
    (hw : watchedDir pre true (parentOf p) = true) (hin : (p, d) ∈ treeW pre) (hout : (p, d) ∉ treeW post) :
    ∀ e ∈ evDeleted d p, Justified pre post evs e := by
  intro e he
  simp only [evDeleted, List.mem_cons, List.mem_singleton, List.not_mem_nil, or_false] at he
  rcases he with rfl | rfl
  · exact deleted_justified evs d p hin hout
  · exact dirMod_justified evs p hw

end WD.Pipe

namespace WD.Pipe
variable {fs : FS}

theorem underW_of_watched_parent {p : P} (hp : p ≠ []) (hw : watchedDir fs true (parentOf p) = true) : isUnder ["W"] p = true := by
  obtain ⟨d, hd, ht⟩ := watchedDir_rec_iff.mp hw
  have hdm := FS.find?_some hd
  apply isUnder_of_parent hp
  rcases (inTreeDir_iff.mp ht).2 with h | h
  · exact Or.inl (hdm.2 ▸ h)
  · exact Or.inr (hdm.2 ▸ h)

theorem not_in_treeW_root (fs : FS) (d : Bool) : ((["W"] : P), d) ∉ treeW fs := by
  intro h
  obtain ⟨_, _, _, _, h3⟩ := mem_treeW.mp h
  simp only at h3; rw [isUnder_irrefl] at h3; cases h3

theorem sound_add (hwf : fs.WF) {p : P} (hp : 2 ≤ p.length) (hne : fs.exists p = false) (hpar : fs.isDir (parentOf p) = true)
    (d : Bool) (hw : watchedDir fs true (parentOf p) = true) : (p, d) ∈ treeW (fs.add p d) := by
  have := (treeW_add hp hne hpar d) (p, d)
  rw [hw] at this
  exact this.mpr (by simp [mem_setEntry])

theorem contract_sound_simple (hwf : fs.WF) (full : Bool) (op : Op) (hv : validOp fs op = true)
    (hnr : ∀ p q, op ≠ .rename p q) (hnt : ∀ p, op ≠ .rmtree p) (hnt' : ∀ p o, op ≠ .rmtreeOrd p o) :
    ∀ e ∈ (contract fs true full op).1, Justified fs (fsAfter fs op) (contract fs true full op).1 e := by
  cases op with
  | rename p q => exact absurd rfl (hnr p q)
  | rmtree p => exact absurd rfl (hnt p)
  | rmtreeOrd p o => exact absurd rfl (hnt' p o)
  | create p =>
    obtain ⟨hp, hne, hpar⟩ := validOp_create hv
    intro e he
    simp only [contract] at he
    split at he
    · rename_i hw
      have hin : (p, false) ∈ treeW (fsAfter fs (.create p)) := sound_add hwf hp hne hpar false hw
      simp only [List.mem_cons, List.mem_singleton, List.not_mem_nil, or_false] at he
      rcases he with rfl | rfl | rfl | rfl | rfl
      · exact present_justified _ .FileCreatedEvent p (Or.inl rfl) hin
      · exact dirMod_justified _ p hw
      · exact present_justified _ .FileOpenedEvent p (Or.inr (Or.inr (Or.inl rfl))) hin
      · exact present_justified _ .FileClosedEvent p (Or.inr (Or.inr (Or.inr (Or.inl rfl)))) hin
      · exact dirMod_justified _ p hw
    · simp at he
  | mkdir p =>
    obtain ⟨hp, hne, hpar⟩ := validOp_mkdir hv
    intro e he
    simp only [contract] at he
    split at he
    · rename_i hw
      have hin : (p, true) ∈ treeW (fsAfter fs (.mkdir p)) := sound_add hwf hp hne hpar true hw
      simp only [List.mem_cons, List.mem_singleton, List.not_mem_nil, or_false] at he
      rcases he with rfl | rfl
      · exact present_justified _ .DirCreatedEvent p (Or.inl rfl) hin
      · exact dirMod_justified _ p hw
    · simp at he
  | write p =>
    have hv' : fs.isFile p = true := by simpa [validOp] using hv
    obtain ⟨f, hf, hfile⟩ := FS.isFile_iff.mp hv'
    have hfm := FS.find?_some hf
    have hpn : p ≠ [] := hfm.2 ▸ hwf.path_ne_nil hfm.1
    intro e he
    simp only [contract] at he
    split at he
    · rename_i hw
      have hin : (p, false) ∈ treeW (fsAfter fs (.write p)) := by
        have := treeW_of_find hf (underW_of_watched_parent hpn hw); rw [hfile] at this; exact this
      simp only [List.mem_cons, List.mem_singleton, List.not_mem_nil, or_false] at he
      rcases he with rfl | rfl | rfl | rfl
      · exact present_justified _ .FileOpenedEvent p (Or.inr (Or.inr (Or.inl rfl))) hin
      · exact present_justified _ .FileModifiedEvent p (Or.inr (Or.inl rfl)) hin
      · exact present_justified _ .FileClosedEvent p (Or.inr (Or.inr (Or.inr (Or.inl rfl)))) hin
      · exact dirMod_justified _ p hw
    · simp at he
  | chmod p =>
    have hv' : 2 ≤ p.length ∧ fs.exists p = true := by simpa [validOp] using hv
    obtain ⟨x, hx⟩ := FS.exists_iff.mp hv'.2
    have hpn := ne_nil_of_two_le hv'.1
    have hfs : fsAfter fs (.chmod p) = fs := by simp only [fsAfter, kernelOp, hx]
    intro e he
    simp only [contract, hx] at he
    rw [hfs]
    rcases List.mem_append.mp he with h | h
    · split at h
      · rename_i hw
        simp only [Bool.and_eq_true] at hw
        simp only [List.mem_singleton] at h; subst h
        obtain ⟨d, hd, ht⟩ := watchedDir_rec_iff.mp hw.2
        rw [hx] at hd; cases hd
        have hu : isUnder ["W"] p = true := by
          rcases (inTreeDir_iff.mp ht).2 with h' | h'
          · rw [(FS.find?_some hx).2] at h'; subst h'; have := hv'.1; simp at this
          · rw [(FS.find?_some hx).2] at h'; exact h'
        have := treeW_of_find hx hu; rw [hw.1] at this
        exact present_justified _ .DirModifiedEvent p (Or.inr (Or.inl rfl)) this
      · simp at h
    · split at h
      · rename_i hw
        simp only [List.mem_singleton] at h; subst h
        have := treeW_of_find hx (underW_of_watched_parent hpn hw)
        cases hd : x.isDir with
        | true => rw [hd] at this; exact present_justified _ .DirModifiedEvent p (Or.inr (Or.inl rfl)) this
        | false => rw [hd] at this; exact present_justified _ .FileModifiedEvent p (Or.inr (Or.inl rfl)) this
      · simp at h
  | unlink p =>
    have hv' : fs.isFile p = true := by simpa [validOp] using hv
    obtain ⟨f, hf, hfile⟩ := FS.isFile_iff.mp hv'
    have hfm := FS.find?_some hf
    have hpn : p ≠ [] := hfm.2 ▸ hwf.path_ne_nil hfm.1
    have h1 : fsAfter fs (.unlink p) = fs.del p := by simp [fsAfter, kernelOp, hf, removeEntry, hfm.2, FS.del]
    intro e he
    simp only [contract] at he
    split at he
    · rename_i hw
      simp only [Bool.and_eq_true] at hw
      rw [h1]
      have hin := treeW_of_find hf (underW_of_watched_parent hpn hw.1); rw [hfile] at hin
      have hout : (p, false) ∉ treeW (fs.del p) := by
        intro h; obtain ⟨z, hz, hzp, _⟩ := mem_treeW.mp h; exact (FS.mem_del.mp hz).2 hzp
      exact justified_evDeleted _ false p hw.1 hin hout e he
    · simp at he
  | rmdir p =>
    have hv' : (2 ≤ p.length ∨ p = ["W"]) ∧ fs.isDir p = true ∧ (fs.children p).isEmpty = true := by
      have := hv; simp [validOp] at this; exact ⟨this.1.1, this.1.2, by simpa using this.2⟩
    obtain ⟨x, hx, hd⟩ := FS.isDir_iff.mp hv'.2.1
    have hxm := FS.find?_some hx
    have h1 : fsAfter fs (.rmdir p) = fs.del p := by simp [fsAfter, kernelOp, hx, removeEntry, hxm.2, FS.del]
    have hout : ∀ d, (p, d) ∉ treeW (fs.del p) := by
      intro d h; obtain ⟨z, hz, hzp, _⟩ := mem_treeW.mp h; exact (FS.mem_del.mp hz).2 hzp
    intro e he
    simp only [contract] at he
    rw [h1]
    split at he
    · rename_i hW
      simp only [beq_iff_eq] at hW
      simp only [List.mem_singleton] at he; subst he; subst hW
      refine { created := ?_, deleted := fun _ => ⟨Or.inr ⟨rfl, rfl, hv'.2.1⟩, hout true⟩, movedSrc := ?_, movedDst := ?_, movedSame := ?_,
               touched := ?_, synthetic := ?_ } <;> intro h <;> simp [mkEv, EvClass.eventType] at h
    · split at he
      · rename_i _ hw
        simp only [Bool.and_eq_true] at hw
        have hin := treeW_of_find hx (underW_of_watched_parent (hxm.2 ▸ hwf.path_ne_nil hxm.1) hw.1); rw [hd] at hin
        exact justified_evDeleted _ true p hw.1 hin (hout true) e he
      · simp at he

end WD.Pipe

namespace WD.Pipe
variable {fs : FS}

theorem contract_sound_rmtreeOrd (hwf : fs.WF) (full : Bool) (p : P) (order : List P) (hv : validOp fs (.rmtreeOrd p order) = true) :
    ∀ e ∈ (contract fs true full (.rmtreeOrd p order)).1,
      Justified fs (fsAfter fs (.rmtreeOrd p order)) (contract fs true full (.rmtreeOrd p order)).1 e := by
  have hv' := hv
  simp only [validOp, validRmtree, Bool.and_eq_true, decide_eq_true_eq, List.all_eq_true] at hv'
  obtain ⟨⟨⟨⟨⟨hp2, hdir⟩, hall⟩, _⟩, _⟩, _⟩ := hv'
  obtain ⟨x0, hx0, _⟩ := FS.isDir_iff.mp hdir
  have hx0m := FS.find?_some hx0
  have hpaths := filterMap_find_paths (fs := fs) order (fun q hq => (hall q hq).2)
  have hfs : fsAfter fs (.rmtreeOrd p order) = (removeAll fs ⟨[], 1, 1⟩ (order.filterMap fs.find? ++ [x0])).1 := by
    simp [fsAfter, kernelOp, hx0]
  intro e he
  rw [hfs]
  simp only [contract, contractRemovals, hx0, Option.toList_some, List.mem_flatMap] at he
  obtain ⟨x, hx, hex⟩ := he
  split at hex
  · rename_i hw
    have hxm : x ∈ fs.ents := by
      rcases List.mem_append.mp hx with h | h
      · exact (mem_filterMap_find h).1
      · simp at h; subst h; exact hx0m.1
    have hin : (x.path, x.isDir) ∈ treeW fs :=
      mem_treeW.mpr ⟨x, hxm, rfl, rfl, underW_of_watched_parent (hwf.path_ne_nil hxm) hw⟩
    have hout : (x.path, x.isDir) ∉ treeW (removeAll fs ⟨[], 1, 1⟩ (order.filterMap fs.find? ++ [x0])).1 := by
      intro h
      obtain ⟨z, hz, hzp, _⟩ := mem_treeW.mp h
      exact ((mem_removeAll_fs _ _ _ _).mp hz).2 (List.mem_map.mpr ⟨x, hx, hzp.symm⟩)
    exact justified_evDeleted _ x.isDir x.path hw hin hout e hex
  · simp at hex

theorem contract_sound_rename (hwf : fs.WF) (full : Bool) (p q : P) (hv : validOp fs (.rename p q) = true) :
    ∀ ev ∈ (contract fs true full (.rename p q)).1,
      Justified fs (fsAfter fs (.rename p q)) (contract fs true full (.rename p q)).1 ev := by
  obtain ⟨e, ok⟩ := renameOK_of_valid hv
  have hem := FS.find?_some ok.he
  have hfree := ok.q_free hwf
  have hpn : p ≠ [] := ne_nil_of_two_le ok.hp2
  have hqn : q ≠ [] := ne_nil_of_two_le ok.hq2
  rw [fsAfter_rename ok]
  let D := (fs.renamed p q).descendants q
  have hDsrc : ∀ d ∈ D, ∃ x ∈ fs.ents, x.path ≠ q ∧ isUnder p x.path = true ∧ d = rwEnt p q x := by
    intro d hd
    obtain ⟨hd1, hd2⟩ := List.mem_filter.mp hd
    obtain ⟨x, hx, hxq, rfl⟩ := FS.mem_renamed.mp hd1
    refine ⟨x, hx, hxq, ?_, rfl⟩
    rcases rwPath_cases p q x.path with ⟨_, e1⟩ | ⟨h1, _, _⟩ | ⟨_, _, e1⟩
    · simp only [rwEnt, e1, isUnder_irrefl] at hd2; cases hd2
    · exact h1
    · simp only [rwEnt, e1] at hd2; rw [hfree x hx hxq] at hd2; cases hd2
  -- the tree before / after, for what moves
  have hpre : ∀ x ∈ fs.ents, (x.path = p ∨ isUnder p x.path = true) → watchedDir fs true (parentOf p) = true →
      (x.path, x.isDir) ∈ treeW fs := by
    intro x hx hm hw
    exact mem_treeW.mpr ⟨x, hx, rfl, rfl, by rw [(ok.moved_underW hwf hm).1, hw]⟩
  have hpost : ∀ x ∈ fs.ents, x.path ≠ q → (x.path = p ∨ isUnder p x.path = true) → watchedDir fs true (parentOf q) = true →
      (rwPath p q x.path, x.isDir) ∈ treeW (fs.renamed p q) := by
    intro x hx hxq hm hw
    exact (mem_treeW_renamed ok _).mpr ⟨x, hx, hxq, rfl, rfl, by simp only; rw [(ok.moved_underW hwf hm).2, hw]⟩
  have hgone : ∀ d, (p, d) ∉ treeW (fs.renamed p q) := by
    intro d h
    obtain ⟨x, hx, hxq, h1, _, _⟩ := (mem_treeW_renamed ok _).mp h
    simp only at h1
    rcases rwPath_cases p q x.path with ⟨_, e1⟩ | ⟨_, _, u1⟩ | ⟨c1, _, e1⟩
    · rw [e1] at h1; exact ok.hne h1.symm
    · rw [h1] at u1
      have hpq : isUnder q p = false := by
        have := hfree e hem.1 (by rw [hem.2]; exact ok.hne); rwa [hem.2] at this
      rw [hpq] at u1; cases u1
    · rw [e1] at h1; exact c1 h1
  have htailJ : ∀ ev ∈ renameTail fs true q, Justified fs (fs.renamed p q) (contract fs true full (.rename p q)).1 ev := by
    intro ev hev
    simp only [renameTail] at hev
    cases hq : fs.find? q with
    | none => simp [hq] at hev
    | some old =>
      simp only [hq] at hev
      split at hev
      · rename_i hw
        simp only [Bool.and_eq_true] at hw
        simp only [List.mem_singleton] at hev; subst hev
        obtain ⟨d, hd, ht⟩ := watchedDir_rec_iff.mp hw.2
        rw [hq] at hd; cases hd
        have hu : isUnder ["W"] q = true := by
          rcases (inTreeDir_iff.mp ht).2 with h' | h'
          · rw [(FS.find?_some hq).2] at h'; rw [h'] at ok; have := ok.hq2; simp at this
          · rw [(FS.find?_some hq).2] at h'; exact h'
        have hin := treeW_of_find hq hu; rw [hw.1] at hin
        refine { created := ?_, deleted := ?_, movedSrc := ?_, movedDst := ?_, movedSame := ?_,
                 touched := fun _ => Or.inl hin, synthetic := ?_ } <;> intro h <;> simp [mkEv, EvClass.eventType] at h
      · simp at hev
  have hcon := contract_rename fs full p q e ok
  intro ev hev
  rw [hcon] at hev
  split at hev
  · -- inside the tree: one moved event, both parents, one synthetic moved event per descendant
    rename_i hw
    simp only [Bool.and_eq_true] at hw
    have htop : mkEv (movedCls e.isDir) p q ∈ (contract fs true full (.rename p q)).1 := by
      rw [hcon]; simp [hw.1, hw.2]
    simp only [List.mem_append, List.mem_cons, List.mem_singleton, List.not_mem_nil, or_false] at hev
    rcases hev with ((rfl | rfl | rfl) | hsub) | ht
    · have hin := hpre e hem.1 (Or.inl hem.2) hw.1
      have hout := hpost e hem.1 (by rw [hem.2]; exact ok.hne) (Or.inl hem.2) hw.2
      rw [hem.2] at hin; rw [hem.2, rwPath_at] at hout
      have hcls : (movedCls e.isDir).eventType = "moved" ∧ (movedCls e.isDir).isDirectory = e.isDir := by
        cases e.isDir <;> exact ⟨rfl, rfl⟩
      refine { created := ?_, deleted := ?_, movedSrc := fun _ _ => by simpa [mkEv, hcls.2] using hin,
               movedDst := fun _ _ => by simpa [mkEv, hcls.2] using hout,
               movedSame := fun _ _ _ => ⟨e, hem.1, hem.2, rwEnt p q e, FS.mem_renamed.mpr ⟨e, hem.1, by rw [hem.2]; exact ok.hne, rfl⟩,
                 by simp [rwEnt, hem.2, rwPath_at, mkEv], rfl⟩,
               touched := ?_, synthetic := ?_ } <;> intro h <;> simp [mkEv, hcls.1] at h
    · exact dirMod_justified _ p hw.1
    · exact dirMod_justified _ q hw.2
    · split at hsub
      · rename_i hd
        simp only [subMoved, List.mem_map] at hsub
        obtain ⟨d, hdD, rfl⟩ := hsub
        obtain ⟨x, hx, hxq, hxu, rfl⟩ := hDsrc d hdD
        have hin := hpre x hx (Or.inr hxu) hw.1
        have hout := hpost x hx hxq (Or.inr hxu) hw.2
        have hrp : p ++ (rwPath p q x.path).drop q.length = x.path := by
          obtain ⟨r, _, hr⟩ := isUnder_iff.mp hxu
          rw [rwPath_under hxu, hr]; simp
        have hne : rwPath p q x.path ≠ [] := by rw [rwPath_under hxu]; simp [hqn]
        have hed : e.isDir = true := by simpa using hd
        have ftop : (mkEv (movedCls e.isDir) p q).syn = false ∧ (mkEv (movedCls e.isDir) p q).cls.isDirectory = true := by
          rw [hed]; exact ⟨rfl, rfl⟩
        have hsame : ∃ a ∈ fs.ents, a.path = p ++ (rwPath p q x.path).drop q.length ∧ ∃ a' ∈ (fs.renamed p q).ents,
            a'.path = rwPath p q x.path ∧ a'.ino = a.ino :=
          ⟨x, hx, hrp.symm, rwEnt p q x, FS.mem_renamed.mpr ⟨x, hx, hxq, rfl⟩, rfl, rfl⟩
        have hsyn : isUnder (newPath (mkEv (movedCls e.isDir) p q)) (rwPath p q x.path) = true ∧
            p ++ (rwPath p q x.path).drop q.length = (mkEv (movedCls e.isDir) p q).src ++
              (rwPath p q x.path).drop (newPath (mkEv (movedCls e.isDir) p q)).length := by
          simp [newPath, mkEv, hqn, rwPath_under hxu, rewrite_under hxu]
        rw [← hrp] at hin
        obtain ⟨xp, xb, xi⟩ := x
        simp only [rwEnt] at hin hout hne hsame hsyn ⊢
        generalize rwPath p q xp = np at hin hout hne hsame hsyn ⊢
        generalize p ++ np.drop q.length = sp at hin hsame hsyn ⊢
        cases xb
        · exact
            { created := by intro h; simp [mkEv, EvClass.eventType] at h
              deleted := by intro h; simp [mkEv, EvClass.eventType] at h
              movedSrc := fun _ _ => hin
              movedDst := fun _ _ => hout
              movedSame := fun _ _ _ => hsame
              touched := by intro h; simp [mkEv, EvClass.eventType] at h
              synthetic := fun _ => ⟨_, htop, ftop.1, ftop.2,
                by simpa [newPath, mkEv, hne] using hsyn.1, by intro _ _; simpa [newPath, mkEv, hne] using hsyn.2⟩ }
        · exact
            { created := by intro h; simp [mkEv, EvClass.eventType] at h
              deleted := by intro h; simp [mkEv, EvClass.eventType] at h
              movedSrc := fun _ _ => hin
              movedDst := fun _ _ => hout
              movedSame := fun _ _ _ => hsame
              touched := by intro h; simp [mkEv, EvClass.eventType] at h
              synthetic := fun _ => ⟨_, htop, ftop.1, ftop.2,
                by simpa [newPath, mkEv, hne] using hsyn.1, by intro _ _; simpa [newPath, mkEv, hne] using hsyn.2⟩ }
      · simp at hsub
    · exact htailJ ev ht
  · split at hev
    · -- leaves the tree
      rename_i hnw hw
      have hin := hpre e hem.1 (Or.inl hem.2) hw
      rw [hem.2] at hin
      rcases List.mem_append.mp hev with h | ht
      · cases full
        · exact justified_evDeleted _ e.isDir p hw hin (hgone e.isDir) ev h
        · simp only [if_true, List.mem_cons, List.mem_singleton, List.not_mem_nil, or_false] at h
          rcases h with rfl | rfl
          · have hcls : (movedCls e.isDir).eventType = "moved" ∧ (movedCls e.isDir).isDirectory = e.isDir := by
              cases e.isDir <;> exact ⟨rfl, rfl⟩
            refine { created := ?_, deleted := ?_, movedSrc := fun _ _ => by simpa [mkEv, hcls.2] using hin,
                     movedDst := fun _ h => absurd rfl h, movedSame := fun _ _ h => absurd rfl h, touched := ?_, synthetic := ?_ } <;>
              intro h <;> simp [mkEv, hcls.1] at h
          · exact dirMod_justified _ p hw
      · exact htailJ ev ht
    · split at hev
      · -- arrives in the tree
        rename_i hnw1 hnw2 hw
        have hout := hpost e hem.1 (by rw [hem.2]; exact ok.hne) (Or.inl hem.2) hw
        rw [hem.2, rwPath_at] at hout
        have htopmem : (if full then mkEv (movedCls e.isDir) [] q else mkEv (createdCls e.isDir) q) ∈ (contract fs true full (.rename p q)).1 := by
          rw [hcon]; cases full <;> simp [hnw1, hnw2, hw]
        simp only [List.mem_append, List.mem_cons, List.mem_singleton, List.not_mem_nil, or_false] at hev
        rcases hev with ((h | rfl) | hsub) | ht
        · cases full
          · simp only [Bool.false_eq_true, if_false, List.mem_singleton] at h; subst h
            have hcls : (createdCls e.isDir).eventType = "created" ∧ (createdCls e.isDir).isDirectory = e.isDir := by
              cases e.isDir <;> exact ⟨rfl, rfl⟩
            exact present_justified _ _ q (Or.inl hcls.1) (by rw [hcls.2]; exact hout)
          · simp only [if_true, List.mem_singleton] at h; subst h
            have hcls : (movedCls e.isDir).eventType = "moved" ∧ (movedCls e.isDir).isDirectory = e.isDir := by
              cases e.isDir <;> exact ⟨rfl, rfl⟩
            refine { created := ?_, deleted := ?_, movedSrc := fun _ h => absurd rfl h,
                     movedDst := fun _ _ => by simpa [mkEv, hcls.2] using hout, movedSame := fun _ h _ => absurd rfl h,
                     touched := ?_, synthetic := ?_ } <;> intro h <;> simp [mkEv, hcls.1] at h
        · exact dirMod_justified _ q hw
        · split at hsub
          · rename_i hd
            simp only [subCreated, List.mem_map] at hsub
            obtain ⟨d, hdD, rfl⟩ := hsub
            obtain ⟨x, hx, hxq, hxu, rfl⟩ := hDsrc d hdD
            have hout' := hpost x hx hxq (Or.inr hxu) hw
            have hne : rwPath p q x.path ≠ [] := by rw [rwPath_under hxu]; simp [hqn]
            have hed : e.isDir = true := by simpa using hd
            have ftop : (if full then mkEv (movedCls e.isDir) [] q else mkEv (createdCls e.isDir) q).syn = false ∧
                (if full then mkEv (movedCls e.isDir) [] q else mkEv (createdCls e.isDir) q).cls.isDirectory = true ∧
                newPath (if full then mkEv (movedCls e.isDir) [] q else mkEv (createdCls e.isDir) q) = q := by
              rw [hed]; cases full <;> simp [newPath, mkEv, movedCls, createdCls, EvClass.isDirectory, hqn]
            have hsyn : isUnder q (rwPath p q x.path) = true := by rw [rwPath_under hxu]; exact rewrite_under hxu
            obtain ⟨xp, xb, xi⟩ := x
            simp only [rwEnt] at hout' hne hsyn ⊢
            generalize rwPath p q xp = np at hout' hne hsyn ⊢
            cases xb
            · exact
                { created := fun _ => hout'
                  deleted := by intro h; simp [mkEv, EvClass.eventType] at h
                  movedSrc := by intro h; simp [mkEv, EvClass.eventType] at h
                  movedDst := by intro h; simp [mkEv, EvClass.eventType] at h
                  movedSame := by intro h; simp [mkEv, EvClass.eventType] at h
                  touched := by intro h; simp [mkEv, EvClass.eventType] at h
                  synthetic := fun _ => ⟨_, htopmem, ftop.1, ftop.2.1, by rw [ftop.2.2]; simpa [newPath, mkEv] using hsyn,
                    by intro h; simp [mkEv] at h⟩ }
            · exact
                { created := fun _ => hout'
                  deleted := by intro h; simp [mkEv, EvClass.eventType] at h
                  movedSrc := by intro h; simp [mkEv, EvClass.eventType] at h
                  movedDst := by intro h; simp [mkEv, EvClass.eventType] at h
                  movedSame := by intro h; simp [mkEv, EvClass.eventType] at h
                  touched := by intro h; simp [mkEv, EvClass.eventType] at h
                  synthetic := fun _ => ⟨_, htopmem, ftop.1, ftop.2.1, by rw [ftop.2.2]; simpa [newPath, mkEv] using hsyn,
                    by intro h; simp [mkEv] at h⟩ }
          · simp at hsub
        · exact htailJ ev ht
      · simp at hev

/-- C03: every event of the contract is justified by the operation that caused it -/
theorem contract_sound (hwf : fs.WF) (full : Bool) (op : Op) (hv : validOp fs op = true) :
    ∀ e ∈ (contract fs true full op).1, Justified fs (fsAfter fs op) (contract fs true full op).1 e := by
  cases op with
  | rename p q => exact contract_sound_rename hwf full p q hv
  | rmtree p => exact contract_sound_rmtreeOrd hwf full p (canonOrder fs p) hv
  | rmtreeOrd p o => exact contract_sound_rmtreeOrd hwf full p o hv
  | create p => exact contract_sound_simple hwf full _ hv (by intros; simp) (by intros; simp) (by intros; simp)
  | write p => exact contract_sound_simple hwf full _ hv (by intros; simp) (by intros; simp) (by intros; simp)
  | chmod p => exact contract_sound_simple hwf full _ hv (by intros; simp) (by intros; simp) (by intros; simp)
  | unlink p => exact contract_sound_simple hwf full _ hv (by intros; simp) (by intros; simp) (by intros; simp)
  | mkdir p => exact contract_sound_simple hwf full _ hv (by intros; simp) (by intros; simp) (by intros; simp)
  | rmdir p => exact contract_sound_simple hwf full _ hv (by intros; simp) (by intros; simp) (by intros; simp)

end WD.Pipe
