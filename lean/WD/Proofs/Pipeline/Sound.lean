/- proofs behind WD.Props.C03 -/
import WD.Model.Pipeline
import WD.Spec.PipelineSpec
namespace WD.ProofsPipe
open WD WD.Pipe

theorem sound_partial (fs0 : FS) (hwf : fs0.WF) (full : Bool) (ops : List Op) (op : Op)
    (h : histOk (Sys.start fs0 true full) (ops ++ [op]) = true) (e : PEv)
    (he : e ∈ ((((Sys.start fs0 true full).run ops).1).op op).2) :
    let pre := ((Sys.start fs0 true full).run ops).1.fs
    let post := ((((Sys.start fs0 true full).run ops).1).op op).1.fs
    let d := e.cls.isDirectory
    (e.cls.eventType = "created" → (e.src, d) ∈ treeW post) ∧
    (e.cls.eventType = "deleted" → ((e.src, d) ∈ treeW pre ∨ e.src = ["W"]) ∧ ¬ (e.src, d) ∈ treeW post) ∧
    (e.cls.eventType = "moved" → (e.src ≠ [] → (e.src, d) ∈ treeW pre) ∧ (e.dest ≠ [] → (e.dest, d) ∈ treeW post)) ∧
    (e.cls.eventType = "modified" ∨ e.cls.eventType = "opened" ∨ e.cls.eventType = "closed" ∨
      e.cls.eventType = "closed_no_write" →
        (e.src, d) ∈ treeW pre ∨ (e.src, d) ∈ treeW post ∨ (e.src = ["W"] ∧ d = true)) ∧
    (e.syn = true → ∃ top, top ∈ ((((Sys.start fs0 true full).run ops).1).op op).2 ∧ top.syn = false ∧
        top.cls.isDirectory = true ∧
        ((top.dest ≠ [] ∧ isUnder top.dest e.dest = true) ∨ (top.dest = [] ∧ isUnder top.src e.src = true))) := by
  sorry

theorem typing (fs : FS) (recursive full : Bool) (ev : LEv) (e : PEv)
    (he : e ∈ (emit fs recursive full (.one ev)).1) (hns : e.syn = false)
    (hnp : e.cls ≠ .DirModifiedEvent ∨ ev.flag = .attrib ∨ ev.flag = .modify) :
    e.cls.isDirectory = ev.isDir ∨ (ev.flag = .deleteSelf ∧ e.cls = .DirDeletedEvent) := by
  sorry

end WD.ProofsPipe
