/- paced histories under a recursive watch: any mixture of drained operations, bursts of file operations and nested
   creation bursts, each burst read as one batch -/
import WD.Proofs.Pipeline.BurstGrow
import WD.Proofs.Pipeline.BurstFiles
import WD.Proofs.Pipeline.BurstMkRename
import WD.Proofs.Pipeline.BurstMoveIn
import WD.Proofs.Pipeline.BurstChain
import WD.Proofs.Pipeline.ReplayRun
set_option linter.unusedSimpArgs false
namespace WD.Pipe

/-- a burst of one operation is a drained operation -/
theorem burst_single (s : Sys) (op : Op) : s.burst [op] = ((s.run [op]).1, (s.run [op]).2.flatten) := by
  simp only [Sys.burst, Sys.run, Sys.op, kernelOps, List.append_nil, List.flatten_cons, List.flatten_nil]
  rcases kernelOp s.fs s.k op with ⟨fs1, k1, recs⟩
  simp only
  split
  · rfl
  · cases libBatch fs1 k1 s.lib recs with
    | none => rfl
    | some x =>
      obtain ⟨k2, lib2, levs⟩ := x
      simp only [List.length_singleton, departed_one]
      cases forgetAll fs1 k2 lib2 (if lib2.recursive = true then movedOut (gsOf levs) else []) <;> rfl

theorem allFile_no_root (ops : List Op) : ∀ s : Sys, allFile s ops = true → Op.rmdir ["W"] ∉ ops := by
  induction ops with
  | nil => intro _ _; simp
  | cons o rest ih =>
    intro s h
    simp only [allFile, Bool.and_eq_true] at h
    intro hmem
    rcases List.mem_cons.mp hmem with hm | hm
    · subst hm; simp [fileKind, simpleKind] at h
    · exact ih _ h.2 hm

/-- the three kinds of burst the theorems cover -/
def okBurst (s : Sys) (b : List Op) : Prop :=
  allFile s b = true ∨ allFill s.fs b = true ∨ (∃ op, b = [op] ∧ validOp s.fs op = true ∧ op ≠ .rmdir ["W"]) ∨
  (∃ p q, b = [.mkdir p, .rename p q] ∧ validOp s.fs (.mkdir p) = true ∧ 2 ≤ q.length ∧ s.fs.exists q = false ∧ p ≠ q ∧
    s.fs.isDir (parentOf q) = true ∧ watchedDir s.fs true (parentOf p) = true ∧ watchedDir s.fs true (parentOf q) = true) ∨
  (∃ o q1 q2 e, b = [.rename o q1, .rename q1 q2] ∧ RenameOK s.fs o q1 e ∧ RenameOK s.fs o q2 e ∧ e.isDir = true ∧
    s.fs.find? q1 = none ∧ s.fs.find? q2 = none ∧ q1 ≠ q2 ∧ isUnder q1 q2 = false ∧
    watchedDir s.fs true (parentOf o) = false ∧ watchedDir s.fs true (parentOf q1) = true ∧ watchedDir s.fs true (parentOf q2) = true) ∨
  (∃ a b1 c e, b = [.rename a b1, .rename b1 c] ∧ RenameOK s.fs a b1 e ∧ RenameOK s.fs a c e ∧ e.isDir = true ∧
    s.fs.find? b1 = none ∧ s.fs.find? c = none ∧ b1 ≠ c ∧ isUnder b1 c = false ∧
    watchedDir s.fs true (parentOf a) = true ∧ watchedDir s.fs true (parentOf b1) = true ∧ watchedDir s.fs true (parentOf c) = true)

def pacedOK (s : Sys) : List (List Op) → Prop
  | [] => True
  | b :: rest => okBurst s b ∧ pacedOK (s.burst b).1 rest

/-- one burst of a paced history -/
theorem paced_step (s : Sys) (b : List Op) (inv : InvRec s.fs s.k s.lib) (hs : s.stopped = false) (hc : s.crashed = false)
    (hok : okBurst s b) :
    InvRec (s.burst b).1.fs (s.burst b).1.k (s.burst b).1.lib ∧ (s.burst b).1.stopped = false ∧
    (s.burst b).1.crashed = false ∧ sameTree (replay (treeW s.fs) (s.burst b).2) (treeW (s.burst b).1.fs) := by
  have drained : s.burst b = ((s.run b).1, (s.run b).2.flatten) → allValid s b = true → Op.rmdir ["W"] ∉ b →
      InvRec (s.burst b).1.fs (s.burst b).1.k (s.burst b).1.lib ∧ (s.burst b).1.stopped = false ∧
      (s.burst b).1.crashed = false ∧ sameTree (replay (treeW s.fs) (s.burst b).2) (treeW (s.burst b).1.fs) := by
    intro he hv hroot
    obtain ⟨r1, r2, r3⟩ := run_rec s b inv hs hc hv
    have hst : (s.run b).1.stopped = false := by
      cases h : (s.run b).1.stopped
      · rfl
      · exact absurd ((stopped_iff s b inv hs hc hv).1 h) hroot
    rw [he]
    refine ⟨r3 hst, hst, r2, ?_⟩
    simp only
    rw [r1, run_fs]
    exact replay_run inv.wf s.full b (by rw [← allValid_eq_fsValid]; exact hv) hroot
  rcases hok with h | h | ⟨op, rfl, hv, hne⟩ | ⟨p, q, rfl, h1, h2, h3, h4, h5, h6, h7⟩ |
    ⟨o, q1, q2, e, rfl, k1, k2, k3, k4, k5, k6, k7, k8, k9, k10⟩ | ⟨a, b1, c, e, rfl, m1, m2, m3, m4, m5, m6, m7, m8, m9, m10⟩
  · exact drained (burst_files s b inv hs hc h) (allValid_of_allFile b s h) (allFile_no_root b s h)
  · obtain ⟨h1, h2, h3, h4, h5, _⟩ := burst_grow s b inv hs hc h
    exact ⟨h4, h2, h3, by rw [h1]; exact h5⟩
  · exact drained (burst_single s op) (by simp [allValid, hv]) (by simpa using fun h => hne h.symm)
  · obtain ⟨_, _, a3, a4, a5⟩ := burst_mkdir_rename s p q inv hs hc h1 h2 h3 h4 h5 h6 h7
    exact ⟨a5, a3, a4, (burst_mkdir_rename_replay s p q inv hs hc h1 h2 h3 h4 h5 h6 h7).2⟩
  · obtain ⟨a1, a2, a3, a4, a5⟩ := burst_movein_rename_state s o q1 q2 e inv hs hc k1 k2 k3 k4 k5 k6 k7 k8 k9 k10
    refine ⟨a5, a3, a4, ?_⟩
    rw [a1, a2]
    exact burst_movein_rename_replay s o q1 q2 e inv.wf k1 k2 k3 k4 k5 k6 k7 k8 k10 s.full
  · obtain ⟨a1, a2, a3, a4, a5⟩ := burst_rename_chain_state s a b1 c e inv hs hc m1 m2 m3 m4 m5 m6 m7 m8 m9 m10
    refine ⟨a5, a3, a4, ?_⟩
    rw [a1, a2]
    exact burst_rename_chain_replay s.fs a b1 c e inv.wf m1 m2 m3 m4 m5 m6 m7 m10

/-- **paced histories**: any sequence of bursts - single (drained) operations of every kind, bursts of file operations,
    nested creation bursts - each read as one batch: the reader never crashes, the emitter keeps running, the invariant
    holds after every burst, and replaying everything delivered on the initial tree gives the final tree -/
theorem paced_run (bs : List (List Op)) : ∀ (s : Sys), InvRec s.fs s.k s.lib → s.stopped = false → s.crashed = false →
    pacedOK s bs →
    InvRec (s.runBursts bs).1.fs (s.runBursts bs).1.k (s.runBursts bs).1.lib ∧ (s.runBursts bs).1.stopped = false ∧
    (s.runBursts bs).1.crashed = false ∧
    sameTree (replay (treeW s.fs) (s.runBursts bs).2.flatten) (treeW (s.runBursts bs).1.fs) := by
  induction bs with
  | nil => intro s inv hs hc _; exact ⟨inv, hs, hc, sameTree_refl _⟩
  | cons b rest ih =>
    intro s inv hs hc hok
    obtain ⟨i1, i2, i3, i4⟩ := paced_step s b inv hs hc hok.1
    obtain ⟨j1, j2, j3, j4⟩ := ih (s.burst b).1 i1 i2 i3 hok.2
    simp only [Sys.runBursts, List.flatten_cons, replay_append]
    exact ⟨j1, j2, j3, sameTree_trans (sameTree_replay i4 _) j4⟩

/- ---------------- the executable twins decide the hypotheses ---------------- -/

theorem allFile_of_check (s : Sys) (ops : List Op) (h : allFileB s ops = true) : allFile s ops = true := by
  have gen : ∀ (ops : List Op) (t : Sys) (b : Bool),
      (ops.foldl (fun (acc : FS × Bool) op => ((kernelOp acc.1 s.k op).1, acc.2 && validOp acc.1 op && fileKind acc.1 op)) (t.fs, b)).2 = true →
      b = true ∧ allFile t ops = true := by
    intro ops
    induction ops with
    | nil => intro t b h; exact ⟨h, rfl⟩
    | cons op rest ih =>
      intro t b h
      simp only [List.foldl_cons] at h
      have hfs : (kernelOp t.fs s.k op).1 = (t.op op).1.fs := by
        rw [Sys.op_fs, fsAfter, kernelOp_fs t.fs s.k ⟨[], 1, 1⟩]
      rw [hfs] at h
      obtain ⟨h1, h2⟩ := ih _ _ h
      simp only [Bool.and_eq_true] at h1
      exact ⟨h1.1.1, by simp only [allFile, h1.1.2, h1.2, Bool.true_and]; exact h2⟩
  exact (gen ops s true h).2

theorem okBurst_of_check (s : Sys) (b : List Op) (h : okBurstB s b = true) : okBurst s b := by
  simp only [okBurstB, Bool.or_eq_true] at h
  rcases h with ((((h | h) | h) | h) | h) | h
  · exact Or.inl (allFile_of_check s b h)
  · exact Or.inr (Or.inl (allFill_of_check s b h))
  · unfold mkRenameB at h
    split at h
    · next p p' q =>
      simp only [Bool.and_eq_true, beq_iff_eq, decide_eq_true_eq, Bool.not_eq_true', bne_iff_ne, ne_eq] at h
      obtain ⟨⟨⟨⟨⟨⟨⟨rfl, a1⟩, a2⟩, a3⟩, a4⟩, a5⟩, a6⟩, a7⟩ := h
      exact Or.inr (Or.inr (Or.inr (Or.inl ⟨p, q, rfl, a1, a2, a3, a4, a5, a6, a7⟩)))
    · cases h
  · unfold moveInRenameB at h
    split at h
    · next o q1 q1' q2 =>
      simp only [Bool.and_eq_true, beq_iff_eq, decide_eq_true_eq, Bool.not_eq_true', bne_iff_ne, ne_eq] at h
      obtain ⟨⟨⟨⟨⟨⟨⟨⟨⟨⟨⟨⟨⟨⟨⟨⟨⟨rfl, b1⟩, b2⟩, b3⟩, b4⟩, b5⟩, b6⟩, b7⟩, b8⟩, b9⟩, b10⟩, b11⟩, b12⟩, b13⟩, b14⟩, b15⟩, b16⟩, b17⟩ := h
      obtain ⟨e, he, hed⟩ := FS.isDir_iff.mp b1
      have f1 : s.fs.find? q1 = none := by
        cases hh : s.fs.find? q1 with
        | none => rfl
        | some x => simp [FS.exists, hh] at b5
      have f2 : s.fs.find? q2 = none := by
        cases hh : s.fs.find? q2 with
        | none => rfl
        | some x => simp [FS.exists, hh] at b6
      have ok1 : RenameOK s.fs o q1 e := ⟨b2, b3, he, b7, b9, b11, fun old ho => by rw [f1] at ho; cases ho⟩
      have ok2 : RenameOK s.fs o q2 e := ⟨b2, b4, he, b8, b10, b12, fun old ho => by rw [f2] at ho; cases ho⟩
      exact Or.inr (Or.inr (Or.inr (Or.inr (Or.inl ⟨o, q1, q2, e, rfl, ok1, ok2, hed, f1, f2, b13, b14, b15, b16, b17⟩))))
    · cases h
  · unfold renameChainB at h
    split at h
    · next a b1 b1' c =>
      simp only [Bool.and_eq_true, beq_iff_eq, decide_eq_true_eq, Bool.not_eq_true', bne_iff_ne, ne_eq] at h
      obtain ⟨⟨⟨⟨⟨⟨⟨⟨⟨⟨⟨⟨⟨⟨⟨⟨⟨rfl, b1'⟩, b2⟩, b3⟩, b4⟩, b5⟩, b6⟩, b7⟩, b8⟩, b9⟩, b10⟩, b11⟩, b12⟩, b13⟩, b14⟩, b15⟩, b16⟩, b17⟩ := h
      obtain ⟨e, he, hed⟩ := FS.isDir_iff.mp b1'
      have f1 : s.fs.find? b1 = none := by
        cases hh : s.fs.find? b1 with
        | none => rfl
        | some x => simp [FS.exists, hh] at b5
      have f2 : s.fs.find? c = none := by
        cases hh : s.fs.find? c with
        | none => rfl
        | some x => simp [FS.exists, hh] at b6
      have ok1 : RenameOK s.fs a b1 e := ⟨b2, b3, he, b7, b9, b11, fun old ho => by rw [f1] at ho; cases ho⟩
      have ok2 : RenameOK s.fs a c e := ⟨b2, b4, he, b8, b10, b12, fun old ho => by rw [f2] at ho; cases ho⟩
      exact Or.inr (Or.inr (Or.inr (Or.inr (Or.inr ⟨a, b1, c, e, rfl, ok1, ok2, hed, f1, f2, b13, b14, b15, b16, b17⟩))))
    · cases h
  · match b, h with
    | [op], h =>
      simp only [Bool.and_eq_true, bne_iff_ne, ne_eq] at h
      exact Or.inr (Or.inr (Or.inl ⟨op, rfl, h.1, h.2⟩))

theorem pacedOK_of_check (bs : List (List Op)) : ∀ s : Sys, pacedOKB s bs = true → pacedOK s bs := by
  induction bs with
  | nil => intro _ _; trivial
  | cons b rest ih =>
    intro s h
    simp only [pacedOKB, Bool.and_eq_true] at h
    exact ⟨okBurst_of_check s b h.1, ih _ h.2⟩

end WD.Pipe
