/- non-recursive watch: ANY sequence of bursts (each read as one batch) equals the drained run of all the operations -/
import WD.Proofs.Pipeline.BurstFlat
import WD.Proofs.Pipeline.BurstFiles
set_option linter.unusedSimpArgs false
namespace WD.Pipe

/-- every burst consists of valid operations, none removing the watched root -/
def flatOK (s : Sys) : List (List Op) → Bool
  | [] => true
  | b :: rest => allValidNoRoot s b && flatOK (s.burst b).1 rest

theorem allValid_of_noRoot (ops : List Op) : ∀ s : Sys, allValidNoRoot s ops = true → allValid s ops = true ∧ Op.rmdir ["W"] ∉ ops := by
  induction ops with
  | nil => intro _ _; exact ⟨rfl, by simp⟩
  | cons o rest ih =>
    intro s h
    simp only [allValidNoRoot, Bool.and_eq_true, bne_iff_ne, ne_eq] at h
    obtain ⟨i1, i2⟩ := ih _ h.2
    refine ⟨by simp [allValid, h.1.1, i1], ?_⟩
    intro hm
    rcases List.mem_cons.mp hm with e | e
    · exact h.1.2 e.symm
    · exact i2 e

/-- under a non-recursive watch the batching is invisible: a paced history delivers, burst by burst, what the drained run of
    the concatenated operations delivers, and ends in the same state -/
theorem runBursts_flat (bs : List (List Op)) : ∀ (s : Sys), InvFlat s.fs s.k s.lib → s.stopped = false → s.crashed = false →
    flatOK s bs = true →
    (s.runBursts bs).1 = (s.run bs.flatten).1 ∧ (s.runBursts bs).2.flatten = (s.run bs.flatten).2.flatten ∧
    allValid s bs.flatten = true ∧ Op.rmdir ["W"] ∉ bs.flatten := by
  induction bs with
  | nil => intro s _ _ _ _; exact ⟨rfl, rfl, rfl, by simp⟩
  | cons b rest ih =>
    intro s inv hs hc hok
    simp only [flatOK, Bool.and_eq_true] at hok
    have hb := burst_flat s b inv hs hc hok.1
    obtain ⟨hv, hroot⟩ := allValid_of_noRoot b s hok.1
    obtain ⟨_, r2, r3⟩ := run_flat s b inv hs hc hv
    have hst : (s.run b).1.stopped = false := by
      cases h : (s.run b).1.stopped
      · rfl
      · exact absurd ((stopped_iff_flat s b inv hs hc hv).1 h) hroot
    have hok2 := hok.2
    rw [hb] at hok2
    obtain ⟨i1, i2, i3, i4⟩ := ih (s.run b).1 (r3 hst) hst r2 hok2
    simp only [Sys.runBursts, hb, List.flatten_cons, run_append]
    refine ⟨i1, by simp [i2], ?_, ?_⟩
    · rw [allValid_append, hv]; simpa using i3
    · intro hm
      rcases List.mem_append.mp hm with e | e
      · exact hroot e
      · exact i4 e

end WD.Pipe
