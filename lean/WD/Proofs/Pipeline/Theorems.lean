/- consequences of the refinement for whole histories (recursive watch) -/
import WD.Proofs.Pipeline.Run
set_option linter.unusedSimpArgs false
namespace WD.Pipe

theorem contract_stop_iff (fs : FS) (r f : Bool) (op : Op) : (contract fs r f op).2 = true ↔ op = .rmdir ["W"] := by
  cases op with
  | create p => simp [contract]
  | write p => simp [contract]
  | chmod p => simp only [contract]; cases fs.find? p <;> simp
  | unlink p => simp [contract]
  | mkdir p => simp [contract]
  | rmdir p =>
    simp only [contract]
    by_cases h : p = ["W"]
    · simp [h]
    · have hb : (p == ["W"]) = false := by simp [h]
      simp [hb, h]
  | rmtree p => simp [contract]
  | rmtreeOrd p o => simp [contract]
  | rename p q =>
    simp only [contract]
    cases fs.find? p with
    | none => simp
    | some e =>
      simp only
      split
      · simp
      · split
        · simp
        · split <;> simp

/-- the emitter of a recursive watch stops exactly when the watched root itself is removed -/
theorem stopped_iff (s : Sys) (ops : List Op) (inv : InvRec s.fs s.k s.lib) (hs : s.stopped = false) (hc : s.crashed = false)
    (hv : allValid s ops = true) : (s.run ops).1.stopped = true ↔ Op.rmdir ["W"] ∈ ops := by
  induction ops generalizing s with
  | nil => simp [Sys.run, hs]
  | cons op rest ih =>
    simp only [allValid, Bool.and_eq_true] at hv
    have st := step_rec s op inv hs hc hv.1
    simp only [Sys.run, List.mem_cons]
    cases hst : (contract s.fs true s.full op).2 with
    | true =>
      have hstop : (s.op op).1.stopped = true := by rw [st.stop, hst]
      have := (contract_stop_iff _ _ _ _).mp hst
      rw [(run_stopped (s.op op).1 rest hstop).2.2]
      simp [this]
    | false =>
      have hstop : (s.op op).1.stopped = false := by rw [st.stop, hst]
      have hne : op ≠ .rmdir ["W"] := by
        intro h; have := (contract_stop_iff s.fs true s.full op).mpr h; rw [hst] at this; cases this
      rw [ih (s.op op).1 (st.inv hst) hstop st.ncrash hv.2]
      constructor
      · exact Or.inr
      · rintro (h | h)
        · exact absurd h.symm hne
        · exact h

/-- C02's coverage, from the invariant -/
theorem covered_of_inv {fs : FS} {k : Kern} {lib : Lib} (inv : InvRec fs k lib) (s : Sys) (h1 : s.fs = fs) (h2 : s.k = k) (h3 : s.lib = lib) :
    Covered s := by
  intro e he hd hp
  subst h1; subst h2; subst h3
  have ht : inTreeDir e = true := by rw [inTreeDir_iff]; exact ⟨hd, hp⟩
  obtain ⟨wd, h1, _, h2, _⟩ := inv.watched he ht trivial
  exact ⟨wd, h1, h2⟩

end WD.Pipe
