/- operations on directories under a recursive watch: mkdir, rmdir, rmtree -/
import WD.Proofs.Pipeline.Watch
import WD.Proofs.Pipeline.OpsFile
set_option linter.unusedSimpArgs false
namespace WD.Pipe

variable {fs : FS} {k : Kern} {lib : Lib} {cov : Ent → Prop} {z : Option Nat}

theorem InvOn.mono {cov' : Ent → Prop} (inv : InvOn cov z fs k lib)
    (h : ∀ e ∈ fs.ents, inTreeDir e = true → cov' e → cov e) : InvOn cov' z fs k lib :=
  { inv with cover := fun e he hd hc => inv.cover e he hd (h e he hd hc) }

/-- the file system grows: what was covered stays covered -/
theorem InvOn.fs_grow {fs1 : FS} (inv : InvOn cov z fs k lib) (hwf : fs1.WF) (h : ∀ e ∈ fs.ents, e ∈ fs1.ents) :
    InvOn (fun e => cov e ∧ e ∈ fs.ents) z fs1 k lib :=
  { wf := hwf, isRec := inv.isRec, kwd := inv.kwd, kino := inv.kino, klt := inv.klt,
    good := by
      intro w hw
      obtain ⟨e, he, h1⟩ := inv.good w hw
      exact ⟨e, h e he, h1⟩
    cover := fun e _ hd hc => inv.cover e hc.2 hd hc.1
    pfwDom := inv.pfwDom, zlt := inv.zlt, zdead := inv.zdead, wfpInv := inv.wfpInv, wfpNodup := inv.wfpNodup,
    pfwNodup := inv.pfwNodup, cookies := inv.cookies }

/-- every proper, non-empty prefix of an entry's path is a directory -/
theorem FS.WF.ancestor_dir {fs : FS} (hwf : fs.WF) : ∀ (n : Nat) (e : Ent), e ∈ fs.ents → e.path.length = n →
    ∀ a : P, a ≠ [] → isUnder a e.path = true → fs.isDir a = true := by
  intro n
  induction n using Nat.strongRecOn with
  | ind n ih =>
    intro e he hn a ha hu
    rcases hwf.parent he with h | h | h
    · rw [h] at hu; have hl := isUnder_length hu
      have h1 : ([("W" : String)] : P).length = 1 := rfl
      have h2 : ([("O" : String)] : P).length = 1 := rfl
      exact absurd (List.length_eq_zero_iff.mp (by omega)) ha
    · rw [h] at hu; have hl := isUnder_length hu
      have h1 : ([("W" : String)] : P).length = 1 := rfl
      have h2 : ([("O" : String)] : P).length = 1 := rfl
      exact absurd (List.length_eq_zero_iff.mp (by omega)) ha
    · rcases isUnder_parent hu with hp | hp
      · rw [← hp]; exact h.2
      · obtain ⟨d, hd, _⟩ := FS.isDir_iff.mp h.2
        have hdm := FS.find?_some hd
        have hl : d.path.length < n := by rw [hdm.2, parentOf_length]; omega
        exact ih _ hl d hdm.1 rfl a ha (hdm.2 ▸ hp)

theorem FS.WF.no_descendants_of_missing {fs : FS} (hwf : fs.WF) {p : P} (hp : p ≠ []) (hne : fs.exists p = false) :
    ∀ e ∈ fs.ents, isUnder p e.path = false := by
  intro e he
  cases h : isUnder p e.path with
  | false => rfl
  | true =>
    have := hwf.ancestor_dir _ e he rfl p hp h
    obtain ⟨d, hd, _⟩ := FS.isDir_iff.mp this
    simp [FS.exists, hd] at hne

theorem inTreeDir_of_parent {fs : FS} {p : P} (hp : 2 ≤ p.length) (hpar : fs.isDir (parentOf p) = true) (ino : Nat) :
    inTreeDir ⟨p, true, ino⟩ = watchedDir fs true (parentOf p) := by
  unfold inTreeDir watchedDir
  simp only [Bool.true_and, hpar]
  have hne : p ≠ ["W"] := by intro h; subst h; simp at hp
  have hnn := ne_nil_of_two_le hp
  cases hu : isUnder ["W"] p with
  | true =>
    have e1 : (p == ["W"]) = false := by simp [hne]
    rcases isUnder_parent hu with h | h
    · simp [e1, h]
    · simp [e1, h]
  | false =>
    have h1 : parentOf p ≠ ["W"] := by
      intro h; have := isUnder_of_parent hnn (Or.inl h); rw [hu] at this; cases this
    have h2 : isUnder ["W"] (parentOf p) = false := by
      cases h : isUnder ["W"] (parentOf p) with
      | false => rfl
      | true => have := isUnder_of_parent hnn (Or.inr h); rw [hu] at this; cases this
    have e1 : (p == ["W"]) = false := by simp [hne]
    have e2 : (parentOf p == ["W"]) = false := by simp [h1]
    simp [e1, e2, h2]

theorem validOp_mkdir {fs : FS} {p : P} (h : validOp fs (.mkdir p) = true) :
    2 ≤ p.length ∧ fs.exists p = false ∧ fs.isDir (parentOf p) = true := by
  have := h; simp [validOp] at this; exact ⟨this.1.1, this.1.2, this.2⟩

theorem step_mkdir (s : Sys) (p : P) (inv : InvRec s.fs s.k s.lib) (hs : s.stopped = false) (hc : s.crashed = false)
    (hv : validOp s.fs (.mkdir p) = true) : StepRec s (.mkdir p) := by
  obtain ⟨hp, hne, hpar⟩ := validOp_mkdir hv
  have hnn := ne_nil_of_two_le hp
  have hpb := snoc_parent_base hnn
  have hwf1 := inv.wf.add hp hne hpar true
  have hit := inTreeDir_of_parent hp hpar s.fs.nextIno
  rcases inv.parent_recs p with ⟨hw, wd, h1, _, hrec⟩ | ⟨hw, hrec⟩
  · -- the new directory gets its watch
    have hfnone : s.fs.find? p = none := by
      cases h : s.fs.find? p with
      | none => rfl
      | some e => simp [FS.exists, h] at hne
    have hfind : (s.fs.add p true).find? p = some ⟨p, true, s.fs.nextIno⟩ := by
      rw [FS.find?_add, hfnone]; simp
    have hdesc : (s.fs.add p true).descendants p = [] := by
      unfold FS.descendants
      rw [List.filter_eq_nil_iff]
      intro e he
      rcases FS.mem_add.mp he with he | he
      · simp [inv.wf.no_descendants_of_missing hnn hne e he]
      · subst he; simp [isUnder_irrefl]
    have hk : kernelOp s.fs s.k (.mkdir p) = (s.fs.add p true, s.k, [⟨wd, .create, true, 0, some (baseName p)⟩]) := by
      simp [kernelOp, hrec, FS.add]
    have haw := addWatch_new (fs := s.fs.add p true) (k := s.k) (lib := s.lib) (e := ⟨p, true, s.fs.nextIno⟩) hfind inv.fresh_unwatched
    have hl : libBatch (s.fs.add p true) s.k s.lib [⟨wd, .create, true, 0, some (baseName p)⟩] =
        some (s.k.withWatch s.fs.nextIno, s.lib.withWatch p s.k.nextWd, [⟨wd, .create, true, 0, some (baseName p), p⟩]) := by
      simp only [libBatch_cons, libBatch_nil, libRecord, h1, hpb, inv.isRec, Bool.and_self, if_true]
      simp only at haw
      simp [haw, hdesc]
    have hgs : gsOf [(⟨wd, .create, true, 0, some (baseName p), p⟩ : LEv)] = [.one ⟨wd, .create, true, 0, some (baseName p), p⟩] := by
      rw [gsOf_simple]; · rfl
      · intro e he; simp at he; subst he; simp
    have hf : forgetAll (s.fs.add p true) (s.k.withWatch s.fs.nextIno) (s.lib.withWatch p s.k.nextWd)
        (if (s.lib.withWatch p s.k.nextWd).recursive then movedOut (gsOf [(⟨wd, .create, true, 0, some (baseName p), p⟩ : LEv)]) else []) =
        some (s.k.withWatch s.fs.nextIno, s.lib.withWatch p s.k.nextWd) := by
      rw [hgs]; simp [movedOut, forgetAll_nil]
    have hop := Sys.op_eq s _ hs hc hk hl hf
    rw [hgs] at hop
    have hrec' : (s.lib.withWatch p s.k.nextWd).recursive = true := inv.isRec
    simp only [hrec', emitAll_cons, emitAll_nil, emit, Bool.false_eq_true, if_false, List.append_nil] at hop
    refine ⟨by rw [hop]; simp [contract, hw, dirMod, mkEv], by rw [hop]; simp [contract], by rw [hop]; exact hc, by rw [hop], ?_⟩
    intro _
    rw [hop]
    have hnew : (⟨p, true, s.fs.nextIno⟩ : Ent) ∈ (s.fs.add p true).ents := FS.mem_add.mpr (Or.inr rfl)
    have i1 := inv.fs_grow hwf1 (fun e he => FS.mem_add.mpr (Or.inl he))
    have i2 := i1.addWatch hnew (by rw [hit, hw]) inv.fresh_unwatched
    refine i2.mono ?_
    intro e he _ _
    rcases FS.mem_add.mp he with h | h
    · exact Or.inl ⟨trivial, h⟩
    · exact Or.inr h
  · refine step_simple s _ inv hs hc (s.fs.add p true) [] (fun _ => parentOf p) ⟨?_, ?_, ?_, ?_, ?_, ?_, ?_⟩
    · simp [kernelOp, hrec, FS.add]
    · simp
    · exact hwf1
    · intro e he; rw [FS.mem_add]
      constructor
      · rintro (h | h)
        · exact h
        · subst h; rw [hit, hw] at he; cases he
      · exact Or.inl
    · simp
    · simp [contract, hw]
    · simp [contract]

end WD.Pipe

namespace WD.Pipe

/-- what the removal of one entry (unlink / rmdir, alone or as a step of rmtree) does to the pipeline -/
structure RemovalOK (fs : FS) (k : Kern) (lib : Lib) (e : Ent) (lib' : Lib) (levs : List LEv) : Prop where
  fsEq : (removeEntry fs k e).1 = fs.del e.path
  batch : ∀ fsX kX, libBatch fsX kX lib (removeEntry fs k e).2.2 = some (kX, lib', levs)
  inv : InvRec (fs.del e.path) (removeEntry fs k e).2.1 lib'
  flags : ∀ l ∈ levs, l.flag = .deleteSelf ∨ l.flag = .ignored ∨ l.flag = .delete
  notRoot : ∀ l ∈ levs, l.flag = .deleteSelf → l.src ≠ ["W"]
  events : ∀ fsX full, (levs.filter (fun l => l.flag != .ignored)).flatMap (fun l => (emit fsX true full (.one l)).1) =
      if watchedDir fs true (parentOf e.path) then evDeleted e.isDir e.path else []

theorem removeEntry_step {fs : FS} {k : Kern} {lib : Lib} (inv : InvRec fs k lib) {e : Ent} (he : e ∈ fs.ents)
    (hp2 : 2 ≤ e.path.length) (hwf' : (fs.del e.path).WF) : ∃ lib' levs, RemovalOK fs k lib e lib' levs := by
  have hnn := ne_nil_of_two_le hp2
  have hpb := snoc_parent_base hnn
  have hnW : e.path ≠ ["W"] := by intro h; rw [h] at hp2; simp at hp2
  cases ht : inTreeDir e with
  | true =>
    have hd : e.isDir = true := (inTreeDir_iff.mp ht).1
    obtain ⟨wd, h1, hw, h2, h3⟩ := inv.watched he ht trivial
    have hself : (if e.isDir then k.onSelf e.ino .deleteSelf false ++ k.onSelf e.ino .ignored false else []) =
        [⟨wd, .deleteSelf, false, 0, none⟩, ⟨wd, .ignored, false, 0, none⟩] := by
      simp [hd, onSelf_some h1]
    have hk1 : (if e.isDir then k.dropWatch e.ino else k) = k.dropWatch e.ino := by simp [hd]
    have hb1 : ∀ fsX kX, libBatch fsX kX lib [⟨wd, .deleteSelf, false, 0, none⟩, ⟨wd, .ignored, false, 0, none⟩] =
        some (kX, lib.forget e.path wd, [⟨wd, .deleteSelf, false, 0, none, e.path⟩, ⟨wd, .ignored, false, 0, none, e.path⟩]) := by
      intro fsX kX
      rw [libBatch_cons, libRecord_simple fsX kX lib _ e.path (by simp [simpleFlag]) h2]
      simp only [libBatch_cons, libRecord_ignored fsX kX lib wd e.path false 0 h2 h3, libBatch_nil]
      simp [NRec.toLEv, NRec.src]
    have hinv' := inv.dropWatch he hw hwf'
    rcases inv.parent_recs e.path with ⟨hwp, wdp, hp1, _, hrec⟩ | ⟨hwp, hrec⟩
    · have hne : wdp ≠ wd := by
        intro hh; subst hh; rw [h2] at hp1
        have := congrArg List.length (Option.some.inj hp1); rw [parentOf_length] at this; omega
      have hb2 : ∀ fsX kX, libBatch fsX kX (lib.forget e.path wd) [⟨wdp, .delete, e.isDir, 0, some (baseName e.path)⟩] =
          some (kX, lib.forget e.path wd, [⟨wdp, .delete, e.isDir, 0, some (baseName e.path), e.path⟩]) := by
        intro fsX kX
        rw [libBatch_cons, libRecord_simple fsX kX _ _ (parentOf e.path) (by simp [simpleFlag])
          (by simp [Lib.forget, lookupW_filter_ne, hne, hp1])]
        simp [libBatch_nil, NRec.toLEv, NRec.src, hpb]
      refine ⟨lib.forget e.path wd, [⟨wd, .deleteSelf, false, 0, none, e.path⟩, ⟨wd, .ignored, false, 0, none, e.path⟩,
        ⟨wdp, .delete, e.isDir, 0, some (baseName e.path), e.path⟩], ?_⟩
      refine ⟨by simp [removeEntry, FS.del], ?_, ?_, ?_, ?_, ?_⟩
      · intro fsX kX
        simp only [removeEntry, hself, hrec]
        rw [libBatch_append fsX kX lib _ _ (hb1 fsX kX), hb2 fsX kX]; rfl
      · simp only [removeEntry, hk1]; exact hinv'
      · intro l hl; simp at hl; rcases hl with rfl | rfl | rfl <;> simp
      · intro l hl; simp at hl; rcases hl with rfl | rfl | rfl <;> simp [hnW]
      · intro fsX full
        simp [List.filter_cons, emit, hnW, hwp, evDeleted, dirMod, mkEv]
    · refine ⟨lib.forget e.path wd, [⟨wd, .deleteSelf, false, 0, none, e.path⟩, ⟨wd, .ignored, false, 0, none, e.path⟩], ?_⟩
      refine ⟨by simp [removeEntry, FS.del], ?_, ?_, ?_, ?_, ?_⟩
      · intro fsX kX
        simp only [removeEntry, hself, hrec, List.append_nil]
        exact hb1 fsX kX
      · simp only [removeEntry, hk1]; exact hinv'
      · intro l hl; simp at hl; rcases hl with rfl | rfl <;> simp
      · intro l hl; simp at hl; rcases hl with rfl | rfl <;> simp [hnW]
      · intro fsX full
        simp [List.filter_cons, emit, hnW, hwp]
  | false =>
    have hun := inv.unwatched he ht
    have hself : (if e.isDir then k.onSelf e.ino .deleteSelf false ++ k.onSelf e.ino .ignored false else []) = [] := by
      simp [onSelf_none hun]
    have hk1 : (if e.isDir then k.dropWatch e.ino else k) = k := by
      cases e.isDir <;> simp [dropWatch_unwatched hun]
    have hinv' : InvRec (fs.del e.path) k lib := by
      apply inv.fs_change hwf'
      intro x hx; rw [FS.mem_del]
      constructor
      · exact fun h => h.1
      · intro h; refine ⟨h, ?_⟩
        intro hp; have := inv.wf.path_inj h he hp; subst this; rw [ht] at hx; cases hx
    rcases inv.parent_recs e.path with ⟨hwp, wdp, hp1, _, hrec⟩ | ⟨hwp, hrec⟩
    · refine ⟨lib, [⟨wdp, .delete, e.isDir, 0, some (baseName e.path), e.path⟩], ?_⟩
      refine ⟨by simp [removeEntry, FS.del], ?_, ?_, ?_, ?_, ?_⟩
      · intro fsX kX
        simp only [removeEntry, hself, hrec, List.nil_append]
        rw [libBatch_cons, libRecord_simple fsX kX _ _ (parentOf e.path) (by simp [simpleFlag]) hp1]
        simp [libBatch_nil, NRec.toLEv, NRec.src, hpb]
      · simp only [removeEntry, hk1]; exact hinv'
      · intro l hl; simp at hl; subst hl; simp
      · intro l hl; simp at hl; subst hl; simp
      · intro fsX full
        simp [List.filter_cons, emit, hwp, evDeleted, dirMod, mkEv]
    · refine ⟨lib, [], ?_⟩
      refine ⟨by simp [removeEntry, FS.del], ?_, ?_, ?_, ?_, ?_⟩
      · intro fsX kX
        simp only [removeEntry, hself, hrec, List.nil_append]; rfl
      · simp only [removeEntry, hk1]; exact hinv'
      · simp
      · simp
      · intro fsX full; simp [hwp]

end WD.Pipe

namespace WD.Pipe

/-- assembling a step whose records are all removal records -/
theorem step_removals (s : Sys) (op : Op) (hs : s.stopped = false) (hc : s.crashed = false)
    {fs1 : FS} {k1 : Kern} {recs : List NRec} {lib' : Lib} {levs : List LEv}
    (hk : kernelOp s.fs s.k op = (fs1, k1, recs))
    (hb : libBatch fs1 k1 s.lib recs = some (k1, lib', levs))
    (flags : ∀ l ∈ levs, l.flag = .deleteSelf ∨ l.flag = .ignored ∨ l.flag = .delete)
    (notRoot : ∀ l ∈ levs, l.flag = .deleteSelf → l.src ≠ ["W"])
    (hev : (levs.filter (fun l => l.flag != .ignored)).flatMap (fun l => (emit fs1 true s.full (.one l)).1) =
      (contract s.fs true s.full op).1)
    (hst : (contract s.fs true s.full op).2 = false) (hinv : InvRec fs1 k1 lib') : StepRec s op := by
  have hnoTo : ∀ e ∈ levs, e.flag ≠ .movedTo := by
    intro e he; rcases flags e he with h | h | h <;> simp [h]
  have hgs := gsOf_noTo levs hnoTo
  have hmo : movedOut (gsOf levs) = [] := by
    apply movedOut_nil_of
    intro g hg
    rw [hgs] at hg
    obtain ⟨e, he, rfl⟩ := List.mem_map.mp hg
    have he' := (List.mem_filter.mp he).1
    simp only
    intro hh
    rcases flags e he' with h | h | h <;> simp [h] at hh
  have hf : forgetAll fs1 k1 lib' (if lib'.recursive then movedOut (gsOf levs) else []) = some (k1, lib') := by
    rw [hmo]; simp [forgetAll_nil]
  have hop := Sys.op_eq s op hs hc hk hb hf
  have hem : emitAll fs1 lib'.recursive s.full (gsOf levs) = ((contract s.fs true s.full op).1, false) := by
    rw [hgs, hinv.isRec, emitAll_nostop]
    · rw [← hev]; simp [List.flatMap_map]
    · intro g hg
      obtain ⟨e, he, rfl⟩ := List.mem_map.mp hg
      have he' := (List.mem_filter.mp he).1
      rcases flags e he' with h | h | h
      · have := notRoot e he' h
        simp [emit, h, this]
      · simp [emit, h]
      · simp [emit, h]
  rw [hem] at hop
  exact ⟨by rw [hop], by rw [hop, hst], by rw [hop]; exact hc, by rw [hop], fun _ => by rw [hop]; exact hinv⟩

theorem FS.WF.dir_leaf {fs : FS} (hwf : fs.WF) {p : P} (hch : (fs.children p).isEmpty = true) :
    ∀ e ∈ fs.ents, parentOf e.path ≠ p ∨ e.path.length < 2 := by
  intro e he
  by_cases hl : e.path.length < 2
  · exact Or.inr hl
  · left; intro hpp
    have hnn : e.path ≠ [] := by intro h; rw [h] at hl; simp at hl
    have : e ∈ fs.children p := by
      unfold FS.children
      rw [List.mem_filter]
      refine ⟨he, ?_⟩
      have hb := snoc_parent_base hnn
      rw [hpp] at hb
      rw [← hb]; simp
    rw [List.isEmpty_iff] at hch
    rw [hch] at this; cases this

theorem step_rmdir (s : Sys) (p : P) (inv : InvRec s.fs s.k s.lib) (hs : s.stopped = false) (hc : s.crashed = false)
    (hv : validOp s.fs (.rmdir p) = true) : StepRec s (.rmdir p) := by
  have hv' : (2 ≤ p.length ∨ p = ["W"]) ∧ s.fs.isDir p = true ∧ (s.fs.children p).isEmpty = true := by
    have := hv; simp [validOp] at this; exact ⟨this.1.1, this.1.2, by simpa using this.2⟩
  obtain ⟨e, he, hd⟩ := FS.isDir_iff.mp hv'.2.1
  have hem := FS.find?_some he
  have hex : s.fs.exists p = true := FS.exists_iff.mpr ⟨e, he⟩
  by_cases hW : p = ["W"]
  · -- the watched root itself goes away: one DirDeletedEvent, the emitter stops
    subst hW
    have ht : inTreeDir e = true := by rw [inTreeDir_iff]; exact ⟨hd, Or.inl hem.2⟩
    obtain ⟨wd, h1, hw, h2, h3⟩ := inv.watched hem.1 ht trivial
    rw [hem.2] at h2 h3
    have hpar : s.fs.find? (parentOf ["W"]) = none := by
      rw [FS.find?_none]; intro x hx; exact fun h => inv.wf.path_ne_nil hx (by simpa [parentOf] using h)
    have hk : kernelOp s.fs s.k (.rmdir ["W"]) = (s.fs.del ["W"], s.k.dropWatch e.ino,
        [⟨wd, .deleteSelf, false, 0, none⟩, ⟨wd, .ignored, false, 0, none⟩]) := by
      simp [kernelOp, he, removeEntry, hd, hem.2, onSelf_some h1, hpar, Kern.onEntry, FS.del]
    have hl : libBatch (s.fs.del ["W"]) (s.k.dropWatch e.ino) s.lib [⟨wd, .deleteSelf, false, 0, none⟩, ⟨wd, .ignored, false, 0, none⟩] =
        some (s.k.dropWatch e.ino, s.lib.forget ["W"] wd,
          [⟨wd, .deleteSelf, false, 0, none, ["W"]⟩, ⟨wd, .ignored, false, 0, none, ["W"]⟩]) := by
      rw [libBatch_cons, libRecord_simple _ _ s.lib _ ["W"] (by simp [simpleFlag]) h2]
      simp only [libBatch_cons, libRecord_ignored _ _ s.lib wd ["W"] false 0 h2 h3, libBatch_nil]
      simp [NRec.toLEv, NRec.src]
    have hgs : gsOf [(⟨wd, .deleteSelf, false, 0, none, ["W"]⟩ : LEv), ⟨wd, .ignored, false, 0, none, ["W"]⟩] =
        [.one ⟨wd, .deleteSelf, false, 0, none, ["W"]⟩] := by
      rw [gsOf_noTo]; · simp [List.filter_cons]
      · intro x hx; simp at hx; rcases hx with rfl | rfl <;> simp
    have hf : forgetAll (s.fs.del ["W"]) (s.k.dropWatch e.ino) (s.lib.forget ["W"] wd)
        (if (s.lib.forget ["W"] wd).recursive then
          movedOut (gsOf [(⟨wd, .deleteSelf, false, 0, none, ["W"]⟩ : LEv), ⟨wd, .ignored, false, 0, none, ["W"]⟩]) else []) =
        some (s.k.dropWatch e.ino, s.lib.forget ["W"] wd) := by
      rw [hgs]; simp [movedOut, forgetAll_nil]
    have hop := Sys.op_eq s _ hs hc hk hl hf
    rw [hgs] at hop
    simp only [emitAll_cons, emitAll_nil, emit, if_true] at hop
    exact ⟨by rw [hop]; simp [contract, mkEv], by rw [hop]; simp [contract], by rw [hop]; exact hc, by rw [hop],
      fun h => by simp [contract] at h⟩
  · have hp2 : 2 ≤ p.length := by rcases hv'.1 with h | h; exact h; exact absurd h hW
    have hwf' : (s.fs.del e.path).WF := by rw [hem.2]; exact inv.wf.del hp2 (inv.wf.dir_leaf hv'.2.2)
    obtain ⟨lib', levs, ok⟩ := removeEntry_step inv hem.1 (hem.2 ▸ hp2) hwf'
    have hk : kernelOp s.fs s.k (.rmdir p) = removeEntry s.fs s.k e := by simp [kernelOp, he]
    have hk' : kernelOp s.fs s.k (.rmdir p) = (s.fs.del e.path, (removeEntry s.fs s.k e).2.1, (removeEntry s.fs s.k e).2.2) := by
      rw [hk, ← ok.fsEq]
    apply step_removals s _ hs hc hk' (ok.batch _ _) ok.flags ok.notRoot
    · rw [ok.events]; simp [contract, hW, hem.2, hex, hd]
    · simp [contract, hW]
    · exact ok.inv

end WD.Pipe
