/- C01 for whole histories -/
import WD.Proofs.Pipeline.ReplayRename
import WD.Proofs.Pipeline.Theorems
set_option linter.unusedSimpArgs false
namespace WD.Pipe

variable {fs : FS}

theorem echain_wf (es : List Ent) (fs : FS) (k : Kern) (hwf : fs.WF) (h : EChain fs es) : (removeAll fs k es).1.WF := by
  induction es generalizing fs k with
  | nil => exact hwf
  | cons e rest ih =>
    obtain ⟨_, _, hwf', hrest⟩ := h
    rw [removeAll_cons]
    exact ih _ _ hwf' hrest

/-- a valid operation other than the removal of the root leaves a well-formed file system -/
theorem wf_after (hwf : fs.WF) (op : Op) (hv : validOp fs op = true) (hroot : op ≠ .rmdir ["W"]) : (fsAfter fs op).WF := by
  cases op with
  | create p =>
    obtain ⟨hp, hne, hpar⟩ := validOp_create hv
    exact hwf.add hp hne hpar false
  | mkdir p =>
    obtain ⟨hp, hne, hpar⟩ := validOp_mkdir hv
    exact hwf.add hp hne hpar true
  | write p => exact hwf
  | chmod p =>
    have : fsAfter fs (.chmod p) = fs := by simp only [fsAfter, kernelOp]; cases fs.find? p <;> rfl
    rw [this]; exact hwf
  | unlink p =>
    have hv' : fs.isFile p = true := by simpa [validOp] using hv
    obtain ⟨f, hf, hfile⟩ := FS.isFile_iff.mp hv'
    have hfm := FS.find?_some hf
    have hp2 : 2 ≤ p.length := by
      rcases hwf.parent hfm.1 with h | h | h
      · have := hwf.rootW; rw [← h, hfm.2] at this
        obtain ⟨d, hd, hdd⟩ := FS.isDir_iff.mp this; rw [hf] at hd; cases hd; rw [hfile] at hdd; cases hdd
      · have := hwf.rootO; rw [← h, hfm.2] at this
        obtain ⟨d, hd, hdd⟩ := FS.isDir_iff.mp this; rw [hf] at hd; cases hd; rw [hfile] at hdd; cases hdd
      · rw [← hfm.2]; exact h.1
    have h1 : fsAfter fs (.unlink p) = fs.del p := by simp [fsAfter, kernelOp, hf, removeEntry, hfm.2, FS.del]
    rw [h1]; exact hwf.del hp2 (hwf.file_leaf hf hfile)
  | rmdir p =>
    have hv' : (2 ≤ p.length ∨ p = ["W"]) ∧ fs.isDir p = true ∧ (fs.children p).isEmpty = true := by
      have := hv; simp [validOp] at this; exact ⟨this.1.1, this.1.2, by simpa using this.2⟩
    obtain ⟨e, he, _⟩ := FS.isDir_iff.mp hv'.2.1
    have hem := FS.find?_some he
    have h1 : fsAfter fs (.rmdir p) = fs.del p := by simp [fsAfter, kernelOp, he, removeEntry, hem.2, FS.del]
    have hp2 : 2 ≤ p.length := by
      rcases hv'.1 with h | h
      · exact h
      · subst h; exact absurd rfl hroot
    rw [h1]; exact hwf.del hp2 (hwf.dir_leaf hv'.2.2)
  | rmtree p => 
    have hv' := hv
    simp only [validOp, validRmtree, Bool.and_eq_true, decide_eq_true_eq, List.all_eq_true] at hv'
    obtain ⟨⟨⟨⟨⟨hp2, hdir⟩, hall⟩, hdesc⟩, hnd⟩, hpw⟩ := hv'
    obtain ⟨e, he, _⟩ := FS.isDir_iff.mp hdir
    have hem := FS.find?_some he
    have hpaths := filterMap_find_paths (fs := fs) (canonOrder fs p) (fun q hq => (hall q hq).2)
    have hch : EChain fs ((canonOrder fs p).filterMap fs.find? ++ [e]) := by
      apply echain_of_order hwf p hp2 e hem.1 hem.2 _ fs hwf hem.1
      · intro a ha
        obtain ⟨h1, h2⟩ := mem_filterMap_find ha
        exact ⟨(hall _ h2).1, h1⟩
      · intro x hx hxp
        have : x ∈ fs.descendants p := by unfold FS.descendants; exact List.mem_filter.mpr ⟨hx, hxp⟩
        have hc := hdesc x this
        simp only [List.contains_iff_mem] at hc
        exact List.mem_filterMap.mpr ⟨x.path, hc, hwf.find_mem hx⟩
      · rw [hpaths]; exact hpw
      · rw [hpaths]; exact hnd
    have h1 : fsAfter fs (.rmtree p) = (removeAll fs ⟨[], 1, 1⟩ ((canonOrder fs p).filterMap fs.find? ++ [e])).1 := by
      simp [fsAfter, kernelOp, he]
    rw [h1]; exact echain_wf _ _ _ hwf hch
  | rmtreeOrd p order =>
    have hv' := hv
    simp only [validOp, validRmtree, Bool.and_eq_true, decide_eq_true_eq, List.all_eq_true] at hv'
    obtain ⟨⟨⟨⟨⟨hp2, hdir⟩, hall⟩, hdesc⟩, hnd⟩, hpw⟩ := hv'
    obtain ⟨e, he, _⟩ := FS.isDir_iff.mp hdir
    have hem := FS.find?_some he
    have hpaths := filterMap_find_paths (fs := fs) order (fun q hq => (hall q hq).2)
    have hch : EChain fs (order.filterMap fs.find? ++ [e]) := by
      apply echain_of_order hwf p hp2 e hem.1 hem.2 _ fs hwf hem.1
      · intro a ha
        obtain ⟨h1, h2⟩ := mem_filterMap_find ha
        exact ⟨(hall _ h2).1, h1⟩
      · intro x hx hxp
        have : x ∈ fs.descendants p := by unfold FS.descendants; exact List.mem_filter.mpr ⟨hx, hxp⟩
        have hc := hdesc x this
        simp only [List.contains_iff_mem] at hc
        exact List.mem_filterMap.mpr ⟨x.path, hc, hwf.find_mem hx⟩
      · rw [hpaths]; exact hpw
      · rw [hpaths]; exact hnd
    have h1 : fsAfter fs (.rmtreeOrd p order) = (removeAll fs ⟨[], 1, 1⟩ (order.filterMap fs.find? ++ [e])).1 := by
      simp [fsAfter, kernelOp, he]
    rw [h1]; exact echain_wf _ _ _ hwf hch
  | rename p q =>
    obtain ⟨e, ok⟩ := renameOK_of_valid hv
    rw [fsAfter_rename ok]; exact ok.wf hwf

/-- validity of a history on the file system alone -/
def fsValid (fs : FS) : List Op → Bool
  | [] => true
  | op :: rest => validOp fs op && fsValid (fsAfter fs op) rest

theorem allValid_eq_fsValid (s : Sys) (ops : List Op) : allValid s ops = fsValid s.fs ops := by
  induction ops generalizing s with
  | nil => rfl
  | cons op rest ih => simp only [allValid, fsValid, ih, Sys.op_fs]

/-- C01 (recursive watch): replaying the contract's created / deleted / moved events of a whole history, in
    order, on the tree as it stood at the start gives the tree that exists afterwards -/
theorem replay_run (hwf : fs.WF) (full : Bool) (ops : List Op) (hv : fsValid fs ops = true) (hroot : Op.rmdir ["W"] ∉ ops) :
    sameTree (replay (treeW fs) (contractRun fs true full ops).flatten) (treeW (fsRun fs ops)) := by
  induction ops generalizing fs with
  | nil => exact sameTree_refl _
  | cons op rest ih =>
    simp only [fsValid, Bool.and_eq_true] at hv
    have hne : op ≠ .rmdir ["W"] := fun h => hroot (h ▸ List.mem_cons_self ..)
    have hst : (contract fs true full op).2 = false := by
      cases h : (contract fs true full op).2 with
      | false => rfl
      | true => exact absurd ((contract_stop_iff _ _ _ _).mp h) hne
    simp only [contractRun, hst, Bool.false_eq_true, if_false, List.flatten_cons, replay_append, fsRun]
    have h1 := replay_contract hwf full op hv.1
    have h2 := ih (wf_after hwf op hv.1 hne) hv.2 (fun h => hroot (List.mem_cons_of_mem _ h))
    exact sameTree_trans (sameTree_replay h1 _) h2

end WD.Pipe
