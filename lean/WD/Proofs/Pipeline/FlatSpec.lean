/- what the non-recursive contract says: only the root and its direct children are ever named -/
import WD.Proofs.Pipeline.Flat
set_option linter.unusedSimpArgs false
namespace WD.Pipe

/-- a path the non-recursive watch may name: absent, the root, or a direct child of the root -/
def shallow (p : P) : Prop := p = [] ∨ p = ["W"] ∨ (p.length = 2 ∧ parentOf p = ["W"])

theorem shallow_len {p : P} (h : shallow p) : p.length ≤ 2 := by
  rcases h with h | h | h
  · rw [h]; simp
  · rw [h]; simp
  · omega

theorem shallow_of_watched {fs : FS} {p : P} (hp : p ≠ []) (h : watchedDir fs false (parentOf p) = true) : shallow p ∧ shallow (parentOf p) := by
  rw [watchedDir_flat] at h
  simp only [Bool.and_eq_true, beq_iff_eq] at h
  have hb := snoc_parent_base hp
  refine ⟨Or.inr (Or.inr ⟨?_, h.2⟩), Or.inr (Or.inl h.2)⟩
  rw [← hb, h.2]; rfl

theorem PEv_shallow_mk (c : EvClass) (a b : P) (s : Bool) (ha : shallow a) (hb : shallow b) :
    shallow (mkEv c a b s).src ∧ shallow (mkEv c a b s).dest := ⟨ha, hb⟩

/-- every event of the non-recursive contract names the root or one of its direct children — nothing deeper -/
theorem contract_flat_shallow (fs : FS) (hwf : fs.WF) (full : Bool) (op : Op) (hv : validOp fs op = true) :
    ∀ e ∈ (contract fs false full op).1, shallow e.src ∧ shallow e.dest := by
  have hnil : shallow ([] : P) := Or.inl rfl
  have hW : shallow (["W"] : P) := Or.inr (Or.inl rfl)
  have hev : ∀ (d : Bool) (p : P), p ≠ [] → watchedDir fs false (parentOf p) = true →
      ∀ e ∈ evDeleted d p, shallow e.src ∧ shallow e.dest := by
    intro d p hp hw e he
    obtain ⟨h1, h2⟩ := shallow_of_watched hp hw
    simp only [evDeleted, dirMod, List.mem_cons, List.mem_singleton, List.not_mem_nil, or_false] at he
    rcases he with rfl | rfl
    · exact ⟨h1, hnil⟩
    · exact ⟨h2, hnil⟩
  cases op with
  | create p =>
    obtain ⟨hp, _, _⟩ := validOp_create hv
    intro e he
    simp only [contract] at he
    split at he
    · rename_i hw
      obtain ⟨h1, h2⟩ := shallow_of_watched (ne_nil_of_two_le hp) hw
      simp only [dirMod, List.mem_cons, List.mem_singleton, List.not_mem_nil, or_false] at he
      rcases he with rfl | rfl | rfl | rfl | rfl <;> first | exact ⟨h1, hnil⟩ | exact ⟨h2, hnil⟩
    · simp at he
  | mkdir p =>
    obtain ⟨hp, _, _⟩ := validOp_mkdir hv
    intro e he
    simp only [contract] at he
    split at he
    · rename_i hw
      obtain ⟨h1, h2⟩ := shallow_of_watched (ne_nil_of_two_le hp) hw
      simp only [dirMod, List.mem_cons, List.mem_singleton, List.not_mem_nil, or_false] at he
      rcases he with rfl | rfl <;> first | exact ⟨h1, hnil⟩ | exact ⟨h2, hnil⟩
    · simp at he
  | write p =>
    have hv' : fs.isFile p = true := by simpa [validOp] using hv
    obtain ⟨f, hf, _⟩ := FS.isFile_iff.mp hv'
    have hfm := FS.find?_some hf
    have hpn : p ≠ [] := hfm.2 ▸ hwf.path_ne_nil hfm.1
    intro e he
    simp only [contract] at he
    split at he
    · rename_i hw
      obtain ⟨h1, h2⟩ := shallow_of_watched hpn hw
      simp only [dirMod, List.mem_cons, List.mem_singleton, List.not_mem_nil, or_false] at he
      rcases he with rfl | rfl | rfl | rfl <;> first | exact ⟨h1, hnil⟩ | exact ⟨h2, hnil⟩
    · simp at he
  | chmod p =>
    have hv' : 2 ≤ p.length ∧ fs.exists p = true := by simpa [validOp] using hv
    obtain ⟨x, hx⟩ := FS.exists_iff.mp hv'.2
    have hnW : p ≠ ["W"] := by intro h; subst h; have := hv'.1; simp at this
    have hb : (p == ["W"]) = false := by simp [hnW]
    intro e he
    simp only [contract, hx, watchedDir_flat fs p, hb, Bool.and_false, Bool.false_eq_true, if_false, List.nil_append] at he
    split at he
    · rename_i hw
      obtain ⟨h1, _⟩ := shallow_of_watched (ne_nil_of_two_le hv'.1) hw
      simp only [List.mem_singleton] at he
      subst he; exact ⟨h1, hnil⟩
    · simp at he
  | unlink p =>
    have hv' : fs.isFile p = true := by simpa [validOp] using hv
    obtain ⟨f, hf, _⟩ := FS.isFile_iff.mp hv'
    have hfm := FS.find?_some hf
    have hpn : p ≠ [] := hfm.2 ▸ hwf.path_ne_nil hfm.1
    intro e he
    simp only [contract] at he
    split at he
    · rename_i hw
      simp only [Bool.and_eq_true] at hw
      exact hev false p hpn hw.1 e he
    · simp at he
  | rmdir p =>
    intro e he
    simp only [contract] at he
    split at he
    · rename_i hw
      simp only [beq_iff_eq] at hw
      simp only [List.mem_singleton] at he
      subst he; subst hw; exact ⟨hW, hnil⟩
    · split at he
      · rename_i _ hw
        simp only [Bool.and_eq_true] at hw
        obtain ⟨x, hx⟩ := FS.exists_iff.mp hw.2
        have hxm := FS.find?_some hx
        exact hev true p (hxm.2 ▸ hwf.path_ne_nil hxm.1) hw.1 e he
      · simp at he
  | rmtree p =>
    intro e he
    simp only [contract, contractRemovals, List.mem_flatMap] at he
    obtain ⟨x, hx, hex⟩ := he
    split at hex
    · rename_i hw
      have hxm : x ∈ fs.ents := by
        rcases List.mem_append.mp hx with h | h
        · exact (mem_filterMap_find h).1
        · simp only [Option.mem_toList] at h; exact (FS.find?_some h).1
      exact hev x.isDir x.path (hwf.path_ne_nil hxm) hw e hex
    · simp at hex
  | rmtreeOrd p order =>
    intro e he
    simp only [contract, contractRemovals, List.mem_flatMap] at he
    obtain ⟨x, hx, hex⟩ := he
    split at hex
    · rename_i hw
      have hxm : x ∈ fs.ents := by
        rcases List.mem_append.mp hx with h | h
        · exact (mem_filterMap_find h).1
        · simp only [Option.mem_toList] at h; exact (FS.find?_some h).1
      exact hev x.isDir x.path (hwf.path_ne_nil hxm) hw e hex
    · simp at hex
  | rename p q =>
    obtain ⟨x, ok⟩ := renameOK_of_valid hv
    have hpn := ne_nil_of_two_le ok.hp2
    have hqn := ne_nil_of_two_le ok.hq2
    intro e he
    rw [contract_rename_flat fs full p q x ok] at he
    split at he
    · rename_i hw
      simp only [Bool.and_eq_true] at hw
      obtain ⟨h1, h2⟩ := shallow_of_watched hpn hw.1
      obtain ⟨h3, h4⟩ := shallow_of_watched hqn hw.2
      simp only [dirMod, List.mem_cons, List.mem_singleton, List.not_mem_nil, or_false] at he
      rcases he with rfl | rfl | rfl
      · exact ⟨h1, h3⟩
      · exact ⟨h2, hnil⟩
      · exact ⟨h4, hnil⟩
    · split at he
      · rename_i _ hw
        obtain ⟨h1, h2⟩ := shallow_of_watched hpn hw
        cases full
        · exact hev x.isDir p hpn hw e he
        · simp only [if_true, dirMod, List.mem_cons, List.mem_singleton, List.not_mem_nil, or_false] at he
          rcases he with rfl | rfl
          · exact ⟨h1, hnil⟩
          · exact ⟨h2, hnil⟩
      · split at he
        · rename_i _ _ hw
          obtain ⟨h3, h4⟩ := shallow_of_watched hqn hw
          cases full <;> simp only [Bool.false_eq_true, if_false, if_true, dirMod, List.mem_append, List.mem_cons, List.mem_singleton,
            List.not_mem_nil, or_false] at he
          · rcases he with rfl | rfl
            · exact ⟨h3, hnil⟩
            · exact ⟨h4, hnil⟩
          · rcases he with rfl | rfl
            · exact ⟨hnil, h3⟩
            · exact ⟨h4, hnil⟩
        · simp at he

end WD.Pipe

namespace WD.Pipe

theorem contractRun_flat_shallow (fs : FS) (hwf : fs.WF) (full : Bool) (ops : List Op) (hv : fsValid fs ops = true) :
    ∀ evs ∈ contractRun fs false full ops, ∀ e ∈ evs, shallow e.src ∧ shallow e.dest := by
  induction ops generalizing fs with
  | nil => intro evs h; simp [contractRun] at h
  | cons op rest ih =>
    simp only [fsValid, Bool.and_eq_true] at hv
    intro evs hevs
    simp only [contractRun] at hevs
    cases hst : (contract fs false full op).2 with
    | true =>
      simp only [hst, if_true, List.mem_cons, List.mem_map] at hevs
      rcases hevs with rfl | ⟨_, _, rfl⟩
      · exact contract_flat_shallow fs hwf full op hv.1
      · intro e he; simp at he
    | false =>
      simp only [hst, Bool.false_eq_true, if_false, List.mem_cons] at hevs
      have hne : op ≠ .rmdir ["W"] := by
        intro h; have := (contract_stop_iff fs false full op).mpr h; rw [hst] at this; cases this
      rcases hevs with rfl | h
      · exact contract_flat_shallow fs hwf full op hv.1
      · exact ih _ (wf_after hwf op hv.1 hne) hv.2 evs h

end WD.Pipe
