/- the filtered pipeline under a NON-recursive watch: the mask may also leave out CREATE / MOVED_FROM / MOVED_TO (both
   halves or neither); the library's state then differs from the unfiltered one's in the remembered MOVED_FROMs only,
   which a non-recursive watch never uses -/
import WD.Proofs.Pipeline.Filter
import WD.Proofs.Pipeline.Flat
set_option linter.unusedSimpArgs false
namespace WD.Pipe

/-- the maps of a non-recursive watch: their only key / value is the root (or they are empty: root gone) -/
structure FlatMaps (lib : Lib) : Prop where
  notRec : lib.recursive = false
  keys : ∀ x ∈ lib.wdForPath, x.1 = ["W"]
  vals : ∀ x ∈ lib.pathForWd, x.2 = ["W"]
  srcs : ∀ x ∈ lib.movedFrom, x.2 ≠ ["W"]

/-- same maps; the second library remembers fewer MOVED_FROMs -/
structure Sim (a b : Lib) : Prop where
  r : b.recursive = a.recursive
  wfp : b.wdForPath = a.wdForPath
  pfw : b.pathForWd = a.pathForWd
  sub : ∀ x ∈ b.movedFrom, x ∈ a.movedFrom

theorem Sim.flat {a b : Lib} (h : Sim a b) (fa : FlatMaps a) : FlatMaps b :=
  ⟨by rw [h.r]; exact fa.notRec, by rw [h.wfp]; exact fa.keys, by rw [h.pfw]; exact fa.vals,
   fun x hx => fa.srcs x (h.sub x hx)⟩

theorem lookupW_val {l : List (Nat × P)} {w : Nat} {p : P} (h : lookupW l w = some p) : (w, p) ∈ l := by
  unfold lookupW at h
  cases hf : l.find? (fun x => x.1 == w) with
  | none => simp [hf] at h
  | some x =>
    simp [hf] at h; subst h
    have hm := List.mem_of_find?_eq_some hf
    have hp := List.find?_some hf
    simp at hp; subst hp; exact hm

theorem lookupP_key {l : List (P × Nat)} {p : P} {w : Nat} (h : lookupP l p = some w) : (p, w) ∈ l := by
  unfold lookupP at h
  cases hf : l.find? (fun x => x.1 == p) with
  | none => simp [hf] at h
  | some x =>
    simp [hf] at h; subst h
    have hm := List.mem_of_find?_eq_some hf
    have hp := List.find?_some hf
    simp at hp; subst hp; exact hm

theorem FlatMaps.lookupP_none {lib : Lib} (f : FlatMaps lib) {p : P} (hp : p ≠ ["W"]) : lookupP lib.wdForPath p = none := by
  cases h : lookupP lib.wdForPath p with
  | none => rfl
  | some w => exact absurd (f.keys _ (lookupP_key h)) (by simpa using hp)

/-- MOVED_FROM records carry a name (the kernel reports moves on the parent's watch) -/
def named (r : NRec) : Prop := r.flag = .movedFrom → r.name.isSome = true

theorem libRecord_to_flat' (fs : FS) (k : Kern) (lib : Lib) (r : NRec) (f : FlatMaps lib) (hf : r.flag = .movedTo)
    (hw : lookupW lib.pathForWd r.wd = some ["W"]) :
    libRecord fs k lib r = some (k, lib, [r.toLEv ["W"]]) := by
  obtain ⟨wd, flag, isDir, cookie, name⟩ := r
  simp only at hf hw; subst hf
  simp only [libRecord, hw, f.notRec, Bool.false_and, Bool.false_eq_true, if_false, NRec.toLEv, NRec.src]
  cases hfd : lib.movedFrom.find? (fun x => x.1 == cookie) with
  | none => cases name <;> simp
  | some x =>
    have := f.lookupP_none (f.srcs x (List.mem_of_find?_eq_some hfd))
    cases name <;> simp [this]

theorem libRecord_from_flat (fs : FS) (k : Kern) (lib : Lib) (r : NRec) (hf : r.flag = .movedFrom) (wp : P)
    (hw : lookupW lib.pathForWd r.wd = some wp) :
    libRecord fs k lib r = some (k, { lib with movedFrom := (r.cookie, r.src wp) :: lib.movedFrom }, [r.toLEv wp]) := by
  obtain ⟨wd, flag, isDir, cookie, name⟩ := r
  simp only at hf hw; subst hf
  cases name <;> simp [libRecord, hw, NRec.toLEv, NRec.src]

theorem libRecord_ignored_flat (fs : FS) (k : Kern) (lib : Lib) (r : NRec) (hf : r.flag = .ignored) (wp : P)
    (hw : lookupW lib.pathForWd r.wd = some wp) :
    libRecord fs k lib r = some (k, { lib with
        wdForPath := (if lookupP lib.wdForPath wp == some r.wd then lib.wdForPath.filter (fun x => x.1 != wp) else lib.wdForPath),
        pathForWd := lib.pathForWd.filter (fun x => x.1 != r.wd) }, [r.toLEv wp]) := by
  obtain ⟨wd, flag, isDir, cookie, name⟩ := r
  simp only at hf hw; subst hf
  cases name <;> simp [libRecord, hw, NRec.toLEv, NRec.src]

/-- one record: the result does not depend on the remembered MOVED_FROMs -/
theorem libRecord_sim {fs : FS} {k : Kern} {a b : Lib} {r : NRec} (fa : FlatMaps a) (hs : Sim a b) (hn : named r)
    {k1 : Kern} {a1 : Lib} {ev : List LEv} (h : libRecord fs k a r = some (k1, a1, ev)) :
    ∃ b1, libRecord fs k b r = some (k1, b1, ev) ∧ Sim a1 b1 ∧ FlatMaps a1 := by
  have fb := hs.flat fa
  cases hw : lookupW a.pathForWd r.wd with
  | none => simp [libRecord, hw] at h
  | some wdPath =>
    have hW : wdPath = ["W"] := fa.vals _ (lookupW_val hw)
    subst hW
    have hwb : lookupW b.pathForWd r.wd = some ["W"] := by rw [hs.pfw]; exact hw
    by_cases hsim : simpleFlag false r.flag r.isDir = true
    · rw [libRecord_simple fs k a r ["W"] (by rw [fa.notRec]; exact hsim) hw] at h
      simp only [Option.some.injEq, Prod.mk.injEq] at h
      obtain ⟨rfl, rfl, rfl⟩ := h
      exact ⟨b, libRecord_simple fs k b r ["W"] (by rw [fb.notRec]; exact hsim) hwb, hs, fa⟩
    · have hflag : r.flag = .movedFrom ∨ r.flag = .movedTo ∨ r.flag = .ignored := by
        cases hf : r.flag <;> simp [simpleFlag, hf] at hsim <;> simp
      rcases hflag with hf | hf | hf
      · rw [libRecord_from_flat fs k a r hf ["W"] hw] at h
        simp only [Option.some.injEq, Prod.mk.injEq] at h
        obtain ⟨rfl, rfl, rfl⟩ := h
        have hsrc : r.src ["W"] ≠ ["W"] := by
          have := hn hf
          cases hnm : r.name with
          | none => rw [hnm] at this; cases this
          | some n => simp [NRec.src, hnm]
        refine ⟨_, libRecord_from_flat fs k b r hf ["W"] hwb, ⟨hs.r, hs.wfp, hs.pfw, ?_⟩, ⟨fa.notRec, fa.keys, fa.vals, ?_⟩⟩
        · intro x hx; simp at hx ⊢; rcases hx with rfl | hx
          · left; rfl
          · right; exact hs.sub x hx
        · intro x hx; simp at hx; rcases hx with rfl | hx
          · exact hsrc
          · exact fa.srcs x hx
      · rw [libRecord_to_flat' fs k a r fa hf hw] at h
        simp only [Option.some.injEq, Prod.mk.injEq] at h
        obtain ⟨rfl, rfl, rfl⟩ := h
        exact ⟨b, libRecord_to_flat' fs k b r fb hf hwb, hs, fa⟩
      · rw [libRecord_ignored_flat fs k a r hf ["W"] hw] at h
        simp only [Option.some.injEq, Prod.mk.injEq] at h
        obtain ⟨rfl, rfl, rfl⟩ := h
        refine ⟨_, libRecord_ignored_flat fs k b r hf ["W"] hwb, ⟨hs.r, ?_, ?_, hs.sub⟩, ⟨fa.notRec, ?_, ?_, fa.srcs⟩⟩
        · simp only [hs.wfp]
        · simp only [hs.pfw]
        · intro x hx
          simp only at hx
          split at hx
          · exact fa.keys x (List.mem_filter.1 hx).1
          · exact fa.keys x hx
        · intro x hx; exact fa.vals x (List.mem_filter.1 hx).1

/-- the shape of one record's processing under a non-recursive watch -/
theorem libRecord_flat_shape {fs : FS} {k : Kern} {a : Lib} {r : NRec} (fa : FlatMaps a) (hn : named r)
    {k1 : Kern} {a1 : Lib} {ev : List LEv} (h : libRecord fs k a r = some (k1, a1, ev)) :
    k1 = k ∧ ev = [r.toLEv ["W"]] ∧ FlatMaps a1 ∧
    (r.flag ≠ .ignored → a1.recursive = a.recursive ∧ a1.wdForPath = a.wdForPath ∧ a1.pathForWd = a.pathForWd ∧
      ∀ x ∈ a.movedFrom, x ∈ a1.movedFrom) := by
  cases hw : lookupW a.pathForWd r.wd with
  | none => simp [libRecord, hw] at h
  | some wdPath =>
    have hW : wdPath = ["W"] := fa.vals _ (lookupW_val hw)
    subst hW
    by_cases hsim : simpleFlag false r.flag r.isDir = true
    · rw [libRecord_simple fs k a r ["W"] (by rw [fa.notRec]; exact hsim) hw] at h
      simp only [Option.some.injEq, Prod.mk.injEq] at h
      obtain ⟨rfl, rfl, rfl⟩ := h
      exact ⟨rfl, rfl, fa, fun _ => ⟨rfl, rfl, rfl, fun _ hx => hx⟩⟩
    · have hflag : r.flag = .movedFrom ∨ r.flag = .movedTo ∨ r.flag = .ignored := by
        cases hf : r.flag <;> simp [simpleFlag, hf] at hsim <;> simp
      rcases hflag with hf | hf | hf
      · rw [libRecord_from_flat fs k a r hf ["W"] hw] at h
        simp only [Option.some.injEq, Prod.mk.injEq] at h
        obtain ⟨rfl, rfl, rfl⟩ := h
        have hsrc : r.src ["W"] ≠ ["W"] := by
          have := hn hf
          cases hnm : r.name with
          | none => rw [hnm] at this; cases this
          | some n => simp [NRec.src, hnm]
        refine ⟨rfl, rfl, ⟨fa.notRec, fa.keys, fa.vals, ?_⟩, fun _ => ⟨rfl, rfl, rfl, fun x hx => by simp [hx]⟩⟩
        intro x hx; simp at hx; rcases hx with rfl | hx
        · exact hsrc
        · exact fa.srcs x hx
      · rw [libRecord_to_flat' fs k a r fa hf hw] at h
        simp only [Option.some.injEq, Prod.mk.injEq] at h
        obtain ⟨rfl, rfl, rfl⟩ := h
        exact ⟨rfl, rfl, fa, fun _ => ⟨rfl, rfl, rfl, fun _ hx => hx⟩⟩
      · rw [libRecord_ignored_flat fs k a r hf ["W"] hw] at h
        simp only [Option.some.injEq, Prod.mk.injEq] at h
        obtain ⟨rfl, rfl, rfl⟩ := h
        refine ⟨rfl, rfl, ⟨fa.notRec, ?_, ?_, fa.srcs⟩, fun hne => absurd hf hne⟩
        · intro x hx
          simp only at hx
          split at hx
          · exact fa.keys x (List.mem_filter.1 hx).1
          · exact fa.keys x hx
        · intro x hx; exact fa.vals x (List.mem_filter.1 hx).1

/-- a whole batch: the masked reader ends with the same kernel state, the same maps, and the kept library events -/
theorem libBatch_mask_flat (m : Flag → Bool) (fs : FS) (recs : List NRec) :
    ∀ (k : Kern) (a b : Lib), FlatMaps a → Sim a b → (∀ r ∈ recs, named r) →
      ∀ (k' : Kern) (a' : Lib) (levs : List LEv), libBatch fs k a recs = some (k', a', levs) →
      ∃ b', libBatch fs k b (maskRecs m recs) = some (k', b', levs.filter (keepL m)) ∧ Sim a' b' ∧ FlatMaps a' := by
  induction recs with
  | nil =>
    intro k a b fa hs _ k' a' levs h
    simp only [libBatch] at h; cases h
    exact ⟨b, rfl, hs, fa⟩
  | cons r rest ih =>
    intro k a b fa hs hn k' a' levs h
    have hnr := hn r (List.mem_cons_self ..)
    have hnrest : ∀ x ∈ rest, named x := fun x hx => hn x (List.mem_cons_of_mem _ hx)
    simp only [libBatch] at h
    cases h1 : libRecord fs k a r with
    | none => simp [h1] at h
    | some x =>
      obtain ⟨k1, a1, evs⟩ := x
      simp only [h1] at h
      cases h2 : libBatch fs k1 a1 rest with
      | none => simp [h2] at h
      | some y =>
        obtain ⟨k2, a2, more⟩ := y
        simp only [h2, Option.some.injEq, Prod.mk.injEq] at h
        obtain ⟨rfl, rfl, rfl⟩ := h
        obtain ⟨hk1, hev, fa1, hkeepmaps⟩ := libRecord_flat_shape fa hnr h1
        subst hk1
        by_cases hr : (r.flag == .ignored || m r.flag) = true
        · -- kept: both readers process it
          obtain ⟨b1, hb1, hs1, _⟩ := libRecord_sim fa hs hnr h1
          obtain ⟨b', hb', hs', fa'⟩ := ih k1 a1 b1 fa1 hs1 hnrest k2 a2 more h2
          refine ⟨b', ?_, hs', fa'⟩
          have : maskRecs m (r :: rest) = r :: maskRecs m rest := by simp [maskRecs, hr]
          rw [this]
          simp only [libBatch, hb1, hb', List.filter_append]
          have : evs.filter (keepL m) = evs := by
            rw [hev]; simp [keepL, NRec.toLEv]; simpa using hr
          rw [this]
        · -- dropped: the unmasked reader at most remembers one more MOVED_FROM
          have hr' : (r.flag == .ignored || m r.flag) = false := by simpa using hr
          have hni : r.flag ≠ .ignored := by
            intro e; simp [e] at hr'
          obtain ⟨e1, e2, e3, e4⟩ := hkeepmaps hni
          have hs1 : Sim a1 b := ⟨by rw [e1]; exact hs.r, by rw [e2]; exact hs.wfp, by rw [e3]; exact hs.pfw,
            fun x hx => e4 x (hs.sub x hx)⟩
          obtain ⟨b', hb', hs', fa'⟩ := ih k1 a1 b fa1 hs1 hnrest k2 a2 more h2
          refine ⟨b', ?_, hs', fa'⟩
          have : maskRecs m (r :: rest) = maskRecs m rest := by simp [maskRecs, hr']
          rw [this, hb', List.filter_append]
          have : evs.filter (keepL m) = [] := by
            rw [hev]; simp [keepL, NRec.toLEv]; simpa using hr'
          rw [this]; rfl

/-! ### the kernel's MOVED_FROM records carry a name -/

theorem onEntry_named (k : Kern) (d : Option Nat) (f : Flag) (b : Bool) (c : Nat) (n : String) :
    ∀ r ∈ k.onEntry d f b c n, r.name.isSome = true := by
  intro r hr
  unfold Kern.onEntry at hr
  split at hr
  · simp at hr
  · split at hr
    · simp at hr; subst hr; rfl
    · simp at hr

theorem onSelf_flag (k : Kern) (ino : Nat) (f : Flag) (b : Bool) : ∀ r ∈ k.onSelf ino f b, r.flag = f := by
  intro r hr
  unfold Kern.onSelf at hr
  split at hr
  · simp at hr; subst hr; rfl
  · simp at hr

theorem removeEntry_named (fs : FS) (k : Kern) (e : Ent) : ∀ r ∈ (removeEntry fs k e).2.2, named r := by
  intro r hr
  unfold removeEntry at hr
  simp only at hr
  rcases List.mem_append.1 hr with h | h
  · split at h
    · rcases List.mem_append.1 h with h | h
      · intro hf; rw [onSelf_flag _ _ _ _ r h] at hf; cases hf
      · intro hf; rw [onSelf_flag _ _ _ _ r h] at hf; cases hf
    · simp at h
  · intro _; exact onEntry_named _ _ _ _ _ _ r h

theorem removeAll_named (es : List Ent) : ∀ (fs : FS) (k : Kern) (acc : List NRec), (∀ r ∈ acc, named r) →
    ∀ r ∈ (es.foldl (fun (acc : FS × Kern × List NRec) x =>
      let (fs1, k1, r) := removeEntry acc.1 acc.2.1 x
      (fs1, k1, acc.2.2 ++ r)) (fs, k, acc)).2.2, named r := by
  induction es with
  | nil => intro fs k acc h r hr; exact h r hr
  | cons e rest ih =>
    intro fs k acc h
    simp only [List.foldl_cons]
    apply ih
    intro r hr
    rcases List.mem_append.1 hr with h1 | h1
    · exact h r h1
    · exact removeEntry_named fs k e r h1

theorem kernelOp_named (fs : FS) (k : Kern) (op : Op) : ∀ r ∈ (kernelOp fs k op).2.2, named r := by
  intro r hr
  cases op with
  | create p =>
    simp only [kernelOp] at hr
    intro _
    rcases List.mem_append.1 hr with h | h
    · rcases List.mem_append.1 h with h | h <;> exact onEntry_named _ _ _ _ _ _ r h
    · exact onEntry_named _ _ _ _ _ _ r h
  | write p =>
    simp only [kernelOp] at hr
    intro _
    rcases List.mem_append.1 hr with h | h
    · rcases List.mem_append.1 h with h | h <;> exact onEntry_named _ _ _ _ _ _ r h
    · exact onEntry_named _ _ _ _ _ _ r h
  | chmod p =>
    simp only [kernelOp] at hr
    split at hr
    · rcases List.mem_append.1 hr with h | h
      · split at h
        · intro hf; rw [onSelf_flag _ _ _ _ r h] at hf; cases hf
        · simp at h
      · intro _; exact onEntry_named _ _ _ _ _ _ r h
    · simp at hr
  | unlink p =>
    simp only [kernelOp] at hr
    split at hr
    · exact removeEntry_named _ _ _ r hr
    · simp at hr
  | mkdir p =>
    simp only [kernelOp] at hr
    intro _; exact onEntry_named _ _ _ _ _ _ r hr
  | rmdir p =>
    simp only [kernelOp] at hr
    split at hr
    · exact removeEntry_named _ _ _ r hr
    · simp at hr
  | rmtree p =>
    simp only [kernelOp] at hr
    split at hr
    · exact removeAll_named _ fs k [] (by simp) r hr
    · simp at hr
  | rmtreeOrd p order =>
    simp only [kernelOp] at hr
    split at hr
    · exact removeAll_named _ fs k [] (by simp) r hr
    · simp at hr
  | rename p q =>
    simp only [kernelOp] at hr
    split at hr
    · next e he =>
      simp only at hr
      split at hr
      · next old hq =>
        simp only at hr
        rcases List.mem_append.1 hr with h | h
        · rcases List.mem_append.1 h with h | h
          · intro _; exact onEntry_named _ _ _ _ _ _ r h
          · intro _; exact onEntry_named _ _ _ _ _ _ r h
        · split at h
          · rcases List.mem_append.1 h with h | h
            · rcases List.mem_append.1 h with h | h
              · intro hf; rw [onSelf_flag _ _ _ _ r h] at hf; cases hf
              · intro hf; rw [onSelf_flag _ _ _ _ r h] at hf; cases hf
            · intro hf; rw [onSelf_flag _ _ _ _ r h] at hf; cases hf
          · simp at h
      · simp only at hr
        rcases List.mem_append.1 hr with h | h
        · rcases List.mem_append.1 h with h | h
          · intro _; exact onEntry_named _ _ _ _ _ _ r h
          · intro _; exact onEntry_named _ _ _ _ _ _ r h
        · simp at h
    · simp at hr

/-! ### grouping when both halves of a move are kept or dropped together -/

def keepG' (m : Flag → Bool) : Grouped → Bool
  | .one e => keepL m e
  | .two f _ => keepL m f

theorem pairIn_filter' {m : Flag → Bool} (hfrom : m .movedFrom = true) (t : LEv) :
    ∀ acc : List Grouped, pairIn t (acc.filter (keepG' m)) = (pairIn t acc).map (fun l => l.filter (keepG' m)) := by
  intro acc
  induction acc with
  | nil => rfl
  | cons g rest ih =>
    cases g with
    | one r =>
      by_cases hk : keepL m r = true
      · have : (Grouped.one r :: rest).filter (keepG' m) = .one r :: rest.filter (keepG' m) := by simp [keepG', hk]
        rw [this]
        simp only [pairIn]
        split
        · simp [List.filter, keepG', hk]
        · rw [ih]; cases pairIn t rest <;> simp [keepG', hk]
      · have hk' : keepL m r = false := by simpa using hk
        have : (Grouped.one r :: rest).filter (keepG' m) = rest.filter (keepG' m) := by simp [keepG', hk']
        rw [this, ih]
        simp only [pairIn]
        have hnf : (r.flag == Flag.movedFrom && r.cookie == t.cookie) = false := by
          cases hf : r.flag <;> simp
          simp [keepL, hf, hfrom] at hk'
        simp only [hnf, Bool.false_eq_true, if_false]
        cases pairIn t rest <;> simp [keepG', hk']
    | two f t' =>
      simp only [pairIn]
      by_cases hk : keepL m f = true
      · have : (Grouped.two f t' :: rest).filter (keepG' m) = .two f t' :: rest.filter (keepG' m) := by simp [keepG', hk]
        rw [this]
        simp only [pairIn]
        rw [ih]
        cases pairIn t rest with
        | none => rfl
        | some l => simp [List.filter, keepG', hk]
      · have hk' : keepL m f = false := by simpa using hk
        have : (Grouped.two f t' :: rest).filter (keepG' m) = rest.filter (keepG' m) := by simp [keepG', hk']
        rw [this, ih]
        cases pairIn t rest with
        | none => rfl
        | some l => simp [List.filter, keepG', hk']

theorem pairIn_dropped {m : Flag → Bool} (hfrom : m .movedFrom = false) (t : LEv) :
    ∀ (acc g : List Grouped), pairIn t acc = some g → g.filter (keepG' m) = acc.filter (keepG' m) := by
  intro acc
  induction acc with
  | nil => intro g h; simp [pairIn] at h
  | cons x rest ih =>
    intro g h
    cases x with
    | one r =>
      simp only [pairIn] at h
      split at h
      · next hm =>
        cases h
        have hrf : r.flag = .movedFrom := by
          simp only [Bool.and_eq_true, beq_iff_eq] at hm; exact hm.1
        have hk : keepL m r = false := by simp [keepL, hrf, hfrom]
        simp [List.filter, keepG', hk]
      · cases hp : pairIn t rest with
        | none => simp [hp] at h
        | some g' =>
          simp [hp] at h; subst h
          have := ih g' hp
          by_cases hk : keepL m r = true
          · simp [List.filter, keepG', hk, this]
          · have hk' : keepL m r = false := by simpa using hk
            simp [List.filter, keepG', hk', this]
    | two f t' =>
      simp only [pairIn] at h
      cases hp : pairIn t rest with
      | none => simp [hp] at h
      | some g' =>
        simp [hp] at h; subst h
        have := ih g' hp
        by_cases hk : keepL m f = true
        · simp [List.filter, keepG', hk, this]
        · have hk' : keepL m f = false := by simpa using hk
          simp [List.filter, keepG', hk', this]

theorem groupStep_filter' {m : Flag → Bool} (hcl : m .movedFrom = m .movedTo) (acc : List Grouped) (e : LEv) :
    (if keepL m e then groupStep (acc.filter (keepG' m)) e else acc.filter (keepG' m)) =
      (groupStep acc e).filter (keepG' m) := by
  by_cases hk : keepL m e = true
  · simp only [hk, if_true, groupStep]
    split
    · next hto =>
      have hfrom : m .movedFrom = true := by
        have hto' : e.flag = .movedTo := by simpa using hto
        simp [keepL, hto'] at hk; rw [hcl]; exact hk
      rw [pairIn_filter' hfrom]
      cases pairIn e acc with
      | none => simp [keepG', hk]
      | some g => simp
    · simp [keepG', hk]
  · have hk' : keepL m e = false := by simpa using hk
    simp only [hk', Bool.false_eq_true, if_false, groupStep]
    split
    · next hto =>
      have hto' : e.flag = .movedTo := by simpa using hto
      have hfrom : m .movedFrom = false := by
        simp [keepL, hto'] at hk'; rw [hcl]; exact hk'
      cases hp : pairIn e acc with
      | none => simp [keepG', hk']
      | some g => simp only; exact (pairIn_dropped hfrom e acc g hp).symm
    · simp [keepG', hk']

theorem group_filter' {m : Flag → Bool} (hcl : m .movedFrom = m .movedTo) (levs : List LEv) :
    group (levs.filter (keepL m)) = (group levs).filter (keepG' m) := by
  rw [group_eq_foldl, group_eq_foldl]
  have : ∀ acc : List Grouped,
      (levs.filter (keepL m)).foldl groupStep (acc.filter (keepG' m)) = (levs.foldl groupStep acc).filter (keepG' m) := by
    induction levs with
    | nil => intro acc; rfl
    | cons e rest ih =>
      intro acc
      simp only [List.foldl_cons]
      rw [← ih (groupStep acc e), ← groupStep_filter' hcl]
      by_cases hk : keepL m e = true
      · simp [List.filter, hk]
      · have hk' : keepL m e = false := by simpa using hk
        simp [List.filter, hk']
  simpa using this []

theorem gsOf_filter' {m : Flag → Bool} (hcl : m .movedFrom = m .movedTo) (levs : List LEv) :
    gsOf (levs.filter (keepL m)) = (gsOf levs).filter (keepG' m) := by
  unfold gsOf
  rw [group_filter' hcl, List.filter_filter, List.filter_filter]
  congr 1; funext g; exact Bool.and_comm _ _

/-! ### the emitter -/

theorem two_in_groupStep (acc : List Grouped) (e : LEv) (h : ∀ f t, Grouped.two f t ∈ acc → f.flag = .movedFrom) :
    ∀ f t, Grouped.two f t ∈ groupStep acc e → f.flag = .movedFrom := by
  have pin : ∀ (acc g : List Grouped), (∀ f t, Grouped.two f t ∈ acc → f.flag = .movedFrom) → pairIn e acc = some g →
      ∀ f t, Grouped.two f t ∈ g → f.flag = .movedFrom := by
    intro acc
    induction acc with
    | nil => intro g _ hg; simp [pairIn] at hg
    | cons x xs ih =>
      intro g hacc hg f t hm
      have hxs : ∀ f t, Grouped.two f t ∈ xs → f.flag = .movedFrom := fun f t h => hacc f t (List.mem_cons_of_mem _ h)
      cases x with
      | one y =>
        simp only [pairIn] at hg
        split at hg
        · next hmatch =>
          cases hg
          simp at hm
          rcases hm with ⟨rfl, _⟩ | hm
          · simp only [Bool.and_eq_true, beq_iff_eq] at hmatch; exact hmatch.1
          · exact hxs f t hm
        · cases hp : pairIn e xs with
          | none => simp [hp] at hg
          | some g' =>
            simp [hp] at hg; subst hg
            simp at hm
            exact ih g' hxs hp f t hm
      | two f' t' =>
        simp only [pairIn] at hg
        cases hp : pairIn e xs with
        | none => simp [hp] at hg
        | some g' =>
          simp [hp] at hg; subst hg
          simp at hm
          rcases hm with ⟨rfl, rfl⟩ | hm
          · exact hacc _ _ (List.mem_cons_self ..)
          · exact ih g' hxs hp f t hm
  intro f t hm
  unfold groupStep at hm
  split at hm
  · split at hm
    · next g hg => exact pin acc g h hg f t hm
    · simp at hm; exact h f t hm
  · simp at hm; exact h f t hm

theorem two_in_group (l : List LEv) : ∀ f t, Grouped.two f t ∈ group l → f.flag = .movedFrom := by
  rw [group_eq_foldl]
  have : ∀ (acc : List Grouped), (∀ f t, Grouped.two f t ∈ acc → f.flag = .movedFrom) →
      ∀ f t, Grouped.two f t ∈ l.foldl groupStep acc → f.flag = .movedFrom := by
    induction l with
    | nil => intro acc h; exact h
    | cons e rest ih => intro acc h; simp only [List.foldl_cons]; exact ih _ (two_in_groupStep acc e h)
  exact this [] (by simp)

/-- what is left out by the mask only ever yields rejected events (non-recursive emitter) -/
structure CompleteF (m : Flag → Bool) (acc : EvClass → Bool) : Prop where
  one : ∀ (fs : FS) (full : Bool) (e : LEv), m e.flag = false → e.flag ≠ .ignored →
    (∀ ev ∈ (emit fs false full (.one e)).1, acc ev.cls = false) ∧ (emit fs false full (.one e)).2 = false
  two : m .movedFrom = false → ∀ (fs : FS) (full : Bool) (f t : LEv), ∀ ev ∈ (emit fs false full (.two f t)).1, acc ev.cls = false

theorem emitAll_filter' {m : Flag → Bool} {acc : EvClass → Bool} (hc : CompleteF m acc)
    (fs : FS) (full : Bool) (gs : List Grouped)
    (hnoign : ∀ g ∈ gs, Grouped.keep g = true) (htwo : ∀ f t, Grouped.two f t ∈ gs → f.flag = .movedFrom) :
    (emitAll fs false full (gs.filter (keepG' m))).2 = (emitAll fs false full gs).2 ∧
    (emitAll fs false full (gs.filter (keepG' m))).1.filter (fun e => acc e.cls) =
      (emitAll fs false full gs).1.filter (fun e => acc e.cls) := by
  unfold emitAll
  have : ∀ (a a' : List PEv × Bool), a'.2 = a.2 → a'.1.filter (fun e => acc e.cls) = a.1.filter (fun e => acc e.cls) →
      ((gs.filter (keepG' m)).foldl (emitStep fs false full) a').2 = (gs.foldl (emitStep fs false full) a).2 ∧
      ((gs.filter (keepG' m)).foldl (emitStep fs false full) a').1.filter (fun e => acc e.cls) =
        (gs.foldl (emitStep fs false full) a).1.filter (fun e => acc e.cls) := by
    induction gs with
    | nil => intro a a' h1 h2; exact ⟨h1, h2⟩
    | cons g rest ih =>
      intro a a' h1 h2
      have hrest : ∀ g ∈ rest, Grouped.keep g = true := fun g hg => hnoign g (List.mem_cons_of_mem _ hg)
      have htrest : ∀ f t, Grouped.two f t ∈ rest → f.flag = .movedFrom := fun f t h => htwo f t (List.mem_cons_of_mem _ h)
      by_cases hk : keepG' m g = true
      · simp only [List.filter, hk, List.foldl_cons]
        apply ih hrest htrest
        · simp only [emitStep, h1]; split <;> simp [*]
        · simp only [emitStep, h1]; split
          · exact h2
          · simp [List.filter_append, h2]
      · have hk' : keepG' m g = false := by simpa using hk
        simp only [List.filter, hk', List.foldl_cons]
        have hrej : (∀ ev ∈ (emit fs false full g).1, acc ev.cls = false) ∧ (emit fs false full g).2 = false := by
          cases g with
          | one e =>
            have hkeep := hnoign (.one e) (List.mem_cons_self ..)
            have hne : e.flag ≠ .ignored := by simpa [Grouped.keep] using hkeep
            have hm : m e.flag = false := by
              simp only [keepG', keepL, Bool.or_eq_false_iff] at hk'; exact hk'.2
            exact hc.one fs full e hm hne
          | two f t =>
            have hff := htwo f t (List.mem_cons_self ..)
            have hm : m .movedFrom = false := by
              simp only [keepG', keepL, hff, Bool.or_eq_false_iff] at hk'; exact hk'.2
            exact ⟨hc.two hm fs full f t, by simp [emit]⟩
        obtain ⟨c1, c2⟩ := hrej
        apply ih hrest htrest
        · simp only [emitStep]; split <;> simp [*]
        · simp only [emitStep]; split
          · exact h2
          · rw [List.filter_append, ← h2]
            have : (emit fs false full g).1.filter (fun e => acc e.cls) = [] := by
              rw [List.filter_eq_nil_iff]; intro x hx; simp [c1 x hx]
            simp [this]
  exact this ([], false) ([], false) rfl rfl

theorem two_in_gsOf (l : List LEv) : ∀ f t, Grouped.two f t ∈ gsOf l → f.flag = .movedFrom :=
  fun f t h => two_in_group l f t (List.mem_filter.1 h).1

/-! ### one drained operation, whole histories -/

structure SimS (s sM : Sys) : Prop where
  fs : sM.fs = s.fs
  k : sM.k = s.k
  full : sM.full = s.full
  stopped : sM.stopped = s.stopped
  crashed : sM.crashed = s.crashed
  lib : Sim s.lib sM.lib

theorem opF_flat {m : Flag → Bool} {acc : EvClass → Bool} (hcl : m .movedFrom = m .movedTo) (hc : CompleteF m acc)
    (s sM : Sys) (op : Op) (hsim : SimS s sM) (hflat : s.stopped = false → FlatMaps s.lib)
    (hnc : (s.op op).1.crashed = false) :
    SimS (s.op op).1 (sM.opF m acc op).1 ∧ (sM.opF m acc op).2 = (s.op op).2.filter (fun e => acc e.cls) ∧
    ((s.op op).1.stopped = false → FlatMaps (s.op op).1.lib) := by
  obtain ⟨hfs, hk, hfull, hst, hcr, hlib⟩ := hsim
  unfold Sys.opF Sys.op at *
  rw [hfs, hk, hst, hcr, hfull]
  rcases hker : kernelOp s.fs s.k op with ⟨fs1, k1, recs⟩
  have hnamed : ∀ r ∈ recs, named r := by
    intro r hr
    have := kernelOp_named s.fs s.k op r (by rw [hker]; exact hr)
    exact this
  simp only [hker] at hnc ⊢
  split
  · next hsc =>
    refine ⟨⟨rfl, rfl, rfl, rfl, rfl, hlib⟩, by simp, ?_⟩
    intro hns
    simp only at hns
    exact hflat hns
  · next hsc =>
    simp only [hsc] at hnc
    have hs0 : s.stopped = false := by
      cases h : s.stopped <;> simp [h] at hsc ⊢
    cases h1 : libBatch fs1 k1 s.lib recs with
    | none => simp [h1] at hnc
    | some x =>
      obtain ⟨k2, a2, levs⟩ := x
      obtain ⟨b2, hb2, hs2, fa2⟩ := libBatch_mask_flat m fs1 recs k1 s.lib sM.lib (hflat hs0) hlib hnamed k2 a2 levs h1
      have hra : a2.recursive = false := fa2.notRec
      have hrb : b2.recursive = false := by rw [hs2.r]; exact hra
      simp only [hb2, hra, hrb, Bool.false_eq_true, if_false, forgetAll_nil, gsOf_filter' hcl]
      obtain ⟨e1, e2⟩ := emitAll_filter' hc fs1 s.full (gsOf levs) (gsOf_keep levs) (two_in_gsOf levs)
      rcases hE : emitAll fs1 false s.full (gsOf levs) with ⟨evs, stop⟩
      rcases hE' : emitAll fs1 false s.full ((gsOf levs).filter (keepG' m)) with ⟨evs', stop'⟩
      rw [hE, hE'] at e1 e2
      simp only at e1 e2
      subst e1
      exact ⟨⟨rfl, rfl, rfl, rfl, rfl, hs2⟩, e2, fun _ => fa2⟩

theorem runF_flat {m : Flag → Bool} {acc : EvClass → Bool} (hcl : m .movedFrom = m .movedTo) (hc : CompleteF m acc)
    (ops : List Op) : ∀ (s sM : Sys), SimS s sM → (s.stopped = false → FlatMaps s.lib) → (s.run ops).1.crashed = false →
    (sM.runF m acc ops).2 = (s.run ops).2.map (fun evs => evs.filter (fun e => acc e.cls)) ∧
    SimS (s.run ops).1 (sM.runF m acc ops).1 := by
  induction ops with
  | nil => intro s sM h _ _; exact ⟨rfl, h⟩
  | cons op rest ih =>
    intro s sM hsim hflat hnc
    simp only [Sys.run] at hnc
    have h1 : (s.op op).1.crashed = false := by
      cases hcr : (s.op op).1.crashed
      · rfl
      · rw [crashed_run _ rest hcr] at hnc; cases hnc
    obtain ⟨a, b, c⟩ := opF_flat hcl hc s sM op hsim hflat h1
    obtain ⟨d, e⟩ := ih (s.op op).1 (sM.opF m acc op).1 a c hnc
    simp only [Sys.run, Sys.runF, List.map_cons]
    exact ⟨by rw [b, d], e⟩

theorem InvFlat.flatMaps {fs : FS} {k : Kern} {lib : Lib} (inv : InvFlat fs k lib) : FlatMaps lib := by
  obtain ⟨r, w0, _, _, _, hp, hw⟩ := inv.root
  exact ⟨inv.notRec, by rw [hw]; simp, by rw [hp]; simp, inv.srcs⟩

theorem Sim.refl (a : Lib) : Sim a a := ⟨rfl, rfl, rfl, fun _ h => h⟩

/-! ### the decidable check behind `CompleteF` -/

def classesOfF (fl : Flag) (d full : Bool) : List EvClass :=
  match fl with
  | .attrib | .modify => [if d then .DirModifiedEvent else .FileModifiedEvent]
  | .delete => [if d then .DirDeletedEvent else .FileDeletedEvent, .DirModifiedEvent]
  | .open => if d then [] else [.FileOpenedEvent]
  | .closeWrite => if d then [] else [.FileClosedEvent, .DirModifiedEvent]
  | .closeNoWrite => if d then [] else [.FileClosedNoWriteEvent]
  | .create => [if d then .DirCreatedEvent else .FileCreatedEvent, .DirModifiedEvent]
  | .movedFrom => [if full then (if d then .DirMovedEvent else .FileMovedEvent)
                   else (if d then .DirDeletedEvent else .FileDeletedEvent), .DirModifiedEvent]
  | .movedTo => [if full then (if d then .DirMovedEvent else .FileMovedEvent)
                 else (if d then .DirCreatedEvent else .FileCreatedEvent), .DirModifiedEvent]
  | _ => []

def maskableFlags : List Flag :=
  [.attrib, .modify, .delete, .open, .closeWrite, .closeNoWrite, .create, .movedFrom, .movedTo]

theorem emit_maskable (fs : FS) (full : Bool) (e : LEv) (h : e.flag ∈ maskableFlags) :
    (emit fs false full (.one e)).1.map (·.cls) = classesOfF e.flag e.isDir full ∧
    (emit fs false full (.one e)).2 = false := by
  simp only [maskableFlags, List.mem_cons, List.mem_nil_iff, or_false] at h
  rcases h with h | h | h | h | h | h | h | h | h <;> simp only [emit, h, classesOfF] <;>
    cases e.isDir <;> cases full <;> simp [mkEv]

def completeBF (m : Flag → Bool) (acc : EvClass → Bool) : Bool :=
  m .deleteSelf &&
  maskableFlags.all (fun fl => m fl || [true, false].all (fun d => [true, false].all (fun full =>
    (classesOfF fl d full).all (fun c => !acc c)))) &&
  (m .movedFrom || (!acc .DirMovedEvent && !acc .FileMovedEvent && !acc .DirModifiedEvent))

theorem CompleteF_of_check {m : Flag → Bool} {acc : EvClass → Bool} (h : completeBF m acc = true) : CompleteF m acc := by
  simp only [completeBF, Bool.and_eq_true] at h
  obtain ⟨⟨hds, hall⟩, hpair⟩ := h
  refine ⟨?_, ?_⟩
  · intro fs full e hm hne
    have hopt : e.flag ∈ maskableFlags := by
      cases hf : e.flag <;> simp [maskableFlags] <;> simp_all
    obtain ⟨c1, c2⟩ := emit_maskable fs full e hopt
    refine ⟨?_, c2⟩
    intro ev hev
    have hcls : ev.cls ∈ classesOfF e.flag e.isDir full := by rw [← c1]; exact List.mem_map_of_mem hev
    have := List.all_eq_true.1 hall e.flag hopt
    simp only [hm, Bool.false_or] at this
    have h2 := List.all_eq_true.1 this e.isDir (by cases e.isDir <;> simp)
    have h3 := List.all_eq_true.1 h2 full (by cases full <;> simp)
    simpa using List.all_eq_true.1 h3 ev.cls hcls
  · intro hm fs full f t ev hev
    simp only [hm, Bool.false_or, Bool.and_eq_true, Bool.not_eq_true'] at hpair
    simp only [emit, Bool.and_false, Bool.false_eq_true, if_false, List.append_nil, List.mem_cons, List.mem_nil_iff,
      or_false] at hev
    rcases hev with rfl | rfl | rfl
    · simp only [mkEv]; split
      · exact hpair.1.1
      · exact hpair.1.2
    · simp [mkEv, hpair.2]
    · simp [mkEv, hpair.2]

theorem CompleteF.union {m1 m2 : Flag → Bool} {a1 a2 : EvClass → Bool} (h1 : CompleteF m1 a1) (h2 : CompleteF m2 a2) :
    CompleteF (fun f => m1 f || m2 f) (fun c => a1 c || a2 c) := by
  refine ⟨?_, ?_⟩
  · intro fs full e hm hne
    simp only [Bool.or_eq_false_iff] at hm
    obtain ⟨x1, y1⟩ := h1.one fs full e hm.1 hne
    obtain ⟨x2, _⟩ := h2.one fs full e hm.2 hne
    exact ⟨fun ev hev => by simp [x1 ev hev, x2 ev hev], y1⟩
  · intro hm fs full f t ev hev
    simp only [Bool.or_eq_false_iff] at hm
    simp [h1.two hm.1 fs full f t ev hev, h2.two hm.2 fs full f t ev hev]

end WD.Pipe
