/- a burst that only adds entries (`mkdir -p` + populate), read in ONE batch after its last operation, under a recursive
   watch: every directory ends up watched under its name, nothing crashes, and the delivered stream holds exactly one
   created event per new entry of the tree, so that replaying it reproduces the tree -/
import WD.Model.PipelineBurst
import WD.Proofs.Pipeline.Departed
import WD.Proofs.Pipeline.RenameIn
import WD.Proofs.Pipeline.Run
import WD.Proofs.Pipeline.Tree
import WD.Proofs.Pipeline.Theorems
set_option linter.unusedSimpArgs false
namespace WD.Pipe

variable {fs : FS} {k : Kern} {lib : Lib} {cov : Ent → Prop}

/- ---------------- `_recursive_simulate` ---------------- -/

/-- one entry of the walk inside a freshly created directory -/
def simStep (fs : FS) (acc : Kern × Lib × List LEv) (e : Ent) : Kern × Lib × List LEv :=
  if e.isDir then
    match addWatch fs acc.1 acc.2.1 e.path with
    | some (ka, la, wd) => (ka, la, acc.2.2 ++ [⟨wd, .create, true, 0, some (baseName e.path), e.path⟩])
    | none => acc
  else
    match lookupP acc.2.1.wdForPath (parentOf e.path) with
    | some wd => (acc.1, acc.2.1, acc.2.2 ++ [⟨wd, .create, false, 0, some (baseName e.path), e.path⟩])
    | none => acc

/-- the parent of every listed entry is known beforehand or is a directory listed earlier -/
def Closed (known : P → Prop) : List Ent → Prop
  | [] => True
  | x :: rest => known (parentOf x.path) ∧ Closed (fun q => known q ∨ (x.isDir = true ∧ q = x.path)) rest

set_option linter.unusedVariables false in
theorem Closed.mono {K K' : P → Prop} (h : ∀ q, K q → K' q) : ∀ {l : List Ent}, Closed K l → Closed K' l
  | [], _ => trivial
  | x :: rest, hc => ⟨h _ hc.1, Closed.mono (fun q hq => hq.elim (fun a => Or.inl (h q a)) Or.inr) hc.2⟩

/-- the record kinds a populate burst produces -/
def fillFlag : Flag → Bool
  | .create | .open | .closeWrite | .modify | .attrib => true
  | _ => false

/-- what a record list says was created: (path, is a directory) of every CREATE -/
def creates (levs : List LEv) : List (P × Bool) :=
  levs.filterMap (fun l => if l.flag = .create then some (l.src, l.isDir) else none)

theorem creates_append (a b : List LEv) : creates (a ++ b) = creates a ++ creates b := by
  simp [creates, List.filterMap_append]

/-- the walk over a list of distinct, not yet watched entries below a watched directory -/
theorem simFold (hwf : fs.WF) (ins : List Ent) : ∀ (k : Kern) (lib : Lib) (cov : Ent → Prop) (acc : List LEv) (K : P → Prop),
    InvOn cov none fs k lib → ins.Nodup →
    (∀ d ∈ ins, d ∈ fs.ents ∧ (d.isDir = true → inTreeDir d = true ∧ k.wdOfIno d.ino = none)) →
    (∀ q, K q → (lookupP lib.wdForPath q).isSome = true) → Closed K ins →
    ∃ k' lib' sim, ins.foldl (simStep fs) (k, lib, acc) = (k', lib', acc ++ sim) ∧
      InvOn (fun y => cov y ∨ (y ∈ ins ∧ y.isDir = true)) none fs k' lib' ∧
      (∀ w ∈ k.watches, w ∈ k'.watches) ∧
      (∀ w ∈ k'.watches, w ∈ k.watches ∨ ∃ d ∈ ins, d.isDir = true ∧ w.2 = d.ino) ∧
      creates sim = ins.map (fun e => (e.path, e.isDir)) ∧ (∀ l ∈ sim, l.flag = .create) := by
  induction ins with
  | nil =>
    intro k lib cov acc K inv _ _ _ _
    exact ⟨k, lib, [], by simp, inv.mono (fun e _ _ h => h.elim id (fun h => by cases h.1)), fun _ h => h,
      fun _ h => Or.inl h, rfl, by simp⟩
  | cons d rest ih =>
    intro k lib cov acc K inv hnd hds hK hcl
    simp only [List.nodup_cons] at hnd
    obtain ⟨hd1, hd2⟩ := hds d (List.mem_cons_self ..)
    obtain ⟨hKd, hcl'⟩ := hcl
    cases hdir : d.isDir with
    | true =>
      obtain ⟨hd3, hd4⟩ := hd2 hdir
      have hstep : simStep fs (k, lib, acc) d =
          (k.withWatch d.ino, lib.withWatch d.path k.nextWd, acc ++ [⟨k.nextWd, .create, true, 0, some (baseName d.path), d.path⟩]) := by
        simp [simStep, hdir, addWatch_new (hwf.find_mem hd1) hd4]
      have inv1 := inv.addWatch hd1 hd3 hd4
      have hrest : ∀ x ∈ rest, x ∈ fs.ents ∧ (x.isDir = true → inTreeDir x = true ∧ (k.withWatch d.ino).wdOfIno x.ino = none) := by
        intro x hx
        obtain ⟨a, b⟩ := hds x (List.mem_cons_of_mem _ hx)
        refine ⟨a, fun hxd => ⟨(b hxd).1, ?_⟩⟩
        rw [wdOfIno_withWatch, (b hxd).2]
        have : d.ino ≠ x.ino := by
          intro hi; have := hwf.ino_inj hd1 a hi; subst this; exact hnd.1 hx
        simp [this]
      have hK' : ∀ q, (K q ∨ (d.isDir = true ∧ q = d.path)) → (lookupP (lib.withWatch d.path k.nextWd).wdForPath q).isSome = true := by
        intro q hq
        simp only [Lib.withWatch, lookupP_setP]
        by_cases h : q = d.path
        · simp [h]
        · simp only [h, if_false]
          rcases hq with hq | hq
          · exact hK q hq
          · exact absurd hq.2 h
      obtain ⟨k', lib', sim, h1, h2, h3, h4, h5, h6⟩ := ih _ _ _ (acc ++ [⟨k.nextWd, .create, true, 0, some (baseName d.path), d.path⟩]) _ inv1 hnd.2 hrest hK' hcl'
      refine ⟨k', lib', ⟨k.nextWd, .create, true, 0, some (baseName d.path), d.path⟩ :: sim, ?_, ?_, ?_, ?_, ?_, ?_⟩
      · simp only [List.foldl_cons, hstep, h1]; simp
      · refine h2.mono ?_
        intro y _ _ hy
        rcases hy with hy | ⟨hy, hyd⟩
        · exact Or.inl (Or.inl hy)
        · rcases List.mem_cons.mp hy with rfl | hy
          · exact Or.inl (Or.inr rfl)
          · exact Or.inr ⟨hy, hyd⟩
      · intro w hw; exact h3 w (by simp [Kern.withWatch, hw])
      · intro w hw
        rcases h4 w hw with h | ⟨x, hx, hxd, hxi⟩
        · simp only [Kern.withWatch, List.mem_append, List.mem_singleton] at h
          rcases h with h | h
          · exact Or.inl h
          · exact Or.inr ⟨d, List.mem_cons_self .., hdir, by rw [h]⟩
        · exact Or.inr ⟨x, List.mem_cons_of_mem _ hx, hxd, hxi⟩
      · simp [creates, hdir] at h5 ⊢; exact h5
      · intro l hl
        rcases List.mem_cons.mp hl with rfl | hl
        · rfl
        · exact h6 l hl
    | false =>
      obtain ⟨wd, hwd⟩ := Option.isSome_iff_exists.mp (hK _ hKd)
      have hstep : simStep fs (k, lib, acc) d = (k, lib, acc ++ [⟨wd, .create, false, 0, some (baseName d.path), d.path⟩]) := by
        simp [simStep, hdir, hwd]
      have hrest : ∀ x ∈ rest, x ∈ fs.ents ∧ (x.isDir = true → inTreeDir x = true ∧ k.wdOfIno x.ino = none) :=
        fun x hx => hds x (List.mem_cons_of_mem _ hx)
      have hK' : ∀ q, (K q ∨ (d.isDir = true ∧ q = d.path)) → (lookupP lib.wdForPath q).isSome = true := by
        intro q hq
        rcases hq with hq | hq
        · exact hK q hq
        · rw [hdir] at hq; cases hq.1
      obtain ⟨k', lib', sim, h1, h2, h3, h4, h5, h6⟩ := ih k lib cov (acc ++ [⟨wd, .create, false, 0, some (baseName d.path), d.path⟩]) _ inv hnd.2 hrest hK' hcl'
      refine ⟨k', lib', ⟨wd, .create, false, 0, some (baseName d.path), d.path⟩ :: sim, ?_, ?_, h3, ?_, ?_, ?_⟩
      · simp only [List.foldl_cons, hstep, h1]; simp
      · refine h2.mono ?_
        intro y _ _ hy
        rcases hy with hy | ⟨hy, hyd⟩
        · exact Or.inl hy
        · rcases List.mem_cons.mp hy with rfl | hy
          · rw [hdir] at hyd; cases hyd
          · exact Or.inr ⟨hy, hyd⟩
      · intro w hw
        rcases h4 w hw with h | ⟨x, hx, hxd, hxi⟩
        · exact Or.inl h
        · exact Or.inr ⟨x, List.mem_cons_of_mem _ hx, hxd, hxi⟩
      · simp [creates, hdir] at h5 ⊢; exact h5
      · intro l hl
        rcases List.mem_cons.mp hl with rfl | hl
        · rfl
        · exact h6 l hl

/-- filtering a closed list to what lies below `p`: parents are `p` itself, or known and below `p`, or listed earlier -/
theorem Closed.filter_under (p : P) : ∀ {l : List Ent} {K : P → Prop}, Closed K l →
    Closed (fun q => q = p ∨ (K q ∧ isUnder p q = true)) (l.filter (fun e => isUnder p e.path))
  | [], _, _ => trivial
  | x :: rest, K, hc => by
    simp only [List.filter_cons]
    have ih := Closed.filter_under p hc.2
    split
    · rename_i hx
      refine ⟨?_, ih.mono ?_⟩
      · rcases isUnder_parent hx with h | h
        · exact Or.inl h
        · exact Or.inr ⟨hc.1, h⟩
      · intro q hq
        rcases hq with hq | ⟨hq | hq, hu⟩
        · exact Or.inl (Or.inl hq)
        · exact Or.inl (Or.inr ⟨hq, hu⟩)
        · exact Or.inr hq
    · rename_i hx
      refine ih.mono ?_
      intro q hq
      rcases hq with hq | ⟨hq | hq, hu⟩
      · exact Or.inl hq
      · exact Or.inr ⟨hq, hu⟩
      · rw [hq.2] at hu; exact absurd hu hx

theorem nodup_of_map_path {l : List Ent} (h : (l.map Ent.path).Nodup) : l.Nodup := by
  induction l with
  | nil => simp
  | cons x rest ih =>
    simp only [List.map_cons, List.nodup_cons] at h ⊢
    exact ⟨fun hx => h.1 (List.mem_map.mpr ⟨x, hx, rfl⟩), ih h.2⟩

theorem libRecord_create_dir (fs : FS) (k : Kern) (lib : Lib) (wd : Nat) (n : String) (par : P)
    (hw : lookupW lib.pathForWd wd = some par) (hrec : lib.recursive = true) :
    libRecord fs k lib ⟨wd, .create, true, 0, some n⟩ =
      match addWatch fs k lib (par ++ [n]) with
      | none => some (k, lib, [⟨wd, .create, true, 0, some n, par ++ [n]⟩])
      | some (k1, l1, _) =>
        some (((fs.descendants (par ++ [n])).foldl (simStep fs) (k1, l1, [])).1,
              ((fs.descendants (par ++ [n])).foldl (simStep fs) (k1, l1, [])).2.1,
              ⟨wd, .create, true, 0, some n, par ++ [n]⟩ :: ((fs.descendants (par ++ [n])).foldl (simStep fs) (k1, l1, [])).2.2) := by
  unfold libRecord
  simp only [hw, hrec, Bool.and_self, if_true]
  rfl

/-- the CREATE record of a directory that nobody watches yet, with whatever lies inside it by now -/
theorem libRecord_newdir (inv : InvOn cov none fs k lib) {wd : Nat} {par : P} {n : String} {d : Ent}
    (hw : lookupW lib.pathForWd wd = some par) (hd : fs.find? (par ++ [n]) = some d)
    (htree : inTreeDir d = true) (hun : k.wdOfIno d.ino = none)
    (hins : ∀ x ∈ fs.descendants d.path, x.isDir = true → k.wdOfIno x.ino = none)
    (hcl : Closed (fun q => q = d.path) (fs.descendants d.path)) :
    ∃ k' lib' sim, libRecord fs k lib ⟨wd, .create, true, 0, some n⟩ =
        some (k', lib', ⟨wd, .create, true, 0, some n, d.path⟩ :: sim) ∧
      InvOn (fun y => cov y ∨ y = d ∨ (y ∈ fs.descendants d.path ∧ y.isDir = true)) none fs k' lib' ∧
      (∀ w ∈ k.watches, w ∈ k'.watches) ∧
      (∀ w ∈ k'.watches, w ∈ k.watches ∨ w.2 = d.ino ∨ ∃ x ∈ fs.descendants d.path, x.isDir = true ∧ w.2 = x.ino) ∧
      creates sim = (fs.descendants d.path).map (fun e => (e.path, e.isDir)) ∧ (∀ l ∈ sim, l.flag = .create) := by
  have hwf := inv.wf
  obtain ⟨hdm, hdp⟩ := FS.find?_some hd
  have haw := addWatch_new (fs := fs) (k := k) (lib := lib) (e := d) (hwf.find_mem hdm) hun
  have inv1 := inv.addWatch hdm htree hun
  have hnd : (fs.descendants d.path).Nodup := by
    unfold FS.descendants
    exact List.Nodup.sublist List.filter_sublist (nodup_of_map_path hwf.paths)
  have hds : ∀ x ∈ fs.descendants d.path, x ∈ fs.ents ∧
      (x.isDir = true → inTreeDir x = true ∧ (k.withWatch d.ino).wdOfIno x.ino = none) := by
    intro x hx
    have hx' := hx
    unfold FS.descendants at hx'
    obtain ⟨hxm, hxu⟩ := List.mem_filter.mp hx'
    refine ⟨hxm, fun hxd => ⟨?_, ?_⟩⟩
    · rw [inTreeDir_iff] at htree ⊢
      refine ⟨hxd, Or.inr ?_⟩
      rcases htree.2 with h | h
      · rw [← h]; exact hxu
      · exact isUnder_trans h hxu
    · rw [wdOfIno_withWatch, hins x hx hxd]
      have : d.ino ≠ x.ino := by
        intro hi; have := hwf.ino_inj hdm hxm hi; subst this
        rw [isUnder_irrefl] at hxu; cases hxu
      simp [this]
  have hK : ∀ q, q = d.path → (lookupP (lib.withWatch d.path k.nextWd).wdForPath q).isSome = true := by
    intro q hq; simp [Lib.withWatch, lookupP_setP, hq]
  obtain ⟨k', lib', sim, h1, h2, h3, h4, h5, h6⟩ :=
    simFold hwf (fs.descendants d.path) (k.withWatch d.ino) (lib.withWatch d.path k.nextWd) _ [] _ inv1 hnd hds hK hcl
  refine ⟨k', lib', sim, ?_, ?_, ?_, ?_, h5, h6⟩
  · rw [libRecord_create_dir fs k lib wd n par hw inv.isRec, ← hdp, haw]
    simp only
    have : (fs.descendants d.path).foldl (simStep fs) (k.withWatch d.ino, lib.withWatch d.path k.nextWd, []) = (k', lib', sim) := by
      simpa using h1
    rw [this]
  · refine h2.mono ?_
    intro y _ _ hy
    rcases hy with hy | hy | hy
    · exact Or.inl (Or.inl hy)
    · exact Or.inl (Or.inr hy)
    · exact Or.inr hy
  · intro w hw'; exact h3 w (by simp [Kern.withWatch, hw'])
  · intro w hw'
    rcases h4 w hw' with h | ⟨x, hx, hxd, hxi⟩
    · simp only [Kern.withWatch, List.mem_append, List.mem_singleton] at h
      rcases h with h | h
      · exact Or.inl h
      · exact Or.inr (Or.inl (by rw [h]))
    · exact Or.inr (Or.inr ⟨x, hx, hxd, hxi⟩)

/- ---------------- the burst: what has been dealt with so far ---------------- -/

/-- `e` is, or lies below, an entry created since the burst began (`fs0`: the file system at its start, `fsi`: now) -/
def Done (fs0 fsi : FS) (e : Ent) : Prop :=
  ∃ d ∈ fsi.ents, d ∉ fs0.ents ∧ (e.path = d.path ∨ isUnder d.path e.path = true)

theorem Done.mono {fs0 fsi fsj : FS} (h : ∀ e ∈ fsi.ents, e ∈ fsj.ents) {e : Ent} : Done fs0 fsi e → Done fs0 fsj e := by
  rintro ⟨d, hd, h1, h2⟩; exact ⟨d, h d hd, h1, h2⟩

theorem exists_false_iff {fs : FS} {p : P} : fs.exists p = false ↔ ∀ e ∈ fs.ents, e.path ≠ p := by
  rw [← FS.find?_none]
  unfold FS.exists
  cases fs.find? p <;> simp

/-- nothing at or below a path that does not exist yet, and whose parent existed when the burst began, has been dealt with -/
theorem not_done_new {fs0 fsi : FS} (wf0 : fs0.WF) (wfi : fsi.WF) (sub0 : ∀ e ∈ fs0.ents, e ∈ fsi.ents)
    {p : P} (hp : 2 ≤ p.length) (hne : fsi.exists p = false) {par : Ent} (hpar0 : par ∈ fs0.ents) (hpp : par.path = parentOf p)
    {x : Ent} (hx : x.path = p ∨ isUnder p x.path = true) : ¬ (x ∈ fs0.ents ∨ Done fs0 fsi x) := by
  have hnn := ne_nil_of_two_le hp
  have hex := exists_false_iff.mp hne
  have hnd := wfi.no_descendants_of_missing hnn hne
  rintro (h | ⟨d, hd, hd0, hdx⟩)
  · have hxi := sub0 x h
    rcases hx with hx | hx
    · exact hex x hxi hx
    · rw [hnd x hxi] at hx; cases hx
  · have hup : isUnder d.path p = true := by
      rcases hx with hx | hx <;> rcases hdx with hdx | hdx
      · exact absurd (hdx.symm.trans hx) (hex d hd)
      · rw [← hx]; exact hdx
      · rw [hdx, hnd d hd] at hx; cases hx
      · rcases prefix_comparable hx hdx with h | h | h
        · exact absurd h.symm (hex d hd)
        · rw [hnd d hd] at h; cases h
        · exact h
    have hdeq : ∀ e0 ∈ fs0.ents, e0.path = d.path → False := by
      intro e0 he0 hpe
      have := wfi.path_inj (sub0 e0 he0) hd hpe
      subst this; exact hd0 he0
    rcases isUnder_parent hup with h | h
    · exact hdeq par hpar0 (hpp.trans h)
    · rw [← hpp] at h
      have := wf0.ancestor_dir _ par hpar0 rfl d.path (wfi.path_ne_nil hd) h
      obtain ⟨e0, he0, _⟩ := FS.isDir_iff.mp this
      exact hdeq e0 (FS.find?_some he0).1 (FS.find?_some he0).2

theorem done_add {fs0 fsi F : FS} (wfF : F.WF) {p : P} {b : Bool} (hEF : (⟨p, b, fsi.nextIno⟩ : Ent) ∈ F.ents)
    {e : Ent} (heF : e ∈ F.ents) (h : Done fs0 (fsi.add p b) e) :
    Done fs0 fsi e ∨ e = ⟨p, b, fsi.nextIno⟩ ∨ isUnder p e.path = true := by
  obtain ⟨d, hd, hd0, hdx⟩ := h
  rcases FS.mem_add.mp hd with hd | hd
  · exact Or.inl ⟨d, hd, hd0, hdx⟩
  · subst hd
    rcases hdx with h | h
    · exact Or.inr (Or.inl (wfF.path_inj heF hEF h))
    · exact Or.inr (Or.inr h)

/-- a new entry whose parent is itself new, or lies outside the watched tree, adds nothing to what has been dealt
    with inside the tree -/
theorem done_shrink {fs0 fsi : FS} {p : P} (hp : 2 ≤ p.length) {par : Ent} (hpari : par ∈ fsi.ents)
    (hpp : par.path = parentOf p) (hpd : par.isDir = true) (hA : par ∉ fs0.ents ∨ inTreeDir par = false) (b : Bool)
    {e : Ent} (he : e.path = ["W"] ∨ isUnder ["W"] e.path = true) (h : Done fs0 (fsi.add p b) e) : Done fs0 fsi e := by
  have hnn := ne_nil_of_two_le hp
  obtain ⟨d, hd, hd0, hdx⟩ := h
  rcases FS.mem_add.mp hd with hd | hd
  · exact ⟨d, hd, hd0, hdx⟩
  · subst hd
    simp only at hdx
    have hpu : isUnder par.path p = true := by
      rw [hpp]; exact isUnder_of_parent hnn (Or.inl rfl)
    rcases hA with hA | hA
    · refine ⟨par, hpari, hA, Or.inr ?_⟩
      rcases hdx with h | h
      · rw [h]; exact hpu
      · exact isUnder_trans hpu h
    · exfalso
      have hW : isUnder ["W"] p = true := by
        rcases he with he | he
        · rcases hdx with h | h
          · rw [he] at h; rw [← h] at hp; simp at hp
          · rw [he] at h; have := isUnder_length h; simp only [List.length_cons, List.length_nil] at this; omega
        · rcases hdx with h | h
          · rw [← h]; exact he
          · rcases prefix_comparable he h with h1 | h1 | h1
            · rw [← h1] at hp; simp at hp
            · exact h1
            · have := isUnder_length h1; simp only [List.length_cons, List.length_nil] at this; omega
      have : inTreeDir par = true := by
        rw [inTreeDir_iff, hpp]
        exact ⟨hpd, isUnder_parent hW⟩
      rw [this] at hA; cases hA

/- ---------------- the file-system side of a growth burst ---------------- -/

/-- every operation is a `mkdir` or a file creation, valid when it is issued -/
def allGrow (fs : FS) : List Op → Bool
  | [] => true
  | op :: rest => validOp fs op && growKind op && allGrow (fsAfter fs op) rest

theorem grow_op {fs : FS} {op : Op} (hv : validOp fs op = true) (hg : growKind op = true) :
    ∃ p b, ((op = .mkdir p ∧ b = true) ∨ (op = .create p ∧ b = false)) ∧ 2 ≤ p.length ∧ fs.exists p = false ∧
      fs.isDir (parentOf p) = true ∧ fsAfter fs op = fs.add p b := by
  cases op with
  | mkdir p =>
    obtain ⟨h1, h2, h3⟩ := validOp_mkdir hv
    exact ⟨p, true, Or.inl ⟨rfl, rfl⟩, h1, h2, h3, rfl⟩
  | create p =>
    have := hv; simp [validOp] at this
    exact ⟨p, false, Or.inr ⟨rfl, rfl⟩, this.1.1, this.1.2, this.2, rfl⟩
  | _ => simp [growKind] at hg

theorem grow_facts : ∀ (ops : List Op) (fs : FS), fs.WF → allGrow fs ops = true →
    (fsRun fs ops).WF ∧ (∀ e ∈ fs.ents, e ∈ (fsRun fs ops).ents) ∧
    (∀ e ∈ (fsRun fs ops).ents, e ∉ fs.ents → fs.nextIno ≤ e.ino) ∧
    ∃ news, (fsRun fs ops).ents = fs.ents ++ news ∧ Closed (fun q => fs.isDir q = true) news := by
  intro ops
  induction ops with
  | nil => intro fs hwf _; exact ⟨hwf, fun _ h => h, fun e he hn => absurd he hn, [], by simp [fsRun], trivial⟩
  | cons op rest ih =>
    intro fs hwf hv
    simp only [allGrow, Bool.and_eq_true] at hv
    obtain ⟨⟨hvalid, hkind⟩, hrest⟩ := hv
    obtain ⟨p, b, _, hp, hne, hpar, hfs⟩ := grow_op hvalid hkind
    have hwf1 := hwf.add hp hne hpar b
    rw [hfs] at hrest
    obtain ⟨i1, i2, i3, news, i4, i5⟩ := ih (fs.add p b) hwf1 hrest
    simp only [fsRun, hfs]
    refine ⟨i1, fun e he => i2 e (FS.mem_add.mpr (Or.inl he)), ?_, ⟨p, b, fs.nextIno⟩ :: news, ?_, ?_, ?_⟩
    · intro e he hn
      by_cases h1 : e ∈ (fs.add p b).ents
      · rcases FS.mem_add.mp h1 with h | h
        · exact absurd h hn
        · subst h; exact Nat.le_refl _
      · have := i3 e he h1; simp only [FS.add] at this; omega
    · rw [i4]; simp [FS.add]
    · exact hpar
    · refine i5.mono ?_
      intro q hq
      obtain ⟨e, he, hd⟩ := FS.isDir_iff.mp hq
      rw [FS.find?_add] at he
      cases hf : fs.find? q with
      | some e0 =>
        rw [hf] at he; simp at he; subst he
        exact Or.inl (FS.isDir_iff.mpr ⟨e0, hf, hd⟩)
      | none =>
        rw [hf] at he
        by_cases hpq : p = q
        · simp [hpq] at he; subst he; exact Or.inr ⟨hd, hpq.symm⟩
        · simp [hpq] at he

/- ---------------- the library side, one operation's records at a time ---------------- -/

/-- what does not change during the burst: the state at its start and the file system at its end -/
structure GrowCtx (fs0 F : FS) (k : Kern) (lib0 : Lib) : Prop where
  inv0 : InvRec fs0 k lib0
  wfF : F.WF
  sub0F : ∀ e ∈ fs0.ents, e ∈ F.ents
  newIno : ∀ e ∈ F.ents, e ∉ fs0.ents → fs0.nextIno ≤ e.ino

/-- the reader has gone through the records of the operations that led from `fs0` to `fsi`, looking at `F`:
    what existed at the start, and everything at or below an entry created up to `fsi`, is watched (and nothing else);
    `cr` lists the CREATE records seen so far: exactly the new entries of the tree dealt with, each once -/
structure GrowSt (fs0 F : FS) (k : Kern) (fsi : FS) (kX : Kern) (libX : Lib) (cr : List (P × Bool)) : Prop where
  inv : InvOn (fun e => e ∈ fs0.ents ∨ Done fs0 fsi e) none F kX libX
  sub : ∀ w ∈ k.watches, w ∈ kX.watches
  wcov : ∀ w ∈ kX.watches, ∃ e ∈ F.ents, e.ino = w.2 ∧ (e ∈ fs0.ents ∨ Done fs0 fsi e)
  e1 : ∀ x ∈ cr, ∃ e ∈ F.ents, e ∉ fs0.ents ∧ isUnder ["W"] e.path = true ∧ x = (e.path, e.isDir) ∧ Done fs0 fsi e
  e2 : ∀ e ∈ F.ents, e ∉ fs0.ents → isUnder ["W"] e.path = true → Done fs0 fsi e → (e.path, e.isDir) ∈ cr
  e3 : (cr.map (·.1)).Nodup

variable {fs0 F fsi : FS} {lib0 : Lib} {kX : Kern} {libX : Lib} {cr : List (P × Bool)}

/-- an operation that queued nothing -/
theorem GrowSt.quiet {fsj : FS} (st : GrowSt fs0 F k fsi kX libX cr) (hsub : ∀ e ∈ fsi.ents, e ∈ fsj.ents)
    (hsh : ∀ e : Ent, (e.path = ["W"] ∨ isUnder ["W"] e.path = true) → Done fs0 fsj e → Done fs0 fsi e) :
    GrowSt fs0 F k fsj kX libX cr where
  inv := st.inv.mono (by
    intro e _ hd hc
    rcases hc with hc | hc
    · exact Or.inl hc
    · exact Or.inr (hsh e (inTreeDir_iff.mp hd).2 hc))
  sub := st.sub
  wcov := by
    intro w hw
    obtain ⟨e, he, hi, hc⟩ := st.wcov w hw
    exact ⟨e, he, hi, hc.elim Or.inl (fun h => Or.inr (h.mono hsub))⟩
  e1 := by
    intro x hx
    obtain ⟨e, he, h0, hW, hxe, hd⟩ := st.e1 x hx
    exact ⟨e, he, h0, hW, hxe, hd.mono hsub⟩
  e2 := fun e he h0 hW hd => st.e2 e he h0 hW (hsh e (Or.inr hW) hd)
  e3 := st.e3

theorem grow_step (ctx : GrowCtx fs0 F k lib0) (wfi : fsi.WF) (sub0 : ∀ e ∈ fs0.ents, e ∈ fsi.ents)
    {op : Op} (hvalid : validOp fsi op = true) (hkind : growKind op = true)
    (subF : ∀ e ∈ (fsAfter fsi op).ents, e ∈ F.ents)
    (hcl : ∃ news, F.ents = (fsAfter fsi op).ents ++ news ∧ Closed (fun q => (fsAfter fsi op).isDir q = true) news)
    (st : GrowSt fs0 F k fsi kX libX cr) :
    ∃ recs kY libY levs, kernelOp fsi k op = (fsAfter fsi op, k, recs) ∧ libBatch F kX libX recs = some (kY, libY, levs) ∧
      GrowSt fs0 F k (fsAfter fsi op) kY libY (cr ++ creates levs) ∧
      (∀ l ∈ levs, fillFlag l.flag = true) := by
  obtain ⟨p, b, hop, hp, hne, hpar, hfs⟩ := grow_op hvalid hkind
  rw [hfs] at subF hcl ⊢
  have hnn := ne_nil_of_two_le hp
  have hpb := snoc_parent_base hnn
  have hsubi : ∀ e ∈ fsi.ents, e ∈ (fsi.add p b).ents := fun e he => FS.mem_add.mpr (Or.inl he)
  have hEF : (⟨p, b, fsi.nextIno⟩ : Ent) ∈ F.ents := subF _ (FS.mem_add.mpr (Or.inr rfl))
  have hex := exists_false_iff.mp hne
  have hnd := wfi.no_descendants_of_missing hnn hne
  have hE0 : (⟨p, b, fsi.nextIno⟩ : Ent) ∉ fs0.ents := fun h => hex _ (sub0 _ h) rfl
  obtain ⟨par, hparf, hpd⟩ := FS.isDir_iff.mp hpar
  obtain ⟨hpari, hpp⟩ := FS.find?_some hparf
  have hparF : par ∈ F.ents := subF _ (hsubi _ hpari)
  have hpino : (fsi.find? (parentOf p)).map (·.ino) = some par.ino := by rw [hparf]; rfl
  by_cases hA : par ∉ fs0.ents ∨ inTreeDir par = false
  · -- nobody watches the parent: nothing is queued
    have hun : k.wdOfIno par.ino = none := by
      rcases hA with hA | hA
      · rw [wdOfIno_none]
        intro w hw hi
        have h1 := ctx.inv0.watch_ino_lt hw
        have h2 := ctx.newIno par hparF hA
        omega
      · by_cases h0 : par ∈ fs0.ents
        · exact ctx.inv0.unwatched h0 hA
        · rw [wdOfIno_none]
          intro w hw hi
          have h1 := ctx.inv0.watch_ino_lt hw
          have h2 := ctx.newIno par hparF h0
          omega
    refine ⟨[], kX, libX, [], ?_, rfl, ?_, by simp⟩
    · rcases hop with ⟨rfl, rfl⟩ | ⟨rfl, rfl⟩ <;> simp [kernelOp, hpino, onEntry_none hun, FS.add]
    · simp only [creates, List.filterMap_nil, List.append_nil]
      exact st.quiet hsubi (fun e he hd => done_shrink hp hpari hpp hpd hA b he hd)
  · -- the parent existed when the burst began and is a directory of the tree: it is watched
    have h0 : par ∈ fs0.ents := by
      cases Classical.em (par ∈ fs0.ents) with
      | inl h => exact h
      | inr h => exact absurd (Or.inl h) hA
    have ht : inTreeDir par = true := by
      cases h : inTreeDir par with
      | true => rfl
      | false => exact absurd (Or.inr h) hA
    obtain ⟨wd, hk1, hkw, _, _⟩ := ctx.inv0.watched h0 ht trivial
    have hlw : lookupW libX.pathForWd wd = some (parentOf p) := by
      obtain ⟨e', he', hi, _, hl, _⟩ := st.inv.good _ (st.sub _ hkw)
      have : e' = par := ctx.wfF.ino_inj he' hparF hi
      subst this
      rw [← hpp]; exact hl
    have hWp : isUnder ["W"] p = true := by
      apply isUnder_of_parent hnn
      rw [← hpp]
      exact (inTreeDir_iff.mp ht).2
    have hnotdone : ∀ x : Ent, (x.path = p ∨ isUnder p x.path = true) → ¬ (x ∈ fs0.ents ∨ Done fs0 fsi x) :=
      fun x hx => not_done_new ctx.inv0.wf wfi sub0 hp hne h0 hpp hx
    have hdoneE : Done fs0 (fsi.add p b) ⟨p, b, fsi.nextIno⟩ := ⟨_, FS.mem_add.mpr (Or.inr rfl), hE0, Or.inl rfl⟩
    have hcr_p : ∀ x ∈ cr, (x.1 = p ∨ isUnder p x.1 = true) → False := by
      intro x hx hxp
      obtain ⟨e, _, _, _, hxe, hd⟩ := st.e1 x hx
      rw [hxe] at hxp
      exact hnotdone e hxp (Or.inr hd)
    rcases hop with ⟨rfl, rfl⟩ | ⟨rfl, rfl⟩
    · -- mkdir: the CREATE record, and the walk through what lies inside by now
      have hfindE : F.find? (parentOf p ++ [baseName p]) = some ⟨p, true, fsi.nextIno⟩ := by
        rw [hpb]; exact ctx.wfF.find_mem hEF
      have htreeE : inTreeDir (⟨p, true, fsi.nextIno⟩ : Ent) = true := by
        rw [inTreeDir_iff]; exact ⟨rfl, Or.inr hWp⟩
      have hunw : ∀ x ∈ F.ents, (x.path = p ∨ isUnder p x.path = true) → kX.wdOfIno x.ino = none := by
        intro x hxF hx
        rw [wdOfIno_none]
        intro w hw hi
        obtain ⟨e, he, hei, hc⟩ := st.wcov w hw
        have : e = x := ctx.wfF.ino_inj he hxF (hei.trans hi)
        subst this
        exact hnotdone e hx hc
      have hdescF : ∀ x ∈ F.descendants p, x ∈ F.ents ∧ isUnder p x.path = true := by
        intro x hx
        unfold FS.descendants at hx
        exact ⟨(List.mem_filter.mp hx).1, (List.mem_filter.mp hx).2⟩
      have hclosed : Closed (fun q => q = p) (F.descendants p) := by
        obtain ⟨news, hn1, hn2⟩ := hcl
        have hdesc : F.descendants p = news.filter (fun e => isUnder p e.path) := by
          unfold FS.descendants
          rw [hn1, List.filter_append]
          have : (fsi.add p true).ents.filter (fun e => isUnder p e.path) = [] := by
            rw [List.filter_eq_nil_iff]
            intro e he
            rcases FS.mem_add.mp he with he | he
            · simp [hnd e he]
            · subst he; simp [isUnder_irrefl]
          rw [this]; rfl
        rw [hdesc]
        refine (Closed.filter_under p hn2).mono ?_
        intro q hq
        rcases hq with hq | ⟨hq, hu⟩
        · exact hq
        · exfalso
          obtain ⟨e, he, _⟩ := FS.isDir_iff.mp hq
          obtain ⟨hem, hep⟩ := FS.find?_some he
          rcases FS.mem_add.mp hem with h | h
          · rw [← hep, hnd e h] at hu; cases hu
          · subst h; simp only at hep; rw [← hep, isUnder_irrefl] at hu; cases hu
      obtain ⟨k', lib', sim, h1, h2, h3, h4, h5, h6⟩ :=
        libRecord_newdir (d := ⟨p, true, fsi.nextIno⟩) st.inv hlw hfindE htreeE (hunw _ hEF (Or.inl rfl))
          (fun x hx _ => hunw x (hdescF x hx).1 (Or.inr (hdescF x hx).2)) hclosed
      refine ⟨[⟨wd, .create, true, 0, some (baseName p)⟩], k', lib', ⟨wd, .create, true, 0, some (baseName p), p⟩ :: sim, ?_, ?_, ?_, ?_⟩
      · simp [kernelOp, hpino, onEntry_some hk1, FS.add]
      · rw [libBatch_cons, h1]; simp [libBatch_nil]
      · have hcre : creates (⟨wd, .create, true, 0, some (baseName p), p⟩ :: sim) =
            (p, true) :: (F.descendants p).map (fun e => (e.path, e.isDir)) := by
          rw [← h5]; simp [creates]
        rw [hcre]
        refine ⟨h2.mono ?_, fun w hw => h3 w (st.sub w hw), ?_, ?_, ?_, ?_⟩
        · intro e he hd hc
          rcases hc with hc | hc
          · exact Or.inl (Or.inl hc)
          · rcases done_add ctx.wfF hEF he hc with h | h | h
            · exact Or.inl (Or.inr h)
            · exact Or.inr (Or.inl h)
            · refine Or.inr (Or.inr ⟨?_, (inTreeDir_iff.mp hd).1⟩)
              unfold FS.descendants; exact List.mem_filter.mpr ⟨he, h⟩
        · intro w hw
          rcases h4 w hw with h | h | ⟨x, hx, _, hxi⟩
          · obtain ⟨e, he, hi, hc⟩ := st.wcov w h
            exact ⟨e, he, hi, hc.elim Or.inl (fun h => Or.inr (h.mono hsubi))⟩
          · exact ⟨_, hEF, h.symm, Or.inr hdoneE⟩
          · exact ⟨x, (hdescF x hx).1, hxi.symm, Or.inr ⟨_, FS.mem_add.mpr (Or.inr rfl), hE0, Or.inr (hdescF x hx).2⟩⟩
        · intro x hx
          rcases List.mem_append.mp hx with hx | hx
          · obtain ⟨e, he, h0', hW, hxe, hd⟩ := st.e1 x hx
            exact ⟨e, he, h0', hW, hxe, hd.mono hsubi⟩
          · rcases List.mem_cons.mp hx with rfl | hx
            · exact ⟨_, hEF, hE0, hWp, rfl, hdoneE⟩
            · obtain ⟨e, he, rfl⟩ := List.mem_map.mp hx
              obtain ⟨heF, heu⟩ := hdescF e he
              refine ⟨e, heF, ?_, isUnder_trans hWp heu, rfl, ⟨_, FS.mem_add.mpr (Or.inr rfl), hE0, Or.inr heu⟩⟩
              intro h; rw [hnd e (sub0 e h)] at heu; cases heu
        · intro e he h0' hW hd
          rcases done_add ctx.wfF hEF he hd with h | h | h
          · exact List.mem_append.mpr (Or.inl (st.e2 e he h0' hW h))
          · subst h; exact List.mem_append.mpr (Or.inr (List.mem_cons_self ..))
          · refine List.mem_append.mpr (Or.inr (List.mem_cons_of_mem _ (List.mem_map.mpr ⟨e, ?_, rfl⟩)))
            unfold FS.descendants; exact List.mem_filter.mpr ⟨he, h⟩
        · simp only [List.map_append, List.map_cons, List.map_map]
          refine List.nodup_append.mpr ⟨st.e3, ?_, ?_⟩
          · refine List.nodup_cons.mpr ⟨?_, ?_⟩
            · intro hm
              obtain ⟨x, hx, hxp⟩ := List.mem_map.mp hm
              have := (hdescF x hx).2
              simp only [Function.comp] at hxp
              rw [hxp, isUnder_irrefl] at this; cases this
            · have : (F.descendants p).map ((fun x : P × Bool => x.1) ∘ fun e => (e.path, e.isDir)) = (F.descendants p).map Ent.path := rfl
              rw [this]
              unfold FS.descendants
              exact List.Nodup.sublist (List.Sublist.map _ List.filter_sublist) ctx.wfF.paths
          · intro a ha c hc hac
            subst hac
            obtain ⟨x, hx, rfl⟩ := List.mem_map.mp ha
            rcases List.mem_cons.mp hc with h | h
            · exact hcr_p x hx (Or.inl h)
            · obtain ⟨y, hy, hyp⟩ := List.mem_map.mp h
              simp only [Function.comp] at hyp
              exact hcr_p x hx (Or.inr (hyp ▸ (hdescF y hy).2))
      · intro l hl
        rcases List.mem_cons.mp hl with rfl | hl
        · rfl
        · rw [h6 l hl]; rfl
    · -- a file: three records that leave the maps alone
      have hfile : ∀ e ∈ F.ents, isUnder p e.path = true → False := by
        intro e he hu
        have := ctx.wfF.ancestor_dir _ e he rfl p hnn hu
        obtain ⟨d, hd, hdd⟩ := FS.isDir_iff.mp this
        rw [ctx.wfF.find_mem hEF] at hd
        cases hd; cases hdd
      refine ⟨[⟨wd, .create, false, 0, some (baseName p)⟩, ⟨wd, .open, false, 0, some (baseName p)⟩, ⟨wd, .closeWrite, false, 0, some (baseName p)⟩],
        kX, libX, [⟨wd, .create, false, 0, some (baseName p), p⟩, ⟨wd, .open, false, 0, some (baseName p), p⟩, ⟨wd, .closeWrite, false, 0, some (baseName p), p⟩], ?_, ?_, ?_, ?_⟩
      · simp [kernelOp, hpino, onEntry_some hk1, FS.add]
      · have := libBatch_simple F kX libX [⟨wd, .create, false, 0, some (baseName p)⟩, ⟨wd, .open, false, 0, some (baseName p)⟩, ⟨wd, .closeWrite, false, 0, some (baseName p)⟩]
          (fun _ => parentOf p) (by
            intro r hr
            simp only [List.mem_cons, List.not_mem_nil, or_false] at hr
            rcases hr with rfl | rfl | rfl <;> exact ⟨by simp [simpleFlag], hlw⟩)
        rw [this]
        simp [NRec.toLEv, NRec.src, hpb]
      · have hcre : creates [(⟨wd, .create, false, 0, some (baseName p), p⟩ : LEv), ⟨wd, .open, false, 0, some (baseName p), p⟩, ⟨wd, .closeWrite, false, 0, some (baseName p), p⟩] = [(p, false)] := by
          simp [creates]
        rw [hcre]
        refine ⟨st.inv.mono ?_, st.sub, ?_, ?_, ?_, ?_⟩
        · intro e he hd hc
          rcases hc with hc | hc
          · exact Or.inl hc
          · rcases done_add ctx.wfF hEF he hc with h | h | h
            · exact Or.inr h
            · subst h; simp [inTreeDir] at hd
            · exact (hfile e he h).elim
        · intro w hw
          obtain ⟨e, he, hi, hc⟩ := st.wcov w hw
          exact ⟨e, he, hi, hc.elim Or.inl (fun h => Or.inr (h.mono hsubi))⟩
        · intro x hx
          rcases List.mem_append.mp hx with hx | hx
          · obtain ⟨e, he, h0', hW, hxe, hd⟩ := st.e1 x hx
            exact ⟨e, he, h0', hW, hxe, hd.mono hsubi⟩
          · simp only [List.mem_singleton] at hx; subst hx
            exact ⟨_, hEF, hE0, hWp, rfl, hdoneE⟩
        · intro e he h0' hW hd
          rcases done_add ctx.wfF hEF he hd with h | h | h
          · exact List.mem_append.mpr (Or.inl (st.e2 e he h0' hW h))
          · subst h; exact List.mem_append.mpr (Or.inr (List.mem_singleton.mpr rfl))
          · exact (hfile e he h).elim
        · simp only [List.map_append, List.map_cons, List.map_nil]
          refine List.nodup_append.mpr ⟨st.e3, by simp, ?_⟩
          intro a ha c hc hac
          subst hac
          obtain ⟨x, hx, rfl⟩ := List.mem_map.mp ha
          simp only [List.mem_singleton] at hc
          exact hcr_p x hx (Or.inl hc)
      · intro l hl
        simp only [List.mem_cons, List.not_mem_nil, or_false] at hl
        rcases hl with rfl | rfl | rfl <;> rfl

/- ---------------- writes and attribute changes in the same burst ---------------- -/

/-- every operation is a creation, a write or an attribute change, valid when it is issued -/
def allFill (fs : FS) : List Op → Bool
  | [] => true
  | op :: rest => validOp fs op && fillKind op && allFill (fsAfter fs op) rest

theorem allFill_of_allGrow : ∀ (ops : List Op) (fs : FS), allGrow fs ops = true → allFill fs ops = true := by
  intro ops
  induction ops with
  | nil => intro _ _; rfl
  | cons op rest ih =>
    intro fs h
    simp only [allGrow, Bool.and_eq_true] at h
    simp [allFill, fillKind, h.1.1, h.1.2, ih _ h.2]

theorem touch_fs {fs : FS} {op : Op} (hk : touchKind op = true) : fsAfter fs op = fs := by
  cases op with
  | write p => rfl
  | chmod p => simp only [fsAfter, kernelOp]; cases fs.find? p <;> rfl
  | _ => simp [touchKind] at hk

theorem fill_cases {op : Op} (h : fillKind op = true) : growKind op = true ∨ touchKind op = true := by
  simpa [fillKind] using h

/-- a write or an attribute change: records that leave the maps alone (or none at all), no CREATE -/
theorem touch_step (ctx : GrowCtx fs0 F k lib0) (wfi : fsi.WF) (subF : ∀ e ∈ fsi.ents, e ∈ F.ents)
    {op : Op} (hvalid : validOp fsi op = true) (hkind : touchKind op = true) (st : GrowSt fs0 F k fsi kX libX cr) :
    ∃ recs levs, kernelOp fsi k op = (fsi, k, recs) ∧ libBatch F kX libX recs = some (kX, libX, levs) ∧
      creates levs = [] ∧ (∀ l ∈ levs, fillFlag l.flag = true) := by
  -- a watch of the kernel (as it was when the burst began) on an entry that exists now is known to the library
  have known : ∀ x ∈ fsi.ents, ∀ wd, k.wdOfIno x.ino = some wd → lookupW libX.pathForWd wd = some x.path := by
    intro x hx wd hw
    obtain ⟨e', he', hi, _, hl, _⟩ := st.inv.good _ (st.sub _ (wdOfIno_some hw))
    have : e' = x := ctx.wfF.ino_inj he' (subF x hx) hi
    subst this; exact hl
  have parentOfEntry : ∀ x ∈ fsi.ents, 2 ≤ x.path.length → ∃ par ∈ fsi.ents, fsi.find? (parentOf x.path) = some par := by
    intro x hx h2
    rcases wfi.parent hx with h | h | h
    · rw [h] at h2; simp at h2
    · rw [h] at h2; simp at h2
    · obtain ⟨par, hp, _⟩ := FS.isDir_iff.mp h.2
      exact ⟨par, (FS.find?_some hp).1, hp⟩
  cases op with
  | write p =>
    obtain ⟨f, hf, hfd⟩ := FS.isFile_iff.mp (by simpa [validOp] using hvalid)
    obtain ⟨hfm, hfp⟩ := FS.find?_some hf
    have h2 : 2 ≤ f.path.length := by
      rcases wfi.parent hfm with h | h | h
      · exfalso
        obtain ⟨w, hw, hwd⟩ := FS.isDir_iff.mp wfi.rootW
        have := wfi.path_inj hfm (FS.find?_some hw).1 (h.trans (FS.find?_some hw).2.symm)
        rw [this, hwd] at hfd; cases hfd
      · exfalso
        obtain ⟨w, hw, hwd⟩ := FS.isDir_iff.mp wfi.rootO
        have := wfi.path_inj hfm (FS.find?_some hw).1 (h.trans (FS.find?_some hw).2.symm)
        rw [this, hwd] at hfd; cases hfd
      · exact h.1
    obtain ⟨par, hparm, hpar⟩ := parentOfEntry f hfm h2
    rw [hfp] at hpar
    have hparp : par.path = parentOf p := (FS.find?_some hpar).2
    cases hw : k.wdOfIno par.ino with
    | none =>
      refine ⟨[], [], ?_, rfl, rfl, by simp⟩
      simp [kernelOp, hpar, onEntry_none hw]
    | some wd =>
      have hl := known par hparm wd hw
      rw [hparp] at hl
      refine ⟨[⟨wd, .open, false, 0, some (baseName p)⟩, ⟨wd, .modify, false, 0, some (baseName p)⟩, ⟨wd, .closeWrite, false, 0, some (baseName p)⟩],
        _, ?_, libBatch_simple F kX libX _ (fun _ => parentOf p) ?_, ?_, ?_⟩
      · simp [kernelOp, hpar, onEntry_some hw]
      · intro r hr
        simp only [List.mem_cons, List.not_mem_nil, or_false] at hr
        rcases hr with rfl | rfl | rfl <;> exact ⟨by simp [simpleFlag], hl⟩
      · simp [creates, NRec.toLEv]
      · intro l hl'
        simp only [List.map_cons, List.map_nil, List.mem_cons, List.not_mem_nil, or_false] at hl'
        rcases hl' with rfl | rfl | rfl <;> rfl
  | chmod p =>
    have hv := hvalid
    simp only [validOp, Bool.and_eq_true, decide_eq_true_eq] at hv
    obtain ⟨e, he⟩ := FS.exists_iff.mp hv.2
    obtain ⟨hem, hep⟩ := FS.find?_some he
    obtain ⟨par, hparm, hpar⟩ := parentOfEntry e hem (by rw [hep]; exact hv.1)
    rw [hep] at hpar
    have hparp : par.path = parentOf p := (FS.find?_some hpar).2
    -- the record on the entry itself (a watched directory), the record on its parent
    have hself : ∃ rs : List NRec, (if e.isDir then k.onSelf e.ino .attrib true else []) = rs ∧
        ∀ r ∈ rs, r.flag = .attrib ∧ r.name = none ∧ lookupW libX.pathForWd r.wd = some p := by
      cases hd : e.isDir with
      | false => exact ⟨[], by simp, by simp⟩
      | true =>
        cases hw : k.wdOfIno e.ino with
        | none => exact ⟨[], by simp [onSelf_none hw], by simp⟩
        | some wd =>
          refine ⟨[⟨wd, .attrib, true, 0, none⟩], by simp [onSelf_some hw], ?_⟩
          intro r hr; simp only [List.mem_singleton] at hr; subst hr
          exact ⟨rfl, rfl, by rw [← hep]; exact known e hem wd hw⟩
    have hparr : ∃ rs : List NRec, k.onEntry (some par.ino) .attrib e.isDir 0 (baseName p) = rs ∧
        ∀ r ∈ rs, r.flag = .attrib ∧ r.name = some (baseName p) ∧ lookupW libX.pathForWd r.wd = some (parentOf p) := by
      cases hw : k.wdOfIno par.ino with
      | none => exact ⟨[], by simp [onEntry_none hw], by simp⟩
      | some wd =>
        refine ⟨[⟨wd, .attrib, e.isDir, 0, some (baseName p)⟩], by simp [onEntry_some hw], ?_⟩
        intro r hr; simp only [List.mem_singleton] at hr; subst hr
        exact ⟨rfl, rfl, by rw [← hparp]; exact known par hparm wd hw⟩
    obtain ⟨rs1, h1, g1⟩ := hself
    obtain ⟨rs2, h2, g2⟩ := hparr
    refine ⟨rs1 ++ rs2, _, ?_, libBatch_simple F kX libX _ (fun r => match r.name with | none => p | some _ => parentOf p) ?_, ?_, ?_⟩
    · simp only [kernelOp, he, hpar, Option.map_some, h1, h2]
    · intro r hr
      rcases List.mem_append.mp hr with h | h
      · obtain ⟨a1, a2, a3⟩ := g1 r h
        exact ⟨by rw [a1]; simp [simpleFlag], by rw [a2]; exact a3⟩
      · obtain ⟨a1, a2, a3⟩ := g2 r h
        exact ⟨by rw [a1]; simp [simpleFlag], by rw [a2]; exact a3⟩
    · simp only [creates, List.filterMap_eq_nil_iff, List.mem_map]
      rintro l ⟨r, hr, rfl⟩
      have : r.flag = .attrib := by
        rcases List.mem_append.mp hr with h | h
        · exact (g1 r h).1
        · exact (g2 r h).1
      simp [NRec.toLEv, this]
    · intro l hl'
      obtain ⟨r, hr, rfl⟩ := List.mem_map.mp hl'
      have : r.flag = .attrib := by
        rcases List.mem_append.mp hr with h | h
        · exact (g1 r h).1
        · exact (g2 r h).1
      simp [NRec.toLEv, this, fillFlag]
  | _ => simp [touchKind] at hkind

/-- the file-system facts of `grow_facts` for populate bursts -/
theorem fill_facts : ∀ (ops : List Op) (fs : FS), fs.WF → allFill fs ops = true →
    (fsRun fs ops).WF ∧ (∀ e ∈ fs.ents, e ∈ (fsRun fs ops).ents) ∧
    (∀ e ∈ (fsRun fs ops).ents, e ∉ fs.ents → fs.nextIno ≤ e.ino) ∧
    ∃ news, (fsRun fs ops).ents = fs.ents ++ news ∧ Closed (fun q => fs.isDir q = true) news := by
  intro ops
  induction ops with
  | nil => intro fs hwf _; exact ⟨hwf, fun _ h => h, fun e he hn => absurd he hn, [], by simp [fsRun], trivial⟩
  | cons op rest ih =>
    intro fs hwf hv
    simp only [allFill, Bool.and_eq_true] at hv
    obtain ⟨⟨hvalid, hkind⟩, hrest⟩ := hv
    rcases fill_cases hkind with hg | ht
    · obtain ⟨p, b, _, hp, hne, hpar, hfs⟩ := grow_op hvalid hg
      have hwf1 := hwf.add hp hne hpar b
      rw [hfs] at hrest
      obtain ⟨i1, i2, i3, news, i4, i5⟩ := ih (fs.add p b) hwf1 hrest
      simp only [fsRun, hfs]
      refine ⟨i1, fun e he => i2 e (FS.mem_add.mpr (Or.inl he)), ?_, ⟨p, b, fs.nextIno⟩ :: news, ?_, ?_, ?_⟩
      · intro e he hn
        by_cases h1 : e ∈ (fs.add p b).ents
        · rcases FS.mem_add.mp h1 with h | h
          · exact absurd h hn
          · subst h; exact Nat.le_refl _
        · have := i3 e he h1; simp only [FS.add] at this; omega
      · rw [i4]; simp [FS.add]
      · exact hpar
      · refine i5.mono ?_
        intro q hq
        obtain ⟨e, he, hd⟩ := FS.isDir_iff.mp hq
        rw [FS.find?_add] at he
        cases hf : fs.find? q with
        | some e0 =>
          rw [hf] at he; simp at he; subst he
          exact Or.inl (FS.isDir_iff.mpr ⟨e0, hf, hd⟩)
        | none =>
          rw [hf] at he
          by_cases hpq : p = q
          · simp [hpq] at he; subst he; exact Or.inr ⟨hd, hpq.symm⟩
          · simp [hpq] at he
    · rw [touch_fs ht] at hrest
      simp only [fsRun, touch_fs ht]
      exact ih fs hwf hrest

theorem grow_batch (ctx : GrowCtx fs0 F k lib0) : ∀ (ops : List Op) (fsi : FS) (kX : Kern) (libX : Lib) (cr : List (P × Bool)),
    fsi.WF → (∀ e ∈ fs0.ents, e ∈ fsi.ents) → allFill fsi ops = true → fsRun fsi ops = F →
    GrowSt fs0 F k fsi kX libX cr →
    ∃ recs kY libY levs, kernelOps fsi k ops = (F, k, recs) ∧ libBatch F kX libX recs = some (kY, libY, levs) ∧
      GrowSt fs0 F k F kY libY (cr ++ creates levs) ∧
      (∀ l ∈ levs, fillFlag l.flag = true) := by
  intro ops
  induction ops with
  | nil =>
    intro fsi kX libX cr _ _ _ hF st
    simp only [fsRun] at hF; subst hF
    exact ⟨[], kX, libX, [], rfl, rfl, by simpa [creates] using st, by simp⟩
  | cons op rest ih =>
    intro fsi kX libX cr wfi sub0 hv hF st
    simp only [allFill, Bool.and_eq_true] at hv
    obtain ⟨⟨hvalid, hkind'⟩, hrest⟩ := hv
    simp only [fsRun] at hF
    rcases fill_cases hkind' with hkind | htouch
    · obtain ⟨p, b, _, hp, hne, hpar, hfs⟩ := grow_op hvalid hkind
      have wf1 : (fsAfter fsi op).WF := by rw [hfs]; exact wfi.add hp hne hpar b
      have sub1 : ∀ e ∈ fs0.ents, e ∈ (fsAfter fsi op).ents := by
        intro e he; rw [hfs]; exact FS.mem_add.mpr (Or.inl (sub0 e he))
      obtain ⟨_, g2, _, g4⟩ := fill_facts rest (fsAfter fsi op) wf1 hrest
      rw [hF] at g2 g4
      obtain ⟨r1, k1, l1, v1, hk1, hb1, st1, hf1⟩ := grow_step ctx wfi sub0 hvalid hkind g2 g4 st
      obtain ⟨r2, k2, l2, v2, hk2, hb2, st2, hf2⟩ := ih (fsAfter fsi op) k1 l1 (cr ++ creates v1) wf1 sub1 hrest hF st1
      refine ⟨r1 ++ r2, k2, l2, v1 ++ v2, ?_, ?_, ?_, ?_⟩
      · simp only [kernelOps, hk1, hk2]
      · rw [libBatch_append _ _ _ _ _ hb1, hb2]
      · rw [creates_append, ← List.append_assoc]; exact st2
      · intro l hl
        rcases List.mem_append.mp hl with h | h
        · exact hf1 l h
        · exact hf2 l h
    · -- a write / attribute change: the tree and the maps stay as they are
      have hfs := touch_fs (fs := fsi) htouch
      rw [hfs] at hrest hF
      obtain ⟨_, g2, _, _⟩ := fill_facts rest fsi wfi hrest
      rw [hF] at g2
      obtain ⟨r1, v1, hk1, hb1, hc1, hf1⟩ := touch_step ctx wfi g2 hvalid htouch st
      obtain ⟨r2, k2, l2, v2, hk2, hb2, st2, hf2⟩ := ih fsi kX libX cr wfi sub0 hrest hF st
      refine ⟨r1 ++ r2, k2, l2, v1 ++ v2, ?_, ?_, ?_, ?_⟩
      · simp only [kernelOps, hk1, hk2]
      · rw [libBatch_append _ _ _ _ _ hb1, hb2]
      · rw [creates_append, hc1, List.nil_append]; exact st2
      · intro l hl
        rcases List.mem_append.mp hl with h | h
        · exact hf1 l h
        · exact hf2 l h

/- ---------------- what the emitter makes of it ---------------- -/

theorem emit_grow (fsX : FS) (full : Bool) (l : LEv) (h : fillFlag l.flag = true) (t : Tree) :
    (emit fsX true full (.one l)).2 = false ∧
    replay t (emit fsX true full (.one l)).1 = (if l.flag = .create then setEntry t l.src l.isDir else t) ∧
    createdOf (emit fsX true full (.one l)).1 = (if l.flag = .create then [(l.src, l.isDir)] else []) := by
  obtain ⟨wd, flag, isDir, cookie, name, src⟩ := l
  simp only at h ⊢
  cases flag <;> simp [fillFlag] at h <;> cases isDir <;>
    simp [emit, replay, applyEv, mkEv, createdOf, EvClass.eventType, EvClass.isDirectory]

theorem emit_grow_all (fsX : FS) (full : Bool) : ∀ (levs : List LEv) (t : Tree),
    (∀ l ∈ levs, fillFlag l.flag = true) →
    ((creates levs).map (·.1)).Nodup → (∀ x ∈ creates levs, ∀ y ∈ t, y.1 ≠ x.1) →
    (∀ y, y ∈ replay t (levs.flatMap (fun l => (emit fsX true full (.one l)).1)) ↔ y ∈ t ∨ y ∈ creates levs) ∧
    createdOf (levs.flatMap (fun l => (emit fsX true full (.one l)).1)) = creates levs := by
  intro levs
  induction levs with
  | nil => intro t _ _ _; simp [replay, creates, createdOf]
  | cons l rest ih =>
    intro t hf hnd hdis
    obtain ⟨_, h2, h3⟩ := emit_grow fsX full l (hf l (List.mem_cons_self ..)) t
    have hf' : ∀ x ∈ rest, fillFlag x.flag = true :=
      fun x hx => hf x (List.mem_cons_of_mem _ hx)
    have hco : createdOf (List.flatMap (fun l => (emit fsX true full (.one l)).1) (l :: rest)) =
        createdOf (emit fsX true full (.one l)).1 ++ createdOf (rest.flatMap (fun l => (emit fsX true full (.one l)).1)) := by
      simp [createdOf, List.filterMap_append]
    simp only [List.flatMap_cons, replay_append, h2]
    by_cases hc : l.flag = .create
    · have hcr : creates (l :: rest) = (l.src, l.isDir) :: creates rest := by simp [creates, hc]
      rw [hcr] at hnd hdis ⊢
      simp only [List.map_cons, List.nodup_cons] at hnd
      have hdis' : ∀ x ∈ creates rest, ∀ y ∈ setEntry t l.src l.isDir, y.1 ≠ x.1 := by
        intro x hx y hy
        rcases mem_setEntry.mp hy with ⟨hy1, _⟩ | rfl
        · exact hdis x (List.mem_cons_of_mem _ hx) y hy1
        · intro h; exact hnd.1 (List.mem_map.mpr ⟨x, hx, h.symm⟩)
      obtain ⟨i1, i2⟩ := ih (setEntry t l.src l.isDir) hf' hnd.2 hdis'
      simp only [hc, if_true]
      refine ⟨?_, ?_⟩
      · intro y
        rw [i1 y, mem_setEntry]
        constructor
        · rintro ((⟨h, _⟩ | h) | h)
          · exact Or.inl h
          · exact Or.inr (h ▸ List.mem_cons_self ..)
          · exact Or.inr (List.mem_cons_of_mem _ h)
        · rintro (h | h)
          · exact Or.inl (Or.inl ⟨h, hdis _ (List.mem_cons_self ..) y h⟩)
          · rcases List.mem_cons.mp h with h | h
            · exact Or.inl (Or.inr h)
            · exact Or.inr h
      · have := hco; simp only [List.flatMap_cons] at this
        rw [this, h3, i2]; simp [hc]
    · have hcr : creates (l :: rest) = creates rest := by simp [creates, hc]
      rw [hcr] at hnd hdis ⊢
      obtain ⟨i1, i2⟩ := ih t hf' hnd hdis
      simp only [hc, if_false]
      refine ⟨i1, ?_⟩
      have := hco; simp only [List.flatMap_cons] at this
      rw [this, h3, i2]; simp [hc]

/-- **back-to-back regime, growth**: a burst of `mkdir`s, file creations, writes and attribute changes at any depth
    (directories created inside directories the burst itself created, populated before the reader wakes up), read as ONE
    batch after its last operation, under a recursive watch.  The reader does not crash, the emitter keeps running, every directory that
    exists afterwards is watched under its name (the invariant holds again), the stream holds exactly one created event
    per new entry of the tree, with the right kind, and replaying it on the tree before the burst gives the tree after -/
theorem burst_grow (s : Sys) (ops : List Op) (inv : InvRec s.fs s.k s.lib) (hs : s.stopped = false)
    (hc : s.crashed = false) (hv : allFill s.fs ops = true) :
    (s.burst ops).1.fs = fsRun s.fs ops ∧ (s.burst ops).1.stopped = false ∧ (s.burst ops).1.crashed = false ∧
    InvRec (s.burst ops).1.fs (s.burst ops).1.k (s.burst ops).1.lib ∧
    sameTree (replay (treeW s.fs) (s.burst ops).2) (treeW (fsRun s.fs ops)) ∧
    ((createdOf (s.burst ops).2).map (·.1)).Nodup ∧
    (∀ x, x ∈ createdOf (s.burst ops).2 ↔
      ∃ e ∈ (fsRun s.fs ops).ents, e ∉ s.fs.ents ∧ isUnder ["W"] e.path = true ∧ x = (e.path, e.isDir)) := by
  obtain ⟨g1, g2, g3, _⟩ := fill_facts ops s.fs inv.wf hv
  have ctx : GrowCtx s.fs (fsRun s.fs ops) s.k s.lib := ⟨inv, g1, g2, g3⟩
  have st0 : GrowSt s.fs (fsRun s.fs ops) s.k s.fs s.k s.lib [] := by
    refine ⟨(inv.fs_grow g1 g2).mono ?_, fun _ h => h, ?_, by simp, ?_, by simp⟩
    · intro e _ _ hc'
      rcases hc' with h | ⟨d, hd, hd0, _⟩
      · exact ⟨trivial, h⟩
      · exact absurd hd hd0
    · intro w hw
      obtain ⟨e, he, hi, _⟩ := inv.good w hw
      exact ⟨e, g2 e he, hi, Or.inl he⟩
    · rintro e _ _ _ ⟨d, hd, hd0, _⟩; exact absurd hd hd0
  obtain ⟨recs, kY, libY, levs, hk, hb, st, hf⟩ := grow_batch ctx ops s.fs s.k s.lib [] inv.wf (fun _ h => h) hv rfl st0
  simp only [List.nil_append] at st
  have hflags : ∀ e ∈ levs, e.flag ≠ .movedTo ∧ e.flag ≠ .ignored := by
    intro e he; have := hf e he; cases hfl : e.flag <;> simp [fillFlag, hfl] at this ⊢
  have hgs := gsOf_simple _ hflags
  have hmo : movedOut (gsOf levs) = [] := by
    rw [hgs]; apply movedOut_ones_nil
    intro l hl; have := hf l hl; cases hfl : l.flag <;> simp [fillFlag, hfl] at this ⊢
  have hrecY : libY.recursive = true := st.inv.isRec
  have hem : emitAll (fsRun s.fs ops) libY.recursive s.full (gsOf levs) =
      (levs.flatMap (fun l => (emit (fsRun s.fs ops) true s.full (.one l)).1), false) := by
    rw [hgs, hrecY, emitAll_nostop]
    · simp [List.flatMap_map]
    · intro g hg
      obtain ⟨l, hl, rfl⟩ := List.mem_map.mp hg
      exact (emit_grow _ _ l (hf l hl) []).1
  have hburst : s.burst ops = ({ s with fs := fsRun s.fs ops, k := kY, lib := libY, stopped := false },
      levs.flatMap (fun l => (emit (fsRun s.fs ops) true s.full (.one l)).1)) := by
    unfold Sys.burst
    simp only [hk, hs, hc, Bool.or_self, Bool.false_eq_true, if_false, hb, hem, departed_nil _ hmo]
    simp [forgetAll_nil]
  have hdis : ∀ x ∈ creates levs, ∀ y ∈ treeW s.fs, y.1 ≠ x.1 := by
    intro x hx y hy hxy
    obtain ⟨e, he, h0, _, hxe, _⟩ := st.e1 x hx
    obtain ⟨e', he', hp', _, _⟩ := mem_treeW.mp hy
    have : e' = e := g1.path_inj (g2 e' he') he (by rw [hp', hxy, hxe])
    subst this; exact h0 he'
  obtain ⟨r1, r2⟩ := emit_grow_all (fsRun s.fs ops) s.full levs (treeW s.fs) hf st.e3 hdis
  have hchar : ∀ x, x ∈ creates levs ↔
      ∃ e ∈ (fsRun s.fs ops).ents, e ∉ s.fs.ents ∧ isUnder ["W"] e.path = true ∧ x = (e.path, e.isDir) := by
    intro x
    constructor
    · intro hx
      obtain ⟨e, he, h0, hW, hxe, _⟩ := st.e1 x hx
      exact ⟨e, he, h0, hW, hxe⟩
    · rintro ⟨e, he, h0, hW, rfl⟩
      exact st.e2 e he h0 hW ⟨e, he, h0, Or.inl rfl⟩
  rw [hburst]
  refine ⟨rfl, rfl, hc, ?_, ?_, by rw [r2]; exact st.e3, by intro x; rw [r2]; exact hchar x⟩
  · refine st.inv.mono ?_
    intro e he _ _
    by_cases h0 : e ∈ s.fs.ents
    · exact Or.inl h0
    · exact Or.inr ⟨e, he, h0, Or.inl rfl⟩
  · intro y
    simp only
    rw [r1 y, hchar, mem_treeW, mem_treeW]
    constructor
    · rintro (⟨e, he, h1, h2, h3⟩ | ⟨e, he, _, hW, rfl⟩)
      · exact ⟨e, g2 e he, h1, h2, h3⟩
      · exact ⟨e, he, rfl, rfl, hW⟩
    · rintro ⟨e, he, h1, h2, h3⟩
      by_cases h0 : e ∈ s.fs.ents
      · exact Or.inl ⟨e, h0, h1, h2, h3⟩
      · exact Or.inr ⟨e, he, h0, h1 ▸ h3, Prod.ext h1.symm h2.symm⟩

/-- the state after any drained history that left the root in place satisfies the hypotheses of `burst_grow` -/
theorem after_history (fs0 : FS) (hwf : fs0.WF) (full : Bool) (pre : List Op)
    (hv : allValid (Sys.start fs0 true full) pre = true) (hroot : Op.rmdir ["W"] ∉ pre) :
    InvRec ((Sys.start fs0 true full).run pre).1.fs ((Sys.start fs0 true full).run pre).1.k ((Sys.start fs0 true full).run pre).1.lib ∧
    ((Sys.start fs0 true full).run pre).1.stopped = false ∧ ((Sys.start fs0 true full).run pre).1.crashed = false := by
  obtain ⟨inv, hs, hc, _, _⟩ := start_rec fs0 hwf full
  have hr := run_rec _ pre inv hs hc hv
  have hst : ((Sys.start fs0 true full).run pre).1.stopped = false := by
    cases h : ((Sys.start fs0 true full).run pre).1.stopped
    · rfl
    · exact absurd ((stopped_iff _ pre inv hs hc hv).1 h) hroot
  exact ⟨hr.2.2 hst, hst, hr.2.1⟩

/-- the executable twin decides the hypothesis -/
theorem allFill_of_check (s : Sys) (ops : List Op) (h : allFillB s ops = true) : allFill s.fs ops = true := by
  have gen : ∀ (ops : List Op) (fs : FS) (b : Bool),
      (ops.foldl (fun (acc : FS × Bool) op => ((kernelOp acc.1 s.k op).1, acc.2 && validOp acc.1 op && fillKind op)) (fs, b)).2 = true →
      b = true ∧ allFill fs ops = true := by
    intro ops
    induction ops with
    | nil => intro fs b h; exact ⟨h, rfl⟩
    | cons op rest ih =>
      intro fs b h
      simp only [List.foldl_cons] at h
      obtain ⟨h1, h2⟩ := ih _ _ h
      simp only [Bool.and_eq_true] at h1
      refine ⟨h1.1.1, ?_⟩
      simp only [allFill, h1.1.2, h1.2, Bool.true_and]
      rw [fsAfter, kernelOp_fs fs ⟨[], 1, 1⟩ s.k]; exact h2
  exact (gen ops s.fs true h).2

end WD.Pipe
