/- C01's replay: trees as sets of (path, kind), and what the events do to them -/
import WD.Proofs.Pipeline.Run
set_option linter.unusedSimpArgs false
namespace WD.Pipe

theorem mem_treeW {fs : FS} {y : P × Bool} :
    y ∈ treeW fs ↔ ∃ e ∈ fs.ents, e.path = y.1 ∧ e.isDir = y.2 ∧ isUnder ["W"] y.1 = true := by
  simp only [treeW, List.mem_map, List.mem_filter]
  constructor
  · rintro ⟨e, ⟨he, hu⟩, rfl⟩; exact ⟨e, he, rfl, rfl, hu⟩
  · rintro ⟨e, he, h1, h2, h3⟩; exact ⟨e, ⟨he, h1 ▸ h3⟩, Prod.ext h1 h2⟩

theorem mem_setEntry {t : Tree} {p : P} {d : Bool} {y : P × Bool} :
    y ∈ setEntry t p d ↔ (y ∈ t ∧ y.1 ≠ p) ∨ y = (p, d) := by
  simp [setEntry, List.mem_filter]

theorem mem_eraseSub {t : Tree} {p : P} {y : P × Bool} :
    y ∈ eraseSub t p ↔ y ∈ t ∧ y.1 ≠ p ∧ isUnder p y.1 = false := by
  simp [eraseSub, List.mem_filter]

theorem applyEv_created (t : Tree) (c : EvClass) (h : c.eventType = "created") (p q : P) (s : Bool) :
    applyEv t ⟨c, p, q, s⟩ = setEntry t p c.isDirectory := by simp [applyEv, h]
theorem applyEv_deleted (t : Tree) (c : EvClass) (h : c.eventType = "deleted") (p q : P) (s : Bool) :
    applyEv t ⟨c, p, q, s⟩ = eraseSub t p := by simp [applyEv, h]
theorem applyEv_moved (t : Tree) (c : EvClass) (h : c.eventType = "moved") (p q : P) (s : Bool) :
    applyEv t ⟨c, p, q, s⟩ =
      (let t1 := if p = [] then t else eraseSub t p
       if q = [] then t1 else setEntry t1 q c.isDirectory) := by simp [applyEv, h]
theorem applyEv_other (t : Tree) (c : EvClass)
    (h : c.eventType ≠ "created" ∧ c.eventType ≠ "deleted" ∧ c.eventType ≠ "moved") (p q : P) (s : Bool) :
    applyEv t ⟨c, p, q, s⟩ = t := by
  simp only [applyEv]
  split
  · rename_i h1; exact absurd h1 h.1
  · rename_i h1; exact absurd h1 h.2.1
  · rename_i h1; exact absurd h1 h.2.2
  · rfl

theorem replay_nil (t : Tree) : replay t [] = t := rfl
theorem replay_cons (t : Tree) (e : PEv) (es : List PEv) : replay t (e :: es) = replay (applyEv t e) es := rfl
theorem replay_append (t : Tree) (a b : List PEv) : replay t (a ++ b) = replay (replay t a) b := by
  simp [replay, List.foldl_append]

/-- a directory-modified event does nothing to the replayed tree -/
theorem applyEv_dirMod (t : Tree) (p : P) : applyEv t (dirMod p) = t := by
  simp only [dirMod, mkEv]
  exact applyEv_other t _ (by decide) _ _ _

theorem sameTree_refl (t : Tree) : sameTree t t := fun _ => Iff.rfl
theorem sameTree_trans {a b c : Tree} (h1 : sameTree a b) (h2 : sameTree b c) : sameTree a c := fun x => (h1 x).trans (h2 x)
theorem sameTree_symm {a b : Tree} (h : sameTree a b) : sameTree b a := fun x => (h x).symm

theorem sameTree_setEntry {a b : Tree} (h : sameTree a b) (p : P) (d : Bool) : sameTree (setEntry a p d) (setEntry b p d) := by
  intro y; rw [mem_setEntry, mem_setEntry, h y]
theorem sameTree_eraseSub {a b : Tree} (h : sameTree a b) (p : P) : sameTree (eraseSub a p) (eraseSub b p) := by
  intro y; rw [mem_eraseSub, mem_eraseSub, h y]

theorem sameTree_applyEv {a b : Tree} (h : sameTree a b) (e : PEv) : sameTree (applyEv a e) (applyEv b e) := by
  obtain ⟨c, p, q, s⟩ := e
  simp only [applyEv]
  split
  · exact sameTree_setEntry h _ _
  · exact sameTree_eraseSub h _
  · by_cases hp : p = [] <;> by_cases hq : q = [] <;> simp only [hp, hq, if_true, if_false]
    · exact h
    · exact sameTree_setEntry h _ _
    · exact sameTree_eraseSub h _
    · exact sameTree_setEntry (sameTree_eraseSub h _) _ _
  · exact h

theorem sameTree_replay {a b : Tree} (h : sameTree a b) (es : List PEv) : sameTree (replay a es) (replay b es) := by
  induction es generalizing a b with
  | nil => exact h
  | cons e rest ih => exact ih (sameTree_applyEv h e)

end WD.Pipe
