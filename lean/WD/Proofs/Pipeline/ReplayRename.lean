/- C01: replaying the contract's events of a rename -/
import WD.Proofs.Pipeline.ReplayOps
set_option linter.unusedSimpArgs false
namespace WD.Pipe

variable {fs : FS} {p q : P} {e : Ent}

theorem replay_renameTail (t : Tree) (fs : FS) (q : P) : replay t (renameTail fs true q) = t := by
  simp only [renameTail]
  cases fs.find? q with
  | none => rfl
  | some old =>
    simp only
    split
    · simp [replay_cons, replay_nil, applyEv_mk_dmod]
    · rfl

/-- synthetic created events place the descendants -/
theorem mem_replay_subCreated (D : List Ent) (hnd : (D.map Ent.path).Nodup) (t : Tree) (y : P × Bool) :
    y ∈ replay t (D.map (fun e => mkEv (if e.isDir then EvClass.DirCreatedEvent else .FileCreatedEvent) e.path [] true)) ↔
      (y ∈ t ∧ y.1 ∉ D.map Ent.path) ∨ y ∈ D.map (fun e => (e.path, e.isDir)) := by
  induction D generalizing t with
  | nil => simp [replay_nil]
  | cons d rest ih =>
    simp only [List.map_cons, List.nodup_cons] at hnd
    simp only [List.map_cons, replay_cons]
    have hap : applyEv t (mkEv (if d.isDir then EvClass.DirCreatedEvent else .FileCreatedEvent) d.path [] true) = setEntry t d.path d.isDir := by
      cases d.isDir <;> exact applyEv_created _ _ rfl _ _ _
    rw [hap, ih hnd.2, mem_setEntry]
    simp only [List.mem_cons, not_or]
    constructor
    · rintro (⟨(⟨h1, h2⟩ | h1), h3⟩ | h1)
      · exact Or.inl ⟨h1, h2, h3⟩
      · exact Or.inr (Or.inl h1)
      · exact Or.inr (Or.inr h1)
    · rintro (⟨h1, h2, h3⟩ | h1 | h1)
      · exact Or.inl ⟨Or.inl ⟨h1, h2⟩, h3⟩
      · refine Or.inl ⟨Or.inr h1, ?_⟩
        rw [h1]; exact hnd.1
      · exact Or.inr h1

/-- synthetic moved events place the descendants (their old places are empty already) -/
theorem mem_replay_subMoved (src : P) (D : List Ent) (hnd : (D.map Ent.path).Nodup) (hq : ∀ d ∈ D, isUnder q d.path = true)
    (hinc : ∀ z, isUnder q z = true → z ≠ src ∧ isUnder src z = false) (hsrc : src ≠ [])
    (t : Tree) (ht : ∀ y ∈ t, y.1 ≠ src ∧ isUnder src y.1 = false) (y : P × Bool) :
    y ∈ replay t (D.map (fun e => mkEv (if e.isDir then EvClass.DirMovedEvent else .FileMovedEvent) (src ++ e.path.drop q.length) e.path true)) ↔
      (y ∈ t ∧ y.1 ∉ D.map Ent.path) ∨ y ∈ D.map (fun e => (e.path, e.isDir)) := by
  induction D generalizing t with
  | nil => simp [replay_nil]
  | cons d rest ih =>
    simp only [List.map_cons, List.nodup_cons] at hnd
    simp only [List.map_cons, replay_cons]
    have hdq := hq d (List.mem_cons_self ..)
    have hdn : d.path ≠ [] := by intro h; rw [h] at hdq; have := isUnder_length hdq; simp at this
    have hsn : src ++ d.path.drop q.length ≠ [] := by simp [hsrc]
    have hap : applyEv t (mkEv (if d.isDir then EvClass.DirMovedEvent else .FileMovedEvent) (src ++ d.path.drop q.length) d.path true) =
        setEntry (eraseSub t (src ++ d.path.drop q.length)) d.path d.isDir := by
      cases d.isDir <;> (rw [show ∀ c, mkEv c (src ++ d.path.drop q.length) d.path true = ⟨c, src ++ d.path.drop q.length, d.path, true⟩ from fun _ => rfl,
        applyEv_moved _ _ rfl]; simp [hsn, hdn, EvClass.isDirectory])
    rw [hap]
    -- erasing below `src` does nothing: nothing is there
    have hrel : isUnder src (src ++ d.path.drop q.length) = true := by
      obtain ⟨r, hr, hdr⟩ := isUnder_iff.mp hdq
      rw [hdr]; simp only [List.drop_left']; exact isUnder_append src hr
    have herase : ∀ y, y ∈ eraseSub t (src ++ d.path.drop q.length) ↔ y ∈ t := by
      intro y; rw [mem_eraseSub]
      constructor
      · exact fun h => h.1
      · intro h
        refine ⟨h, ?_, ?_⟩
        · intro hh; have := (ht y h).2; rw [hh, hrel] at this; cases this
        · cases hc : isUnder (src ++ d.path.drop q.length) y.1 with
          | false => rfl
          | true => have := (ht y h).2; rw [isUnder_trans hrel hc] at this; cases this
    have ht' : ∀ y ∈ setEntry (eraseSub t (src ++ d.path.drop q.length)) d.path d.isDir, y.1 ≠ src ∧ isUnder src y.1 = false := by
      intro y hy
      rcases mem_setEntry.mp hy with ⟨h1, _⟩ | h1
      · exact ht y ((herase y).mp h1)
      · rw [h1]; exact hinc _ hdq
    rw [ih hnd.2 (fun x hx => hq x (List.mem_cons_of_mem _ hx)) _ ht', mem_setEntry, herase]
    simp only [List.mem_cons, not_or]
    constructor
    · rintro (⟨(⟨h1, h2⟩ | h1), h3⟩ | h1)
      · exact Or.inl ⟨h1, h2, h3⟩
      · exact Or.inr (Or.inl h1)
      · exact Or.inr (Or.inr h1)
    · rintro (⟨h1, h2, h3⟩ | h1 | h1)
      · exact Or.inl ⟨Or.inl ⟨h1, h2⟩, h3⟩
      · refine Or.inl ⟨Or.inr h1, ?_⟩
        rw [h1]; exact hnd.1
      · exact Or.inr h1

/-- is an entry at or below `p` in the tree — before and after the move? -/
theorem RenameOK.moved_underW (ok : RenameOK fs p q e) (hwf : fs.WF) {x : P} (hx : x = p ∨ isUnder p x = true) :
    isUnder ["W"] x = watchedDir fs true (parentOf p) ∧ isUnder ["W"] (rwPath p q x) = watchedDir fs true (parentOf q) := by
  have hem := FS.find?_some ok.he
  have hppar : fs.isDir (parentOf p) = true := by
    rcases hwf.parent hem.1 with h | h | h
    · rw [hem.2] at h; rw [h] at ok; have := ok.hp2; simp at this
    · rw [hem.2] at h; rw [h] at ok; have := ok.hp2; simp at this
    · rw [hem.2] at h; exact h.2
  rw [← isUnderW_iff_parent ok.hp2 hppar, ← isUnderW_iff_parent ok.hq2 ok.hqpar]
  rcases hx with h | h
  · rw [h, rwPath_at]; exact ⟨rfl, rfl⟩
  · rw [rwPath_under h]; exact ⟨isUnderW_of_under ok.hp2 h, isUnderW_append ok.hq2⟩

/-- the tree after the rename, entry by entry -/
theorem mem_treeW_renamed (ok : RenameOK fs p q e) (y : P × Bool) :
    y ∈ treeW (fs.renamed p q) ↔ ∃ x ∈ fs.ents, x.path ≠ q ∧ rwPath p q x.path = y.1 ∧ x.isDir = y.2 ∧ isUnder ["W"] y.1 = true := by
  rw [mem_treeW]
  constructor
  · rintro ⟨z, hz, h1, h2, h3⟩
    obtain ⟨x, hx, hxq, rfl⟩ := FS.mem_renamed.mp hz
    exact ⟨x, hx, hxq, h1, h2, h3⟩
  · rintro ⟨x, hx, hxq, h1, h2, h3⟩
    exact ⟨rwEnt p q x, FS.mem_renamed.mpr ⟨x, hx, hxq, rfl⟩, h1, h2, h3⟩

end WD.Pipe

namespace WD.Pipe
variable {fs : FS} {p q : P} {e : Ent}

theorem applyEv_mk_moved (t : Tree) (d : Bool) (p q : P) (hp : p ≠ []) (hq : q ≠ []) :
    applyEv t (mkEv (movedCls d) p q) = setEntry (eraseSub t p) q d := by
  cases d <;> simp [mkEv, movedCls, applyEv, EvClass.eventType, EvClass.isDirectory, hp, hq]
theorem applyEv_mk_moved_out (t : Tree) (d : Bool) (p : P) (hp : p ≠ []) :
    applyEv t (mkEv (movedCls d) p []) = eraseSub t p := by
  cases d <;> simp [mkEv, movedCls, applyEv, EvClass.eventType, hp]
theorem applyEv_mk_moved_in (t : Tree) (d : Bool) (q : P) (hq : q ≠ []) :
    applyEv t (mkEv (movedCls d) [] q) = setEntry t q d := by
  cases d <;> simp [mkEv, movedCls, applyEv, EvClass.eventType, EvClass.isDirectory, hq]

theorem replay_rename (hwf : fs.WF) (full : Bool) (p q : P) (hv : validOp fs (.rename p q) = true) :
    sameTree (replay (treeW fs) (contract fs true full (.rename p q)).1) (treeW (fsAfter fs (.rename p q))) := by
  obtain ⟨e, ok⟩ := renameOK_of_valid hv
  have hem := FS.find?_some ok.he
  have hfree := ok.q_free hwf
  have hwfR := ok.wf hwf
  have hpn : p ≠ [] := ne_nil_of_two_le ok.hp2
  have hqn : q ≠ [] := ne_nil_of_two_le ok.hq2
  have hpq : isUnder q p = false := by
    have := hfree e hem.1 (by rw [hem.2]; exact ok.hne); rwa [hem.2] at this
  have hinc : ∀ z, isUnder q z = true → z ≠ p ∧ isUnder p z = false := by
    intro z hz
    constructor
    · intro h; rw [h, hpq] at hz; cases hz
    · cases hc : isUnder p z with
      | false => rfl
      | true =>
        rcases prefix_comparable hz hc with h | h | h
        · exact absurd h.symm ok.hne
        · rw [hpq] at h; cases h
        · rw [ok.hnu] at h; cases h
  -- the descendants of `q` after the move are what was below `p`
  let D := (fs.renamed p q).descendants q
  have hDnd : (D.map Ent.path).Nodup :=
    List.Nodup.sublist (List.Sublist.map _ List.filter_sublist) hwfR.paths
  have hDq : ∀ d ∈ D, isUnder q d.path = true := fun d hd => (List.mem_filter.mp hd).2
  have hDmem : ∀ z : P × Bool, z ∈ D.map (fun e => (e.path, e.isDir)) ↔
      ∃ x ∈ fs.ents, x.path ≠ q ∧ isUnder p x.path = true ∧ z = (rwPath p q x.path, x.isDir) := by
    intro z
    simp only [List.mem_map]
    constructor
    · rintro ⟨d, hd, rfl⟩
      obtain ⟨hd1, hd2⟩ := List.mem_filter.mp hd
      obtain ⟨x, hx, hxq, rfl⟩ := FS.mem_renamed.mp hd1
      refine ⟨x, hx, hxq, ?_, rfl⟩
      rcases rwPath_cases p q x.path with ⟨_, e1⟩ | ⟨h1, _, _⟩ | ⟨_, _, e1⟩
      · simp only [rwEnt, e1, isUnder_irrefl] at hd2; cases hd2
      · exact h1
      · simp only [rwEnt, e1] at hd2; rw [hfree x hx hxq] at hd2; cases hd2
    · rintro ⟨x, hx, hxq, hxu, rfl⟩
      refine ⟨rwEnt p q x, List.mem_filter.mpr ⟨FS.mem_renamed.mpr ⟨x, hx, hxq, rfl⟩, ?_⟩, rfl⟩
      simp only [rwEnt, rwPath_under hxu]; exact rewrite_under hxu
  have hDpaths : ∀ z : P, z ∈ D.map Ent.path → isUnder q z = true := by
    intro z hz; obtain ⟨d, hd, rfl⟩ := List.mem_map.mp hz; exact hDq d hd
  rw [fsAfter_rename ok, contract_rename fs full p q e ok]
  intro y
  rw [mem_treeW_renamed ok]
  have hsubM : subMoved (fs.renamed p q) p q = D.map (fun e => mkEv (if e.isDir then EvClass.DirMovedEvent else .FileMovedEvent) (p ++ e.path.drop q.length) e.path true) := rfl
  have hsubC : subCreated (fs.renamed p q) q = D.map (fun e => mkEv (if e.isDir then EvClass.DirCreatedEvent else .FileCreatedEvent) e.path [] true) := rfl
  -- a file has nothing below it, before or after
  have hDfile : e.isDir = false → D = [] := by
    intro hf
    rw [List.eq_nil_iff_forall_not_mem]
    intro d hd
    have : (d.path, d.isDir) ∈ D.map (fun e => (e.path, e.isDir)) := List.mem_map.mpr ⟨d, hd, rfl⟩
    obtain ⟨x, hx, _, hxu, _⟩ := (hDmem _).mp this
    have := hwf.file_no_desc ok.he hf hpn x hx; rw [hxu] at this; cases this
  have hevM : replay (setEntry (eraseSub (treeW fs) p) q e.isDir) (if e.isDir then subMoved (fs.renamed p q) p q else []) =
      replay (setEntry (eraseSub (treeW fs) p) q e.isDir) (subMoved (fs.renamed p q) p q) := by
    cases hd : e.isDir with
    | true => rfl
    | false => rw [hsubM, hDfile hd]; rfl
  have hevC : replay (setEntry (treeW fs) q e.isDir) (if e.isDir then subCreated (fs.renamed p q) q else []) =
      replay (setEntry (treeW fs) q e.isDir) (subCreated (fs.renamed p q) q) := by
    cases hd : e.isDir with
    | true => rfl
    | false => rw [hsubC, hDfile hd]; rfl
  have hmain := applyEv_mk_moved (treeW fs) e.isDir p q hpn hqn
  have hmainOut := applyEv_mk_moved_out (treeW fs) e.isDir p hpn
  have hmainIn := applyEv_mk_moved_in (treeW fs) e.isDir q hqn
  cases hwp : watchedDir fs true (parentOf p) <;> cases hwq : watchedDir fs true (parentOf q)
  · -- outside → outside
    simp only [Bool.false_and, Bool.false_eq_true, if_false, replay_nil, mem_treeW]
    constructor
    · rintro ⟨x, hx, h1, h2, h3⟩
      have hxq : x.path ≠ q := by
        intro h
        have : isUnder ["W"] q = true := by rw [← h, h1]; exact h3
        rw [isUnderW_iff_parent ok.hq2 ok.hqpar, hwq] at this; cases this
      have hunm : x.path ≠ p ∧ isUnder p x.path = false := by
        constructor
        · intro h; have := (ok.moved_underW hwf (Or.inl h)).1; rw [h1, h3, hwp] at this; cases this
        · cases hc : isUnder p x.path with
          | false => rfl
          | true => have := (ok.moved_underW hwf (Or.inr hc)).1; rw [h1, h3, hwp] at this; cases this
      exact ⟨x, hx, hxq, by rw [rwPath_other hunm.1 hunm.2]; exact h1, h2, h3⟩
    · rintro ⟨x, hx, hxq, h1, h2, h3⟩
      rcases rwPath_cases p q x.path with ⟨c1, _⟩ | ⟨c1, _, _⟩ | ⟨c1, c2, e1⟩
      · have := (ok.moved_underW hwf (Or.inl c1)).2; rw [h1, h3, hwq] at this; cases this
      · have := (ok.moved_underW hwf (Or.inr c1)).2; rw [h1, h3, hwq] at this; cases this
      · rw [e1] at h1; exact ⟨x, hx, h1, h2, h3⟩
  · -- into the tree
    simp only [Bool.false_and, Bool.false_eq_true, if_false, if_true, replay_append, replay_renameTail]
    have hfirst : replay (replay (treeW fs) (if full then [mkEv (movedCls e.isDir) [] q] else [mkEv (createdCls e.isDir) q])) [dirMod q] =
        setEntry (treeW fs) q e.isDir := by
      cases full <;> simp [replay_cons, replay_nil, applyEv_dirMod, applyEv_mk_created, hmainIn]
    rw [hfirst, hevC, hsubC, mem_replay_subCreated D hDnd, mem_setEntry, hDmem, mem_treeW]
    constructor
    · rintro (⟨(⟨⟨x, hx, h1, h2, h3⟩, hyq⟩ | hyq), hyD⟩ | ⟨x, hx, hxq, hxu, rfl⟩)
      · have hunm : x.path ≠ p ∧ isUnder p x.path = false := by
          constructor
          · intro h; have := (ok.moved_underW hwf (Or.inl h)).1; rw [h1, h3, hwp] at this; cases this
          · cases hc : isUnder p x.path with
            | false => rfl
            | true => have := (ok.moved_underW hwf (Or.inr hc)).1; rw [h1, h3, hwp] at this; cases this
        exact ⟨x, hx, by rw [h1]; exact hyq, by rw [rwPath_other hunm.1 hunm.2]; exact h1, h2, h3⟩
      · refine ⟨e, hem.1, by rw [hem.2]; exact ok.hne, by rw [hem.2, rwPath_at, hyq], by rw [hyq], ?_⟩
        rw [hyq]; simp only; rw [isUnderW_iff_parent ok.hq2 ok.hqpar, hwq]
      · exact ⟨x, hx, hxq, rfl, rfl, by simp only; rw [(ok.moved_underW hwf (Or.inr hxu)).2, hwq]⟩
    · rintro ⟨x, hx, hxq, h1, h2, h3⟩
      rcases rwPath_cases p q x.path with ⟨c1, e1⟩ | ⟨c1, _, _⟩ | ⟨c1, c2, e1⟩
      · left
        have hxe : x = e := hwf.path_inj hx hem.1 (c1.trans hem.2.symm)
        refine ⟨Or.inr (Prod.ext (by rw [← h1, e1]) (by rw [← h2, hxe])), ?_⟩
        intro hin; have := hDpaths _ hin; rw [← h1, e1, isUnder_irrefl] at this; cases this
      · right; exact ⟨x, hx, hxq, c1, Prod.ext h1.symm h2.symm⟩
      · left
        rw [e1] at h1
        refine ⟨Or.inl ⟨⟨x, hx, h1, h2, h3⟩, by rw [← h1]; exact hxq⟩, ?_⟩
        intro hin; have := hDpaths _ hin; rw [← h1, hfree x hx hxq] at this; cases this
  · -- out of the tree
    simp only [Bool.and_false, Bool.false_eq_true, if_false, if_true, replay_append, replay_renameTail]
    have hfirst : replay (treeW fs) (if full then [mkEv (movedCls e.isDir) p [], dirMod p] else evDeleted e.isDir p) =
        eraseSub (treeW fs) p := by
      cases full
      · simp [replay_evDeleted]
      · simp [replay_cons, replay_nil, applyEv_dirMod, hmainOut]
    rw [hfirst, mem_eraseSub, mem_treeW]
    constructor
    · rintro ⟨⟨x, hx, h1, h2, h3⟩, hyp, hyu⟩
      have hxq : x.path ≠ q := by
        intro h
        have : isUnder ["W"] q = true := by rw [← h, h1]; exact h3
        rw [isUnderW_iff_parent ok.hq2 ok.hqpar, hwq] at this; cases this
      exact ⟨x, hx, hxq, by rw [rwPath_other (h1 ▸ hyp) (h1 ▸ hyu)]; exact h1, h2, h3⟩
    · rintro ⟨x, hx, hxq, h1, h2, h3⟩
      rcases rwPath_cases p q x.path with ⟨c1, _⟩ | ⟨c1, _, _⟩ | ⟨c1, c2, e1⟩
      · have := (ok.moved_underW hwf (Or.inl c1)).2; rw [h1, h3, hwq] at this; cases this
      · have := (ok.moved_underW hwf (Or.inr c1)).2; rw [h1, h3, hwq] at this; cases this
      · rw [e1] at h1; exact ⟨⟨x, hx, h1, h2, h3⟩, h1 ▸ c1, h1 ▸ c2⟩
  · -- inside the tree
    simp only [Bool.and_self, if_true, replay_append, replay_renameTail, replay_cons, replay_nil, applyEv_dirMod, hmain]
    rw [hevM, hsubM, mem_replay_subMoved p D hDnd hDq hinc hpn, mem_setEntry, mem_eraseSub, hDmem, mem_treeW]
    · constructor
      · rintro (⟨(⟨⟨⟨x, hx, h1, h2, h3⟩, hyp, hyu⟩, hyq⟩ | hyq), hyD⟩ | ⟨x, hx, hxq, hxu, rfl⟩)
        · exact ⟨x, hx, by rw [h1]; exact hyq, by rw [rwPath_other (h1 ▸ hyp) (h1 ▸ hyu)]; exact h1, h2, h3⟩
        · refine ⟨e, hem.1, by rw [hem.2]; exact ok.hne, by rw [hem.2, rwPath_at, hyq], by rw [hyq], ?_⟩
          rw [hyq]; simp only; rw [isUnderW_iff_parent ok.hq2 ok.hqpar, hwq]
        · exact ⟨x, hx, hxq, rfl, rfl, by simp only; rw [(ok.moved_underW hwf (Or.inr hxu)).2, hwq]⟩
      · rintro ⟨x, hx, hxq, h1, h2, h3⟩
        rcases rwPath_cases p q x.path with ⟨c1, e1⟩ | ⟨c1, _, _⟩ | ⟨c1, c2, e1⟩
        · left
          have hxe : x = e := hwf.path_inj hx hem.1 (c1.trans hem.2.symm)
          refine ⟨Or.inr (Prod.ext (by rw [← h1, e1]) (by rw [← h2, hxe])), ?_⟩
          intro hin; have := hDpaths _ hin; rw [← h1, e1, isUnder_irrefl] at this; cases this
        · right; exact ⟨x, hx, hxq, c1, Prod.ext h1.symm h2.symm⟩
        · left
          rw [e1] at h1
          refine ⟨Or.inl ⟨⟨⟨x, hx, h1, h2, h3⟩, h1 ▸ c1, h1 ▸ c2⟩, by rw [← h1]; exact hxq⟩, ?_⟩
          intro hin; have := hDpaths _ hin; rw [← h1, hfree x hx hxq] at this; cases this
    · intro z hz
      rcases mem_setEntry.mp hz with ⟨h1, _⟩ | h1
      · have := mem_eraseSub.mp h1; exact ⟨this.2.1, this.2.2⟩
      · rw [h1]; exact ⟨fun h => ok.hne h.symm, ok.hnu⟩

/-- C01, one operation: replaying the contract's events on the tree before gives the tree after -/
theorem replay_contract (hwf : fs.WF) (full : Bool) (op : Op) (hv : validOp fs op = true) :
    sameTree (replay (treeW fs) (contract fs true full op).1) (treeW (fsAfter fs op)) := by
  cases op with
  | create p => exact replay_create hwf full p hv
  | write p => exact replay_write full p
  | chmod p => exact replay_chmod full p
  | unlink p => exact replay_unlink hwf full p hv
  | mkdir p => exact replay_mkdir hwf full p hv
  | rmdir p => exact replay_rmdir hwf full p hv
  | rmtree p => exact replay_rmtree hwf full p hv
  | rename p q => exact replay_rename hwf full p q hv
  | rmtreeOrd p order => exact replay_rmtreeOrd hwf full p order hv

end WD.Pipe
