/- a directory of the tree is renamed inside the tree -/
import WD.Proofs.Pipeline.Rekey
import WD.Proofs.Pipeline.AddId
set_option linter.unusedSimpArgs false
namespace WD.Pipe

variable {fs : FS} {k0 : Kern} {lib : Lib} {p q : P} {e : Ent} {z : Option Nat}

theorem find?_some_mem {α : Type} {f : α → Bool} {l : List α} {a : α} (h : l.find? f = some a) : a ∈ l ∧ f a = true :=
  ⟨List.mem_of_find?_eq_some h, List.find?_some h⟩

theorem inv_after_move (inv0 : InvOn (fun _ => True) z (fs.del q) k0 lib) (hwf : fs.WF) (ok : RenameOK fs p q e)
    (hd : e.isDir = true) (hwp : watchedDir fs true (parentOf p) = true) (hwq : watchedDir fs true (parentOf q) = true)
    {mw : Nat} (hmw : lookupP lib.wdForPath p = some mw) :
    InvOn (fun _ => True) z (fs.renamed p q) k0 (rekeyLib lib p q mw) ∧
    (∀ w, z = some w → lookupW lib.pathForWd w = some q → lookupW (rekeyLib lib p q mw).pathForWd w = some q) := by
  have hem := FS.find?_some ok.he
  have hfree := ok.q_free hwf
  have hpq : isUnder q p = false := by
    have := hfree e hem.1 (by rw [hem.2]; exact ok.hne); rwa [hem.2] at this
  -- the two maps after the first three assignments
  let wfpA := setP (lib.wdForPath.filter (fun x => x.1 != p)) q mw
  let pfwA := setW lib.pathForWd mw q
  let sub := wfpA.filter (fun x => isUnder p x.1)
  have hwfpA : ∀ y, lookupP wfpA y = if y = q then some mw else if y = p then none else lookupP lib.wdForPath y := by
    intro y; simp only [wfpA]; rw [lookupP_setP, lookupP_filter_ne]
  have hpfwA : ∀ w, lookupW pfwA w = if w = mw then some q else lookupW lib.pathForWd w := by
    intro w; simp only [pfwA]; rw [lookupW_setW]
  have hndA : (wfpA.map (·.1)).Nodup := nodup_setP (nodup_keys_filter inv0.wfpNodup _) _ _
  have hndPA : (pfwA.map (·.1)).Nodup := nodup_setW inv0.pfwNodup _ _
  have hsub : ∀ x, x ∈ sub ↔ lookupP lib.wdForPath x.1 = some x.2 ∧ isUnder p x.1 = true := by
    intro x
    simp only [sub, List.mem_filter]
    constructor
    · rintro ⟨h1, h2⟩
      have hl := lookupP_of_mem hndA h1
      rw [hwfpA] at hl
      have n1 : x.1 ≠ q := by intro h; rw [h, ok.hnu] at h2; cases h2
      have n2 : x.1 ≠ p := by intro h; rw [h, isUnder_irrefl] at h2; cases h2
      simp only [n1, n2, if_false] at hl
      exact ⟨hl, h2⟩
    · rintro ⟨h1, h2⟩
      have n1 : x.1 ≠ q := by intro h; rw [h, ok.hnu] at h2; cases h2
      have n2 : x.1 ≠ p := by intro h; rw [h, isUnder_irrefl] at h2; cases h2
      refine ⟨?_, h2⟩
      have : lookupP wfpA x.1 = some x.2 := by rw [hwfpA]; simp [n1, n2, h1]
      exact lookupP_some_mem this
  have hsubk : (sub.map (·.1)).Nodup := nodup_keys_filter hndA _
  have hsubw : (sub.map (·.2)).Nodup := by
    apply nodup_map_of_inj_on _ (nodup_of_map_nodup _ hsubk)
    intro a ha b hb hab
    have h1 := inv0.wfpInv _ _ ((hsub a).mp ha).1
    have h2 := inv0.wfpInv _ _ ((hsub b).mp hb).1
    rw [hab] at h1; rw [h1] at h2
    exact Prod.ext (Option.some.inj h2) hab
  have hnk_under : ∀ x ∈ sub, isUnder q (nk p q x) = true := by
    intro x hx; exact rewrite_under ((hsub x).mp hx).2
  have hinj : ∀ x ∈ sub, ∀ y ∈ sub, nk p q x = nk p q y → x.1 = y.1 := by
    intro x hx y hy h
    obtain ⟨r1, _, e1⟩ := isUnder_iff.mp ((hsub x).mp hx).2
    obtain ⟨r2, _, e2⟩ := isUnder_iff.mp ((hsub y).mp hy).2
    simp only [nk, e1, e2, List.drop_left'] at h
    rw [e1, e2, List.append_cancel_left h]
  have hincomp : ∀ y, isUnder q y = true → isUnder p y = true → False := by
    intro y h1 h2
    rcases prefix_comparable h1 h2 with h | h | h
    · exact ok.hne h.symm
    · rw [hpq] at h; cases h
    · rw [ok.hnu] at h; cases h
  have hsep : ∀ x ∈ sub, ∀ y ∈ sub, nk p q x ≠ y.1 := by
    intro x hx y hy h
    exact hincomp _ (hnk_under x hx) (h ▸ ((hsub y).mp hy).2)
  have hP := rekeyP_lookup p q sub wfpA hsubk hinj hsep
  have hW := rekeyW_lookup p q sub pfwA hsubw
  have hlib : rekeyLib lib p q mw = { lib with wdForPath := rekeyP p q sub wfpA, pathForWd := rekeyW p q sub pfwA } := rfl
  -- descriptors: of a key below `p`, of `p` itself, of anything else
  have hW_sub : ∀ x ∈ sub, lookupW (rekeyW p q sub pfwA) x.2 = some (nk p q x) := by
    intro x hx
    rw [hW]
    cases hf : sub.find? (fun a => a.2 == x.2) with
    | none => rw [List.find?_eq_none] at hf; exact absurd (by simp) (hf x hx)
    | some a =>
      obtain ⟨ha, hax⟩ := find?_some_mem hf
      simp only [beq_iff_eq] at hax
      have h1 := inv0.wfpInv _ _ ((hsub a).mp ha).1
      have h2 := inv0.wfpInv _ _ ((hsub x).mp hx).1
      rw [hax] at h1; rw [h1] at h2
      have : a = x := Prod.ext (Option.some.inj h2) hax
      rw [this]
  have hW_other : ∀ w, (∀ x ∈ sub, x.2 ≠ w) → lookupW (rekeyW p q sub pfwA) w = lookupW pfwA w := by
    intro w hw
    rw [hW]
    cases hf : sub.find? (fun a => a.2 == w) with
    | none => rfl
    | some a =>
      obtain ⟨ha, haw⟩ := find?_some_mem hf
      exact absurd (by simpa using haw) (hw a ha)
  have hP_sub : ∀ x ∈ sub, lookupP (rekeyP p q sub wfpA) (nk p q x) = some x.2 := by
    intro x hx
    rw [hP]
    cases hf : sub.find? (fun a => nk p q a == nk p q x) with
    | none => rw [List.find?_eq_none] at hf; exact absurd (by simp) (hf x hx)
    | some a =>
      obtain ⟨ha, hax⟩ := find?_some_mem hf
      simp only [beq_iff_eq] at hax
      have h1 := hinj a ha x hx hax
      have h2 := ((hsub a).mp ha).1
      rw [h1, ((hsub x).mp hx).1] at h2
      simp [Option.some.inj h2]
  have hP_other : ∀ y, isUnder q y = false → isUnder p y = false →
      lookupP (rekeyP p q sub wfpA) y = lookupP wfpA y := by
    intro y h1 h2
    rw [hP]
    cases hf : sub.find? (fun a => nk p q a == y) with
    | some a =>
      obtain ⟨ha, hay⟩ := find?_some_mem hf
      simp only [beq_iff_eq] at hay
      have := hnk_under a ha; rw [hay, h1] at this; cases this
    | none =>
      have : y ∉ sub.map (·.1) := by
        intro hm; obtain ⟨b, hb, hby⟩ := List.mem_map.mp hm
        have := ((hsub b).mp hb).2; rw [hby, h2] at this; cases this
      simp [this]
  -- the descriptor of a directory that moved
  have hmw_p : lookupW lib.pathForWd mw = some p := inv0.wfpInv _ _ hmw
  have hmw_notsub : ∀ x ∈ sub, x.2 ≠ mw := by
    intro x hx h
    have h1 := inv0.wfpInv _ _ ((hsub x).mp hx).1
    rw [h, hmw_p] at h1
    have := ((hsub x).mp hx).2
    rw [← Option.some.inj h1, isUnder_irrefl] at this; cases this
  have hmoved : ∀ x ∈ fs.ents, (x.path = p ∨ isUnder p x.path = true) →
      inTreeDir x = x.isDir ∧ inTreeDir (rwEnt p q x) = x.isDir := by
    intro x _ hm
    have := ok.moved_inTree hwf hm
    simp [this.1, this.2, hwp, hwq]
  -- every watched directory is found under its new path in both maps
  have hgood : ∀ w ∈ k0.watches, ∃ y ∈ (fs.renamed p q).ents, y.ino = w.2 ∧ inTreeDir y = true ∧
      lookupW (rekeyW p q sub pfwA) w.1 = some y.path ∧ lookupP (rekeyP p q sub wfpA) y.path = some w.1 := by
    intro w hw
    obtain ⟨x, hx, h1, h2, h3, h4⟩ := inv0.good w hw
    obtain ⟨hxf, hxq⟩ := FS.mem_del.mp hx
    refine ⟨rwEnt p q x, FS.mem_renamed.mpr ⟨x, hxf, hxq, rfl⟩, h1, ?_, ?_, ?_⟩
    · rcases rwPath_cases p q x.path with ⟨c1, _⟩ | ⟨c1, _, _⟩ | ⟨c1, c2, _⟩
      · rw [(hmoved x hxf (Or.inl c1)).2, ← (hmoved x hxf (Or.inl c1)).1]; exact h2
      · rw [(hmoved x hxf (Or.inr c1)).2, ← (hmoved x hxf (Or.inr c1)).1]; exact h2
      · rw [rwEnt_fixed c1 c2]; exact h2
    · simp only [rwEnt]
      rcases rwPath_cases p q x.path with ⟨c1, e1⟩ | ⟨c1, e1, _⟩ | ⟨c1, c2, e1⟩
      · have : w.1 = mw := by rw [c1, hmw] at h4; exact (Option.some.inj h4).symm
        rw [e1, this, hW_other mw hmw_notsub, hpfwA]; simp
      · have hxs : (x.path, w.1) ∈ sub := (hsub _).mpr ⟨h4, c1⟩
        rw [e1]; exact hW_sub _ hxs
      · rw [e1]
        have hnot : ∀ a ∈ sub, a.2 ≠ w.1 := by
          intro a ha h
          have := inv0.wfpInv _ _ ((hsub a).mp ha).1
          rw [h, h3] at this
          have hu := ((hsub a).mp ha).2
          rw [← Option.some.inj this, c2] at hu; cases hu
        have hne : w.1 ≠ mw := by
          intro h; rw [h, hmw_p] at h3; exact c1 (Option.some.inj h3).symm
        rw [hW_other _ hnot, hpfwA]; simp [hne, h3]
    · simp only [rwEnt]
      rcases rwPath_cases p q x.path with ⟨c1, e1⟩ | ⟨c1, e1, _⟩ | ⟨c1, c2, e1⟩
      · have : w.1 = mw := by rw [c1, hmw] at h4; exact (Option.some.inj h4).symm
        rw [e1, hP_other q (isUnder_irrefl q) ok.hnu, hwfpA, this]; simp
      · have hxs : (x.path, w.1) ∈ sub := (hsub _).mpr ⟨h4, c1⟩
        rw [e1]; exact hP_sub _ hxs
      · rw [e1, hP_other _ (hfree x hxf hxq) c2, hwfpA]; simp [hxq, c1, h4]
  have hpfw_some : ∀ w y, lookupW (rekeyW p q sub pfwA) w = some y → ∃ y', lookupW lib.pathForWd w = some y' := by
    intro w y h
    by_cases hs : ∃ x ∈ sub, x.2 = w
    · obtain ⟨x, hx, rfl⟩ := hs
      exact ⟨_, inv0.wfpInv _ _ ((hsub x).mp hx).1⟩
    · have hs' : ∀ x ∈ sub, x.2 ≠ w := fun x hx h => hs ⟨x, hx, h⟩
      rw [hW_other w hs', hpfwA] at h
      by_cases hm : w = mw
      · exact ⟨p, hm ▸ hmw_p⟩
      · simp only [hm, if_false] at h; exact ⟨y, h⟩
  constructor
  · rw [hlib]
    refine
      { wf := ok.wf hwf, isRec := inv0.isRec, kwd := inv0.kwd, kino := inv0.kino, klt := inv0.klt, good := hgood, cover := ?_,
        pfwDom := ?_, zlt := inv0.zlt, zdead := inv0.zdead, wfpInv := ?_, wfpNodup := rekeyP_nodup _ _ _ _ hndA,
        pfwNodup := rekeyW_nodup _ _ _ _ hndPA, cookies := inv0.cookies }
    · intro y hy hty _
      obtain ⟨x, hxf, hxq, rfl⟩ := FS.mem_renamed.mp hy
      have hx' : inTreeDir x = true := by
        rcases rwPath_cases p q x.path with ⟨c1, _⟩ | ⟨c1, _, _⟩ | ⟨c1, c2, _⟩
        · rw [(hmoved x hxf (Or.inl c1)).1, ← (hmoved x hxf (Or.inl c1)).2]; exact hty
        · rw [(hmoved x hxf (Or.inr c1)).1, ← (hmoved x hxf (Or.inr c1)).2]; exact hty
        · rw [rwEnt_fixed c1 c2] at hty; exact hty
      exact inv0.cover x (FS.mem_del.mpr ⟨hxf, hxq⟩) hx' trivial
    · intro w y h
      obtain ⟨y', hy'⟩ := hpfw_some w y h
      exact inv0.pfwDom w y' hy'
    · intro y w h
      simp only at h ⊢
      rw [hP] at h
      cases hf : sub.find? (fun a => nk p q a == y) with
      | some a =>
        rw [hf] at h
        obtain ⟨ha, hay⟩ := find?_some_mem hf
        simp only [beq_iff_eq] at hay
        simp only [Option.some.injEq] at h
        rw [← h, ← hay]; exact hW_sub a ha
      | none =>
        rw [hf] at h
        by_cases hm : y ∈ sub.map (·.1)
        · simp [hm] at h
        · simp only [hm, if_false] at h
          rw [hwfpA] at h
          by_cases hyq : y = q
          · simp only [hyq, if_true, Option.some.injEq] at h
            rw [← h, hyq, hW_other mw hmw_notsub, hpfwA]; simp
          · by_cases hyp : y = p
            · subst hyp; simp [ok.hne] at h
            · simp only [hyq, hyp, if_false] at h
              have h1 := inv0.wfpInv y w h
              have hnot : ∀ a ∈ sub, a.2 ≠ w := by
                intro a ha hh
                have := inv0.wfpInv _ _ ((hsub a).mp ha).1
                rw [hh, h1] at this
                have hy2 := Option.some.inj this
                exact hm (List.mem_map.mpr ⟨a, ha, hy2.symm⟩)
              have hne : w ≠ mw := by
                intro hh; rw [hh, hmw_p] at h1; exact hyp (Option.some.inj h1).symm
              rw [hW_other w hnot, hpfwA]; simp [hne, h1]
  · intro w _ hwq'
    rw [hlib]
    simp only
    have hnot : ∀ a ∈ sub, a.2 ≠ w := by
      intro a ha hh
      have := inv0.wfpInv _ _ ((hsub a).mp ha).1
      rw [hh, hwq'] at this
      have hu := ((hsub a).mp ha).2
      rw [← Option.some.inj this, ok.hnu] at hu; cases hu
    have hne : w ≠ mw := by
      intro hh; rw [hh, hmw_p] at hwq'; exact ok.hne (Option.some.inj hwq')
    rw [hW_other w hnot, hpfwA]; simp [hne, hwq']

end WD.Pipe

namespace WD.Pipe

theorem step_rename_move (s : Sys) (p q : P) (e : Ent) (inv : InvRec s.fs s.k s.lib) (hs : s.stopped = false)
    (hc : s.crashed = false) (ok : RenameOK s.fs p q e) (hd : e.isDir = true)
    (hwp : watchedDir s.fs true (parentOf p) = true) (hwq : watchedDir s.fs true (parentOf q) = true) :
    StepRec s (.rename p q) := by
  obtain ⟨z, k0, rrep, hk, inv0, hck, hz⟩ := rename_kernel inv ok
  have hwf := inv.wf
  have hpb := snoc_parent_base (ne_nil_of_two_le ok.hp2)
  have hqb := snoc_parent_base (ne_nil_of_two_le ok.hq2)
  have hem := FS.find?_some ok.he
  rcases inv.parent_recs p with ⟨_, wdp, hp1, _, hrp⟩ | ⟨hwp', _⟩
  case inr => rw [hwp] at hwp'; cases hwp'
  rcases inv.parent_recs q with ⟨_, wdq, hq1, _, hrq⟩ | ⟨hwq', _⟩
  case inr => rw [hwq] at hwq'; cases hwq'
  have hte : inTreeDir e = true := by
    have := (ok.moved_inTree hwf (x := e) (Or.inl hem.2)).1
    rw [this, hd, hwp]; rfl
  obtain ⟨mw, _, _, _, hmw⟩ := inv.watched hem.1 hte trivial
  rw [hem.2] at hmw
  let kB : Kern := { k0 with nextCookie := s.k.nextCookie + 1 }
  let fsR := s.fs.renamed p q
  let L1 := s.lib.remember s.k.nextCookie p
  let levF : LEv := ⟨wdp, .movedFrom, true, s.k.nextCookie, some (baseName p), p⟩
  let levT : LEv := ⟨wdq, .movedTo, true, s.k.nextCookie, some (baseName q), q⟩
  have hk' : kernelOp s.fs s.k (.rename p q) = (fsR, kB,
      [⟨wdp, .movedFrom, true, s.k.nextCookie, some (baseName p)⟩, ⟨wdq, .movedTo, true, s.k.nextCookie, some (baseName q)⟩] ++ rrep) := by
    rw [hk]; simp [fromRecs, toRecs, hrp, hrq, hd, kB, fsR]
  have inv1 : InvOn (fun _ => True) z (s.fs.del q) kB L1 :=
    (inv0.bump (s.k.nextCookie + 1) (by omega)).remember _ _ (by simp)
  obtain ⟨inv2, hzq⟩ := inv_after_move inv1 hwf ok hd hwp hwq (mw := mw) hmw
  -- after the re-keying every directory at or below `q` is watched under its path: the follow-up `_add_dir_watch` is idle
  have hqW : isUnder ["W"] q = true := by
    have hq0 := ne_nil_of_two_le ok.hq2
    unfold watchedDir at hwq
    simp only [Bool.and_eq_true, Bool.or_eq_true, beq_iff_eq, Bool.true_and] at hwq
    exact isUnder_of_parent hq0 hwq.2
  have hwfR : fsR.WF := ok.wf hwf
  have hfindq : fsR.find? q = some (rwEnt p q e) := by
    have : rwEnt p q e ∈ fsR.ents := FS.mem_renamed.mpr ⟨e, hem.1, by rw [hem.2]; exact ok.hne, rfl⟩
    have h2 := hwfR.find_mem this
    simpa [rwEnt, hem.2, rwPath_at] using h2
  have hid : addTreeWatches fsR kB (rekeyLib L1 p q mw) q = (kB, rekeyLib L1 p q mw) := by
    apply addTreeWatches_id inv2 q
    intro y hy
    rcases List.mem_append.mp hy with h | h
    · rw [hfindq] at h; simp at h; subst h
      refine ⟨(FS.find?_some hfindq).1, ?_, trivial⟩
      simp [inTreeDir, rwEnt, hem.2, rwPath_at, hd, hqW]
    · obtain ⟨h1, h2⟩ := List.mem_filter.mp h
      have hy' := List.mem_filter.mp h1
      refine ⟨hy'.1, ?_, trivial⟩
      have hu : isUnder q y.path = true := by simpa using hy'.2
      simp [inTreeDir, h2, isUnder_trans hqW hu]
  have hl12 : libBatch fsR kB s.lib
      [⟨wdp, .movedFrom, true, s.k.nextCookie, some (baseName p)⟩, ⟨wdq, .movedTo, true, s.k.nextCookie, some (baseName q)⟩] =
      some (kB, rekeyLib L1 p q mw, [levF, levT]) := by
    rw [libBatch_cons, libRecord_from _ _ _ _ _ _ _ _ hp1, hpb]
    simp only
    rw [libBatch_cons, libRecord_to_paired_dir _ _ _ _ _ _ _ _ _ _ hq1 hmw inv.isRec (fun _ => by rw [hqb]; exact hid), hqb]
    simp [libBatch_nil, levF, levT, L1]
  have hz' : (z = none ∧ rrep = [] ∧ renameTail s.fs true q = []) ∨
      (∃ wd, z = some wd ∧ lookupW (rekeyLib L1 p q mw).pathForWd wd = some q ∧
        renameTail s.fs true q = [mkEv .DirModifiedEvent q] ∧
        rrep = [⟨wd, .attrib, true, 0, none⟩, ⟨wd, .deleteSelf, false, 0, none⟩, ⟨wd, .ignored, false, 0, none⟩]) := by
    rcases hz with h | ⟨wd, h1, _, _, h4, h5, h6⟩
    · exact Or.inl h
    · exact Or.inr ⟨wd, h1, hzq wd h1 h4, h5, h6⟩
  have hgs : gsOf [levF, levT] = [.two levF levT] := by simp [gsOf, group, pairIn, Grouped.keep, levF, levT]
  have hcon := contract_rename s.fs s.full p q e ok
  apply rename_assemble s p q hs hc ok.hq2 hk' hl12 inv2 hz'
    (E12 := [mkEv .DirMovedEvent p q, dirMod p, dirMod q] ++ subMoved fsR p q)
  · rw [hgs]; simp [movedOut]
  · rw [hgs]; simp [emitAll_cons, emitAll_nil, emit, dirMod, mkEv, levF, levT]
  · rw [hcon]; simp [hwp, hwq, hd, movedCls, fsR]

/-- every valid rename refines the contract and keeps the invariant -/
theorem step_rename (s : Sys) (p q : P) (inv : InvRec s.fs s.k s.lib) (hs : s.stopped = false)
    (hc : s.crashed = false) (hv : validOp s.fs (.rename p q) = true) : StepRec s (.rename p q) := by
  obtain ⟨e, ok⟩ := renameOK_of_valid hv
  cases hd : e.isDir with
  | false => exact step_rename_static s p q e inv hs hc ok (Or.inl hd)
  | true =>
    cases hwp : watchedDir s.fs true (parentOf p) <;> cases hwq : watchedDir s.fs true (parentOf q)
    · exact step_rename_static s p q e inv hs hc ok (Or.inr ⟨hwp, hwq⟩)
    · exact step_rename_in s p q e inv hs hc ok hd hwp hwq
    · exact step_rename_out s p q e inv hs hc ok hd hwp hwq
    · exact step_rename_move s p q e inv hs hc ok hd hwp hwq

/-- one drained operation under a recursive watch -/
theorem step_rec (s : Sys) (op : Op) (inv : InvRec s.fs s.k s.lib) (hs : s.stopped = false)
    (hc : s.crashed = false) (hv : validOp s.fs op = true) : StepRec s op := by
  cases op with
  | create p => exact step_create s p inv hs hc hv
  | write p => exact step_write s p inv hs hc hv
  | chmod p => exact step_chmod s p inv hs hc hv
  | unlink p => exact step_unlink s p inv hs hc hv
  | mkdir p => exact step_mkdir s p inv hs hc hv
  | rmdir p => exact step_rmdir s p inv hs hc hv
  | rmtree p => exact step_rmtree s p inv hs hc hv
  | rename p q => exact step_rename s p q inv hs hc hv
  | rmtreeOrd p order => exact step_rmtreeOrd s p order inv hs hc hv

end WD.Pipe
