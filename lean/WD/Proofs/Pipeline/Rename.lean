/- the file system after a rename -/
import WD.Proofs.Pipeline.OpsRmtree
set_option linter.unusedSimpArgs false
namespace WD.Pipe

def rwPath (p q x : P) : P := if x = p then q else if isUnder p x = true then q ++ x.drop p.length else x
def rwEnt (p q : P) (x : Ent) : Ent := { x with path := rwPath p q x.path }

/-- the file system after `rename p q` (what was at `q` is gone, what was at or below `p` is at or below `q`) -/
def FS.renamed (fs : FS) (p q : P) : FS := { fs with ents := (fs.del q).ents.map (rwEnt p q) }

theorem rwEnt_eq_model (p q : P) (x : Ent) :
    (if x.path == p then { x with path := q }
     else if isUnder p x.path then { x with path := q ++ x.path.drop p.length } else x) = rwEnt p q x := by
  unfold rwEnt rwPath
  by_cases h1 : x.path = p
  · simp [h1]
  · by_cases h2 : isUnder p x.path = true
    · simp [h1, h2]
    · simp [h1, h2]

theorem FS.del_missing {fs : FS} {q : P} (h : fs.find? q = none) : fs.del q = fs := by
  unfold FS.del
  have : fs.ents.filter (fun x => x.path != q) = fs.ents := by
    rw [List.filter_eq_self]; intro x hx; simp [FS.find?_none.mp h x hx]
  rw [this]

theorem FS.mem_renamed {fs : FS} {p q : P} {y : Ent} :
    y ∈ (fs.renamed p q).ents ↔ ∃ x ∈ fs.ents, x.path ≠ q ∧ y = rwEnt p q x := by
  simp only [FS.renamed, List.mem_map, FS.mem_del]
  constructor
  · rintro ⟨x, ⟨hx, hq⟩, rfl⟩; exact ⟨x, hx, hq, rfl⟩
  · rintro ⟨x, hx, hq, rfl⟩; exact ⟨x, ⟨hx, hq⟩, rfl⟩

/-- a directory without children has nothing below it -/
theorem FS.WF.no_desc_of_no_children {fs : FS} (hwf : fs.WF) {q : P} (hq : q ≠ []) (hch : (fs.children q).isEmpty = true) :
    ∀ x ∈ fs.ents, isUnder q x.path = false := by
  intro x hx
  cases hu : isUnder q x.path with
  | false => rfl
  | true =>
    exfalso
    obtain ⟨r, hr, hxr⟩ := isUnder_iff.mp hu
    have hchild : ∀ c ∈ fs.ents, c.path.length = q.length + 1 → c.path.take q.length = q → False := by
      intro c hc h1 h2
      have : c ∈ fs.children q := by
        unfold FS.children; rw [List.mem_filter]; exact ⟨hc, by simp [h1, h2]⟩
      rw [List.isEmpty_iff] at hch; rw [hch] at this; cases this
    cases r with
    | nil => exact hr rfl
    | cons h t =>
      cases t with
      | nil => exact hchild x hx (by rw [hxr]; simp) (by rw [hxr]; simp)
      | cons h2 t2 =>
        have hpre : isUnder (q ++ [h]) x.path = true := by
          rw [hxr]; rw [show q ++ h :: h2 :: t2 = (q ++ [h]) ++ (h2 :: t2) by simp]
          exact isUnder_append _ (by simp)
        have hd := hwf.ancestor_dir _ x hx rfl (q ++ [h]) (by simp) hpre
        obtain ⟨c, hc, _⟩ := FS.isDir_iff.mp hd
        have hcm := FS.find?_some hc
        exact hchild c hcm.1 (by rw [hcm.2]; simp) (by rw [hcm.2]; simp)

/-- the conditions under which `rename p q` succeeds -/
structure RenameOK (fs : FS) (p q : P) (e : Ent) : Prop where
  hp2 : 2 ≤ p.length
  hq2 : 2 ≤ q.length
  he : fs.find? p = some e
  hqpar : fs.isDir (parentOf q) = true
  hne : p ≠ q
  hnu : isUnder p q = false
  hold : ∀ old, fs.find? q = some old → old.isDir = e.isDir ∧ (old.isDir = true → (fs.children q).isEmpty = true)

theorem renameOK_of_valid {fs : FS} {p q : P} (h : validOp fs (.rename p q) = true) : ∃ e, RenameOK fs p q e := by
  have hv := h
  simp only [validOp, Bool.and_eq_true, decide_eq_true_eq, bne_iff_ne, ne_eq, Bool.not_eq_true'] at hv
  obtain ⟨⟨⟨⟨⟨⟨hp2, hq2⟩, hex⟩, hqpar⟩, hne⟩, hnu⟩, hold⟩ := hv
  obtain ⟨e, he⟩ := FS.exists_iff.mp hex
  refine ⟨e, hp2, hq2, he, hqpar, hne, hnu, ?_⟩
  intro old ho
  rw [ho] at hold
  have hd : fs.isDir p = e.isDir := by simp [FS.isDir, he]
  simp only [hd, Bool.and_eq_true, beq_iff_eq, Bool.or_eq_true, Bool.not_eq_true'] at hold
  refine ⟨hold.1, ?_⟩
  intro h1; rcases hold.2 with h2 | h2
  · rw [h1] at h2; cases h2
  · exact h2

variable {fs : FS} {p q : P} {e : Ent}

/-- once the replaced entry is gone, nothing is at or below `q` -/
theorem RenameOK.q_free (ok : RenameOK fs p q e) (hwf : fs.WF) :
    ∀ x ∈ fs.ents, x.path ≠ q → isUnder q x.path = false := by
  intro x hx _
  have hq := ne_nil_of_two_le ok.hq2
  cases hf : fs.find? q with
  | none =>
    exact hwf.no_descendants_of_missing hq (by simp [FS.exists, hf]) x hx
  | some old =>
    have ho := ok.hold old hf
    cases hd : old.isDir with
    | true => exact hwf.no_desc_of_no_children hq (ho.2 hd) x hx
    | false =>
      cases hu : isUnder q x.path with
      | false => rfl
      | true =>
        have := hwf.ancestor_dir _ x hx rfl q hq hu
        obtain ⟨d, hd', hdd⟩ := FS.isDir_iff.mp this
        rw [hf] at hd'; cases hd'; rw [hd] at hdd; cases hdd

theorem rwPath_at (p q : P) : rwPath p q p = q := by simp [rwPath]
theorem rwPath_under {p q x : P} (h : isUnder p x = true) : rwPath p q x = q ++ x.drop p.length := by
  have : x ≠ p := fun hh => by subst hh; rw [isUnder_irrefl] at h; cases h
  simp [rwPath, this, h]
theorem rwPath_other {p q x : P} (h1 : x ≠ p) (h2 : isUnder p x = false) : rwPath p q x = x := by
  simp [rwPath, h1, h2]

/-- where a path ends up: at `q`, below `q`, or where it was -/
theorem rwPath_cases (p q x : P) :
    (x = p ∧ rwPath p q x = q) ∨ (isUnder p x = true ∧ rwPath p q x = q ++ x.drop p.length ∧ isUnder q (rwPath p q x) = true) ∨
    (x ≠ p ∧ isUnder p x = false ∧ rwPath p q x = x) := by
  by_cases h1 : x = p
  · left; exact ⟨h1, by rw [h1, rwPath_at]⟩
  · cases h2 : isUnder p x with
    | true => right; left; exact ⟨rfl, rwPath_under h2, by rw [rwPath_under h2]; exact rewrite_under h2⟩
    | false => right; right; exact ⟨h1, rfl, rwPath_other h1 h2⟩

theorem rwPath_inj {x y : P} (ok : RenameOK fs p q e)
    (hx : x ≠ q ∧ isUnder q x = false) (hy : y ≠ q ∧ isUnder q y = false) (h : rwPath p q x = rwPath p q y) : x = y := by
  rcases rwPath_cases p q x with ⟨h1, e1⟩ | ⟨h1, e1, u1⟩ | ⟨h1, h1', e1⟩ <;>
  rcases rwPath_cases p q y with ⟨h2, e2⟩ | ⟨h2, e2, u2⟩ | ⟨h2, h2', e2⟩
  · rw [h1, h2]
  · rw [h, ] at e1; rw [e1] at u2; rw [isUnder_irrefl] at u2; cases u2
  · rw [e1, e2] at h; exact absurd h.symm hy.1
  · rw [← h] at e2; rw [e2] at u1; rw [isUnder_irrefl] at u1; cases u1
  · rw [e1, e2] at h
    have := List.append_cancel_left h
    obtain ⟨r1, _, rfl⟩ := isUnder_iff.mp h1
    obtain ⟨r2, _, rfl⟩ := isUnder_iff.mp h2
    simp at this; rw [this]
  · rw [e2] at h; rw [h] at u1; rw [hy.2] at u1; cases u1
  · rw [e1, e2] at h; exact absurd h hx.1
  · rw [e1] at h; rw [← h] at u2; rw [hx.2] at u2; cases u2
  · rw [e1, e2] at h; exact h

end WD.Pipe

namespace WD.Pipe
variable {fs : FS} {p q : P} {e : Ent}

theorem nodup_map_of_inj_on {α β : Type} (g : α → β) : ∀ {m : List α}, m.Nodup →
    (∀ a ∈ m, ∀ b ∈ m, g a = g b → a = b) → (m.map g).Nodup
  | [], _, _ => by simp
  | a :: m, hn, hinj => by
    simp only [List.nodup_cons] at hn
    simp only [List.map_cons, List.nodup_cons]
    refine ⟨?_, nodup_map_of_inj_on g hn.2 (fun x hx y hy => hinj x (List.mem_cons_of_mem _ hx) y (List.mem_cons_of_mem _ hy))⟩
    intro hm
    obtain ⟨b, hb, hgb⟩ := List.mem_map.mp hm
    have := hinj b (List.mem_cons_of_mem _ hb) a (List.mem_cons_self ..) hgb
    subst this; exact hn.1 hb

theorem parentOf_append {a r : P} (hr : r ≠ []) : parentOf (a ++ r) = a ++ r.dropLast := by
  unfold parentOf; rw [List.dropLast_append_of_ne_nil hr]

/-- the parent of a rewritten path is the rewritten parent (for entries other than `p` itself whose parent is not `q`) -/
theorem parent_rwPath (ok : RenameOK fs p q e) {x : P} (hx : x ≠ p) (hx2 : 2 ≤ x.length)
    (hpq : parentOf x ≠ q) (hfree : isUnder q x = false) : parentOf (rwPath p q x) = rwPath p q (parentOf x) := by
  rcases rwPath_cases p q x with ⟨h1, _⟩ | ⟨h1, e1, _⟩ | ⟨_, h1', e1⟩
  · exact absurd h1 hx
  · obtain ⟨r, hr, rfl⟩ := isUnder_iff.mp h1
    rw [e1]; simp only [List.drop_left']
    rw [parentOf_append hr, parentOf_append hr]
    by_cases hd : r.dropLast = []
    · simp [hd, rwPath_at]
    · rw [rwPath_under (isUnder_append p hd)]; simp
  · rw [e1]
    have hnn := ne_nil_of_two_le hx2
    have hpp : parentOf x ≠ p := by
      intro h; have := isUnder_of_parent hnn (Or.inl h); rw [h1'] at this; cases this
    have hpu : isUnder p (parentOf x) = false := by
      cases h : isUnder p (parentOf x) with
      | false => rfl
      | true => have := isUnder_of_parent hnn (Or.inr h); rw [h1'] at this; cases this
    rw [rwPath_other hpp hpu]

theorem RenameOK.parent_q_fixed (ok : RenameOK fs p q e) : rwPath p q (parentOf q) = parentOf q := by
  have hnn := ne_nil_of_two_le ok.hq2
  apply rwPath_other
  · intro h; have := isUnder_of_parent hnn (Or.inl h); rw [ok.hnu] at this; cases this
  · cases h : isUnder p (parentOf q) with
    | false => rfl
    | true => have := isUnder_of_parent hnn (Or.inr h); rw [ok.hnu] at this; cases this

theorem rwPath_length_two {x : P} (ok : RenameOK fs p q e) (hx2 : 2 ≤ x.length) : 2 ≤ (rwPath p q x).length := by
  rcases rwPath_cases p q x with ⟨_, e1⟩ | ⟨h1, e1, _⟩ | ⟨_, _, e1⟩
  · rw [e1]; exact ok.hq2
  · rw [e1]; simp; have := ok.hq2; omega
  · rw [e1]; exact hx2

theorem RenameOK.wf (ok : RenameOK fs p q e) (hwf : fs.WF) : (fs.renamed p q).WF := by
  have hfree := ok.q_free hwf
  have hpaths : ((fs.renamed p q).ents.map Ent.path).Nodup := by
    have : (fs.renamed p q).ents.map Ent.path = ((fs.del q).ents.map Ent.path).map (rwPath p q) := by
      simp [FS.renamed, rwEnt, List.map_map]
    rw [this]
    apply nodup_map_of_inj_on
    · exact List.Nodup.sublist (List.Sublist.map _ List.filter_sublist) hwf.paths
    · intro a ha b hb hab
      obtain ⟨x, hx, rfl⟩ := List.mem_map.mp ha
      obtain ⟨y, hy, rfl⟩ := List.mem_map.mp hb
      obtain ⟨hx1, hx2⟩ := FS.mem_del.mp hx
      obtain ⟨hy1, hy2⟩ := FS.mem_del.mp hy
      exact rwPath_inj ok ⟨hx2, hfree x hx1 hx2⟩ ⟨hy2, hfree y hy1 hy2⟩ hab
  have hfind : ∀ x ∈ fs.ents, x.path ≠ q → (fs.renamed p q).find? (rwPath p q x.path) = some (rwEnt p q x) := by
    intro x hx hxq
    have : rwEnt p q x ∈ (fs.renamed p q).ents := FS.mem_renamed.mpr ⟨x, hx, hxq, rfl⟩
    exact FS.find?_of_mem hpaths this
  have hdirOf : ∀ d, fs.isDir d = true → d ≠ q → (fs.renamed p q).isDir (rwPath p q d) = true := by
    intro d hd hdq
    obtain ⟨x, hx, hxd⟩ := FS.isDir_iff.mp hd
    have hxm := FS.find?_some hx
    have := hfind x hxm.1 (hxm.2 ▸ hdq)
    rw [hxm.2] at this
    exact FS.isDir_iff.mpr ⟨_, this, by simpa [rwEnt] using hxd⟩
  have hlenp := ok.hp2
  have hlenq := ok.hq2
  have top : ∀ t : String, ([t] : P) ≠ q ∧ rwPath p q [t] = [t] := by
    intro t
    refine ⟨by intro h; rw [← h] at hlenq; simp at hlenq, ?_⟩
    apply rwPath_other
    · intro h; rw [← h] at hlenp; simp at hlenp
    · cases h : isUnder p [t] with
      | false => rfl
      | true =>
        have := isUnder_length h
        have h1 : ([t] : P).length = 1 := rfl
        omega
  refine ⟨hpaths, ?_, ?_, ?_, ?_, ?_⟩
  · have : (fs.renamed p q).ents.map Ent.ino = (fs.del q).ents.map Ent.ino := by
      simp [FS.renamed, rwEnt, List.map_map]
    rw [this]
    exact List.Nodup.sublist (List.Sublist.map _ List.filter_sublist) hwf.inos
  · intro y hy
    obtain ⟨x, hx, _, rfl⟩ := FS.mem_renamed.mp hy
    exact hwf.2.2.1 x hx
  · have := hdirOf ["W"] hwf.rootW (top "W").1; rwa [(top "W").2] at this
  · have := hdirOf ["O"] hwf.rootO (top "O").1; rwa [(top "O").2] at this
  · intro y hy
    obtain ⟨x, hx, hxq, rfl⟩ := FS.mem_renamed.mp hy
    rcases hwf.parent hx with h | h | h
    · left; simp [rwEnt, h, (top "W").2]
    · right; left; simp [rwEnt, h, (top "O").2]
    · right; right
      simp only [rwEnt]
      refine ⟨rwPath_length_two ok h.1, ?_⟩
      by_cases hxp : x.path = p
      · rw [hxp, rwPath_at, ← ok.parent_q_fixed]
        exact hdirOf _ ok.hqpar (by intro hh; have := congrArg List.length hh; rw [parentOf_length] at this; omega)
      · have hpq : parentOf x.path ≠ q := by
          intro hh
          have := isUnder_of_parent (ne_nil_of_two_le h.1) (Or.inl hh)
          rw [hfree x hx hxq] at this; cases this
        rw [parent_rwPath ok hxp h.1 hpq (hfree x hx hxq)]
        exact hdirOf _ h.2 hpq

end WD.Pipe
