/- renames that move no directory of the tree: files (inside, in, out), and anything that stays outside -/
import WD.Proofs.Pipeline.RenameLib
set_option linter.unusedSimpArgs false
namespace WD.Pipe

variable {fs : FS} {k : Kern} {lib : Lib} {p q : P} {e : Ent}

theorem fsAfter_rename (ok : RenameOK fs p q e) : fsAfter fs (.rename p q) = fs.renamed p q := by
  have hmap : ∀ l : List Ent, l.map (fun x => if x.path == p then { x with path := q }
      else if isUnder p x.path then { x with path := q ++ x.path.drop p.length } else x) = l.map (rwEnt p q) := by
    intro l; apply List.map_congr_left; intro x _; exact rwEnt_eq_model p q x
  unfold fsAfter
  cases hq : fs.find? q with
  | none => simp only [kernelOp, ok.he, hq, hmap, FS.renamed, FS.del_missing hq]
  | some old => simp only [kernelOp, ok.he, hq, hmap, FS.renamed, FS.del]

theorem contract_rename (fs : FS) (full : Bool) (p q : P) (e : Ent) (ok : RenameOK fs p q e) :
    contract fs true full (.rename p q) =
      if watchedDir fs true (parentOf p) && watchedDir fs true (parentOf q) then
        ([mkEv (movedCls e.isDir) p q, dirMod p, dirMod q] ++
         (if e.isDir then subMoved (fs.renamed p q) p q else []) ++ renameTail fs true q, false)
      else if watchedDir fs true (parentOf p) then
        ((if full then [mkEv (movedCls e.isDir) p [], dirMod p] else evDeleted e.isDir p) ++ renameTail fs true q, false)
      else if watchedDir fs true (parentOf q) then
        ((if full then [mkEv (movedCls e.isDir) [] q] else [mkEv (createdCls e.isDir) q]) ++ [dirMod q] ++
         (if e.isDir then subCreated (fs.renamed p q) q else []) ++ renameTail fs true q, false)
      else ([], false) := by
  simp only [contract, ok.he, fsAfter_rename ok, Bool.and_true]

theorem RenameOK.not_key_of_file (ok : RenameOK fs p q e) (inv : InvRec fs k lib) (hfile : e.isDir = false) :
    lookupP lib.wdForPath p = none := by
  cases h : lookupP lib.wdForPath p with
  | none => rfl
  | some wd =>
    obtain ⟨x, hx, hxp, hxt, _⟩ := inv.key_dir h
    have hem := FS.find?_some ok.he
    have := inv.wf.path_inj hx hem.1 (hxp.trans hem.2.symm); subst this
    simp [inTreeDir, hfile] at hxt

theorem step_rename_static (s : Sys) (p q : P) (e : Ent) (inv : InvRec s.fs s.k s.lib) (hs : s.stopped = false)
    (hc : s.crashed = false) (ok : RenameOK s.fs p q e)
    (hstatic : e.isDir = false ∨ (watchedDir s.fs true (parentOf p) = false ∧ watchedDir s.fs true (parentOf q) = false)) :
    StepRec s (.rename p q) := by
  obtain ⟨z, k0, rrep, hk, inv0, hck, hz⟩ := rename_kernel inv ok
  have hz' : z = none ∧ rrep = [] ∧ renameTail s.fs true q = [] := by
    rcases hz with h | ⟨wd, _, hd, hwq, _⟩
    · exact h
    · rcases hstatic with h | h
      · rw [h] at hd; cases hd
      · rw [h.2] at hwq; cases hwq
  obtain ⟨rfl, rfl, htail⟩ := hz'
  have hpb := snoc_parent_base (ne_nil_of_two_le ok.hp2)
  have hqb := snoc_parent_base (ne_nil_of_two_le ok.hq2)
  have hwfR := ok.wf inv.wf
  have invR : InvRec (s.fs.renamed p q) { k0 with nextCookie := s.k.nextCookie + 1 } s.lib :=
    (inv0.fs_change hwfR (ok.static_dirs inv.wf hstatic)).bump _ (by omega)
  have hrec : s.lib.recursive = true := inv.isRec
  simp only [List.append_nil] at hk
  have hcon := contract_rename s.fs s.full p q e ok
  rw [htail] at hcon
  rcases inv.parent_recs p with ⟨hwp, wdp, hp1, _, hrp⟩ | ⟨hwp, hrp⟩ <;>
  rcases inv.parent_recs q with ⟨hwq, wdq, hq1, _, hrq⟩ | ⟨hwq, hrq⟩
  · -- inside → inside (a file)
    have hfile : e.isDir = false := by
      rcases hstatic with h | h
      · exact h
      · rw [h.1] at hwp; cases hwp
    have hl : libBatch (s.fs.renamed p q) { k0 with nextCookie := s.k.nextCookie + 1 } s.lib
        [⟨wdp, .movedFrom, false, s.k.nextCookie, some (baseName p)⟩, ⟨wdq, .movedTo, false, s.k.nextCookie, some (baseName q)⟩] =
        some ({ k0 with nextCookie := s.k.nextCookie + 1 }, s.lib.remember s.k.nextCookie p,
          [⟨wdp, .movedFrom, false, s.k.nextCookie, some (baseName p), p⟩, ⟨wdq, .movedTo, false, s.k.nextCookie, some (baseName q), q⟩]) := by
      rw [libBatch_cons, libRecord_from _ _ _ _ _ _ _ _ hp1, hpb]
      simp only
      rw [libBatch_cons, libRecord_to_paired_file _ _ _ _ _ _ _ _ hq1 (ok.not_key_of_file inv hfile), hqb]
      simp [libBatch_nil]
    have hgs : gsOf [(⟨wdp, .movedFrom, false, s.k.nextCookie, some (baseName p), p⟩ : LEv), ⟨wdq, .movedTo, false, s.k.nextCookie, some (baseName q), q⟩] =
        [.two ⟨wdp, .movedFrom, false, s.k.nextCookie, some (baseName p), p⟩ ⟨wdq, .movedTo, false, s.k.nextCookie, some (baseName q), q⟩] := by
      simp [gsOf, group, pairIn, Grouped.keep]
    have hk' : kernelOp s.fs s.k (.rename p q) = (s.fs.renamed p q, { k0 with nextCookie := s.k.nextCookie + 1 },
        [⟨wdp, .movedFrom, false, s.k.nextCookie, some (baseName p)⟩, ⟨wdq, .movedTo, false, s.k.nextCookie, some (baseName q)⟩]) := by
      rw [hk]; simp [fromRecs, toRecs, hrp, hrq, hfile]
    have hf : forgetAll (s.fs.renamed p q) { k0 with nextCookie := s.k.nextCookie + 1 } (s.lib.remember s.k.nextCookie p)
        (if (s.lib.remember s.k.nextCookie p).recursive then movedOut (gsOf
          [(⟨wdp, .movedFrom, false, s.k.nextCookie, some (baseName p), p⟩ : LEv), ⟨wdq, .movedTo, false, s.k.nextCookie, some (baseName q), q⟩]) else []) =
        some ({ k0 with nextCookie := s.k.nextCookie + 1 }, s.lib.remember s.k.nextCookie p) := by
      rw [hgs]; simp [movedOut, forgetAll_nil]
    have hop := Sys.op_eq s _ hs hc hk' hl hf
    rw [hgs] at hop
    simp only [emitAll_cons, emitAll_nil, emit, Bool.false_eq_true, if_false, List.append_nil, Bool.false_and] at hop
    refine ⟨by rw [hop, hcon]; simp [hwp, hwq, hfile, dirMod, mkEv, movedCls], by rw [hop, hcon]; simp [hwp, hwq],
      by rw [hop]; exact hc, by rw [hop], fun _ => ?_⟩
    rw [hop]; exact invR.remember _ _ (by simp)
  · -- out of the tree (a file)
    have hfile : e.isDir = false := by
      rcases hstatic with h | h
      · exact h
      · rw [h.1] at hwp; cases hwp
    have hl : libBatch (s.fs.renamed p q) { k0 with nextCookie := s.k.nextCookie + 1 } s.lib
        [⟨wdp, .movedFrom, false, s.k.nextCookie, some (baseName p)⟩] =
        some ({ k0 with nextCookie := s.k.nextCookie + 1 }, s.lib.remember s.k.nextCookie p,
          [⟨wdp, .movedFrom, false, s.k.nextCookie, some (baseName p), p⟩]) := by
      rw [libBatch_cons, libRecord_from _ _ _ _ _ _ _ _ hp1, hpb]
      simp [libBatch_nil]
    have hgs : gsOf [(⟨wdp, .movedFrom, false, s.k.nextCookie, some (baseName p), p⟩ : LEv)] =
        [.one ⟨wdp, .movedFrom, false, s.k.nextCookie, some (baseName p), p⟩] := by
      simp [gsOf, group, Grouped.keep]
    have hk' : kernelOp s.fs s.k (.rename p q) = (s.fs.renamed p q, { k0 with nextCookie := s.k.nextCookie + 1 },
        [⟨wdp, .movedFrom, false, s.k.nextCookie, some (baseName p)⟩]) := by
      rw [hk]; simp [fromRecs, toRecs, hrp, hrq, hfile]
    have hf : forgetAll (s.fs.renamed p q) { k0 with nextCookie := s.k.nextCookie + 1 } (s.lib.remember s.k.nextCookie p)
        (if (s.lib.remember s.k.nextCookie p).recursive then movedOut (gsOf
          [(⟨wdp, .movedFrom, false, s.k.nextCookie, some (baseName p), p⟩ : LEv)]) else []) =
        some ({ k0 with nextCookie := s.k.nextCookie + 1 }, s.lib.remember s.k.nextCookie p) := by
      rw [hgs]; simp [movedOut, forgetAll_nil]
    have hop := Sys.op_eq s _ hs hc hk' hl hf
    rw [hgs] at hop
    simp only [emitAll_cons, emitAll_nil, emit, Bool.false_eq_true, if_false, List.append_nil] at hop
    refine ⟨?_, ?_, by rw [hop]; exact hc, by rw [hop], fun _ => ?_⟩
    · rw [hop, hcon]; cases s.full <;> simp [hwp, hwq, hfile, dirMod, mkEv, movedCls, evDeleted]
    · rw [hop, hcon]; cases s.full <;> simp [hwp, hwq]
    · rw [hop]; exact invR.remember _ _ (by simp)
  · -- into the tree (a file)
    have hfile : e.isDir = false := by
      rcases hstatic with h | h
      · exact h
      · rw [h.2] at hwq; cases hwq
    have hl : libBatch (s.fs.renamed p q) { k0 with nextCookie := s.k.nextCookie + 1 } s.lib
        [⟨wdq, .movedTo, false, s.k.nextCookie, some (baseName q)⟩] =
        some ({ k0 with nextCookie := s.k.nextCookie + 1 }, s.lib,
          [⟨wdq, .movedTo, false, s.k.nextCookie, some (baseName q), q⟩]) := by
      rw [libBatch_cons, libRecord_to_lone_file _ _ _ _ _ _ _ hq1 inv.cookies, hqb]
      simp [libBatch_nil]
    have hgs : gsOf [(⟨wdq, .movedTo, false, s.k.nextCookie, some (baseName q), q⟩ : LEv)] =
        [.one ⟨wdq, .movedTo, false, s.k.nextCookie, some (baseName q), q⟩] := by
      simp [gsOf, group, pairIn, Grouped.keep]
    have hk' : kernelOp s.fs s.k (.rename p q) = (s.fs.renamed p q, { k0 with nextCookie := s.k.nextCookie + 1 },
        [⟨wdq, .movedTo, false, s.k.nextCookie, some (baseName q)⟩]) := by
      rw [hk]; simp [fromRecs, toRecs, hrp, hrq, hfile]
    have hf : forgetAll (s.fs.renamed p q) { k0 with nextCookie := s.k.nextCookie + 1 } s.lib
        (if s.lib.recursive then movedOut (gsOf
          [(⟨wdq, .movedTo, false, s.k.nextCookie, some (baseName q), q⟩ : LEv)]) else []) =
        some ({ k0 with nextCookie := s.k.nextCookie + 1 }, s.lib) := by
      rw [hgs]; simp [movedOut, forgetAll_nil]
    have hop := Sys.op_eq s _ hs hc hk' hl hf
    rw [hgs] at hop
    simp only [emitAll_cons, emitAll_nil, emit, Bool.false_eq_true, if_false, List.append_nil, Bool.false_and] at hop
    refine ⟨?_, ?_, by rw [hop]; exact hc, by rw [hop], fun _ => ?_⟩
    · rw [hop, hcon]; cases s.full <;> simp [hwp, hwq, hfile, dirMod, mkEv, movedCls, createdCls]
    · rw [hop, hcon]; cases s.full <;> simp [hwp, hwq]
    · rw [hop]; exact invR
  · -- nothing of this is seen
    have hk' : kernelOp s.fs s.k (.rename p q) = (s.fs.renamed p q, { k0 with nextCookie := s.k.nextCookie + 1 }, []) := by
      rw [hk]; simp [fromRecs, toRecs, hrp, hrq]
    have hf : forgetAll (s.fs.renamed p q) { k0 with nextCookie := s.k.nextCookie + 1 } s.lib
        (if s.lib.recursive then movedOut (gsOf []) else []) = some ({ k0 with nextCookie := s.k.nextCookie + 1 }, s.lib) := by
      simp [gsOf, group, movedOut, forgetAll_nil]
    have hop := Sys.op_eq s _ hs hc hk' (libBatch_nil _ _ _) hf
    simp only [gsOf, group, List.foldl_nil, List.filter_nil, emitAll_nil] at hop
    exact ⟨by rw [hop, hcon]; simp [hwp, hwq], by rw [hop, hcon]; simp [hwp, hwq], by rw [hop]; exact hc, by rw [hop],
      fun _ => by rw [hop]; exact invR⟩

end WD.Pipe
