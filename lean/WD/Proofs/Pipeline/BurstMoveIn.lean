/- "renamed again right after it arrived": a directory tree moved into the watched tree and renamed at once, both
   operations read as one batch (recursive watch) -/
import WD.Model.PipelineBurst
import WD.Proofs.Pipeline.RenameIn
import WD.Proofs.Pipeline.BurstMkRename
import WD.Proofs.Pipeline.Tree
set_option linter.unusedSimpArgs false
namespace WD.Pipe

variable {fs : FS} {K : Kern} {L : Lib} {p q : P} {e : Ent}

/-- a directory tree that lay outside the watched tree lies at the free name `q` inside it now: watching `q` with what it
    holds restores the invariant (whatever the cookie counter and the remembered MOVED_FROMs are) -/
theorem movein_inv (inv : InvRec fs K L) (ok : RenameOK fs p q e) (hd : e.isDir = true) (hqf : fs.find? q = none)
    (hwp : watchedDir fs true (parentOf p) = false) (hwq : watchedDir fs true (parentOf q) = true) :
    InvRec (fs.renamed p q) (addTreeWatches (fs.renamed p q) K L q).1 (addTreeWatches (fs.renamed p q) K L q).2 ∧
    (addTreeWatches (fs.renamed p q) K L q).1.nextCookie = K.nextCookie ∧
    (addTreeWatches (fs.renamed p q) K L q).2.movedFrom = L.movedFrom := by
  have hwf := inv.wf
  have hwfR := ok.wf hwf
  have hem := FS.find?_some ok.he
  have hdel : fs.del q = fs := FS.del_missing hqf
  have hqne : ∀ x ∈ fs.ents, x.path ≠ q := FS.find?_none.mp hqf
  have hmovedT : ∀ x ∈ fs.ents, (x.path = p ∨ isUnder p x.path = true) →
      inTreeDir x = false ∧ inTreeDir (rwEnt p q x) = x.isDir := by
    intro x _ hm
    have := ok.moved_inTree hwf hm
    simp [this.1, this.2, hwp, hwq]
  have inv0' : InvOn (fun y => ¬ (y.path = q ∨ isUnder q y.path = true)) none (fs.renamed p q) K L := by
    refine
      { wf := hwfR, isRec := inv.isRec, kwd := inv.kwd, kino := inv.kino, klt := inv.klt, good := ?_, cover := ?_,
        pfwDom := inv.pfwDom, zlt := inv.zlt, zdead := inv.zdead, wfpInv := inv.wfpInv, wfpNodup := inv.wfpNodup,
        pfwNodup := inv.pfwNodup, cookies := inv.cookies }
    · intro w hw
      obtain ⟨x, hxf, h1, h2, h3, h4⟩ := inv.good w hw
      have u : ¬ (x.path = p ∨ isUnder p x.path = true) := by
        intro hm; rw [(hmovedT x hxf hm).1] at h2; cases h2
      have u1 : x.path ≠ p := fun h => u (Or.inl h)
      have u2 : isUnder p x.path = false := by
        cases h : isUnder p x.path with
        | false => rfl
        | true => exact absurd (Or.inr h) u
      exact ⟨x, FS.mem_renamed.mpr ⟨x, hxf, hqne x hxf, (rwEnt_fixed u1 u2).symm⟩, h1, h2, h3, h4⟩
    · intro y hy hty hcy
      obtain ⟨x, hxf, hxq, rfl⟩ := FS.mem_renamed.mp hy
      rcases rwPath_cases p q x.path with ⟨_, e1⟩ | ⟨_, _, u1⟩ | ⟨h1, h2, _⟩
      · exact absurd (Or.inl (by simpa [rwEnt] using e1)) hcy
      · exact absurd (Or.inr (by simpa [rwEnt] using u1)) hcy
      · rw [rwEnt_fixed h1 h2] at hty ⊢
        exact inv.cover x hxf hty trivial
  have hfindq : (fs.renamed p q).find? q = some (rwEnt p q e) := by
    have : rwEnt p q e ∈ (fs.renamed p q).ents := FS.mem_renamed.mpr ⟨e, hem.1, by rw [hem.2]; exact ok.hne, rfl⟩
    have h2 := hwfR.find_mem this
    simpa [rwEnt, hem.2, rwPath_at] using h2
  let ds : List Ent := [rwEnt p q e] ++ ((fs.renamed p q).descendants q).filter (·.isDir)
  have hds_mem : ∀ d ∈ ds, d ∈ (fs.renamed p q).ents ∧ inTreeDir d = true ∧ K.wdOfIno d.ino = none := by
    intro d hdm
    have hdin : d ∈ (fs.renamed p q).ents ∧ d.isDir = true ∧ (d.path = q ∨ isUnder q d.path = true) := by
      rcases List.mem_append.mp hdm with h | h
      · simp at h; subst h
        exact ⟨(FS.find?_some hfindq).1, by simpa [rwEnt] using hd, Or.inl (by simp [rwEnt, hem.2, rwPath_at])⟩
      · obtain ⟨h1, h2⟩ := List.mem_filter.mp h
        obtain ⟨h3, h4⟩ := List.mem_filter.mp h1
        exact ⟨h3, by simpa using h2, Or.inr h4⟩
    obtain ⟨x, hxf, hxq, rfl⟩ := FS.mem_renamed.mp hdin.1
    have hm : x.path = p ∨ isUnder p x.path = true := by
      rcases rwPath_cases p q x.path with ⟨h1, _⟩ | ⟨h1, _, _⟩ | ⟨h1, h2, e1⟩
      · exact Or.inl h1
      · exact Or.inr h1
      · exfalso
        have hq' := hdin.2.2
        simp only [rwEnt, e1] at hq'
        rcases hq' with h | h
        · exact hxq h
        · have := ok.q_free hwf x hxf hxq; rw [h] at this; cases this
    have hT := hmovedT x hxf hm
    refine ⟨hdin.1, by rw [hT.2]; simpa [rwEnt] using hdin.2.1, ?_⟩
    show K.wdOfIno x.ino = none
    exact inv.unwatched (e := x) hxf hT.1
  have hds_nd : ds.Nodup := by
    have hsub : (((fs.renamed p q).descendants q).filter (·.isDir)).Nodup :=
      List.Nodup.sublist (List.filter_sublist.trans List.filter_sublist) (nodup_of_map_nodup _ hwfR.paths)
    refine List.nodup_append.mpr ⟨by simp, hsub, ?_⟩
    intro a ha b hb hab
    simp at ha; subst ha; subst hab
    have := (List.mem_filter.mp (List.mem_filter.mp hb).1).2
    simp [rwEnt, hem.2, rwPath_at, isUnder_irrefl] at this
  obtain ⟨i1, _, i3, i4⟩ := addTree_fold hwfR ds K L _ inv0' hds_nd hds_mem
  have haddeq : addTreeWatches (fs.renamed p q) K L q = ds.foldl (addStep (fs.renamed p q)) (K, L) := by
    rw [addTreeWatches_eq, hfindq]; rfl
  rw [haddeq]
  refine ⟨?_, i3, i4⟩
  apply i1.mono
  intro y hy hty _
  by_cases hcy : y.path = q ∨ isUnder q y.path = true
  · right
    rcases hcy with h | h
    · have : y = rwEnt p q e := hwfR.path_inj hy (FS.find?_some hfindq).1 (by simp [h, rwEnt, hem.2, rwPath_at])
      simp [ds, this]
    · apply List.mem_append_right
      exact List.mem_filter.mpr ⟨List.mem_filter.mpr ⟨hy, h⟩, by simpa using (inTreeDir_iff.mp hty).1⟩
  · exact Or.inl hcy

/- ---------------- two renames in a row, at the level of the file system ---------------- -/

/-- a free name whose parent directory exists is not below another free name -/
theorem fresh_not_above {fs : FS} (hwf : fs.WF) {a b : P} (hb : fs.find? b = none) (hbn : b ≠ [])
    (hapar : fs.isDir (parentOf a) = true) : isUnder b a = false := by
  cases h : isUnder b a with
  | false => rfl
  | true =>
    exfalso
    obtain ⟨x, hx, _⟩ := FS.isDir_iff.mp hapar
    obtain ⟨hxm, hxp⟩ := FS.find?_some hx
    rcases isUnder_parent h with h' | h'
    · rw [← h', hx] at hb; cases hb
    · have := hwf.ancestor_dir _ x hxm rfl b hbn (hxp ▸ h')
      obtain ⟨y, hy, _⟩ := FS.isDir_iff.mp this
      rw [hb] at hy; cases hy

theorem find_renamed_none {fs : FS} {o q1 c : P} (hc : fs.find? c = none) (hne : c ≠ q1) (hnu : isUnder q1 c = false) :
    (fs.renamed o q1).find? c = none := by
  rw [FS.find?_none]
  intro y hy hyp
  obtain ⟨x, hxf, _, rfl⟩ := FS.mem_renamed.mp hy
  simp only [rwEnt] at hyp
  rcases rwPath_cases o q1 x.path with ⟨_, e1⟩ | ⟨_, _, u1⟩ | ⟨_, _, e1⟩
  · rw [e1] at hyp; exact hne hyp.symm
  · rw [hyp, hnu] at u1; cases u1
  · rw [e1] at hyp; exact (FS.find?_none.mp hc) x hxf hyp

theorem desc_renamed_nil {fs : FS} (hwf : fs.WF) {o q1 c : P} (hc : fs.find? c = none) (hcn : c ≠ [])
    (h1 : isUnder c q1 = false) (h2 : ∀ r, isUnder c (q1 ++ r) = true → r ≠ [] → False) :
    (fs.renamed o q1).descendants c = [] := by
  unfold FS.descendants
  rw [List.filter_eq_nil_iff]
  intro y hy
  obtain ⟨x, hxf, _, rfl⟩ := FS.mem_renamed.mp hy
  simp only [rwEnt, Bool.not_eq_true]
  rcases rwPath_cases o q1 x.path with ⟨_, e1⟩ | ⟨hu, e1, _⟩ | ⟨_, _, e1⟩
  · rw [e1]; exact h1
  · rw [e1]
    cases h : isUnder c (q1 ++ x.path.drop o.length) with
    | false => rfl
    | true =>
      exfalso
      refine h2 _ h ?_
      obtain ⟨r, hr, hxr⟩ := isUnder_iff.mp hu
      rw [hxr]; simpa using hr
  · rw [e1]
    exact hwf.no_descendants_of_missing hcn (by simp [FS.exists, hc]) x hxf

/-- moving `o` to the free name `q1` and on to the free name `q2` is moving it to `q2` -/
theorem renamed_renamed {fs : FS} (hwf : fs.WF) {o q1 q2 : P} (hq1 : fs.find? q1 = none) (hq1n : q1 ≠ [])
    (hq2 : fs.find? q2 = none) (hne : q1 ≠ q2) (hnu : isUnder q1 q2 = false) :
    (fs.renamed o q1).renamed q1 q2 = fs.renamed o q2 := by
  have h2' : (fs.renamed o q1).find? q2 = none := find_renamed_none hq2 (Ne.symm hne) hnu
  unfold FS.renamed
  rw [show ({ fs with ents := (fs.del q1).ents.map (rwEnt o q1) } : FS).del q2 = { fs with ents := (fs.del q1).ents.map (rwEnt o q1) } from
    FS.del_missing h2', FS.del_missing hq1, FS.del_missing hq2]
  simp only [List.map_map]
  congr 1
  apply List.map_congr_left
  intro x hx
  simp only [Function.comp, rwEnt]
  congr 1
  rcases rwPath_cases o q1 x.path with ⟨h1, e1⟩ | ⟨hu, e1, _⟩ | ⟨h1, h2, e1⟩
  · rw [e1, rwPath_at, h1, rwPath_at]
  · obtain ⟨r, hr, hxr⟩ := isUnder_iff.mp hu
    rw [e1, hxr]
    simp only [List.drop_left']
    rw [rwPath_under (isUnder_append q1 hr), rwPath_under (isUnder_append o hr)]
    simp
  · rw [e1, rwPath_other h1 h2]
    exact rwPath_other ((FS.find?_none.mp hq1) x hx)
      (hwf.no_descendants_of_missing hq1n (by simp [FS.exists, hq1]) x hx)

/- ---------------- replaying synthetic moved events whose sources no longer exist anywhere ---------------- -/

/-- moved events whose sources lie at or below a name `a` the tree holds nothing of, and whose destinations (with kinds)
    all belong to one path-functional target set that also contains the tree: replaying them adds the destinations -/
theorem replay_arrivals (T : Tree) (a : P) (hT : ∀ x ∈ T, ∀ y ∈ T, x.1 = y.1 → x = y)
    (hTa : ∀ y ∈ T, y.1 ≠ a ∧ isUnder a y.1 = false) :
    ∀ (evs : List PEv) (t : Tree), (∀ y ∈ t, y ∈ T) →
    (∀ e ∈ evs, e.cls.eventType = "moved" ∧ (e.src = a ∨ isUnder a e.src = true) ∧ e.src ≠ [] ∧ e.dest ≠ [] ∧
      (e.dest, e.cls.isDirectory) ∈ T) →
    ∀ y, y ∈ replay t evs ↔ y ∈ t ∨ ∃ e ∈ evs, y = (e.dest, e.cls.isDirectory) := by
  intro evs
  induction evs with
  | nil => intro t _ _ y; simp [replay]
  | cons e rest ih =>
    intro t ht hev y
    obtain ⟨hc, hsrc, hsn, hdn, hin⟩ := hev e (List.mem_cons_self ..)
    have herase : eraseSub t e.src = t := by
      unfold eraseSub
      rw [List.filter_eq_self]
      intro x hx
      obtain ⟨h1, h2⟩ := hTa x (ht x hx)
      have n1 : x.1 ≠ e.src := by
        intro h; rcases hsrc with hs | hs
        · exact h1 (h.trans hs)
        · rw [← h, h2] at hs; cases hs
      have n2 : isUnder e.src x.1 = false := by
        cases hu : isUnder e.src x.1 with
        | false => rfl
        | true =>
          rcases hsrc with hs | hs
          · rw [hs, h2] at hu; cases hu
          · have := isUnder_trans hs hu; rw [h2] at this; cases this
      simp [n1, n2]
    have happ : applyEv t e = setEntry t e.dest e.cls.isDirectory := by
      obtain ⟨c, p, q, sy⟩ := e
      rw [applyEv_moved t c hc p q sy]
      simp only at hsn hdn herase
      simp [hsn, hdn, herase]
    have ht' : ∀ y ∈ setEntry t e.dest e.cls.isDirectory, y ∈ T := by
      intro y hy
      rcases mem_setEntry.mp hy with ⟨h, _⟩ | rfl
      · exact ht y h
      · exact hin
    rw [replay_cons, happ, ih _ ht' (fun x hx => hev x (List.mem_cons_of_mem _ hx)) y, mem_setEntry]
    constructor
    · rintro ((⟨h, _⟩ | h) | ⟨x, hx, h⟩)
      · exact Or.inl h
      · exact Or.inr ⟨e, List.mem_cons_self .., h⟩
      · exact Or.inr ⟨x, List.mem_cons_of_mem _ hx, h⟩
    · rintro (h | ⟨x, hx, h⟩)
      · by_cases hp : y.1 = e.dest
        · exact Or.inl (Or.inr (hT y (ht y h) _ hin hp))
        · exact Or.inl (Or.inl ⟨h, hp⟩)
      · rcases List.mem_cons.mp hx with rfl | hx
        · exact Or.inl (Or.inr h)
        · exact Or.inr ⟨x, hx, h⟩

/- ---------------- the burst ---------------- -/

theorem onEntry_bump (k : Kern) (c : Nat) (i : Option Nat) (f : Flag) (b : Bool) (ck : Nat) (n : String) :
    ({ k with nextCookie := c } : Kern).onEntry i f b ck n = k.onEntry i f b ck n := rfl

/-- the kernel side of `rename o q1; rename q1 q2` (a directory from outside the tree, two free names inside it) -/
theorem movein_rename_kernel (s : Sys) (o q1 q2 : P) (e : Ent) (inv : InvRec s.fs s.k s.lib)
    (ok1 : RenameOK s.fs o q1 e) (hd : e.isDir = true) (hq1f : s.fs.find? q1 = none)
    (hq2f : s.fs.find? q2 = none) (hne12 : q1 ≠ q2) (hnu12 : isUnder q1 q2 = false) (hq2par : s.fs.isDir (parentOf q2) = true)
    (hwo : watchedDir s.fs true (parentOf o) = false) (hw1 : watchedDir s.fs true (parentOf q1) = true)
    (hw2 : watchedDir s.fs true (parentOf q2) = true) :
    ∃ wd1 wd2, lookupW s.lib.pathForWd wd1 = some (parentOf q1) ∧ lookupW s.lib.pathForWd wd2 = some (parentOf q2) ∧
      kernelOps s.fs s.k [.rename o q1, .rename q1 q2] =
        (s.fs.renamed o q2, { s.k with nextCookie := s.k.nextCookie + 2 },
         [⟨wd1, .movedTo, true, s.k.nextCookie, some (baseName q1)⟩,
          ⟨wd1, .movedFrom, true, s.k.nextCookie + 1, some (baseName q1)⟩,
          ⟨wd2, .movedTo, true, s.k.nextCookie + 1, some (baseName q2)⟩]) := by
  have hwf := inv.wf
  have hwfR1 := ok1.wf hwf
  have hem := FS.find?_some ok1.he
  have hq1n := ne_nil_of_two_le ok1.hq2
  have hmap : ∀ (a b : P) (l : List Ent), l.map (fun x => if x.path == a then { x with path := b }
      else if isUnder a x.path then { x with path := b ++ x.path.drop a.length } else x) = l.map (rwEnt a b) := by
    intro a b l; apply List.map_congr_left; intro x _; exact rwEnt_eq_model a b x
  -- the records on the three parents
  have hro : ∀ f b c, s.k.onEntry ((s.fs.find? (parentOf o)).map (·.ino)) f b c (baseName o) = [] := by
    rcases inv.parent_recs o with ⟨hw, _⟩ | ⟨_, h⟩
    · rw [hwo] at hw; cases hw
    · exact h
  obtain ⟨wd1, hB1, hr1⟩ : ∃ wd, lookupW s.lib.pathForWd wd = some (parentOf q1) ∧ ∀ f b c,
      s.k.onEntry ((s.fs.find? (parentOf q1)).map (·.ino)) f b c (baseName q1) = [⟨wd, f, b, c, some (baseName q1)⟩] := by
    rcases inv.parent_recs q1 with ⟨_, wd, h1, _, h3⟩ | ⟨hw, _⟩
    · exact ⟨wd, h1, h3⟩
    · rw [hw1] at hw; cases hw
  obtain ⟨wd2, hB2, hr2⟩ : ∃ wd, lookupW s.lib.pathForWd wd = some (parentOf q2) ∧ ∀ f b c,
      s.k.onEntry ((s.fs.find? (parentOf q2)).map (·.ino)) f b c (baseName q2) = [⟨wd, f, b, c, some (baseName q2)⟩] := by
    rcases inv.parent_recs q2 with ⟨_, wd, h1, _, h3⟩ | ⟨hw, _⟩
    · exact ⟨wd, h1, h3⟩
    · rw [hw2] at hw; cases hw
  refine ⟨wd1, wd2, hB1, hB2, ?_⟩
  have hk1 : kernelOp s.fs s.k (.rename o q1) = (s.fs.renamed o q1, { s.k with nextCookie := s.k.nextCookie + 1 },
      [⟨wd1, .movedTo, true, s.k.nextCookie, some (baseName q1)⟩]) := by
    simp only [kernelOp, ok1.he, hq1f, hmap, hro, hr1, hd, List.nil_append, List.append_nil]
    simp [FS.renamed, FS.del_missing hq1f]
  -- the parents of the two free names are directories of the tree: the move does not touch them
  have hfixed : ∀ c : P, watchedDir s.fs true c = true → c ≠ q1 → (s.fs.renamed o q1).find? c = s.fs.find? c := by
    intro c hc hcq
    obtain ⟨x, hx, hxt⟩ := watchedDir_rec_iff.mp hc
    obtain ⟨hxm, hxp⟩ := FS.find?_some hx
    have hnm : ¬ (x.path = o ∨ isUnder o x.path = true) := by
      intro hm
      have := (ok1.moved_inTree hwf hm).1
      rw [hxt, hwo] at this; simp at this
    have u1 : x.path ≠ o := fun h => hnm (Or.inl h)
    have u2 : isUnder o x.path = false := by
      cases h : isUnder o x.path with
      | false => rfl
      | true => exact absurd (Or.inr h) hnm
    have hmem : x ∈ (s.fs.renamed o q1).ents :=
      FS.mem_renamed.mpr ⟨x, hxm, by rw [hxp]; exact hcq, (rwEnt_fixed u1 u2).symm⟩
    rw [hx, ← hxp]; exact hwfR1.find_mem hmem
  have hp1 : parentOf q1 ≠ q1 := by
    intro h; have := parentOf_length q1; rw [h] at this; have := ok1.hq2; omega
  have hp2 : parentOf q2 ≠ q1 := by
    intro h; rw [h] at hq2par
    obtain ⟨x, hx, _⟩ := FS.isDir_iff.mp hq2par; rw [hq1f] at hx; cases hx
  have hfind1 : (s.fs.renamed o q1).find? q1 = some (rwEnt o q1 e) := by
    have : rwEnt o q1 e ∈ (s.fs.renamed o q1).ents := FS.mem_renamed.mpr ⟨e, hem.1, by rw [hem.2]; exact ok1.hne, rfl⟩
    have h2 := hwfR1.find_mem this
    simpa [rwEnt, hem.2, rwPath_at] using h2
  have hfind2 : (s.fs.renamed o q1).find? q2 = none := find_renamed_none hq2f (Ne.symm hne12) hnu12
  have hk2 : kernelOp (s.fs.renamed o q1) { s.k with nextCookie := s.k.nextCookie + 1 } (.rename q1 q2) =
      (s.fs.renamed o q2, { s.k with nextCookie := s.k.nextCookie + 2 },
       [⟨wd1, .movedFrom, true, s.k.nextCookie + 1, some (baseName q1)⟩, ⟨wd2, .movedTo, true, s.k.nextCookie + 1, some (baseName q2)⟩]) := by
    simp only [kernelOp, hfind1, hfind2, hmap, hfixed _ hw1 hp1, hfixed _ hw2 hp2, onEntry_bump, hr1, hr2, List.append_nil]
    have hisd : (rwEnt o q1 e).isDir = true := by simpa [rwEnt] using hd
    have h2 : (s.fs.renamed o q1).renamed q1 q2 =
        { s.fs.renamed o q1 with ents := (s.fs.renamed o q1).ents.map (rwEnt q1 q2) } := by
      show ({ s.fs.renamed o q1 with ents := ((s.fs.renamed o q1).del q2).ents.map (rwEnt q1 q2) } : FS) = _
      rw [FS.del_missing hfind2]
    rw [← renamed_renamed hwf hq1f hq1n hq2f hne12 hnu12, h2]
    simp [hisd]
  simp [kernelOps, hk1, hk2]

theorem addTreeWatches_nothing (fs : FS) (k : Kern) (lib : Lib) (p : P) (h1 : fs.find? p = none) (h2 : fs.descendants p = []) :
    addTreeWatches fs k lib p = (k, lib) := by
  rw [addTreeWatches_eq, h1, h2]; rfl

/-- the events of the burst -/
def moveinRenameEvents (F : FS) (full : Bool) (q1 q2 : P) : List PEv :=
  (if full then [mkEv .DirMovedEvent [] q1] else [mkEv .DirCreatedEvent q1]) ++ [dirMod q1] ++
    ([mkEv .DirMovedEvent q1 q2, dirMod q1, dirMod q2] ++ subMoved F q1 q2)

/-- **renamed again right after it arrived**: `rename o q1; rename q1 q2` read as one batch - `o` a directory tree outside
    the watched tree, `q1` and `q2` free names in directories of the tree.  The first MOVED_TO finds nothing at `q1` any
    more; the pair MOVED_FROM/MOVED_TO finds no watch to re-key and watches what arrived at `q2`, with what it holds -/
theorem burst_movein_rename_state (s : Sys) (o q1 q2 : P) (e : Ent) (inv : InvRec s.fs s.k s.lib) (hs : s.stopped = false)
    (hc : s.crashed = false) (ok1 : RenameOK s.fs o q1 e) (ok2 : RenameOK s.fs o q2 e) (hd : e.isDir = true)
    (hq1f : s.fs.find? q1 = none) (hq2f : s.fs.find? q2 = none) (hne12 : q1 ≠ q2) (hnu12 : isUnder q1 q2 = false)
    (hwo : watchedDir s.fs true (parentOf o) = false) (hw1 : watchedDir s.fs true (parentOf q1) = true)
    (hw2 : watchedDir s.fs true (parentOf q2) = true) :
    (s.burst [.rename o q1, .rename q1 q2]).2 = moveinRenameEvents (s.fs.renamed o q2) s.full q1 q2 ∧
    (s.burst [.rename o q1, .rename q1 q2]).1.fs = s.fs.renamed o q2 ∧
    (s.burst [.rename o q1, .rename q1 q2]).1.stopped = false ∧ (s.burst [.rename o q1, .rename q1 q2]).1.crashed = false ∧
    InvRec (s.burst [.rename o q1, .rename q1 q2]).1.fs (s.burst [.rename o q1, .rename q1 q2]).1.k
      (s.burst [.rename o q1, .rename q1 q2]).1.lib := by
  have hwf := inv.wf
  have hq1n := ne_nil_of_two_le ok1.hq2
  have hq2n := ne_nil_of_two_le ok2.hq2
  have hpb1 := snoc_parent_base hq1n
  have hpb2 := snoc_parent_base hq2n
  obtain ⟨wd1, wd2, hB1, hB2, hk⟩ := movein_rename_kernel s o q1 q2 e inv ok1 hd hq1f hq2f hne12 hnu12 ok2.hqpar hwo hw1 hw2
  have hnu21 : isUnder q2 q1 = false := fresh_not_above hwf hq2f hq2n ok1.hqpar
  have hF1 : (s.fs.renamed o q2).find? q1 = none := find_renamed_none hq1f hne12 hnu21
  have hFd1 : (s.fs.renamed o q2).descendants q1 = [] := by
    refine desc_renamed_nil hwf hq1f hq1n hnu12 ?_
    intro r hr hrn
    rcases prefix_comparable hr (isUnder_append q2 hrn) with h | h | h
    · exact hne12 h
    · rw [hnu12] at h; cases h
    · rw [hnu21] at h; cases h
  have hkey : lookupP s.lib.wdForPath q1 = none := by
    cases h : lookupP s.lib.wdForPath q1 with
    | none => rfl
    | some wd =>
      obtain ⟨x, hx, hxp, _⟩ := inv.key_dir h
      exact absurd hxp ((FS.find?_none.mp hq1f) x hx)
  -- the library side
  have hr1 := libRecord_to_lone_dir (s.fs.renamed o q2) { s.k with nextCookie := s.k.nextCookie + 2 } s.lib wd1 s.k.nextCookie
    (baseName q1) (parentOf q1) hB1 inv.cookies inv.isRec
  rw [hpb1, addTreeWatches_nothing _ _ _ _ hF1 hFd1] at hr1
  have hr2 := libRecord_from (s.fs.renamed o q2) { s.k with nextCookie := s.k.nextCookie + 2 } s.lib wd1 true (s.k.nextCookie + 1)
    (baseName q1) (parentOf q1) hB1
  rw [hpb1] at hr2
  have hr3 := libRecord_to_paired_dir_nokey (s.fs.renamed o q2) { s.k with nextCookie := s.k.nextCookie + 2 } s.lib wd2
    (s.k.nextCookie + 1) (baseName q2) (parentOf q2) q1 hB2 hkey inv.isRec
  rw [hpb2] at hr3
  have inv' : InvRec s.fs { s.k with nextCookie := s.k.nextCookie + 2 } (s.lib.remember (s.k.nextCookie + 1) q1) :=
    (inv.bump (s.k.nextCookie + 2) (by omega)).remember _ _ (by simp)
  obtain ⟨invF, _, _⟩ := movein_inv inv' ok2 hd hq2f hwo hw2
  have hl : libBatch (s.fs.renamed o q2) { s.k with nextCookie := s.k.nextCookie + 2 } s.lib
      [⟨wd1, .movedTo, true, s.k.nextCookie, some (baseName q1)⟩,
       ⟨wd1, .movedFrom, true, s.k.nextCookie + 1, some (baseName q1)⟩,
       ⟨wd2, .movedTo, true, s.k.nextCookie + 1, some (baseName q2)⟩] =
      some ((addTreeWatches (s.fs.renamed o q2) { s.k with nextCookie := s.k.nextCookie + 2 } (s.lib.remember (s.k.nextCookie + 1) q1) q2).1,
            (addTreeWatches (s.fs.renamed o q2) { s.k with nextCookie := s.k.nextCookie + 2 } (s.lib.remember (s.k.nextCookie + 1) q1) q2).2,
            [⟨wd1, .movedTo, true, s.k.nextCookie, some (baseName q1), q1⟩,
             ⟨wd1, .movedFrom, true, s.k.nextCookie + 1, some (baseName q1), q1⟩,
             ⟨wd2, .movedTo, true, s.k.nextCookie + 1, some (baseName q2), q2⟩]) := by
    rw [libBatch_cons, hr1]
    simp only
    rw [libBatch_cons, hr2]
    simp only
    rw [libBatch_cons, hr3]
    simp [libBatch_nil]
  have hgs : gsOf [(⟨wd1, .movedTo, true, s.k.nextCookie, some (baseName q1), q1⟩ : LEv),
      ⟨wd1, .movedFrom, true, s.k.nextCookie + 1, some (baseName q1), q1⟩,
      ⟨wd2, .movedTo, true, s.k.nextCookie + 1, some (baseName q2), q2⟩] =
      [.one ⟨wd1, .movedTo, true, s.k.nextCookie, some (baseName q1), q1⟩,
       .two ⟨wd1, .movedFrom, true, s.k.nextCookie + 1, some (baseName q1), q1⟩ ⟨wd2, .movedTo, true, s.k.nextCookie + 1, some (baseName q2), q2⟩] := by
    simp [gsOf, group, pairIn, Grouped.keep]
  have hsubc : subCreated (s.fs.renamed o q2) q1 = [] := by simp [subCreated, hFd1]
  have hrecF : (addTreeWatches (s.fs.renamed o q2) { s.k with nextCookie := s.k.nextCookie + 2 } (s.lib.remember (s.k.nextCookie + 1) q1) q2).2.recursive = true :=
    invF.isRec
  have hem : emitAll (s.fs.renamed o q2) (addTreeWatches (s.fs.renamed o q2) { s.k with nextCookie := s.k.nextCookie + 2 } (s.lib.remember (s.k.nextCookie + 1) q1) q2).2.recursive s.full
      [.one ⟨wd1, .movedTo, true, s.k.nextCookie, some (baseName q1), q1⟩,
       .two ⟨wd1, .movedFrom, true, s.k.nextCookie + 1, some (baseName q1), q1⟩ ⟨wd2, .movedTo, true, s.k.nextCookie + 1, some (baseName q2), q2⟩] =
      (moveinRenameEvents (s.fs.renamed o q2) s.full q1 q2, false) := by
    rw [hrecF]
    simp [emitAll_cons, emitAll_nil, emit, hsubc, dirMod, mkEv, moveinRenameEvents]
  have hmo : movedOut [Grouped.one (⟨wd1, .movedTo, true, s.k.nextCookie, some (baseName q1), q1⟩ : LEv),
      .two ⟨wd1, .movedFrom, true, s.k.nextCookie + 1, some (baseName q1), q1⟩ ⟨wd2, .movedTo, true, s.k.nextCookie + 1, some (baseName q2), q2⟩] = [] := by
    simp [movedOut]
  have hburst : s.burst [.rename o q1, .rename q1 q2] =
      ({ s with fs := s.fs.renamed o q2,
                k := (addTreeWatches (s.fs.renamed o q2) { s.k with nextCookie := s.k.nextCookie + 2 } (s.lib.remember (s.k.nextCookie + 1) q1) q2).1,
                lib := (addTreeWatches (s.fs.renamed o q2) { s.k with nextCookie := s.k.nextCookie + 2 } (s.lib.remember (s.k.nextCookie + 1) q1) q2).2,
                stopped := false },
       moveinRenameEvents (s.fs.renamed o q2) s.full q1 q2) := by
    unfold Sys.burst
    simp only [hk, hs, hc, Bool.or_self, Bool.false_eq_true, if_false, hl, hgs, hem, departed_nil _ hmo]
    simp [forgetAll_nil]
  rw [hburst]
  exact ⟨rfl, rfl, rfl, hc, invF⟩

/-- ... and replaying what it delivers on the tree before gives the tree after -/
theorem burst_movein_rename_replay (s : Sys) (o q1 q2 : P) (e : Ent) (hwf : s.fs.WF)
    (ok1 : RenameOK s.fs o q1 e) (ok2 : RenameOK s.fs o q2 e) (hd : e.isDir = true)
    (hq1f : s.fs.find? q1 = none) (hq2f : s.fs.find? q2 = none) (hne12 : q1 ≠ q2) (hnu12 : isUnder q1 q2 = false)
    (hwo : watchedDir s.fs true (parentOf o) = false) (hw2 : watchedDir s.fs true (parentOf q2) = true) (full : Bool) :
    sameTree (replay (treeW s.fs) (moveinRenameEvents (s.fs.renamed o q2) full q1 q2)) (treeW (s.fs.renamed o q2)) := by
  have hq1n := ne_nil_of_two_le ok1.hq2
  have hq2n := ne_nil_of_two_le ok2.hq2
  have hwfF := ok2.wf hwf
  have hem := FS.find?_some ok2.he
  have hnu21 : isUnder q2 q1 = false := fresh_not_above hwf hq2f hq2n ok1.hqpar
  have hF1 : (s.fs.renamed o q2).find? q1 = none := find_renamed_none hq1f hne12 hnu21
  have hFd1 : (s.fs.renamed o q2).descendants q1 = [] := by
    refine desc_renamed_nil hwf hq1f hq1n hnu12 ?_
    intro r hr hrn
    rcases prefix_comparable hr (isUnder_append q2 hrn) with h | h | h
    · exact hne12 h
    · rw [hnu12] at h; cases h
    · rw [hnu21] at h; cases h
  -- `q2` lies in the tree, `o` does not
  have hWq2 : isUnder ["W"] q2 = true := by
    unfold watchedDir at hw2
    simp only [Bool.and_eq_true, Bool.or_eq_true, beq_iff_eq, Bool.true_and] at hw2
    exact isUnder_of_parent hq2n hw2.2
  have hopar : s.fs.isDir (parentOf o) = true := by
    rcases hwf.parent hem.1 with h | h | h
    · rw [hem.2] at h; have := ok2.hp2; rw [h] at this; simp at this
    · rw [hem.2] at h; have := ok2.hp2; rw [h] at this; simp at this
    · rw [hem.2] at h; exact h.2
  have hWo : ∀ x : P, (x = o ∨ isUnder o x = true) → isUnder ["W"] x = false := by
    intro x hx
    cases hW : isUnder ["W"] x with
    | false => rfl
    | true =>
      exfalso
      have hWo' : isUnder ["W"] o = true := by
        rcases hx with rfl | hx
        · exact hW
        · rcases prefix_comparable hW hx with h | h | h
          · have := ok2.hp2; rw [← h] at this; simp at this
          · exact h
          · have := isUnder_length h; have := ok2.hp2; simp only [List.length_cons, List.length_nil] at *; omega
      unfold watchedDir at hwo
      simp only [hopar, Bool.true_and, Bool.or_eq_false_iff, beq_eq_false_iff_ne, ne_eq] at hwo
      rcases isUnder_parent hWo' with h | h
      · exact hwo.1 h
      · rw [hwo.2] at h; cases h
  -- the target set
  have hT : ∀ x ∈ treeW (s.fs.renamed o q2), ∀ y ∈ treeW (s.fs.renamed o q2), x.1 = y.1 → x = y := by
    intro x hx y hy hxy
    obtain ⟨a, ha, ha1, ha2, _⟩ := mem_treeW.mp hx
    obtain ⟨b, hb', hb1, hb2, _⟩ := mem_treeW.mp hy
    have : a = b := hwfF.path_inj ha hb' (by rw [ha1, hb1, hxy])
    subst this
    exact Prod.ext hxy (by rw [← ha2, ← hb2])
  have hTa : ∀ y ∈ treeW (s.fs.renamed o q2), y.1 ≠ q1 ∧ isUnder q1 y.1 = false := by
    intro y hy
    obtain ⟨a, ha, ha1, _, _⟩ := mem_treeW.mp hy
    refine ⟨fun h => (FS.find?_none.mp hF1) a ha (ha1.trans h), ?_⟩
    cases hu : isUnder q1 y.1 with
    | false => rfl
    | true =>
      have : a ∈ (s.fs.renamed o q2).descendants q1 := by
        unfold FS.descendants; exact List.mem_filter.mpr ⟨ha, by rw [ha1]; exact hu⟩
      rw [hFd1] at this; cases this
  have hsub : ∀ y ∈ treeW s.fs, y ∈ treeW (s.fs.renamed o q2) := by
    intro y hy
    obtain ⟨x, hx, h1, h2, h3⟩ := mem_treeW.mp hy
    have hnm : x.path ≠ o ∧ isUnder o x.path = false := by
      constructor
      · intro h; have := hWo x.path (Or.inl h); rw [h1, h3] at this; cases this
      · cases hu : isUnder o x.path with
        | false => rfl
        | true => have := hWo x.path (Or.inr hu); rw [h1, h3] at this; cases this
    refine mem_treeW.mpr ⟨x, FS.mem_renamed.mpr ⟨x, hx, (FS.find?_none.mp hq2f) x hx, (rwEnt_fixed hnm.1 hnm.2).symm⟩, h1, h2, h3⟩
  have hq2T : (q2, true) ∈ treeW (s.fs.renamed o q2) := by
    refine mem_treeW.mpr ⟨rwEnt o q2 e, FS.mem_renamed.mpr ⟨e, hem.1, by rw [hem.2]; exact ok2.hne, rfl⟩, ?_, ?_, hWq2⟩
    · simp [rwEnt, hem.2, rwPath_at]
    · simpa [rwEnt] using hd
  have hdescT : ∀ d ∈ (s.fs.renamed o q2).descendants q2, (d.path, d.isDir) ∈ treeW (s.fs.renamed o q2) := by
    intro d hd'
    unfold FS.descendants at hd'
    obtain ⟨h1, h2⟩ := List.mem_filter.mp hd'
    exact mem_treeW.mpr ⟨d, h1, rfl, rfl, isUnder_trans hWq2 h2⟩
  -- the first events: the name `q1` appears and disappears again
  have hfirst : replay (treeW s.fs) ((if full then [mkEv .DirMovedEvent [] q1] else [mkEv .DirCreatedEvent q1]) ++ [dirMod q1] ++
      [mkEv .DirMovedEvent q1 q2, dirMod q1, dirMod q2]) =
      setEntry (eraseSub (setEntry (treeW s.fs) q1 true) q1) q2 true := by
    cases full <;>
      simp [replay, applyEv, mkEv, dirMod, EvClass.eventType, EvClass.isDirectory, hq1n, hq2n]
  have hsame : sameTree (setEntry (eraseSub (setEntry (treeW s.fs) q1 true) q1) q2 true) (setEntry (treeW s.fs) q2 true) := by
    apply sameTree_setEntry
    intro y
    rw [mem_eraseSub, mem_setEntry]
    constructor
    · rintro ⟨(⟨h, _⟩ | h), h2, _⟩
      · exact h
      · rw [h] at h2; exact absurd rfl h2
    · intro h
      obtain ⟨a1, a2⟩ := hTa y (hsub y h)
      exact ⟨Or.inl ⟨h, a1⟩, a1, a2⟩
  unfold moveinRenameEvents
  rw [← List.append_assoc, replay_append, hfirst]
  refine sameTree_trans (sameTree_replay hsame _) ?_
  have hin : ∀ y ∈ setEntry (treeW s.fs) q2 true, y ∈ treeW (s.fs.renamed o q2) := by
    intro y hy
    rcases mem_setEntry.mp hy with ⟨h, _⟩ | rfl
    · exact hsub y h
    · exact hq2T
  have hevs : ∀ ev ∈ subMoved (s.fs.renamed o q2) q1 q2, ev.cls.eventType = "moved" ∧ (ev.src = q1 ∨ isUnder q1 ev.src = true) ∧
      ev.src ≠ [] ∧ ev.dest ≠ [] ∧ (ev.dest, ev.cls.isDirectory) ∈ treeW (s.fs.renamed o q2) := by
    intro ev hev
    obtain ⟨d, hd', rfl⟩ := List.mem_map.mp hev
    have hdu : isUnder q2 d.path = true := by
      unfold FS.descendants at hd'; exact (List.mem_filter.mp hd').2
    have hsrc : isUnder q1 (q1 ++ d.path.drop q2.length) = true := rewrite_under hdu
    refine ⟨by cases d.isDir <;> simp [mkEv, EvClass.eventType], Or.inr (by simpa [mkEv] using hsrc), ?_, ?_, ?_⟩
    · simp only [mkEv]; intro h; exact hq1n (List.append_eq_nil_iff.mp h).1
    · simp only [mkEv]; intro h; rw [h] at hdu; have := isUnder_length hdu; simp at this
    · have := hdescT d hd'
      cases hk : d.isDir <;> simpa [mkEv, EvClass.isDirectory, hk] using this
  intro y
  rw [replay_arrivals _ q1 hT hTa _ _ hin hevs y, mem_setEntry]
  constructor
  · rintro ((⟨h, _⟩ | h) | ⟨ev, hev, h⟩)
    · exact hsub y h
    · rw [h]; exact hq2T
    · rw [h]; exact (hevs ev hev).2.2.2.2
  · intro hy
    obtain ⟨a, ha, ha1, ha2, ha3⟩ := mem_treeW.mp hy
    obtain ⟨x, hxf, hxq, rfl⟩ := FS.mem_renamed.mp ha
    rcases rwPath_cases o q2 x.path with ⟨h1, e1⟩ | ⟨hu, _, u1⟩ | ⟨h1, h2, e1⟩
    · -- the directory itself
      left; right
      have hxe : x = e := hwf.path_inj hxf hem.1 (h1.trans hem.2.symm)
      subst hxe
      apply Prod.ext
      · simp only [rwEnt, e1] at ha1; exact ha1.symm
      · simp only [rwEnt] at ha2; rw [← ha2, hd]
    · -- a descendant: announced by a synthetic moved event
      right
      have hdm : rwEnt o q2 x ∈ (s.fs.renamed o q2).descendants q2 := by
        unfold FS.descendants; exact List.mem_filter.mpr ⟨ha, by simpa [rwEnt] using u1⟩
      refine ⟨_, List.mem_map.mpr ⟨_, hdm, rfl⟩, ?_⟩
      apply Prod.ext
      · simp only [mkEv]; exact ha1.symm
      · simp only [mkEv]
        cases hk : (rwEnt o q2 x).isDir <;> simp [EvClass.isDirectory] <;> rw [← ha2, hk]
    · -- an entry the move did not touch
      left; left
      have hfix := rwEnt_fixed (q := q2) h1 h2
      rw [hfix] at ha1 ha2
      exact ⟨mem_treeW.mpr ⟨x, hxf, ha1, ha2, ha3⟩, by rw [← ha1]; exact hxq⟩

end WD.Pipe
