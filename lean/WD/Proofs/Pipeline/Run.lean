/- histories: from the start of the watch, operation by operation -/
import WD.Proofs.Pipeline.RenameMove
set_option linter.unusedSimpArgs false
namespace WD.Pipe

/-- the file system after an operation does not depend on the kernel's watches -/
theorem removeAll_fs (es : List Ent) (fs : FS) (k k' : Kern) : (removeAll fs k es).1 = (removeAll fs k' es).1 := by
  induction es generalizing fs k k' with
  | nil => rfl
  | cons e rest ih =>
    rw [removeAll_cons, removeAll_cons]
    simp only
    have h1 : (removeEntry fs k e).1 = (removeEntry fs k' e).1 := rfl
    rw [h1]; exact ih _ _ _

theorem kernelOp_fs (fs : FS) (k k' : Kern) (op : Op) : (kernelOp fs k op).1 = (kernelOp fs k' op).1 := by
  cases op with
  | create p => rfl
  | write p => rfl
  | chmod p => simp only [kernelOp]; cases fs.find? p <;> rfl
  | unlink p => simp only [kernelOp]; cases fs.find? p <;> rfl
  | mkdir p => rfl
  | rmdir p => simp only [kernelOp]; cases fs.find? p <;> rfl
  | rmtree p => simp only [kernelOp]; cases fs.find? p with
    | none => rfl
    | some e => exact removeAll_fs _ _ _ _
  | rmtreeOrd p order => simp only [kernelOp]; cases fs.find? p with
    | none => rfl
    | some e => exact removeAll_fs _ _ _ _
  | rename p q =>
    simp only [kernelOp]
    cases fs.find? p with
    | none => rfl
    | some e => cases fs.find? q <;> rfl

theorem Sys.op_fs (s : Sys) (op : Op) : (s.op op).1.fs = fsAfter s.fs op := by
  unfold Sys.op fsAfter
  rw [kernelOp_fs s.fs ⟨[], 1, 1⟩ s.k op]
  generalize kernelOp s.fs s.k op = r
  obtain ⟨fs1, k1, recs⟩ := r
  simp only
  split
  · rfl
  · split
    · rfl
    · split <;> rfl

theorem Sys.op_stopped (s : Sys) (op : Op) (h : s.stopped = true) :
    (s.op op).2 = [] ∧ (s.op op).1.stopped = true ∧ (s.op op).1.crashed = s.crashed ∧ (s.op op).1.full = s.full := by
  unfold Sys.op
  generalize kernelOp s.fs s.k op = r
  obtain ⟨fs1, k1, recs⟩ := r
  simp [h]

/-- the contract of a whole history: operation by operation; nothing more once the emitter has stopped -/
def contractRun (fs : FS) (recursive full : Bool) : List Op → List (List PEv)
  | [] => []
  | op :: rest =>
    if (contract fs recursive full op).2 then (contract fs recursive full op).1 :: rest.map (fun _ => [])
    else (contract fs recursive full op).1 :: contractRun (fsAfter fs op) recursive full rest

theorem run_stopped (s : Sys) (ops : List Op) (h : s.stopped = true) :
    (s.run ops).2 = ops.map (fun _ => []) ∧ (s.run ops).1.crashed = s.crashed ∧ (s.run ops).1.stopped = true := by
  induction ops generalizing s with
  | nil => exact ⟨rfl, rfl, h⟩
  | cons op rest ih =>
    obtain ⟨h1, h2, h3, _⟩ := s.op_stopped op h
    obtain ⟨i1, i2, i3⟩ := ih (s.op op).1 h2
    simp only [Sys.run, List.map_cons]
    exact ⟨by rw [h1, i1], by rw [i2, h3], i3⟩

/-- the final file system of a history -/
def fsRun (fs : FS) : List Op → FS
  | [] => fs
  | op :: rest => fsRun (fsAfter fs op) rest

theorem run_fs (s : Sys) (ops : List Op) : (s.run ops).1.fs = fsRun s.fs ops := by
  induction ops generalizing s with
  | nil => rfl
  | cons op rest ih => simp only [Sys.run, fsRun]; rw [ih, Sys.op_fs]

/-- REFINEMENT (recursive watch): from any state that satisfies the invariant, a history of valid operations
    delivers exactly the contract's events, never crashes the reader, and keeps the invariant while the
    emitter runs -/
theorem run_rec (s : Sys) (ops : List Op) (inv : InvRec s.fs s.k s.lib) (hs : s.stopped = false) (hc : s.crashed = false)
    (hv : allValid s ops = true) :
    (s.run ops).2 = contractRun s.fs true s.full ops ∧ (s.run ops).1.crashed = false ∧
    ((s.run ops).1.stopped = false → InvRec (s.run ops).1.fs (s.run ops).1.k (s.run ops).1.lib) := by
  induction ops generalizing s with
  | nil => exact ⟨rfl, hc, fun _ => inv⟩
  | cons op rest ih =>
    simp only [allValid, Bool.and_eq_true] at hv
    have st := step_rec s op inv hs hc hv.1
    simp only [Sys.run, contractRun]
    cases hst : (contract s.fs true s.full op).2 with
    | true =>
      have hstop : (s.op op).1.stopped = true := by rw [st.stop, hst]
      obtain ⟨r1, r2, r3⟩ := run_stopped (s.op op).1 rest hstop
      simp only [if_true]
      exact ⟨by rw [st.events, r1], by rw [r2, st.ncrash], fun h => by rw [r3] at h; cases h⟩
    | false =>
      have hstop : (s.op op).1.stopped = false := by rw [st.stop, hst]
      obtain ⟨i1, i2, i3⟩ := ih (s.op op).1 (st.inv hst) hstop st.ncrash hv.2
      simp only [Bool.false_eq_true, if_false]
      exact ⟨by rw [st.events, i1, st.full, Sys.op_fs], i2, i3⟩

/- ---------------- the start of a recursive watch ---------------- -/

theorem start_rec (fs0 : FS) (hwf : fs0.WF) (full : Bool) :
    InvRec (Sys.start fs0 true full).fs (Sys.start fs0 true full).k (Sys.start fs0 true full).lib ∧
    (Sys.start fs0 true full).stopped = false ∧ (Sys.start fs0 true full).crashed = false ∧
    (Sys.start fs0 true full).fs = fs0 ∧ (Sys.start fs0 true full).full = full := by
  obtain ⟨r, hr, hrd⟩ := FS.isDir_iff.mp hwf.rootW
  have hrm := FS.find?_some hr
  let k0 : Kern := ⟨[], 1, 1⟩
  let l0 : Lib := ⟨[], [], [], true⟩
  have inv0 : InvOn (fun _ => False) none fs0 k0 l0 :=
    { wf := hwf, isRec := rfl, kwd := by simp [k0], kino := by simp [k0], klt := by simp [k0], good := by simp [k0],
      cover := fun _ _ _ h => h.elim, pfwDom := by simp [l0, lookupW_nil], zlt := by simp, zdead := by simp [k0],
      wfpInv := by simp [l0, lookupP_nil], wfpNodup := by simp [l0], pfwNodup := by simp [l0], cookies := by simp [l0] }
  let ds : List Ent := [r] ++ (fs0.descendants ["W"]).filter (·.isDir)
  have hds_mem : ∀ d ∈ ds, d ∈ fs0.ents ∧ inTreeDir d = true ∧ k0.wdOfIno d.ino = none := by
    intro d hd
    rcases List.mem_append.mp hd with h | h
    · simp at h; subst h
      exact ⟨hrm.1, by rw [inTreeDir_iff]; exact ⟨hrd, Or.inl hrm.2⟩, by simp [Kern.wdOfIno, k0]⟩
    · obtain ⟨h1, h2⟩ := List.mem_filter.mp h
      obtain ⟨h3, h4⟩ := List.mem_filter.mp h1
      exact ⟨h3, by rw [inTreeDir_iff]; exact ⟨by simpa using h2, Or.inr h4⟩, by simp [Kern.wdOfIno, k0]⟩
  have hds_nd : ds.Nodup := by
    have hsub : ((fs0.descendants ["W"]).filter (·.isDir)).Nodup :=
      List.Nodup.sublist (List.filter_sublist.trans List.filter_sublist) (nodup_of_map_nodup _ hwf.paths)
    refine List.nodup_append.mpr ⟨by simp, hsub, ?_⟩
    intro a ha b hb hab
    simp at ha; subst ha; subst hab
    have := (List.mem_filter.mp (List.mem_filter.mp hb).1).2
    rw [hrm.2, isUnder_irrefl] at this; cases this
  obtain ⟨i1, _, _, _⟩ := addTree_fold hwf ds k0 l0 _ inv0 hds_nd hds_mem
  have hstart : Sys.start fs0 true full =
      { fs := fs0, k := (ds.foldl (addStep fs0) (k0, l0)).1, lib := (ds.foldl (addStep fs0) (k0, l0)).2, full := full } := by
    simp only [Sys.start, libInit, if_true, addTreeWatches_eq, hr, Option.toList_some]
    rfl
  rw [hstart]
  refine ⟨i1.mono ?_, rfl, rfl, rfl, rfl⟩
  intro y hy hty _
  right
  rcases (inTreeDir_iff.mp hty).2 with h | h
  · have : y = r := hwf.path_inj hy hrm.1 (h.trans hrm.2.symm)
    simp [ds, this]
  · apply List.mem_append_right
    exact List.mem_filter.mpr ⟨List.mem_filter.mpr ⟨hy, h⟩, by simpa using (inTreeDir_iff.mp hty).1⟩

end WD.Pipe

namespace WD.Pipe

theorem Sys.op_full (s : Sys) (op : Op) : (s.op op).1.full = s.full := by
  unfold Sys.op
  generalize kernelOp s.fs s.k op = r
  obtain ⟨a, b, c⟩ := r
  simp only
  split
  · rfl
  · split
    · rfl
    · split <;> rfl

theorem run_full (s : Sys) (ops : List Op) : (s.run ops).1.full = s.full := by
  induction ops generalizing s with
  | nil => rfl
  | cons o rest ih => simp only [Sys.run]; rw [ih, Sys.op_full]

theorem allValid_append (s : Sys) (ops more : List Op) :
    allValid s (ops ++ more) = (allValid s ops && allValid (s.run ops).1 more) := by
  induction ops generalizing s with
  | nil => simp [allValid, Sys.run]
  | cons o rest ih => simp only [List.cons_append, allValid, Sys.run, ih, Bool.and_assoc]

end WD.Pipe
