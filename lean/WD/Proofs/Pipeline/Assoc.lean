/- association-list facts for the two watch maps of the pipeline model -/
import WD.Model.Pipeline
set_option linter.unusedSimpArgs false
namespace WD.Pipe

theorem inj_of_nodup_map {α β : Type} {f : α → β} : ∀ {l : List α}, (l.map f).Nodup → ∀ {a b : α}, a ∈ l → b ∈ l → f a = f b → a = b
  | [], _, _, _, ha, _, _ => by simp at ha
  | x :: l, hn, a, b, ha, hb, hab => by
    simp only [List.map_cons, List.nodup_cons] at hn
    rcases List.mem_cons.mp ha with ha1 | ha1 <;> rcases List.mem_cons.mp hb with hb1 | hb1
    · rw [ha1, hb1]
    · rw [ha1] at hab; exact absurd (List.mem_map.mpr ⟨b, hb1, hab.symm⟩ : f x ∈ l.map f) hn.1
    · rw [hb1] at hab; exact absurd (List.mem_map.mpr ⟨a, ha1, hab⟩ : f x ∈ l.map f) hn.1
    · exact inj_of_nodup_map hn.2 ha1 hb1 hab

theorem lookupP_nil (p : P) : lookupP [] p = none := rfl
theorem lookupW_nil (w : Nat) : lookupW [] w = none := rfl

theorem lookupP_cons (x : P × Nat) (l : List (P × Nat)) (p : P) :
    lookupP (x :: l) p = if x.1 = p then some x.2 else lookupP l p := by
  unfold lookupP
  by_cases h : x.1 = p <;> simp [List.find?_cons, h]

theorem lookupW_cons (x : Nat × P) (l : List (Nat × P)) (w : Nat) :
    lookupW (x :: l) w = if x.1 = w then some x.2 else lookupW l w := by
  unfold lookupW
  by_cases h : x.1 = w <;> simp [List.find?_cons, h]

theorem lookupP_some_mem {l : List (P × Nat)} {p : P} {w : Nat} (h : lookupP l p = some w) : (p, w) ∈ l := by
  induction l with
  | nil => simp [lookupP_nil] at h
  | cons x l ih =>
    rw [lookupP_cons] at h
    by_cases hx : x.1 = p
    · simp [hx] at h; subst hx; subst h; simp
    · simp [hx] at h; exact List.mem_cons_of_mem _ (ih h)

theorem lookupW_some_mem {l : List (Nat × P)} {w : Nat} {p : P} (h : lookupW l w = some p) : (w, p) ∈ l := by
  induction l with
  | nil => simp [lookupW_nil] at h
  | cons x l ih =>
    rw [lookupW_cons] at h
    by_cases hx : x.1 = w
    · simp [hx] at h; subst hx; subst h; simp
    · simp [hx] at h; exact List.mem_cons_of_mem _ (ih h)

theorem lookupP_of_mem {l : List (P × Nat)} (hn : (l.map (·.1)).Nodup) {p : P} {w : Nat} (h : (p, w) ∈ l) :
    lookupP l p = some w := by
  induction l with
  | nil => simp at h
  | cons x l ih =>
    rw [lookupP_cons]
    simp only [List.map_cons, List.nodup_cons] at hn
    rcases List.mem_cons.mp h with h | h
    · subst h; simp
    · have : x.1 ≠ p := by
        intro hx; apply hn.1; rw [hx]; exact List.mem_map.mpr ⟨(p, w), h, rfl⟩
      simp [this, ih hn.2 h]

theorem lookupW_of_mem {l : List (Nat × P)} (hn : (l.map (·.1)).Nodup) {w : Nat} {p : P} (h : (w, p) ∈ l) :
    lookupW l w = some p := by
  induction l with
  | nil => simp at h
  | cons x l ih =>
    rw [lookupW_cons]
    simp only [List.map_cons, List.nodup_cons] at hn
    rcases List.mem_cons.mp h with h | h
    · subst h; simp
    · have : x.1 ≠ w := by
        intro hx; apply hn.1; rw [hx]; exact List.mem_map.mpr ⟨(w, p), h, rfl⟩
      simp [this, ih hn.2 h]

theorem lookupP_none_iff {l : List (P × Nat)} {p : P} : lookupP l p = none ↔ p ∉ l.map (·.1) := by
  induction l with
  | nil => simp [lookupP_nil]
  | cons x l ih =>
    rw [lookupP_cons]
    by_cases hx : x.1 = p
    · simp [hx]
    · simp only [hx, if_false, ih, List.map_cons, List.mem_cons]
      constructor
      · intro h hh; rcases hh with hh | hh
        · exact hx hh.symm
        · exact h hh
      · intro h hh; exact h (Or.inr hh)

theorem lookupW_none_iff {l : List (Nat × P)} {w : Nat} : lookupW l w = none ↔ w ∉ l.map (·.1) := by
  induction l with
  | nil => simp [lookupW_nil]
  | cons x l ih =>
    rw [lookupW_cons]
    by_cases hx : x.1 = w
    · simp [hx]
    · simp only [hx, if_false, ih, List.map_cons, List.mem_cons]
      constructor
      · intro h hh; rcases hh with hh | hh
        · exact hx hh.symm
        · exact h hh
      · intro h hh; exact h (Or.inr hh)

/-- filtering keys out -/
theorem lookupP_filter_ne (l : List (P × Nat)) (q p : P) :
    lookupP (l.filter (fun x => x.1 != q)) p = if p = q then none else lookupP l p := by
  induction l with
  | nil => simp [lookupP_nil]
  | cons x l ih =>
    by_cases hx : x.1 = q
    · simp only [List.filter_cons, hx, bne_self_eq_false, Bool.false_eq_true, if_false, ih, lookupP_cons]
      by_cases hp : p = q
      · simp [hp]
      · have : q ≠ p := fun h => hp h.symm
        simp [hp, this]
    · have hb : (x.1 != q) = true := by simp [hx]
      simp only [List.filter_cons, hb, if_true, lookupP_cons, ih]
      by_cases hp : p = q
      · subst hp; simp [hx]
      · simp [hp]

theorem lookupW_filter_ne (l : List (Nat × P)) (v w : Nat) :
    lookupW (l.filter (fun x => x.1 != v)) w = if w = v then none else lookupW l w := by
  induction l with
  | nil => simp [lookupW_nil]
  | cons x l ih =>
    by_cases hx : x.1 = v
    · simp only [List.filter_cons, hx, bne_self_eq_false, Bool.false_eq_true, if_false, ih, lookupW_cons]
      by_cases hp : w = v
      · simp [hp]
      · have : v ≠ w := fun h => hp h.symm
        simp [hp, this]
    · have hb : (x.1 != v) = true := by simp [hx]
      simp only [List.filter_cons, hb, if_true, lookupW_cons, ih]
      by_cases hp : w = v
      · subst hp; simp [hx]
      · simp [hp]

theorem lookupP_append (l m : List (P × Nat)) (p : P) :
    lookupP (l ++ m) p = (lookupP l p).or (lookupP m p) := by
  induction l with
  | nil => simp [lookupP_nil]
  | cons x l ih =>
    simp only [List.cons_append, lookupP_cons, ih]
    by_cases hx : x.1 = p <;> simp [hx]

theorem lookupW_append (l m : List (Nat × P)) (w : Nat) :
    lookupW (l ++ m) w = (lookupW l w).or (lookupW m w) := by
  induction l with
  | nil => simp [lookupW_nil]
  | cons x l ih =>
    simp only [List.cons_append, lookupW_cons, ih]
    by_cases hx : x.1 = w <;> simp [hx]

theorem lookupP_map_set (l : List (P × Nat)) (q : P) (v : Nat) (p : P) :
    lookupP (l.map (fun x => if x.1 == q then (q, v) else x)) p =
      if p = q then (lookupP l q).map (fun _ => v) else lookupP l p := by
  induction l with
  | nil => simp [lookupP_nil]
  | cons x l ih =>
    simp only [List.map_cons, lookupP_cons, ih]
    by_cases hx : x.1 = q
    · simp only [hx, beq_self_eq_true, if_true]
      by_cases hp : p = q
      · simp [hp]
      · have : q ≠ p := fun h => hp h.symm
        simp [hp, this]
    · have hb : (x.1 == q) = false := by simp [hx]
      simp only [hb, Bool.false_eq_true, if_false]
      by_cases hp : p = q
      · subst hp; simp [hx]
      · simp [hp]

theorem lookupW_map_set (l : List (Nat × P)) (v : Nat) (q : P) (w : Nat) :
    lookupW (l.map (fun x => if x.1 == v then (v, q) else x)) w =
      if w = v then (lookupW l v).map (fun _ => q) else lookupW l w := by
  induction l with
  | nil => simp [lookupW_nil]
  | cons x l ih =>
    simp only [List.map_cons, lookupW_cons, ih]
    by_cases hx : x.1 = v
    · simp only [hx, beq_self_eq_true, if_true]
      by_cases hp : w = v
      · simp [hp]
      · have : v ≠ w := fun h => hp h.symm
        simp [hp, this]
    · have hb : (x.1 == v) = false := by simp [hx]
      simp only [hb, Bool.false_eq_true, if_false]
      by_cases hp : w = v
      · subst hp; simp [hx]
      · simp [hp]

/-- `dict[q] = v` -/
theorem lookupP_setP (l : List (P × Nat)) (q : P) (v : Nat) (p : P) :
    lookupP (setP l q v) p = if p = q then some v else lookupP l p := by
  unfold setP
  by_cases h : (lookupP l q).isSome
  · simp only [h, if_true, lookupP_map_set]
    by_cases hp : p = q
    · obtain ⟨a, ha⟩ := Option.isSome_iff_exists.mp h
      simp [hp, ha]
    · simp [hp]
  · simp only [h, Bool.false_eq_true, if_false, lookupP_append]
    have hn : lookupP l q = none := by simpa using h
    by_cases hp : p = q
    · subst hp; simp [hn, lookupP_cons, lookupP_nil]
    · have : q ≠ p := fun h => hp h.symm
      simp [hp, lookupP_cons, lookupP_nil, this]

theorem lookupW_setW (l : List (Nat × P)) (v : Nat) (q : P) (w : Nat) :
    lookupW (setW l v q) w = if w = v then some q else lookupW l w := by
  unfold setW
  by_cases h : (lookupW l v).isSome
  · simp only [h, if_true, lookupW_map_set]
    by_cases hp : w = v
    · obtain ⟨a, ha⟩ := Option.isSome_iff_exists.mp h
      simp [hp, ha]
    · simp [hp]
  · simp only [h, Bool.false_eq_true, if_false, lookupW_append]
    have hn : lookupW l v = none := by simpa using h
    by_cases hp : w = v
    · subst hp; simp [hn, lookupW_cons, lookupW_nil]
    · have : v ≠ w := fun h => hp h.symm
      simp [hp, lookupW_cons, lookupW_nil, this]

/-- key lists -/
theorem keys_setP (l : List (P × Nat)) (q : P) (v : Nat) :
    (setP l q v).map (·.1) = if (lookupP l q).isSome then l.map (·.1) else l.map (·.1) ++ [q] := by
  unfold setP
  by_cases h : (lookupP l q).isSome
  · simp only [h, if_true, List.map_map]
    apply List.map_congr_left
    intro x _
    by_cases hx : x.1 = q <;> simp [hx]
  · simp [h]

theorem keys_setW (l : List (Nat × P)) (v : Nat) (q : P) :
    (setW l v q).map (·.1) = if (lookupW l v).isSome then l.map (·.1) else l.map (·.1) ++ [v] := by
  unfold setW
  by_cases h : (lookupW l v).isSome
  · simp only [h, if_true, List.map_map]
    apply List.map_congr_left
    intro x _
    by_cases hx : x.1 = v <;> simp [hx]
  · simp [h]

theorem nodup_setP {l : List (P × Nat)} (hn : (l.map (·.1)).Nodup) (q : P) (v : Nat) :
    ((setP l q v).map (·.1)).Nodup := by
  rw [keys_setP]
  by_cases h : (lookupP l q).isSome
  · simpa [h] using hn
  · simp only [h, Bool.false_eq_true, if_false]
    have : lookupP l q = none := by simpa using h
    have hq := lookupP_none_iff.mp this
    exact List.nodup_append.mpr ⟨hn, by simp, by intro a ha b hb; simp at hb; subst hb; intro hab; subst hab; exact hq ha⟩

theorem nodup_setW {l : List (Nat × P)} (hn : (l.map (·.1)).Nodup) (v : Nat) (q : P) :
    ((setW l v q).map (·.1)).Nodup := by
  rw [keys_setW]
  by_cases h : (lookupW l v).isSome
  · simpa [h] using hn
  · simp only [h, Bool.false_eq_true, if_false]
    have : lookupW l v = none := by simpa using h
    have hq := lookupW_none_iff.mp this
    exact List.nodup_append.mpr ⟨hn, by simp, by intro a ha b hb; simp at hb; subst hb; intro hab; subst hab; exact hq ha⟩

theorem nodup_keys_filter {α β : Type} {l : List (α × β)} (hn : (l.map (·.1)).Nodup) (f : α × β → Bool) :
    ((l.filter f).map (·.1)).Nodup :=
  List.Nodup.sublist (List.Sublist.map _ List.filter_sublist) hn

end WD.Pipe
